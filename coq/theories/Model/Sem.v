(* Definitional interpreter of Penne-core (property C01; also used by C08, C09,
   C10, C11, C12 for execution oracles).  Big-step with fuel; undefined
   behaviour is an explicit result.  Integer arithmetic is the source semantics of
   Model/Lower.v (whose lowering is proved correct in Proofs/LowerProofs.v).

   Values live in a store of cells addressed by (allocation, path); variables
   name allocations; pointers are addresses; array views and slice pointers are
   addresses of arrays (the length is that of the array they denote). *)
From Coq Require Import ZArith Bool.
From PV Require Import Base.Common Base.IR Base.Bits Model.Lower.
Open Scope Z_scope.

Definition usize_bits : Z := 64.

Inductive ty :=
| TPrim (p : prim)
| TArr (n : Z) (t : ty)
| TPtr (t : ty)          (* &T *)
| TView (t : ty)         (* []T parameter: read-only view of an array of t *)
| TStruct (s : name).    (* struct or word; members by declaration *)

Inductive value :=
| VInt (p : prim) (v : Z)                      (* bool: 0/1, char8: byte *)
| VArr (vs : list value)
| VStruct (fields : list (name * value))
| VPtr (a : N) (path : list N)                 (* address: allocation + element/member path *)
| VUninit.

Inductive expr :=
| ELit (p : prim) (v : Z)
| EVar (x : name)                              (* value of x, auto-dereferenced *)
| EIndex (e : expr) (i : expr)                 (* e[i], e denotes an array place *)
| EMember (e : expr) (m : name)
| EBin (op : binop) (l r : expr)
| EUn (op : unop) (e : expr)
| ECast (p : prim) (e : expr)
| ELen (e : expr)                              (* |x| *)
| EAddr (depth : N) (e : expr)                 (* &x, &&x ...: address of the place, depth times *)
| ECall (f : name) (args : list expr)
| EArrLit (es : list expr)
| EStructLit (s : name) (fields : list (name * expr))
| ESizeOf (t : ty)
| EParen (e : expr).

Inductive cmp := Cmp (op : cmpop) (l r : expr).

Inductive pitem := PStr (bytes : list N) | PExpr (e : expr).

Inductive stmt :=
| SDecl (x : name) (t : ty) (init : option expr)
| SAssign (lhs : expr) (rhs : expr)            (* lhs is a place expression; auto-deref *)
| SAssignAddr (depth : N) (lhs : name) (rhs : expr)   (* &a = &b : retarget pointer a *)
| SIf (c : cmp) (t : stmt) (e : option stmt)
| SGoto (l : name)
| SLabel (l : name)
| SBlock (b : list stmt)
| SLoop
| SCall (f : name) (args : list expr)
| SPrint (items : list pitem).

Record func := { fname : name; fparams : list (name * ty); fret : option ty;
                 fbody : list stmt; fresult : option expr }.

Record sdecl := { sname : name; smembers : list (name * ty) }.
Record program := { structs : list sdecl; consts : list (name * ty * expr); funcs : list func }.

(* ---- store ------------------------------------------------------------------ *)
Record state := { store : list (N * value); nexta : N; out : list N }.

Definition env := list (name * N).      (* variable -> allocation *)

Fixpoint lookup {A} (x : N) (l : list (N * A)) : option A :=
  match l with
  | [] => None
  | (y, v) :: r => if N.eqb x y then Some v else lookup x r
  end.

Fixpoint update {A} (x : N) (v : A) (l : list (N * A)) : list (N * A) :=
  match l with
  | [] => []
  | (y, w) :: r => if N.eqb x y then (y, v) :: r else (y, w) :: update x v r
  end.

Definition alloc (v : value) (st : state) : N * state :=
  (nexta st, {| store := (nexta st, v) :: store st; nexta := N.succ (nexta st); out := out st |}).

Fixpoint get_path (v : value) (p : list N) : option value :=
  match p with
  | [] => Some v
  | i :: r =>
      match v with
      | VArr vs => match nth_error vs (N.to_nat i) with Some w => get_path w r | None => None end
      | VStruct fs => match lookup i fs with Some w => get_path w r | None => None end
      | _ => None
      end
  end.

Fixpoint set_nth {A} (n : nat) (x : A) (l : list A) : option (list A) :=
  match n, l with
  | O, _ :: r => Some (x :: r)
  | S n', y :: r => match set_nth n' x r with Some r' => Some (y :: r') | None => None end
  | _, [] => None
  end.

Fixpoint set_path (v : value) (p : list N) (nv : value) : option value :=
  match p with
  | [] => Some nv
  | i :: r =>
      match v with
      | VArr vs =>
          match nth_error vs (N.to_nat i) with
          | Some w => match set_path w r nv with
                      | Some w' => match set_nth (N.to_nat i) w' vs with Some vs' => Some (VArr vs') | None => None end
                      | None => None end
          | None => None
          end
      | VStruct fs =>
          match lookup i fs with
          | Some w => match set_path w r nv with Some w' => Some (VStruct (update i w' fs)) | None => None end
          | None => None
          end
      | _ => None
      end
  end.

Definition load (a : N) (p : list N) (st : state) : option value :=
  match lookup a (store st) with Some v => get_path v p | None => None end.

Definition storev (a : N) (p : list N) (nv : value) (st : state) : option state :=
  match lookup a (store st) with
  | Some v => match set_path v p nv with
              | Some v' => Some {| store := update a v' (store st); nexta := nexta st; out := out st |}
              | None => None end
  | None => None
  end.

(* ---- results ---------------------------------------------------------------- *)
Inductive res (A : Type) := Ok (a : A) | UB | Stuck | OutOfFuel.
Arguments Ok {A}. Arguments UB {A}. Arguments Stuck {A}. Arguments OutOfFuel {A}.

Definition bind {A B} (r : res A) (f : A -> res B) : res B :=
  match r with Ok a => f a | UB => UB | Stuck => Stuck | OutOfFuel => OutOfFuel end.
Notation "'do' x <- r ; k" := (bind r (fun x => k)) (at level 200, x pattern, r at level 100, k at level 200).
Definition of_opt {A} (o : option A) : res A := match o with Some a => Ok a | None => Stuck end.

(* ---- types and values --------------------------------------------------------- *)
Definition pbits (p : prim) : Z := vt_bits usize_bits p.
Definition psigned (p : prim) : bool := vt_is_signed p.

Fixpoint zero_value (structs : list sdecl) (fuel : nat) (t : ty) : value :=
  match fuel with
  | O => VUninit
  | S f =>
    match t with
    | TPrim p => VUninit
    | TArr n t' => VArr (repeat (zero_value structs f t') (Z.to_nat n))
    | TPtr _ => VUninit
    | TView _ => VUninit
    | TStruct s =>
        match find (fun d => N.eqb (sname d) s) structs with
        | Some d => VStruct (map (fun m => (fst m, zero_value structs f (snd m))) (smembers d))
        | None => VUninit
        end
    end
  end.

(* auto-dereference: follow pointers until a non-pointer value *)
Fixpoint deref_addr (fuel : nat) (a : N) (p : list N) (st : state) : res (N * list N) :=
  match fuel with
  | O => OutOfFuel
  | S f =>
      match load a p st with
      | Some (VPtr a' p') => deref_addr f a' p' st
      | Some VUninit => UB
      | Some _ => Ok (a, p)
      | None => Stuck
      end
  end.

Definition decimal_digits (fuel : nat) (v : Z) : list N :=
  (fix go (fuel : nat) (v : Z) (acc : list N) : list N :=
     match fuel with
     | O => acc
     | S f => if v <? 10 then Z.to_N (48 + v) :: acc
              else go f (v / 10) (Z.to_N (48 + v mod 10) :: acc)
     end) fuel v [].

Definition show_int (v : Z) : list N :=
  if v <? 0 then 45%N :: decimal_digits 50 (- v) else decimal_digits 50 v.

Definition str_true : list N := [116; 114; 117; 101]%N.
Definition str_false : list N := [102; 97; 108; 115; 101]%N.

Definition show_value (v : value) : res (list N) :=
  match v with
  | VInt Bool b => Ok (if b =? 0 then str_false else str_true)
  | VInt Char8 c => Ok [Z.to_N c]
  | VInt _ x => Ok (show_int x)
  | VUninit => UB
  | _ => Stuck
  end.

(* ---- expressions --------------------------------------------------------------- *)
Section Interp.
Variable prog : program.
Variable genv : env.   (* allocations of the module's constants *)

Definition find_func (f : name) : option func := find (fun d => N.eqb (fname d) f) (funcs prog).

Inductive outcome := Normal | Jump (l : name).

(* the statements after label l in the list (labels are direct children) *)
Fixpoint jump_target (l : name) (ss : list stmt) {struct ss} : option (list stmt) :=
  match ss with
  | [] => None
  | SLabel l' :: r => if N.eqb l l' then Some r else jump_target l r
  | _ :: r => jump_target l r
  end.

Definition array_len (v : value) : res Z :=
  match v with VArr vs => Ok (Z.of_nat (length vs)) | VUninit => UB | _ => Stuck end.

(* The interpreter proper.  [eval_place] yields the address a place expression
   denotes AFTER auto-dereferencing; [eval] yields a value. *)
Fixpoint eval (fuel : nat) (e : expr) (en : env) (st : state) {struct fuel} : res (value * state) :=
  match fuel with
  | O => OutOfFuel
  | S f =>
    match e with
    | ELit p v => Ok (VInt p v, st)
    | EParen e' => eval f e' en st
    | EVar _ | EIndex _ _ | EMember _ _ =>
        do (a, p, st) <- eval_place f e en st;
        match load a p st with
        | Some VUninit => UB
        | Some v => Ok (v, st)
        | None => Stuck
        end
    | EBin op l r =>
        do (vl, st) <- eval f l en st;
        do (vr, st) <- eval f r en st;
        match vl, vr with
        | VInt p x, VInt q y =>
            if prim_eqb p q then
              match src_binop op (psigned p) (pbits p) x y with
              | Some v => Ok (VInt p v, st)
              | None => UB
              end
            else Stuck
        | _, _ => Stuck
        end
    | EUn op e' =>
        do (v, st) <- eval f e' en st;
        match v with
        | VInt Bool b => match op with BitwiseComplement => Ok (VInt Bool (1 - b), st) | _ => Stuck end
        | VInt p x => match src_unop op (psigned p) (pbits p) x with
                      | Some r => Ok (VInt p r, st) | None => UB end
        | _ => Stuck
        end
    | ECast d e' =>
        do (v, st) <- eval f e' en st;
        match v with
        | VInt s x => Ok (VInt d (src_cast (psigned d) (pbits d) x), st)
        | _ => Stuck
        end
    | ELen e' =>
        do (a, p, st) <- eval_place f e' en st;
        do v <- of_opt (load a p st);
        do n <- array_len v;
        Ok (VInt Usize n, st)
    | EAddr depth e' =>
        (* &x: address of the place x denotes (after auto-deref); deeper levels are
           only meaningful for pointer variables and are not generated *)
        do (a, p, st) <- eval_place f e' en st;
        Ok (VPtr a p, st)
    | ECall g args =>
        do (vs, st) <- eval_args f args en st;
        do (r, st) <- call f g vs st;
        match r with Some v => Ok (v, st) | None => Stuck end
    | EArrLit es =>
        do (vs, st) <- eval_args f es en st;
        Ok (VArr vs, st)
    | EStructLit s fields =>
        do (vs, st) <- eval_args f (map snd fields) en st;
        Ok (VStruct (combine (map fst fields) vs), st)
    | ESizeOf _ => Stuck
    end
  end

with eval_args (fuel : nat) (es : list expr) (en : env) (st : state) {struct fuel} : res (list value * state) :=
  match fuel with
  | O => OutOfFuel
  | S f =>
    match es with
    | [] => Ok ([], st)
    | e :: r =>
        do (v, st) <- eval f e en st;
        do (vs, st) <- eval_args f r en st;
        Ok (v :: vs, st)
    end
  end

with eval_place (fuel : nat) (e : expr) (en : env) (st : state) {struct fuel} : res (N * list N * state) :=
  match fuel with
  | O => OutOfFuel
  | S f =>
    match e with
    | EVar x =>
        do a <- of_opt (lookup x en);
        do (a', p') <- deref_addr 64 a [] st;
        Ok (a', p', st)
    | EParen e' => eval_place f e' en st
    | EIndex e' i =>
        do (a, p, st) <- eval_place f e' en st;
        do (vi, st) <- eval f i en st;
        match vi with
        | VInt _ n =>
            do v <- of_opt (load a p st);
            do len <- array_len v;
            if (0 <=? n) && (n <? len) then
              do (a', p') <- deref_addr 64 a (p ++ [Z.to_N n]) st;
              Ok (a', p', st)
            else UB
        | _ => Stuck
        end
    | EMember e' m =>
        do (a, p, st) <- eval_place f e' en st;
        do (a', p') <- deref_addr 64 a (p ++ [m]) st;
        Ok (a', p', st)
    | _ => Stuck
    end
  end

(* call: parameters are bound to fresh allocations holding the argument values
   (views and pointers arrive as VPtr values). *)
with call (fuel : nat) (g : name) (vs : list value) (st : state) {struct fuel} : res (option value * state) :=
  match fuel with
  | O => OutOfFuel
  | S f =>
    do fn <- of_opt (find_func g);
    if negb (Nat.eqb (length vs) (length (fparams fn))) then Stuck else
    let '(en, st) :=
      fold_left (fun '(en, st) '(x, v) => let '(a, st) := alloc v st in ((x, a) :: en, st))
                (combine (map fst (fparams fn)) vs) (genv, st) in
    do (o, en, st) <- exec_list f (fbody fn) en st;
    match o with
    | Jump _ => Stuck
    | Normal =>
        match fresult fn with
        | None => Ok (None, st)
        | Some e => do (v, st) <- eval f e en st; Ok (Some v, st)
        end
    end
  end

with exec (fuel : nat) (s : stmt) (en : env) (st : state) {struct fuel} : res (outcome * env * state) :=
  match fuel with
  | O => OutOfFuel
  | S f =>
    match s with
    | SDecl x t init =>
        match init with
        | Some e =>
            do (v, st) <- eval f e en st;
            let '(a, st) := alloc v st in Ok (Normal, (x, a) :: en, st)
        | None =>
            let '(a, st) := alloc (zero_value (structs prog) 8 t) st in Ok (Normal, (x, a) :: en, st)
        end
    | SAssign lhs rhs =>
        do (v, st) <- eval f rhs en st;
        do (a, p, st) <- eval_place f lhs en st;
        do st <- of_opt (storev a p v st);
        Ok (Normal, en, st)
    | SAssignAddr _ x rhs =>
        do (v, st) <- eval f rhs en st;
        do a <- of_opt (lookup x en);
        do st <- of_opt (storev a [] v st);
        Ok (Normal, en, st)
    | SIf (Cmp op l r) t e =>
        do (vl, st) <- eval f l en st;
        do (vr, st) <- eval f r en st;
        match vl, vr with
        | VInt _ x, VInt _ y =>
            if src_cmp op x y then exec f t en st
            else match e with Some e' => exec f e' en st | None => Ok (Normal, en, st) end
        | _, _ => Stuck
        end
    | SGoto l => Ok (Jump l, en, st)
    | SLabel _ => Ok (Normal, en, st)
    | SBlock b =>
        do (o, _, st) <- exec_block f b b en en st;
        Ok (o, en, st)
    | SLoop => Stuck       (* only as last statement of a block: handled by exec_block *)
    | SCall g args =>
        do (vs, st) <- eval_args f args en st;
        do (_, st) <- call f g vs st;
        Ok (Normal, en, st)
    | SPrint items =>
        do st <- print f items [] en st;
        Ok (Normal, en, st)
    end
  end

(* a block: [whole] is kept to restart at `loop` *)
with exec_block (fuel : nat) (whole rest : list stmt) (en0 en : env) (st : state) {struct fuel} : res (outcome * env * state) :=
  match fuel with
  | O => OutOfFuel
  | S f =>
    match rest with
    | [] => Ok (Normal, en, st)
    | [SLoop] => exec_block f whole whole en0 en0 st
    | s :: r =>
        do (o, en', st) <- exec f s en st;
        match o with
        | Normal => exec_block f whole r en0 en' st
        | Jump l =>
            match jump_target l r with
            | Some r' => exec_block f whole r' en0 en' st
            | None => Ok (Jump l, en', st)
            end
        end
    end
  end

with exec_list (fuel : nat) (ss : list stmt) (en : env) (st : state) {struct fuel} : res (outcome * env * state) :=
  match fuel with
  | O => OutOfFuel
  | S f =>
    match ss with
    | [] => Ok (Normal, en, st)
    | s :: r =>
        do (o, en', st) <- exec f s en st;
        match o with
        | Normal => exec_list f r en' st
        | Jump l =>
            match jump_target l r with
            | Some r' => exec_list f r' en' st
            | None => Ok (Jump l, en', st)
            end
        end
    end
  end

(* print!: all items are evaluated first (a callee's own output therefore comes
   first), the formatted text is written once (generator.rs: generate_format builds
   one snprintf call, then one write) *)
with print (fuel : nat) (items : list pitem) (acc : list N) (en : env) (st : state) {struct fuel} : res state :=
  match fuel with
  | O => OutOfFuel
  | S f =>
    match items with
    | [] => Ok {| store := store st; nexta := nexta st; out := out st ++ acc |}
    | PStr bs :: r => print f r (acc ++ bs) en st
    | PExpr e :: r =>
        do (v, st) <- eval f e en st;
        do bs <- show_value v;
        print f r (acc ++ bs) en st
    end
  end.
End Interp.

(* ---- whole programs -------------------------------------------------------------- *)
Fixpoint alloc_consts (fuel : nat) (prog : program) (cs : list (name * ty * expr)) (genv : env) (st : state)
  : res (env * state) :=
  match cs with
  | [] => Ok (genv, st)
  | (x, _, e) :: r =>
      do (v, st) <- eval prog genv fuel e genv st;
      let '(a, st) := alloc v st in
      alloc_consts fuel prog r ((x, a) :: genv) st
  end.

Definition init_state : state := {| store := []; nexta := 1%N; out := [] |}.

(* exit status: main's return value modulo 256 (0 for a void main) *)
Definition run_main (fuel : nat) (prog : program) (main : name) : res (Z * list N) :=
  do (genv, st) <- alloc_consts fuel prog (consts prog) [] init_state;
  do (r, st) <- call prog genv fuel main [] st;
  match r with
  | None => Ok (0, out st)
  | Some (VInt _ v) => Ok (v mod 256, out st)
  | Some _ => Stuck
  end.
