(* The typer's coercion lattice and `Reference::autoderef` (property "the compiler never
   crashes" on reference expressions; known defect D11).

   Executable definitions only.  Sources mirrored (line numbers of /tmp/pc = /repo HEAD):

   src/alpha/value_type.rs
     [vt]                         enum ValueType; this is PV.Model.TypeLegal.vty, which has
                                  all 25 variants (the 14 primitives are [VPrim k]); the
                                  well-formedness predicates are TypeLegal's
     [prim_eqb] [oname_eqb] [vt_eqb]
                                  `#[derive(PartialEq)]` on ValueType<Identifier>; an
                                  Identifier is its resolution id (common.rs:510
                                  `impl PartialEq for Identifier`, branch resolution_id > 0)
     [is_alias_of]                :199      [equals]                    :208
     [is_like]                    :275      [can_be_declared_as]        :310
     [can_be_concretization_of]   :348      [can_coerce_into]           :449
     [can_coerce_address_into]    :506      [can_autoderef_into]        :540
     [can_subautoderef_into]      :591
     [get_element_type]           :801      [get_pointee_type]          :833
     [get_viewee_type]            :845      [fully_dereferenced]        :854
     [pointer_depth] [add_pointer_depth]    :867 :872
     [is_slice_pointer]           :885
   src/alpha/typer.rs
     [max_num_autoderef_steps]    const MAX_NUM_AUTODEREF_STEPS (:18), from PV.Gen.Limits
     [astep]                      the steps the parser produces (ReferenceStep::Element
                                  { is_endless: None } / Member), parser.rs:1927-1950
     [tstep]                      common.rs ReferenceStep after the typer
     [autoderef_loop]             Reference::autoderef, the `for _i in
                                  0..MAX_NUM_AUTODEREF_STEPS` loop, :2648-2873.  When the
                                  budget runs out the Rust loop just ends; the steps not
                                  yet consumed are DROPPED.  The model returns them as the
                                  third component of [LoopDone] so that theorems can talk
                                  about them; [autoderef] ignores them, as the Rust does.
     [autoderef_finish]           the if / else-if chain, :2875-2973, with the first take-address
                                  arm (:2907) as REPAIRED in /tmp/pc2 (there :2916):
                                  `address_depth == 1 + current_type.pointer_depth()` instead
                                  of `address_depth > 0`; [address_arm_cond] is that
                                  condition, [autoderef_finish_gen true] =
                                  [autoderef_finish_pinned] / [autoderef_pinned] keep the
                                  code of the pinned source
     [autoderef]                  Reference::autoderef, :2631-3006, up to the final
                                  `typer.put_symbol(base, full_type)`
     [build_type_of_ref1]         fn build_type_of_ref1, :3027-3080 (the type handed to that
                                  put_symbol)
     [result_type]                Expression::value_type, arms Deref / Autocoerce, :1582-1589
     [ref_final] [fits] [type_of_reference]
                                  Typer::get_type_of_reference, :273-423: the walk over the
                                  steps with `fully_dereferenced` after each, the
                                  address_depth loop (:402-411) and the View around an
                                  EndlessArray (:412-421); [fits] = "it returns Some(Ok _)"
     [deref_target]               Reference::analyze_deref_expression, the three arms that
                                  call autoderef, :2483-2502
     [argument_coercion]          Typer::analyze_hinted_arguments, :476-487 (the only other
                                  producer of Expression::Autocoerce)
     [resolve_vt]                 fn analyze_type, :3202-3214: ArrayWithNamedLength becomes
                                  Array (resolver.rs:958 has `unreachable!()` for it)
   src/alpha/generator.rs
     [expr_shape] [arm] [autocoerce_arm] [arm_ok]
                                  fn generate_autocoerce, :1929-2082 (Parenthesized is
                                  looked through at :1935, so a shape is never that)

   Spec-level helpers (no Rust counterpart; used to state theorems):
     [strip_for_element] [strip_all] [walk]   the loop without a budget
     [iterations]                 how many loop iterations a list of taken steps costs
     [ptr_run] [runs_ok]          longest run of Pointer / View constructors
     [apply_tsteps]               what type a list of taken steps reaches
     [pred_table]                 interface for the correspondence check.

   Panic sites of [ADPanic] / [LoopPanic]:
     1   typer.rs:2866  panic!("failed to autoderef, ...")
     2   typer.rs:2850 / :2851  unreachable!() -- the member has no (unpoisoned) symbol
     3   typer.rs:2949  panic!("This currently has no solution because fully_dereferenced
                        makes no sense here.")                                    (D11) *)
From PV Require Import Base.Common Model.TypeLegal.
From PV Require Gen.Limits.

Definition vt := vty.

Definition E538 : code := 538%N.   (* AddressOfTemporaryAddress *)

(* ---- derived PartialEq --------------------------------------------------------- *)

Definition prim_tag (k : prim) : N :=
  match k with
  | KVoid => 0 | KInt8 => 1 | KInt16 => 2 | KInt32 => 3 | KInt64 => 4 | KInt128 => 5
  | KUint8 => 6 | KUint16 => 7 | KUint32 => 8 | KUint64 => 9 | KUint128 => 10
  | KUsize => 11 | KChar8 => 12 | KBool => 13
  end%N.

Definition prim_eqb (a b : prim) : bool := N.eqb (prim_tag a) (prim_tag b).

Definition oname_eqb (a b : option name) : bool :=
  match a, b with
  | Some x, Some y => N.eqb x y
  | None, None => true
  | _, _ => false
  end.

Fixpoint vt_eqb (a b : vt) : bool :=
  match a, b with
  | VPrim k, VPrim l => prim_eqb k l
  | VArray e n, VArray f m => vt_eqb e f && N.eqb n m
  | VArrayNamed e x, VArrayNamed f y => vt_eqb e f && N.eqb x y
  | VSlice e, VSlice f => vt_eqb e f
  | VSlicePointer e, VSlicePointer f => vt_eqb e f
  | VEndless e, VEndless f => vt_eqb e f
  | VArraylike e, VArraylike f => vt_eqb e f
  | VStruct i, VStruct j => N.eqb i j
  | VWord i n, VWord j m => N.eqb i j && N.eqb n m
  | VUnresolved i, VUnresolved j => oname_eqb i j
  | VPointer d, VPointer e => vt_eqb d e
  | VView d, VView e => vt_eqb d e
  | _, _ => false
  end.

(* ---- value_type.rs -------------------------------------------------------------- *)

(* :199 *)
Definition is_alias_of (a b : vt) : bool :=
  match a, b with
  | VPrim KChar8, VPrim KUint8 => true
  | _, _ => false
  end.

(* :208 *)
Fixpoint equals (a b : vt) : bool :=
  match a with
  | VArray e la =>                                                     (* :212 *)
      match b with VArray f lb => N.eqb la lb && equals e f | _ => false end
  | VArrayNamed e x =>                                                 (* :223 *)
      match b with VArrayNamed f y => N.eqb x y && equals e f | _ => false end
  | VSlice e => match b with VSlice f => equals e f | _ => false end   (* :234 *)
  | VSlicePointer e =>                                                 (* :239 *)
      match b with VSlicePointer f => equals e f | _ => false end
  | VEndless e => match b with VEndless f => equals e f | _ => false end       (* :244 *)
  | VArraylike e => match b with VArraylike f => equals e f | _ => false end   (* :249 *)
  | VStruct _ => vt_eqb a b                                            (* :254 *)
  | VWord _ _ => vt_eqb a b                                            (* :255 *)
  | VView d => match b with VView e => equals d e | _ => false end     (* :256 *)
  | VPointer d => match b with VPointer e => equals d e | _ => false end       (* :261 *)
  | VPrim _ | VUnresolved _ =>                                         (* :266 *)
      vt_eqb a b || is_alias_of a b || is_alias_of b a
  end.

(* :275 *)
Fixpoint is_like (a b : vt) : bool :=
  match a with
  | VArray e _ =>                                                      (* :279 *)
      match b with VArraylike f => is_like e f | _ => vt_eqb a b end
  | VArrayNamed e _ =>                                                 (* :287 *)
      match b with VArraylike f => is_like e f | _ => vt_eqb a b end
  | VEndless e =>                                                      (* :295 *)
      match b with VArraylike f => is_like e f | _ => vt_eqb a b end
  | VStruct _ | VWord _ _ =>                                           (* :300 *)
      match b with VUnresolved None => true | _ => vt_eqb a b end
  | _ => vt_eqb a b                                                    (* :306 *)
  end.

(* :310 *)
Definition can_be_declared_as (a b : vt) : bool :=
  match a with
  | VArray e _ =>                                                      (* :314 *)
      match b with VArraylike f => vt_eqb e f | _ => vt_eqb a b end
  | VArrayNamed e _ =>                                                 (* :322 *)
      match b with VArraylike f => vt_eqb e f | _ => vt_eqb a b end
  | VSlice e =>                                                        (* :330 *)
      match b with VArraylike f => vt_eqb e f | _ => vt_eqb a b end
  | VSlicePointer e =>                                                 (* :335 *)
      match b with
      | VPointer d => match d with VArraylike f => vt_eqb e f | _ => false end
      | _ => vt_eqb a b
      end
  | _ => vt_eqb a b                                                    (* :344 *)
  end.

(* :348 *)
Fixpoint can_be_concretization_of (a b : vt) : bool :=
  match a with
  | VArray e la =>                                                     (* :352 *)
      match b with
      | VArray f lb => N.eqb la lb && can_be_concretization_of e f
      | _ => is_like a b
      end
  | VArrayNamed e x =>                                                 (* :363 *)
      match b with
      | VArrayNamed f y => N.eqb x y && can_be_concretization_of e f
      | _ => is_like a b
      end
  | VSlice e =>                                                        (* :374 *)
      match b with
      | VSlice f => can_be_concretization_of e f
      | VArraylike f => is_like e f
      | _ => vt_eqb a b
      end
  | VSlicePointer e =>                                                 (* :383 *)
      match b with
      | VSlicePointer f => can_be_concretization_of e f
      | VArraylike f => is_like e f
      | VPointer d => match d with VArraylike f => is_like e f | _ => vt_eqb a b end
      | _ => vt_eqb a b
      end
  | VEndless e =>                                                      (* :397 *)
      match b with
      | VEndless f => can_be_concretization_of e f
      | _ => is_like a b
      end
  | VArraylike e =>                                                    (* :405 *)
      match b with
      | VArraylike f => can_be_concretization_of e f
      | _ => vt_eqb a b
      end
  | VStruct i =>                                                       (* :413 *)
      match b with
      | VUnresolved None => true
      | VUnresolved (Some j) => N.eqb i j
      | _ => vt_eqb a b
      end
  | VWord i _ =>                                                       (* :421 *)
      match b with
      | VUnresolved None => true
      | VUnresolved (Some j) => N.eqb i j
      | _ => vt_eqb a b
      end
  | VView d =>                                                         (* :429 *)
      match b with VView e => can_be_concretization_of d e | _ => vt_eqb a b end
  | VPointer d =>                                                      (* :437 *)
      match b with VPointer e => can_be_concretization_of d e | _ => vt_eqb a b end
  | _ => vt_eqb a b                                                    (* :445 *)
  end.

(* :449 *)
Definition can_coerce_into (a b : vt) : bool :=
  match a with
  | VArray e _ =>                                                      (* :453 *)
      match b with
      | VSlice f => equals e f
      | VView d => match d with VEndless f => equals e f | _ => false end
      | _ => false
      end
  | VArrayNamed e _ =>                                                 (* :466 *)
      match b with
      | VSlice f => equals e f
      | VView d => match d with VEndless f => equals e f | _ => false end
      | _ => false
      end
  | VSlice e =>                                                        (* :479 *)
      match b with
      | VView d => match d with VEndless f => equals e f | _ => false end
      | _ => false
      end
  | VSlicePointer e =>                                                 (* :488 *)
      match b with
      | VPointer d => match d with VEndless f => equals e f | _ => false end
      | _ => false
      end
  | VStruct _ =>                                                       (* :497 *)
      match b with VView d => vt_eqb d a | _ => false end
  | _ => false                                                         (* :502 *)
  end.

(* :506 *)
Definition can_coerce_address_into (a b : vt) : bool :=
  match a with
  | VArray e _ =>                                                      (* :510 *)
      match b with
      | VSlicePointer f => equals e f
      | VPointer d => match d with VEndless f => equals e f | _ => false end
      | _ => false
      end
  | VArrayNamed e _ =>                                                 (* :523 *)
      match b with
      | VSlicePointer f => equals e f
      | VPointer d => match d with VEndless f => equals e f | _ => false end
      | _ => false
      end
  | _ => false                                                         (* :536 *)
  end.

(* :801 *)
Definition get_element_type (t : vt) : option vt :=
  match t with
  | VArray e _ | VArrayNamed e _ | VSlice e | VSlicePointer e | VEndless e | VArraylike e =>
      Some e
  | _ => None
  end.

(* :833 *)
Definition get_pointee_type (t : vt) : option vt :=
  match t with VPointer d => Some d | _ => None end.

(* :845 *)
Definition get_viewee_type (t : vt) : option vt :=
  match t with VView d => Some d | _ => None end.

(* :854 *)
Fixpoint fully_dereferenced (t : vt) : vt :=
  match t with
  | VPointer d => fully_dereferenced d
  | VView d => fully_dereferenced d
  | _ => t
  end.

(* :872, :867 *)
Fixpoint add_pointer_depth (t : vt) (total : N) : N :=
  match t with
  | VPointer d => add_pointer_depth d (total + 1)
  | VSlicePointer _ => total + 1
  | _ => total
  end.

Definition pointer_depth (t : vt) : N := add_pointer_depth t 0.

(* :885 *)
Definition is_slice_pointer (t : vt) : bool :=
  match t with VSlicePointer _ => true | _ => false end.

(* `other.get_Xee_type().map_or(false, |t| d.can_subautoderef_into(&t))` *)
Definition map_or_false (o : option vt) (f : vt -> bool) : bool :=
  match o with Some t => f t | None => false end.

(* :591 *)
Fixpoint can_subautoderef_into (a b : vt) : bool :=
  match a with
  | VView d =>                                                         (* :595 *)
      equals d b || can_subautoderef_into d b
      || map_or_false (get_viewee_type b) (can_subautoderef_into d)
  | VPointer d =>                                                      (* :603 *)
      equals d b || can_subautoderef_into d b
      || map_or_false (get_pointee_type b) (can_subautoderef_into d)
  | _ => false                                                         (* :611 *)
  end.

(* :540 *)
Definition can_autoderef_into (a b : vt) : bool :=
  match a with
  | VArray _ _ | VArrayNamed _ _ | VSlice _ | VSlicePointer _ | VEndless _ | VStruct _ =>
      equals a b || can_coerce_into a b                                (* :544-567 *)
  | VView d =>                                                         (* :568 *)
      equals a b || equals d b || can_subautoderef_into d b
      || map_or_false (get_viewee_type b) (can_subautoderef_into d)
  | VPointer d =>                                                      (* :577 *)
      equals a b || equals d b || can_coerce_address_into d b
      || can_subautoderef_into d b
      || map_or_false (get_pointee_type b) (can_subautoderef_into d)
  | _ => false                                                         (* :587 *)
  end.

(* ---- typer.rs: steps ------------------------------------------------------------- *)

(* written steps; the parser always writes [AElement None] *)
Inductive astep : Type :=
| AElement (is_endless : option bool)
| AMember (member : N).

Inductive tstep : Type :=
| TElement (is_endless : option bool)
| TMember (member : N)
| TAutoderef
| TAutoview
| TAutodesliceByView
| TAutodesliceByPointer.

(* :18  MAX_REFERENCE_DEPTH * (MAX_ADDRESS_DEPTH + 1) + MAX_ADDRESS_DEPTH *)
Definition max_num_autoderef_steps : nat :=
  Z.to_nat (Limits.max_reference_depth * (Limits.max_address_depth + 1)
            + Limits.max_address_depth)%Z.

Inductive loop_result : Type :=
| LoopDone (taken : list tstep) (current_type : vt) (dropped : list astep)
| LoopPanic (site : N).

Definition loop_cons (pre : list tstep) (r : loop_result) : loop_result :=
  match r with
  | LoopDone taken ct rest => LoopDone (pre ++ taken) ct rest
  | LoopPanic s => LoopPanic s
  end.

(* :2648-2873.  [member_type m] = Some t  iff  typer.get_symbol(member) = Some(Ok(t)). *)
Fixpoint autoderef_loop (member_type : N -> option vt) (fuel : nat)
         (current_type : vt) (available : list astep) : loop_result :=
  match fuel with
  | O => LoopDone [] current_type available       (* the `for` ends; the rest is dropped *)
  | S fuel' =>
      match available with
      | [] => LoopDone [] current_type []                              (* :2652 break *)
      | s :: rest =>
          match current_type with
          | VPointer d =>
              match s with
              | AElement ie =>                                         (* :2658 *)
                  match d with
                  | VArraylike e =>
                      loop_cons [TElement ie] (autoderef_loop member_type fuel' e rest)
                  | _ => loop_cons [TAutoderef] (autoderef_loop member_type fuel' d available)
                  end
              | AMember _ =>                                           (* :2710 *)
                  loop_cons [TAutoderef] (autoderef_loop member_type fuel' d available)
              end
          | VView d =>
              match s with
              | AElement ie =>                                         (* :2684 *)
                  match d with
                  | VArraylike e =>
                      loop_cons [TElement ie] (autoderef_loop member_type fuel' e rest)
                  | _ => loop_cons [TAutoview] (autoderef_loop member_type fuel' d available)
                  end
              | AMember _ =>                                           (* :2715 *)
                  loop_cons [TAutoview] (autoderef_loop member_type fuel' d available)
              end
          | VArray e _ | VArrayNamed e _ =>                            (* :2721, :2741 *)
              match s with
              | AElement _ =>
                  loop_cons [TElement (Some false)] (autoderef_loop member_type fuel' e rest)
              | AMember _ => LoopPanic 1
              end
          | VEndless e =>                                              (* :2761 *)
              match s with
              | AElement _ =>
                  loop_cons [TElement (Some true)] (autoderef_loop member_type fuel' e rest)
              | AMember _ => LoopPanic 1
              end
          | VSlice e =>                                                (* :2778 *)
              match s with
              | AElement _ =>
                  loop_cons [TAutodesliceByView; TElement (Some false)]
                            (autoderef_loop member_type fuel' e rest)
              | AMember _ => LoopPanic 1
              end
          | VSlicePointer e =>                                         (* :2799 *)
              match s with
              | AElement _ =>
                  loop_cons [TAutodesliceByPointer; TElement (Some false)]
                            (autoderef_loop member_type fuel' e rest)
              | AMember _ => LoopPanic 1
              end
          | VArraylike e =>                                            (* :2821 *)
              match s with
              | AElement _ =>
                  loop_cons [TElement (Some true)] (autoderef_loop member_type fuel' e rest)
              | AMember _ => LoopPanic 1
              end
          | VStruct _ | VWord _ _ =>                                   (* :2838 *)
              match s with
              | AMember m =>
                  match member_type m with
                  | Some t => loop_cons [TMember m] (autoderef_loop member_type fuel' t rest)
                  | None => LoopPanic 2                                (* :2850, :2851 *)
                  end
              | AElement _ => LoopPanic 1
              end
          | VPrim _ | VUnresolved _ => LoopPanic 1                     (* :2862 *)
          end
      end
  end.

Inductive ad_result : Type :=
| ADOk (taken : list tstep) (take_address : bool) (deref_type : vt) (coerced : option vt)
| ADError (c : code)
| ADPanic (site : N).

Definition opt_vt_eqb (o : option vt) (t : vt) : bool :=
  match o with Some u => vt_eqb u t | None => false end.

Fixpoint wrap_pointers (n : nat) (t : vt) : vt :=
  match n with O => t | S n' => VPointer (wrap_pointers n' t) end.

(* the condition of the first take-address arm.  Repaired source (/tmp/pc2, :2916):
     self.address_depth as usize == 1 + current_type.pointer_depth()
   pinned source (/tmp/pc, :2907), which accepted `&&&a` for `&a`:
     self.address_depth > 0 *)
Definition address_arm_cond (pinned : bool) (address_depth : N) (current_type : vt) : bool :=
  if pinned then N.ltb 0 address_depth
  else N.eqb address_depth (1 + pointer_depth current_type).

(* :2875-2973 (/tmp/pc2: :2884-2982) *)
Definition autoderef_finish_gen (pinned : bool) (taken : list tstep)
           (current_type target_type : vt) (address_depth : N) : ad_result :=
  let ad0 := N.eqb address_depth 0 in
  let tpd0 := N.eqb (pointer_depth target_type) 0 in
  if ad0 && tpd0 && vt_eqb current_type target_type then              (* :2877 *)
    ADOk taken false current_type None
  else if ad0 && tpd0 && opt_vt_eqb (get_viewee_type current_type) target_type then
    ADOk (taken ++ [TAutoview]) false target_type None                 (* :2884 *)
  else if ad0 && tpd0 && can_coerce_into current_type target_type then (* :2893 *)
    ADOk taken false current_type (Some target_type)
  else if N.eqb address_depth 1 && is_slice_pointer current_type
          && vt_eqb current_type target_type then                      (* :2900 *)
    ADOk taken false current_type None
  else if address_arm_cond pinned address_depth current_type
          && opt_vt_eqb (get_pointee_type target_type) current_type then   (* :2907 *)
    ADOk taken true (VPointer current_type) None
  else if N.ltb 0 address_depth
          && can_coerce_address_into current_type target_type then     (* :2916 *)
    ADOk taken true (VPointer current_type) (Some target_type)
  else
    let pd := pointer_depth current_type in
    if N.leb (2 + pd) address_depth then ADError E538                  (* :2930 *)
    else if N.eqb address_depth (1 + pd) then                          (* :2940 *)
      ADOk taken true (VPointer current_type) None
    else if is_slice_pointer current_type then ADPanic 3               (* :2947 *)
    else                                                               (* :2954 *)
      ADOk (taken ++ repeat TAutoderef (N.to_nat (pd - address_depth))) false
           (wrap_pointers (N.to_nat address_depth) (fully_dereferenced current_type))
           None.

Definition autoderef_finish : list tstep -> vt -> vt -> N -> ad_result :=
  autoderef_finish_gen false.

Definition autoderef_finish_pinned : list tstep -> vt -> vt -> N -> ad_result :=
  autoderef_finish_gen true.

(* :2631 *)
Definition autoderef (member_type : N -> option vt) (known_ref_type target_type : vt)
           (steps : list astep) (address_depth : N) : ad_result :=
  match autoderef_loop member_type max_num_autoderef_steps known_ref_type steps with
  | LoopPanic s => ADPanic s
  | LoopDone taken ct _dropped => autoderef_finish taken ct target_type address_depth
  end.

(* the same with the take-address arm of the pinned source *)
Definition autoderef_pinned (member_type : N -> option vt) (known_ref_type target_type : vt)
           (steps : list astep) (address_depth : N) : ad_result :=
  match autoderef_loop member_type max_num_autoderef_steps known_ref_type steps with
  | LoopPanic s => ADPanic s
  | LoopDone taken ct _dropped => autoderef_finish_pinned taken ct target_type address_depth
  end.

(* Expression::value_type of what autoderef returns, :1582-1589 *)
Definition result_type (r : ad_result) : option vt :=
  match r with
  | ADOk _ _ deref_type None => Some deref_type
  | ADOk _ _ _ (Some c) => Some c
  | _ => None
  end.

(* :3027 (iterating over the steps from the last to the first) *)
Definition build_step (st : vt * bool) (s : tstep) : vt * bool :=
  match s with
  | TElement _ => (VArraylike (fst st), true)
  | TMember _ => (VUnresolved None, true)
  | TAutoderef => (VPointer (fst st), snd st)
  | TAutoview => (VView (fst st), snd st)
  | TAutodesliceByView | TAutodesliceByPointer => st
  end.

Definition build_type_of_ref1 (base_type : vt) (steps : list tstep) (took_address : bool) : vt :=
  let st := fold_left build_step (rev steps) (base_type, false) in
  if took_address && negb (snd st) then
    match fst st with VPointer d => d | t => t end
  else fst st.

(* ---- typer.rs: get_type_of_reference -------------------------------------------- *)

(* :304-401; [x] is fully dereferenced; None = any of the early returns *)
Fixpoint ref_final (member_type : N -> option vt) (x : vt) (steps : list astep) : option vt :=
  match steps with
  | [] => Some x
  | AElement _ :: rest =>
      match get_element_type x with
      | Some e => ref_final member_type (fully_dereferenced e) rest
      | None => None                                                   (* NotAnArray *)
      end
  | AMember m :: rest =>
      match x with
      | VStruct _ | VWord _ _ =>
          match member_type m with
          | Some t => ref_final member_type (fully_dereferenced t) rest
          | None => None
          end
      | _ => None                                                      (* NotAStructure, .. *)
      end
  end.

Definition fits (member_type : N -> option vt) (base_type : vt) (steps : list astep) : bool :=
  match ref_final member_type (fully_dereferenced base_type) steps with
  | Some _ => true
  | None => false
  end.

(* :402-411 *)
Definition add_addresses (x : vt) (address_depth : N) : vt :=
  if N.eqb address_depth 0 then x
  else if is_slice_pointer x then wrap_pointers (N.to_nat address_depth - 1) x
  else wrap_pointers (N.to_nat address_depth) x.

(* :412-421 *)
Definition view_endless (x : vt) : vt :=
  match x with VEndless _ => VView x | _ => x end.

Definition type_of_reference (member_type : N -> option vt) (base_type : vt)
           (steps : list astep) (address_depth : N) : option vt :=
  match ref_final member_type (fully_dereferenced base_type) steps with
  | Some x => Some (view_endless (add_addresses x address_depth))
  | None => None
  end.

(* :2483-2502: which type autoderef gets as its target *)
Definition deref_target (known : vt) (contextual : option vt) : vt :=
  match contextual with
  | Some y =>
      if vt_eqb known y then y                                         (* :2483 *)
      else if can_autoderef_into known y then y                        (* :2488 *)
      else known                                                       (* :2495 *)
  | None => known
  end.

(* the whole of analyze_deref_expression for a typed base *)
Definition analyze_deref (member_type : N -> option vt) (base_type : vt)
           (steps : list astep) (address_depth : N) (contextual : option vt)
  : option ad_result :=
  match type_of_reference member_type base_type steps address_depth with
  | Some known =>
      Some (autoderef member_type base_type (deref_target known contextual) steps address_depth)
  | None => None
  end.

(* :476-487: None = the argument is left alone *)
Definition argument_coercion (value_type parameter_type : vt) : option vt :=
  if vt_eqb value_type parameter_type then None
  else if can_coerce_into value_type parameter_type then Some parameter_type
  else None.

(* :3202 *)
Fixpoint resolve_vt (env : name -> N) (t : vt) : vt :=
  match t with
  | VPrim _ | VStruct _ | VWord _ _ | VUnresolved _ => t
  | VArray e n => VArray (resolve_vt env e) n
  | VArrayNamed e c => VArray (resolve_vt env e) (env c)
  | VSlice e => VSlice (resolve_vt env e)
  | VSlicePointer e => VSlicePointer (resolve_vt env e)
  | VEndless e => VEndless (resolve_vt env e)
  | VArraylike e => VArraylike (resolve_vt env e)
  | VPointer d => VPointer (resolve_vt env d)
  | VView d => VView (resolve_vt env d)
  end.

(* ---- generator.rs: generate_autocoerce ------------------------------------------- *)

Inductive expr_shape : Type :=
| EDeref (take_address : bool) (deref_type : vt)
| EArrayLiteral
| EStringLiteral
| EOther.

Inductive arm : Type :=
| ArmArraySlice            (* storage address + generate_array_slice, :1953, :1993 *)
| ArmArraySliceOfTmp       (* array literal spilled to a temporary, :1963 *)
| ArmArraySliceOfGlobal    (* string literal, :1975 *)
| ArmExtArrayView          (* storage address + generate_ext_array_view, :2010, :2048 *)
| ArmExtArrayViewOfGlobal  (* string literal, :2015 *)
| ArmView                  (* storage address + generate_view, :2027 *)
| ArmViewOfTmp             (* any other expression spilled to a temporary, :2032 *)
| ArmTmpOfInner (inner : arm)   (* :2062-2073 *)
| ArmUnimplemented (line : N)
| ArmUnreachable (line : N).

Fixpoint autocoerce_arm (e : expr_shape) (coerced_type : vt) : arm :=
  match coerced_type with
  | VSlice _ =>                                                        (* :1941 *)
      match e with
      | EDeref _ (VArray _ _) => ArmArraySlice
      | EDeref _ _ => ArmUnimplemented 1956
      | EArrayLiteral => ArmArraySliceOfTmp
      | EStringLiteral => ArmArraySliceOfGlobal
      | EOther => ArmUnimplemented 1979
      end
  | VSlicePointer _ =>                                                 (* :1981 *)
      match e with
      | EDeref true x =>
          match get_pointee_type x with
          | Some (VArray _ _) => ArmArraySlice
          | Some _ => ArmUnimplemented 1996
          | None => ArmUnreachable 1997
          end
      | _ => ArmUnimplemented 1999
      end
  | VView d =>                                                         (* :2001 *)
      match d with
      | VEndless _ =>
          match e with
          | EDeref _ _ => ArmExtArrayView
          | EStringLiteral => ArmExtArrayViewOfGlobal
          | _ => ArmUnimplemented 2018
          end
      | _ =>
          match e with
          | EDeref _ _ => ArmView
          | _ => ArmViewOfTmp
          end
      end
  | VPointer d =>                                                      (* :2039 *)
      match d with
      | VEndless _ =>
          match e with
          | EDeref _ _ => ArmExtArrayView
          | _ => ArmUnimplemented 2051
          end
      | _ =>
          match e with
          | EDeref true x =>
              match get_pointee_type x with
              | Some p => ArmTmpOfInner (autocoerce_arm (EDeref false p) d)
              | None => ArmUnreachable 2075
              end
          | _ => ArmUnimplemented 2077
          end
      end
  | _ => ArmUnimplemented 2080
  end%N.

Fixpoint arm_ok (a : arm) : bool :=
  match a with
  | ArmUnimplemented _ | ArmUnreachable _ => false
  | ArmTmpOfInner i => arm_ok i
  | _ => true
  end.

(* the Expression::Deref that autoderef builds, as the generator sees it *)
Definition shape_of_result (env : name -> N) (r : ad_result) : option (expr_shape * option vt) :=
  match r with
  | ADOk _ take_address deref_type coerced =>
      Some (EDeref take_address (resolve_vt env deref_type),
            match coerced with Some c => Some (resolve_vt env c) | None => None end)
  | _ => None
  end.

(* ---- spec-level helpers ------------------------------------------------------------ *)

(* the Pointer / View layers the loop removes in front of an Element step *)
Fixpoint strip_for_element (t : vt) : list tstep * vt :=
  match t with
  | VPointer d =>
      match d with
      | VArraylike _ => ([], t)
      | _ => let r := strip_for_element d in (TAutoderef :: fst r, snd r)
      end
  | VView d =>
      match d with
      | VArraylike _ => ([], t)
      | _ => let r := strip_for_element d in (TAutoview :: fst r, snd r)
      end
  | _ => ([], t)
  end.

(* ... and in front of a Member step *)
Fixpoint strip_all (t : vt) : list tstep * vt :=
  match t with
  | VPointer d => let r := strip_all d in (TAutoderef :: fst r, snd r)
  | VView d => let r := strip_all d in (TAutoview :: fst r, snd r)
  | _ => ([], t)
  end.

(* the loop without a budget *)
Fixpoint walk (member_type : N -> option vt) (t : vt) (steps : list astep) : loop_result :=
  match steps with
  | [] => LoopDone [] t []
  | AElement ie :: rest =>
      let r := strip_for_element t in
      loop_cons (fst r)
        match snd r with
        | VPointer (VArraylike e) | VView (VArraylike e) =>
            loop_cons [TElement ie] (walk member_type e rest)
        | VArray e _ | VArrayNamed e _ =>
            loop_cons [TElement (Some false)] (walk member_type e rest)
        | VEndless e | VArraylike e =>
            loop_cons [TElement (Some true)] (walk member_type e rest)
        | VSlice e =>
            loop_cons [TAutodesliceByView; TElement (Some false)] (walk member_type e rest)
        | VSlicePointer e =>
            loop_cons [TAutodesliceByPointer; TElement (Some false)] (walk member_type e rest)
        | _ => LoopPanic 1
        end
  | AMember m :: rest =>
      let r := strip_all t in
      loop_cons (fst r)
        match snd r with
        | VStruct _ | VWord _ _ =>
            match member_type m with
            | Some t' => loop_cons [TMember m] (walk member_type t' rest)
            | None => LoopPanic 2
            end
        | _ => LoopPanic 1
        end
  end.

Definition is_deslice (s : tstep) : bool :=
  match s with TAutodesliceByView | TAutodesliceByPointer => true | _ => false end.

(* every taken step costs one iteration, except that Autodeslice comes for free with
   its Element *)
Definition iterations (taken : list tstep) : nat :=
  length (filter (fun s => negb (is_deslice s)) taken).

(* number of leading Pointer / View constructors *)
Fixpoint ptr_run (t : vt) : nat :=
  match t with
  | VPointer d | VView d => S (ptr_run d)
  | _ => O
  end.

(* no run of Pointer / View constructors anywhere in [t] is longer than [p] *)
Fixpoint runs_ok (p : nat) (t : vt) : bool :=
  Nat.leb (ptr_run t) p &&
  match t with
  | VArray e _ | VArrayNamed e _ | VSlice e | VSlicePointer e | VEndless e | VArraylike e =>
      runs_ok p e
  | VPointer d | VView d => runs_ok p d
  | _ => true
  end.

(* what type a list of taken steps reaches from [t]; None = a step does not apply *)
Fixpoint apply_tsteps (member_type : N -> option vt) (t : vt) (taken : list tstep) : option vt :=
  match taken with
  | [] => Some t
  | s :: rest =>
      match s, t with
      | TAutoderef, VPointer d => apply_tsteps member_type d rest
      | TAutoview, VView d => apply_tsteps member_type d rest
      | TAutodesliceByView, VSlice e => apply_tsteps member_type (VEndless e) rest
      | TAutodesliceByPointer, VSlicePointer e => apply_tsteps member_type (VEndless e) rest
      | TElement _, (VArray e _ | VArrayNamed e _ | VEndless e | VArraylike e) =>
          apply_tsteps member_type e rest
      | TElement _, (VPointer (VArraylike e) | VView (VArraylike e)) =>
          apply_tsteps member_type e rest
      | TMember m, (VStruct _ | VWord _ _) =>
          match member_type m with
          | Some t' => apply_tsteps member_type t' rest
          | None => None
          end
      | _, _ => None
      end
  end.

(* the type of the storage the produced Deref designates: deref_type, minus the pointer
   added by take_address *)
Definition designated_type (r : ad_result) : option vt :=
  match r with
  | ADOk _ false t _ => Some t
  | ADOk _ true (VPointer t) _ => Some t
  | _ => None
  end.

Definition taken_of (r : ad_result) : list tstep :=
  match r with ADOk taken _ _ _ => taken | _ => [] end.

(* ---- interface for the correspondence check ------------------------------------------ *)

Definition pred_table (a b : vt) : list bool :=
  [ can_be_declared_as a b;
    can_be_concretization_of a b;
    can_coerce_into a b;
    can_coerce_address_into a b;
    can_autoderef_into a b;
    is_wellformed a;
    vt_eqb a b ].

(* the private predicates, for a driver that can reach them *)
Definition pred_table_private (a b : vt) : list bool :=
  [ equals a b; is_like a b; can_subautoderef_into a b ].
