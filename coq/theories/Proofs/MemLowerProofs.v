(* Proofs about Model/MemLower.v: the address the generator computes for an
   access path is the address of the source-level subobject. *)
From PV Require Import Base.Common Model.Layout Proofs.LayoutProofs Model.MemLower.
Open Scope Z_scope.

(* ---- unfolding lemmas for the local fixes ----------------------------------- *)

Fixpoint wt_list (e : ty) (l : list value) : bool :=
  match l with
  | [] => true
  | x :: r => wt_value e x && wt_list e r
  end.

Fixpoint wt_members (l : list value) (ms : list ty) : bool :=
  match l, ms with
  | [], [] => true
  | x :: r, m :: ms' => wt_value m x && wt_members r ms'
  | _, _ => false
  end.

Lemma wt_value_arr n e vs :
  wt_value (TArr n e) (VArr vs) = (Z.of_nat (length vs) =? n) && wt_list e vs.
Proof.
  cbn [wt_value]. f_equal. induction vs as [|x r IH]; cbn [wt_list]; [reflexivity|].
  now rewrite IH.
Qed.

Lemma wt_value_struct ms vs : wt_value (TStruct ms) (VStruct vs) = wt_members vs ms.
Proof.
  cbn [wt_value]. revert ms. induction vs as [|x r IH]; intros [|m ms']; cbn [wt_members];
    try reflexivity; try now rewrite IH.
Qed.

Definition enc_arr (e : ty) : list value -> Z -> cell :=
  fix go (l : list value) (o : Z) : cell :=
    match l with
    | [] => CPad
    | x :: r =>
        if (0 <=? o) && (o <? llvm_alloc_size e) then enc e x o
        else go r (o - llvm_alloc_size e)
    end.

Definition enc_members (o : Z) : list value -> list ty -> list Z -> cell :=
  fix go (l : list value) (ms : list ty) (offs : list Z) : cell :=
    match l, ms, offs with
    | x :: r, m :: ms', off :: offs' =>
        if (off <=? o) && (o <? off + llvm_alloc_size m) then enc m x (o - off)
        else go r ms' offs'
    | _, _, _ => CPad
    end.

Lemma enc_arr_nil e o : enc_arr e [] o = CPad.
Proof. reflexivity. Qed.

Lemma enc_arr_cons e x r o :
  enc_arr e (x :: r) o =
  if (0 <=? o) && (o <? llvm_alloc_size e) then enc e x o
  else enc_arr e r (o - llvm_alloc_size e).
Proof. reflexivity. Qed.

Lemma enc_members_cons o x r m ms off offs :
  enc_members o (x :: r) (m :: ms) (off :: offs) =
  if (off <=? o) && (o <? off + llvm_alloc_size m) then enc m x (o - off)
  else enc_members o r ms offs.
Proof. reflexivity. Qed.

Lemma enc_arr_eq n e vs o : enc (TArr n e) (VArr vs) o = enc_arr e vs o.
Proof. reflexivity. Qed.

Lemma enc_struct_eq ms vs o :
  enc (TStruct ms) (VStruct vs) o = enc_members o vs ms (struct_offsets ms).
Proof. reflexivity. Qed.

Fixpoint load_members (m : mem) (a : Z) (l : list ty) (offs : list Z) : option (list value) :=
  match l, offs with
  | [], _ => Some []
  | x :: r, off :: offs' =>
      match load m (a + off) x, load_members m a r offs' with
      | Some v, Some vs => Some (v :: vs)
      | _, _ => None
      end
  | _ :: _, [] => None
  end.

Lemma load_struct_eq m a ms :
  load m a (TStruct ms) = option_map VStruct (load_members m a ms (struct_offsets ms)).
Proof.
  cbn [load]. f_equal. generalize (struct_offsets ms) as offs.
  induction ms as [|x r IH]; intros offs; [reflexivity|].
  destruct offs as [|off offs']; cbn [load_members]; [reflexivity|]. now rewrite IH.
Qed.

Lemma wt_list_Forall e vs : wt_list e vs = true <-> Forall (fun x => wt_value e x = true) vs.
Proof.
  induction vs as [|x r IH]; cbn [wt_list].
  - split; [constructor|reflexivity].
  - rewrite andb_true_iff, IH. split.
    + intros [Hx Hr]. now constructor.
    + intros H. inversion H; subst. now split.
Qed.

Lemma wt_list_nth e vs k x :
  wt_list e vs = true -> nth_error vs k = Some x -> wt_value e x = true.
Proof.
  revert k. induction vs as [|y r IH]; intros k Hwt Hn; [destruct k; discriminate|].
  cbn [wt_list] in Hwt. apply andb_true_iff in Hwt as [Hy Hr].
  destruct k as [|k']; cbn [nth_error] in Hn.
  - now inversion Hn; subst.
  - eapply IH; eassumption.
Qed.

Lemma wt_members_nth vs : forall ms k x,
  wt_members vs ms = true -> nth_error vs k = Some x ->
  exists m, nth_error ms k = Some m /\ wt_value m x = true.
Proof.
  induction vs as [|y r IH]; intros ms k x Hwt Hn; [destruct k; discriminate|].
  destruct ms as [|m ms']; cbn [wt_members] in Hwt; [discriminate|].
  apply andb_true_iff in Hwt as [Hy Hr].
  destruct k as [|k']; cbn [nth_error] in Hn |- *.
  - inversion Hn; subst. now exists m.
  - eapply IH; eassumption.
Qed.

Lemma wt_members_length vs : forall ms, wt_members vs ms = true -> length vs = length ms.
Proof.
  induction vs as [|y r IH]; intros [|m ms'] H; cbn [wt_members] in H; try discriminate;
    [reflexivity|].
  apply andb_true_iff in H as [_ H]. cbn [length]. f_equal. now apply IH.
Qed.

Lemma wf_ty_list_nth ms k m :
  wf_ty_list ms = true -> nth_error ms k = Some m -> wf_ty m = true.
Proof.
  revert k. induction ms as [|y r IH]; intros k Hwf Hn; [destruct k; discriminate|].
  cbn [wf_ty_list] in Hwf. apply andb_true_iff in Hwf as [Hy Hr].
  destruct k as [|k']; cbn [nth_error] in Hn.
  - now inversion Hn; subst.
  - eapply IH; eassumption.
Qed.

Lemma nth_error_upd_same {A} (l : list A) : forall k x y,
  nth_error l k = Some y -> nth_error (upd_nth l k x) k = Some x.
Proof.
  induction l as [|z r IH]; intros k x y H; [destruct k; discriminate|].
  destruct k as [|k']; cbn [upd_nth nth_error] in *; [reflexivity|]. eapply IH; eassumption.
Qed.

Lemma nth_error_upd_other {A} (l : list A) : forall k j x,
  k <> j -> nth_error (upd_nth l k x) j = nth_error l j.
Proof.
  induction l as [|z r IH]; intros k j x H; [destruct k; reflexivity|].
  destruct k as [|k'], j as [|j']; cbn [upd_nth nth_error]; try reflexivity; try congruence.
  apply IH. congruence.
Qed.

Lemma length_upd_nth {A} (l : list A) : forall k x, length (upd_nth l k x) = length l.
Proof.
  induction l as [|z r IH]; intros k x; [destruct k; reflexivity|].
  destruct k as [|k']; cbn [upd_nth length]; [reflexivity|]. now rewrite IH.
Qed.

Lemma wt_list_upd e vs : forall k x,
  wt_list e vs = true -> wt_value e x = true -> wt_list e (upd_nth vs k x) = true.
Proof.
  induction vs as [|y r IH]; intros k x Hwt Hx; [destruct k; reflexivity|].
  cbn [wt_list] in Hwt. apply andb_true_iff in Hwt as [Hy Hr].
  destruct k as [|k']; cbn [upd_nth wt_list]; apply andb_true_iff; split; auto.
Qed.

Lemma wt_members_upd vs : forall ms k x m,
  wt_members vs ms = true -> nth_error ms k = Some m -> wt_value m x = true ->
  wt_members (upd_nth vs k x) ms = true.
Proof.
  induction vs as [|y r IH]; intros ms k x m Hwt Hm Hx; [destruct k; exact Hwt|].
  destruct ms as [|m0 ms']; cbn [wt_members] in Hwt; [discriminate|].
  apply andb_true_iff in Hwt as [Hy Hr].
  destruct k as [|k']; cbn [upd_nth wt_members nth_error] in *; apply andb_true_iff; split; auto.
  - now inversion Hm; subst.
  - eapply IH; eassumption.
Qed.

(* ---- inversion of one successful step --------------------------------------- *)

Lemma scalar_size_alloc t :
  wf_ty t = true -> scalar_size t = llvm_alloc_size t \/ scalar_size t = 0.
Proof.
  destruct t as [b| | |n e|ms]; intros Hwf; cbn [scalar_size]; try (right; reflexivity).
  - left. cbn [wf_ty] in Hwf. now rewrite llvm_alloc_size_int.
  - left. reflexivity.
  - left. reflexivity.
Qed.

Lemma get_elem_inv t v i p v' :
  wf_ty t = true -> wt_value t v = true -> get_path v (SElem i :: p) = Some v' ->
  exists n e vs x,
    t = TArr n e /\ v = VArr vs /\ 0 <= i < n /\ Z.of_nat (length vs) = n /\
    nth_error vs (Z.to_nat i) = Some x /\ get_path x p = Some v' /\
    wf_ty e = true /\ wt_value e x = true /\ wt_list e vs = true.
Proof.
  intros Hwf Hwt Hg. cbn [get_path] in Hg.
  destruct v as [z|vs|vs]; try discriminate.
  destruct t as [b| | |n e|ms]; try discriminate.
  rewrite wt_value_arr in Hwt. apply andb_true_iff in Hwt as [Hlen Hl].
  apply Z.eqb_eq in Hlen.
  destruct (Z.ltb_spec i 0) as [Hneg|Hpos]; [discriminate|].
  destruct (nth_error vs (Z.to_nat i)) as [x|] eqn:Hn; [|discriminate].
  cbn [wf_ty] in Hwf. apply andb_true_iff in Hwf as [_ He].
  exists n, e, vs, x. repeat split; try assumption; try lia.
  - assert (Hlt : (Z.to_nat i < length vs)%nat).
    { apply nth_error_Some. congruence. }
    lia.
  - eapply wt_list_nth; eassumption.
Qed.

Lemma get_member_inv t v k p v' :
  wf_ty t = true -> wt_value t v = true -> get_path v (SMember k :: p) = Some v' ->
  exists ms vs x m off,
    t = TStruct ms /\ v = VStruct vs /\ nth_error vs k = Some x /\
    nth_error ms k = Some m /\ nth_error (struct_offsets ms) k = Some off /\
    get_path x p = Some v' /\ wf_ty m = true /\ wt_value m x = true /\
    wf_ty_list ms = true /\ wt_members vs ms = true.
Proof.
  intros Hwf Hwt Hg. cbn [get_path] in Hg.
  destruct v as [z|vs|vs]; try discriminate.
  destruct t as [b| | |n e|ms]; try discriminate.
  rewrite wt_value_struct in Hwt. rewrite wf_ty_struct in Hwf.
  destruct (nth_error vs k) as [x|] eqn:Hn; [|discriminate].
  destruct (wt_members_nth _ _ _ _ Hwt Hn) as [m [Hm Hx]].
  destruct (struct_layout_facts ms Hwf) as [_ [_ [Hlen _]]].
  destruct (nth_error (struct_offsets ms) k) as [off|] eqn:Hoff.
  - exists ms, vs, x, m, off. repeat split; try assumption.
    eapply wf_ty_list_nth; eassumption.
  - apply nth_error_None in Hoff. assert (k < length ms)%nat by (apply nth_error_Some; congruence).
    lia.
Qed.

(* ---- (a) the lowered address stays inside the object -------------------------- *)

Theorem gep_in_bounds : forall p t v v',
  wf_ty t = true -> wt_value t v = true -> get_path v p = Some v' ->
  exists off t',
    gep_offset t p = Some (off, t') /\ 0 <= off /\
    off + llvm_alloc_size t' <= llvm_alloc_size t /\
    wf_ty t' = true /\ wt_value t' v' = true.
Proof.
  induction p as [|s p IH]; intros t v v' Hwf Hwt Hg.
  - cbn [get_path] in Hg. inversion Hg; subst. exists 0, t. cbn [gep_offset].
    repeat split; try assumption; lia.
  - destruct s as [i|k].
    + destruct (get_elem_inv _ _ _ _ _ Hwf Hwt Hg)
        as (n & e & vs & x & -> & -> & Hi & Hlen & Hn & Hg' & He & Hx & _).
      destruct (IH e x v' He Hx Hg') as (off & t' & Hgo & H0 & Hb & Hwf' & Hwt').
      exists (i * llvm_alloc_size e + off), t'. cbn [gep_offset]. rewrite Hgo.
      rewrite llvm_alloc_size_arr.
      pose proof (llvm_alloc_size_nonneg e He) as Hnn.
      repeat split; try assumption; nia.
    + destruct (get_member_inv _ _ _ _ _ Hwf Hwt Hg)
        as (ms & vs & x & m & o & -> & -> & Hn & Hm & Ho & Hg' & Hwm & Hx & Hwl & _).
      destruct (IH m x v' Hwm Hx Hg') as (off & t' & Hgo & H0 & Hb & Hwf' & Hwt').
      exists (o + off), t'. cbn [gep_offset]. rewrite Hm, Ho, Hgo.
      destruct (struct_layout_facts ms Hwl) as [_ [_ [_ [Hin _]]]].
      destruct (Hin k m o Hm Ho) as [Ho0 [_ Hob]].
      repeat split; try assumption; lia.
Qed.

(* ---- the image of a subobject is a window of the image of the object ---------- *)

Lemma enc_arr_nth e : forall vs k x o,
  nth_error vs k = Some x -> 0 <= o < llvm_alloc_size e ->
  enc_arr e vs (Z.of_nat k * llvm_alloc_size e + o) = enc e x o.
Proof.
  remember (llvm_alloc_size e) as sz eqn:Hsz.
  induction vs as [|y r IH]; intros k x o Hn Ho; [destruct k; discriminate|].
  rewrite enc_arr_cons, <- Hsz. destruct k as [|k'].
  - cbn [nth_error] in Hn. inversion Hn; subst y.
    replace (Z.of_nat 0 * sz + o) with o by lia.
    destruct (Z.leb_spec 0 o); destruct (Z.ltb_spec o sz); try lia. reflexivity.
  - cbn [nth_error] in Hn.
    assert (Hk : 0 <= Z.of_nat k') by lia.
    assert (Hge : sz <= Z.of_nat (S k') * sz + o).
    { rewrite Nat2Z.inj_succ. nia. }
    assert (Heq : Z.of_nat (S k') * sz + o - sz = Z.of_nat k' * sz + o).
    { rewrite Nat2Z.inj_succ. ring. }
    destruct (Z.ltb_spec (Z.of_nat (S k') * sz + o) sz) as [Hlt|_]; [lia|].
    rewrite andb_false_r, Heq. now apply IH.
Qed.

Lemma nonneg_sizes ms :
  wf_ty_list ms = true -> Forall (fun m => 0 <= llvm_alloc_size m) ms.
Proof.
  intros Hwf. apply wf_ty_list_Forall in Hwf.
  induction Hwf as [|m rest Hm _ IH]; constructor; [now apply llvm_alloc_size_nonneg|exact IH].
Qed.

Lemma enc_members_nth o : forall vs ms offs lo hi k x m off,
  Forall (fun m => 0 <= llvm_alloc_size m) ms ->
  well_placed lo ms offs hi ->
  nth_error vs k = Some x -> nth_error ms k = Some m -> nth_error offs k = Some off ->
  off <= o < off + llvm_alloc_size m ->
  enc_members o vs ms offs = enc m x (o - off).
Proof.
  induction vs as [|y r IH]; intros ms offs lo hi k x m off Hnn Hwp Hx Hm Hoff Ho;
    [destruct k; discriminate|].
  destruct ms as [|m0 ms']; [destruct k; discriminate|].
  destruct offs as [|off0 offs']; [destruct k; discriminate|].
  rewrite enc_members_cons. cbn [well_placed] in Hwp. destruct Hwp as [Hlo [_ Hwp]].
  inversion Hnn as [|? ? Hm0 Hnn']; subst.
  destruct k as [|k']; cbn [nth_error] in Hx, Hm, Hoff.
  - inversion Hx; inversion Hm; inversion Hoff; subst.
    destruct (Z.leb_spec off o); destruct (Z.ltb_spec o (off + llvm_alloc_size m)); try lia.
    reflexivity.
  - destruct (well_placed_nth _ _ _ _ _ _ _ Hnn' Hwp Hm Hoff) as [Hge _].
    destruct (Z.leb_spec off0 o); destruct (Z.ltb_spec o (off0 + llvm_alloc_size m0));
      try lia; cbn [andb]; eapply IH; eassumption.
Qed.

Theorem enc_sub : forall p t v v' off t',
  wf_ty t = true -> wt_value t v = true -> get_path v p = Some v' ->
  gep_offset t p = Some (off, t') ->
  forall o, 0 <= o < llvm_alloc_size t' -> enc t v (off + o) = enc t' v' o.
Proof.
  induction p as [|s p IH]; intros t v v' off t' Hwf Hwt Hg Hgo o Ho.
  - cbn [get_path gep_offset] in Hg, Hgo. inversion Hg; inversion Hgo; subst.
    now rewrite Z.add_0_l.
  - destruct s as [i|k].
    + destruct (get_elem_inv _ _ _ _ _ Hwf Hwt Hg)
        as (n & e & vs & x & -> & -> & Hi & Hlen & Hn & Hg' & He & Hx & _).
      destruct (gep_in_bounds p e x v' He Hx Hg') as (off1 & t1 & Hgo1 & H0 & Hb & _ & _).
      cbn [gep_offset] in Hgo. rewrite Hgo1 in Hgo. inversion Hgo; subst off t1.
      rewrite enc_arr_eq.
      replace (i * llvm_alloc_size e + off1 + o)
        with (Z.of_nat (Z.to_nat i) * llvm_alloc_size e + (off1 + o))
        by (rewrite Z2Nat.id by lia; ring).
      rewrite (enc_arr_nth e vs (Z.to_nat i) x (off1 + o) Hn) by lia.
      eapply IH; eassumption.
    + destruct (get_member_inv _ _ _ _ _ Hwf Hwt Hg)
        as (ms & vs & x & m & fo & -> & -> & Hn & Hm & Hfo & Hg' & Hwm & Hx & Hwl & _).
      destruct (gep_in_bounds p m x v' Hwm Hx Hg') as (off1 & t1 & Hgo1 & H0 & Hb & _ & _).
      cbn [gep_offset] in Hgo. rewrite Hm, Hfo, Hgo1 in Hgo. inversion Hgo; subst off t1.
      rewrite enc_struct_eq.
      rewrite (enc_members_nth (fo + off1 + o) vs ms (struct_offsets ms) 0
                 (llvm_alloc_size (TStruct ms)) k x m fo (nonneg_sizes ms Hwl)
                 (struct_offsets_well_placed ms) Hn Hm Hfo) by lia.
      replace (fo + off1 + o - fo) with (off1 + o) by lia.
      eapply IH; eassumption.
Qed.

(* ---- memory that holds the image of a value ----------------------------------- *)

(* The non-padding bytes of the image of v are in memory at a; padding bytes
   are unconstrained. *)
Definition agree (m : mem) (a : Z) (t : ty) (v : value) : Prop :=
  forall o, 0 <= o < llvm_alloc_size t -> enc t v o <> CPad -> m (a + o) = enc t v o.

Lemma agree_sub m a p t v v' off t' :
  wf_ty t = true -> wt_value t v = true -> get_path v p = Some v' ->
  gep_offset t p = Some (off, t') -> agree m a t v -> agree m (a + off) t' v'.
Proof.
  intros Hwf Hwt Hg Hgo Hag o Ho Hnp.
  destruct (gep_in_bounds p t v v' Hwf Hwt Hg) as (off1 & t1 & Hgo1 & H0 & Hb & _ & _).
  rewrite Hgo in Hgo1. inversion Hgo1; subst off1 t1.
  rewrite <- (enc_sub p t v v' off t' Hwf Hwt Hg Hgo o Ho) in Hnp |- *.
  rewrite <- Z.add_assoc. apply Hag; [lia|exact Hnp].
Qed.

Lemma check_frag_ok m a z n : forall k i,
  (forall j, i <= j < i + Z.of_nat k -> m (a + j) = CFrag z n j) ->
  check_frag m a z n i k = true.
Proof.
  induction k as [|k IH]; intros i H; [reflexivity|].
  cbn [check_frag]. rewrite (H i) by lia. rewrite !Z.eqb_refl. cbn [andb].
  apply IH. intros j Hj. apply H. lia.
Qed.

Lemma load_scalar_ok m a z n :
  0 < n -> (forall j, 0 <= j < n -> m (a + j) = CFrag z n j) -> load_scalar m a n = Some z.
Proof.
  intros Hn H. unfold load_scalar.
  pose proof (H 0 ltac:(lia)) as H0. rewrite Z.add_0_r in H0. rewrite H0.
  rewrite check_frag_ok; [reflexivity|]. intros j Hj. apply H. lia.
Qed.

Lemma load_seq_spec ld sz : forall vs a,
  (forall k x, nth_error vs k = Some x -> ld (a + Z.of_nat k * sz) = Some x) ->
  load_seq ld a sz (length vs) = Some vs.
Proof.
  induction vs as [|y r IH]; intros a H; [reflexivity|].
  cbn [length load_seq].
  pose proof (H O y eq_refl) as H0. cbn [Z.of_nat] in H0.
  rewrite Z.mul_0_l, Z.add_0_r in H0. rewrite H0.
  rewrite IH; [reflexivity|]. intros k x Hk.
  specialize (H (S k) x Hk). rewrite <- H. f_equal. rewrite Nat2Z.inj_succ. ring.
Qed.

Lemma load_members_spec m a : forall ms offs vs,
  length offs = length ms -> length vs = length ms ->
  (forall k mk off x, nth_error ms k = Some mk -> nth_error offs k = Some off ->
     nth_error vs k = Some x -> load m (a + off) mk = Some x) ->
  load_members m a ms offs = Some vs.
Proof.
  induction ms as [|m0 ms IH]; intros offs vs Hlo Hlv H.
  - destruct vs; [reflexivity|discriminate].
  - destruct offs as [|off0 offs]; [discriminate|]. destruct vs as [|x0 vs]; [discriminate|].
    cbn [load_members]. rewrite (H O m0 off0 x0 eq_refl eq_refl eq_refl).
    rewrite (IH offs vs); [reflexivity| | |].
    + cbn [length] in Hlo. lia.
    + cbn [length] in Hlv. lia.
    + intros k mk off x Hm Ho Hx. apply (H (S k)); assumption.
Qed.

Lemma get_path_elem vs k x :
  nth_error vs k = Some x -> get_path (VArr vs) [SElem (Z.of_nat k)] = Some x.
Proof.
  intros Hn. cbn [get_path]. destruct (Z.ltb_spec (Z.of_nat k) 0); [lia|].
  now rewrite Nat2Z.id, Hn.
Qed.

Lemma get_path_member vs k x :
  nth_error vs k = Some x -> get_path (VStruct vs) [SMember k] = Some x.
Proof. intros Hn. cbn [get_path]. now rewrite Hn. Qed.

Theorem load_agree : forall t v m a,
  wf_ty t = true -> wt_value t v = true -> agree m a t v -> load m a t = Some v.
Proof.
  induction t as [b| | |n e IHe|ms IHms] using ty_ind2; intros v m a Hwf Hwt Hag.
  - destruct v as [z|vs|vs]; try discriminate. cbn [load].
    cbn [wf_ty] in Hwf. pose proof (llvm_alloc_size_int b Hwf) as Hsz.
    apply valid_size_cases in Hwf.
    rewrite (load_scalar_ok m a z b); [reflexivity|lia|].
    intros j Hj. unfold agree in Hag. rewrite Hsz in Hag.
    assert (He : enc (TInt b) (VS z) j = CFrag z b j).
    { cbn [enc]. destruct (Z.leb_spec 0 j); destruct (Z.ltb_spec j b); try lia. reflexivity. }
    rewrite <- He. apply Hag; [lia|]. rewrite He. discriminate.
  - destruct v as [z|vs|vs]; try discriminate. cbn [load].
    rewrite (load_scalar_ok m a z 1); [reflexivity|lia|].
    intros j Hj. unfold agree in Hag. change (llvm_alloc_size TBool) with 1 in Hag.
    assert (He : enc TBool (VS z) j = CFrag z 1 j).
    { cbn [enc]. destruct (Z.leb_spec 0 j); destruct (Z.ltb_spec j 1); try lia. reflexivity. }
    rewrite <- He. apply Hag; [lia|]. rewrite He. discriminate.
  - destruct v as [z|vs|vs]; try discriminate. cbn [load].
    rewrite (load_scalar_ok m a z 8); [reflexivity|lia|].
    intros j Hj. unfold agree in Hag. change (llvm_alloc_size TPtr) with 8 in Hag.
    assert (He : enc TPtr (VS z) j = CFrag z 8 j).
    { cbn [enc]. destruct (Z.leb_spec 0 j); destruct (Z.ltb_spec j 8); try lia. reflexivity. }
    rewrite <- He. apply Hag; [lia|]. rewrite He. discriminate.
  - destruct v as [z|vs|vs]; try discriminate. cbn [load].
    pose proof Hwt as Hwt0. rewrite wt_value_arr in Hwt0.
    apply andb_true_iff in Hwt0 as [Hlen Hl]. apply Z.eqb_eq in Hlen.
    pose proof Hwf as Hwf0. cbn [wf_ty] in Hwf0. apply andb_true_iff in Hwf0 as [_ He].
    replace (Z.to_nat n) with (length vs) by lia.
    rewrite (load_seq_spec _ (llvm_alloc_size e) vs a); [reflexivity|].
    intros k x Hk. apply IHe; [exact He|eapply wt_list_nth; eassumption|].
    pose proof (agree_sub m a [SElem (Z.of_nat k)] (TArr n e) (VArr vs) x
                  (Z.of_nat k * llvm_alloc_size e + 0) e Hwf Hwt (get_path_elem vs k x Hk)
                  eq_refl Hag) as Hs.
    now rewrite Z.add_0_r in Hs.
  - destruct v as [z|vs|vs]; try discriminate. rewrite load_struct_eq.
    pose proof Hwt as Hwt0. rewrite wt_value_struct in Hwt0.
    pose proof Hwf as Hwf0. rewrite wf_ty_struct in Hwf0.
    destruct (struct_layout_facts ms Hwf0) as [_ [_ [Hlen _]]].
    rewrite (load_members_spec m a ms (struct_offsets ms) vs Hlen
               (wt_members_length vs ms Hwt0)); [reflexivity|].
    intros k mk off x Hm Ho Hx.
    destruct (wt_members_nth vs ms k x Hwt0 Hx) as [mk' [Hm' Hwx]].
    rewrite Hm in Hm'. inversion Hm'; subst mk'.
    rewrite Forall_forall in IHms.
    apply (IHms mk (nth_error_In _ _ Hm)); [eapply wf_ty_list_nth; eassumption|exact Hwx|].
    assert (Hgo : gep_offset (TStruct ms) [SMember k] = Some (off + 0, mk)).
    { cbn [gep_offset]. now rewrite Hm, Ho. }
    pose proof (agree_sub m a [SMember k] (TStruct ms) (VStruct vs) x (off + 0) mk
                  Hwf Hwt (get_path_member vs k x Hx) Hgo Hag) as Hs.
    now rewrite Z.add_0_r in Hs.
Qed.

(* (b) the subobject found at the lowered address is the source-level subobject. *)
Theorem load_after_encode m a t v p v' off t' :
  wf_ty t = true -> wt_value t v = true -> agree m a t v ->
  get_path v p = Some v' -> gep_offset t p = Some (off, t') ->
  load m (a + off) t' = Some v'.
Proof.
  intros Hwf Hwt Hag Hg Hgo.
  destruct (gep_in_bounds p t v v' Hwf Hwt Hg) as (off1 & t1 & Hgo1 & _ & _ & Hwf' & Hwt').
  rewrite Hgo in Hgo1. inversion Hgo1; subst off1 t1.
  apply load_agree; try assumption. exact (agree_sub m a p t v v' off t' Hwf Hwt Hg Hgo Hag).
Qed.

(* ---- (d) paths that part address disjoint byte ranges ------------------------ *)

Lemma step_eqb_eq s1 s2 : step_eqb s1 s2 = true <-> s1 = s2.
Proof.
  destruct s1 as [i|k], s2 as [j|l]; cbn [step_eqb]; split; intros H; try discriminate.
  - apply Z.eqb_eq in H. now subst.
  - inversion H. apply Z.eqb_refl.
  - apply Nat.eqb_eq in H. now subst.
  - inversion H. apply Nat.eqb_refl.
Qed.

Definition is_prefix (p q : path) : Prop := exists r, q = p ++ r.

(* [disjoint_paths] is "neither is a prefix of the other". *)
Lemma disjoint_paths_iff : forall p q,
  disjoint_paths p q = true <-> ~ is_prefix p q /\ ~ is_prefix q p.
Proof.
  induction p as [|s1 p IH]; intros q.
  - cbn [disjoint_paths]. split; [discriminate|]. intros [H _]. exfalso. apply H. now exists q.
  - destruct q as [|s2 q]; cbn [disjoint_paths].
    + split; [discriminate|]. intros [_ H]. exfalso. apply H. now exists (s1 :: p).
    + destruct (step_eqb s1 s2) eqn:He.
      * apply step_eqb_eq in He. subst s2. rewrite IH. split.
        -- intros [H1 H2]. split; intros [r Hr]; inversion Hr; [apply H1|apply H2]; now exists r.
        -- intros [H1 H2]. split; intros [r Hr]; [apply H1|apply H2]; exists r; cbn [app];
             now f_equal.
      * split; [|reflexivity]. intros _.
        assert (Hne : s1 <> s2).
        { intros Heq. apply step_eqb_eq in Heq. congruence. }
        split; intros [r Hr]; inversion Hr; congruence.
Qed.

Theorem distinct_paths_distinct_ranges : forall p q t v vp vq offp tp offq tq,
  wf_ty t = true -> wt_value t v = true ->
  get_path v p = Some vp -> get_path v q = Some vq ->
  gep_offset t p = Some (offp, tp) -> gep_offset t q = Some (offq, tq) ->
  disjoint_paths p q = true ->
  offp + llvm_alloc_size tp <= offq \/ offq + llvm_alloc_size tq <= offp.
Proof.
  induction p as [|s1 p IH]; intros q t v vp vq offp tp offq tq Hwf Hwt Hgp Hgq Hop Hoq Hd;
    [discriminate|].
  destruct q as [|s2 q]; [discriminate|]. cbn [disjoint_paths] in Hd.
  destruct s1 as [i|k].
  - destruct (get_elem_inv _ _ _ _ _ Hwf Hwt Hgp)
      as (n & e & vs & x & -> & -> & Hi & Hlen & Hn & Hgp' & He & Hx & _).
    destruct s2 as [j|l].
    2:{ cbn [get_path] in Hgq. discriminate. }
    destruct (get_elem_inv _ _ _ _ _ Hwf Hwt Hgq)
      as (n2 & e2 & vs2 & y & Ht & Hv & Hj & _ & Hn2 & Hgq' & _ & Hy & _).
    inversion Ht; inversion Hv; subst n2 e2 vs2.
    destruct (gep_in_bounds p e x vp He Hx Hgp') as (o1 & t1 & Hg1 & H10 & H1b & _ & _).
    destruct (gep_in_bounds q e y vq He Hy Hgq') as (o2 & t2 & Hg2 & H20 & H2b & _ & _).
    cbn [gep_offset] in Hop, Hoq. rewrite Hg1 in Hop. rewrite Hg2 in Hoq.
    inversion Hop; inversion Hoq; subst offp tp offq tq.
    cbn [step_eqb] in Hd. destruct (Z.eqb_spec i j) as [Heq|Hne].
    + subst j. rewrite Hn in Hn2. inversion Hn2; subst y.
      destruct (IH q e x vp vq o1 t1 o2 t2 He Hx Hgp' Hgq' Hg1 Hg2 Hd); [left|right]; lia.
    + pose proof (llvm_alloc_size_nonneg e He) as Hnn.
      destruct (Z.lt_total i j) as [Hlt|[Heq|Hgt]]; [left|congruence|right]; nia.
  - destruct (get_member_inv _ _ _ _ _ Hwf Hwt Hgp)
      as (ms & vs & x & m & fo & -> & -> & Hn & Hm & Hfo & Hgp' & Hwm & Hx & Hwl & _).
    destruct s2 as [j|l].
    1:{ cbn [get_path] in Hgq. discriminate. }
    destruct (get_member_inv _ _ _ _ _ Hwf Hwt Hgq)
      as (ms2 & vs2 & y & m2 & fo2 & Ht & Hv & Hn2 & Hm2 & Hfo2 & Hgq' & Hwm2 & Hy & _ & _).
    inversion Ht; inversion Hv; subst ms2 vs2.
    destruct (gep_in_bounds p m x vp Hwm Hx Hgp') as (o1 & t1 & Hg1 & H10 & H1b & _ & _).
    destruct (gep_in_bounds q m2 y vq Hwm2 Hy Hgq') as (o2 & t2 & Hg2 & H20 & H2b & _ & _).
    cbn [gep_offset] in Hop, Hoq. rewrite Hm, Hfo, Hg1 in Hop. rewrite Hm2, Hfo2, Hg2 in Hoq.
    inversion Hop; inversion Hoq; subst offp tp offq tq.
    cbn [step_eqb] in Hd. destruct (Nat.eqb_spec k l) as [Heq|Hne].
    + subst l. rewrite Hn in Hn2. rewrite Hm in Hm2. rewrite Hfo in Hfo2.
      inversion Hn2; inversion Hm2; inversion Hfo2; subst y m2 fo2.
      destruct (IH q m x vp vq o1 t1 o2 t2 Hwm Hx Hgp' Hgq' Hg1 Hg2 Hd); [left|right]; lia.
    + destruct (struct_layout_facts ms Hwl) as [_ [_ [_ [_ Hdis]]]].
      destruct (Nat.lt_total k l) as [Hlt|[Heq|Hgt]]; [left|congruence|right].
      * pose proof (Hdis k l m fo m2 fo2 Hlt Hm Hfo Hm2 Hfo2). lia.
      * pose proof (Hdis l k m2 fo2 m fo Hgt Hm2 Hfo2 Hm Hfo). lia.
Qed.

(* ---- (c) stores ---------------------------------------------------------------- *)

Lemma set_path_some : forall p v v0 w,
  get_path v p = Some v0 -> exists v2, set_path v p w = Some v2.
Proof.
  induction p as [|s p IH]; intros v v0 w Hg; [now exists w|].
  destruct s as [i|k]; cbn [get_path set_path] in *.
  - destruct v as [z|vs|vs]; try discriminate. destruct (i <? 0); [discriminate|].
    destruct (nth_error vs (Z.to_nat i)) as [x|]; [|discriminate].
    destruct (IH x v0 w Hg) as [x' ->]. eexists. reflexivity.
  - destruct v as [z|vs|vs]; try discriminate.
    destruct (nth_error vs k) as [x|]; [|discriminate].
    destruct (IH x v0 w Hg) as [x' ->]. eexists. reflexivity.
Qed.

Lemma get_set_same : forall p v w v2, set_path v p w = Some v2 -> get_path v2 p = Some w.
Proof.
  induction p as [|s p IH]; intros v w v2 Hs.
  - cbn [set_path] in Hs. inversion Hs. reflexivity.
  - destruct s as [i|k]; cbn [set_path] in Hs.
    + destruct v as [z|vs|vs]; try discriminate.
      destruct (i <? 0) eqn:Hi; [discriminate|].
      destruct (nth_error vs (Z.to_nat i)) as [x|] eqn:Hn; [|discriminate].
      destruct (set_path x p w) as [x'|] eqn:Hs'; [|discriminate]. inversion Hs; subst v2.
      cbn [get_path]. rewrite Hi, (nth_error_upd_same vs _ x' x Hn). eapply IH; eassumption.
    + destruct v as [z|vs|vs]; try discriminate.
      destruct (nth_error vs k) as [x|] eqn:Hn; [|discriminate].
      destruct (set_path x p w) as [x'|] eqn:Hs'; [|discriminate]. inversion Hs; subst v2.
      cbn [get_path]. rewrite (nth_error_upd_same vs _ x' x Hn). eapply IH; eassumption.
Qed.

(* What must not change does not change, at the source level. *)
Lemma get_set_disjoint : forall p q v w v2,
  set_path v p w = Some v2 -> disjoint_paths p q = true -> get_path v2 q = get_path v q.
Proof.
  induction p as [|s1 p IH]; intros q v w v2 Hs Hd; [discriminate|].
  destruct q as [|s2 q]; [discriminate|]. cbn [disjoint_paths] in Hd.
  destruct s1 as [i|k]; cbn [set_path] in Hs.
  - destruct v as [z|vs|vs]; try discriminate.
    destruct (i <? 0) eqn:Hi; [discriminate|]. apply Z.ltb_ge in Hi.
    destruct (nth_error vs (Z.to_nat i)) as [x|] eqn:Hn; [|discriminate].
    destruct (set_path x p w) as [x'|] eqn:Hs'; [|discriminate]. inversion Hs; subst v2.
    destruct s2 as [j|l]; cbn [get_path]; [|reflexivity].
    cbn [step_eqb] in Hd. destruct (Z.ltb_spec j 0) as [Hj|Hj]; [reflexivity|].
    destruct (Z.eqb_spec i j) as [Heq|Hne].
    + subst j. rewrite (nth_error_upd_same vs _ x' x Hn), Hn. eapply IH; eassumption.
    + rewrite nth_error_upd_other by lia. reflexivity.
  - destruct v as [z|vs|vs]; try discriminate.
    destruct (nth_error vs k) as [x|] eqn:Hn; [|discriminate].
    destruct (set_path x p w) as [x'|] eqn:Hs'; [|discriminate]. inversion Hs; subst v2.
    destruct s2 as [j|l]; cbn [get_path]; [reflexivity|].
    cbn [step_eqb] in Hd. destruct (Nat.eqb_spec k l) as [Heq|Hne].
    + subst l. rewrite (nth_error_upd_same vs _ x' x Hn), Hn. eapply IH; eassumption.
    + rewrite nth_error_upd_other by assumption. reflexivity.
Qed.

Lemma wt_set_path : forall p t v v0 w v2 off t',
  wf_ty t = true -> wt_value t v = true -> get_path v p = Some v0 ->
  gep_offset t p = Some (off, t') -> wt_value t' w = true ->
  set_path v p w = Some v2 -> wt_value t v2 = true.
Proof.
  induction p as [|s p IH]; intros t v v0 w v2 off t' Hwf Hwt Hg Hgo Hw Hs.
  - cbn [set_path gep_offset] in Hs, Hgo. inversion Hs; inversion Hgo; subst. exact Hw.
  - destruct s as [i|k].
    + destruct (get_elem_inv _ _ _ _ _ Hwf Hwt Hg)
        as (n & e & vs & x & -> & -> & Hi & Hlen & Hn & Hg' & He & Hx & Hl).
      cbn [gep_offset] in Hgo. destruct (gep_offset e p) as [[o1 t1]|] eqn:Hg1; [|discriminate].
      inversion Hgo; subst off t1.
      cbn [set_path] in Hs. destruct (i <? 0); [discriminate|]. rewrite Hn in Hs.
      destruct (set_path x p w) as [x'|] eqn:Hs'; [|discriminate]. inversion Hs; subst v2.
      rewrite wt_value_arr, length_upd_nth. apply andb_true_iff. split; [now apply Z.eqb_eq|].
      apply wt_list_upd; [exact Hl|]. eapply IH; eassumption.
    + destruct (get_member_inv _ _ _ _ _ Hwf Hwt Hg)
        as (ms & vs & x & m & fo & -> & -> & Hn & Hm & Hfo & Hg' & Hwm & Hx & Hwl & Hwms).
      cbn [gep_offset] in Hgo. rewrite Hm, Hfo in Hgo.
      destruct (gep_offset m p) as [[o1 t1]|] eqn:Hg1; [|discriminate].
      inversion Hgo; subst off t1.
      cbn [set_path] in Hs. rewrite Hn in Hs.
      destruct (set_path x p w) as [x'|] eqn:Hs'; [|discriminate]. inversion Hs; subst v2.
      rewrite wt_value_struct. eapply wt_members_upd; [exact Hwms|exact Hm|].
      eapply IH; eassumption.
Qed.

Lemma enc_arr_upd e : forall vs k x x' o,
  nth_error vs k = Some x ->
  (0 <= o - Z.of_nat k * llvm_alloc_size e < llvm_alloc_size e ->
   enc e x' (o - Z.of_nat k * llvm_alloc_size e) = enc e x (o - Z.of_nat k * llvm_alloc_size e)) ->
  enc_arr e (upd_nth vs k x') o = enc_arr e vs o.
Proof.
  remember (llvm_alloc_size e) as sz eqn:Hsz.
  induction vs as [|y r IH]; intros k x x' o Hn H; [destruct k; discriminate|].
  destruct k as [|k']; cbn [upd_nth nth_error] in *; rewrite !enc_arr_cons, <- Hsz.
  - inversion Hn; subst y. cbn [Z.of_nat] in H. rewrite Z.mul_0_l, Z.sub_0_r in H.
    destruct (Z.leb_spec 0 o); destruct (Z.ltb_spec o sz); cbn [andb]; try reflexivity.
    apply H. lia.
  - destruct ((0 <=? o) && (o <? sz)); [reflexivity|].
    apply (IH k' x x' (o - sz) Hn).
    replace (o - sz - Z.of_nat k' * sz) with (o - Z.of_nat (S k') * sz)
      by (rewrite Nat2Z.inj_succ; ring).
    exact H.
Qed.

Lemma enc_members_upd o : forall vs ms offs k x x' m off,
  nth_error vs k = Some x -> nth_error ms k = Some m -> nth_error offs k = Some off ->
  (off <= o < off + llvm_alloc_size m -> enc m x' (o - off) = enc m x (o - off)) ->
  enc_members o (upd_nth vs k x') ms offs = enc_members o vs ms offs.
Proof.
  induction vs as [|y r IH]; intros ms offs k x x' m off Hx Hm Hoff H;
    [destruct k; discriminate|].
  destruct ms as [|m0 ms']; [destruct k; discriminate|].
  destruct offs as [|off0 offs']; [destruct k; discriminate|].
  destruct k as [|k']; cbn [upd_nth nth_error] in *; rewrite !enc_members_cons.
  - inversion Hx; inversion Hm; inversion Hoff; subst.
    destruct (Z.leb_spec off o); destruct (Z.ltb_spec o (off + llvm_alloc_size m));
      cbn [andb]; try reflexivity. apply H. lia.
  - destruct ((off0 <=? o) && (o <? off0 + llvm_alloc_size m0)); [reflexivity|].
    eapply IH; eassumption.
Qed.

(* Bytes of the object outside the window of p keep their contents. *)
Lemma enc_set_outside : forall p t v v0 w v2 off t',
  wf_ty t = true -> wt_value t v = true -> get_path v p = Some v0 ->
  gep_offset t p = Some (off, t') -> set_path v p w = Some v2 ->
  forall o, 0 <= o < llvm_alloc_size t ->
    o < off \/ off + llvm_alloc_size t' <= o -> enc t v2 o = enc t v o.
Proof.
  induction p as [|s p IH]; intros t v v0 w v2 off t' Hwf Hwt Hg Hgo Hs o Ho Hout.
  - cbn [gep_offset] in Hgo. inversion Hgo; subst. lia.
  - destruct s as [i|k].
    + destruct (get_elem_inv _ _ _ _ _ Hwf Hwt Hg)
        as (n & e & vs & x & -> & -> & Hi & Hlen & Hn & Hg' & He & Hx & Hl).
      cbn [gep_offset] in Hgo. destruct (gep_offset e p) as [[o1 t1]|] eqn:Hg1; [|discriminate].
      inversion Hgo; subst off t1.
      cbn [set_path] in Hs. destruct (i <? 0); [discriminate|]. rewrite Hn in Hs.
      destruct (set_path x p w) as [x'|] eqn:Hs'; [|discriminate]. inversion Hs; subst v2.
      rewrite !enc_arr_eq. apply (enc_arr_upd e vs (Z.to_nat i) x x' o Hn).
      rewrite Z2Nat.id by lia. intros Hin.
      eapply IH; try eassumption. lia.
    + destruct (get_member_inv _ _ _ _ _ Hwf Hwt Hg)
        as (ms & vs & x & m & fo & -> & -> & Hn & Hm & Hfo & Hg' & Hwm & Hx & Hwl & Hwms).
      cbn [gep_offset] in Hgo. rewrite Hm, Hfo in Hgo.
      destruct (gep_offset m p) as [[o1 t1]|] eqn:Hg1; [|discriminate].
      inversion Hgo; subst off t1.
      cbn [set_path] in Hs. rewrite Hn in Hs.
      destruct (set_path x p w) as [x'|] eqn:Hs'; [|discriminate]. inversion Hs; subst v2.
      rewrite !enc_struct_eq.
      apply (enc_members_upd o vs ms (struct_offsets ms) k x x' m fo Hn Hm Hfo).
      intros Hin. eapply IH; try eassumption; lia.
Qed.

Lemma store_inside m a t w x :
  a <= x < a + llvm_alloc_size t -> store m a t w x = enc t w (x - a).
Proof.
  intros H. unfold store.
  destruct (Z.leb_spec a x); destruct (Z.ltb_spec x (a + llvm_alloc_size t)); try lia.
  reflexivity.
Qed.

Lemma store_frame m a t w x :
  x < a \/ a + llvm_alloc_size t <= x -> store m a t w x = m x.
Proof.
  intros H. unfold store.
  destruct (Z.leb_spec a x); destruct (Z.ltb_spec x (a + llvm_alloc_size t)); try lia;
    reflexivity.
Qed.

(* (c) A store through the lowered address of p turns an image of v into an
   image of [set_path v p w] (padding aside), and touches nothing outside the
   window of p. *)
Theorem store_commutes m a t v p v0 off t' w :
  wf_ty t = true -> wt_value t v = true -> agree m a t v ->
  get_path v p = Some v0 -> gep_offset t p = Some (off, t') -> wt_value t' w = true ->
  exists v2,
    set_path v p w = Some v2 /\ wt_value t v2 = true /\
    agree (store m (a + off) t' w) a t v2 /\
    (forall x, x < a + off \/ a + off + llvm_alloc_size t' <= x ->
       store m (a + off) t' w x = m x).
Proof.
  intros Hwf Hwt Hag Hg Hgo Hw.
  destruct (set_path_some p v v0 w Hg) as [v2 Hs]. exists v2.
  pose proof (wt_set_path p t v v0 w v2 off t' Hwf Hwt Hg Hgo Hw Hs) as Hwt2.
  split; [exact Hs|]. split; [exact Hwt2|]. split; [|intros x Hx; now apply store_frame].
  destruct (gep_in_bounds p t v v0 Hwf Hwt Hg) as (off1 & t1 & Hgo1 & H0 & Hb & _ & _).
  rewrite Hgo in Hgo1. inversion Hgo1; subst off1 t1.
  intros o Ho Hnp.
  destruct (Z.lt_ge_cases o off) as [Hlo|Hlo];
    [|destruct (Z.lt_ge_cases o (off + llvm_alloc_size t')) as [Hhi|Hhi]].
  - rewrite store_frame by lia.
    rewrite (enc_set_outside p t v v0 w v2 off t' Hwf Hwt Hg Hgo Hs o Ho) in Hnp |- * by lia.
    now apply Hag.
  - rewrite store_inside by lia.
    replace (a + o - (a + off)) with (o - off) by lia.
    rewrite <- (enc_sub p t v2 w off t' Hwf Hwt2 (get_set_same p v w v2 Hs) Hgo (o - off))
      by lia.
    f_equal. lia.
  - rewrite store_frame by lia.
    rewrite (enc_set_outside p t v v0 w v2 off t' Hwf Hwt Hg Hgo Hs o Ho) in Hnp |- * by lia.
    now apply Hag.
Qed.

(* Reading back what was stored, and reading anything that lies apart. *)
Corollary load_after_store m a t v p v0 off t' w :
  wf_ty t = true -> wt_value t v = true -> agree m a t v ->
  get_path v p = Some v0 -> gep_offset t p = Some (off, t') -> wt_value t' w = true ->
  load (store m (a + off) t' w) (a + off) t' = Some w /\
  (forall q vq offq tq,
     disjoint_paths p q = true -> get_path v q = Some vq ->
     gep_offset t q = Some (offq, tq) ->
     load (store m (a + off) t' w) (a + offq) tq = Some vq).
Proof.
  intros Hwf Hwt Hag Hg Hgo Hw.
  destruct (store_commutes m a t v p v0 off t' w Hwf Hwt Hag Hg Hgo Hw)
    as (v2 & Hs & Hwt2 & Hag2 & _).
  split.
  - exact (load_after_encode _ a t v2 p w off t' Hwf Hwt2 Hag2 (get_set_same p v w v2 Hs) Hgo).
  - intros q vq offq tq Hd Hq Hgq.
    apply (load_after_encode _ a t v2 q vq offq tq Hwf Hwt2 Hag2); [|exact Hgq].
    now rewrite (get_set_disjoint p q v w v2 Hs Hd).
Qed.

(* A whole-object store produces memory that holds the image, and [encode] lists
   the cells of [enc]. *)
Lemma agree_store m a t v : agree (store m a t v) a t v.
Proof.
  intros o Ho _. rewrite store_inside by lia. f_equal. lia.
Qed.

Corollary load_after_encode_store m a t v p v' off t' :
  wf_ty t = true -> wt_value t v = true ->
  get_path v p = Some v' -> gep_offset t p = Some (off, t') ->
  load (store m a t v) (a + off) t' = get_path v p.
Proof.
  intros Hwf Hwt Hg Hgo. rewrite Hg.
  exact (load_after_encode _ a t v p v' off t' Hwf Hwt (agree_store m a t v) Hg Hgo).
Qed.

Lemma encode_nth t v k :
  (Z.of_nat k < llvm_alloc_size t) -> nth_error (encode t v) k = Some (enc t v (Z.of_nat k)).
Proof.
  intros Hk. unfold encode.
  rewrite (map_nth_error (fun k => enc t v (Z.of_nat k)) k (seq 0 (Z.to_nat (llvm_alloc_size t)))
             (d := k)); [reflexivity|].
  rewrite nth_error_nth' with (d := O) by (rewrite seq_length; lia).
  rewrite seq_nth by lia. reflexivity.
Qed.

Lemma encode_length t v : length (encode t v) = Z.to_nat (llvm_alloc_size t).
Proof. unfold encode. now rewrite map_length, seq_length. Qed.

(* ======================================================================= *)
(* Part 2: the instruction sequence of the generator                        *)
(* ======================================================================= *)

Lemma erase_struct ms : erase (LStruct ms) = TStruct (erase_list ms).
Proof. reflexivity. Qed.

Lemma erase_list_nth ms : forall k m,
  nth_error (erase_list ms) k = Some m -> exists M, nth_error ms k = Some M /\ erase M = m.
Proof.
  induction ms as [|M0 ms IH]; intros k m H; [destruct k; discriminate|].
  destruct k as [|k']; cbn [erase_list nth_error] in *.
  - inversion H. now exists M0.
  - now apply IH.
Qed.

Lemma erase_list_nth' ms : forall k M,
  nth_error ms k = Some M -> nth_error (erase_list ms) k = Some (erase M).
Proof.
  induction ms as [|M0 ms IH]; intros k M H; [destruct k; discriminate|].
  destruct k as [|k']; cbn [erase_list nth_error] in *.
  - now inversion H.
  - now apply IH.
Qed.

Lemma gep_steps_app gs1 : forall st gs2,
  gep_steps st (gs1 ++ gs2) =
  match gep_steps st gs1 with
  | Some st' => gep_steps st' gs2
  | None => None
  end.
Proof.
  induction gs1 as [|g r IH]; intros st gs2; [reflexivity|].
  cbn [app gep_steps]. destruct (gep_step st g); [apply IH|reflexivity].
Qed.

Lemma gep_eval_snoc T z idx g :
  idx <> [] ->
  gep_eval T z (idx ++ [g]) =
  match gep_eval T z idx with
  | Some st => gep_step st g
  | None => None
  end.
Proof.
  destruct idx as [|g0 r]; intros H; [congruence|].
  cbn [app gep_eval]. rewrite gep_steps_app.
  destruct (gep_steps (z + gval g0 * lsize T, T) r) as [st|]; [|reflexivity].
  cbn [gep_steps]. now destruct (gep_step st g).
Qed.

Lemma run_app m is1 : forall is2 v,
  run m (is1 ++ is2) v =
  match run m is1 v with
  | Some v' => run m is2 v'
  | None => None
  end.
Proof.
  induction is1 as [|i r IH]; intros is2 v; [reflexivity|].
  cbn [app run]. destruct (exec_instr m i v); [apply IH|reflexivity].
Qed.

Lemma run_flush m idx rest z T0 a T :
  gep_eval T0 z idx = Some (a, T) ->
  run m (flush idx ++ rest) (MPtr z T0) = run m rest (MPtr a T).
Proof.
  intros H. destruct idx as [|g r].
  - cbn [gep_eval] in H. inversion H. reflexivity.
  - unfold flush. cbn [is_nil app run exec_instr]. now rewrite H.
Qed.

(* ---- (e) a plain path in a local or global: one GEP [0, idx...] --------------- *)

Lemma lower_steps_plain : forall p idx imm,
  lower_steps (map step_rstep p) idx imm = flush (idx ++ map step_gidx p).
Proof.
  induction p as [|s p IH]; intros idx imm; cbn [map lower_steps].
  - now rewrite app_nil_r.
  - destruct s as [i|k]; cbn [step_rstep step_gidx lower_steps]; rewrite IH, <- app_assoc;
      reflexivity.
Qed.

Lemma lower_path_shape p :
  lower_path p = match p with
                 | [] => []
                 | _ :: _ => [IGep (GConst 0 :: map step_gidx p)]
                 end.
Proof.
  unfold lower_path, lower_ref. destruct p as [|s p]; [reflexivity|].
  cbn [map is_nil]. rewrite <- map_cons. now rewrite lower_steps_plain.
Qed.

Lemma gep_steps_path : forall p T a off t',
  gep_offset (erase T) p = Some (off, t') ->
  exists T', gep_steps (a, T) (map step_gidx p) = Some (a + off, T') /\ erase T' = t'.
Proof.
  induction p as [|s p IH]; intros T a off t' H.
  - cbn [gep_offset] in H. inversion H; subst. exists T. cbn [map gep_steps].
    now rewrite Z.add_0_r.
  - destruct s as [i|k]; cbn [gep_offset] in H.
    + destruct T as [b| |u|n E|Ms]; try discriminate. cbn [erase] in H.
      destruct (gep_offset (erase E) p) as [[o1 t1]|] eqn:H1; [|discriminate].
      inversion H; subst off t1.
      destruct (IH E (a + i * lsize E) o1 t' H1) as [T' [Hs He]].
      exists T'. cbn [map step_gidx gep_steps gep_step gval]. rewrite Hs. split; [|exact He].
      unfold lsize. do 2 f_equal. ring.
    + destruct T as [b| |u|n E|Ms]; try discriminate. rewrite erase_struct in H.
      destruct (nth_error (erase_list Ms) k) as [mk|] eqn:Hm; [|discriminate].
      destruct (nth_error (struct_offsets (erase_list Ms)) k) as [fo|] eqn:Hfo; [|discriminate].
      destruct (erase_list_nth Ms k mk Hm) as [M [HM HeM]]. subst mk.
      destruct (gep_offset (erase M) p) as [[o1 t1]|] eqn:H1; [|discriminate].
      inversion H; subst off t1.
      destruct (IH M (a + fo) o1 t' H1) as [T' [Hs He]].
      exists T'. cbn [map step_gidx gep_steps gep_step].
      destruct (Z.ltb_spec (Z.of_nat k) 0); [lia|]. rewrite Nat2Z.id, HM, Hfo, Hs.
      split; [|exact He]. do 2 f_equal. ring.
Qed.

Theorem lower_path_is_gep_offset m T a p off t' :
  gep_offset (erase T) p = Some (off, t') ->
  exists T', run m (lower_path p) (MPtr a T) = Some (MPtr (a + off) T') /\ erase T' = t'.
Proof.
  intros H. rewrite lower_path_shape. destruct p as [|s p].
  - cbn [gep_offset] in H. inversion H; subst. exists T. cbn [run]. now rewrite Z.add_0_r.
  - destruct (gep_steps_path (s :: p) T a off t' H) as [T' [Hs He]]. exists T'.
    cbn [run exec_instr gep_eval gval]. rewrite Z.mul_0_l, Z.add_0_r, Hs. now split.
Qed.

(* The executable interface agrees with it. *)
Lemma lower_path_indices_shape t p off t' :
  gep_offset t p = Some (off, t') ->
  lower_path_indices t p =
  Some (match p with
        | [] => []
        | _ :: _ => [0 :: map show_gidx (map step_gidx p)]
        end).
Proof.
  intros H. unfold lower_path_indices. rewrite H, lower_path_shape.
  destruct p; reflexivity.
Qed.

(* ---- (f) slices ------------------------------------------------------------------ *)

(* What `x[i]<q>` lowers to for a slice parameter x (`[]T` or `&[]T`):
   extractvalue 0, then ONE getelementptr over [0 x T] with a leading 0. *)
Lemma lower_slice_shape i q :
  lower_ref BParam (RDeslice0 :: RElem i false :: map step_rstep q) =
  [IExtract 0; IGep (GConst 0 :: GDyn i :: map step_gidx q)].
Proof.
  unfold lower_ref. cbn [is_nil lower_steps app]. now rewrite lower_steps_plain.
Qed.

(* No comparison with the length is generated: for EVERY integer i, inside the
   slice or not, the sequence evaluates to ptr + i * sizeof(T) [+ off]. *)
Theorem slice_address_unchecked m ptr len E i q off t' :
  gep_offset (erase E) q = Some (off, t') ->
  exists T',
    run m (lower_ref BParam (RDeslice0 :: RElem i false :: map step_rstep q)) (MSlice ptr len E)
    = Some (MPtr (ptr + i * llvm_alloc_size (erase E) + off) T') /\ erase T' = t'.
Proof.
  intros H. rewrite lower_slice_shape.
  destruct (gep_steps_path q E (ptr + i * lsize E) off t' H) as [T' [Hs He]]. exists T'.
  cbn [run exec_instr gep_eval gep_steps gep_step gval].
  replace (ptr + 0 * lsize (LArr 0 E) + i * lsize E) with (ptr + i * lsize E) by ring.
  rewrite Hs. now split.
Qed.

(* With the index in range, and the slice pointing at the image of an array
   value, the element (and any subobject of it) is found.  The hypothesis
   0 <= i < len is necessary: see [slice_address_unchecked]. *)
Theorem slice_element m ptr len E vs i q v' off t' :
  wf_ty (erase E) = true -> wt_list (erase E) vs = true -> Z.of_nat (length vs) = len ->
  agree m ptr (TArr len (erase E)) (VArr vs) ->
  0 <= i < len ->
  get_path (VArr vs) (SElem i :: q) = Some v' ->
  gep_offset (erase E) q = Some (off, t') ->
  exists T',
    run m (lower_ref BParam (RDeslice0 :: RElem i false :: map step_rstep q)) (MSlice ptr len E)
    = Some (MPtr (ptr + i * llvm_alloc_size (erase E) + off) T') /\ erase T' = t' /\
    load m (ptr + i * llvm_alloc_size (erase E) + off) t' = Some v'.
Proof.
  intros Hwf Hl Hlen Hag Hi Hg Hgo.
  destruct (slice_address_unchecked m ptr len E i q off t' Hgo) as [T' [Hr He]].
  exists T'. split; [exact Hr|]. split; [exact He|].
  rewrite <- Z.add_assoc.
  apply (load_after_encode m ptr (TArr len (erase E)) (VArr vs) (SElem i :: q) v').
  - cbn [wf_ty]. apply andb_true_iff. split; [apply Z.leb_le; lia|exact Hwf].
  - rewrite wt_value_arr. apply andb_true_iff. split; [now apply Z.eqb_eq|exact Hl].
  - exact Hag.
  - exact Hg.
  - cbn [gep_offset]. now rewrite Hgo.
Qed.

Corollary slice_element_nth m ptr E vs i x :
  wf_ty (erase E) = true -> wt_list (erase E) vs = true ->
  agree m ptr (TArr (Z.of_nat (length vs)) (erase E)) (VArr vs) ->
  0 <= i < Z.of_nat (length vs) -> nth_error vs (Z.to_nat i) = Some x ->
  run m (lower_ref BParam [RDeslice0; RElem i false]) (MSlice ptr (Z.of_nat (length vs)) E)
  = Some (MPtr (ptr + i * llvm_alloc_size (erase E)) E) /\
  load m (ptr + i * llvm_alloc_size (erase E)) (erase E) = Some x.
Proof.
  intros Hwf Hl Hag Hi Hn.
  assert (Hg : get_path (VArr vs) [SElem i] = Some x).
  { cbn [get_path]. destruct (Z.ltb_spec i 0); [lia|]. now rewrite Hn. }
  destruct (slice_element m ptr _ E vs i [] x 0 (erase E) Hwf Hl eq_refl Hag Hi Hg eq_refl)
    as [T' [Hr [He Hld]]].
  rewrite Z.add_0_r in Hld. split; [|exact Hld].
  change [RDeslice0; RElem i false] with (RDeslice0 :: RElem i false :: map step_rstep []).
  rewrite lower_slice_shape.
  cbn [map run exec_instr gep_eval gep_steps gep_step gval].
  do 2 f_equal. unfold lsize. ring.
Qed.

(* ---- the batched GEPs compute the step-by-step reference semantics ----------- *)

(* Element{is_endless:true} occurs only right after an Autoderef/Autoview (the
   typer produces it for `&[..]T` only: [elaborate_endless_ok] below). *)
Fixpoint endless_ok (after_deref : bool) (steps : list rstep) : bool :=
  match steps with
  | [] => true
  | RElem _ endless :: r => (negb endless || after_deref) && endless_ok false r
  | RMember _ :: r => endless_ok false r
  | RAutoderef :: r => endless_ok true r
  | RAutoview :: r => endless_ok true r
  | RDeslice0 :: r => endless_ok false r
  | RDeslice1 :: r => endless_ok false r
  end.

(* Element{is_endless:false} and Member need a pending index. *)
Definition head_ok (idx : list gidx) (steps : list rstep) : Prop :=
  match steps with
  | RElem _ false :: _ => idx <> []
  | RMember _ :: _ => idx <> []
  | _ => True
  end.

(* The indices pushed after the load of an Autoderef/Autoview (generator.rs
   1553-1597, 1620-1623). *)
Definition after_load_idx (rest : list rstep) : list gidx :=
  match rest with
  | RElem _ endless :: _ => if negb endless then [GConst 0] else []
  | RMember _ :: _ => [GConst 0]
  | RDeslice0 :: _ => [GConst 0]
  | _ => []
  end.

Definition not_deslice1 (rest : list rstep) : Prop :=
  match rest with
  | RDeslice1 :: _ => False
  | _ => True
  end.

Lemma lower_deref_nonimm s rest idx :
  s = RAutoderef \/ s = RAutoview -> not_deslice1 rest ->
  lower_steps (s :: rest) idx false =
  flush idx ++ ILoad :: lower_steps rest (after_load_idx rest) false.
Proof.
  intros [-> | ->] H; destruct rest as [|[i [|]|k| | | |] r]; cbn [not_deslice1] in H;
    try contradiction; reflexivity.
Qed.

Lemma sem_step_mem m l s l' : sem_step m l s = Some l' -> exists a t, l' = LocMem a t.
Proof.
  unfold sem_step.
  destruct s as [i [|]|k| | | |], l as [a t|z u|p len e]; try discriminate.
  - intros H. inversion H. eauto.
  - destruct t; try discriminate. intros H. inversion H. eauto.
  - destruct t as [| | | |ms]; try discriminate.
    destruct (nth_error ms k); [|discriminate].
    destruct (nth_error (struct_offsets (erase_list ms)) k); [|discriminate].
    intros H. inversion H. eauto.
  - destruct t; try discriminate. destruct (load_scalar m a 8); [|discriminate].
    intros H. inversion H. eauto.
  - intros H. inversion H. eauto.
  - destruct t; try discriminate. destruct (load_scalar m a 8); [|discriminate].
    intros H. inversion H. eauto.
  - intros H. inversion H. eauto.
  - intros H. inversion H. eauto.
Qed.

Lemma sem_deref_mem m a T s l' :
  s = RAutoderef \/ s = RAutoview -> sem_step m (LocMem a T) s = Some l' ->
  exists u z, T = LPtr u /\ load_scalar m a 8 = Some z /\ l' = LocMem z u.
Proof.
  intros [-> | ->] H; cbn [sem_step] in H; destruct T; try discriminate;
    (destruct (load_scalar m a 8) as [z|]; [|discriminate]); inversion H; eauto.
Qed.

Lemma gep_eval_zero u z : gep_eval u z [GConst 0] = Some (z, u).
Proof. cbn [gep_eval gep_steps gval]. now rewrite Z.mul_0_l, Z.add_0_r. Qed.

Lemma endless_ok_elem_member b b' steps :
  match steps with
  | RElem _ false :: _ => True
  | RMember _ :: _ => True
  | RDeslice0 :: _ => True
  | _ => False
  end ->
  endless_ok b steps = endless_ok b' steps.
Proof.
  destruct steps as [|[i [|]|k| | | |] r]; intros H; try contradiction; reflexivity.
Qed.

(* The invariant: the pending GEP (pointer z : T0*, indices idx) denotes the
   current location. *)
Lemma sim_steps m : forall steps z T0 idx a T l',
  gep_eval T0 z idx = Some (a, T) ->
  head_ok idx steps -> endless_ok (is_nil idx) steps = true ->
  sem_steps m (LocMem a T) steps = Some l' ->
  exists a' T', l' = LocMem a' T' /\
    run m (lower_steps steps idx false) (MPtr z T0) = Some (MPtr a' T').
Proof.
  induction steps as [|s rest IH]; intros z T0 idx a T l' Hg Hh He Hs.
  - cbn [sem_steps] in Hs. inversion Hs; subst l'. exists a, T. split; [reflexivity|].
    cbn [lower_steps]. rewrite <- (app_nil_r (flush idx)).
    now rewrite (run_flush m idx [] z T0 a T Hg).
  - cbn [sem_steps] in Hs. destruct (sem_step m (LocMem a T) s) as [l1|] eqn:Hs1; [|discriminate].
    destruct s as [i endless|k| | | |].
    + (* Element *)
      destruct endless.
      * (* endless: idx = [] *)
        cbn [endless_ok negb orb] in He. apply andb_true_iff in He as [Hnil He].
        destruct idx as [|g0 r0]; [|discriminate].
        cbn [gep_eval] in Hg. inversion Hg; subst a T.
        cbn [sem_step] in Hs1. inversion Hs1; subst l1.
        cbn [lower_steps app].
        apply (IH z T0 [GDyn i] (z + i * lsize T0) T0 l'); [reflexivity| |exact He|exact Hs].
        destruct rest as [|[? [|]|?| | | |] ?]; cbn [head_ok]; try exact I; discriminate.
      * cbn [head_ok] in Hh. cbn [endless_ok negb orb andb] in He.
        cbn [sem_step] in Hs1. destruct T as [| | |n e|]; try discriminate.
        inversion Hs1; subst l1. cbn [lower_steps].
        assert (Hnn : idx ++ [GDyn i] <> []) by (destruct idx; discriminate).
        apply (IH z T0 (idx ++ [GDyn i]) (a + i * lsize e) e l'); [| | |exact Hs].
        -- rewrite gep_eval_snoc by exact Hh. rewrite Hg. reflexivity.
        -- destruct rest as [|[? [|]|?| | | |] ?]; cbn [head_ok]; try exact I; exact Hnn.
        -- destruct idx; exact He.
    + (* Member *)
      cbn [head_ok] in Hh. cbn [endless_ok] in He.
      cbn [sem_step] in Hs1. destruct T as [| | | |ms]; try discriminate.
      destruct (nth_error ms k) as [mk|] eqn:Hm; [|discriminate].
      destruct (nth_error (struct_offsets (erase_list ms)) k) as [fo|] eqn:Hfo; [|discriminate].
      inversion Hs1; subst l1. cbn [lower_steps].
      assert (Hnn : idx ++ [GConst (Z.of_nat k)] <> []) by (destruct idx; discriminate).
      apply (IH z T0 (idx ++ [GConst (Z.of_nat k)]) (a + fo) mk l'); [| | |exact Hs].
      * rewrite gep_eval_snoc by exact Hh. rewrite Hg. cbn [gep_step].
        destruct (Z.ltb_spec (Z.of_nat k) 0); [lia|]. now rewrite Nat2Z.id, Hm, Hfo.
      * destruct rest as [|[? [|]|?| | | |] ?]; cbn [head_ok]; try exact I; exact Hnn.
      * destruct idx; exact He.
    + (* Autoderef *)
      destruct (sem_deref_mem m a T RAutoderef l1 (or_introl eq_refl) Hs1)
        as (u & z' & -> & Hld & ->).
      cbn [endless_ok] in He.
      assert (Hnd : not_deslice1 rest).
      { destruct rest as [|[? [|]|?| | | |] ?]; cbn [not_deslice1]; try exact I.
        cbn [sem_steps sem_step] in Hs. discriminate. }
      rewrite (lower_deref_nonimm RAutoderef rest idx (or_introl eq_refl) Hnd).
      rewrite (run_flush m idx _ z T0 a (LPtr u) Hg). cbn [run exec_instr]. rewrite Hld.
      destruct rest as [|[i [|]|k| | | |] r]; cbn [after_load_idx negb].
      * apply (IH z' u [] z' u l' eq_refl I He Hs).
      * apply (IH z' u [] z' u l' eq_refl I He Hs).
      * apply (IH z' u [GConst 0] z' u l' (gep_eval_zero u z')); [discriminate|exact He|exact Hs].
      * apply (IH z' u [GConst 0] z' u l' (gep_eval_zero u z')); [discriminate|exact He|exact Hs].
      * apply (IH z' u [] z' u l' eq_refl I He Hs).
      * apply (IH z' u [] z' u l' eq_refl I He Hs).
      * cbn [sem_steps sem_step] in Hs. discriminate.
      * contradiction.
    + (* Autoview *)
      destruct (sem_deref_mem m a T RAutoview l1 (or_intror eq_refl) Hs1)
        as (u & z' & -> & Hld & ->).
      cbn [endless_ok] in He.
      assert (Hnd : not_deslice1 rest).
      { destruct rest as [|[? [|]|?| | | |] ?]; cbn [not_deslice1]; try exact I.
        cbn [sem_steps sem_step] in Hs. discriminate. }
      rewrite (lower_deref_nonimm RAutoview rest idx (or_intror eq_refl) Hnd).
      rewrite (run_flush m idx _ z T0 a (LPtr u) Hg). cbn [run exec_instr]. rewrite Hld.
      destruct rest as [|[i [|]|k| | | |] r]; cbn [after_load_idx negb].
      * apply (IH z' u [] z' u l' eq_refl I He Hs).
      * apply (IH z' u [] z' u l' eq_refl I He Hs).
      * apply (IH z' u [GConst 0] z' u l' (gep_eval_zero u z')); [discriminate|exact He|exact Hs].
      * apply (IH z' u [GConst 0] z' u l' (gep_eval_zero u z')); [discriminate|exact He|exact Hs].
      * apply (IH z' u [] z' u l' eq_refl I He Hs).
      * apply (IH z' u [] z' u l' eq_refl I He Hs).
      * cbn [sem_steps sem_step] in Hs. discriminate.
      * contradiction.
    + cbn [sem_step] in Hs1. discriminate.
    + cbn [sem_step] in Hs1. discriminate.
Qed.

(* For a local or global (memory), a pointer/view parameter, and a slice
   parameter: the instructions emitted by the REPAIRED generate_storage_address,
   executed, yield the address the resolved steps denote.  No restriction on
   the steps beyond what the typer guarantees ([elaborate_endless_ok]). *)
Theorem lower_ref_sound m l steps l' :
  steps <> [] -> endless_ok false steps = true ->
  sem_steps m l steps = Some l' ->
  exists a t, l' = LocMem a t /\
    run m (lower_ref (base_kind_of l) steps) (base_mval l) = Some (MPtr a t).
Proof.
  intros Hne He Hs. destruct steps as [|s rest]; [congruence|]. clear Hne.
  destruct l as [a T|z u|p len e]; cbn [base_kind_of base_mval lower_ref is_nil].
  - apply (sim_steps m (s :: rest) a T [GConst 0] a T l' (gep_eval_zero T a)); try assumption.
    destruct s as [? [|]|?| | | |]; cbn [head_ok]; try exact I; discriminate.
  - cbn [sem_steps] in Hs.
    destruct (sem_step m (LocPtr z u) s) as [l1|] eqn:Hs1; [|discriminate].
    assert (Hd : (s = RAutoderef \/ s = RAutoview) /\ l1 = LocMem z u).
    { destruct s as [? [|]|?| | | |]; cbn [sem_step] in Hs1; try discriminate;
        inversion Hs1; auto. }
    destruct Hd as [Hd ->].
    assert (He' : endless_ok true rest = true) by (destruct Hd as [-> | ->]; exact He).
    assert (Hlow : lower_steps (s :: rest) [] true =
                   lower_steps rest (after_load_idx rest) false
                   \/ (exists r, rest = RDeslice0 :: r) \/ (exists r, rest = RDeslice1 :: r)).
    { destruct Hd as [-> | ->]; destruct rest as [|[i [|]|k| | | |] r]; cbn [lower_steps];
        eauto. }
    destruct Hlow as [Hlow|[[r ->]|[r ->]]];
      [|cbn [sem_steps sem_step] in Hs; discriminate|cbn [sem_steps sem_step] in Hs; discriminate].
    rewrite Hlow.
    destruct rest as [|[i [|]|k| | | |] r]; cbn [after_load_idx negb].
    + apply sim_steps with (a := z) (T := u); [reflexivity|exact I|exact He'|exact Hs].
    + apply sim_steps with (a := z) (T := u); [reflexivity|exact I|exact He'|exact Hs].
    + apply sim_steps with (a := z) (T := u);
        [apply gep_eval_zero|discriminate|exact He'|exact Hs].
    + apply sim_steps with (a := z) (T := u);
        [apply gep_eval_zero|discriminate|exact He'|exact Hs].
    + apply sim_steps with (a := z) (T := u); [reflexivity|exact I|exact He'|exact Hs].
    + apply sim_steps with (a := z) (T := u); [reflexivity|exact I|exact He'|exact Hs].
    + cbn [sem_steps sem_step] in Hs. discriminate.
    + cbn [sem_steps sem_step] in Hs. discriminate.
  - cbn [sem_steps] in Hs.
    destruct (sem_step m (LocSlice p len e) s) as [l1|] eqn:Hs1; [|discriminate].
    destruct s as [? [|]|?| | | |]; cbn [sem_step] in Hs1; try discriminate.
    inversion Hs1; subst l1. cbn [endless_ok] in He.
    cbn [lower_steps is_nil run exec_instr].
    apply (sim_steps m rest p (LArr 0 e) [GConst 0] p (LArr 0 e) l' (gep_eval_zero _ p));
      try assumption.
    destruct rest as [|[? [|]|?| | | |] ?]; cbn [head_ok]; try exact I; discriminate.
Qed.

(* ---- the generator before the repair ------------------------------------------------ *)

(* Once the flag is false, the pinned and the repaired generator are the same. *)
Lemma lower_steps_pinned_false : forall steps idx,
  lower_steps_pinned steps idx false = lower_steps steps idx false.
Proof.
  induction steps as [|s r IH]; intros idx; [reflexivity|].
  destruct s as [i e|k| | | |]; cbn [lower_steps lower_steps_pinned]; try (now rewrite IH).
  - destruct r as [|[? [|]|?| | | |] ?]; cbn [andb negb]; now rewrite IH.
  - destruct r as [|[? [|]|?| | | |] ?]; cbn [andb negb]; now rewrite IH.
Qed.

(* Without Autoderef/Autoview steps the flag is never read. *)
Lemma lower_steps_pinned_imm_irrelevant : forall steps idx imm,
  no_deref steps = true ->
  lower_steps_pinned steps idx imm = lower_steps_pinned steps idx false.
Proof.
  induction steps as [|s r IH]; intros idx imm H; [reflexivity|].
  destruct s; cbn [no_deref] in H; try discriminate; cbn [lower_steps_pinned];
    try (now rewrite IH).
Qed.

(* An Autoderef/Autoview arm clears the flag in both. *)
Lemma lower_steps_pinned_deref s rest idx imm :
  s = RAutoderef \/ s = RAutoview ->
  lower_steps_pinned (s :: rest) idx imm = lower_steps (s :: rest) idx imm.
Proof.
  intros [-> | ->]; cbn [lower_steps lower_steps_pinned];
    destruct rest as [|[? [|]|?| | | |] ?]; destruct imm; cbn [andb negb];
    now rewrite !lower_steps_pinned_false.
Qed.

(* On quirk-free steps that denote something, the pinned generator emits what the
   repaired one emits. *)
Lemma lower_ref_pinned_eq m l steps l' :
  quirk_free (base_kind_of l) steps = true -> sem_steps m l steps = Some l' ->
  lower_ref_pinned (base_kind_of l) steps = lower_ref (base_kind_of l) steps.
Proof.
  intros Hq Hs. destruct steps as [|s rest]; [destruct l; reflexivity|].
  destruct l as [a T|z u|p len e]; cbn [base_kind_of lower_ref lower_ref_pinned is_nil].
  - apply lower_steps_pinned_false.
  - cbn [sem_steps] in Hs.
    destruct (sem_step m (LocPtr z u) s) as [l1|] eqn:Hs1; [|discriminate].
    apply lower_steps_pinned_deref.
    destruct s as [? [|]|?| | | |]; cbn [sem_step] in Hs1; try discriminate; auto.
  - cbn [sem_steps] in Hs.
    destruct (sem_step m (LocSlice p len e) s) as [l1|] eqn:Hs1; [|discriminate].
    destruct s as [? [|]|?| | | |]; cbn [sem_step] in Hs1; try discriminate.
    cbn [quirk_free base_kind_of] in Hq. cbn [lower_steps lower_steps_pinned is_nil].
    rewrite (lower_steps_pinned_imm_irrelevant rest [GConst 0] true Hq).
    now rewrite lower_steps_pinned_false.
Qed.

(* The pinned generator is sound on quirk-free steps only (no Autoderef/Autoview
   after the Autodeslice of a slice parameter). *)
Theorem lower_ref_pinned_sound m l steps l' :
  steps <> [] -> endless_ok false steps = true ->
  quirk_free (base_kind_of l) steps = true ->
  sem_steps m l steps = Some l' ->
  exists a t, l' = LocMem a t /\
    run m (lower_ref_pinned (base_kind_of l) steps) (base_mval l) = Some (MPtr a t).
Proof.
  intros Hne He Hq Hs. rewrite (lower_ref_pinned_eq m l steps l' Hq Hs).
  now apply lower_ref_sound.
Qed.

(* The restriction is necessary for the pinned generator: `x[i]` for `x: []&i64`
   (steps Autodeslice{0}, Element, Autoderef).  The flag is_immediate_parameter is
   still set when the Autoderef is reached, the load is skipped, and the computed
   "address of the i64" is the address of the pointer.  (The pinned compiler
   aborts inside LLVM on this program: "Broken function found".) *)
Definition quirk_mem : mem := store (fun _ => CPad) 100 (TArr 2 TPtr) (VArr [VS 500; VS 600]).

Theorem pinned_imm_flag_refuted :
  exists m l steps l',
    endless_ok false steps = true /\ sem_steps m l steps = Some l' /\
    loc_addr l' <> run m (lower_ref_pinned (base_kind_of l) steps) (base_mval l).
Proof.
  exists quirk_mem, (LocSlice 100 2 (LPtr (LInt 8))), [RDeslice0; RElem 1 false; RAutoderef],
    (LocMem 600 (LInt 8)).
  vm_compute. repeat split; discriminate.
Qed.

(* The same witness with the repaired generator. *)
Example repaired_imm_flag_witness :
  sem_steps quirk_mem (LocSlice 100 2 (LPtr (LInt 8))) [RDeslice0; RElem 1 false; RAutoderef]
  = Some (LocMem 600 (LInt 8)) /\
  run quirk_mem (lower_ref BParam [RDeslice0; RElem 1 false; RAutoderef])
      (MSlice 100 2 (LPtr (LInt 8))) = Some (MPtr 600 (LInt 8)).
Proof. vm_compute. split; reflexivity. Qed.

(* ---- the typer's steps ------------------------------------------------------------ *)

(* `[..]T` only directly behind a pointer or view. *)
Fixpoint wfp (under_ptr : bool) (t : pty) : bool :=
  match t with
  | PInt _ => true
  | PBool => true
  | PArr _ e => wfp false e
  | PStruct ms =>
      (fix go (l : list pty) : bool :=
         match l with
         | [] => true
         | x :: r => wfp false x && go r
         end) ms
  | PPtr u => wfp true u
  | PView u => wfp true u
  | PSlice e => wfp false e
  | PSlicePtr e => wfp false e
  | PEndless e => under_ptr && wfp false e
  end.

Fixpoint wfp_list (l : list pty) : bool :=
  match l with
  | [] => true
  | x :: r => wfp false x && wfp_list r
  end.

Lemma wfp_struct b ms : wfp b (PStruct ms) = wfp_list ms.
Proof. reflexivity. Qed.

Lemma wfp_list_nth ms : forall k m, wfp_list ms = true -> nth_error ms k = Some m -> wfp false m = true.
Proof.
  induction ms as [|y r IH]; intros k m Hw Hn; [destruct k; discriminate|].
  cbn [wfp_list] in Hw. apply andb_true_iff in Hw as [Hy Hr].
  destruct k as [|k']; cbn [nth_error] in Hn.
  - now inversion Hn; subst.
  - eapply IH; eassumption.
Qed.

Theorem elaborate_endless_ok : forall fuel t p b rs t',
  wfp b t = true -> elaborate_fuel fuel t p = Some (rs, t') -> endless_ok b rs = true.
Proof.
  induction fuel as [|fuel IH]; intros t p b rs t' Hw H.
  - destruct p; cbn [elaborate_fuel] in H; [|discriminate]. now inversion H.
  - destruct p as [|s p]; cbn [elaborate_fuel] in H; [now inversion H|].
    destruct t as [bb| |n e|ms|u|u|e|e|e].
    + discriminate.
    + discriminate.
    + destruct s as [i|k]; [|discriminate].
      destruct (elaborate_fuel fuel e p) as [[rs1 t1]|] eqn:H1; [|discriminate].
      inversion H; subst rs t'. cbn [endless_ok negb orb andb wfp] in *. eapply IH; eassumption.
    + destruct s as [i|k]; [discriminate|].
      destruct (nth_error ms k) as [mk|] eqn:Hm; [|discriminate].
      destruct (elaborate_fuel fuel mk p) as [[rs1 t1]|] eqn:H1; [|discriminate].
      inversion H; subst rs t'. cbn [endless_ok]. rewrite wfp_struct in Hw.
      eapply IH; [eapply wfp_list_nth; eassumption|eassumption].
    + destruct (elaborate_fuel fuel u (s :: p)) as [[rs1 t1]|] eqn:H1; [|discriminate].
      inversion H; subst rs t'. cbn [endless_ok wfp] in *. eapply IH; eassumption.
    + destruct (elaborate_fuel fuel u (s :: p)) as [[rs1 t1]|] eqn:H1; [|discriminate].
      inversion H; subst rs t'. cbn [endless_ok wfp] in *. eapply IH; eassumption.
    + destruct s as [i|k]; [|discriminate].
      destruct (elaborate_fuel fuel e p) as [[rs1 t1]|] eqn:H1; [|discriminate].
      inversion H; subst rs t'. cbn [endless_ok negb orb andb wfp] in *. eapply IH; eassumption.
    + destruct s as [i|k]; [|discriminate].
      destruct (elaborate_fuel fuel e p) as [[rs1 t1]|] eqn:H1; [|discriminate].
      inversion H; subst rs t'. cbn [endless_ok negb orb andb wfp] in *. eapply IH; eassumption.
    + destruct s as [i|k]; [|discriminate].
      destruct (elaborate_fuel fuel e p) as [[rs1 t1]|] eqn:H1; [|discriminate].
      inversion H; subst rs t'. cbn [wfp] in Hw. apply andb_true_iff in Hw as [Hb Hw].
      subst b. cbn [endless_ok negb orb andb]. eapply IH; eassumption.
Qed.

(* ---- the step-by-step semantics of a plain path is gep_offset ---------------------- *)

Lemma sem_steps_plain m : forall p T a off t',
  gep_offset (erase T) p = Some (off, t') ->
  exists T', sem_steps m (LocMem a T) (map step_rstep p) = Some (LocMem (a + off) T') /\
             erase T' = t'.
Proof.
  induction p as [|s p IH]; intros T a off t' H.
  - cbn [gep_offset] in H. inversion H; subst. exists T. cbn [map sem_steps].
    now rewrite Z.add_0_r.
  - destruct s as [i|k]; cbn [gep_offset] in H.
    + destruct T as [b| |u|n E|Ms]; try discriminate. cbn [erase] in H.
      destruct (gep_offset (erase E) p) as [[o1 t1]|] eqn:H1; [|discriminate].
      inversion H; subst off t1.
      destruct (IH E (a + i * lsize E) o1 t' H1) as [T' [Hs He]].
      exists T'. cbn [map step_rstep sem_steps sem_step]. rewrite Hs. split; [|exact He].
      unfold lsize. do 2 f_equal. ring.
    + destruct T as [b| |u|n E|Ms]; try discriminate. rewrite erase_struct in H.
      destruct (nth_error (erase_list Ms) k) as [mk|] eqn:Hm; [|discriminate].
      destruct (nth_error (struct_offsets (erase_list Ms)) k) as [fo|] eqn:Hfo; [|discriminate].
      destruct (erase_list_nth Ms k mk Hm) as [M [HM HeM]]. subst mk.
      destruct (gep_offset (erase M) p) as [[o1 t1]|] eqn:H1; [|discriminate].
      inversion H; subst off t1.
      destruct (IH M (a + fo) o1 t' H1) as [T' [Hs He]].
      exists T'. cbn [map step_rstep sem_steps sem_step]. rewrite HM, Hfo, Hs.
      split; [|exact He]. do 2 f_equal. ring.
Qed.

(* End to end through one pointer: `p<q>` for a pointer/view p (a parameter, or a
   variable in memory at address b) to an object holding v.  The address is
   a + off and the load finds the source-level subobject. *)
Theorem pointer_then_path m b a T v q v' off t' :
  wf_ty (erase T) = true -> wt_value (erase T) v = true -> agree m a (erase T) v ->
  load_scalar m b 8 = Some a ->
  get_path v q = Some v' -> gep_offset (erase T) q = Some (off, t') -> q <> [] ->
  exists T',
    run m (lower_ref BLocal (RAutoderef :: map step_rstep q)) (MPtr b (LPtr T))
      = Some (MPtr (a + off) T') /\
    run m (lower_ref BParam (RAutoderef :: map step_rstep q)) (MPtr a T)
      = Some (MPtr (a + off) T') /\
    erase T' = t' /\ load m (a + off) t' = Some v'.
Proof.
  intros Hwf Hwt Hag Hb Hg Hgo Hq.
  destruct (sem_steps_plain m q T a off t' Hgo) as [T' [Hs He]]. exists T'.
  assert (Hend : forall bb, endless_ok bb (map step_rstep q) = true).
  { clear. induction q as [|[i|k] q IH]; intros bb; cbn [map step_rstep endless_ok negb orb andb];
      auto. }
  split; [|split; [|split; [exact He|]]].
  - destruct (lower_ref_sound m (LocMem b (LPtr T)) (RAutoderef :: map step_rstep q)
                (LocMem (a + off) T')) as (a1 & t1 & Heq & Hr).
    + discriminate.
    + cbn [endless_ok]. apply Hend.
    + cbn [sem_steps sem_step]. now rewrite Hb.
    + inversion Heq; subst a1 t1. exact Hr.
  - destruct (lower_ref_sound m (LocPtr a T) (RAutoderef :: map step_rstep q)
                (LocMem (a + off) T')) as (a1 & t1 & Heq & Hr).
    + discriminate.
    + cbn [endless_ok]. apply Hend.
    + cbn [sem_steps sem_step]. exact Hs.
    + inversion Heq; subst a1 t1. exact Hr.
  - exact (load_after_encode m a (erase T) v q v' off t' Hwf Hwt Hag Hg Hgo).
Qed.

(* ---- examples ------------------------------------------------------------------------ *)

(* struct Inner { x: i32, y: i64 }   struct Outer { a: u8, arr: [3]Inner, b: u16 }
   struct Holder { p: &Outer, q: i8 } *)
Definition exInner : pty := PStruct [PInt 4; PInt 8].
Definition exOuter : pty := PStruct [PInt 1; PArr 3 exInner; PInt 2].
Definition exHolder : pty := PStruct [PPtr exOuter; PInt 1].
Definition tOuter : ty := erase (gen exOuter).
Definition vInner (x y : Z) : value := VStruct [VS x; VS y].
Definition vOuter : value := VStruct [VS 1; VArr [vInner 10 11; vInner 20 21; vInner 30 31]; VS 2].
Definition exMem : mem := store (fun _ => CPad) 1000 tOuter vOuter.

Example ex_hyps :
  wf_ty tOuter = true /\ wt_value tOuter vOuter = true /\
  llvm_alloc_size tOuter = 64 /\
  get_path vOuter [SMember 1; SElem 2; SMember 1] = Some (VS 31) /\
  gep_offset tOuter [SMember 1; SElem 2; SMember 1] = Some (48, TInt 8) /\
  gep_offset tOuter [SMember 1; SElem 1] = Some (24, erase (gen exInner)) /\
  gep_offset tOuter [SMember 2] = Some (56, TInt 2).
Proof. vm_compute. repeat split; reflexivity. Qed.

Example ex_load :
  load exMem (1000 + 48) (TInt 8) = Some (VS 31) /\
  load exMem (1000 + 24) (erase (gen exInner)) = Some (vInner 20 21) /\
  load exMem 1000 tOuter = Some vOuter /\
  load exMem (1000 + 44) (TInt 8) = None.            (* straddles padding *)
Proof. vm_compute. repeat split; reflexivity. Qed.

Example ex_store :
  let m' := store exMem (1000 + 24) (erase (gen exInner)) (vInner 7 8) in
  set_path vOuter [SMember 1; SElem 1] (vInner 7 8) =
    Some (VStruct [VS 1; VArr [vInner 10 11; vInner 7 8; vInner 30 31]; VS 2]) /\
  load m' 1000 tOuter = set_path vOuter [SMember 1; SElem 1] (vInner 7 8) /\
  load m' (1000 + 48) (TInt 8) = Some (VS 31) /\
  disjoint_paths [SMember 1; SElem 1] [SMember 1; SElem 2; SMember 1] = true /\
  disjoint_paths [SMember 1; SElem 1] [SMember 1; SElem 1; SMember 0] = false.
Proof. vm_compute. repeat split; reflexivity. Qed.

(* The index lists seen in the IR of the pinned compiler (LLVM 14) for these
   references; -1 stands for the run-time index `i64 %i`. *)
Example ex_ir_local :            (* var s: Outer;  s.arr[i].y *)
  ref_instrs BLocal exOuter [SMember 1; SElem 2; SMember 1]
  = Some [IGep [GConst 0; GConst 1; GDyn 2; GConst 1]].
Proof. reflexivity. Qed.

Example ex_ir_view_param :       (* fn f(o: Outer) / fn f(o: &Outer);  o.arr[i].y *)
  ref_indices BParam (PView exOuter) [SMember 1; SElem 2; SMember 1] = Some [[0; 1; -1; 1]] /\
  ref_indices BParam (PPtr exOuter) [SMember 1; SElem 2; SMember 1] = Some [[0; 1; -1; 1]].
Proof. split; reflexivity. Qed.

Example ex_ir_slice_param :      (* fn f(x: []i64) / fn f(x: &[][3]i32);  x[i], x[i][j] *)
  ref_instrs BParam (PSlice (PInt 8)) [SElem 2]
  = Some [IExtract 0; IGep [GConst 0; GDyn 2]] /\
  ref_instrs BParam (PSlicePtr (PArr 3 (PInt 4))) [SElem 2; SElem 1]
  = Some [IExtract 0; IGep [GConst 0; GDyn 2; GDyn 1]].
Proof. split; reflexivity. Qed.

Example ex_ir_endless :          (* a: &[..]i64;  a[i]  -- parameter, local *)
  ref_instrs BParam (PPtr (PEndless (PInt 8))) [SElem 2] = Some [IGep [GDyn 2]] /\
  ref_instrs BLocal (PPtr (PEndless (PInt 8))) [SElem 2]
  = Some [IGep [GConst 0]; ILoad; IGep [GDyn 2]].
Proof. split; reflexivity. Qed.

Example ex_ir_holder :           (* h: &Holder;  h.p.arr[i].y *)
  ref_instrs BParam (PPtr exHolder) [SMember 0; SMember 1; SElem 2; SMember 1]
  = Some [IGep [GConst 0; GConst 0]; ILoad; IGep [GConst 0; GConst 1; GDyn 2; GConst 1]].
Proof. reflexivity. Qed.

Example ex_ir_ptrptr :           (* o: &&Outer;  o.arr[i].y  -- parameter, local *)
  ref_instrs BParam (PPtr (PPtr exOuter)) [SMember 1; SElem 2; SMember 1]
  = Some [ILoad; IGep [GConst 0; GConst 1; GDyn 2; GConst 1]] /\
  ref_instrs BLocal (PPtr (PPtr exOuter)) [SMember 1; SElem 2; SMember 1]
  = Some [IGep [GConst 0]; ILoad; ILoad; IGep [GConst 0; GConst 1; GDyn 2; GConst 1]].
Proof. split; reflexivity. Qed.

Example ex_ir_member_pointer :   (* struct S2 { q: i8, d: &[..]i64 } / { q: i8, d: &[4]i64 };  x.d[i] *)
  ref_instrs BParam (PView (PStruct [PInt 1; PPtr (PEndless (PInt 8))])) [SMember 1; SElem 2]
  = Some [IGep [GConst 0; GConst 1]; ILoad; IGep [GDyn 2]] /\
  ref_instrs BParam (PPtr (PStruct [PInt 1; PPtr (PArr 4 (PInt 8))])) [SMember 1; SElem 2]
  = Some [IGep [GConst 0; GConst 1]; ILoad; IGep [GConst 0; GDyn 2]].
Proof. split; reflexivity. Qed.

Example ex_ir_local_ptr_array :  (* var pa: &[4]i64;  pa[i] *)
  ref_instrs BLocal (PPtr (PArr 4 (PInt 8))) [SElem 2]
  = Some [IGep [GConst 0]; ILoad; IGep [GConst 0; GDyn 2]].
Proof. reflexivity. Qed.

(* x: []&i64 / &[]&i64, x[i];  x: []&&i64, x[i]  (typer steps Autodeslice, Element,
   Autoderef...).  Repaired generator: extractvalue, GEP [0, i], then one load per
   Autoderef -- as in the IR of the repaired compiler.  Pinned generator: no load
   for the first Autoderef, and the compiler aborts (LLVM "Broken function"). *)
Example ex_ir_slice_of_pointers :
  ref_instrs BParam (PSlice (PPtr (PInt 8))) [SElem 2]
  = Some [IExtract 0; IGep [GConst 0; GDyn 2]] /\
  lower_ref BParam [RDeslice0; RElem 2 false; RAutoderef]
  = [IExtract 0; IGep [GConst 0; GDyn 2]; ILoad] /\
  lower_ref BParam [RDeslice0; RElem 2 false; RAutoderef; RAutoderef]
  = [IExtract 0; IGep [GConst 0; GDyn 2]; ILoad; ILoad] /\
  ref_instrs BParam (PSlicePtr (PPtr (PArr 3 (PInt 8)))) [SElem 2; SElem 1]
  = Some [IExtract 0; IGep [GConst 0; GDyn 2]; ILoad; IGep [GConst 0; GDyn 1]] /\
  ref_instrs BParam (PSlice (PPtr exInner)) [SElem 2; SMember 1]
  = Some [IExtract 0; IGep [GConst 0; GDyn 2]; ILoad; IGep [GConst 0; GConst 1]].
Proof. repeat split; reflexivity. Qed.

Example ex_ir_pinned_quirk :
  lower_ref_pinned BParam [RDeslice0; RElem 2 false; RAutoderef]
  = [IExtract 0; IGep [GConst 0; GDyn 2]] /\
  quirk_free BParam [RDeslice0; RElem 2 false; RAutoderef] = false /\
  ref_instrs_pinned BParam (PSlice (PPtr exInner)) [SElem 2; SMember 1]
  = Some [IExtract 0; IGep [GConst 0; GDyn 2; GConst 0; GConst 1]].
Proof. repeat split; reflexivity. Qed.

(* A run through a pointer variable in memory. *)
Example ex_run_pointer :
  let m := store exMem 2000 TPtr (VS 1000) in
  run m (lower_ref BLocal (RAutoderef :: map step_rstep [SMember 1; SElem 2; SMember 1]))
      (MPtr 2000 (LPtr (gen exOuter))) = Some (MPtr 1048 (LInt 8)) /\
  load m 1048 (TInt 8) = Some (VS 31).
Proof. vm_compute. split; reflexivity. Qed.

Print Assumptions gep_in_bounds.
Print Assumptions load_after_encode.
Print Assumptions load_after_encode_store.
Print Assumptions store_commutes.
Print Assumptions load_after_store.
Print Assumptions distinct_paths_distinct_ranges.
Print Assumptions disjoint_paths_iff.
Print Assumptions lower_path_is_gep_offset.
Print Assumptions slice_address_unchecked.
Print Assumptions slice_element.
Print Assumptions lower_ref_sound.
Print Assumptions lower_ref_pinned_sound.
Print Assumptions pinned_imm_flag_refuted.
Print Assumptions elaborate_endless_ok.
Print Assumptions pointer_then_path.
