(* Proofs about Model/Escape.v: what the rebuilder prints for a string literal
   (and for an import path) lexes back, with the first-generation lexer of
   Model/LexAlpha.v, to ONE string-literal token carrying the same bytes.

   0. enumeration of the 256 bytes, sanity Examples by vm_compute
   1. escape_default_ascii (the from_utf8_lossy of the rebuilder is the identity)
   2. every escaped byte is one valid item of the lexer's literal grammar
      (item_of_spec), hence rebuilt_string_step / rebuilt_string_lexes_back
   3. the literal embedded in a line: boundary_toks (position-aware locality),
      rebuilt_string_in_context, the concrete lines rebuilt_string_in_const and
      rebuilt_import_lexes_back
   4. character literals: the rebuilder prints them as hexadecimal integers
      (rebuilt_char_lexes_back: they come back as KBitInteger, never KCharLiteral);
      escaped_char_step shows that quoting the escaped byte would come back
   5. the seeded mutant (backslash-quote accepted only for the opening quote)
      breaks the round trip of an apostrophe: mutant_breaks_apostrophe *)
From Coq Require Import String Ascii.
From PV Require Import Base.Common Base.IR Base.Tok Model.LexAlpha Model.Escape Proofs.LexAlphaProofs.

Local Open Scope N_scope.

(* ================================================================== *)
(* 0. The 256 bytes. *)

Fixpoint upto (n : nat) (s : N) : list N :=
  match n with O => [] | S k => s :: upto k (N.succ s) end.

Definition all_bytes : list N := upto 256 0.

Lemma In_upto n : forall s b, s <= b -> b < s + N.of_nat n -> In b (upto n s).
Proof.
  induction n as [|n IH]; intros s b H1 H2.
  - change (N.of_nat 0) with 0 in H2. lia.
  - cbn [upto]. destruct (N.eq_dec s b) as [->|Hne]; [now left|]. right.
    rewrite Nat2N.inj_succ in H2. apply IH; lia.
Qed.

Lemma all_bytes_In b : b < 256 -> In b all_bytes.
Proof. intros Hb. apply In_upto; [lia|]. change (N.of_nat 256) with 256. lia. Qed.

Lemma forall_bytes (P : N -> bool) : forallb P all_bytes = true -> forall b, b < 256 -> P b = true.
Proof. intros H b Hb. rewrite forallb_forall in H. apply H. now apply all_bytes_In. Qed.

Example all_bytes_ok : length all_bytes = 256%nat /\ hd 1 all_bytes = 0 /\ last all_bytes 0 = 255.
Proof. vm_compute. repeat split; reflexivity. Qed.

Lemma str_eqb_eq a : forall b, str_eqb a b = true -> a = b.
Proof.
  induction a as [|x a IH]; intros [|y b] H; cbn [str_eqb] in H; try discriminate; [reflexivity|].
  apply andb_true_iff in H. destruct H as [H1 H2]. apply N.eqb_eq in H1. subst y.
  now rewrite (IH b H2).
Qed.

(* ---- sanity checks before the inductive proofs *)

(* The escapes, spelled out. *)
Example escape_default_examples :
  map escape_default [0; 9; 10; 13; 31; 32; 34; 39; 92; 126; 127; 128; 255] =
  [str "\x00"; str "\t"; str "\n"; str "\r"; str "\x1f"; str " "; [92; 34]; str "\'"; str "\\";
   str "~"; str "\x7f"; str "\x80"; str "\xff"].
Proof. vm_compute. reflexivity. Qed.

Example rebuild_const_string_spelling :
  rebuild_const_string [] = str "const S: []char8 = " ++ [34; 34] ++ str ";" ++ [10] /\
  rebuild_import [] [97] = str "import " ++ [34; 97; 34] ++ str ";" ++ [10].
Proof. vm_compute. split; reflexivity. Qed.

(* Every single byte, rebuilt as a one-byte string literal, lexes back to one
   string-literal token carrying that byte and spanning the whole text. *)
Definition single_byte_round_trip (lexer : list N -> list tok) (b : N) : bool :=
  match lexer (rebuild_string [b]) with
  | [t] =>
      match kind t with
      | KStringLiteral =>
          str_eqb (bytes t) [b] && (tstart t =? 0) && (tend t =? len (rebuild_string [b]))
          && (line t =? 1) && (lstart t =? 0)
      | _ => false
      end
  | _ => false
  end.

Example all_single_bytes_round_trip : forallb (single_byte_round_trip lex_alpha) all_bytes = true.
Proof. vm_compute. reflexivity. Qed.

Example all_single_bytes_round_trip_fixed :
  forallb (single_byte_round_trip lex_alpha_fixed) all_bytes = true.
Proof. vm_compute. reflexivity. Qed.

(* All 256 bytes in one literal, and the empty literal. *)
Example all_bytes_in_one_literal :
  lex_alpha (rebuild_string all_bytes) =
  [mk KStringLiteral 0%Z None all_bytes 0 (len (rebuild_string all_bytes)) 1 0].
Proof. vm_compute. reflexivity. Qed.

Example empty_literal : lex_alpha (rebuild_string []) = [mk KStringLiteral 0%Z None [] 0 2 1 0].
Proof. vm_compute. reflexivity. Qed.

(* Two adjacent literals stay two tokens: the lexer does not merge them (the
   parser does, parser.rs parse_primary_expression, arm Token::StringLiteral). *)
Example adjacent_literals_not_merged :
  map pay (lex_alpha (rebuild_string [97] ++ rebuild_string [98])) =
  [(KStringLiteral, 0%Z, None, [97]); (KStringLiteral, 0%Z, None, [98])].
Proof. vm_compute. reflexivity. Qed.

(* ================================================================== *)
(* 1. The escaped text is printable ASCII. *)

Definition printable (c : N) : bool := in_range 32 126 c.

Lemma escape_default_printable b : b < 256 -> forallb printable (escape_default b) = true.
Proof.
  apply (forall_bytes (fun b => forallb printable (escape_default b))). vm_compute. reflexivity.
Qed.

Lemma printable_range cs : forallb printable cs = true -> Forall (fun c => 32 <= c <= 126) cs.
Proof.
  intros H. apply Forall_forall. intros c Hc. rewrite forallb_forall in H. specialize (H c Hc).
  unfold printable, in_range in H. apply andb_true_iff in H. destruct H as [H1 H2].
  apply N.leb_le in H1, H2. lia.
Qed.

(* MAIN THEOREM 1.  Every byte escape_default produces is in 0x20..0x7e, so the
   String::from_utf8_lossy of the rebuilder changes nothing. *)
Theorem escape_default_ascii : forall b, b < 256 -> Forall (fun c => 32 <= c <= 126) (escape_default b).
Proof. intros b Hb. apply printable_range. now apply escape_default_printable. Qed.

Lemma escape_bytes_printable bs : Forall (fun b => b < 256) bs -> forallb printable (escape_bytes bs) = true.
Proof.
  intros H. induction H as [|b bs Hb _ IH]; [reflexivity|].
  unfold escape_bytes in *. cbn [flat_map]. rewrite forallb_app, IH, (escape_default_printable b Hb). reflexivity.
Qed.

Lemma rebuild_string_printable bs :
  Forall (fun b => b < 256) bs -> forallb printable (rebuild_string bs) = true.
Proof.
  intros H. unfold rebuild_string. cbn [forallb]. rewrite forallb_app, (escape_bytes_printable bs H). reflexivity.
Qed.

Theorem rebuild_string_ascii bs :
  Forall (fun b => b < 256) bs -> Forall (fun c => 32 <= c <= 126) (rebuild_string bs).
Proof. intros H. apply printable_range. now apply rebuild_string_printable. Qed.

Definition nonl (c : N) : bool := negb (c =? 10) && negb (c =? 13).

Lemma printable_nonl cs : forallb printable cs = true -> forallb nonl cs = true.
Proof.
  intros H. rewrite forallb_forall in *. intros c Hc. specialize (H c Hc).
  unfold printable, in_range in H. unfold nonl. apply andb_true_iff in H. destruct H as [H1 H2].
  apply N.leb_le in H1, H2. apply andb_true_iff. split; apply negb_true_iff, N.eqb_neq; lia.
Qed.

Lemma nonl_no_cr cs : forallb nonl cs = true -> ~ In 13 cs.
Proof. intros H Hin. rewrite forallb_forall in H. specialize (H 13 Hin). discriminate. Qed.

Lemma len_rebuild_string bs : len (rebuild_string bs) = 2 + len (escape_bytes bs).
Proof. unfold rebuild_string. rewrite len_cons, len_app, len_cons, len_nil. lia. Qed.

(* ================================================================== *)
(* 2. The literal alone. *)

(* The item of the lexer's literal grammar (LexAlphaProofs.sitem) that
   escape_default prints for a byte. *)
Definition item_of (b : N) : sitem :=
  if b =? 9 then ISimple 116 9
  else if b =? 13 then ISimple 114 13
  else if b =? 10 then ISimple 110 10
  else if b =? 92 then ISimple 92 92
  else if b =? 39 then ISimple 39 39
  else if b =? 34 then ISimple 34 34
  else if (32 <=? b) && (b <=? 126) then IChar b
  else IHex (hex_digit_lower (b / 16)) (hex_digit_lower (b mod 16)).

Definition item_check (b : N) : bool :=
  str_eqb (render (item_of b)) (escape_default b)
  && item_ok 34 (item_of b) && item_ok 39 (item_of b)
  && str_eqb (decode (item_of b)) [b].

Lemma item_check_all : forallb item_check all_bytes = true.
Proof. vm_compute. reflexivity. Qed.

(* The escaped byte is an item the lexer accepts between double quotes and
   between apostrophes alike, and the item stands for the byte. *)
Lemma item_of_spec b : b < 256 ->
  render (item_of b) = escape_default b /\
  item_ok 34 (item_of b) = true /\ item_ok 39 (item_of b) = true /\
  decode (item_of b) = [b].
Proof.
  intros Hb. pose proof (forall_bytes item_check item_check_all b Hb) as H. unfold item_check in H.
  apply andb_true_iff in H. destruct H as [H H4]. apply andb_true_iff in H. destruct H as [H H3].
  apply andb_true_iff in H. destruct H as [H1 H2].
  repeat split; try assumption; now apply str_eqb_eq.
Qed.

Lemma items_of_spec bs : Forall (fun b => b < 256) bs ->
  renders (map item_of bs) = escape_bytes bs /\
  decodes (map item_of bs) = bs /\
  forallb (item_ok 34) (map item_of bs) = true /\
  forallb (item_ok 39) (map item_of bs) = true.
Proof.
  intros H. induction H as [|b bs Hb _ (IH1 & IH2 & IH3 & IH4)].
  - repeat split; reflexivity.
  - destruct (item_of_spec b Hb) as (H1 & H2 & H3 & H4).
    unfold renders, decodes, escape_bytes in *. cbn [map flat_map forallb].
    rewrite H1, H2, H3, H4, IH1, IH2, IH3, IH4. repeat split; reflexivity.
Qed.

(* MAIN THEOREM 2a.  At the opening quote of a rebuilt literal, whatever
   follows the closing quote: one string token carrying the bytes, consuming
   exactly the literal.  (lex_quote computes its own fuel, [length rest]; the
   equation holds for every length of [bs].) *)
Theorem rebuilt_string_step bs rest :
  Forall (fun b => b < 256) bs ->
  lex_step 34 (escape_bytes bs ++ 34 :: rest) =
  StTok KStringLiteral 0%Z None bs (len (rebuild_string bs)) rest.
Proof.
  intros H. destruct (items_of_spec bs H) as (H1 & H2 & H3 & _).
  pose proof (escape_decode (map item_of bs) rest H3) as He.
  rewrite H1, H2 in He. rewrite He, len_rebuild_string. reflexivity.
Qed.

(* The same escaped bytes between apostrophes: a character literal exactly when
   there is one byte.  (The rebuilder does not print this; see section 4.) *)
Theorem escaped_char_step b rest :
  b < 256 ->
  lex_step 39 (escape_default b ++ 39 :: rest) =
  StTok KCharLiteral (Z.of_N b) None [] (2 + len (escape_default b)) rest.
Proof.
  intros Hb. destruct (item_of_spec b Hb) as (H1 & _ & H3 & H4).
  pose proof (escape_decode_char [item_of b] rest) as He.
  unfold renders, decodes in He. cbn [flat_map forallb] in He. rewrite !app_nil_r in He.
  rewrite H1, H3, H4 in He. apply He. reflexivity.
Qed.

(* A line without line terminators, alone or followed by one newline. *)
Lemma lex_alpha_one_line cs : cs <> [] -> forallb nonl cs = true -> lex_alpha cs = lex_line cs 0 1.
Proof. intros Hne H. now apply lex_alpha_single_line. Qed.

Lemma lines_of_nl cs : forallb nonl cs = true -> lines_of (cs ++ [10]) = [cs].
Proof.
  induction cs as [|c cs IH]; intros H; [reflexivity|].
  cbn [forallb] in H. apply andb_true_iff in H. destruct H as [Hc H]. unfold nonl in Hc.
  apply andb_true_iff in Hc. destruct Hc as [Hc1 Hc2]. apply negb_true_iff in Hc1, Hc2.
  cbn [app lines_of]. rewrite Hc1, Hc2. cbn [andb]. now rewrite (IH H).
Qed.

Lemma lex_alpha_one_line_nl cs : forallb nonl cs = true -> lex_alpha (cs ++ [10]) = lex_line cs 0 1.
Proof.
  intros H. unfold lex_alpha. rewrite (lines_of_nl cs H). cbn [lex_lines].
  destruct cs; cbn [app is_nil]; now rewrite !app_nil_r.
Qed.

(* MAIN THEOREM 2.  The rebuilt literal as a whole source: one token, carrying
   the bytes, spanning the whole text on line 1; no further token. *)
Theorem rebuilt_string_lexes_back : forall bs, Forall (fun b => b < 256) bs ->
  lex_alpha (rebuild_string bs) =
  [mk KStringLiteral 0%Z None bs 0 (len (rebuild_string bs)) 1 0].
Proof.
  intros bs H. rewrite lex_alpha_one_line.
  - unfold lex_line. unfold rebuild_string at 1 2. cbn [length lex_line_fuel].
    rewrite (rebuilt_string_step bs [] H), lex_line_fuel_nil. reflexivity.
  - discriminate.
  - apply printable_nonl. now apply rebuild_string_printable.
Qed.

(* The same for the repaired lexer::lex (the rebuilt text has no CR). *)
Theorem rebuilt_string_lexes_back_fixed : forall bs, Forall (fun b => b < 256) bs ->
  lex_alpha_fixed (rebuild_string bs) =
  [mk KStringLiteral 0%Z None bs 0 (len (rebuild_string bs)) 1 0].
Proof.
  intros bs H. rewrite lex_alpha_fixed_no_cr; [now apply rebuilt_string_lexes_back|].
  apply nonl_no_cr, printable_nonl. now apply rebuild_string_printable.
Qed.

Example rebuilt_string_hyp_ok :
  Forall (fun b => b < 256) [0; 39; 34; 92; 200; 255] /\
  rebuild_string [0; 39; 34; 92; 200; 255] = 34 :: str "\x00\'\" ++ [34] ++ str "\\\xc8\xff" ++ [34].
Proof. split; [repeat constructor|vm_compute; reflexivity]. Qed.

(* ================================================================== *)
(* 3. The literal embedded in a line. *)

(* The fuel of the outer loop does not matter once it covers the line. *)
Lemma lex_line_fuel_fuel : forall f1 f2 ln sos lo cs,
  (length cs <= f1)%nat -> (length cs <= f2)%nat ->
  lex_line_fuel f1 ln sos lo cs = lex_line_fuel f2 ln sos lo cs.
Proof.
  induction f1 as [|f1 IH]; intros f2 ln sos lo cs H1 H2.
  { destruct cs; [destruct f2; reflexivity|cbn [length] in H1; lia]. }
  destruct cs as [|x rest]; [destruct f2; reflexivity|].
  destruct f2 as [|f2]; [cbn [length] in H2; lia|]. cbn [length] in H1, H2. cbn [lex_line_fuel].
  pose proof (step_rest_shorter x rest) as Hs.
  destruct (lex_step x rest) as [| |k v ty bs n r'|c es ee eo n m r']; try reflexivity.
  - apply IH; lia.
  - specialize (Hs r' eq_refl). f_equal. apply IH; lia.
  - specialize (Hs r' eq_refl). f_equal. apply IH; lia.
Qed.

(* Position-aware form of LexAlphaProofs.boundary_pays: the tokens of the part
   of a line before a token boundary, WITH their positions, do not depend on
   what follows the boundary as long as it is quiet and not empty; behind the
   boundary the scanner continues with both offsets advanced by the length of
   that part. *)
Lemma boundary_toks a b : boundary a b -> b <> [] ->
  forall ln sos lo, exists T, forall b' fuel,
    (forall x, quiet x b b') -> b' <> [] -> (length (a ++ b') <= fuel)%nat ->
    lex_line_fuel fuel ln sos lo (a ++ b') =
    T ++ lex_line_fuel (length b') ln (sos + len a) (lo + len a) b'.
Proof.
  intros Hb Hne. induction Hb as [b|w a b Hw Hb IH|x u a b Hstep Hb IH]; intros ln sos lo.
  - exists []. intros b' fuel _ _ Hf. cbn [app] in *. rewrite len_nil, !N.add_0_r.
    apply lex_line_fuel_fuel; [exact Hf|apply le_n].
  - destruct (IH Hne ln (sos + 1) (lo + 1)) as (T & HT). exists T. intros b' fuel Hq Hne' Hf.
    cbn [app length] in Hf. destruct fuel as [|f]; [lia|].
    cbn [app lex_line_fuel]. rewrite (blank_step w _ Hw).
    rewrite (HT b' f Hq Hne'); [|lia]. rewrite len_cons, !N.add_assoc. reflexivity.
  - assert (Hab : a ++ b <> []) by (destruct a; [exact Hne|discriminate]).
    destruct (lex_step_local x (u ++ a ++ b) (a ++ b) Hstep (or_introl Hab)) as (u0 & Hu0 & Hloc).
    apply app_inv_tail in Hu0. subst u0.
    pose proof (lex_step_wf x (u ++ a ++ b)) as Hwf.
    assert (Hq' : forall b', (forall y, quiet y b b') -> quiet x (a ++ b) (a ++ b')).
    { intros b' Hq. destruct a as [|h t]; [apply Hq|]. cbn [app quiet]. right. right. right.
      now exists (t ++ b). }
    destruct (lex_step x (u ++ a ++ b)) as [| |k v ty bs n r'|c es ee eo n m r'] eqn:E;
      try discriminate; cbn [rest_of] in Hstep; injection Hstep as Hr; subst r'.
    + destruct Hwf as (used & Hused & Hn & _).
      change (x :: u ++ a ++ b) with ((x :: u) ++ a ++ b) in Hused. apply app_inv_tail in Hused.
      subst used.
      destruct (IH Hne ln (sos + n) (lo + n)) as (T & HT).
      exists (mk k v ty bs sos (sos + n) ln lo :: T). intros b' fuel Hq Hne' Hf.
      pose proof (Hloc (a ++ b') (Hq' b' Hq)) as Hl. cbn [with_rest] in Hl.
      cbn [app] in Hf |- *. rewrite <- app_assoc in Hf |- *. cbn [length] in Hf.
      destruct fuel as [|f]; [lia|]. cbn [lex_line_fuel]. rewrite Hl. f_equal.
      rewrite (HT b' f Hq Hne'); [|rewrite app_length in Hf; lia].
      rewrite <- Hn. change (x :: u ++ a) with ((x :: u) ++ a). rewrite len_app, !N.add_assoc.
      reflexivity.
    + destruct Hwf as (used & Hused & Hm & _ & _ & _ & _ & _ & Hnm).
      change (x :: u ++ a ++ b) with ((x :: u) ++ a ++ b) in Hused. apply app_inv_tail in Hused.
      subst used.
      assert (n = m) by (destruct Hnm as [Hnm|[_ Hnil]]; [exact Hnm|congruence]). subst n.
      destruct (IH Hne ln (sos + m) (lo + m)) as (T & HT).
      exists (mk KError c None [] (sos + es) (sos + ee) ln (lo + eo) :: T). intros b' fuel Hq Hne' Hf.
      pose proof (Hloc (a ++ b') (Hq' b' Hq)) as Hl. cbn [with_rest] in Hl.
      cbn [app] in Hf |- *. rewrite <- app_assoc in Hf |- *. cbn [length] in Hf.
      destruct fuel as [|f]; [lia|]. cbn [lex_line_fuel]. rewrite Hl. f_equal.
      rewrite (HT b' f Hq Hne'); [|rewrite app_length in Hf; lia].
      rewrite <- Hm. change (x :: u ++ a) with ((x :: u) ++ a). rewrite len_app, !N.add_assoc.
      reflexivity.
Qed.

(* The outer loop at the opening quote of a rebuilt literal, anywhere in a
   line, with anything behind the closing quote. *)
Lemma lex_line_fuel_rebuilt_string bs post fuel ln sos lo :
  Forall (fun b => b < 256) bs -> (length (rebuild_string bs ++ post) <= fuel)%nat ->
  lex_line_fuel fuel ln sos lo (rebuild_string bs ++ post) =
  mk KStringLiteral 0%Z None bs sos (sos + len (rebuild_string bs)) ln lo
  :: lex_line_fuel (length post) ln (sos + len (rebuild_string bs)) (lo + len (rebuild_string bs)) post.
Proof.
  intros H Hf. rewrite app_length in Hf.
  assert (Hl : length (rebuild_string bs) = S (length (escape_bytes bs ++ [34]))) by reflexivity.
  destruct fuel as [|f]; [lia|].
  change (rebuild_string bs ++ post) with (34 :: (escape_bytes bs ++ [34]) ++ post).
  rewrite <- app_assoc. cbn [app lex_line_fuel]. rewrite (rebuilt_string_step bs post H). f_equal.
  apply lex_line_fuel_fuel; lia.
Qed.

(* MAIN THEOREM 3.  A rebuilt literal at a token boundary of a line ([pre]
   followed by a double quote is lexed up to that quote: [boundary pre [34]]),
   followed by ANY text: the tokens before it are those of [pre] followed by an
   empty literal (so they do not depend on the bytes), then the literal token
   carrying [bs] at its exact position, then the tokens of [post] lexed on its
   own from the position behind the closing quote. *)
Theorem rebuilt_string_in_context pre off ln :
  boundary pre [34] ->
  forall bs post, Forall (fun b => b < 256) bs ->
  lex_line (pre ++ rebuild_string bs ++ post) off ln =
  removelast (lex_line (pre ++ [34; 34]) off ln)
  ++ mk KStringLiteral 0%Z None bs (off + len pre) (off + len pre + len (rebuild_string bs)) ln (len pre)
  :: lex_line_fuel (length post) ln (off + len pre + len (rebuild_string bs))
                   (len pre + len (rebuild_string bs)) post.
Proof.
  intros Hb.
  assert (Hcore : exists T, forall bs post, Forall (fun b => b < 256) bs ->
    lex_line (pre ++ rebuild_string bs ++ post) off ln =
    T ++ mk KStringLiteral 0%Z None bs (off + len pre) (off + len pre + len (rebuild_string bs)) ln (len pre)
    :: lex_line_fuel (length post) ln (off + len pre + len (rebuild_string bs))
                     (len pre + len (rebuild_string bs)) post).
  { destruct (boundary_toks pre [34] Hb ltac:(discriminate) ln off 0) as (T & HT). exists T.
    intros bs post H. unfold lex_line. rewrite (HT (rebuild_string bs ++ post)).
    - rewrite (lex_line_fuel_rebuilt_string bs post _ ln _ _ H (le_n _)). rewrite N.add_0_l. reflexivity.
    - intros x. unfold rebuild_string. cbn [app quiet]. right. right. right. now exists [].
    - discriminate.
    - apply le_n. }
  destruct Hcore as (T & HT). intros bs post H.
  pose proof (HT [] [] (Forall_nil _)) as H0.
  change (rebuild_string [] ++ []) with [34; 34] in H0. rewrite lex_line_fuel_nil in H0.
  rewrite H0, removelast_last. now apply HT.
Qed.

(* Source-level readings: the line is the whole source, with or without the
   newline the rebuilder writes at the end of a line. *)
Theorem rebuilt_string_in_line pre post bs :
  boundary pre [34] -> forallb nonl pre = true -> forallb nonl post = true ->
  Forall (fun b => b < 256) bs ->
  let n := len (rebuild_string bs) in
  lex_alpha (pre ++ rebuild_string bs ++ post) =
  removelast (lex_line (pre ++ [34; 34]) 0 1)
  ++ mk KStringLiteral 0%Z None bs (len pre) (len pre + n) 1 (len pre)
  :: lex_line_fuel (length post) 1 (len pre + n) (len pre + n) post.
Proof.
  intros Hb Hpre Hpost H n. rewrite lex_alpha_one_line.
  - rewrite (rebuilt_string_in_context pre 0 1 Hb bs post H). rewrite !N.add_0_l. reflexivity.
  - destruct pre; discriminate.
  - rewrite !forallb_app, Hpre, Hpost, (printable_nonl _ (rebuild_string_printable bs H)). reflexivity.
Qed.

Theorem rebuilt_string_in_line_nl pre post bs :
  boundary pre [34] -> forallb nonl pre = true -> forallb nonl post = true ->
  Forall (fun b => b < 256) bs ->
  let n := len (rebuild_string bs) in
  lex_alpha (pre ++ rebuild_string bs ++ post ++ [10]) =
  removelast (lex_line (pre ++ [34; 34]) 0 1)
  ++ mk KStringLiteral 0%Z None bs (len pre) (len pre + n) 1 (len pre)
  :: lex_line_fuel (length post) 1 (len pre + n) (len pre + n) post.
Proof.
  intros Hb Hpre Hpost H n.
  replace (pre ++ rebuild_string bs ++ post ++ [10]) with ((pre ++ rebuild_string bs ++ post) ++ [10])
    by now rewrite <- !app_assoc.
  rewrite lex_alpha_one_line_nl.
  - rewrite (rebuilt_string_in_context pre 0 1 Hb bs post H). rewrite !N.add_0_l. reflexivity.
  - rewrite !forallb_app, Hpre, Hpost, (printable_nonl _ (rebuild_string_printable bs H)). reflexivity.
Qed.

(* ---- the concrete line  const S: []char8 = <literal>;  *)

Definition const_prefix : list N := str "const S: []char8 = ".

Lemma const_prefix_boundary : boundary const_prefix [34].
Proof.
  unfold const_prefix.
  apply (Bd_tok 99 (str "onst") (str " S: []char8 = ") [34]); [reflexivity|].
  apply Bd_skip; [now left|].
  apply (Bd_tok 83 [] (str ": []char8 = ") [34]); [reflexivity|].
  apply (Bd_tok 58 [] (str " []char8 = ") [34]); [reflexivity|].
  apply Bd_skip; [now left|].
  apply (Bd_tok 91 [] (str "]char8 = ") [34]); [reflexivity|].
  apply (Bd_tok 93 [] (str "char8 = ") [34]); [reflexivity|].
  apply (Bd_tok 99 (str "har8") (str " = ") [34]); [reflexivity|].
  apply Bd_skip; [now left|].
  apply (Bd_tok 61 [] (str " ") [34]); [reflexivity|].
  apply Bd_skip; [now left|]. constructor.
Qed.

(* MAIN THEOREM 3, concrete.  The seven tokens before the literal and the
   semicolon behind it are what they are for every [bs]; the literal token
   carries [bs] and spans exactly the rebuilt literal. *)
Theorem rebuilt_string_in_const bs : Forall (fun b => b < 256) bs ->
  let n := len (rebuild_string bs) in
  lex_alpha (rebuild_const_string bs) =
  [mk KConst 0%Z None [] 0 5 1 0;
   mk KIdentifier 0%Z None [] 6 7 1 6;
   mk KColon 0%Z None [] 7 8 1 7;
   mk KBracketLeft 0%Z None [] 9 10 1 9;
   mk KBracketRight 0%Z None [] 10 11 1 10;
   mk KType 0%Z (Some (TyPrim Char8)) [] 11 16 1 11;
   mk KAssignment 0%Z None [] 17 18 1 17;
   mk KStringLiteral 0%Z None bs 19 (19 + n) 1 19;
   mk KSemicolon 0%Z None [] (19 + n) (19 + n + 1) 1 (19 + n)].
Proof.
  intros H n.
  change (rebuild_const_string bs) with (const_prefix ++ rebuild_string bs ++ [59] ++ [10]).
  rewrite (rebuilt_string_in_line_nl const_prefix [59] bs const_prefix_boundary eq_refl eq_refl H).
  cbv zeta. fold n. change (len const_prefix) with 19.
  match goal with |- context [removelast ?t] =>
    let v := eval vm_compute in (removelast t) in change (removelast t) with v end.
  cbn [length lex_line_fuel]. change (lex_step 59 []) with (single KSemicolon []). unfold single.
  rewrite ?lex_line_fuel_nil. reflexivity.
Qed.

(* ---- the import line  import "<path>";  *)

Lemma import_prefix_boundary : boundary (str "import ") [34].
Proof.
  apply (Bd_tok 105 (str "mport") (str " ") [34]); [reflexivity|].
  apply Bd_skip; [now left|]. constructor.
Qed.

Theorem rebuilt_import_lexes_back path : Forall (fun b => b < 256) path ->
  let n := len (rebuild_string path) in
  lex_alpha (rebuild_import [] path) =
  [mk KImport 0%Z None [] 0 6 1 0;
   mk KStringLiteral 0%Z None path 7 (7 + n) 1 7;
   mk KSemicolon 0%Z None [] (7 + n) (7 + n + 1) 1 (7 + n)].
Proof.
  intros H n.
  change (rebuild_import [] path) with (str "import " ++ rebuild_string path ++ [59] ++ [10]).
  rewrite (rebuilt_string_in_line_nl (str "import ") [59] path import_prefix_boundary eq_refl eq_refl H).
  cbv zeta. fold n. change (len (str "import ")) with 7.
  match goal with |- context [removelast ?t] =>
    let v := eval vm_compute in (removelast t) in change (removelast t) with v end.
  cbn [length lex_line_fuel]. change (lex_step 59 []) with (single KSemicolon []). unfold single.
  rewrite ?lex_line_fuel_nil. reflexivity.
Qed.

(* ================================================================== *)
(* 4. Character literals.

   The rebuilder has no arm for them: the parser made a BitIntegerLiteral of
   type char8 out of the token, and every BitIntegerLiteral is printed with
   {:#x}.  So the text that comes back is a hexadecimal integer; it lexes to
   KBitInteger with the right value, NOT to KCharLiteral (and the parser then
   builds a BitIntegerLiteral without the char8 type). *)

Local Open Scope Z_scope.

Definition nibble_check (d : N) : bool :=
  (16 <=? d)%N || (is_hex (hex_digit_lower d) && (digit_val (hex_digit_lower d) =? Z.of_N d)).

Lemma hex_digit_lower_spec d : (d < 16)%N ->
  is_hex (hex_digit_lower d) = true /\ digit_val (hex_digit_lower d) = Z.of_N d.
Proof.
  intros Hd.
  assert (H : nibble_check d = true)
    by (apply (forall_bytes nibble_check); [vm_compute; reflexivity|lia]).
  unfold nibble_check in H. destruct (N.leb_spec 16 d); [lia|]. cbn [orb] in H.
  apply andb_true_iff in H. destruct H as [H1 H2]. split; [exact H1|now apply Z.eqb_eq].
Qed.

Lemma value_of_digits_snoc base ds d :
  value_of_digits base (ds ++ [d]) = value_of_digits base ds * base + digit_val d.
Proof.
  induction ds as [|a ds IH]; cbn [app value_of_digits length].
  - change (Z.of_nat 0) with 0. rewrite Z.pow_0_r. lia.
  - rewrite IH, app_length. cbn [length]. rewrite Nat.add_1_r, Nat2Z.inj_succ, Z.pow_succ_r by lia. ring.
Qed.

Lemma lower_hex_fuel_S f v acc :
  lower_hex_fuel (S f) v acc =
  if (v / 16 =? 0)%N then hex_digit_lower (v mod 16) :: acc
  else lower_hex_fuel f (v / 16) (hex_digit_lower (v mod 16) :: acc).
Proof. reflexivity. Qed.

Lemma lower_hex_fuel_spec : forall f v acc, (v < 16 ^ N.of_nat (S f))%N ->
  exists ds, lower_hex_fuel (S f) v acc = ds ++ acc /\ ds <> [] /\
    forallb is_hex ds = true /\ value_of_digits 16 ds = Z.of_N v.
Proof.
  assert (Hone : forall v acc, (v / 16 = 0)%N ->
    exists ds, hex_digit_lower (v mod 16) :: acc = ds ++ acc /\ ds <> [] /\
      forallb is_hex ds = true /\ value_of_digits 16 ds = Z.of_N v).
  { intros v acc Hz. apply N.div_small_iff in Hz; [|lia]. rewrite (N.mod_small v 16 Hz).
    destruct (hex_digit_lower_spec v Hz) as [H1 H2]. exists [hex_digit_lower v].
    split; [reflexivity|]. split; [discriminate|]. cbn [forallb value_of_digits length]. rewrite H1, H2.
    split; [reflexivity|]. change (Z.of_nat 0) with 0. rewrite Z.pow_0_r. lia. }
  induction f as [|f IH]; intros v acc Hv; rewrite lower_hex_fuel_S.
  - change (16 ^ N.of_nat 1)%N with 16%N in Hv.
    assert (Hz : (v / 16 = 0)%N) by (apply N.div_small; exact Hv).
    rewrite Hz. change (0 =? 0)%N with true. cbv iota. now apply Hone.
  - destruct (v / 16 =? 0)%N eqn:E; [apply N.eqb_eq in E; now apply Hone|].
    assert (Hq : (v / 16 < 16 ^ N.of_nat (S f))%N).
    { rewrite (Nat2N.inj_succ (S f)), N.pow_succ_r' in Hv. apply N.div_lt_upper_bound; [lia|exact Hv]. }
    destruct (IH (v / 16)%N (hex_digit_lower (v mod 16) :: acc) Hq) as (ds & Hds & Hne & Hhex & Hval).
    assert (Hm : (v mod 16 < 16)%N) by (apply N.mod_lt; lia).
    destruct (hex_digit_lower_spec _ Hm) as [H1 H2].
    exists (ds ++ [hex_digit_lower (v mod 16)]). rewrite Hds, <- app_assoc. split; [reflexivity|].
    split; [destruct ds; discriminate|]. split.
    + rewrite forallb_app, Hhex. cbn [forallb]. now rewrite H1.
    + rewrite value_of_digits_snoc, Hval, H2. pose proof (N.div_mod' v 16) as Hdm.
      rewrite Hdm at 3. rewrite N2Z.inj_add, N2Z.inj_mul. change (Z.of_N 16) with 16. ring.
Qed.

Lemma lower_hex_spec v : (v < 2 ^ 128)%N ->
  lower_hex v <> [] /\ forallb is_hex (lower_hex v) = true /\ value_of_digits 16 (lower_hex v) = Z.of_N v.
Proof.
  intros Hv. destruct (lower_hex_fuel_spec 31 v [] Hv) as (ds & Hds & Hne & Hhex & Hval).
  unfold lower_hex. rewrite Hds, app_nil_r. auto.
Qed.

Lemma hex_digits_us ds : forallb is_hex ds = true -> digits_us is_hex ds = true /\ strip_us ds = ds.
Proof.
  induction ds as [|c ds IH]; intros H; [split; reflexivity|].
  cbn [forallb] in H. apply andb_true_iff in H. destruct H as [Hc H]. destruct (IH H) as [H1 H2].
  unfold digits_us in *. cbn [forallb strip_us filter]. fold (strip_us ds).
  assert (H95 : (c =? 95)%N = false).
  { destruct (c =? 95)%N eqn:E; [|reflexivity]. apply N.eqb_eq in E. subst c. discriminate. }
  rewrite Hc, H1, H95, H2. split; reflexivity.
Qed.

Lemma len_rebuild_bit_integer v : len (rebuild_bit_integer v) = (2 + len (lower_hex v))%N.
Proof. unfold rebuild_bit_integer. rewrite !len_cons. lia. Qed.

(* What {:#x} prints for any u128 comes back as a bit integer of that value
   (followed by anything that does not continue an identifier). *)
Theorem rebuilt_bit_integer_step v rest : (v < 2 ^ 128)%N -> stops rest ->
  lex_step 48 (120%N :: lower_hex v ++ rest) =
  StTok KBitInteger (Z.of_N v) None [] (len (rebuild_bit_integer v)) rest.
Proof.
  intros Hv Hr. destruct (lower_hex_spec v Hv) as (Hne & Hhex & Hval).
  destruct (hex_digits_us _ Hhex) as [Hus Hstrip].
  pose proof (hex_value (lower_hex v) rest Hus) as Hh. rewrite Hstrip in Hh.
  specialize (Hh Hne Hr). cbv zeta in Hh. rewrite Hval in Hh. rewrite Hh, len_rebuild_bit_integer.
  assert (Hlt : (Z.of_N v <? 2 ^ 128) = true).
  { apply Z.ltb_lt. change (2 ^ 128) with (Z.of_N (2 ^ 128)). now apply N2Z.inj_lt. }
  now rewrite Hlt.
Qed.

Lemma hex_nonl ds : forallb is_hex ds = true -> forallb nonl ds = true.
Proof.
  intros H. rewrite forallb_forall in *. intros c Hc. specialize (H c Hc). unfold nonl.
  destruct (c =? 10)%N eqn:E1; [apply N.eqb_eq in E1; subst c; discriminate|].
  destruct (c =? 13)%N eqn:E2; [apply N.eqb_eq in E2; subst c; discriminate|]. reflexivity.
Qed.

Theorem rebuilt_bit_integer_lexes_back v : (v < 2 ^ 128)%N ->
  lex_alpha (rebuild_bit_integer v) =
  [mk KBitInteger (Z.of_N v) None [] 0 (len (rebuild_bit_integer v)) 1 0].
Proof.
  intros Hv. destruct (lower_hex_spec v Hv) as (_ & Hhex & _). rewrite lex_alpha_one_line.
  - unfold lex_line. unfold rebuild_bit_integer at 1 2. cbn [length lex_line_fuel].
    pose proof (rebuilt_bit_integer_step v [] Hv I) as Hs. rewrite app_nil_r in Hs.
    rewrite Hs, ?lex_line_fuel_nil. reflexivity.
  - discriminate.
  - unfold rebuild_bit_integer. cbn [forallb]. now rewrite (hex_nonl _ Hhex).
Qed.

(* MAIN THEOREM 4.  What the rebuilder prints for a character literal of byte
   [b] lexes back to ONE token with the value [b] -- a bit integer. *)
Theorem rebuilt_char_lexes_back b : (b < 256)%N ->
  lex_alpha (rebuild_char b) =
  [mk KBitInteger (Z.of_N b) None [] 0 (len (rebuild_char b)) 1 0].
Proof. intros Hb. apply rebuilt_bit_integer_lexes_back. lia. Qed.

(* FINDING.  It is never the character-literal token the original text lexed
   to: the kind of the literal is lost by rebuilding. *)
Theorem rebuilt_char_never_char_literal b : (b < 256)%N ->
  forall t, In t (lex_alpha (rebuild_char b)) -> kind t = KBitInteger /\ value t = Z.of_N b.
Proof.
  intros Hb t Hin. rewrite (rebuilt_char_lexes_back b Hb) in Hin.
  destruct Hin as [<-|[]]. split; reflexivity.
Qed.

Theorem rebuilt_char_lexes_back_refuted :
  exists b, (b < 256)%N /\
    lex_alpha [39%N; b; 39%N] = [mk KCharLiteral (Z.of_N b) None [] 0 3 1 0] /\
    map kind (lex_alpha (rebuild_char b)) <> [KCharLiteral].
Proof.
  exists 65%N. split; [lia|]. split; [vm_compute; reflexivity|]. vm_compute. discriminate.
Qed.

Example rebuild_char_examples :
  map rebuild_char [0; 10; 39; 65; 255]%N = [str "0x0"; str "0xa"; str "0x27"; str "0x41"; str "0xff"].
Proof. vm_compute. reflexivity. Qed.

Example all_chars_come_back_as_integers :
  forallb (fun b => match lex_alpha (rebuild_char b) with
                    | [t] => match kind t with KBitInteger => (value t =? Z.of_N b) | _ => false end
                    | _ => false
                    end) all_bytes = true.
Proof. vm_compute. reflexivity. Qed.

(* Printing the escaped byte between apostrophes instead WOULD come back as
   the character literal, for every byte (escaped_char_step above): *)
Example all_escaped_chars_round_trip :
  forallb (fun b => match lex_alpha (39%N :: escape_default b ++ [39%N]) with
                    | [t] => match kind t with KCharLiteral => (value t =? Z.of_N b) | _ => false end
                    | _ => false
                    end) all_bytes = true.
Proof. vm_compute. reflexivity. Qed.

Local Close Scope Z_scope.

(* ================================================================== *)
(* 5. The seeded mutant: backslash-quote accepted only for the quote that
   opened the literal.  escape_default escapes BOTH quotes in every literal,
   so the apostrophe inside a string no longer comes back. *)

Theorem mutant_breaks_apostrophe :
  rebuild_string [39] = [34; 92; 39; 34] /\
  lex_alpha (rebuild_string [39]) = [mk KStringLiteral 0%Z None [39] 0 4 1 0] /\
  lex_alpha_mutant (rebuild_string [39]) = [mk KError E162 None [] 1 3 1 2].
Proof. vm_compute. repeat split; reflexivity. Qed.

Theorem mutant_round_trip_refuted :
  exists bs, Forall (fun b => b < 256) bs /\
    lex_alpha_mutant (rebuild_string bs) <>
    [mk KStringLiteral 0%Z None bs 0 (len (rebuild_string bs)) 1 0].
Proof.
  exists [39]. split; [repeat constructor|]. intros H. apply (f_equal (map kind)) in H.
  vm_compute in H. discriminate.
Qed.

(* The apostrophe is the only single byte the mutant breaks in a string ... *)
Example mutant_breaks_only_apostrophe :
  filter (fun b => negb (single_byte_round_trip lex_alpha_mutant b)) all_bytes = [39].
Proof. vm_compute. reflexivity. Qed.

(* ... and the double quote the only one it breaks between apostrophes. *)
Example mutant_breaks_only_double_quote_in_chars :
  filter (fun b => negb match lex_alpha_mutant (39 :: escape_default b ++ [39]) with
                        | [t] => match kind t with KCharLiteral => (value t =? Z.of_N b)%Z | _ => false end
                        | _ => false
                        end) all_bytes = [34].
Proof. vm_compute. reflexivity. Qed.

(* Elsewhere the mutant model is the lexer model. *)
Example mutant_agrees_elsewhere :
  lex_alpha_mutant (rebuild_const_string [97; 34; 0; 200]) = lex_alpha (rebuild_const_string [97; 34; 0; 200]) /\
  lex_alpha_mutant (str "x = 'a' + '\'' + f(""a\""b"", 0x1f); // c") =
  lex_alpha (str "x = 'a' + '\'' + f(""a\""b"", 0x1f); // c").
Proof. vm_compute. split; reflexivity. Qed.

(* ================================================================== *)
Print Assumptions escape_default_ascii.
Print Assumptions rebuild_string_ascii.
Print Assumptions rebuilt_string_step.
Print Assumptions escaped_char_step.
Print Assumptions rebuilt_string_lexes_back.
Print Assumptions rebuilt_string_lexes_back_fixed.
Print Assumptions boundary_toks.
Print Assumptions rebuilt_string_in_context.
Print Assumptions rebuilt_string_in_line.
Print Assumptions rebuilt_string_in_line_nl.
Print Assumptions rebuilt_string_in_const.
Print Assumptions rebuilt_import_lexes_back.
Print Assumptions rebuilt_bit_integer_step.
Print Assumptions rebuilt_bit_integer_lexes_back.
Print Assumptions rebuilt_char_lexes_back.
Print Assumptions rebuilt_char_never_char_literal.
Print Assumptions rebuilt_char_lexes_back_refuted.
Print Assumptions mutant_breaks_apostrophe.
Print Assumptions mutant_round_trip_refuted.
