(* Proofs about Model/Header.v: the header built by `build_header_nodes` is exactly
   the public interface of the module. *)
From PV Require Import Base.Common Model.Header.

Local Open Scope N_scope.

(* ---- get / len / indexed ------------------------------------------------- *)

Lemma len_app a b : len (a ++ b) = len a + len b.
Proof. unfold len. rewrite app_length. lia. Qed.

Lemma len_cons n l : len (n :: l) = len l + 1.
Proof. unfold len. cbn [length]. lia. Qed.

Lemma len_nil : len [] = 0.
Proof. reflexivity. Qed.

Lemma get_nil i : get [] i = None.
Proof. unfold get. destruct (N.to_nat i); reflexivity. Qed.

Lemma get_cons_0 n l : get (n :: l) 0 = Some n.
Proof. reflexivity. Qed.

Lemma get_cons_pos n l i : 0 < i -> get (n :: l) i = get l (i - 1).
Proof.
  intros Hi. unfold get.
  replace (N.to_nat i) with (S (N.to_nat (i - 1))) by lia. reflexivity.
Qed.

Lemma get_Some_lt ns i n : get ns i = Some n -> i < len ns.
Proof.
  unfold get, len. intros H.
  assert (Hlt : (N.to_nat i < length ns)%nat) by (apply nth_error_Some; congruence).
  lia.
Qed.

Lemma get_None_iff ns i : get ns i = None <-> len ns <= i.
Proof. unfold get, len. rewrite nth_error_None. lia. Qed.

Lemma get_lt_Some ns i : i < len ns -> exists n, get ns i = Some n.
Proof.
  intros Hi. destruct (get ns i) as [n|] eqn:E; [eauto|].
  apply get_None_iff in E. lia.
Qed.

Lemma get_app_l a b i : i < len a -> get (a ++ b) i = get a i.
Proof. unfold get, len. intros Hi. apply nth_error_app1. lia. Qed.

Lemma get_app_r a b i : len a <= i -> get (a ++ b) i = get b (i - len a).
Proof.
  unfold get, len. intros Hi. rewrite nth_error_app2 by lia.
  f_equal. lia.
Qed.

Lemma get_app_len a n b : get (a ++ n :: b) (len a) = Some n.
Proof. rewrite get_app_r by lia. rewrite N.sub_diag. reflexivity. Qed.

Lemma get_split ns i n :
  get ns i = Some n -> exists pre suf, ns = pre ++ n :: suf /\ len pre = i.
Proof.
  unfold get. intros H. apply nth_error_split in H.
  destruct H as (pre & suf & -> & Hl). exists pre, suf. split; [reflexivity|].
  unfold len. lia.
Qed.

Lemma firstn_len_app a b : firstn (N.to_nat (len a)) (a ++ b) = a.
Proof.
  unfold len. rewrite Nat2N.id.
  rewrite firstn_app, Nat.sub_diag, firstn_all. cbn [firstn]. apply app_nil_r.
Qed.

Lemma indexed_app p a b : indexed p (a ++ b) = indexed p a ++ indexed (p + len a) b.
Proof.
  revert p. induction a as [|x a IH]; intros p.
  - cbn [app indexed]. rewrite len_nil, N.add_0_r. reflexivity.
  - cbn [app indexed]. rewrite IH, len_cons. do 3 f_equal. lia.
Qed.

Lemma indexed_length p l : length (indexed p l) = length l.
Proof. revert p. induction l as [|x l IH]; intros p; cbn [indexed length]; [|rewrite IH]; reflexivity. Qed.

Lemma In_indexed l : forall p j n,
  In (j, n) (indexed p l) <-> p <= j /\ get l (j - p) = Some n.
Proof.
  induction l as [|a r IH]; intros p j n.
  - cbn [indexed In]. rewrite get_nil. split; [tauto|intros [_ H]; discriminate].
  - cbn [indexed In]. rewrite IH. split.
    + intros [H | [Hle Hg]].
      * injection H as <- <-. split; [lia|]. rewrite N.sub_diag. reflexivity.
      * split; [lia|]. rewrite get_cons_pos by lia. rewrite <- Hg. f_equal. lia.
    + intros [Hle Hg]. destruct (N.eq_dec p j) as [->|Hne].
      * left. rewrite N.sub_diag in Hg. cbn in Hg. congruence.
      * right. split; [lia|]. rewrite get_cons_pos in Hg by lia.
        rewrite <- Hg. f_equal. lia.
Qed.

Lemma In_indexed_0 l j n : In (j, n) (indexed 0 l) <-> get l j = Some n.
Proof. rewrite In_indexed, N.sub_0_r. split; [tauto|split; [lia|assumption]]. Qed.

(* ---- privacy, declaratively ---------------------------------------------- *)

Definition private (ns : list node) (i : N) : Prop :=
  (exists s e, get ns s = Some (NStart e) /\ s <= i <= e)
  \/ (exists s, get ns s = Some NEndless /\ s <= i).

Lemma privateb_iff ns i : privateb ns i = true <-> private ns i.
Proof.
  unfold privateb, private. rewrite existsb_exists. split.
  - intros [[s n] [Hin Hc]]. apply In_indexed_0 in Hin.
    unfold covers in Hc. cbn [fst snd] in Hc. destruct n; try discriminate.
    + left. exists s, end_. split; [assumption|].
      apply andb_true_iff in Hc. destruct Hc as [H1 H2].
      apply N.leb_le in H1, H2. lia.
    + right. exists s. split; [assumption|]. apply N.leb_le in Hc. lia.
  - intros [(s & e & Hg & Hr) | (s & Hg & Hr)].
    + exists (s, NStart e). split; [apply In_indexed_0; assumption|].
      unfold covers. cbn [fst snd]. apply andb_true_iff.
      split; apply N.leb_le; lia.
    + exists (s, NEndless). split; [apply In_indexed_0; assumption|].
      unfold covers. cbn [fst snd]. apply N.leb_le; lia.
Qed.

Lemma privateb_false_iff ns i : privateb ns i = false <-> ~ private ns i.
Proof. rewrite <- privateb_iff. destruct (privateb ns i); split; intros; congruence. Qed.

(* ---- well-formedness, declaratively -------------------------------------- *)

(* Zone markers are properly paired and zones are not nested.  (What may follow
   an EndlessPrivateZone is irrelevant for build_header.) *)
Record zones_wf (ns : list node) : Prop := {
  zw_start : forall s e, get ns s = Some (NStart e) ->
      s < e /\ get ns e = Some (NEnd s)
      /\ forall j n, s < j < e -> get ns j = Some n -> is_marker n = false;
  zw_end : forall e s, get ns e = Some (NEnd s) ->
      s < e /\ get ns s = Some (NStart e)
}.

(* An adjusted NodeId of a public node points into the array, and no zone marker
   stands between the node and its target (target included). *)
Definition refs_local (ns : list node) : Prop :=
  forall i k t, get ns i = Some (NRef k t) -> privateb ns i = false ->
    t < len ns
    /\ forall j n, N.min i t <= j <= N.max i t -> get ns j = Some n -> is_marker n = false.

(* ---- counting ------------------------------------------------------------ *)

Lemma count_private_nil all p : count_private all p [] = 0.
Proof. reflexivity. Qed.

Lemma count_private_app all p a b :
  count_private all p (a ++ b) = count_private all p a + count_private all (p + len a) b.
Proof.
  unfold count_private. rewrite indexed_app, filter_app, app_length. lia.
Qed.

Lemma count_private_cons all p n r :
  count_private all p (n :: r) =
  (if privateb all p then 1 else 0) + count_private all (p + 1) r.
Proof.
  unfold count_private. cbn [indexed filter fst].
  destruct (privateb all p); cbn [length]; lia.
Qed.

Lemma count_private_all all l : forall p,
  (forall j, p <= j < p + len l -> privateb all j = true) ->
  count_private all p l = len l.
Proof.
  induction l as [|n r IH]; intros p H; [reflexivity|].
  rewrite count_private_cons, len_cons. rewrite len_cons in H.
  rewrite (H p) by lia. rewrite IH; [lia|]. intros j Hj. apply H. lia.
Qed.

Lemma count_private_none all l : forall p,
  (forall j, p <= j < p + len l -> privateb all j = false) ->
  count_private all p l = 0.
Proof.
  induction l as [|n r IH]; intros p H; [reflexivity|].
  rewrite count_private_cons. rewrite len_cons in H.
  rewrite (H p) by lia. rewrite IH; [lia|]. intros j Hj. apply H. lia.
Qed.

Lemma count_private_le all l : forall p, count_private all p l <= len l.
Proof.
  induction l as [|n r IH]; intros p; [cbn; lia|].
  rewrite count_private_cons, len_cons. specialize (IH (p + 1)).
  destruct (privateb all p); lia.
Qed.

Lemma skipped_before_at pre suf :
  skipped_before (pre ++ suf) (len pre) = count_private (pre ++ suf) 0 pre.
Proof. unfold skipped_before. rewrite firstn_len_app. reflexivity. Qed.

Lemma skipped_before_le ns i : skipped_before ns i <= i.
Proof.
  unfold skipped_before.
  pose proof (count_private_le ns (firstn (N.to_nat i) ns) 0) as H.
  unfold len in H. rewrite firstn_length in H. lia.
Qed.

Lemma skipped_before_succ ns i n :
  get ns i = Some n ->
  skipped_before ns (i + 1) = skipped_before ns i + (if privateb ns i then 1 else 0).
Proof.
  intros Hg. destruct (get_split _ _ _ Hg) as (pre & suf & -> & <-).
  rewrite skipped_before_at.
  replace (pre ++ n :: suf) with ((pre ++ [n]) ++ suf) at 1
    by (rewrite <- app_assoc; reflexivity).
  replace (len pre + 1) with (len (pre ++ [n])) by (rewrite len_app, len_cons, len_nil; lia).
  rewrite skipped_before_at. rewrite <- app_assoc. cbn [app].
  rewrite count_private_app, count_private_cons, count_private_nil, N.add_0_l. lia.
Qed.

(* ---- public_part --------------------------------------------------------- *)

Lemma public_part_nil all p : public_part all p [] = [].
Proof. reflexivity. Qed.

Lemma public_part_app all p a b :
  public_part all p (a ++ b) = public_part all p a ++ public_part all (p + len a) b.
Proof. unfold public_part. rewrite indexed_app, filter_app, map_app. reflexivity. Qed.

Lemma public_part_cons all p n r :
  public_part all p (n :: r) =
  (if privateb all p then [] else [convert (skipped_before all p) n])
  ++ public_part all (p + 1) r.
Proof.
  unfold public_part. cbn [indexed filter fst].
  destruct (privateb all p); reflexivity.
Qed.

Lemma public_part_all_private all l : forall p,
  (forall j, p <= j < p + len l -> privateb all j = true) ->
  public_part all p l = [].
Proof.
  induction l as [|n r IH]; intros p H; [reflexivity|].
  rewrite public_part_cons. rewrite len_cons in H.
  rewrite (H p) by lia. rewrite IH; [reflexivity|]. intros j Hj. apply H. lia.
Qed.

Lemma public_part_len all l : forall p,
  len (public_part all p l) + count_private all p l = len l.
Proof.
  induction l as [|n r IH]; intros p; [reflexivity|].
  rewrite public_part_cons, count_private_cons, len_app, len_cons.
  specialize (IH (p + 1)). destruct (privateb all p); rewrite ?len_cons, ?len_nil; lia.
Qed.

(* ---- the loop ------------------------------------------------------------ *)

Lemma build_unfold ns fuel i skipped acc :
  build ns fuel i skipped acc =
  match get ns i with
  | None => Done (rev acc)
  | Some n =>
      match fuel with
      | O => OutOfFuel
      | S fuel' =>
          match n with
          | NStart e =>
              if i <=? e + 1
              then build ns fuel' (e + 1) (skipped + (e + 1 - i)) acc
              else Wrapped
          | NEnd _ => Done (rev acc)
          | NEndless => Done (rev acc)
          | _ => build ns fuel' (i + 1) skipped (convert skipped n :: acc)
          end
      end
  end.
Proof. destruct fuel; reflexivity. Qed.

(* [i] is not strictly inside a zone that started earlier *)
Definition boundary (ns : list node) (i : N) : Prop :=
  forall j, j < i ->
    (forall e, get ns j = Some (NStart e) -> e < i) /\ get ns j <> Some NEndless.

Lemma boundary_public ns i n :
  boundary ns i -> get ns i = Some n -> is_marker n = false -> privateb ns i = false.
Proof.
  intros Hb Hg Hm. apply privateb_false_iff.
  intros [(s & e & Hs & Hr) | (s & Hs & Hr)].
  - destruct (N.eq_dec s i) as [->|Hne].
    + rewrite Hg in Hs. injection Hs as ->. discriminate.
    + destruct (Hb s ltac:(lia)) as [H _]. specialize (H _ Hs). lia.
  - destruct (N.eq_dec s i) as [->|Hne].
    + rewrite Hg in Hs. injection Hs as ->. discriminate.
    + destruct (Hb s ltac:(lia)) as [_ H]. contradiction.
Qed.

Lemma boundary_step ns i n :
  boundary ns i -> get ns i = Some n -> is_marker n = false -> boundary ns (i + 1).
Proof.
  intros Hb Hg Hm j Hj. destruct (N.eq_dec j i) as [->|Hne].
  - rewrite Hg. split.
    + intros e He. injection He as ->. discriminate.
    + intros He. injection He as ->. discriminate.
  - destruct (Hb j ltac:(lia)) as [H1 H2]. split; [|assumption].
    intros e He. specialize (H1 _ He). lia.
Qed.

Lemma boundary_jump ns i e :
  zones_wf ns -> boundary ns i -> get ns i = Some (NStart e) -> boundary ns (e + 1).
Proof.
  intros Hwf Hb Hg j Hj.
  destruct (zw_start _ Hwf _ _ Hg) as (Hlt & Hend & Hint).
  destruct (N.lt_trichotomy j i) as [Hji | [-> | Hji]].
  - destruct (Hb j Hji) as [H1 H2]. split; [|assumption].
    intros e' He'. specialize (H1 _ He'). lia.
  - rewrite Hg. split; [|discriminate]. intros e' He'. injection He' as <-. lia.
  - destruct (N.eq_dec j e) as [->|Hne].
    + rewrite Hend. split; [|discriminate]. intros e' He'. discriminate.
    + split.
      * intros e' He'. specialize (Hint j _ ltac:(lia) He'). discriminate.
      * intros He'. specialize (Hint j _ ltac:(lia) He'). discriminate.
Qed.

Lemma zone_private ns i e j :
  get ns i = Some (NStart e) -> i <= j <= e -> privateb ns j = true.
Proof. intros Hg Hj. apply privateb_iff. left. exists i, e. split; assumption. Qed.

Lemma endless_private ns i j :
  get ns i = Some NEndless -> i <= j -> privateb ns j = true.
Proof. intros Hg Hj. apply privateb_iff. right. exists i. split; assumption. Qed.

Lemma build_inv : forall fuel ns pre suf acc,
  ns = pre ++ suf -> zones_wf ns -> boundary ns (len pre) ->
  (length suf <= fuel)%nat ->
  build ns fuel (len pre) (count_private ns 0 pre) acc
  = Done (rev acc ++ public_part ns (len pre) suf).
Proof.
  induction fuel as [|fuel IH]; intros ns pre suf acc Hns Hwf Hb Hfuel.
  - destruct suf; [|cbn [length] in Hfuel; lia].
    rewrite build_unfold.
    replace (get ns (len pre)) with (@None node)
      by (symmetry; apply get_None_iff; subst ns; rewrite app_nil_r; lia).
    rewrite public_part_nil, app_nil_r. reflexivity.
  - destruct suf as [|n suf'].
    + rewrite build_unfold.
      replace (get ns (len pre)) with (@None node)
        by (symmetry; apply get_None_iff; subst ns; rewrite app_nil_r; lia).
      rewrite public_part_nil, app_nil_r. reflexivity.
    + assert (Hg : get ns (len pre) = Some n) by (subst ns; apply get_app_len).
      assert (Hsk : skipped_before ns (len pre) = count_private ns 0 pre)
        by (subst ns; apply skipped_before_at).
      cbn [length] in Hfuel.
      (* the common continuation for the non-marker variants *)
      assert (Hplain : is_marker n = false ->
        build ns fuel (len pre + 1) (count_private ns 0 pre)
              (convert (count_private ns 0 pre) n :: acc)
        = Done (rev acc ++ public_part ns (len pre) (n :: suf'))).
      { intros Hm.
        pose proof (boundary_public _ _ _ Hb Hg Hm) as Hpub.
        specialize (IH ns (pre ++ [n]) suf' (convert (count_private ns 0 pre) n :: acc)).
        rewrite len_app, len_cons, len_nil, N.add_0_l in IH.
        rewrite count_private_app, count_private_cons, count_private_nil in IH.
        rewrite N.add_0_l, Hpub, !N.add_0_r in IH.
        rewrite IH.
        - rewrite public_part_cons, Hpub, Hsk. cbn [rev app].
          rewrite <- app_assoc. reflexivity.
        - subst ns. rewrite <- app_assoc. reflexivity.
        - assumption.
        - eapply boundary_step; eassumption.
        - lia. }
      rewrite build_unfold, Hg.
      destruct n as [tag pl | ip rest | k t | body | e | s | ].
      * apply Hplain; reflexivity.
      * apply Hplain; reflexivity.
      * apply Hplain; reflexivity.
      * apply Hplain; reflexivity.
      * (* StartPrivateZone: jump *)
        destruct (zw_start _ Hwf _ _ Hg) as (Hlt & Hend & Hint).
        replace (len pre <=? e + 1) with true by (symmetry; apply N.leb_le; lia).
        (* split the suffix at the end marker *)
        assert (Hg' : get suf' (e - len pre - 1) = Some (NEnd (len pre))).
        { subst ns. rewrite get_app_r in Hend by lia.
          rewrite get_cons_pos in Hend by lia. exact Hend. }
        destruct (get_split _ _ _ Hg') as (mid & suf'' & Hsuf & Hmid).
        set (zone := NStart e :: mid ++ [NEnd (len pre)]).
        assert (Hzl : len zone = e + 1 - len pre).
        { unfold zone. rewrite len_cons, len_app, len_cons, len_nil. lia. }
        assert (Hns' : ns = (pre ++ zone) ++ suf'').
        { subst ns suf' zone. rewrite <- !app_assoc. cbn [app].
          rewrite <- app_assoc. reflexivity. }
        assert (Hpriv : forall j, len pre <= j < len pre + len zone -> privateb ns j = true).
        { intros j Hj. eapply zone_private; [exact Hg|]. lia. }
        specialize (IH ns (pre ++ zone) suf'' acc Hns' Hwf).
        rewrite len_app, Hzl in IH.
        replace (len pre + (e + 1 - len pre)) with (e + 1) in IH by lia.
        rewrite count_private_app, N.add_0_l in IH.
        rewrite (count_private_all ns zone (len pre) Hpriv), Hzl in IH.
        rewrite IH.
        -- f_equal. f_equal.
           replace (NStart e :: suf') with (zone ++ suf'').
           2:{ subst suf' zone. cbn [app]. rewrite <- app_assoc. reflexivity. }
           rewrite public_part_app, (public_part_all_private ns zone (len pre) Hpriv).
           cbn [app]. f_equal. lia.
        -- eapply boundary_jump; eassumption.
        -- subst suf'. rewrite app_length in Hfuel. cbn [length] in Hfuel. lia.
      * (* EndPrivateZone at a boundary: impossible *)
        destruct (zw_end _ Hwf _ _ Hg) as (Hlt & Hs).
        destruct (Hb s Hlt) as [H _]. specialize (H _ Hs). lia.
      * (* EndlessPrivateZone: break *)
        rewrite public_part_all_private; [rewrite app_nil_r; reflexivity|].
        intros j Hj. eapply endless_private; [exact Hg|lia].
Qed.

Lemma header_spec_unfold ns :
  header_spec ns =
  map (fun jn => convert (skipped_before ns (fst jn)) (snd jn))
      (filter (fun jn => negb (privateb ns (fst jn))) (indexed 0 ns)).
Proof. reflexivity. Qed.

(* 1. The header is exactly the public nodes, in order, each converted with the
      number of private nodes that precede it. *)
Theorem header_is_filter ns : zones_wf ns -> build_header ns = Done (header_spec ns).
Proof.
  intros Hwf. unfold build_header, header_spec.
  pose proof (build_inv (length ns) ns [] ns [] eq_refl Hwf) as H.
  rewrite len_nil, count_private_nil in H. cbn [rev app] in H. apply H.
  - intros j Hj. cbn in Hj. lia.
  - lia.
Qed.

(* ---- where the public nodes end up --------------------------------------- *)

(* These facts are about [header_spec] alone and need no well-formedness. *)

Lemma header_spec_split pre n suf :
  header_spec (pre ++ n :: suf) =
  public_part (pre ++ n :: suf) 0 pre
  ++ (if privateb (pre ++ n :: suf) (len pre) then []
      else [convert (skipped_before (pre ++ n :: suf) (len pre)) n])
  ++ public_part (pre ++ n :: suf) (len pre + 1) suf.
Proof.
  unfold header_spec. rewrite public_part_app, N.add_0_l, public_part_cons.
  reflexivity.
Qed.

Lemma image_at pre suf :
  image (pre ++ suf) (len pre) = len (public_part (pre ++ suf) 0 pre).
Proof.
  unfold image. rewrite skipped_before_at.
  pose proof (public_part_len (pre ++ suf) pre 0). lia.
Qed.

(* every public node appears in the header, converted, at position [image] *)
Theorem header_nth ns i n :
  get ns i = Some n -> privateb ns i = false ->
  get (header_spec ns) (image ns i) = Some (convert (skipped_before ns i) n).
Proof.
  intros Hg Hpub. destruct (get_split _ _ _ Hg) as (pre & suf & -> & <-).
  rewrite header_spec_split, Hpub, image_at. cbn [app]. apply get_app_len.
Qed.

(* every header node is the conversion of a public node *)
Theorem header_in ns m :
  In m (header_spec ns) ->
  exists i n, get ns i = Some n /\ privateb ns i = false
              /\ m = convert (skipped_before ns i) n.
Proof.
  unfold header_spec, public_part. rewrite in_map_iff.
  intros [[i n] [Hm Hin]]. apply filter_In in Hin. destruct Hin as [Hin Hp].
  apply In_indexed_0 in Hin. cbn [fst snd] in *.
  exists i, n. split; [assumption|]. split; [|congruence].
  now apply negb_true_iff in Hp.
Qed.

Lemma header_len ns : len (header_spec ns) = len ns - skipped_before ns (len ns).
Proof.
  unfold header_spec, skipped_before, len at 3. rewrite Nat2N.id, firstn_all.
  pose proof (public_part_len ns ns 0). lia.
Qed.

Lemma skipped_before_range ns : forall (d : nat) a,
  a + N.of_nat d <= len ns ->
  skipped_before ns a <= skipped_before ns (a + N.of_nat d)
  /\ skipped_before ns (a + N.of_nat d) <= skipped_before ns a + N.of_nat d
  /\ ((forall j, a <= j < a + N.of_nat d -> privateb ns j = false) ->
      skipped_before ns (a + N.of_nat d) = skipped_before ns a).
Proof.
  induction d as [|d IH]; intros a Hle.
  - cbn [N.of_nat]. rewrite N.add_0_r. repeat split; try lia.
  - destruct (IH a ltac:(lia)) as (IH1 & IH2 & IH3).
    destruct (get_lt_Some ns (a + N.of_nat d) ltac:(lia)) as [n Hn].
    pose proof (skipped_before_succ _ _ _ Hn) as Hs.
    replace (a + N.of_nat (S d)) with (a + N.of_nat d + 1) by lia.
    rewrite Hs. split; [|split].
    + destruct (privateb ns (a + N.of_nat d)); lia.
    + destruct (privateb ns (a + N.of_nat d)); lia.
    + intros Hall. rewrite (Hall (a + N.of_nat d)) by lia.
      rewrite IH3; [lia|]. intros j Hj. apply Hall. lia.
Qed.

Lemma skipped_before_mono ns a b :
  a <= b -> b <= len ns ->
  skipped_before ns a <= skipped_before ns b
  /\ skipped_before ns b <= skipped_before ns a + (b - a).
Proof.
  intros Hab Hb.
  destruct (skipped_before_range ns (N.to_nat (b - a)) a ltac:(lia)) as (H1 & H2 & _).
  replace (a + N.of_nat (N.to_nat (b - a))) with b in * by lia. lia.
Qed.

Lemma skipped_before_same ns a b :
  a <= b -> b <= len ns ->
  (forall j, a <= j < b -> privateb ns j = false) ->
  skipped_before ns b = skipped_before ns a.
Proof.
  intros Hab Hb Hall.
  destruct (skipped_before_range ns (N.to_nat (b - a)) a ltac:(lia)) as (_ & _ & H3).
  replace (a + N.of_nat (N.to_nat (b - a))) with b in * by lia. apply H3, Hall.
Qed.

(* declarations_in_order: the relative order of the public nodes is preserved
   (so [image] is injective on public positions). *)
Theorem image_strictly_monotone ns i j :
  i < j -> j < len ns -> privateb ns i = false ->
  image ns i < image ns j.
Proof.
  intros Hij Hj Hpub. unfold image.
  destruct (get_lt_Some ns i ltac:(lia)) as [n Hn].
  pose proof (skipped_before_succ _ _ _ Hn) as Hs. rewrite Hpub in Hs.
  destruct (skipped_before_mono ns (i + 1) j ltac:(lia) ltac:(lia)) as [_ H2].
  pose proof (skipped_before_le ns i). pose proof (skipped_before_le ns j). lia.
Qed.

Lemma image_lt_header_len ns i :
  i < len ns -> privateb ns i = false -> image ns i < len (header_spec ns).
Proof.
  intros Hi Hpub. destruct (get_lt_Some ns i Hi) as [n Hn].
  eapply get_Some_lt. apply header_nth; eassumption.
Qed.

(* neighbours stay neighbours: the `nodes[-1]`, `nodes[-2]`, ... addressing that
   the consumers of the tree use survives header extraction as long as the
   neighbour is public too *)
Theorem neighbours_preserved ns i d :
  d <= i -> i < len ns ->
  (forall j, i - d <= j <= i -> privateb ns j = false) ->
  image ns (i - d) = image ns i - d.
Proof.
  intros Hd Hi Hall. unfold image.
  rewrite (skipped_before_same ns (i - d) i) by (try lia; intros j Hj; apply Hall; lia).
  pose proof (skipped_before_le ns (i - d)). lia.
Qed.

(* ---- references ---------------------------------------------------------- *)

Lemma adjust_ge s i : s <= i -> adjust s i = i - s.
Proof. intros H. unfold adjust. apply N.leb_le in H. rewrite H. reflexivity. Qed.

(* a marker-free interval that contains one public position is public throughout *)
Lemma marker_free_public ns a b c :
  zones_wf ns -> a <= c <= b -> privateb ns c = false ->
  (forall j n, a <= j <= b -> get ns j = Some n -> is_marker n = false) ->
  forall j, a <= j <= b -> privateb ns j = false.
Proof.
  intros Hwf Hc Hpub Hfree j Hj. apply privateb_false_iff.
  apply privateb_false_iff in Hpub.
  intros [(s & e & Hs & Hr) | (s & Hs & Hr)].
  - destruct (N.le_gt_cases a s) as [Has | Hsa].
    + specialize (Hfree s _ ltac:(lia) Hs). discriminate.
    + destruct (N.le_gt_cases c e) as [Hce | Hec].
      * apply Hpub. left. exists s, e. split; [assumption|lia].
      * destruct (zw_start _ Hwf _ _ Hs) as (_ & Hend & _).
        specialize (Hfree e _ ltac:(lia) Hend). discriminate.
  - destruct (N.le_gt_cases a s) as [Has | Hsa].
    + specialize (Hfree s _ ltac:(lia) Hs). discriminate.
    + apply Hpub. right. exists s. split; [assumption|lia].
Qed.

Lemma refs_local_target ns i k t :
  zones_wf ns -> refs_local ns ->
  get ns i = Some (NRef k t) -> privateb ns i = false ->
  t < len ns /\ privateb ns t = false /\ skipped_before ns t = skipped_before ns i.
Proof.
  intros Hwf Hloc Hg Hpub. destruct (Hloc _ _ _ Hg Hpub) as [Ht Hfree].
  pose proof (get_Some_lt _ _ _ Hg) as Hi.
  pose proof (marker_free_public ns (N.min i t) (N.max i t) i Hwf ltac:(lia) Hpub Hfree)
    as Hall.
  split; [assumption|]. split; [apply Hall; lia|].
  destruct (N.le_ge_cases i t) as [Hit | Hti].
  - apply skipped_before_same; try lia. intros j Hj. apply Hall. lia.
  - symmetry. apply skipped_before_same; try lia. intros j Hj. apply Hall. lia.
Qed.

(* 2. Every NodeId of a header node points to the image of its original target;
      `i - num_skipped_nodes` never wraps. *)
Theorem refs_preserved ns h i k t :
  zones_wf ns -> refs_local ns -> build_header ns = Done h ->
  get ns i = Some (NRef k t) -> privateb ns i = false ->
  exists nt,
    get ns t = Some nt /\ privateb ns t = false
    /\ skipped_before ns i <= t
    /\ get h (image ns i) = Some (NRef k (image ns t))
    /\ get h (image ns t) = Some (convert (skipped_before ns t) nt).
Proof.
  intros Hwf Hloc Hh Hg Hpub.
  rewrite (header_is_filter ns Hwf) in Hh. injection Hh as <-.
  destruct (refs_local_target _ _ _ _ Hwf Hloc Hg Hpub) as (Ht & Htpub & Hsame).
  destruct (get_lt_Some ns t Ht) as [nt Hnt]. exists nt.
  pose proof (skipped_before_le ns t) as Hle.
  split; [assumption|]. split; [assumption|]. split; [lia|]. split.
  - rewrite (header_nth _ _ _ Hg Hpub). cbn [convert].
    rewrite adjust_ge by lia. unfold image. rewrite Hsame. reflexivity.
  - apply header_nth; assumption.
Qed.

(* the release-mode wrap-around of `adjust` is never exercised *)
Corollary adjust_exact_on_wf ns i k t :
  zones_wf ns -> refs_local ns ->
  get ns i = Some (NRef k t) -> privateb ns i = false ->
  adjust (skipped_before ns i) t = t - skipped_before ns i /\ skipped_before ns i <= t.
Proof.
  intros Hwf Hloc Hg Hpub.
  destruct (refs_local_target _ _ _ _ Hwf Hloc Hg Hpub) as (Ht & Htpub & Hsame).
  pose proof (skipped_before_le ns t). split; [apply adjust_ge|]; lia.
Qed.

(* ---- what the header contains -------------------------------------------- *)

Lemma marker_private ns i n :
  zones_wf ns -> get ns i = Some n -> is_marker n = true -> privateb ns i = true.
Proof.
  intros Hwf Hg Hm. apply privateb_iff. destruct n; try discriminate.
  - left. destruct (zw_start _ Hwf _ _ Hg) as (Hlt & _). exists i, end_. split; [assumption|lia].
  - left. destruct (zw_end _ Hwf _ _ Hg) as (Hlt & Hs). exists start, i. split; [assumption|lia].
  - right. exists i. split; [assumption|lia].
Qed.

Lemma convert_shape s n :
  is_marker n = false ->
  is_marker (convert s n) = false
  /\ (forall b, convert s n <> NImpl b)
  /\ (forall r, convert s n <> NFlags true r).
Proof. destruct n; cbn; intros H; try discriminate; repeat split; intros; discriminate. Qed.

(* 3a. Function bodies are gone: a public FunctionImpl becomes NoMoreItems, no
       FunctionImpl and no zone marker is left, and every header node comes
       from a node outside the private zones. *)
Theorem bodies_removed ns h :
  zones_wf ns -> build_header ns = Done h ->
  (forall i b, get ns i = Some (NImpl b) -> privateb ns i = false ->
               get h (image ns i) = Some NoMoreItems)
  /\ (forall m, In m h -> is_marker m = false /\ forall b, m <> NImpl b)
  /\ (forall m, In m h ->
        exists i n, get ns i = Some n /\ privateb ns i = false
                    /\ m = convert (skipped_before ns i) n)
  /\ len h = len ns - skipped_before ns (len ns).
Proof.
  intros Hwf Hh. rewrite (header_is_filter ns Hwf) in Hh. injection Hh as <-.
  split; [|split; [|split]].
  - intros i b Hg Hpub. apply (header_nth _ _ _ Hg Hpub).
  - intros m Hin. destruct (header_in _ _ Hin) as (i & n & Hg & Hpub & ->).
    assert (Hm : is_marker n = false).
    { destruct (is_marker n) eqn:E; [|reflexivity].
      rewrite (marker_private _ _ _ Hwf Hg E) in Hpub. discriminate. }
    destruct (convert_shape (skipped_before ns i) n Hm) as (H1 & H2 & _). split; assumption.
  - apply header_in.
  - apply header_len.
Qed.

(* 3b. The Public flag is cleared everywhere, the other flags are kept. *)
Theorem pub_flag_cleared ns h :
  zones_wf ns -> build_header ns = Done h ->
  (forall i p r, get ns i = Some (NFlags p r) -> privateb ns i = false ->
                 get h (image ns i) = Some (NFlags false r))
  /\ (forall p r, In (NFlags p r) h -> p = false).
Proof.
  intros Hwf Hh. rewrite (header_is_filter ns Hwf) in Hh. injection Hh as <-. split.
  - intros i p r Hg Hpub. apply (header_nth _ _ _ Hg Hpub).
  - intros p r Hin. destruct (header_in _ _ Hin) as (i & n & Hg & Hpub & Heq).
    destruct n; cbn in Heq; try discriminate. congruence.
Qed.

(* 3c. Order: see [image_strictly_monotone]; in terms of the `declarations`
       vector that ParseTree::build_header recomputes: the declarations of the
       header are the images of the public declarations, in the same order. *)
Definition decl_idx (p : N) (l : list node) : list N :=
  map fst (filter (fun jn => is_declaration (snd jn)) (indexed p l)).

Lemma decl_idx_cons p n r :
  decl_idx p (n :: r) = (if is_declaration n then [p] else []) ++ decl_idx (p + 1) r.
Proof. unfold decl_idx. cbn [indexed filter snd]. destruct (is_declaration n); reflexivity. Qed.

Lemma is_declaration_convert s n : is_declaration (convert s n) = is_declaration n.
Proof. destruct n; reflexivity. Qed.

Lemma decl_idx_public_part all : forall suf pre,
  all = pre ++ suf ->
  decl_idx (len (public_part all 0 pre)) (public_part all (len pre) suf)
  = map (image all) (filter (fun i => negb (privateb all i)) (decl_idx (len pre) suf)).
Proof.
  induction suf as [|n suf IH]; intros pre Hall; [reflexivity|].
  specialize (IH (pre ++ [n]) ltac:(rewrite <- app_assoc; exact Hall)).
  assert (Hl : len (pre ++ [n]) = len pre + 1) by (rewrite len_app, len_cons, len_nil; lia).
  rewrite Hl in IH.
  rewrite public_part_app, N.add_0_l, public_part_cons, public_part_nil, app_nil_r in IH.
  rewrite public_part_cons, decl_idx_cons.
  destruct (privateb all (len pre)) eqn:Hp.
  - cbn [app] in *. rewrite app_nil_r in IH. rewrite IH.
    destruct (is_declaration n); cbn [app filter]; [rewrite Hp|]; reflexivity.
  - cbn [app] in *. rewrite decl_idx_cons, is_declaration_convert.
    rewrite len_app, len_cons, len_nil, N.add_0_l in IH. rewrite IH.
    destruct (is_declaration n); cbn [app filter map]; [rewrite Hp|]; cbn [negb map];
      [|reflexivity].
    f_equal. subst all. symmetry. apply image_at.
Qed.

Theorem declarations_in_order ns h :
  zones_wf ns -> build_header ns = Done h ->
  decl_indices h
  = map (image ns) (filter (fun i => negb (privateb ns i)) (decl_indices ns)).
Proof.
  intros Hwf Hh. rewrite (header_is_filter ns Hwf) in Hh. injection Hh as <-.
  exact (decl_idx_public_part ns ns [] eq_refl).
Qed.

(* ---- no private zone ----------------------------------------------------- *)

Lemma no_marker_public ns :
  (forall n, In n ns -> is_marker n = false) -> forall i, privateb ns i = false.
Proof.
  intros Hno i. apply privateb_false_iff.
  intros [(s & e & Hs & _) | (s & Hs & _)];
    apply nth_error_In in Hs; apply Hno in Hs; discriminate.
Qed.

Lemma no_marker_zones_wf ns :
  (forall n, In n ns -> is_marker n = false) -> zones_wf ns.
Proof.
  intros Hno. split; intros a b Hg; apply nth_error_In in Hg; apply Hno in Hg; discriminate.
Qed.

Lemma public_part_all_public all :
  (forall i, privateb all i = false) ->
  forall l p, public_part all p l = map (convert 0) l.
Proof.
  intros Hpub. induction l as [|n r IH]; intros p; [reflexivity|].
  rewrite public_part_cons, Hpub, IH. cbn [app map]. do 2 f_equal.
  unfold skipped_before. apply count_private_none. intros j _. apply Hpub.
Qed.

(* 4. Without private zones the header is the node-wise conversion. *)
Theorem build_header_idempotent_on_public ns :
  (forall n, In n ns -> is_marker n = false) ->
  build_header ns = Done (map (convert 0) ns).
Proof.
  intros Hno. rewrite (header_is_filter ns (no_marker_zones_wf ns Hno)).
  unfold header_spec. rewrite (public_part_all_public ns (no_marker_public ns Hno)).
  reflexivity.
Qed.

Lemma adjust_0 t : adjust 0 t = t.
Proof. rewrite adjust_ge by lia. lia. Qed.

(* a header is its own header *)
Theorem build_header_idempotent ns h :
  zones_wf ns -> build_header ns = Done h -> build_header h = Done h.
Proof.
  intros Hwf Hh. destruct (bodies_removed ns h Hwf Hh) as (_ & Hshape & Hfrom & _).
  rewrite build_header_idempotent_on_public by (intros n Hn; apply Hshape, Hn).
  f_equal. rewrite <- (map_id h) at 2. apply map_ext_in.
  intros m Hm. destruct (Hshape m Hm) as [Hmark Himpl].
  destruct (pub_flag_cleared ns h Hwf Hh) as [_ Hfl].
  destruct m; cbn [convert]; try reflexivity; try discriminate.
  - rewrite (Hfl _ _ Hm). reflexivity.
  - rewrite adjust_0. reflexivity.
  - exfalso. eapply Himpl. reflexivity.
Qed.

(* ---- locality is necessary ----------------------------------------------- *)

(* The adjustment subtracts the number of nodes skipped before the REFERRING
   node.  It is wrong as soon as a private zone lies between a node and its
   target, in either direction.  The parser never produces such arrays (see
   refs_local), but build_header itself does not protect against them. *)
Lemma backward_ref_across_zone_refuted :
  exists ns i k t,
    zones_wfb ns = true /\ get ns i = Some (NRef k t)
    /\ privateb ns i = false /\ privateb ns t = false
    /\ build_header ns = Done (header_spec ns)
    /\ get (header_spec ns) (image ns i) <> Some (NRef k (image ns t)).
Proof.
  exists [NPlain 8 []; NPlain 9 []; NPlain 10 []; NStart 4; NEnd 3; NRef RItem 2],
         5, RItem, 2.
  vm_compute. repeat split; try reflexivity. discriminate.
Qed.

Lemma forward_ref_across_zone_refuted :
  exists ns i k t,
    zones_wfb ns = true /\ get ns i = Some (NRef k t)
    /\ privateb ns i = false /\ privateb ns t = false
    /\ build_header ns = Done (header_spec ns)
    /\ get (header_spec ns) (image ns i) <> Some (NRef k (image ns t))
    /\ get (header_spec ns) (image ns i) = Some (NRef k t)
    /\ len (header_spec ns) <= t.     (* dangling *)
Proof.
  exists [NRef RListItem 3; NStart 2; NEnd 1; NoMoreItems], 0, RListItem, 3.
  vm_compute. repeat split; try reflexivity; discriminate.
Qed.

(* with debug assertions off, a backward reference to a position smaller than
   the skip count wraps around modulo 2^24 *)
Lemma adjust_wraps_refuted :
  exists ns, zones_wfb ns = true
    /\ build_header ns = Done [NPlain 8 []; NRef RItem 16777215].
Proof.
  exists [NPlain 8 []; NStart 2; NEnd 1; NRef RItem 1]. vm_compute. split; reflexivity.
Qed.

(* a zone whose end is not after its start makes the Rust loop spin forever *)
Lemma degenerate_zone_loops_refuted :
  exists ns, build_header ns = OutOfFuel /\ zones_wfb ns = false.
Proof. exists [NPlain 8 []; NStart 0]. vm_compute. split; reflexivity. Qed.

(* ---- the executable checks are sound ------------------------------------- *)

Lemma nth_error_skipn_add {A} a : forall (l : list A) m,
  nth_error (skipn a l) m = nth_error l (a + m)%nat.
Proof.
  induction a as [|a IH]; intros l m; [reflexivity|].
  destruct l as [|x l]; [destruct m; reflexivity|]. cbn [skipn Nat.add nth_error]. apply IH.
Qed.

Lemma nth_error_firstn_lt {A} k : forall (l : list A) m,
  (m < k)%nat -> nth_error (firstn k l) m = nth_error l m.
Proof.
  induction k as [|k IH]; intros l m Hm; [lia|].
  destruct l as [|x l]; [reflexivity|]. destruct m as [|m]; [reflexivity|].
  cbn [firstn nth_error]. apply IH. lia.
Qed.

Lemma get_slice_In ns from to_ j n :
  from <= j < to_ -> get ns j = Some n -> In n (slice ns from to_).
Proof.
  intros Hj Hg. unfold slice, get in *.
  apply (nth_error_In _ (N.to_nat (j - from))).
  rewrite nth_error_firstn_lt by lia. rewrite nth_error_skipn_add.
  rewrite <- Hg. f_equal. lia.
Qed.

Lemma slice_marker_free ns from to_ :
  forallb (fun n => negb (is_marker n)) (slice ns from to_) = true ->
  forall j n, from <= j < to_ -> get ns j = Some n -> is_marker n = false.
Proof.
  intros H j n Hj Hg. rewrite forallb_forall in H.
  specialize (H n (get_slice_In _ _ _ _ _ Hj Hg)). now apply negb_true_iff in H.
Qed.

Theorem zones_wfb_sound ns : zones_wfb ns = true -> zones_wf ns.
Proof.
  unfold zones_wfb. rewrite forallb_forall. intros H. split.
  - intros s e Hg. specialize (H (s, NStart e) ltac:(apply In_indexed_0; exact Hg)).
    unfold zone_ok in H. cbn [fst snd] in H.
    apply andb_true_iff in H. destruct H as [H H3].
    apply andb_true_iff in H. destruct H as [H1 H2].
    apply N.ltb_lt in H1. split; [assumption|]. split.
    + destruct (get ns e) as [[| | | | |s'|]|]; try discriminate.
      apply N.eqb_eq in H2. subst s'. reflexivity.
    + intros j n Hj. apply (slice_marker_free _ _ _ H3). lia.
  - intros e s Hg. specialize (H (e, NEnd s) ltac:(apply In_indexed_0; exact Hg)).
    unfold zone_ok in H. cbn [fst snd] in H.
    apply andb_true_iff in H. destruct H as [H1 H2].
    apply N.ltb_lt in H1. split; [assumption|].
    destruct (get ns s) as [[| | | |e'| |]|]; try discriminate.
    apply N.eqb_eq in H2. subst e'. reflexivity.
Qed.

Theorem refs_localb_sound ns : refs_localb ns = true -> refs_local ns.
Proof.
  unfold refs_localb. rewrite forallb_forall. intros H i k t Hg Hpub.
  specialize (H (i, NRef k t) ltac:(apply In_indexed_0; exact Hg)).
  unfold ref_ok in H. cbn [fst snd] in H. rewrite Hpub in H. cbn [orb] in H.
  apply andb_true_iff in H. destruct H as [H1 H2]. apply N.ltb_lt in H1.
  split; [assumption|]. intros j n Hj. apply (slice_marker_free _ _ _ H2). lia.
Qed.

(* ---- ParseBuffer establishes zones_wf ------------------------------------ *)

Lemma get_snoc_beyond l x j : len l < j -> get (l ++ [x]) j = None.
Proof. intros H. apply get_None_iff. rewrite len_app, len_cons, len_nil. lia. Qed.

Lemma get_snoc_len l x : get (l ++ [x]) (len l) = Some x.
Proof. apply get_app_len. Qed.

Lemma nth_error_set_nth x : forall l i j,
  nth_error (set_nth i x l) j =
  if Nat.eqb j i then (if Nat.ltb i (length l) then Some x else None) else nth_error l j.
Proof.
  induction l as [|a l IH]; intros i j.
  - destruct i; cbn [set_nth length]; destruct (Nat.eqb j _); destruct j; reflexivity.
  - destruct i as [|i]; destruct j as [|j]; cbn [set_nth nth_error Nat.eqb length]; try reflexivity.
    rewrite IH. reflexivity.
Qed.

Lemma get_set_nth_same l i x : i < len l -> get (set_nth (N.to_nat i) x l) i = Some x.
Proof.
  intros Hi. unfold get, len in *. rewrite nth_error_set_nth, Nat.eqb_refl.
  replace (Nat.ltb (N.to_nat i) (length l)) with true; [reflexivity|].
  symmetry. apply Nat.ltb_lt. lia.
Qed.

Lemma get_set_nth_other l i x j : j <> i -> get (set_nth (N.to_nat i) x l) j = get l j.
Proof.
  intros Hne. unfold get. rewrite nth_error_set_nth.
  replace (Nat.eqb (N.to_nat j) (N.to_nat i)) with false; [reflexivity|].
  symmetry. apply Nat.eqb_neq. lia.
Qed.

(* the two arrays have the same zone markers at the same places *)
Definition markers_agree (l l' : list node) : Prop :=
  forall j m, is_marker m = true -> (get l' j = Some m <-> get l j = Some m).

Definition active_ok (ns : list node) (a : option N) : Prop :=
  match a with
  | None => forall j, get ns j <> Some NEndless
  | Some s =>
      get ns s = Some NEndless
      /\ (forall j, get ns j = Some NEndless -> j = s)
      /\ (forall j n, s < j -> get ns j = Some n -> is_marker n = false)
  end.

(* the invariant of ParseBuffer: closed zones are well-formed; the active zone,
   if any, is the only EndlessPrivateZone and no marker follows it *)
Definition binv (b : buffer) : Prop :=
  zones_wf (b_nodes b) /\ active_ok (b_nodes b) (b_active b).

Lemma non_marker_by_agreement l l' j n :
  markers_agree l l' -> get l' j = Some n ->
  (forall n0, get l j = Some n0 -> is_marker n0 = false) -> is_marker n = false.
Proof.
  intros Hag Hg Hold. destruct (is_marker n) eqn:E; [|reflexivity].
  apply (Hag j n E) in Hg. rewrite <- E. apply Hold, Hg.
Qed.

Lemma zones_wf_agree l l' : markers_agree l l' -> zones_wf l -> zones_wf l'.
Proof.
  intros Hag Hwf. split.
  - intros s e Hg. apply (Hag s (NStart e) eq_refl) in Hg.
    destruct (zw_start _ Hwf _ _ Hg) as (Hlt & Hend & Hint).
    split; [assumption|]. split; [apply (Hag e (NEnd s) eq_refl); assumption|].
    intros j n Hj Hgj. eapply non_marker_by_agreement; [exact Hag|exact Hgj|].
    intros n0. apply Hint, Hj.
  - intros e s Hg. apply (Hag e (NEnd s) eq_refl) in Hg.
    destruct (zw_end _ Hwf _ _ Hg) as (Hlt & Hs).
    split; [assumption|]. apply (Hag s (NStart e) eq_refl); assumption.
Qed.

Lemma active_ok_agree l l' a : markers_agree l l' -> active_ok l a -> active_ok l' a.
Proof.
  intros Hag. destruct a as [s|]; cbn [active_ok].
  - intros (H1 & H2 & H3). split; [apply (Hag s NEndless eq_refl); assumption|]. split.
    + intros j Hg. apply H2. apply (Hag j NEndless eq_refl); assumption.
    + intros j n Hj Hg. eapply non_marker_by_agreement; [exact Hag|exact Hg|].
      intros n0. apply H3, Hj.
  - intros H j Hg. apply (H j). apply (Hag j NEndless eq_refl); assumption.
Qed.

Lemma markers_agree_push l x : is_marker x = false -> markers_agree l (l ++ [x]).
Proof.
  intros Hx j m Hm. destruct (N.lt_trichotomy j (len l)) as [Hj | [-> | Hj]].
  - rewrite get_app_l by assumption. reflexivity.
  - rewrite get_snoc_len.
    replace (get l (len l)) with (@None node) by (symmetry; apply get_None_iff; lia).
    split; [|discriminate]. intros H. injection H as <-. congruence.
  - rewrite get_snoc_beyond by assumption.
    replace (get l j) with (@None node) by (symmetry; apply get_None_iff; lia).
    reflexivity.
Qed.

Lemma markers_agree_patch l i x o :
  get l i = Some o -> is_marker o = false -> is_marker x = false ->
  markers_agree l (set_nth (N.to_nat i) x l).
Proof.
  intros Ho Hom Hx j m Hm. destruct (N.eq_dec j i) as [->|Hne].
  - rewrite get_set_nth_same by (eapply get_Some_lt; eassumption). rewrite Ho.
    split; intros H; injection H as <-; congruence.
  - rewrite get_set_nth_other by assumption. reflexivity.
Qed.

Lemma binv_set_private b : binv b -> binv (set_private b).
Proof.
  intros [Hwf Hact]. unfold set_private. destruct (b_active b) as [s|] eqn:Ea.
  - split; [assumption|]. rewrite Ea. assumption.
  - cbn [push fst snd b_nodes b_active]. set (l := b_nodes b) in *.
    cbn [active_ok] in Hact. unfold binv. cbn [b_nodes b_active].
    assert (Hget : forall j n, get (l ++ [NEndless]) j = Some n ->
              (j < len l /\ get l j = Some n) \/ (j = len l /\ n = NEndless)).
    { intros j n Hg. destruct (N.lt_trichotomy j (len l)) as [Hj | [-> | Hj]].
      - left. rewrite get_app_l in Hg by assumption. split; assumption.
      - right. rewrite get_snoc_len in Hg. injection Hg as <-. split; reflexivity.
      - rewrite get_snoc_beyond in Hg by assumption. discriminate. }
    split; [split|].
    + intros s e Hg. destruct (Hget _ _ Hg) as [[Hs Hg'] | [_ Heq]]; [|discriminate].
      destruct (zw_start _ Hwf _ _ Hg') as (Hlt & Hend & Hint).
      pose proof (get_Some_lt _ _ _ Hend) as He.
      split; [assumption|]. split; [rewrite get_app_l by assumption; assumption|].
      intros j n Hj Hgj. rewrite get_app_l in Hgj by lia. eapply Hint; eassumption.
    + intros e s Hg. destruct (Hget _ _ Hg) as [[He Hg'] | [_ Heq]]; [|discriminate].
      destruct (zw_end _ Hwf _ _ Hg') as (Hlt & Hs).
      split; [assumption|]. rewrite get_app_l by lia. assumption.
    + cbn [active_ok]. split; [apply get_snoc_len|]. split.
      * intros j Hg. destruct (Hget _ _ Hg) as [[_ Hg'] | [Hj _]]; [|assumption].
        exfalso. apply (Hact j Hg').
      * intros j n Hj Hg. destruct (Hget _ _ Hg) as [[Hj' _] | [Hj' _]]; lia.
Qed.

Lemma binv_set_public b b' : binv b -> set_public b = Some b' -> binv b'.
Proof.
  intros [Hwf Hact] Hrun. unfold set_public in Hrun.
  destruct (b_active b) as [s|] eqn:Ea.
  2:{ injection Hrun as <-. split; [assumption|]. rewrite Ea. assumption. }
  cbn [push fst snd b_nodes b_active] in Hrun. unfold patch in Hrun.
  cbn [b_nodes b_active] in Hrun. set (l := b_nodes b) in *.
  destruct Hact as (Hs & Honly & Hafter).
  pose proof (get_Some_lt _ _ _ Hs) as Hsl.
  set (e := len l) in *.
  replace (s <? len (l ++ [NEnd s])) with true in Hrun
    by (symmetry; apply N.ltb_lt; rewrite len_app, len_cons, len_nil; lia).
  injection Hrun as <-. unfold binv. cbn [b_nodes b_active].
  set (l' := set_nth (N.to_nat s) (NStart e) (l ++ [NEnd s])).
  assert (Hat_s : get l' s = Some (NStart e)).
  { apply get_set_nth_same. rewrite len_app, len_cons, len_nil. lia. }
  assert (Hat_e : get l' e = Some (NEnd s)).
  { unfold l'. rewrite get_set_nth_other by lia. apply get_snoc_len. }
  assert (Hold : forall j, j <> s -> j < e -> get l' j = get l j).
  { intros j Hj Hje. unfold l'. rewrite get_set_nth_other by assumption.
    apply get_app_l. assumption. }
  assert (Hbeyond : forall j, e < j -> get l' j = None).
  { intros j Hj. unfold l'. rewrite get_set_nth_other by lia.
    apply get_snoc_beyond. assumption. }
  assert (Hcases : forall j n, get l' j = Some n ->
            (j = s /\ n = NStart e) \/ (j = e /\ n = NEnd s)
            \/ (j <> s /\ j < e /\ get l j = Some n)).
  { intros j n Hg. destruct (N.eq_dec j s) as [->|Hjs].
    - left. rewrite Hat_s in Hg. injection Hg as <-. split; reflexivity.
    - destruct (N.lt_trichotomy j e) as [Hj | [-> | Hj]].
      + right. right. rewrite Hold in Hg by assumption. repeat split; assumption.
      + right. left. rewrite Hat_e in Hg. injection Hg as <-. split; reflexivity.
      + rewrite Hbeyond in Hg by assumption. discriminate. }
  split; [split|].
  - intros j e' Hg.
    destruct (Hcases _ _ Hg) as [[-> Heq] | [[-> Heq] | (Hjs & Hje & Hg')]];
      [injection Heq as -> | discriminate | ].
    + split; [assumption|]. split; [assumption|].
      intros k n Hk Hgk. rewrite Hold in Hgk by lia. eapply Hafter; [|eassumption]. lia.
    + destruct (zw_start _ Hwf _ _ Hg') as (Hlt & Hend & Hint).
      pose proof (get_Some_lt _ _ _ Hend) as He'.
      assert (He's : e' <> s) by (intros ->; rewrite Hs in Hend; discriminate).
      split; [assumption|]. split; [rewrite Hold by assumption; assumption|].
      intros k n Hk Hgk.
      destruct (N.eq_dec k s) as [->|Hks].
      * specialize (Hint s _ Hk Hs). discriminate.
      * rewrite Hold in Hgk by (try assumption; fold e in He'; lia). eapply Hint; eassumption.
  - intros j s' Hg.
    destruct (Hcases _ _ Hg) as [[-> Heq] | [[-> Heq] | (Hjs & Hje & Hg')]];
      [discriminate | injection Heq as -> | ].
    + split; assumption.
    + destruct (zw_end _ Hwf _ _ Hg') as (Hlt & Hs').
      assert (Hs's : s' <> s) by (intros ->; rewrite Hs in Hs'; discriminate).
      split; [assumption|]. rewrite Hold by (try assumption; lia). assumption.
  - cbn [active_ok]. intros j Hg.
    destruct (Hcases _ _ Hg) as [[_ Heq] | [[_ Heq] | (Hjs & _ & Hg')]]; try discriminate.
    apply Hjs, Honly, Hg'.
Qed.

Lemma binv_run_op b o b' :
  binv b -> op_ok b o = true -> run_op b o = Some b' -> binv b'.
Proof.
  intros Hinv Hok Hrun. destruct o as [n | i n | | ]; cbn [run_op op_ok] in *.
  - injection Hrun as <-. unfold binv. cbn [push fst b_nodes b_active].
    apply negb_true_iff in Hok. destruct Hinv as [Hwf Hact].
    pose proof (markers_agree_push (b_nodes b) n Hok) as Hag.
    split; [eapply zones_wf_agree|eapply active_ok_agree]; eassumption.
  - apply andb_true_iff in Hok. destruct Hok as [Hn Hold].
    apply negb_true_iff in Hn. unfold patch in Hrun.
    destruct (i <? len (b_nodes b)); [|discriminate]. injection Hrun as <-.
    unfold binv. cbn [b_nodes b_active]. destruct Hinv as [Hwf Hact].
    destruct (get (b_nodes b) i) as [o|] eqn:Ho; [|discriminate].
    assert (Hom : is_marker o = false) by (destruct o; try discriminate; reflexivity).
    pose proof (markers_agree_patch (b_nodes b) i n o Ho Hom Hn) as Hag.
    split; [eapply zones_wf_agree|eapply active_ok_agree]; eassumption.
  - injection Hrun as <-. apply binv_set_private, Hinv.
  - eapply binv_set_public; eassumption.
Qed.

Lemma binv_run_ops : forall ops b b',
  binv b -> ops_ok b ops = true -> run_ops b ops = Some b' -> binv b'.
Proof.
  induction ops as [|o ops IH]; intros b b' Hinv Hok Hrun; cbn [ops_ok run_ops] in *.
  - injection Hrun as <-. assumption.
  - apply andb_true_iff in Hok. destruct Hok as [Ho Hrest].
    destruct (run_op b o) as [b1|] eqn:E; [|discriminate].
    eapply IH; [eapply binv_run_op; eassumption|eassumption|eassumption].
Qed.

Lemma binv_empty : binv empty_buffer.
Proof.
  split; [split|]; cbn [b_nodes b_active empty_buffer active_ok]; intros;
    rewrite get_nil in *; discriminate.
Qed.

(* set_public never trips the `assert!(i < self.num_nodes)` of the patch *)
Lemma set_public_succeeds b : binv b -> exists b', set_public b = Some b'.
Proof.
  intros [_ Hact]. unfold set_public. destruct (b_active b) as [s|]; [|eauto].
  cbn [push fst snd b_nodes b_active]. unfold patch. cbn [b_nodes b_active].
  destruct Hact as (Hs & _). apply get_Some_lt in Hs.
  replace (s <? len (b_nodes b ++ [NEnd s])) with true; [eauto|].
  symmetry. apply N.ltb_lt. rewrite len_app, len_cons, len_nil. lia.
Qed.

(* Whatever the parser pushes and patches (never a marker), the markers written
   by set_private / set_public form properly paired, non-nested zones; an
   unterminated zone is the last one. *)
Theorem parse_buffer_zones_wf ops b :
  ops_ok empty_buffer ops = true -> run_ops empty_buffer ops = Some b ->
  zones_wf (b_nodes b)
  /\ match b_active b with
     | None => forall j, get (b_nodes b) j <> Some NEndless
     | Some s => get (b_nodes b) s = Some NEndless
                 /\ forall j n, s < j -> get (b_nodes b) j = Some n -> is_marker n = false
     end.
Proof.
  intros Hok Hrun. destruct (binv_run_ops _ _ _ binv_empty Hok Hrun) as [Hwf Hact].
  split; [assumption|]. destruct (b_active b) as [s|]; cbn [active_ok] in Hact; [|assumption].
  destruct Hact as (H1 & _ & H3). split; assumption.
Qed.

Corollary parse_buffer_header ops b :
  ops_ok empty_buffer ops = true -> run_ops empty_buffer ops = Some b ->
  build_header (b_nodes b) = Done (header_spec (b_nodes b)).
Proof.
  intros Hok Hrun. apply header_is_filter. eapply parse_buffer_zones_wf; eassumption.
Qed.

(* ---- examples ------------------------------------------------------------ *)

(* pub const A; const B; pub fn f(x) {..}; fn g() {}  -- see Model/Header.v *)
Example ex_nodes_value :
  ex_nodes =
  [NoMoreItems; NoMoreItems; NoMoreItems; NoMoreItems; NoMoreItems;
   P 41; P 27; NRef RItem 5; P 8; NFlags true 0; P 3;
   NStart 18; P 41; P 27; NRef RItem 12; P 8; NFlags false 0; P 3; NEnd 11;
   P 41; P 9; NRef RListItem 22; NoMoreItems; P 41; NImpl 39; NRef RItem 23;
   NRef RList 21; P 8; NFlags true 0; P 2;
   NStart 40; NoMoreItems; NoMoreItems; NRef RList 32; P 8; P 34; P 33;
   NRef RItem 36; NRef RList 31; P 6; NEnd 30;
   NEndless; NoMoreItems; P 41; NImpl 53; NRef RItem 43; NRef RList 42; P 8;
   NFlags false 0; P 2; NoMoreItems; NoMoreItems; NRef RList 50; P 6].
Proof. vm_compute. reflexivity. Qed.

Example ex_header :
  build_header ex_nodes = Done
  [NoMoreItems; NoMoreItems; NoMoreItems; NoMoreItems; NoMoreItems;
   P 41; P 27; NRef RItem 5; P 8; NFlags false 0; P 3;
   P 41; P 9; NRef RListItem 14; NoMoreItems; P 41; NoMoreItems; NRef RItem 15;
   NRef RList 13; P 8; NFlags false 0; P 2].
Proof. vm_compute. reflexivity. Qed.

Example ex_header_is_spec : build_header ex_nodes = Done (header_spec ex_nodes).
Proof. vm_compute. reflexivity. Qed.

(* the hypotheses of the theorems are satisfied by the example *)
Example ex_hypotheses :
  ops_ok empty_buffer ex_ops = true /\ zones_wfb ex_nodes = true
  /\ refs_localb ex_nodes = true.
Proof. vm_compute. repeat split. Qed.

Example ex_zones_wf : zones_wf ex_nodes /\ refs_local ex_nodes.
Proof.
  split; [apply zones_wfb_sound|apply refs_localb_sound]; vm_compute; reflexivity.
Qed.

Example ex_declarations :
  decl_indices ex_nodes = [10; 17; 29; 49]
  /\ filter (fun i => negb (privateb ex_nodes i)) (decl_indices ex_nodes) = [10; 29]
  /\ map (image ex_nodes) [10; 29] = [10; 21]
  /\ decl_indices (header_spec ex_nodes) = [10; 21].
Proof. vm_compute. repeat split. Qed.

Example ex_private_positions :
  map (privateb ex_nodes) [0; 10; 11; 18; 19; 29; 30; 40; 41; 53]
  = [false; false; true; true; false; false; true; true; true; true]
  /\ map (skipped_before ex_nodes) [10; 19; 29; 54] = [0; 8; 8; 32].
Proof. vm_compute. split; reflexivity. Qed.

(* an unterminated zone hides everything after it; a module with only private
   declarations has a header consisting of the padding *)
Example ex_all_private :
  build_header [NoMoreItems; NEndless; P 29; NFlags false 0; P 5] = Done [NoMoreItems].
Proof. vm_compute. reflexivity. Qed.

Print Assumptions header_is_filter.
Print Assumptions refs_preserved.
Print Assumptions bodies_removed.
Print Assumptions pub_flag_cleared.
Print Assumptions declarations_in_order.
Print Assumptions image_strictly_monotone.
Print Assumptions build_header_idempotent_on_public.
Print Assumptions build_header_idempotent.
Print Assumptions parse_buffer_zones_wf.
Print Assumptions zones_wfb_sound.
Print Assumptions refs_localb_sound.
