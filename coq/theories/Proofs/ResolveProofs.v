(* Proofs about Model/Resolve.v: the type gate of the resolver and of the call
   analyzer is sound for ANY annotations the typer may have produced. *)
From PV Require Import Base.Common Base.IR Gen.TypeTables Gen.ResolverTables Model.Resolve.

(* ---------- basics ---------- *)

Lemma vtype_eqb_eq a b : vtype_eqb a b = true <-> a = b.
Proof.
  destruct a as [p|i|i], b as [q|j|j]; cbn [vtype_eqb]; split; intros H; try discriminate.
  - apply prim_eqb_eq in H. now subst.
  - injection H as ->. now apply prim_eqb_eq.
  - apply N.eqb_eq in H. now subst.
  - injection H as ->. apply N.eqb_refl.
  - apply N.eqb_eq in H. now subst.
  - injection H as ->. apply N.eqb_refl.
Qed.

Lemma vtype_eqb_refl a : vtype_eqb a a = true.
Proof. now apply vtype_eqb_eq. Qed.

Lemma vtype_eqb_neq a b : vtype_eqb a b = false <-> a <> b.
Proof.
  rewrite <- vtype_eqb_eq. destruct (vtype_eqb a b); split; intros; congruence.
Qed.

Lemma operand_eqb_eq a b : operand_eqb a b = true <-> a = b.
Proof.
  destruct a as [p|], b as [q|]; cbn [operand_eqb]; split; intros H; try discriminate; try reflexivity.
  - apply prim_eqb_eq in H. now subst.
  - injection H as ->. now apply prim_eqb_eq.
Qed.

(* the closure of analyze_operand_type computes membership of the operand class *)
Lemma valid_operand_in_class t valid : valid_operand t valid = in_class t valid.
Proof.
  unfold valid_operand, in_class, mem_operand.
  induction valid as [|o rest IH]; cbn [existsb].
  - now destruct (operand_of t).
  - rewrite IH. destruct t as [p|i|i]; cbn [operand_of is_pointer]; destruct o as [q|];
      cbn [vtype_eqb operand_eqb]; try reflexivity.
    f_equal. destruct p, q; reflexivity.
Qed.

Lemma bind_ok {A B} (r : res A) (f : A -> res B) b :
  bind r f = Ok b -> exists a, r = Ok a /\ f a = Ok b.
Proof. destruct r as [a|es]; cbn [bind]; intros H; [eauto|discriminate]. Qed.

Lemma combine2_ok {A B} (a : res A) (b : res B) p :
  combine2 a b = Ok p -> a = Ok (fst p) /\ b = Ok (snd p).
Proof.
  destruct a as [x|es], b as [y|es']; cbn [combine2]; intros H; try discriminate.
  injection H as <-. now split.
Qed.

Lemma of_ann_ok amb a t : of_ann amb a = Ok t -> a = Some (ROk t).
Proof.
  destruct a as [[u|p]|]; cbn [of_ann]; intros H; try discriminate. now injection H as ->.
Qed.

Lemma analyze_operand_type_ok t valid u :
  analyze_operand_type t valid = Ok u -> u = t /\ in_class t valid = true.
Proof.
  unfold analyze_operand_type. rewrite valid_operand_in_class.
  destruct (in_class t valid); intros H; [|discriminate]. injection H as <-. now split.
Qed.

Lemma offset_class t : in_class t valid_types_for_offset = true -> t = VPrim Usize.
Proof. destruct t as [p|i|i]; [destruct p|..]; cbn; intros H; try discriminate; reflexivity. Qed.

(* the AdvancePointer branch of resolve_binary_op_type *)
Lemma advance_type_ok l r t :
  bind (get_type_of_operand r) (fun offset_type =>
  bind (analyze_operand_type offset_type valid_types_for_offset) (fun _ =>
  get_type_of_operand l)) = Ok t ->
  value_type l = Some (ROk t) /\ value_type r = Some (ROk (VPrim Usize)).
Proof.
  intros H. apply bind_ok in H as [ot [Hot H]]. apply bind_ok in H as [u [Hu H]].
  apply analyze_operand_type_ok in Hu as [_ Hu]. apply offset_class in Hu. subst ot.
  apply of_ann_ok in Hot. apply of_ann_ok in H. now split.
Qed.

Lemma match_type_ok l r t :
  match_type_of_operands l r = Ok t ->
  value_type l = Some (ROk t) /\ value_type r = Some (ROk t).
Proof.
  unfold match_type_of_operands.
  destruct (value_type l) as [[a|p]|], (value_type r) as [[b|q]|]; intros H; try discriminate.
  destruct (vtype_eqb b a) eqn:E; [|discriminate].
  injection H as <-. apply vtype_eqb_eq in E. now subst.
Qed.

(* ---------- induction over expressions with argument lists ---------- *)

Section texpr_ind2.
  Variable P : texpr -> Prop.
  Hypothesis HLeaf : forall k a, P (TLeaf k a).
  Hypothesis HPoison : forall p, P (TPoison p).
  Hypothesis HBin : forall op l r, P l -> P r -> P (TBinary op l r).
  Hypothesis HUn : forall op e, P e -> P (TUnary op e).
  Hypothesis HParen : forall e, P e -> P (TParen e).
  Hypothesis HAuto : forall e t, P e -> P (TAutocoerce e t).
  Hypothesis HCast : forall e t, P e -> P (TTypeCast e t).
  Hypothesis HBit : forall e a, P e -> P (TBitCast e a).
  Hypothesis HCall : forall f args a, Forall P args -> P (TCall f args a).
  Fixpoint texpr_ind2 (e : texpr) : P e :=
    match e with
    | TLeaf k a => HLeaf k a
    | TPoison p => HPoison p
    | TBinary op l r => HBin op l r (texpr_ind2 l) (texpr_ind2 r)
    | TUnary op x => HUn op x (texpr_ind2 x)
    | TParen x => HParen x (texpr_ind2 x)
    | TAutocoerce x t => HAuto x t (texpr_ind2 x)
    | TTypeCast x t => HCast x t (texpr_ind2 x)
    | TBitCast x a => HBit x a (texpr_ind2 x)
    | TCall f args a => HCall f args a ((fix go (l : list texpr) : Forall P l :=
                           match l with
                           | [] => Forall_nil P
                           | x :: xs => Forall_cons x (texpr_ind2 x) (go xs)
                           end) args)
    end.
End texpr_ind2.

Lemma resolve_list_ok f xs ys :
  resolve_list f xs = Ok ys -> Forall2 (fun x y => f x = Ok y) xs ys.
Proof.
  revert ys. induction xs as [|x rest IH]; intros ys; cbn [resolve_list].
  - intros H. injection H as <-. constructor.
  - destruct (f x) as [y|es] eqn:Ex, (resolve_list f rest) as [zs|es'] eqn:Er; intros H; try discriminate.
    injection H as <-. constructor; [assumption|now apply IH].
Qed.

(* ---------- 1. soundness ---------- *)

(* the resolved tree has the type the typed tree announced *)
Theorem resolve_type_agrees : forall e r,
  resolve_expr e = Ok r -> value_type e = Some (ROk (rtype r)).
Proof.
  induction e as [k a|p|op l r IHl IHr|op e IHe|e IHe|e t IHe|e t IHe|e a IHe|f args a IHargs]
    using texpr_ind2; intros res H; cbn [resolve_expr] in H; cbn [value_type].
  - apply bind_ok in H as [t [Ha H]]. injection H as <-. now apply of_ann_ok in Ha.
  - discriminate.
  - apply bind_ok in H as [lr [Hlr H]]. apply bind_ok in H as [t [Ht H]]. injection H as <-.
    cbn [rtype]. unfold resolve_binary_op_type in Ht.
    apply bind_ok in Ht as [vt [Hvt Ht]]. apply analyze_operand_type_ok in Ht as [-> _].
    destruct (is_advance op).
    + now apply advance_type_ok in Hvt.
    + now apply match_type_ok in Hvt.
  - apply bind_ok in H as [x' [Hx H]]. apply bind_ok in H as [t [Ht H]]. injection H as <-.
    cbn [rtype]. unfold resolve_unary_op_type in Ht.
    apply bind_ok in Ht as [vt [Hvt Ht]]. apply analyze_operand_type_ok in Ht as [-> _].
    now apply of_ann_ok in Hvt.
  - apply bind_ok in H as [x' [Hx H]]. injection H as <-. cbn [rtype]. now apply IHe.
  - apply bind_ok in H as [x' [Hx H]]. now injection H as <-.
  - apply bind_ok in H as [x' [Hx H]]. apply bind_ok in H as [et [Het H]].
    destruct et as [src|]; injection H as <-; [reflexivity|].
    unfold analyze_primitive_cast in Het. apply bind_ok in Het as [vt [Hvt Het]].
    apply of_ann_ok in Hvt. rewrite (IHe _ Hx) in Hvt. injection Hvt as <-.
    destruct (vtype_eqb (rtype x') t) eqn:E.
    + apply vtype_eqb_eq in E. now rewrite E.
    + destruct (prim_conversion (rtype x') t); discriminate.
  - apply bind_ok in H as [x' [Hx H]]. apply bind_ok in H as [ct [Hct H]]. injection H as <-.
    cbn [rtype]. unfold analyze_bit_cast in Hct.
    apply bind_ok in Hct as [vt [_ Hct]]. apply bind_ok in Hct as [ct' [Ha Hct]].
    apply of_ann_ok in Ha. destruct (is_valid_bit_cast vt ct'); [|discriminate].
    now injection Hct as <-.
  - apply bind_ok in H as [args' [_ H]]. apply bind_ok in H as [rt [Ha H]]. injection H as <-.
    now apply of_ann_ok in Ha.
Qed.

(* the assert!(from.is_some()) of the Autocoerce arm cannot fire *)
Corollary autocoerce_assert_holds e r : resolve_expr e = Ok r -> value_type e <> None.
Proof. intros H. rewrite (resolve_type_agrees _ _ H). discriminate. Qed.

Lemma binary_op_type_ok op l r l' r' t :
  resolve_expr l = Ok l' -> resolve_expr r = Ok r' ->
  resolve_binary_op_type op l r = Ok t ->
  rtype l' = t /\ rtype r' = (if is_advance op then VPrim Usize else t)
  /\ in_class t (binop_valid_types op) = true.
Proof.
  intros Hl Hr Ht. unfold resolve_binary_op_type in Ht.
  apply bind_ok in Ht as [vt [Hvt Ht]]. apply analyze_operand_type_ok in Ht as [-> Hc].
  apply resolve_type_agrees in Hl. apply resolve_type_agrees in Hr.
  destruct (is_advance op).
  - apply advance_type_ok in Hvt as [H1 H2]. rewrite Hl in H1. rewrite Hr in H2.
    injection H1 as ->. injection H2 as ->. auto.
  - apply match_type_ok in Hvt as [H1 H2]. rewrite Hl in H1. rewrite Hr in H2.
    injection H1 as ->. injection H2 as ->. auto.
Qed.

Lemma compared_type_ok op l r l' r' t :
  resolve_expr l = Ok l' -> resolve_expr r = Ok r' ->
  resolve_compared_type op l r = Ok t ->
  rtype l' = t /\ rtype r' = t /\ in_class t (cmpop_valid_types op) = true.
Proof.
  intros Hl Hr Ht. unfold resolve_compared_type in Ht.
  apply bind_ok in Ht as [vt [Hvt Ht]]. apply analyze_operand_type_ok in Ht as [-> Hc].
  apply resolve_type_agrees in Hl. apply resolve_type_agrees in Hr.
  apply match_type_ok in Hvt as [H1 H2]. rewrite Hl in H1. rewrite Hr in H2.
  injection H1 as ->. injection H2 as ->. auto.
Qed.

Theorem resolve_sound : forall e r, resolve_expr e = Ok r -> well_typed r = true.
Proof.
  induction e as [k a|p|op l r IHl IHr|op e IHe|e IHe|e t IHe|e t IHe|e a IHe|f args a IHargs]
    using texpr_ind2; intros res H; cbn [resolve_expr] in H.
  - apply bind_ok in H as [t [_ H]]. now injection H as <-.
  - discriminate.
  - apply bind_ok in H as [lr [Hlr H]]. apply bind_ok in H as [t [Ht H]]. injection H as <-.
    apply combine2_ok in Hlr as [Hl Hr].
    destruct (binary_op_type_ok _ _ _ _ _ _ Hl Hr Ht) as [H1 [H2 H3]].
    cbn [well_typed]. rewrite (IHl _ Hl), (IHr _ Hr), H3.
    now rewrite H1, H2, !vtype_eqb_refl.
  - apply bind_ok in H as [x' [Hx H]]. apply bind_ok in H as [t [Ht H]]. injection H as <-.
    unfold resolve_unary_op_type in Ht.
    apply bind_ok in Ht as [vt [Hvt Ht]]. apply analyze_operand_type_ok in Ht as [-> Hc].
    apply of_ann_ok in Hvt. rewrite (resolve_type_agrees _ _ Hx) in Hvt. injection Hvt as Hvt.
    cbn [well_typed]. now rewrite (IHe _ Hx), Hvt, vtype_eqb_refl, Hc.
  - apply bind_ok in H as [x' [Hx H]]. injection H as <-. cbn [well_typed]. now apply IHe.
  - apply bind_ok in H as [x' [Hx H]]. injection H as <-. cbn [well_typed]. now apply IHe.
  - apply bind_ok in H as [x' [Hx H]]. apply bind_ok in H as [et [Het H]].
    destruct et as [src|]; injection H as <-; [|now apply IHe].
    unfold analyze_primitive_cast in Het. apply bind_ok in Het as [vt [Hvt Het]].
    apply of_ann_ok in Hvt. rewrite (resolve_type_agrees _ _ Hx) in Hvt. injection Hvt as <-.
    destruct (vtype_eqb (rtype x') t); [discriminate|].
    destruct (prim_conversion (rtype x') t) eqn:Ec; [|discriminate]. injection Het as <-.
    cbn [well_typed]. now rewrite (IHe _ Hx), vtype_eqb_refl, Ec.
  - apply bind_ok in H as [x' [Hx H]]. apply bind_ok in H as [ct [Hct H]]. injection H as <-.
    unfold analyze_bit_cast in Hct.
    apply bind_ok in Hct as [vt [Hvt Hct]]. apply bind_ok in Hct as [ct' [_ Hct]].
    apply of_ann_ok in Hvt. rewrite (resolve_type_agrees _ _ Hx) in Hvt. injection Hvt as <-.
    destruct (is_valid_bit_cast (rtype x') ct') eqn:Eb; [|discriminate]. injection Hct as <-.
    cbn [well_typed]. now rewrite (IHe _ Hx), Eb.
  - apply bind_ok in H as [args' [Hargs H]]. apply bind_ok in H as [rt [_ H]]. injection H as <-.
    cbn [well_typed]. apply resolve_list_ok in Hargs.
    apply forallb_forall. intros y Hy.
    induction Hargs as [|x y0 xs ys Hxy _ IH]; [contradiction|].
    inversion IHargs as [|? ? HPx HPxs]; subst.
    destruct Hy as [<-|Hy]; [now apply HPx|now apply IH].
Qed.

Theorem resolve_cmp_sound : forall c r, resolve_cmp c = Ok r -> well_typed_cmp r = true.
Proof.
  intros [op l r] res H. cbn [resolve_cmp] in H.
  apply bind_ok in H as [lr [Hlr H]]. apply bind_ok in H as [t [Ht H]]. injection H as <-.
  apply combine2_ok in Hlr as [Hl Hr].
  destruct (compared_type_ok _ _ _ _ _ _ Hl Hr Ht) as [H1 [H2 H3]].
  cbn [well_typed_cmp]. rewrite (resolve_sound _ _ Hl), (resolve_sound _ _ Hr), H3.
  now rewrite H1, H2, vtype_eqb_refl.
Qed.

(* ---------- 2. rejection ---------- *)

(* How a node combines the verdict of its own check with its operands: the errors
   of the operands win, the error of the check is reported only when both
   operands resolve. *)
Definition node_errors2 (l r : texpr) (cs es : list code) : Prop :=
  (exists l' r', resolve_expr l = Ok l' /\ resolve_expr r = Ok r' /\ es = cs)
  \/ combine2 (resolve_expr l) (resolve_expr r) = Err es.

Definition node_errors1 (e : texpr) (cs es : list code) : Prop :=
  (exists e', resolve_expr e = Ok e' /\ es = cs) \/ resolve_expr e = Err es.

Lemma binary_rejected op l r cs :
  resolve_binary_op_type op l r = Err cs ->
  exists es, resolve_expr (TBinary op l r) = Err es /\ node_errors2 l r cs es.
Proof.
  intros H. cbn [resolve_expr]. rewrite H. unfold node_errors2.
  destruct (resolve_expr l) as [l'|e1], (resolve_expr r) as [r'|e2]; cbn [combine2 bind]; eauto 10.
Qed.

Lemma cmp_rejected op l r cs :
  resolve_compared_type op l r = Err cs ->
  exists es, resolve_cmp (TCmp op l r) = Err es /\ node_errors2 l r cs es.
Proof.
  intros H. cbn [resolve_cmp]. rewrite H. unfold node_errors2.
  destruct (resolve_expr l) as [l'|e1], (resolve_expr r) as [r'|e2]; cbn [combine2 bind]; eauto 10.
Qed.

Lemma unary_rejected op e cs :
  resolve_unary_op_type op e = Err cs ->
  exists es, resolve_expr (TUnary op e) = Err es /\ node_errors1 e cs es.
Proof.
  intros H. cbn [resolve_expr]. rewrite H. unfold node_errors1.
  destruct (resolve_expr e) as [e'|e1]; cbn [bind]; eauto 10.
Qed.

Lemma typecast_rejected e t cs :
  analyze_primitive_cast e t = Err cs ->
  exists es, resolve_expr (TTypeCast e t) = Err es /\ node_errors1 e cs es.
Proof.
  intros H. cbn [resolve_expr]. rewrite H. unfold node_errors1.
  destruct (resolve_expr e) as [e'|e1]; cbn [bind]; eauto 10.
Qed.

Lemma bitcast_rejected e a cs :
  analyze_bit_cast e a = Err cs ->
  exists es, resolve_expr (TBitCast e a) = Err es /\ node_errors1 e cs es.
Proof.
  intros H. cbn [resolve_expr]. rewrite H. unfold node_errors1.
  destruct (resolve_expr e) as [e'|e1]; cbn [bind]; eauto 10.
Qed.

Lemma match_type_mismatch l r a b :
  value_type l = Some (ROk a) -> value_type r = Some (ROk b) -> a <> b ->
  match_type_of_operands l r = Err [E551].
Proof.
  intros Hl Hr Hab. unfold match_type_of_operands. rewrite Hl, Hr.
  destruct (vtype_eqb b a) eqn:E; [|reflexivity]. apply vtype_eqb_eq in E. congruence.
Qed.

Lemma match_type_same l r a :
  value_type l = Some (ROk a) -> value_type r = Some (ROk a) ->
  match_type_of_operands l r = Ok a.
Proof.
  intros Hl Hr. unfold match_type_of_operands. now rewrite Hl, Hr, vtype_eqb_refl.
Qed.

(* both operands typed, the types differ: E551, unless an operand itself fails *)
Theorem mismatch_rejected op l r a b :
  is_advance op = false ->
  value_type l = Some (ROk a) -> value_type r = Some (ROk b) -> a <> b ->
  exists es, resolve_expr (TBinary op l r) = Err es /\ node_errors2 l r [E551] es.
Proof.
  intros Hop Hl Hr Hab. apply binary_rejected.
  unfold resolve_binary_op_type. rewrite Hop. now rewrite (match_type_mismatch l r a b).
Qed.

Theorem mismatch_rejected_cmp op l r a b :
  value_type l = Some (ROk a) -> value_type r = Some (ROk b) -> a <> b ->
  exists es, resolve_cmp (TCmp op l r) = Err es /\ node_errors2 l r [E551] es.
Proof.
  intros Hl Hr Hab. apply cmp_rejected.
  unfold resolve_compared_type. now rewrite (match_type_mismatch l r a b).
Qed.

(* equal operand types outside the operator's class: E550 *)
Theorem class_violation_rejected op l r a :
  is_advance op = false ->
  value_type l = Some (ROk a) -> value_type r = Some (ROk a) ->
  in_class a (binop_valid_types op) = false ->
  exists es, resolve_expr (TBinary op l r) = Err es /\ node_errors2 l r [E550] es.
Proof.
  intros Hop Hl Hr Hc. apply binary_rejected.
  unfold resolve_binary_op_type. rewrite Hop, (match_type_same l r a Hl Hr). cbn [bind].
  unfold analyze_operand_type. now rewrite valid_operand_in_class, Hc.
Qed.

(* AdvancePointer: the offset is checked first (it must be a usize), then the pointer *)
Theorem advance_offset_rejected l r b :
  value_type r = Some (ROk b) -> b <> VPrim Usize ->
  exists es, resolve_expr (TBinary AdvancePointer l r) = Err es /\ node_errors2 l r [E550] es.
Proof.
  intros Hr Hb. apply binary_rejected.
  unfold resolve_binary_op_type, get_type_of_operand. cbn [is_advance]. rewrite Hr. cbn [of_ann bind].
  unfold analyze_operand_type. rewrite valid_operand_in_class.
  destruct (in_class b valid_types_for_offset) eqn:E; [|reflexivity].
  apply offset_class in E. contradiction.
Qed.

Theorem class_violation_rejected_advance l r a :
  value_type r = Some (ROk (VPrim Usize)) ->
  value_type l = Some (ROk a) -> is_pointer a = false ->
  exists es, resolve_expr (TBinary AdvancePointer l r) = Err es /\ node_errors2 l r [E550] es.
Proof.
  intros Hr Hl Hp. apply binary_rejected.
  unfold resolve_binary_op_type, get_type_of_operand. cbn [is_advance]. rewrite Hr, Hl. cbn [of_ann bind].
  unfold analyze_operand_type. rewrite !valid_operand_in_class. cbn [bind].
  change (in_class (VPrim Usize) valid_types_for_offset) with true. cbn [bind].
  destruct a as [p|i|i]; try discriminate; reflexivity.
Qed.

Theorem class_violation_rejected_unary op e a :
  value_type e = Some (ROk a) -> in_class a (unop_valid_types op) = false ->
  exists es, resolve_expr (TUnary op e) = Err es /\ node_errors1 e [E550] es.
Proof.
  intros He Hc. apply unary_rejected.
  unfold resolve_unary_op_type, get_type_of_operand. rewrite He. cbn [of_ann bind].
  unfold analyze_operand_type. now rewrite valid_operand_in_class, Hc.
Qed.

Theorem class_violation_rejected_cmp op l r a :
  value_type l = Some (ROk a) -> value_type r = Some (ROk a) ->
  in_class a (cmpop_valid_types op) = false ->
  exists es, resolve_cmp (TCmp op l r) = Err es /\ node_errors2 l r [E550] es.
Proof.
  intros Hl Hr Hc. apply cmp_rejected.
  unfold resolve_compared_type. rewrite (match_type_same l r a Hl Hr). cbn [bind].
  unfold analyze_operand_type. now rewrite valid_operand_in_class, Hc.
Qed.

(* `as` between different types that is not in the conversion table: E552 *)
Theorem bad_cast_rejected e s t :
  value_type e = Some (ROk s) -> s <> t -> prim_conversion s t = false ->
  exists es, resolve_expr (TTypeCast e t) = Err es /\ node_errors1 e [E552] es.
Proof.
  intros He Hst Hc. apply typecast_rejected.
  unfold analyze_primitive_cast. rewrite He. cbn [of_ann bind].
  apply vtype_eqb_neq in Hst. now rewrite Hst, Hc.
Qed.

(* in particular every `as` from or to a non-primitive type *)
Corollary nonprimitive_cast_rejected e s t :
  value_type e = Some (ROk s) -> s <> t ->
  (forall p, s <> VPrim p) \/ (forall p, t <> VPrim p) ->
  exists es, resolve_expr (TTypeCast e t) = Err es /\ node_errors1 e [E552] es.
Proof.
  intros He Hst Hnp. apply (bad_cast_rejected e s t He Hst).
  destruct s as [p|i|i], t as [q|j|j]; try reflexivity.
  destruct Hnp as [H|H]; [now elim (H p)|now elim (H q)].
Qed.

Theorem bad_bitcast_rejected e s d :
  value_type e = Some (ROk s) -> is_valid_bit_cast s d = false ->
  exists es, resolve_expr (TBitCast e (Some (ROk d))) = Err es /\ node_errors1 e [E553] es.
Proof.
  intros He Hb. apply bitcast_rejected.
  unfold analyze_bit_cast. rewrite He. cbn [of_ann bind]. now rewrite Hb.
Qed.

(* An expression without a type never resolves.  (The E580 of the operator check
   is in fact never what is reported for an untyped operand: the operand itself
   fails with its own code, and operand errors win.) *)
Theorem ambiguous_rejected e : value_type e = None -> exists es, resolve_expr e = Err es.
Proof.
  intros H. destruct (resolve_expr e) as [r|es] eqn:E; [|eauto].
  apply resolve_type_agrees in E. congruence.
Qed.

Theorem ambiguous_leaf_code k : resolve_expr (TLeaf k None) = Err [ambiguity_code k].
Proof. reflexivity. Qed.

Theorem ambiguous_operand_rejected op l r :
  value_type l = None \/ value_type r = None ->
  exists es, resolve_expr (TBinary op l r) = Err es /\
             combine2 (resolve_expr l) (resolve_expr r) = Err es.
Proof.
  intros [H|H]; apply ambiguous_rejected in H as [es0 H]; cbn [resolve_expr]; rewrite H.
  - destruct (resolve_expr r); cbn [combine2 bind]; eauto.
  - destruct (resolve_expr l); cbn [combine2 bind]; eauto.
Qed.

(* nodes with an annotation of their own: E580 once the children resolve *)
Theorem ambiguous_bitcast_rejected e :
  exists es, resolve_expr (TBitCast e None) = Err es /\ node_errors1 e [E580] es.
Proof.
  unfold node_errors1. cbn [resolve_expr]. destruct (resolve_expr e) as [e'|es] eqn:E; cbn [bind]; [|eauto].
  unfold analyze_bit_cast. rewrite (resolve_type_agrees _ _ E). cbn [of_ann bind]. eauto 10.
Qed.

Theorem ambiguous_call_rejected f args :
  exists es, resolve_expr (TCall f args None) = Err es /\
    ((exists args', resolve_list resolve_expr args = Ok args' /\ es = [E580])
     \/ resolve_list resolve_expr args = Err es).
Proof.
  cbn [resolve_expr]. destruct (resolve_list resolve_expr args) as [args'|es]; cbn [bind of_ann]; eauto 10.
Qed.

(* a poisoned annotation rejects without a code of its own *)
Theorem poisoned_leaf_silent k : resolve_expr (TLeaf k (Some (RPoison Poisoned))) = Err [].
Proof. reflexivity. Qed.

(* ---------- errors are never dropped on the way up ---------- *)

Inductive child : texpr -> texpr -> Prop :=
| child_bin_l op l r : child l (TBinary op l r)
| child_bin_r op l r : child r (TBinary op l r)
| child_un op e : child e (TUnary op e)
| child_paren e : child e (TParen e)
| child_auto e t : child e (TAutocoerce e t)
| child_cast e t : child e (TTypeCast e t)
| child_bit e a : child e (TBitCast e a)
| child_call f args a x : In x args -> child x (TCall f args a).

Inductive subexpr : texpr -> texpr -> Prop :=
| sub_refl e : subexpr e e
| sub_step s m e : subexpr s m -> child m e -> subexpr s e.

Lemma resolve_list_err f xs x es :
  In x xs -> f x = Err es ->
  exists es', resolve_list f xs = Err es' /\ incl es es'.
Proof.
  induction xs as [|y rest IH]; intros Hin Hx; [contradiction|].
  cbn [resolve_list]. destruct Hin as [->|Hin].
  - rewrite Hx. destruct (resolve_list f rest) as [ys|more].
    + exists es. split; [reflexivity|apply incl_refl].
    + exists (es ++ more). split; [reflexivity|now apply incl_appl, incl_refl].
  - destruct (IH Hin Hx) as [es' [Hr Hi]]. rewrite Hr. destruct (f y) as [y'|e1].
    + exists es'. now split.
    + exists (e1 ++ es'). split; [reflexivity|now apply incl_appr].
Qed.

Lemma child_err m e es :
  child m e -> resolve_expr m = Err es ->
  exists es', resolve_expr e = Err es' /\ incl es es'.
Proof.
  intros Hc Hm. destruct Hc as [op l r|op l r|op e|e|e t|e t|e a|f args a x Hin];
    cbn [resolve_expr]; try (rewrite Hm; cbn [bind]; exists es; split; [reflexivity|apply incl_refl]).
  - rewrite Hm. destruct (resolve_expr r) as [r'|more]; cbn [combine2 bind].
    + exists es. split; [reflexivity|apply incl_refl].
    + exists (es ++ more). split; [reflexivity|now apply incl_appl, incl_refl].
  - rewrite Hm. destruct (resolve_expr l) as [l'|e1]; cbn [combine2 bind].
    + exists es. split; [reflexivity|apply incl_refl].
    + exists (e1 ++ es). split; [reflexivity|now apply incl_appr, incl_refl].
  - destruct (resolve_list_err resolve_expr args x es Hin Hm) as [es' [Hr Hi]].
    rewrite Hr. cbn [bind]. eauto.
Qed.

Theorem errors_propagate s e es :
  subexpr s e -> resolve_expr s = Err es ->
  exists es', resolve_expr e = Err es' /\ incl es es'.
Proof.
  intros Hs. revert es. induction Hs as [e|s m e Hsm IH Hc]; intros es Hes.
  - exists es. split; [assumption|apply incl_refl].
  - destruct (IH _ Hes) as [e1 [H1 I1]]. destruct (child_err _ _ _ Hc H1) as [e2 [H2 I2]].
    exists e2. split; [assumption|]. eapply incl_tran; eassumption.
Qed.

Corollary accepted_subexpr s e r :
  subexpr s e -> resolve_expr e = Ok r -> exists r', resolve_expr s = Ok r'.
Proof.
  intros Hs He. destruct (resolve_expr s) as [r'|es] eqn:E; [eauto|].
  destruct (errors_propagate _ _ _ Hs E) as [es' [H _]]. congruence.
Qed.

(* The property on the typed tree: in an accepted expression EVERY binary node,
   at any depth, has two operands of one and the same type, of the operator's class;
   every unary node an operand of the operator's class; every `as` is a type hint or
   a conversion of the table. *)
Theorem accepted_binary_nodes e r0 op l r :
  resolve_expr e = Ok r0 -> subexpr (TBinary op l r) e -> is_advance op = false ->
  exists t, value_type l = Some (ROk t) /\ value_type r = Some (ROk t)
            /\ in_class t (binop_valid_types op) = true.
Proof.
  intros He Hs Hop. destruct (accepted_subexpr _ _ _ Hs He) as [r' H].
  cbn [resolve_expr] in H. apply bind_ok in H as [lr [_ H]]. apply bind_ok in H as [t [Ht _]].
  unfold resolve_binary_op_type in Ht. rewrite Hop in Ht.
  apply bind_ok in Ht as [vt [Hvt Ht]]. apply analyze_operand_type_ok in Ht as [-> Hc].
  apply match_type_ok in Hvt as [H1 H2]. eauto.
Qed.

Theorem accepted_advance_nodes e r0 l r :
  resolve_expr e = Ok r0 -> subexpr (TBinary AdvancePointer l r) e ->
  value_type r = Some (ROk (VPrim Usize))
  /\ exists t, value_type l = Some (ROk t) /\ is_pointer t = true.
Proof.
  intros He Hs. destruct (accepted_subexpr _ _ _ Hs He) as [r' H].
  cbn [resolve_expr] in H. apply bind_ok in H as [lr [_ H]]. apply bind_ok in H as [t [Ht _]].
  unfold resolve_binary_op_type in Ht. cbn [is_advance] in Ht.
  apply bind_ok in Ht as [vt [Hvt Ht]]. apply analyze_operand_type_ok in Ht as [-> Hc].
  apply advance_type_ok in Hvt as [Hl Hr]. split; [assumption|]. exists vt. split; [assumption|].
  destruct vt as [p|i|i]; [destruct p; discriminate|reflexivity|discriminate].
Qed.

Theorem accepted_unary_nodes e r0 op x :
  resolve_expr e = Ok r0 -> subexpr (TUnary op x) e ->
  exists t, value_type x = Some (ROk t) /\ in_class t (unop_valid_types op) = true.
Proof.
  intros He Hs. destruct (accepted_subexpr _ _ _ Hs He) as [r' H].
  cbn [resolve_expr] in H. apply bind_ok in H as [x' [_ H]]. apply bind_ok in H as [t [Ht _]].
  unfold resolve_unary_op_type in Ht.
  apply bind_ok in Ht as [vt [Hvt Ht]]. apply analyze_operand_type_ok in Ht as [-> Hc].
  apply of_ann_ok in Hvt. eauto.
Qed.

Theorem accepted_cast_nodes e r0 x t :
  resolve_expr e = Ok r0 -> subexpr (TTypeCast x t) e ->
  exists s, value_type x = Some (ROk s) /\ (s = t \/ prim_conversion s t = true).
Proof.
  intros He Hs. destruct (accepted_subexpr _ _ _ Hs He) as [r' H].
  cbn [resolve_expr] in H. apply bind_ok in H as [x' [_ H]]. apply bind_ok in H as [et [Het _]].
  unfold analyze_primitive_cast in Het. apply bind_ok in Het as [vt [Hvt Het]].
  apply of_ann_ok in Hvt. exists vt. split; [assumption|].
  destruct (vtype_eqb vt t) eqn:E; [left; now apply vtype_eqb_eq|].
  destruct (prim_conversion vt t); [now right|discriminate].
Qed.

(* `as` with the type the operand already has is a type hint: no cast node *)
Theorem type_hint_generates_no_cast e t :
  value_type e = Some (ROk t) -> resolve_expr (TTypeCast e t) = resolve_expr e.
Proof.
  intros He. cbn [resolve_expr]. unfold analyze_primitive_cast. rewrite He. cbn [of_ann bind].
  rewrite vtype_eqb_refl. now destruct (resolve_expr e).
Qed.

Lemma prim_conversion_irrefl s : prim_conversion s s = false.
Proof. destruct s as [p|i|i]; [destruct p|..]; reflexivity. Qed.

Lemma prim_conversion_prims s d :
  prim_conversion s d = true -> exists a b, s = VPrim a /\ d = VPrim b /\ a <> b.
Proof.
  destruct s as [a|i|i], d as [b|j|j]; try discriminate. intros H. exists a, b. repeat split.
  intros ->. now rewrite (prim_conversion_irrefl (VPrim b)) in H.
Qed.

(* every cast node of a well typed tree converts between two DIFFERENT primitive types *)
Theorem well_typed_cast_nodes x src dst :
  well_typed (RPrimCast x src dst) = true ->
  exists a b, src = VPrim a /\ dst = VPrim b /\ a <> b /\ rtype x = src.
Proof.
  cbn [well_typed]. intros H.
  apply andb_prop in H as [H Hc]. apply andb_prop in H as [_ Ht].
  apply vtype_eqb_eq in Ht. destruct (prim_conversion_prims _ _ Hc) as [a [b [-> [-> Hab]]]]. eauto 10.
Qed.

(* ---------- 3. the generated tables are the documented type classes ---------- *)

Definition all_operands : list operand_type := OPointer :: map OPrim all_prims.
Definition all_unops : list unop := [Negative; BitwiseComplement].

Lemma all_operands_complete o : In o all_operands.
Proof. destruct o as [p|]; [right; apply in_map, all_prims_complete|now left]. Qed.
Lemma all_binops_complete op : In op all_binops.
Proof. destruct op; cbn; tauto. Qed.
Lemma all_unops_complete op : In op all_unops.
Proof. destruct op; cbn; tauto. Qed.
Lemma all_cmpops_complete op : In op all_cmpops.
Proof. destruct op; cbn; tauto. Qed.

Definition is_arith (op : binop) : bool :=
  match op with Add | Subtract | Multiply | Divide | Modulo => true | _ => false end.
Definition is_bitop (op : binop) : bool :=
  match op with BitwiseAnd | BitwiseOr | BitwiseXor | ShiftLeft | ShiftRight => true | _ => false end.
Definition is_equality (op : cmpop) : bool :=
  match op with Equals | DoesNotEqual => true | _ => false end.

(* the documented classes *)
Definition binop_class (op : binop) (o : operand_type) : bool :=
  match o with
  | OPointer => is_advance op                       (* AdvancePointer: pointers only *)
  | OPrim p =>
      if is_arith op then vt_is_integral p || prim_eqb p Char8   (* integers and char8 *)
      else if is_bitop op then vt_is_bitfield p                  (* fixed-width unsigned *)
      else false
  end.

Definition unop_class (op : unop) (o : operand_type) : bool :=
  match o, op with
  | OPointer, _ => false
  | OPrim p, Negative => vt_is_signed p
  | OPrim p, BitwiseComplement => vt_is_bitfield p || prim_eqb p Bool
  end.

Definition cmpop_class (op : cmpop) (o : operand_type) : bool :=
  match o with
  | OPointer => is_equality op      (* pointers: == and != only *)
  | OPrim _ => true                 (* every primitive type, bool included, is ordered *)
  end.

Definition conversion_spec (s d : prim) : bool :=
  negb (prim_eqb s d)
  && ((vt_is_integral s && vt_is_integral d)
      || (prim_eqb s Uint8 && prim_eqb d Char8)
      || (prim_eqb s Char8 && prim_eqb d Uint8)
      || (prim_eqb s Bool && vt_is_integral d)).

Definition conv (s d : prim) : bool :=
  is_valid_primitive_conversion s d (vt_is_integral s) (vt_is_integral d).

Definition tables_check : bool :=
  forallb (fun op => forallb (fun o =>
     Bool.eqb (mem_operand o (binop_valid_types op)) (binop_class op o)) all_operands) all_binops
  && forallb (fun op => forallb (fun o =>
     Bool.eqb (mem_operand o (unop_valid_types op)) (unop_class op o)) all_operands) all_unops
  && forallb (fun op => forallb (fun o =>
     Bool.eqb (mem_operand o (cmpop_valid_types op)) (cmpop_class op o)) all_operands) all_cmpops
  && forallb (fun s => forallb (fun d =>
     Bool.eqb (conv s d) (conversion_spec s d)
     && implb (conv s d) (mem_prim s valid_primitive_types && mem_prim d valid_primitive_types))
     all_prims) all_prims
  && forallb (fun s => negb (conv s s)) all_prims.

Lemma tables_check_true : tables_check = true.
Proof. vm_compute. reflexivity. Qed.

Theorem class_tables_ok :
  (forall op o, mem_operand o (binop_valid_types op) = binop_class op o)
  /\ (forall op o, mem_operand o (unop_valid_types op) = unop_class op o)
  /\ (forall op o, mem_operand o (cmpop_valid_types op) = cmpop_class op o)
  /\ (forall s d, conv s d = conversion_spec s d)
  /\ (forall s d, conv s d = true ->
        mem_prim s valid_primitive_types = true /\ mem_prim d valid_primitive_types = true)
  /\ (forall s, conv s s = false).
Proof.
  pose proof tables_check_true as H. unfold tables_check in H.
  apply andb_prop in H as [H Hi]. apply andb_prop in H as [H Hv].
  apply andb_prop in H as [H Hc]. apply andb_prop in H as [Hb Hu].
  assert (Hv' : forall s d, Bool.eqb (conv s d) (conversion_spec s d) = true
            /\ implb (conv s d) (mem_prim s valid_primitive_types && mem_prim d valid_primitive_types) = true).
  { intros s d. rewrite forallb_forall in Hv. specialize (Hv s (all_prims_complete s)).
    rewrite forallb_forall in Hv. specialize (Hv d (all_prims_complete d)).
    now apply andb_prop in Hv. }
  split; [|split; [|split; [|split; [|split]]]].
  - intros op o. rewrite forallb_forall in Hb. specialize (Hb op (all_binops_complete op)).
    rewrite forallb_forall in Hb. now apply eqb_prop, Hb, all_operands_complete.
  - intros op o. rewrite forallb_forall in Hu. specialize (Hu op (all_unops_complete op)).
    rewrite forallb_forall in Hu. now apply eqb_prop, Hu, all_operands_complete.
  - intros op o. rewrite forallb_forall in Hc. specialize (Hc op (all_cmpops_complete op)).
    rewrite forallb_forall in Hc. now apply eqb_prop, Hc, all_operands_complete.
  - intros s d. now apply eqb_prop, Hv'.
  - intros s d Hsd. destruct (Hv' s d) as [_ Hm]. rewrite Hsd in Hm. cbn [implb] in Hm.
    now apply andb_prop in Hm.
  - intros s. rewrite forallb_forall in Hi. specialize (Hi s (all_prims_complete s)).
    now apply negb_true_iff.
Qed.

Theorem offset_table_ok o : mem_operand o valid_types_for_offset = operand_eqb o (OPrim Usize).
Proof. destruct o as [p|]; [destruct p|]; reflexivity. Qed.

(* the classes, read on value types *)
Corollary in_class_binop op t :
  in_class t (binop_valid_types op) =
  match t with
  | VPrim p => if is_arith op then vt_is_integral p || prim_eqb p Char8
               else if is_bitop op then vt_is_bitfield p else false
  | VPointer _ => is_advance op
  | VOther _ => false
  end.
Proof.
  destruct class_tables_ok as [Hb _]. unfold in_class.
  destruct t as [p|i|i]; cbn [operand_of]; [now rewrite Hb|now rewrite Hb|reflexivity].
Qed.

Corollary in_class_cmpop op t :
  in_class t (cmpop_valid_types op) =
  match t with VPrim _ => true | VPointer _ => is_equality op | VOther _ => false end.
Proof.
  destruct class_tables_ok as [_ [_ [Hc _]]]. unfold in_class.
  destruct t as [p|i|i]; cbn [operand_of]; [now rewrite Hc|now rewrite Hc|reflexivity].
Qed.

(* ---------- 4. the call check ---------- *)

Section call_proofs.
  Variable addr_hint : vtype -> vtype -> bool.

  (* what use_function compares: a typed argument against a typed parameter whose
     name is not poisoned *)
  Definition arg_ok (p : param) (x : arg) : Prop :=
    forall pt at_, p_type p = ROk pt -> a_type x = Some (ROk at_) -> p_named p = true -> pt = at_.

  Lemma check_args_nil_iff ps xs :
    length xs = length ps ->
    (check_args addr_hint ps xs = [] <-> Forall2 arg_ok ps xs).
  Proof.
    revert xs. induction ps as [|p ps IH]; intros [|x xs] Hlen; try discriminate; cbn [check_args].
    - split; [constructor|reflexivity].
    - injection Hlen as Hlen. specialize (IH xs Hlen).
      destruct (p_type p) as [pt|pp] eqn:Ep.
      2:{ rewrite IH. split.
          - intros H. constructor; [|assumption]. intros ? ? Hc. congruence.
          - intros H. now inversion H. }
      destruct (a_type x) as [[at_|ap]|] eqn:Ea.
      2,3: rewrite IH; split; [intros H; constructor; [|assumption]; intros ? ? _ Hc; congruence
                             |intros H; now inversion H].
      destruct (vtype_eqb pt at_) eqn:E; cbn [negb andb].
      + apply vtype_eqb_eq in E. rewrite IH. split.
        * intros H. constructor; [|assumption]. intros ? ? H1 H2 _. congruence.
        * intros H. now inversion H.
      + apply vtype_eqb_neq in E. destruct (p_named p) eqn:En.
        * split.
          -- destruct (a_deref x && addr_hint at_ pt); discriminate.
          -- intros H. inversion H as [|? ? ? ? Hok _]; subst. elim E. now apply Hok.
        * rewrite IH. split.
          -- intros H. constructor; [|assumption]. intros ? ? _ _ Hc. congruence.
          -- intros H. now inversion H.
  Qed.

  Lemma check_args_codes ps xs :
    check_args addr_hint ps xs = [] \/ check_args addr_hint ps xs = [E512]
    \/ check_args addr_hint ps xs = [E513].
  Proof.
    revert xs. induction ps as [|p ps IH]; intros [|x xs]; cbn [check_args]; auto.
    destruct (p_type p) as [pt|pp]; [|apply IH].
    destruct (a_type x) as [[at_|ap]|]; try apply IH.
    destruct (negb (vtype_eqb pt at_) && p_named p); [|apply IH].
    destruct (a_deref x && addr_hint at_ pt); auto.
  Qed.

  (* E513 is E512 with a hint: only for a Deref argument whose address would fit *)
  Lemma check_args_E513 ps xs :
    check_args addr_hint ps xs = [E513] ->
    exists p x pt at_, In p ps /\ In x xs /\ p_type p = ROk pt /\ a_type x = Some (ROk at_)
                       /\ pt <> at_ /\ a_deref x = true /\ addr_hint at_ pt = true.
  Proof.
    revert xs. induction ps as [|p ps IH]; intros [|x xs]; cbn [check_args]; try discriminate.
    assert (Hrec : check_args addr_hint ps xs = [E513] ->
       exists p0 x0 pt at_, In p0 (p :: ps) /\ In x0 (x :: xs) /\ p_type p0 = ROk pt
         /\ a_type x0 = Some (ROk at_) /\ pt <> at_ /\ a_deref x0 = true /\ addr_hint at_ pt = true).
    { intros H. destruct (IH xs H) as [p0 [x0 [pt [at_ [H1 [H2 H3]]]]]].
      exists p0, x0, pt, at_. split; [now right|]. split; [now right|assumption]. }
    destruct (p_type p) as [pt|pp] eqn:Ep; [|assumption].
    destruct (a_type x) as [[at_|ap]|] eqn:Ea; try assumption.
    destruct (vtype_eqb pt at_) eqn:E; cbn [negb andb]; [assumption|].
    destruct (p_named p); [|assumption].
    destruct (a_deref x) eqn:Ed; cbn [andb]; [|discriminate].
    destruct (addr_hint at_ pt) eqn:Eh; [|discriminate]. intros _.
    apply vtype_eqb_neq in E. exists p, x, pt, at_. repeat split; auto; now left.
  Qed.

  Theorem check_call_too_few ps xs :
    (length xs < length ps)%nat <-> check_call_gen addr_hint ps xs = [E510].
  Proof.
    unfold check_call_gen. destruct (Nat.ltb_spec (length xs) (length ps)) as [H|H].
    - tauto.
    - split; [lia|]. destruct (Nat.ltb (length ps) (length xs)); [discriminate|].
      destruct (check_args_codes ps xs) as [E|[E|E]]; rewrite E; discriminate.
  Qed.

  Theorem check_call_too_many ps xs :
    (length ps < length xs)%nat <-> check_call_gen addr_hint ps xs = [E511].
  Proof.
    unfold check_call_gen. destruct (Nat.ltb_spec (length xs) (length ps)) as [H|H].
    - split; [lia|discriminate].
    - destruct (Nat.ltb_spec (length ps) (length xs)) as [H'|H']; [tauto|].
      split; [lia|]. destruct (check_args_codes ps xs) as [E|[E|E]]; rewrite E; discriminate.
  Qed.

  (* at most ONE code per call: the loop returns at the first reported mismatch *)
  Theorem check_call_codes ps xs :
    check_call_gen addr_hint ps xs = [] \/
    exists c, check_call_gen addr_hint ps xs = [c] /\ In c [E510; E511; E512; E513].
  Proof.
    unfold check_call_gen.
    destruct (Nat.ltb (length xs) (length ps)); [right; exists E510; cbn; auto|].
    destruct (Nat.ltb (length ps) (length xs)); [right; exists E511; cbn; auto|].
    destruct (check_args_codes ps xs) as [E|[E|E]]; rewrite E; [now left|right..].
    - exists E512. cbn. auto.
    - exists E513. cbn. auto 6.
  Qed.

  Theorem check_call_gen_sound ps xs :
    check_call_gen addr_hint ps xs = [] <-> length xs = length ps /\ Forall2 arg_ok ps xs.
  Proof.
    unfold check_call_gen.
    destruct (Nat.ltb_spec (length xs) (length ps)) as [H|H]; [split; [discriminate|lia]|].
    destruct (Nat.ltb_spec (length ps) (length xs)) as [H'|H']; [split; [discriminate|lia]|].
    assert (Hlen : length xs = length ps) by lia.
    rewrite (check_args_nil_iff ps xs Hlen). tauto.
  Qed.

  Theorem check_call_mismatch ps xs :
    length xs = length ps -> ~ Forall2 arg_ok ps xs ->
    check_call_gen addr_hint ps xs = [E512] \/ check_call_gen addr_hint ps xs = [E513].
  Proof.
    intros Hlen Hn. unfold check_call_gen. rewrite Hlen, Nat.ltb_irrefl.
    destruct (check_args_codes ps xs) as [E|[E|E]]; auto.
    elim Hn. now apply (check_args_nil_iff ps xs Hlen).
  Qed.

  (* a rejected call becomes a poison expression; the resolver reports exactly its code *)
  Theorem analyze_call_rejected ps f args a c cs :
    check_call_gen addr_hint ps (map arg_of args) = c :: cs ->
    resolve_expr (analyze_call addr_hint ps f args a) = Err [c].
  Proof. intros H. unfold analyze_call. now rewrite H. Qed.

  Theorem analyze_call_accepted ps f args a :
    check_call_gen addr_hint ps (map arg_of args) = [] ->
    analyze_call addr_hint ps f args a = TCall f args a.
  Proof. intros H. unfold analyze_call. now rewrite H. Qed.
End call_proofs.

(* fully typed calls: the argument types must be IDENTICAL to the parameter types *)
Theorem check_call_sound params args :
  check_call params args = [] <-> args = params.
Proof.
  unfold check_call. rewrite check_call_gen_sound. rewrite !map_length. split.
  - intros [Hlen HF]. revert args Hlen HF.
    induction params as [|p ps IH]; intros [|x xs] Hlen HF; try discriminate; [reflexivity|].
    cbn [map] in HF. inversion HF as [|? ? ? ? Hok Hrest]; subst.
    injection Hlen as Hlen. f_equal; [|now apply IH].
    symmetry. now apply (Hok p x).
  - intros ->. split; [reflexivity|].
    induction params as [|p ps IH]; cbn [map]; constructor; [|assumption].
    intros pt at_ H1 H2 _. cbn in H1, H2. congruence.
Qed.

Theorem check_call_arity params args :
  ((length args < length params)%nat <-> check_call params args = [E510])
  /\ ((length params < length args)%nat <-> check_call params args = [E511]).
Proof.
  unfold check_call. split.
  - rewrite <- check_call_too_few. now rewrite !map_length.
  - rewrite <- check_call_too_many. now rewrite !map_length.
Qed.

Theorem check_call_type_mismatch params args :
  length args = length params -> args <> params -> check_call params args = [E512].
Proof.
  intros Hlen Hne. unfold check_call.
  destruct (check_call_mismatch (fun _ _ => false)
              (map (fun t => mk_param true (ROk t)) params)
              (map (fun t => mk_arg false (Some (ROk t))) args)) as [E|E].
  - now rewrite !map_length.
  - intros HF. apply Hne. apply check_call_sound. unfold check_call.
    apply check_call_gen_sound. now rewrite !map_length.
  - assumption.
  - unfold check_call_gen in E. rewrite !map_length, Hlen, Nat.ltb_irrefl in E.
    apply check_args_E513 in E as [p [x [pt [at_ [_ [Hx [_ [_ [_ [Hd _]]]]]]]]]].
    apply in_map_iff in Hx as [t [<- _]]. discriminate.
Qed.

(* The coercion relation lives in the TYPER, not in use_function: an argument that
   coerces is wrapped in Autocoerce, whose type is the parameter type.  Together: *)
Section gate.
  Variable addr_hint : vtype -> vtype -> bool.
  Variable coerces : vtype -> vtype -> bool.

  Lemma hint_arg_type e p :
    value_type (hint_arg coerces e (Some (ROk p))) =
    match value_type e with
    | Some (ROk vt) => if vtype_eqb vt p then Some (ROk vt)
                       else if coerces vt p then Some (ROk p) else Some (ROk vt)
    | other => other
    end.
  Proof.
    unfold hint_arg. destruct (value_type e) as [[vt|q]|] eqn:E; try assumption.
    destruct (vtype_eqb vt p); [assumption|]. destruct (coerces vt p); [reflexivity|assumption].
  Qed.

  Theorem call_gate_sound params args :
    check_call_gen addr_hint (map (fun t => mk_param true (ROk t)) params)
                   (map arg_of (hint_args coerces (map ROk params) args)) = [] ->
    length args = length params
    /\ Forall2 (fun e p => forall vt, value_type e = Some (ROk vt) -> vt = p \/ coerces vt p = true)
               args params.
  Proof.
    rewrite check_call_gen_sound. rewrite !map_length. intros [Hlen HF].
    revert params Hlen HF. induction args as [|e rest IH]; intros [|p ps] Hlen HF; try discriminate.
    - split; [reflexivity|constructor].
    - cbn [map hint_args] in *. injection Hlen as Hlen.
      inversion HF as [|? ? ? ? Hok Hrest]; subst.
      destruct (IH ps Hlen Hrest) as [Hl HF']. split; [cbn [length]; now rewrite Hl|].
      constructor; [|assumption]. intros vt Hvt.
      specialize (Hok p). cbn [p_type p_named arg_of a_type] in Hok.
      rewrite hint_arg_type, Hvt in Hok.
      destruct (vtype_eqb vt p) eqn:E; [left; now apply vtype_eqb_eq|].
      destruct (coerces vt p) eqn:Ec; [now right|].
      left. symmetry. now apply (Hok vt).
  Qed.

  (* under the reflexivity reading of the task statement *)
  Corollary call_gate_sound_refl params args :
    (forall t, coerces t t = true) ->
    check_call_gen addr_hint (map (fun t => mk_param true (ROk t)) params)
                   (map arg_of (hint_args coerces (map ROk params) args)) = [] ->
    length args = length params
    /\ Forall2 (fun e p => forall vt, value_type e = Some (ROk vt) -> coerces vt p = true) args params.
  Proof.
    intros Hrefl H. destruct (call_gate_sound params args H) as [Hl HF]. split; [assumption|].
    clear H Hl. induction HF as [|e p es ps Hep _ IH]; constructor; [|assumption].
    intros vt Hvt. destruct (Hep vt Hvt) as [->|Hc]; [apply Hrefl|assumption].
  Qed.
End gate.

(* ---------- the codes are those of Error::code (generated table) ---------- *)

From PV Require Gen.Codes.
From Coq Require Import String.

Example codes_match :
  forallb (fun nc => existsb (fun e => String.eqb (fst e) (fst nc) && N.eqb (snd e) (snd nc)) Gen.Codes.codes)
    [("TooFewArguments"%string, E510); ("TooManyArguments"%string, E511);
     ("ArgumentTypeMismatch"%string, E512); ("ArgumentMissingAddress"%string, E513);
     ("InvalidOperandType"%string, E550); ("MismatchedOperandTypes"%string, E551);
     ("InvalidPrimitiveConversion"%string, E552); ("InvalidBitCast"%string, E553);
     ("AmbiguousType"%string, E580); ("AmbiguousTypeOfNakedIntegerLiteral"%string, E582);
     ("AmbiguousTypeOfArrayLiteral"%string, E583)] = true.
Proof. vm_compute. reflexivity. Qed.

(* ---------- examples ---------- *)

Definition lf (p : prim) : texpr := TLeaf LDeref (Some (ROk (VPrim p))).
Definition lt (t : vtype) : texpr := TLeaf LDeref (Some (ROk t)).
Definition naked : texpr := TLeaf LInteger None.
Definition PTR := VPointer 1%N.
Definition STRUCT := VOther 9%N.

(* ((a + (b * c)) as i64) + f(x as u8, cast p), all i32 / i64 *)
Definition accepted_tree : texpr :=
  TBinary Add
    (TTypeCast (TParen (TBinary Add (lf Int32) (TBinary Multiply (lf Int32) (lf Int32)))) (VPrim Int64))
    (TCall 5%N [TTypeCast (lf Uint8) (VPrim Uint8); TBitCast (lt PTR) (Some (ROk (VPointer 2%N)))]
           (Some (ROk (VPrim Int64)))).

Example accepted_tree_ok :
  resolve_expr accepted_tree =
  Ok (RBinary Add
        (RPrimCast (RParen (RBinary Add (RLeaf (VPrim Int32))
                              (RBinary Multiply (RLeaf (VPrim Int32)) (RLeaf (VPrim Int32)) (VPrim Int32))
                              (VPrim Int32))) (VPrim Int32) (VPrim Int64))
        (RCall 5%N [RLeaf (VPrim Uint8); RBitCast (RLeaf PTR) (VPointer 2%N)] (VPrim Int64))
        (VPrim Int64)).
Proof. vm_compute. reflexivity. Qed.

Example ex_mismatch : resolve_expr (TBinary Add (lf Int32) (lf Int64)) = Err [E551].
Proof. vm_compute. reflexivity. Qed.
Example ex_mismatch_cmp : resolve_cmp (TCmp Equals (lf Int32) (lf Uint32)) = Err [E551].
Proof. vm_compute. reflexivity. Qed.
Example ex_class_bool_add : resolve_expr (TBinary Add (lf Bool) (lf Bool)) = Err [E550].
Proof. vm_compute. reflexivity. Qed.
Example ex_class_signed_and : resolve_expr (TBinary BitwiseAnd (lf Int32) (lf Int32)) = Err [E550].
Proof. vm_compute. reflexivity. Qed.
Example ex_class_usize_shift : resolve_expr (TBinary ShiftLeft (lf Usize) (lf Usize)) = Err [E550].
Proof. vm_compute. reflexivity. Qed.
Example ex_class_neg_unsigned : resolve_expr (TUnary Negative (lf Uint8)) = Err [E550].
Proof. vm_compute. reflexivity. Qed.
Example ex_class_ptr_less : resolve_cmp (TCmp IsLess (lt PTR) (lt PTR)) = Err [E550].
Proof. vm_compute. reflexivity. Qed.
Example ex_ptr_equal_ok :
  resolve_cmp (TCmp Equals (lt PTR) (lt PTR)) = Ok (RCmp Equals (RLeaf PTR) (RLeaf PTR) PTR).
Proof. vm_compute. reflexivity. Qed.
Example ex_class_struct_equal : resolve_cmp (TCmp Equals (lt STRUCT) (lt STRUCT)) = Err [E550].
Proof. vm_compute. reflexivity. Qed.
Example ex_class_advance_nonpointer :
  resolve_expr (TBinary AdvancePointer (lf Usize) (lf Usize)) = Err [E550].
Proof. vm_compute. reflexivity. Qed.
Example ex_bad_cast_char : resolve_expr (TTypeCast (lf Char8) (VPrim Int32)) = Err [E552].
Proof. vm_compute. reflexivity. Qed.
Example ex_bad_cast_to_bool : resolve_expr (TTypeCast (lf Int32) (VPrim Bool)) = Err [E552].
Proof. vm_compute. reflexivity. Qed.
Example ex_bad_cast_struct : resolve_expr (TTypeCast (lt STRUCT) (VPrim Int32)) = Err [E552].
Proof. vm_compute. reflexivity. Qed.
Example ex_bad_cast_pointer : resolve_expr (TTypeCast (lt PTR) (VPointer 2%N)) = Err [E552].
Proof. vm_compute. reflexivity. Qed.
Example ex_bad_bitcast : resolve_expr (TBitCast (lf Int32) (Some (ROk (VPrim Uint32)))) = Err [E553].
Proof. vm_compute. reflexivity. Qed.
Example ex_ambiguous_literal : resolve_expr (TBinary Add naked naked) = Err [E582; E582].
Proof. vm_compute. reflexivity. Qed.
Example ex_ambiguous_call : resolve_expr (TCall 1%N [lf Int32] None) = Err [E580].
Proof. vm_compute. reflexivity. Qed.
Example ex_poisoned_silent :
  resolve_expr (TBinary Add (lf Int32) (TPoison Poisoned)) = Err [].
Proof. vm_compute. reflexivity. Qed.
Example ex_call_rejected :
  resolve_expr (analyze_call (fun _ _ => false) [mk_param true (ROk (VPrim Int32))] 1%N
                  [lf Int64] (Some (ROk (VPrim Int32)))) = Err [E512].
Proof. vm_compute. reflexivity. Qed.
Example ex_call_missing_address :
  check_call_gen (fun _ _ => true) [mk_param true (ROk PTR)] [arg_of (lt STRUCT)] = [E513].
Proof. vm_compute. reflexivity. Qed.
Example ex_call_arity :
  check_call [VPrim Int32; VPrim Int32] [VPrim Int32] = [E510]
  /\ check_call [VPrim Int32] [VPrim Int32; VPrim Int32] = [E511]
  /\ check_call [VPrim Int32] [VPrim Int64] = [E512]
  /\ check_call [VPrim Int32; PTR] [VPrim Int32; PTR] = [].
Proof. vm_compute. repeat split. Qed.

(* hypotheses of the rejection theorems are satisfiable *)
Example mismatch_rejected_instance :
  exists es, resolve_expr (TBinary Add (lf Int32) (lf Int64)) = Err es /\
             node_errors2 (lf Int32) (lf Int64) [E551] es.
Proof. apply (mismatch_rejected Add _ _ (VPrim Int32) (VPrim Int64)); try reflexivity. discriminate. Qed.

(* ---------- surprises, as refutations / witnesses ---------- *)

(* S1. PINNED commit: AdvancePointer never looked at its RIGHT operand.  `&p .. true`
   and `&p .. &p` passed the gate (witnesses exp/a.pn, exp/b.pn: the pinned compiler
   emitted `getelementptr i32, i32* %1, i1 %2` for the first and aborted inside LLVM
   with "GEP indexes must be integers" for the second).  Repaired: the offset must
   be a usize (advance_offset_rejected, resolve_sound). *)
Theorem strict_soundness_refuted :
  exists op l r res, resolve_binary_pinned op l r = Ok res /\ well_typed res = false.
Proof.
  exists AdvancePointer, (lt PTR), (lf Bool). eexists. split; vm_compute; reflexivity.
Qed.

Example advance_pointer_by_pointer_accepted_pinned :
  resolve_binary_pinned AdvancePointer (lt PTR) (lt PTR)
  = Ok (RBinary AdvancePointer (RLeaf PTR) (RLeaf PTR) PTR).
Proof. vm_compute. reflexivity. Qed.

Example advance_pointer_by_pointer_rejected :
  resolve_expr (TBinary AdvancePointer (lt PTR) (lt PTR)) = Err [E550]
  /\ resolve_expr (TBinary AdvancePointer (lt PTR) (lf Bool)) = Err [E550]
  /\ resolve_expr (TBinary AdvancePointer (lt PTR) (lf Int8)) = Err [E550].
Proof. vm_compute. repeat split. Qed.

Example advance_pointer_by_usize_accepted :
  resolve_expr (TBinary AdvancePointer (lt PTR) (lf Usize))
  = Ok (RBinary AdvancePointer (RLeaf PTR) (RLeaf (VPrim Usize)) PTR).
Proof. vm_compute. reflexivity. Qed.

(* outside AdvancePointer the pinned check and the current one coincide *)
Lemma pinned_same_elsewhere op l r :
  is_advance op = false -> resolve_binary_pinned op l r = resolve_expr (TBinary op l r).
Proof.
  intros H. unfold resolve_binary_pinned, resolve_binary_op_type_pinned.
  cbn [resolve_expr]. unfold resolve_binary_op_type. now rewrite H.
Qed.

(* the offset error comes first: a non-usize offset next to a non-pointer gives ONE E550 *)
Example advance_offset_checked_first :
  resolve_expr (TBinary AdvancePointer (lf Int32) (lf Bool)) = Err [E550].
Proof. vm_compute. reflexivity. Qed.

(* S2. the errors of the operands hide the error of the node: here the outer
   mismatch i32 + i64 is not reported (E551 is absent), only the inner E582 *)
Example mismatch_hidden_by_operand_error :
  resolve_expr (TBinary Add (TBinary Add (lf Int32) naked) (lf Int64)) = Err [E582].
Proof. vm_compute. reflexivity. Qed.

(* S3. value_type of a Binary is the type of its LEFT operand alone; what the
   parent sees for `i32 + i64` is i32 (the node itself is rejected, so no harm) *)
Example binary_value_type_is_left :
  value_type (TBinary Add (lf Int32) (lf Int64)) = Some (ROk (VPrim Int32)).
Proof. reflexivity. Qed.

(* S4. Autocoerce nodes are trusted: the gate accepts any coercion the typer wrote *)
Example autocoerce_unchecked :
  resolve_expr (TAutocoerce (lf Bool) STRUCT) = Ok (RAutocoerce (RLeaf (VPrim Bool)) STRUCT).
Proof. vm_compute. reflexivity. Qed.

(* S5. ordering comparisons accept bool *)
Example bool_is_ordered :
  resolve_cmp (TCmp IsLess (lf Bool) (lf Bool))
  = Ok (RCmp IsLess (RLeaf (VPrim Bool)) (RLeaf (VPrim Bool)) (VPrim Bool)).
Proof. vm_compute. reflexivity. Qed.

(* S6. an untyped left operand next to a poisoned right operand: no E580 from the check *)
Example ambiguous_and_poisoned_silent :
  match_type_of_operands naked (TPoison (PError 402%N)) = Err [].
Proof. vm_compute. reflexivity. Qed.

(* S7. use_function: arguments without a type, poisoned parameter types and
   parameters with a poisoned NAME are skipped; only the first mismatch is reported;
   the types are compared with ==, can_coerce_into is not consulted here *)
Theorem call_check_skips :
  check_call_gen (fun _ _ => false) [mk_param false (ROk (VPrim Int32))]
                 [mk_arg false (Some (ROk (VPrim Bool)))] = []
  /\ check_call_gen (fun _ _ => false) [mk_param true (ROk (VPrim Int32))] [mk_arg false None] = []
  /\ check_call_gen (fun _ _ => false) [mk_param true (RPoison Poisoned)]
                 [mk_arg false (Some (ROk (VPrim Bool)))] = []
  /\ check_call [VPrim Int32; VPrim Int32] [VPrim Bool; VPrim Char8] = [E512].
Proof. vm_compute. repeat split. Qed.

(* the naive statement "an accepted call has arguments equal to the parameters" is
   therefore false for the general check *)
Theorem check_call_gen_equal_refuted :
  exists ps xs, check_call_gen (fun _ _ => false) ps xs = []
    /\ exists pt at_, map p_type ps = [ROk pt] /\ map a_type xs = [Some (ROk at_)] /\ pt <> at_.
Proof.
  exists [mk_param false (ROk (VPrim Int32))], [mk_arg false (Some (ROk (VPrim Bool)))].
  split; [reflexivity|]. exists (VPrim Int32), (VPrim Bool). repeat split. discriminate.
Qed.

(* the typer's wrapping makes a coercible argument pass, a non coercible one fail *)
Example hint_then_check :
  let coerces := fun a b => vtype_eqb a (VOther 1%N) && vtype_eqb b (VOther 2%N) in
  check_call_gen (fun _ _ => false) [mk_param true (ROk (VOther 2%N))]
    (map arg_of (hint_args coerces [ROk (VOther 2%N)] [lt (VOther 1%N)])) = []
  /\ check_call_gen (fun _ _ => false) [mk_param true (ROk (VOther 2%N))]
    (map arg_of (hint_args coerces [ROk (VOther 2%N)] [lt (VOther 3%N)])) = [E512].
Proof. vm_compute. split; reflexivity. Qed.

Print Assumptions resolve_sound.
Print Assumptions resolve_cmp_sound.
Print Assumptions resolve_type_agrees.
Print Assumptions mismatch_rejected.
Print Assumptions mismatch_rejected_cmp.
Print Assumptions class_violation_rejected.
Print Assumptions bad_cast_rejected.
Print Assumptions bad_bitcast_rejected.
Print Assumptions ambiguous_rejected.
Print Assumptions errors_propagate.
Print Assumptions accepted_binary_nodes.
Print Assumptions class_tables_ok.
Print Assumptions check_call_gen_sound.
Print Assumptions check_call_sound.
Print Assumptions call_gate_sound.
Print Assumptions strict_soundness_refuted.
Print Assumptions advance_offset_rejected.
Print Assumptions accepted_advance_nodes.
