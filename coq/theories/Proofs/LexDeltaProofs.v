(* Proofs about Model/LexDelta.v (second-generation lexer, src/delta/lexer.rs and
   src/delta/lexer/tokens.rs).

   Contents
     0. Examples by vm_compute, one or more per arm of the main `match`
     1. Consumption lemmas: every scanner returns a suffix of its input and
        keeps `location.end` equal to the iterator position
     2. [lex_step_ok]: what one iteration of the main loop consumes
     3. token_push_in_bounds, tokens_le_bytes_plus_k, total, errors_capped
     4. decimal / hexadecimal / binary literal values
     5. spans, line numbers, line offsets *)
From Coq Require Import Ascii String.
From PV Require Import Base.Common Base.IR Base.Tok Model.LexDelta.
Open Scope N_scope.

(* ========================================================================== *)
(* 0. Examples                                                                *)
(* ========================================================================== *)
Definition T (k : tkind) (v : Z) (ty : option tykw) (st en ln off : N) : tok :=
  {| kind := k; value := v; vtype := ty; bytes := []; tstart := st; tend := en;
     line := ln; lstart := off |}.
Definition nl : list N := [10].
Definition cr : list N := [13].
Definition bsl : list N := [92].
Definition dq : list N := [34].
Notation Zc := Z.of_N (only parsing).

(* whitespace, lone CR, LF, CRLF: CR is plain whitespace, only LF counts lines *)
Example ex_lone_cr : lex_delta (bs "a" ++ cr ++ bs "b") =
  [T KIdentifier 0 None 0 1 1 0; T KIdentifier 0 None 2 3 1 2].
Proof. vm_compute. reflexivity. Qed.
Example ex_crlf : lex_delta (bs "a" ++ cr ++ nl ++ [9] ++ bs "b") =
  [T KIdentifier 0 None 0 1 1 0; T KIdentifier 0 None 4 5 2 1].
Proof. vm_compute. reflexivity. Qed.
Example ex_end_location : end_location (bs "a" ++ nl ++ bs "  ") = Some (4, 2, 2).
Proof. vm_compute. reflexivity. Qed.

(* punctuation, comments *)
Example ex_punct : lex_delta (bs "// c" ++ nl ++ bs "/ |: .. . -> <= << >>= ! != == = | - < >") =
  [T KDivide 0 None 5 6 2 0; T KPipeForType 0 None 7 9 2 2; T KDots 0 None 10 12 2 5;
   T KDot 0 None 13 14 2 8; T KArrow 0 None 15 17 2 10; T KIsLE 0 None 18 20 2 13;
   T KShiftLeft 0 None 21 23 2 16; T KShiftRight 0 None 24 26 2 19;
   T KAssignment 0 None 26 27 2 21; T KExclamation 0 None 28 29 2 23;
   T KDoesNotEqual 0 None 30 32 2 25; T KEquals 0 None 33 35 2 28;
   T KAssignment 0 None 36 37 2 31; T KPipe 0 None 38 39 2 33; T KMinus 0 None 40 41 2 35;
   T KAngleLeft 0 None 42 43 2 37; T KAngleRight 0 None 44 45 2 39].
Proof. vm_compute. reflexivity. Qed.
Example ex_singles : map kind (lex_delta (bs "(){}[]&^+*%:;,")) =
  [KParenLeft; KParenRight; KBraceLeft; KBraceRight; KBracketLeft; KBracketRight;
   KAmpersand; KCaret; KPlus; KTimes; KModulo; KColon; KSemicolon; KComma].
Proof. vm_compute. reflexivity. Qed.
Example ex_comment_cr_eof : lex_delta (bs "x//" ++ cr ++ [255; 0] ++ bs "'") = [T KIdentifier 0 None 0 1 1 0].
Proof. vm_compute. reflexivity. Qed.

(* keywords, type keywords, identifiers, builtins *)
Example ex_return : lex_delta (bs "return") = [T KReturn 0 None 0 6 1 0].
Proof. vm_compute. reflexivity. Qed.
Example ex_keywords :
  map kind (lex_delta (bs "fn var const if goto loop return else cast as import pub extern struct word8 word16 word32 word64 word128 _")) =
  [KFn; KVar; KConst; KIf; KGoto; KLoop; KReturn; KElse; KCast; KAs; KImport; KPub; KExtern;
   KStruct; KWord8; KWord16; KWord32; KWord64; KWord128; KPlaceholder].
Proof. vm_compute. reflexivity. Qed.
Example ex_types :
  map vtype (lex_delta (bs "void bool char8 i8 i16 i32 i64 i128 u8 u16 u32 u64 u128 usize")) =
  map Some ([TyVoid; TyPrim Bool; TyPrim Char8] ++
            map TyPrim [Int8; Int16; Int32; Int64; Int128; Uint8; Uint16; Uint32; Uint64; Uint128; Usize]).
Proof. vm_compute. reflexivity. Qed.
Example ex_bools : lex_delta (bs "true false True") =
  [T KBool 1 None 0 4 1 0; T KBool 0 None 5 10 1 5; T KIdentifier 0 None 11 15 1 11].
Proof. vm_compute. reflexivity. Qed.
(* a builtin is an identifier followed by '!', even when '=' follows; keywords never are *)
Example ex_builtin : lex_delta (bs "foo!= if!= _! __ x_1") =
  [T KBuiltin 0 None 0 4 1 0; T KAssignment 0 None 4 5 1 4; T KIf 0 None 6 8 1 6;
   T KDoesNotEqual 0 None 8 10 1 8; T KPlaceholder 0 None 11 12 1 11;
   T KExclamation 0 None 12 13 1 12; T KIdentifier 0 None 14 16 1 14;
   T KIdentifier 0 None 17 20 1 17].
Proof. vm_compute. reflexivity. Qed.

(* arm b'0' *)
Example ex_zero : lex_delta (bs "0 007 0x 0xg 0x_1_u8 0b2 0b 0b_ 0u8 0_ 0x0 0b0 0xfu8 0x1b 0xABCDEFi8") =
  [T KNakedDecimal 0 None 0 1 1 0; T KError E141 None 2 5 1 2; T KError E141 None 6 8 1 6;
   T KError E141 None 9 12 1 9; T KSuffixedInteger 1 (Some (TyPrim Uint8)) 13 20 1 13;
   T KError E141 None 21 24 1 21; T KError E141 None 25 27 1 25; T KError E141 None 28 31 1 28;
   T KSuffixedInteger 0 (Some (TyPrim Uint8)) 32 35 1 32; T KError E141 None 36 38 1 36;
   T KBitInteger 0 None 39 42 1 39; T KBitInteger 0 None 43 46 1 43;
   T KSuffixedInteger 15 (Some (TyPrim Uint8)) 47 52 1 47; T KBitInteger 27 None 53 57 1 53;
   T KSuffixedInteger 11259375 (Some (TyPrim Int8)) 58 68 1 58].
Proof. vm_compute. reflexivity. Qed.
Example ex_hex_max : lex_delta (bs "0xffffffffffffffffffffffffffffffff 0x100000000000000000000000000000000 0x0000000000000000000000000000000000001") =
  [T KBitInteger 340282366920938463463374607431768211455 None 0 34 1 0; T KError E140 None 35 70 1 35;
   T KBitInteger 1 None 71 110 1 71].
Proof. vm_compute. reflexivity. Qed.
(* 0b: at most 128 digits whatever their value; 129 zeros and a one is E140 *)
Example ex_bin_128 : lex_delta (bs "0b" ++ repeat 48 127 ++ bs "1") = [T KBitInteger 1 None 0 130 1 0].
Proof. vm_compute. reflexivity. Qed.
Example ex_bin_129 : lex_delta (bs "0b" ++ repeat 48 129 ++ bs "1_u8") = [T KError E140 None 0 135 1 0].
Proof. vm_compute. reflexivity. Qed.
Example ex_bin_max : lex_delta (bs "0b" ++ repeat 49 128) =
  [T KBitInteger 340282366920938463463374607431768211455 None 0 130 1 0].
Proof. vm_compute. reflexivity. Qed.

(* arm b'1'..=b'9' *)
Example ex_decimal : lex_delta (bs "1_000i32 12ab 9 1__ 340282366920938463463374607431768211455 340282366920938463463374607431768211460 99u64") =
  [T KSuffixedInteger 1000 (Some (TyPrim Int32)) 0 8 1 0; T KError E141 None 9 13 1 9;
   T KNakedDecimal 9 None 14 15 1 14; T KNakedDecimal 1 None 16 19 1 16;
   T KNakedDecimal 340282366920938463463374607431768211455 None 20 59 1 20;
   T KError E140 None 60 99 1 60; T KSuffixedInteger 99 (Some (TyPrim Uint64)) 100 105 1 100].
Proof. vm_compute. reflexivity. Qed.
(* D4 (repaired in 81d8d87): in the PINNED code 2^128 .. 2^128+3 wrapped around
   (release) / panicked (debug); the CURRENT code reports E140 *)
Example ex_decimal_wrap :
  (lex_delta_pinned (bs "340282366920938463463374607431768211456"),
   would_overflow_panic_pinned (bs "340282366920938463463374607431768211456"),
   lex_delta (bs "340282366920938463463374607431768211456"),
   would_overflow_panic (bs "340282366920938463463374607431768211456")) =
  ([T KNakedDecimal 0 None 0 39 1 0], true, [T KError E140 None 0 39 1 0], false).
Proof. vm_compute. reflexivity. Qed.
Example ex_decimal_wrap3 :
  (lex_delta_pinned (bs "340282366920938463463374607431768211459u8"), lex_delta (bs "340282366920938463463374607431768211459u8")) =
  ([T KSuffixedInteger 3 (Some (TyPrim Uint8)) 0 41 1 0], [T KError E140 None 0 41 1 0]).
Proof. vm_compute. reflexivity. Qed.
Example ex_decimal_wrap_longer :
  (lex_delta_pinned (bs "3402823669209384634633746074317682114577"), lex_delta (bs "3402823669209384634633746074317682114577")) =
  ([T KNakedDecimal 17 None 0 40 1 0], [T KError E140 None 0 40 1 0]).
Proof. vm_compute. reflexivity. Qed.
(* after a checked_mul overflow the accumulator restarts at 0, so the unchecked add can
   still overflow later: E140 in release, panic in debug *)
Example ex_decimal_late_panic :
  let s := bs "99999999999999999999999999999999999999340282366920938463463374607431768211456" in
  (lex_delta_pinned s, would_overflow_panic_pinned s, lex_delta s, would_overflow_panic s) =
  ([T KError E140 None 0 77 1 0], true, [T KError E140 None 0 77 1 0], false).
Proof. vm_compute. reflexivity. Qed.

(* char literals *)
Example ex_chars : lex_delta (bs "'a' '' 'ab' '\x41' '\x4' '\n' '\'' '""' ' ' '\0' '\q' '" ++ [9] ++ bs "' '" ++ [233] ++ bs "' '" ++ [195;169] ++ bs "'") =
  [T KCharLiteral 97 None 0 3 1 0; T KError E163 None 4 6 1 4; T KError E163 None 7 11 1 7;
   T KCharLiteral 65 None 12 18 1 12; T KError E162 None 20 23 1 20; T KCharLiteral 10 None 25 29 1 25;
   T KCharLiteral 39 None 30 34 1 30; T KCharLiteral 34 None 35 38 1 35; T KCharLiteral 32 None 39 42 1 39;
   T KCharLiteral 0 None 43 47 1 43; T KError E162 None 49 51 1 49; T KError E110 None 54 55 1 54;
   T KCharLiteral 233 None 57 60 1 57; T KError E163 None 61 65 1 61].
Proof. vm_compute. reflexivity. Qed.
(* '\u{41}' is NOT accepted in a char literal (the char arm has no `u` case) *)
Example ex_char_u : lex_delta (bs "'\u{41}'") = [T KError E162 None 1 3 1 1].
Proof. vm_compute. reflexivity. Qed.
Example ex_char_unclosed : lex_delta (bs "'a" ++ nl ++ bs "'") =
  [T KError E160 None 2 2 1 2; T KError E160 None 4 4 2 1].
Proof. vm_compute. reflexivity. Qed.
Example ex_trailing_backslash : lex_delta (bs "'\") = [T KError E161 None 1 2 1 1].
Proof. vm_compute. reflexivity. Qed.

(* string literals *)
Example ex_strings : lex_delta (bs """a b"" ""\u{41}\x41\n"" ""\u{}"" ""\u{d800}"" ""\u{10FFFF}"" ""\u{110000}"" ""\u{0000041}"" ""\u41"" ""\u{4" ++ nl ++ bs """\x4g"" ""'""") =
  [T KStringLiteral 0 None 0 5 1 0; T KStringLiteral 0 None 6 20 1 6; T KError E162 None 22 26 1 22;
   T KError E162 None 29 37 1 29; T KStringLiteral 0 None 39 51 1 39; T KError E162 None 53 63 1 53;
   T KError E162 None 66 77 1 66; T KError E162 None 80 82 1 80; T KError E162 None 87 91 1 87;
   T KError E162 None 93 96 2 1; T KStringLiteral 0 None 99 102 2 7].
Proof. vm_compute. reflexivity. Qed.
(* unterminated literal before CRLF: the CR is inside the literal, so E110 at the CR, not E160 *)
Example ex_unterminated_crlf : lex_delta (dq ++ bs "abc" ++ cr ++ nl ++ bs "x") =
  [T KError E110 None 4 5 1 4; T KIdentifier 0 None 6 7 2 0].
Proof. vm_compute. reflexivity. Qed.
Example ex_unterminated_lf : lex_delta (dq ++ bs "abc" ++ nl ++ bs "x") =
  [T KError E160 None 4 4 1 4; T KIdentifier 0 None 5 6 2 0].
Proof. vm_compute. reflexivity. Qed.
(* backslash-newline: the newline is swallowed by the escape, the line counter is NOT advanced *)
Example ex_backslash_newline : lex_delta (dq ++ bs "a" ++ bsl ++ nl ++ dq ++ bs " x" ++ nl ++ bs "y") =
  [T KError E162 None 2 4 1 2; T KIdentifier 0 None 6 7 1 6; T KIdentifier 0 None 8 9 2 0].
Proof. vm_compute. reflexivity. Qed.

(* arm `_`: one E110 per byte *)
Example ex_non_ascii : lex_delta [195; 169; 0; 127; 35] =
  [T KError E110 None 0 1 1 0; T KError E110 None 1 2 1 1; T KError E110 None 2 3 1 2;
   T KError E110 None 3 4 1 3; T KError E110 None 4 5 1 4].
Proof. vm_compute. reflexivity. Qed.

(* lex: empty source, token capacity, end tokens *)
Example ex_empty : (lex_delta [], num_end_tokens [], end_location []) = ([T KError E101 None 0 0 0 0], 0, None).
Proof. vm_compute. reflexivity. Qed.
Example ex_caps : (token_capacity 10, token_capacity 131072, token_capacity 200000, token_capacity 2147483648,
                   error_capacity 7, error_capacity 1000) = (65536, 65536, 100000, 16777216, 7, 100).
Proof. vm_compute. reflexivity. Qed.
(* the error cap: errors beyond the 100th leave NO token behind *)
Example ex_error_cap : let r := lex_delta (repeat 35 120 ++ bs "x") in
  (length r, map kind (skipn 99 r), num_end_tokens (repeat 35 120 ++ bs "x")) = (101%nat, [KError; KIdentifier], 2).
Proof. vm_compute. reflexivity. Qed.
(* with fewer than 100 source bytes the cap is the source length: never reached *)
Example ex_error_cap_small : length (lex_delta (repeat 35 50)) = 50%nat.
Proof. vm_compute. reflexivity. Qed.
(* E103: 65535 one-byte tokens + 2 end tokens do not fit the 65536 slots *)
Example ex_too_many_tokens :
  (lex_delta (repeat 40 (N.to_nat 65535)), num_end_tokens (repeat 40 (N.to_nat 65535)),
   lenN (map tstart (lex_delta (repeat 40 (N.to_nat 65534))))) = ([T KError E103 None 0 0 0 0], 0, 65534).
Proof. vm_compute. reflexivity. Qed.

(* ========================================================================== *)
(* 1. Consumption lemmas                                                      *)
(* ========================================================================== *)
Section Generic.
Variable push : dacc -> N -> dacc.

Lemma lenN_nil : lenN [] = 0.
Proof. reflexivity. Qed.
Lemma lenN_cons y l : lenN (y :: l) = lenN l + 1.
Proof. unfold lenN. cbn [length]. lia. Qed.
Lemma lenN_app l1 l2 : lenN (l1 ++ l2) = lenN l1 + lenN l2.
Proof. unfold lenN. rewrite app_length. lia. Qed.

Definition lenT (l : list tok) : N := N.of_nat (length l).
Lemma lenT_nil : lenT [] = 0.
Proof. reflexivity. Qed.
Lemma lenT_cons y l : lenT (y :: l) = lenT l + 1.
Proof. unfold lenT. cbn [length]. lia. Qed.
Ltac llia := rewrite ?lenN_app, ?lenN_cons, ?lenN_nil, ?lenT_cons, ?lenT_nil in *; lia.

(* no newline byte *)
Definition nonl (l : list N) : Prop := Forall (fun y => y <> 10) l.

(* the two-byte sequence backslash, newline occurs in [l] *)
Fixpoint has_bsnl (l : list N) : bool :=
  match l with
  | [] => false
  | a :: r => (match r with c :: _ => (a =? 92) && (c =? 10) | [] => false end) || has_bsnl r
  end.
(* a consumed segment contains a newline only as part of backslash-newline *)
Definition nl_ok (l : list N) : Prop := has_bsnl l = false -> nonl l.

Lemma has_bsnl_app l1 l2 : has_bsnl (l1 ++ l2) = false -> has_bsnl l1 = false /\ has_bsnl l2 = false.
Proof.
  induction l1 as [|x l1 IH]; cbn [app has_bsnl]; [auto|].
  intros H. apply orb_false_iff in H as [H1 H2]. destruct (IH H2) as [Ha Hb].
  split; [|assumption]. apply orb_false_iff; split; [|assumption].
  destruct l1 as [|c l1']; [reflexivity|]. cbn [app] in H1. exact H1.
Qed.

Lemma nonl_app l1 l2 : nonl l1 -> nonl l2 -> nonl (l1 ++ l2).
Proof. unfold nonl. intros. apply Forall_app. auto. Qed.
Lemma nl_ok_nonl l : nonl l -> nl_ok l.
Proof. intros H _. exact H. Qed.
Lemma nl_ok_app l1 l2 : nl_ok l1 -> nl_ok l2 -> nl_ok (l1 ++ l2).
Proof. intros H1 H2 H. apply has_bsnl_app in H as [Ha Hb]. apply nonl_app; auto. Qed.
Lemma nl_ok_cons x l : x <> 10 -> nl_ok l -> nl_ok (x :: l).
Proof.
  intros Hx Hl H. cbn [has_bsnl] in H. apply orb_false_iff in H as [_ H].
  constructor; [exact Hx|]. apply Hl, H.
Qed.
Lemma nl_ok_esc y l : nonl l -> nl_ok (92 :: y :: l).
Proof.
  intros Hl H. cbn [has_bsnl] in H. apply orb_false_iff in H as [H _].
  rewrite N.eqb_refl in H. cbn [andb] in H. apply N.eqb_neq in H.
  constructor; [lia|]. constructor; assumption.
Qed.

(* [seg] was consumed from [l] leaving [l'], with end moving from [e] to [e'] *)
Definition adv (e : N) (l : list N) (e' : N) (l' : list N) : Prop :=
  exists seg, l = seg ++ l' /\ e' = e + lenN seg /\ nonl seg.

Lemma adv_refl e l : adv e l e l.
Proof. exists []. cbn. repeat split; [lia|constructor]. Qed.
Lemma adv_step y e r e' l' : y <> 10 -> adv (e + 1) r e' l' -> adv e (y :: r) e' l'.
Proof.
  intros Hy (seg & Hr & He & Hn). exists (y :: seg). subst r. cbn [app].
  rewrite lenN_cons. repeat split; [lia|constructor; assumption].
Qed.
Lemma adv_trans e1 l1 e2 l2 e3 l3 : adv e1 l1 e2 l2 -> adv e2 l2 e3 l3 -> adv e1 l1 e3 l3.
Proof.
  intros (s1 & H1 & E1 & N1) (s2 & H2 & E2 & N2). exists (s1 ++ s2). subst.
  rewrite lenN_app, app_assoc. repeat split; [lia|apply nonl_app; assumption].
Qed.
Lemma adv_length e l e' l' : adv e l e' l' -> (length l' <= length l)%nat.
Proof. intros (seg & -> & _). rewrite app_length. lia. Qed.

Lemma span_while_spec p l : forall t r, span_while p l = (t, r) ->
  l = t ++ r /\ Forall (fun y => p y = true) t /\ match r with [] => True | y :: _ => p y = false end.
Proof.
  induction l as [|y l IH]; intros t r H; cbn [span_while] in H.
  - inversion H; subst. repeat split. constructor.
  - destruct (p y) eqn:Hp.
    + destruct (span_while p l) as [t0 r0] eqn:Hs. inversion H; subst.
      destruct (IH _ _ eq_refl) as (Hl & Ht & Hr). subst l. repeat split; [|assumption].
      constructor; assumption.
    + inversion H; subst. repeat split; [constructor|assumption].
Qed.

Lemma Forall_nonl (p : N -> bool) t : p 10 = false -> Forall (fun y => p y = true) t -> nonl t.
Proof.
  intros H10 H. unfold nonl. eapply Forall_impl; [|exact H]. cbn. intros a Ha ->. congruence.
Qed.

Lemma span_while_adv p l t r e : p 10 = false -> span_while p l = (t, r) -> adv e l (e + lenN t) r.
Proof.
  intros H10 H. apply span_while_spec in H as (Hl & Ht & _). exists t. repeat split; [assumption|].
  eapply Forall_nonl; eassumption.
Qed.

Lemma dec_digit_10 d : dec_digit 10 = Some d -> False.
Proof. vm_compute. discriminate. Qed.
Lemma hex_digit_10 d : hex_digit 10 = Some d -> False.
Proof. vm_compute. discriminate. Qed.

Lemma scan_dec_adv : forall l a e a' e' l', scan_dec_with push a e l = (a', e', l') -> adv e l e' l'.
Proof.
  induction l as [|y r IH]; intros a e a' e' l' H; cbn [scan_dec_with] in H.
  - inversion H; subst. apply adv_refl.
  - destruct (dec_digit y) as [d|] eqn:Hd.
    + apply adv_step; [intros ->; eapply dec_digit_10; eassumption|]. eapply IH; eassumption.
    + destruct (N.eqb_spec y 95) as [->|Hy].
      * apply adv_step; [lia|]. eapply IH; eassumption.
      * inversion H; subst. apply adv_refl.
Qed.

Lemma scan_hex_adv : forall l a e a' e' l', scan_hex a e l = (a', e', l') -> adv e l e' l'.
Proof.
  induction l as [|y r IH]; intros a e a' e' l' H; cbn [scan_hex] in H.
  - inversion H; subst. apply adv_refl.
  - destruct (hex_digit y) as [d|] eqn:Hd.
    + apply adv_step; [intros ->; eapply hex_digit_10; eassumption|]. eapply IH; eassumption.
    + destruct (N.eqb_spec y 95) as [->|Hy].
      * apply adv_step; [lia|]. eapply IH; eassumption.
      * inversion H; subst. apply adv_refl.
Qed.

Lemma scan_bin_adv : forall l nd v e nd' v' e' l', scan_bin nd v e l = (nd', v', e', l') -> adv e l e' l'.
Proof.
  induction l as [|y r IH]; intros nd v e nd' v' e' l' H; cbn [scan_bin] in H.
  - inversion H; subst. apply adv_refl.
  - destruct (128 <? nd); [inversion H; subst; apply adv_refl|].
    destruct (N.eqb_spec y 48) as [->|H48]; [apply adv_step; [lia|]; eapply IH; eassumption|].
    destruct (N.eqb_spec y 49) as [->|H49]; [apply adv_step; [lia|]; eapply IH; eassumption|].
    destruct (N.eqb_spec y 95) as [->|H95]; [apply adv_step; [lia|]; eapply IH; eassumption|].
    inversion H; subst; apply adv_refl.
Qed.

Lemma scan_udigits_adv : forall l sod cu e nd cu' e' l',
  scan_udigits sod cu e l = (nd, cu', e', l') -> adv e l e' l'.
Proof.
  induction l as [|y r IH]; intros sod cu e nd cu' e' l' H; cbn [scan_udigits] in H.
  - inversion H; subst. apply adv_refl.
  - destruct (hex_digit y) as [d|] eqn:Hd.
    + apply adv_step; [intros ->; eapply hex_digit_10; eassumption|]. eapply IH; eassumption.
    + destruct (N.eqb_spec y 125) as [->|Hy].
      * inversion H; subst. apply adv_step; [lia|]. apply adv_refl.
      * inversion H; subst. apply adv_refl.
Qed.

(* escapes: the segment after the backslash is empty (end of input) or one
   arbitrary byte (possibly a NEWLINE) followed by newline-free bytes *)
Definition esc_bounds (soe e' : N) (o : esc) : Prop :=
  match o with
  | EErr _ st en => soe <= st /\ st <= en /\ en <= e'
  | _ => True
  end.

Lemma scan_escape_spec au soe r o e' r' : scan_escape au soe r = (o, e', r') ->
  exists seg, r = seg ++ r' /\ e' = soe + 1 + lenN seg /\
              (seg = [] \/ exists y seg', seg = y :: seg' /\ nonl seg') /\ esc_bounds soe e' o.
Proof.
  unfold scan_escape. destruct r as [|y r1].
  - intros H; inversion H; subst. exists []. cbn. repeat split; try lia. now left.
  - assert (Hone : forall c, exists seg, y :: r1 = seg ++ r1 /\ soe + 2 = soe + 1 + lenN seg /\
               (seg = [] \/ exists y0 seg', seg = y0 :: seg' /\ nonl seg') /\ esc_bounds soe (soe + 2) (EErr c soe (soe + 2))).
    { intros c. exists [y]. cbn. repeat split; try lia. right. exists y, []. split; [reflexivity|constructor]. }
    destruct (assoc_N y simple_escape_table) as [v|] eqn:Hs.
    { intros H; inversion H; subst. exists [y]. cbn. repeat split; try lia.
      right. exists y, []. split; [reflexivity|constructor]. }
    destruct (y =? 120) eqn:Hx.
    { destruct r1 as [|h1 r2]; [intros H; inversion H; subst; apply Hone|].
      destruct (hex_digit h1) as [d1|] eqn:Hd1; [|intros H; inversion H; subst; apply Hone].
      assert (Hh1 : h1 <> 10) by (intros ->; eapply hex_digit_10; eassumption).
      assert (Htwo : forall c, exists seg, y :: h1 :: r2 = seg ++ r2 /\ soe + 2 + 1 = soe + 1 + lenN seg /\
               (seg = [] \/ exists y0 seg', seg = y0 :: seg' /\ nonl seg') /\
               esc_bounds soe (soe + 2 + 1) (EErr c soe (soe + 2 + 1))).
      { intros c. exists [y; h1]. cbn. repeat split; try lia. right. exists y, [h1].
        split; [reflexivity|]. constructor; [assumption|constructor]. }
      destruct r2 as [|h2 r3]; [intros H; inversion H; subst; apply Htwo|].
      destruct (hex_digit h2) as [d2|] eqn:Hd2; [|intros H; inversion H; subst; apply Htwo].
      assert (Hh2 : h2 <> 10) by (intros ->; eapply hex_digit_10; eassumption).
      intros H; inversion H; subst. exists [y; h1; h2]. cbn. repeat split; try lia.
      right. exists y, [h1; h2]. split; [reflexivity|]. repeat constructor; assumption. }
    destruct (au && (y =? 117)) eqn:Hu; [|intros H; inversion H; subst; apply Hone].
    assert (Hud : forall nd cu e3 r3,
      (match r1 with
       | z :: r2 => if z =? 123 then scan_udigits (soe + 2 + 1) 0 (soe + 2 + 1) r2 else (0, 0, soe + 2, r1)
       | [] => (0, 0, soe + 2, r1)
       end) = (nd, cu, e3, r3) ->
      exists seg', nonl seg' /\ r1 = seg' ++ r3 /\ e3 = soe + 2 + lenN seg').
    { intros nd cu e3 r3 H. destruct r1 as [|z r2].
      - inversion H; subst. exists []. repeat split; [constructor|cbn; lia].
      - destruct (N.eqb_spec z 123) as [->|Hz].
        + apply scan_udigits_adv in H as (seg & Hr & He & Hn). exists (123 :: seg). subst r2.
          repeat split; [constructor; [lia|assumption]|rewrite lenN_cons; lia].
        + inversion H; subst. exists []. repeat split; [constructor|cbn; lia]. }
    destruct (match r1 with
       | z :: r2 => if z =? 123 then scan_udigits (soe + 2 + 1) 0 (soe + 2 + 1) r2 else (0, 0, soe + 2, r1)
       | [] => (0, 0, soe + 2, r1)
       end) as [[[nd cu] e3] r3] eqn:Hm.
    destruct (Hud _ _ _ _ eq_refl) as (seg' & Hn & Hr1 & He3).
    assert (Hseg : y :: r1 = (y :: seg') ++ r3) by (subst r1; reflexivity).
    assert (Hlen : e3 = soe + 1 + lenN (y :: seg')) by (rewrite lenN_cons; lia).
    destruct ((1 <=? nd) && (nd <=? 6) && is_scalar_value cu);
      intros H; inversion H; subst o e' r'; exists (y :: seg');
      (split; [exact Hseg|split; [exact Hlen|split; [right; exists y, seg'; auto|]]]).
    + exact I.
    + cbn. rewrite lenN_cons in Hlen. lia.
Qed.

(* literal loop *)
Definition ferr_ok (i e : N) (s : lit) : Prop :=
  match ferr s with
  | Some (_, st, en) => i <= st /\ st <= en /\ en <= e
  | None => True
  end.

Lemma ferr_ok_mono i e e' s : e <= e' -> ferr_ok i e s -> ferr_ok i e' s.
Proof. unfold ferr_ok. destruct (ferr s) as [[[c st] en]|]; [lia|auto]. Qed.
Lemma ferr_ok_push i e v s : ferr_ok i e (lit_push v s) <-> ferr_ok i e s.
Proof. reflexivity. Qed.
Lemma ferr_ok_close i e s : ferr_ok i e (lit_close s) <-> ferr_ok i e s.
Proof. reflexivity. Qed.
Lemma ferr_ok_err i e c st en s : i <= st -> st <= en -> en <= e -> ferr_ok i e s -> ferr_ok i e (lit_err c st en s).
Proof.
  unfold ferr_ok, lit_err. intros. destruct (ferr s) as [[[c0 st0] en0]|] eqn:Hf.
  - rewrite Hf. assumption.
  - cbn. lia.
Qed.

Lemma scan_lit_spec q au i : forall fuel s e l,
  (length l < fuel)%nat -> i <= e -> ferr_ok i e s ->
  exists s' e' l', scan_lit fuel q au s e l = Some (s', e', l') /\
    (exists seg, l = seg ++ l' /\ e' = e + lenN seg /\ nl_ok seg) /\ ferr_ok i e' s'.
Proof.
  induction fuel as [|f IH]; intros s e l Hf Hie Hs; [lia|].
  cbn [scan_lit]. destruct l as [|x r].
  - exists s, e, []. split; [reflexivity|]. split; [|assumption].
    exists []. cbn. repeat split; try lia. apply nl_ok_nonl. constructor.
  - cbn [length] in Hf.
    destruct (N.eqb_spec x 10) as [->|Hx10].
    { exists s, e, (10 :: r). split; [reflexivity|]. split; [|assumption].
      exists []. cbn. repeat split; try lia. apply nl_ok_nonl. constructor. }
    assert (Hone : forall s1, ferr_ok i (e + 1) s1 ->
      exists s' e' l', scan_lit f q au s1 (e + 1) r = Some (s', e', l') /\
        (exists seg, x :: r = seg ++ l' /\ e' = e + lenN seg /\ nl_ok seg) /\ ferr_ok i e' s').
    { intros s1 Hs1. destruct (IH s1 (e + 1) r) as (s' & e' & l' & Hsc & (seg & Hr & He & Hn) & Hf');
        [lia|lia|assumption|].
      exists s', e', l'. split; [assumption|]. split; [|assumption].
      exists (x :: seg). subst r. rewrite lenN_cons. repeat split; try lia.
      apply nl_ok_cons; assumption. }
    destruct (N.eqb_spec x 92) as [->|Hx92].
    { destruct (scan_escape au e r) as [[o e1] r1] eqn:Hesc.
      apply scan_escape_spec in Hesc as (segE & Hr & He1 & HsegE & Hb).
      assert (Hlen : (length r1 <= length r)%nat) by (subst r; rewrite app_length; lia).
      destruct (IH (lit_esc o s) e1 r1) as (s' & e' & l' & Hsc & (seg & Hr1 & He & Hn) & Hf').
      - lia.
      - lia.
      - destruct o as [v| |c st en]; cbn [lit_esc].
        + apply ferr_ok_push. eapply ferr_ok_mono; [|eassumption]. lia.
        + eapply ferr_ok_mono; [|eassumption]. lia.
        + cbn in Hb. apply ferr_ok_err; try lia. eapply ferr_ok_mono; [|eassumption]. lia.
      - exists s', e', l'. split; [assumption|]. split; [|assumption].
        exists ((92 :: segE) ++ seg). subst r r1. rewrite lenN_app, lenN_cons.
        repeat split.
        + cbn [app]. rewrite <- app_assoc. reflexivity.
        + lia.
        + apply nl_ok_app; [|assumption].
          destruct HsegE as [->|(y & seg' & -> & Hn')].
          * apply nl_ok_nonl. constructor; [lia|constructor].
          * apply nl_ok_esc. assumption. }
    destruct (N.eqb_spec x q) as [->|Hxq].
    { exists (lit_close s), (e + 1), r. split; [reflexivity|]. split.
      - exists [q]. cbn. repeat split; try lia. apply nl_ok_nonl. constructor; [assumption|constructor].
      - apply ferr_ok_close. eapply ferr_ok_mono; [|eassumption]. lia. }
    destruct (x =? 32).
    { apply Hone. apply ferr_ok_push. eapply ferr_ok_mono; [|eassumption]. lia. }
    destruct (is_ascii_graphic x).
    { apply Hone. apply ferr_ok_push. eapply ferr_ok_mono; [|eassumption]. lia. }
    destruct (x <? 128).
    { apply Hone. apply ferr_ok_err; try lia. eapply ferr_ok_mono; [|eassumption]. lia. }
    apply Hone. apply ferr_ok_push. eapply ferr_ok_mono; [|eassumption]. lia.
Qed.

(* ========================================================================== *)
(* 2. One iteration of the main loop                                          *)
(* ========================================================================== *)
Definition act_ok (x : N) (seg : list N) (i sendv : N) (a : action) : Prop :=
  match a with
  | ASkip => nl_ok (x :: seg)
  | ANewline => x = 10 /\ seg = []
  | ATok k _ _ en => en = sendv /\ nl_ok (x :: seg) /\ k <> KError
  | AErr _ st en => i <= st /\ st <= en /\ en <= sendv /\ nl_ok (x :: seg)
  | AFuel => False
  end.

Definition step_ok (x : N) (r : list N) (i : N) (s : step) : Prop :=
  exists seg, r = seg ++ srest s /\ send s = i + 1 + lenN seg /\ act_ok x seg i (send s) (act s).

Lemma assoc_bytes_In {A} (k : list N) (t : list (list N * A)) v :
  assoc_bytes k t = Some v -> In v (map snd t).
Proof.
  induction t as [|[k' v'] t IH]; cbn [assoc_bytes map snd]; [discriminate|].
  destruct (bytes_eqb k k'); intros H; [inversion H; now left|right; auto].
Qed.
Lemma assoc_N_In {A} (k : N) (t : list (N * A)) v :
  assoc_N k t = Some v -> In v (map snd t).
Proof.
  induction t as [|[k' v'] t IH]; cbn [assoc_N map snd]; [discriminate|].
  destruct (k =? k'); intros H; [inversion H; now left|right; auto].
Qed.

Lemma kw_table_kinds :
  Forall (fun r : tkind * Z * option tykw => fst (fst r) <> KError) (map snd kw_table).
Proof. cbn. repeat constructor; discriminate. Qed.

Lemma lookup_keyword_kind ident k v ty : lookup_keyword ident = Some (k, v, ty) -> k <> KError.
Proof.
  unfold lookup_keyword. destruct (assoc_bytes ident kw_table) as [r|] eqn:Hk.
  - intros H; inversion H; subst r. apply assoc_bytes_In in Hk.
    pose proof kw_table_kinds as HF. rewrite Forall_forall in HF. apply (HF _ Hk).
  - destruct (parse_integer_suffix ident); intros H; inversion H; discriminate.
Qed.

Definition punct_good (e : list (N * tkind) * tkind) : Prop :=
  snd e <> KError /\ Forall (fun p : N * tkind => fst p <> 10 /\ snd p <> KError) (fst e).
Lemma punct_table_good : Forall punct_good (map snd punct_table).
Proof.
  cbn. repeat (constructor; cbn); try discriminate; vm_compute; discriminate.
Qed.

Lemma punct_kinds x seconds k1 : assoc_N x punct_table = Some (seconds, k1) ->
  k1 <> KError /\ (forall y k2, assoc_N y seconds = Some k2 -> k2 <> KError /\ y <> 10).
Proof.
  intros H. apply assoc_N_In in H.
  pose proof punct_table_good as HF. rewrite Forall_forall in HF.
  destruct (HF _ H) as [Hk1 Hs]. cbn [fst snd] in *. split; [assumption|].
  intros y k2 H2. clear H HF. induction seconds as [|[c k] t IH]; [discriminate|].
  inversion Hs as [|? ? [Hc Hk] Ht]; subst. cbn [assoc_N] in H2. cbn [fst snd] in *.
  destruct (N.eqb_spec y c) as [->|Hyc]; [inversion H2; subst; auto|auto].
Qed.

Lemma nonl_cons_ok x seg : x <> 10 -> nonl seg -> nl_ok (x :: seg).
Proof. intros. apply nl_ok_nonl. constructor; assumption. Qed.

Ltac act_tok :=
  cbn [act_ok]; split; [try reflexivity; try llia|split; [try assumption|try assumption; try discriminate]].
Ltac act_err :=
  cbn [act_ok]; split; [try llia|split; [try llia|split; [try llia|try assumption]]].
Ltac step_ex seg :=
  exists seg; cbn [srest send act mk_step]; split; [|split; [try llia|]].

Lemma lex_ident_ok x r i : x <> 10 -> step_ok x r i (lex_ident x r i).
Proof.
  intros Hx. unfold lex_ident. destruct (span_while is_ident_cont r) as [t r1] eqn:Hs.
  apply span_while_spec in Hs as (Hr & Ht & _).
  assert (Hnt : nonl t) by (eapply Forall_nonl; [|exact Ht]; reflexivity).
  assert (Hok : nl_ok (x :: t)) by now apply nonl_cons_ok.
  destruct (lookup_keyword (x :: t)) as [[[k v] ty]|] eqn:Hk.
  - step_ex t; [assumption|]. act_tok. eapply lookup_keyword_kind; eassumption.
  - assert (Hid : step_ok x r i (mk_step (ATok KIdentifier 0%Z None (i + 1 + lenN t)) r1 (i + 1 + lenN t))).
    { step_ex t; [assumption|]. act_tok. }
    destruct r1 as [|y r2]; [exact Hid|].
    destruct (N.eqb_spec y 33) as [->|Hy]; [|exact Hid].
    step_ex (t ++ [33]).
    + subst r. rewrite <- app_assoc. reflexivity.
    + act_tok. apply nonl_cons_ok; [assumption|]. apply nonl_app; [assumption|]. constructor; [lia|constructor].
Qed.

Lemma suffixed_ok x seg v sfx i e2 :
  nl_ok (x :: seg) -> i <= e2 -> act_ok x seg i e2 (suffixed v sfx i e2).
Proof.
  intros Hn Hie. unfold suffixed. destruct (parse_integer_suffix sfx); [act_tok|act_err].
Qed.

Lemma lex_decimal_ok x r i : x <> 10 -> step_ok x r i (lex_decimal_with push x r i).
Proof.
  intros Hx. unfold lex_decimal_with.
  destruct (scan_dec_with push _ (i + 1) r) as [[a e1] r1] eqn:Hd.
  apply scan_dec_adv in Hd as (s1 & Hr & He1 & Hn1).
  destruct (span_while is_ident_cont r1) as [sfx r2] eqn:Hs.
  apply span_while_spec in Hs as (Hr1 & Ht & _).
  assert (Hnt : nonl sfx) by (eapply Forall_nonl; [|exact Ht]; reflexivity).
  assert (Hok : nl_ok (x :: s1 ++ sfx)) by (apply nonl_cons_ok; [assumption|now apply nonl_app]).
  step_ex (s1 ++ sfx); [subst r r1; now rewrite app_assoc|].
  destruct (dov a); [act_err|].
  destruct sfx as [|c sfx']; [act_tok|]. apply suffixed_ok; [assumption|llia].
Qed.

Lemma zero_prefix_adv r e val eol e1 r1 : zero_prefix r e = (val, eol, e1, r1) -> adv e r e1 r1.
Proof.
  unfold zero_prefix. destruct r as [|y r'].
  - intros H; inversion H; subst. apply adv_refl.
  - destruct (N.eqb_spec y 120) as [->|Hx].
    + destruct (scan_hex _ (e + 1) r') as [[a e2] r2] eqn:Hh.
      apply scan_hex_adv in Hh.
      destruct (hdigits a); intros H; inversion H; subst; (apply adv_step; [lia|assumption]).
    + destruct (N.eqb_spec y 98) as [->|Hb].
      * destruct (scan_bin 0 0 (e + 1) r') as [[[nd v] e2] r2] eqn:Hh.
        apply scan_bin_adv in Hh.
        destruct (128 <? nd); [|destruct (0 <? nd)]; intros H; inversion H; subst;
          (apply adv_step; [lia|assumption]).
      * intros H; inversion H; subst. apply adv_refl.
Qed.

Lemma lex_zero_ok r i : step_ok 48 r i (lex_zero r i).
Proof.
  unfold lex_zero.
  destruct (zero_prefix r (i + 1)) as [[[val eol] e1] r1] eqn:Hz.
  apply zero_prefix_adv in Hz as (s1 & Hr & He1 & Hn1).
  destruct (span_while is_ident_cont r1) as [t r2] eqn:Hs.
  apply span_while_spec in Hs as (Hr1 & Ht & _).
  assert (Hnt : nonl t) by (eapply Forall_nonl; [|exact Ht]; reflexivity).
  assert (Hok : nl_ok (48 :: s1 ++ t)) by (apply nonl_cons_ok; [lia|now apply nonl_app]).
  step_ex (s1 ++ t); [subst r r1; now rewrite app_assoc|].
  destruct val as [v|]; [|act_err].
  destruct ((v =? 0) && (e1 + lenN t =? i + 1)); [act_tok|].
  destruct (e1 + lenN t =? eol); [act_tok|].
  apply suffixed_ok; [assumption|llia].
Qed.

Lemma lex_literal_ok fuel is_char q r i :
  (length r < fuel)%nat -> q <> 10 -> step_ok q r i (lex_literal fuel is_char q r i).
Proof.
  intros Hf Hq. unfold lex_literal.
  destruct (scan_lit_spec q (negb is_char) i fuel lit0 (i + 1) r) as (s & e & r' & Hsc & (seg & Hr & He & Hn) & Hfe);
    [assumption|lia|exact I|].
  rewrite Hsc.
  assert (Hok : nl_ok (q :: seg)) by (apply nl_ok_cons; assumption).
  step_ex seg; [assumption|].
  unfold finish_lit.
  set (s' := if lclosed s then s else lit_err E160 e e s).
  assert (Hfe' : ferr_ok i e s').
  { subst s'. destruct (lclosed s); [assumption|]. apply ferr_ok_err; try lia. assumption. }
  unfold ferr_ok in Hfe'. destruct (ferr s') as [[[c st] en]|]; [act_err|].
  destruct is_char; [|act_tok].
  destruct (nb s' =? 1); [act_tok|act_err].
Qed.

Theorem lex_step_ok_gen fuel x r i : (length r < fuel)%nat -> step_ok x r i (lex_step_with push fuel x r i).
Proof.
  intros Hf. unfold lex_step_with.
  destruct ((x =? 32) || (x =? 9) || (x =? 13)) eqn:Hws.
  { step_ex (@nil N); [reflexivity|]. cbn [act_ok]. apply nl_ok_nonl.
    constructor; [|constructor]. intros ->. discriminate. }
  destruct (N.eqb_spec x 10) as [->|Hx10].
  { step_ex (@nil N); [reflexivity|]. cbn [act_ok]. auto. }
  assert (Hx1 : nl_ok [x]) by (apply nl_ok_nonl; constructor; [assumption|constructor]).
  destruct (N.eqb_spec x 47) as [->|Hx47].
  { assert (Hdiv : step_ok 47 r i (mk_step (ATok KDivide 0%Z None (i + 1)) r (i + 1))).
    { step_ex (@nil N); [reflexivity|]. act_tok. }
    destruct r as [|y r']; [exact Hdiv|].
    destruct (N.eqb_spec y 47) as [->|Hy]; [|exact Hdiv].
    destruct (span_while (fun z => negb (z =? 10)) r') as [t r''] eqn:Hs.
    apply span_while_spec in Hs as (Hr & Ht & _).
    step_ex (47 :: t); [now subst r'|]. cbn [act_ok].
    apply nl_ok_nonl. constructor; [lia|]. constructor; [lia|].
    eapply Forall_nonl; [|exact Ht]. reflexivity. }
  destruct (assoc_N x punct_table) as [[seconds k1]|] eqn:Hp.
  { apply punct_kinds in Hp as (Hk1 & Hk2).
    assert (Hone : step_ok x r i (mk_step (ATok k1 0%Z None (i + 1)) r (i + 1))).
    { step_ex (@nil N); [reflexivity|]. act_tok. }
    destruct r as [|y r']; [exact Hone|].
    destruct (assoc_N y seconds) as [k2|] eqn:H2; [|exact Hone].
    destruct (Hk2 _ _ H2) as [Hk Hy].
    step_ex [y]; [reflexivity|]. act_tok.
    apply nl_ok_nonl. repeat constructor; assumption. }
  destruct (is_ident_start x); [now apply lex_ident_ok|].
  destruct (N.eqb_spec x 48) as [->|Hx48]; [apply lex_zero_ok|].
  destruct (in_range 49 57 x); [now apply lex_decimal_ok|].
  destruct (N.eqb_spec x 39) as [->|Hx39]; [apply lex_literal_ok; [assumption|lia]|].
  destruct (N.eqb_spec x 34) as [->|Hx34]; [apply lex_literal_ok; [assumption|lia]|].
  step_ex (@nil N); [reflexivity|]. act_err.
Qed.

(* progress: every iteration consumes at least the byte it looked at *)
Corollary lex_step_progress_gen fuel x r i : (length r < fuel)%nat ->
  (length (srest (lex_step_with push fuel x r i)) <= length r)%nat /\ i < send (lex_step_with push fuel x r i).
Proof.
  intros Hf. destruct (lex_step_ok_gen fuel x r i Hf) as (seg & Hr & He & _).
  rewrite Hr at 2. rewrite app_length. split; lia.
Qed.
(* ========================================================================== *)
(* 3. Token buffer bounds, progress, totality, error cap                      *)
(* ========================================================================== *)
Definition lr_prop (P : list tok -> N -> N -> Prop) (r : loop_result) : Prop :=
  match r with
  | OutOfFuel => False
  | AllocFail _ => True
  | Done t a c _ => P t a c
  end.
Lemma lr_prop_panic P p r : lr_prop P (lr_panic p r) <-> lr_prop P r.
Proof. destruct r; reflexivity. Qed.
Lemma lr_prop_cons (P : list tok -> N -> N -> Prop) t r :
  lr_prop (fun l a c => P (t :: l) a c) r -> lr_prop P (lr_cons t r).
Proof. destruct r; auto. Qed.
Lemma lr_prop_impl (P Q : list tok -> N -> N -> Prop) r :
  (forall l a c, P l a c -> Q l a c) -> lr_prop P r -> lr_prop Q r.
Proof. destruct r; cbn; auto. Qed.

Definition is_error (t : tok) : bool := match kind t with KError => true | _ => false end.
Fixpoint count_err (l : list tok) : N :=
  match l with
  | [] => 0
  | t :: r => (if is_error t then 1 else 0) + count_err r
  end.

Lemma is_error_mk_tok k v ty st en ln sol : k <> KError -> is_error (mk_tok k v ty st en ln sol) = false.
Proof. unfold is_error. cbn. destruct k; congruence. Qed.

(* the invariant of the main loop: [ntok] tokens are already in the buffer *)
Definition loop_post (cap errcap ntok nerr ln : N) (rest : list N) (toks : list tok) : Prop :=
  ntok + lenT toks + 2 <= cap /\
  lenT toks <= lenN rest /\
  (nerr <= errcap -> nerr + count_err toks <= errcap) /\
  (errcap <= nerr -> count_err toks = 0) /\
  Forall (fun t => ln <= line t) toks.

Lemma lex_loop_inv cap errcap : forall fuel rest pos ln sol ntok npay nerr,
  (length rest < fuel)%nat ->
  lr_prop (fun toks _ _ => loop_post cap errcap ntok nerr ln rest toks)
          (lex_loop_with push fuel rest pos ln sol ntok npay nerr cap errcap).
Proof.
  induction fuel as [|f IH]; intros rest pos ln sol ntok npay nerr Hf; [lia|].
  cbn [lex_loop_with]. destruct rest as [|x r].
  - destruct (N.leb_spec cap (ntok + 1)); cbn [lr_prop]; [exact I|].
    unfold loop_post. cbn [count_err]. repeat split; try llia. constructor.
  - cbn [length] in Hf.
    remember (lex_step_with push f x r pos) as s eqn:Hs.
    destruct (lex_step_ok_gen f x r pos ltac:(lia)) as (seg & Hr & He & Hact). rewrite <- Hs in *.
    assert (Hlen : (length (srest s) < f)%nat) by (rewrite Hr in Hf; rewrite app_length in Hf; lia).
    assert (HlenN : lenN (srest s) <= lenN r) by (rewrite Hr; rewrite lenN_app; lia).
    apply lr_prop_panic.
    destruct (act s) as [| |k v ty en|c st en|] eqn:Ha; cbn [act_ok] in Hact.
    + eapply lr_prop_impl; [|apply IH; exact Hlen]. cbn beta. unfold loop_post.
      intros l _ _ (H1 & H2 & H3 & H4 & H5). repeat split; try assumption. llia.
    + eapply lr_prop_impl; [|apply IH; exact Hlen]. cbn beta. unfold loop_post.
      intros l _ _ (H1 & H2 & H3 & H4 & H5). repeat split; try assumption; [llia|].
      eapply Forall_impl; [|exact H5]. cbn beta. intros; lia.
    + destruct Hact as (_ & _ & Hk).
      destruct ((has_payload k && (MAX_NUM_PAYLOADS <=? npay)) || (cap <=? ntok)); [exact I|].
      apply lr_prop_cons. eapply lr_prop_impl; [|apply IH; exact Hlen]. cbn beta. unfold loop_post.
      intros l _ _ (H1 & H2 & H3 & H4 & H5). cbn [count_err].
      rewrite is_error_mk_tok by assumption.
      split; [llia|]. split; [llia|]. split; [intros; rewrite N.add_0_l; auto|].
      split; [intros; rewrite N.add_0_l; auto|].
      constructor; [cbn; lia|assumption].
    + destruct (N.leb_spec errcap nerr) as [Hcap|Hcap].
      * eapply lr_prop_impl; [|apply IH; exact Hlen]. cbn beta. unfold loop_post.
        intros l _ _ (H1 & H2 & H3 & H4 & H5). repeat split; try assumption. llia.
      * destruct (cap <=? ntok); [exact I|].
        apply lr_prop_cons. eapply lr_prop_impl; [|apply IH; exact Hlen]. cbn beta. unfold loop_post.
        intros l _ _ (H1 & H2 & H3 & H4 & H5). cbn [count_err].
        change (is_error (mk_tok KError c None st en ln sol)) with true.
        split; [llia|]. split; [llia|].
        split; [intros _; specialize (H3 ltac:(lia)); lia|]. split; [intros; lia|].
        constructor; [cbn; lia|assumption].
    + contradiction.
Qed.

(* the loop cannot fail to allocate when the buffer is as large as the input *)
Lemma lex_loop_no_fail cap errcap : forall fuel rest pos ln sol ntok npay nerr,
  (length rest < fuel)%nat ->
  ntok + lenN rest + 2 <= cap -> npay + lenN rest <= MAX_NUM_PAYLOADS ->
  match lex_loop_with push fuel rest pos ln sol ntok npay nerr cap errcap with
  | Done _ _ _ _ => True
  | _ => False
  end.
Proof.
  induction fuel as [|f IH]; intros rest pos ln sol ntok npay nerr Hf Hc Hp; [lia|].
  cbn [lex_loop_with]. destruct rest as [|x r].
  - rewrite lenN_nil in Hc. destruct (N.leb_spec cap (ntok + 1)); [lia|exact I].
  - cbn [length] in Hf. rewrite lenN_cons in Hc, Hp.
    remember (lex_step_with push f x r pos) as s eqn:Hs.
    destruct (lex_step_ok_gen f x r pos ltac:(lia)) as (seg & Hr & He & Hact). rewrite <- Hs in *.
    assert (Hlen : (length (srest s) < f)%nat) by (rewrite Hr in Hf; rewrite app_length in Hf; lia).
    assert (HlenN : lenN (srest s) <= lenN r) by (rewrite Hr; rewrite lenN_app; lia).
    assert (Hpan : forall p0 r0, match r0 with Done _ _ _ _ => True | _ => False end ->
                     match lr_panic p0 r0 with Done _ _ _ _ => True | _ => False end)
      by (intros p0 [| |]; auto).
    assert (Hcons : forall t r0, match r0 with Done _ _ _ _ => True | _ => False end ->
                     match lr_cons t r0 with Done _ _ _ _ => True | _ => False end)
      by (intros t [| |]; auto).
    apply Hpan.
    destruct (act s) as [| |k v ty en|c st en|] eqn:Ha; cbn [act_ok] in Hact.
    + apply IH; [exact Hlen|lia|lia].
    + apply IH; [exact Hlen|lia|lia].
    + destruct (N.leb_spec MAX_NUM_PAYLOADS npay); [lia|].
      destruct (N.leb_spec cap ntok); [lia|]. rewrite andb_false_r. cbn [orb].
      apply Hcons. apply IH; [exact Hlen|lia|destruct (has_payload k); lia].
    + destruct (errcap <=? nerr); [apply IH; [exact Hlen|lia|lia]|].
      destruct (N.leb_spec cap ntok); [lia|].
      apply Hcons. apply IH; [exact Hlen|lia|lia].
    + contradiction.
Qed.

Lemma token_capacity_bounds n : 65536 <= token_capacity n <= MAX_NUM_TOKENS.
Proof. unfold token_capacity, MAX_NUM_TOKENS. lia. Qed.

Lemma lex_result_run src r : lex_result_with push src = LexRun r ->
  r = lex_loop_with push (S (length src)) src 0 1 0 0 1 0 (token_capacity (lenN src)) (error_capacity (lenN src))
  /\ 0 < lenN src <= MAX_SOURCE_LEN.
Proof.
  unfold lex_result_with. destruct (N.eqb_spec (lenN src) 0) as [H0|H0]; [discriminate|].
  destruct (N.ltb_spec MAX_SOURCE_LEN (lenN src)) as [H1|H1]; [discriminate|].
  intros Hr; inversion Hr. split; [reflexivity|lia].
Qed.

Lemma lex_result_post src toks ln sol p : lex_result_with push src = LexRun (Done toks ln sol p) ->
  loop_post (token_capacity (lenN src)) (error_capacity (lenN src)) 0 0 1 src toks.
Proof.
  intros H. apply lex_result_run in H as [H _].
  pose proof (lex_loop_inv (token_capacity (lenN src)) (error_capacity (lenN src))
                (S (length src)) src 0 1 0 0 1 0 ltac:(lia)) as Hinv.
  rewrite <- H in Hinv. exact Hinv.
Qed.

(* 4. total_gen: the fuel length + 1 is always enough *)
Theorem total_result_gen src : lex_result_with push src <> LexRun OutOfFuel.
Proof.
  intros H. apply lex_result_run in H as [H _].
  pose proof (lex_loop_inv (token_capacity (lenN src)) (error_capacity (lenN src))
                (S (length src)) src 0 1 0 0 1 0 ltac:(lia)) as Hinv.
  rewrite <- H in Hinv. exact Hinv.
Qed.

Theorem total_gen src : lex_delta_with push src <> [out_of_fuel_tok].
Proof.
  unfold lex_delta_with. destruct (lex_result_with push src) as [| |[|p|toks ln sol p]] eqn:Hr; try discriminate.
  - exfalso. eapply total_result_gen; eassumption.
  - apply lex_result_post in Hr as (_ & _ & _ & _ & Hl). intros ->.
    inversion Hl as [|? ? H1 _]; subst. cbn in H1. lia.
Qed.

(* 1. the `unsafe set_len` argument: unless the lexer reports E103, all tokens,
   the two EndOfSource tokens included, were written below the capacity *)
Theorem token_push_in_bounds_gen src :
  lex_delta_with push src = [err_tok0 E103] \/
  lenT (lex_delta_with push src) + num_end_tokens_with push src <= token_capacity (lenN src).
Proof.
  unfold lex_delta_with, num_end_tokens_with.
  pose proof (token_capacity_bounds (lenN src)) as Hc.
  destruct (lex_result_with push src) as [| |[|p|toks ln sol p]] eqn:Hr.
  - right. cbn. lia.
  - right. cbn. lia.
  - right. cbn. lia.
  - now left.
  - right. apply lex_result_post in Hr as (H1 & _). lia.
Qed.

(* the same, on the run itself: the last write index is [lenT toks + 1] *)
Theorem token_push_in_bounds_run_gen src toks ln sol p :
  lex_result_with push src = LexRun (Done toks ln sol p) ->
  lenT toks + 1 < token_capacity (lenN src).
Proof. intros Hr. apply lex_result_post in Hr as (H1 & _). lia. Qed.

(* every token consumes at least one byte *)
Theorem tokens_le_bytes_gen src toks ln sol p :
  lex_result_with push src = LexRun (Done toks ln sol p) -> lenT toks <= lenN src.
Proof. intros Hr. apply lex_result_post in Hr as (_ & H2 & _). exact H2. Qed.

Theorem tokens_le_bytes_plus_k_gen src :
  lenT (lex_delta_with push src) + num_end_tokens_with push src <= lenN src + 2.
Proof.
  unfold lex_delta_with, num_end_tokens_with.
  destruct (lex_result_with push src) as [| |[|p|toks ln sol p]] eqn:Hr; try (cbn; lia).
  apply tokens_le_bytes_gen in Hr. lia.
Qed.

(* consequently E103 is impossible below 65535 bytes (ex_too_many_tokens shows
   that 65535 bytes can already trigger it) *)
Theorem no_E103_small_gen src : lenN src + 2 <= 65536 -> lex_delta_with push src <> [err_tok0 E103].
Proof.
  intros Hlen. unfold lex_delta_with.
  destruct (lex_result_with push src) as [| |[|p|toks ln sol p]] eqn:Hr; try discriminate.
  - exfalso. apply lex_result_run in Hr as [Hr _].
    pose proof (lex_loop_no_fail (token_capacity (lenN src)) (error_capacity (lenN src))
                  (S (length src)) src 0 1 0 0 1 0 ltac:(lia)) as Hnf.
    rewrite <- Hr in Hnf. apply Hnf.
    + pose proof (token_capacity_bounds (lenN src)). lia.
    + unfold MAX_NUM_PAYLOADS. lia.
  - apply lex_result_post in Hr as (_ & _ & _ & _ & Hl). intros ->.
    inversion Hl as [|? ? H1 _]; subst. cbn in H1. lia.
Qed.

(* 5. at most MAX_NUM_LEXING_ERRORS error tokens exist; an error after the cap
   leaves NO token (neither BaseToken::Error nor anything else) *)
Theorem errors_capped_gen src : count_err (lex_delta_with push src) <= MAX_NUM_LEXING_ERRORS.
Proof.
  unfold lex_delta_with, MAX_NUM_LEXING_ERRORS.
  destruct (lex_result_with push src) as [| |[|p|toks ln sol p]] eqn:Hr; try (cbn; lia).
  apply lex_result_post in Hr as (_ & _ & H3 & _). unfold error_capacity, MAX_NUM_LEXING_ERRORS in H3. lia.
Qed.

Theorem errors_capped_by_length_gen src toks ln sol p :
  lex_result_with push src = LexRun (Done toks ln sol p) -> count_err toks <= error_capacity (lenN src).
Proof. intros Hr. apply lex_result_post in Hr as (_ & _ & H3 & _). lia. Qed.

(* once the cap is reached the rest of the source yields no error token at all *)
Theorem errors_dropped_after_cap_gen cap errcap fuel rest pos ln sol ntok npay nerr toks l2 s2 p :
  (length rest < fuel)%nat -> errcap <= nerr ->
  lex_loop_with push fuel rest pos ln sol ntok npay nerr cap errcap = Done toks l2 s2 p ->
  count_err toks = 0.
Proof.
  intros Hf Hc H. pose proof (lex_loop_inv cap errcap fuel rest pos ln sol ntok npay nerr Hf) as Hinv.
  rewrite H in Hinv. destruct Hinv as (_ & _ & _ & H4 & _). auto.
Qed.

(* ---- from one step to the whole source ----------------------------------- *)
Lemma lex_delta_single_tok x r k v ty en p :
  lenN (x :: r) <= MAX_SOURCE_LEN ->
  lex_step_with push (S (length r)) x r 0 = {| act := ATok k v ty en; srest := []; send := en; spanic := p |} ->
  lex_delta_with push (x :: r) = [mk_tok k v ty 0 en 1 0] /\ would_overflow_panic_with push (x :: r) = p /\
  num_end_tokens_with push (x :: r) = 2.
Proof.
  intros Hlen Hs. unfold lex_delta_with, would_overflow_panic_with, num_end_tokens_with, lex_result_with.
  destruct (N.eqb_spec (lenN (x :: r)) 0) as [H0|_]; [rewrite lenN_cons in H0; lia|].
  destruct (N.ltb_spec MAX_SOURCE_LEN (lenN (x :: r))) as [H1|_]; [lia|].
  pose proof (token_capacity_bounds (lenN (x :: r))) as Hc.
  cbn [lex_loop_with length]. rewrite Hs. cbn [act srest send spanic].
  replace (MAX_NUM_PAYLOADS <=? 1) with false by reflexivity. rewrite andb_false_r. cbn [orb].
  destruct (N.leb_spec (token_capacity (lenN (x :: r))) 0) as [H2|_]; [lia|].
  destruct (N.leb_spec (token_capacity (lenN (x :: r))) (0 + 1 + 1)) as [H2|_]; [lia|].
  cbn [lr_cons lr_panic]. rewrite orb_false_r. auto.
Qed.

Lemma lex_delta_single_err x r c st en p :
  lenN (x :: r) <= MAX_SOURCE_LEN ->
  lex_step_with push (S (length r)) x r 0 = {| act := AErr c st en; srest := []; send := en; spanic := p |} ->
  lex_delta_with push (x :: r) = [mk_tok KError c None st en 1 0] /\ would_overflow_panic_with push (x :: r) = p /\
  num_end_tokens_with push (x :: r) = 2.
Proof.
  intros Hlen Hs. unfold lex_delta_with, would_overflow_panic_with, num_end_tokens_with, lex_result_with.
  destruct (N.eqb_spec (lenN (x :: r)) 0) as [H0|_]; [rewrite lenN_cons in H0; lia|].
  destruct (N.ltb_spec MAX_SOURCE_LEN (lenN (x :: r))) as [H1|_]; [lia|].
  pose proof (token_capacity_bounds (lenN (x :: r))) as Hc.
  cbn [lex_loop_with length]. rewrite Hs. cbn [act srest send spanic].
  destruct (N.leb_spec (error_capacity (lenN (x :: r))) 0) as [H2|_].
  { unfold error_capacity, MAX_NUM_LEXING_ERRORS in H2. rewrite lenN_cons in H2. lia. }
  destruct (N.leb_spec (token_capacity (lenN (x :: r))) 0) as [H2|_]; [lia|].
  destruct (N.leb_spec (token_capacity (lenN (x :: r))) (0 + 1 + 1)) as [H2|_]; [lia|].
  cbn [lr_cons lr_panic]. rewrite orb_false_r. auto.
Qed.

End Generic.

(* Ltac definitions do not survive the section *)
Ltac llia := rewrite ?lenN_app, ?lenN_cons, ?lenN_nil, ?lenT_cons, ?lenT_nil in *; lia.

(* ========================================================================== *)
(* 3b. The panic flag; the theorems above for the CURRENT lexer               *)
(* ========================================================================== *)
(* if the accumulation step never raises the flag, no iteration does *)
Lemma scan_dec_no_panic push :
  (forall a d, dpanic a = false -> dpanic (push a d) = false) ->
  forall l a e a' e' l', dpanic a = false -> scan_dec_with push a e l = (a', e', l') -> dpanic a' = false.
Proof.
  intros Hpush. induction l as [|y r IH]; intros a e a' e' l' Ha H; cbn [scan_dec_with] in H.
  - inversion H; subst. exact Ha.
  - destruct (dec_digit y) as [d|].
    + eapply IH; [|exact H]. apply Hpush. exact Ha.
    + destruct (y =? 95); [eapply IH; eassumption|]. inversion H; subst. exact Ha.
Qed.

Lemma lex_step_no_panic push f x r i :
  (forall a d, dpanic a = false -> dpanic (push a d) = false) ->
  spanic (lex_step_with push f x r i) = false.
Proof.
  intros Hpush. unfold lex_step_with.
  destruct ((x =? 32) || (x =? 9) || (x =? 13)); [reflexivity|].
  destruct (x =? 10); [reflexivity|].
  destruct (x =? 47).
  { destruct r as [|y r']; [reflexivity|]. destruct (y =? 47); [|reflexivity].
    destruct (span_while _ r'). reflexivity. }
  destruct (assoc_N x punct_table) as [[seconds k1]|].
  { destruct r as [|y r']; [reflexivity|]. destruct (assoc_N y seconds); reflexivity. }
  destruct (is_ident_start x).
  { unfold lex_ident. destruct (span_while _ r) as [t r1].
    destruct (lookup_keyword (x :: t)) as [[[k v] ty]|]; [reflexivity|].
    destruct r1 as [|y r2]; [reflexivity|]. destruct (y =? 33); reflexivity. }
  destruct (x =? 48).
  { unfold lex_zero. destruct (zero_prefix r (i + 1)) as [[[val eol] e1] r1].
    destruct (span_while _ r1). reflexivity. }
  destruct (in_range 49 57 x).
  { unfold lex_decimal_with. destruct (scan_dec_with push _ (i + 1) r) as [[a e1] r1] eqn:Hd.
    destruct (span_while _ r1). cbn [spanic]. eapply scan_dec_no_panic; [exact Hpush| |exact Hd]. reflexivity. }
  destruct (x =? 39); [unfold lex_literal; destruct (scan_lit _ _ _ _ _ _) as [[[s e] r']|]; reflexivity|].
  destruct (x =? 34); [unfold lex_literal; destruct (scan_lit _ _ _ _ _ _) as [[[s e] r']|]; reflexivity|].
  reflexivity.
Qed.

Definition lr_flag (r : loop_result) : bool :=
  match r with OutOfFuel => false | AllocFail p => p | Done _ _ _ p => p end.

Lemma lex_loop_no_panic push cap errcap :
  (forall a d, dpanic a = false -> dpanic (push a d) = false) ->
  forall fuel rest pos ln sol ntok npay nerr,
    lr_flag (lex_loop_with push fuel rest pos ln sol ntok npay nerr cap errcap) = false.
Proof.
  intros Hpush. induction fuel as [|f IH]; intros rest pos ln sol ntok npay nerr; [reflexivity|].
  cbn [lex_loop_with]. destruct rest as [|x r].
  - destruct (cap <=? ntok + 1); reflexivity.
  - rewrite (lex_step_no_panic push f x r pos Hpush).
    assert (Hp : forall r0, lr_flag r0 = false -> lr_flag (lr_panic false r0) = false) by (intros [| |]; auto).
    assert (Hc : forall t r0, lr_flag r0 = false -> lr_flag (lr_cons t r0) = false) by (intros t [| |]; auto).
    apply Hp. destruct (act (lex_step_with push f x r pos)) as [| |k v ty en|c st en|]; try apply IH; try reflexivity.
    + destruct ((has_payload k && (MAX_NUM_PAYLOADS <=? npay)) || (cap <=? ntok)); [reflexivity|]. apply Hc, IH.
    + destruct (errcap <=? nerr); [apply IH|]. destruct (cap <=? ntok); [reflexivity|]. apply Hc, IH.
Qed.

(* since the repair nothing in the lexer can overflow *)
Theorem would_overflow_panic_never : forall src, would_overflow_panic src = false.
Proof.
  intros src. unfold would_overflow_panic, would_overflow_panic_with, lex_result_with.
  destruct (lenN src =? 0); [reflexivity|]. destruct (MAX_SOURCE_LEN <? lenN src); [reflexivity|].
  pose proof (lex_loop_no_panic dec_push (token_capacity (lenN src)) (error_capacity (lenN src))
                ltac:(intros a d H; exact H) (S (length src)) src 0 1 0 0 1 0) as H.
  destruct (lex_loop_with dec_push _ _ _ _ _ _ _ _ _ _) as [|p|toks ln sol p]; [reflexivity|exact H|exact H].
Qed.

(* ---- instances for the CURRENT lexer ([push] = [dec_push]) ------------------ *)
Theorem lex_step_ok fuel x r i : (length r < fuel)%nat -> step_ok x r i (lex_step fuel x r i).
Proof. apply (lex_step_ok_gen dec_push). Qed.
Corollary lex_step_progress fuel x r i : (length r < fuel)%nat ->
  (length (srest (lex_step fuel x r i)) <= length r)%nat /\ i < send (lex_step fuel x r i).
Proof. apply (lex_step_progress_gen dec_push). Qed.
Theorem total_result src : lex_result src <> LexRun OutOfFuel.
Proof. apply (total_result_gen dec_push). Qed.
Theorem total src : lex_delta src <> [out_of_fuel_tok].
Proof. apply (total_gen dec_push). Qed.
Theorem token_push_in_bounds src :
  lex_delta src = [err_tok0 E103] \/
  lenT (lex_delta src) + num_end_tokens src <= token_capacity (lenN src).
Proof. apply (token_push_in_bounds_gen dec_push). Qed.
Theorem token_push_in_bounds_run src toks ln sol p :
  lex_result src = LexRun (Done toks ln sol p) -> lenT toks + 1 < token_capacity (lenN src).
Proof. apply (token_push_in_bounds_run_gen dec_push). Qed.
Theorem tokens_le_bytes src toks ln sol p :
  lex_result src = LexRun (Done toks ln sol p) -> lenT toks <= lenN src.
Proof. apply (tokens_le_bytes_gen dec_push). Qed.
Theorem tokens_le_bytes_plus_k src : lenT (lex_delta src) + num_end_tokens src <= lenN src + 2.
Proof. apply (tokens_le_bytes_plus_k_gen dec_push). Qed.
Theorem no_E103_small src : lenN src + 2 <= 65536 -> lex_delta src <> [err_tok0 E103].
Proof. apply (no_E103_small_gen dec_push). Qed.
Theorem errors_capped src : count_err (lex_delta src) <= MAX_NUM_LEXING_ERRORS.
Proof. apply (errors_capped_gen dec_push). Qed.
Theorem errors_capped_by_length src toks ln sol p :
  lex_result src = LexRun (Done toks ln sol p) -> count_err toks <= error_capacity (lenN src).
Proof. apply (errors_capped_by_length_gen dec_push). Qed.
Theorem errors_dropped_after_cap cap errcap fuel rest pos ln sol ntok npay nerr toks l2 s2 p :
  (length rest < fuel)%nat -> errcap <= nerr ->
  lex_loop fuel rest pos ln sol ntok npay nerr cap errcap = Done toks l2 s2 p ->
  count_err toks = 0.
Proof. apply (errors_dropped_after_cap_gen dec_push). Qed.

(* ========================================================================== *)
(* 4. Values of integer literals                                              *)
(* ========================================================================== *)
(* ---- specification: the number a digit string denotes -------------------- *)
Fixpoint dec_value (acc : N) (l : list N) : N :=
  match l with
  | [] => acc
  | y :: r => match dec_digit y with
              | Some d => dec_value (acc * 10 + d) r
              | None => dec_value acc r
              end
  end.
Fixpoint hex_value (acc : N) (l : list N) : N :=
  match l with
  | [] => acc
  | y :: r => match hex_digit y with
              | Some d => hex_value (acc * 16 + d) r
              | None => hex_value acc r
              end
  end.
Definition is_dec_body (l : list N) : bool := forallb (fun y => in_range 48 57 y || (y =? 95)) l.
Definition is_hex_body (l : list N) : bool :=
  forallb (fun y => match hex_digit y with Some _ => true | None => y =? 95 end) l.
Definition has_hex_digit (l : list N) : bool :=
  existsb (fun y => match hex_digit y with Some _ => true | None => false end) l.
(* the literal is followed by the end of the source or by a byte that cannot
   continue an identifier (otherwise that byte starts a type suffix) *)
Definition ends_token (tail : list N) : bool :=
  match tail with [] => true | y :: _ => negb (is_ident_cont y) end.

Lemma digit_cases y : in_range 48 57 y = true ->
  y = 48 \/ y = 49 \/ y = 50 \/ y = 51 \/ y = 52 \/ y = 53 \/ y = 54 \/ y = 55 \/ y = 56 \/ y = 57.
Proof. unfold in_range. intros H. apply andb_true_iff in H as [H1 H2]. apply N.leb_le in H1, H2. lia. Qed.

Lemma dec_digit_spec y : in_range 48 57 y = true -> dec_digit y = Some (y - 48) /\ y - 48 <= 9.
Proof.
  intros H. unfold dec_digit. rewrite H. apply digit_cases in H.
  repeat (destruct H as [->|H]; [split; [reflexivity|vm_compute; discriminate]|]).
  subst; split; [reflexivity|vm_compute; discriminate].
Qed.
Lemma dec_digit_le9 y d : dec_digit y = Some d -> d <= 9 /\ is_ident_cont y = true.
Proof.
  unfold dec_digit. destruct (in_range 48 57 y) eqn:Hr; [|discriminate].
  destruct (dec_digit_spec y Hr) as [Hd Hle]. unfold dec_digit in Hd. rewrite Hr in Hd.
  intros H. rewrite H in Hd. inversion Hd; subst. split; [assumption|].
  unfold is_ident_cont. rewrite Hr. apply orb_true_iff. left. apply orb_true_r.
Qed.

Lemma not_cont_dec y : is_ident_cont y = false -> dec_digit y = None /\ (y =? 95) = false.
Proof.
  unfold is_ident_cont, dec_digit. intros H.
  apply orb_false_iff in H as [H H95]. apply orb_false_iff in H as [_ Hd]. rewrite Hd. auto.
Qed.

Lemma span_while_stop tail : ends_token tail = true -> span_while is_ident_cont tail = ([], tail).
Proof.
  destruct tail as [|y t]; [reflexivity|]. cbn [ends_token span_while]. intros H.
  apply negb_true_iff in H. rewrite H. reflexivity.
Qed.

(* weaker "what follows the digits" conditions, enough for the scanners *)
Definition dec_stops (rest : list N) : Prop :=
  match rest with [] => True | y :: _ => dec_digit y = None /\ (y =? 95) = false end.
Definition hex_stops (rest : list N) : Prop :=
  match rest with [] => True | y :: _ => hex_digit y = None /\ (y =? 95) = false end.
Definition bin_stops (rest : list N) : Prop :=
  match rest with [] => True | y :: _ => (y =? 48) = false /\ (y =? 49) = false /\ (y =? 95) = false end.
Lemma ends_dec_stops tail : ends_token tail = true -> dec_stops tail.
Proof. destruct tail as [|y t]; [exact (fun _ => I)|]. cbn [ends_token dec_stops]. intros H. apply negb_true_iff in H. now apply not_cont_dec. Qed.

(* ---- decimal ------------------------------------------------------------- *)
Fixpoint dfold (push : dacc -> N -> dacc) (a : dacc) (l : list N) : dacc :=
  match l with
  | [] => a
  | y :: r => dfold push (match dec_digit y with Some d => push a d | None => a end) r
  end.

Lemma scan_dec_body push : forall body a e tail, is_dec_body body = true -> dec_stops tail ->
  scan_dec_with push a e (body ++ tail) = (dfold push a body, e + lenN body, tail).
Proof.
  induction body as [|y body IH]; intros a e tail Hb Ht.
  - cbn [app dfold]. rewrite lenN_nil, N.add_0_r.
    destruct tail as [|z t]; [reflexivity|]. destruct Ht as [Hd H95].
    cbn [scan_dec_with]. rewrite Hd, H95. reflexivity.
  - cbn [is_dec_body forallb] in Hb. apply andb_true_iff in Hb as [Hy Hb].
    cbn [app scan_dec_with dfold]. rewrite lenN_cons.
    destruct (dec_digit y) as [d|] eqn:Hd.
    + rewrite IH by assumption. f_equal. f_equal. lia.
    + unfold dec_digit in Hd. destruct (in_range 48 57 y); [discriminate|]. cbn [orb] in Hy.
      rewrite Hy. rewrite IH by assumption. f_equal. f_equal. lia.
Qed.

Lemma dec_value_mono : forall l acc, acc <= dec_value acc l.
Proof.
  induction l as [|y l IH]; intros acc; cbn [dec_value]; [lia|].
  destruct (dec_digit y); [|apply IH]. etransitivity; [|apply IH]. lia.
Qed.

(* the accumulator tracks the mathematical value [m] until it reaches 2^128, and
   remembers that it did *)
Definition dinv (a : dacc) (m : N) : Prop :=
  (dov a = false -> dval a = m /\ m < two128) /\ (dov a = true -> two128 <= m).

(* CURRENT code: both steps are checked, the invariant holds unconditionally *)
Lemma dec_push_inv a m d : dinv a m -> dinv (dec_push a d) (m * 10 + d).
Proof.
  intros [H0 H1]. unfold dec_push, dinv. cbn [dval dov].
  destruct (dov a).
  - specialize (H1 eq_refl). cbn [orb]. split; [discriminate|]. intros _. lia.
  - destruct (H0 eq_refl) as [Hv Hm]. rewrite Hv in *. cbn [orb].
    destruct (N.leb_spec two128 (m * 10)) as [Hov|Hov]; cbn [orb].
    + split; [discriminate|]. intros _. lia.
    + destruct (N.leb_spec two128 (m * 10 + d)) as [Hov2|Hov2].
      * split; [discriminate|]. intros _. lia.
      * split; [|discriminate]. intros _. split; [reflexivity|lia].
Qed.

Lemma dec_push_keeps_panic a d : dpanic (dec_push a d) = dpanic a.
Proof. reflexivity. Qed.

Lemma dfold_inv : forall l a m, dinv a m -> dinv (dfold dec_push a l) (dec_value m l).
Proof.
  induction l as [|y l IH]; intros a m Hi; cbn [dfold dec_value] in *; [exact Hi|].
  destruct (dec_digit y) as [d|] eqn:Hd; [|apply IH; assumption].
  apply IH. apply dec_push_inv. assumption.
Qed.

Lemma dfold_keeps_panic : forall l a, dpanic (dfold dec_push a l) = dpanic a.
Proof.
  induction l as [|y l IH]; intros a; cbn [dfold]; [reflexivity|].
  rewrite IH. destruct (dec_digit y); reflexivity.
Qed.

Lemma lex_step_decimal push f x r i : in_range 49 57 x = true ->
  lex_step_with push f x r i = lex_decimal_with push x r i.
Proof.
  intros H. assert (Hc : x = 49 \/ x = 50 \/ x = 51 \/ x = 52 \/ x = 53 \/ x = 54 \/ x = 55 \/ x = 56 \/ x = 57).
  { unfold in_range in H. apply andb_true_iff in H as [H1 H2]. apply N.leb_le in H1, H2. lia. }
  repeat (destruct Hc as [->|Hc]; [reflexivity|]). subst. reflexivity.
Qed.

Lemma first_digit x : in_range 49 57 x = true -> N.land x 15 = x - 48.
Proof.
  intros H. assert (Hr : in_range 48 57 x = true).
  { unfold in_range in *. apply andb_true_iff in H as [H1 H2]. apply N.leb_le in H1, H2.
    apply andb_true_iff. split; apply N.leb_le; lia. }
  destruct (dec_digit_spec x Hr) as [Hd _]. unfold dec_digit in Hd. rewrite Hr in Hd. now inversion Hd.
Qed.

(* one step of the main loop on a decimal literal (CURRENT code): unconditional *)
Theorem decimal_step f x body tail i :
  in_range 49 57 x = true -> is_dec_body body = true -> ends_token tail = true ->
  let s := lex_step f x (body ++ tail) i in
  let M := dec_value (x - 48) body in
  let e := i + 1 + lenN body in
  srest s = tail /\ send s = e /\ spanic s = false /\
  act s = if M <? two128 then ATok KNakedDecimal (Z.of_N M) None e else AErr E140 i e.
Proof.
  intros Hx Hb Ht. cbv zeta. unfold lex_step. rewrite lex_step_decimal by assumption. unfold lex_decimal_with.
  rewrite scan_dec_body by (try assumption; now apply ends_dec_stops). rewrite span_while_stop by assumption.
  cbn [srest send act spanic]. rewrite lenN_nil, N.add_0_r.
  rewrite first_digit by assumption.
  set (a0 := {| dval := x - 48; dov := false; dpanic := false |}).
  assert (Hx48 : x - 48 <= 9).
  { unfold in_range in Hx. apply andb_true_iff in Hx as [H1 H2]. apply N.leb_le in H1, H2. lia. }
  assert (Hi0 : dinv a0 (x - 48)).
  { split; [|discriminate]. intros _. split; [reflexivity|]. unfold two128. lia. }
  split; [reflexivity|]. split; [reflexivity|]. split; [apply dfold_keeps_panic|].
  destruct (dfold_inv body a0 _ Hi0) as [H0 H1].
  destruct (dov (dfold dec_push a0 body)).
  - specialize (H1 eq_refl). destruct (N.ltb_spec (dec_value (x - 48) body) two128); [lia|reflexivity].
  - destruct (H0 eq_refl) as [Hv Hm]. rewrite Hv.
    destruct (N.ltb_spec (dec_value (x - 48) body) two128); [reflexivity|lia].
Qed.

Lemma step_eta (s : step) : s = {| act := act s; srest := srest s; send := send s; spanic := spanic s |}.
Proof. destruct s; reflexivity. Qed.

(* 2. a source consisting of one decimal literal (CURRENT code): KNakedDecimal M
   below 2^128, E140 from 2^128 on, no side condition *)
Theorem decimal_value_delta x body :
  in_range 49 57 x = true -> is_dec_body body = true -> lenN (x :: body) <= MAX_SOURCE_LEN ->
  let M := dec_value (x - 48) body in
  let n := lenN (x :: body) in
  lex_delta (x :: body) =
    [if M <? two128 then mk_tok KNakedDecimal (Z.of_N M) None 0 n 1 0 else mk_tok KError E140 None 0 n 1 0].
Proof.
  intros Hx Hb Hlen. cbv zeta.
  pose proof (decimal_step (S (length body)) x body [] 0 Hx Hb eq_refl) as Hs.
  cbv zeta in Hs. rewrite app_nil_r in Hs. destruct Hs as (Hr & He & Hp & Ha).
  assert (Hn : 0 + 1 + lenN body = lenN (x :: body)) by (rewrite lenN_cons; lia).
  rewrite Hn in *.
  pose proof (step_eta (lex_step (S (length body)) x body 0)) as Heta.
  rewrite Hr, He, Hp, Ha in Heta.
  destruct (dec_value (x - 48) body <? two128).
  - destruct (lex_delta_single_tok dec_push _ _ _ _ _ _ _ Hlen Heta) as (H1 & _). exact H1.
  - destruct (lex_delta_single_err dec_push _ _ _ _ _ _ Hlen Heta) as (H1 & _). exact H1.
Qed.

(* ---- the PINNED accumulation (defect D4) ----------------------------------- *)
(* the window in which the unchecked add overflowed *)
Definition K_wrap : N := 34028236692093846346337460743176821145.

(* exactly which accumulator/digit pairs made `value += digit` overflow *)
Lemma dec_push_pinned_panics_iff a d : d <= 9 -> dval a < two128 -> dpanic a = false ->
  (dpanic (dec_push_pinned a d) = true <-> dval a = K_wrap /\ 6 <= d).
Proof.
  intros Hd Hv Hp. unfold dec_push_pinned. cbn [dpanic]. rewrite Hp. cbn [orb].
  unfold two128, K_wrap in *.
  destruct (N.leb_spec 340282366920938463463374607431768211456 (dval a * 10)) as [Hm|Hm].
  - rewrite N.add_0_l. split.
    + intros H. apply N.leb_le in H. lia.
    + intros [H1 H2]. lia.
  - split.
    + intros H. apply N.leb_le in H. lia.
    + intros [H1 H2]. apply N.leb_le. lia.
Qed.

(* the natural statement (E140 for EVERY value >= 2^128) was false for the pinned
   code: the literal 2^128 itself lexed to NakedDecimal 0 in a release build and
   panicked in a debug build.  The current code gives E140. *)
Theorem decimal_value_delta_refuted :
  exists x body,
    in_range 49 57 x = true /\ is_dec_body body = true /\ lenN (x :: body) <= MAX_SOURCE_LEN /\
    two128 <= dec_value (x - 48) body /\
    lex_delta_pinned (x :: body) = [mk_tok KNakedDecimal 0 None 0 39 1 0] /\
    would_overflow_panic_pinned (x :: body) = true /\
    lex_delta (x :: body) = [mk_tok KError E140 None 0 39 1 0].
Proof.
  exists 51, (bs "40282366920938463463374607431768211456"). vm_compute.
  repeat split; discriminate.
Qed.

(* pinned: all four values 2^128 .. 2^128+3 wrapped to 0 .. 3; current: E140 *)
Example decimal_wrap_window :
  map (fun s => (map (fun t => (kind t, value t)) (lex_delta_pinned s), map (fun t => (kind t, value t)) (lex_delta s)))
      [bs "340282366920938463463374607431768211455"; bs "340282366920938463463374607431768211456";
       bs "340282366920938463463374607431768211457"; bs "340282366920938463463374607431768211458";
       bs "340282366920938463463374607431768211459"; bs "340282366920938463463374607431768211460"] =
  [([(KNakedDecimal, 340282366920938463463374607431768211455%Z)], [(KNakedDecimal, 340282366920938463463374607431768211455%Z)]);
   ([(KNakedDecimal, 0%Z)], [(KError, E140)]); ([(KNakedDecimal, 1%Z)], [(KError, E140)]);
   ([(KNakedDecimal, 2%Z)], [(KError, E140)]); ([(KNakedDecimal, 3%Z)], [(KError, E140)]);
   ([(KError, E140)], [(KError, E140)])].
Proof. vm_compute. reflexivity. Qed.

(* ---- hexadecimal ---------------------------------------------------------- *)
Ltac bool_lia :=
  unfold is_ident_cont, is_alpha, in_range in *;
  repeat rewrite ?orb_true_iff, ?andb_true_iff, ?orb_false_iff, ?andb_false_iff,
                 ?N.leb_le, ?N.leb_gt, ?N.eqb_eq, ?N.eqb_neq in *; lia.

Lemma hex_digit_cont y h : hex_digit y = Some h -> is_ident_cont y = true.
Proof.
  unfold hex_digit. destruct (in_range 65 70 y) eqn:H1; [intros _; bool_lia|].
  destruct (in_range 97 102 y) eqn:H2; [intros _; bool_lia|].
  destruct (in_range 48 57 y) eqn:H3; [intros _; bool_lia|discriminate].
Qed.

Lemma hex_digit_lt16 y h : hex_digit y = Some h -> h < 16.
Proof.
  unfold hex_digit.
  destruct (in_range 65 70 y) eqn:H1.
  { intros H; inversion H; subst h.
    assert (Hc : y = 65 \/ y = 66 \/ y = 67 \/ y = 68 \/ y = 69 \/ y = 70) by bool_lia.
    repeat (destruct Hc as [->|Hc]; [reflexivity|]). subst; reflexivity. }
  destruct (in_range 97 102 y) eqn:H2.
  { intros H; inversion H; subst h.
    assert (Hc : y = 97 \/ y = 98 \/ y = 99 \/ y = 100 \/ y = 101 \/ y = 102) by bool_lia.
    repeat (destruct Hc as [->|Hc]; [reflexivity|]). subst; reflexivity. }
  destruct (in_range 48 57 y) eqn:H3; [|discriminate].
  intros H; inversion H; subst h. apply digit_cases in H3.
  repeat (destruct H3 as [->|H3]; [reflexivity|]). subst; reflexivity.
Qed.

Lemma not_cont_hex y : is_ident_cont y = false -> hex_digit y = None /\ (y =? 95) = false.
Proof.
  intros H. split.
  - destruct (hex_digit y) as [h|] eqn:Hh; [|reflexivity]. apply hex_digit_cont in Hh. congruence.
  - unfold is_ident_cont in H. apply orb_false_iff in H. tauto.
Qed.

Lemma land_shiftl_small m h k : h < 2 ^ k -> N.land (N.shiftl m k) h = 0.
Proof.
  intros Hh. apply N.bits_inj. intros n. rewrite N.land_spec, N.bits_0.
  destruct (N.lt_ge_cases n k) as [Hn|Hn].
  - rewrite N.shiftl_spec_low by assumption. reflexivity.
  - destruct (N.eq_dec h 0) as [->|Hh0]; [rewrite N.bits_0; apply andb_false_r|].
    rewrite (N.bits_above_log2 h n); [apply andb_false_r|].
    apply N.lt_le_trans with k; [|assumption]. apply N.log2_lt_pow2; lia.
Qed.

Lemma lor_shiftl_add m h k : h < 2 ^ k -> N.lor (N.shiftl m k) h = m * 2 ^ k + h.
Proof.
  intros Hh. rewrite <- N.lxor_lor by (apply land_shiftl_small; assumption).
  rewrite <- N.add_nocarry_lxor by (apply land_shiftl_small; assumption).
  rewrite N.shiftl_mul_pow2. reflexivity.
Qed.

Lemma lor_mul16 m h : h < 16 -> N.lor (m * 16) h = m * 16 + h.
Proof.
  intros Hh. pose proof (lor_shiftl_add m h 4 Hh) as H. rewrite N.shiftl_mul_pow2 in H. exact H.
Qed.

Fixpoint hfold (a : hacc) (l : list N) : hacc :=
  match l with
  | [] => a
  | y :: r => hfold (match hex_digit y with Some d => hex_push a d | None => a end) r
  end.

Lemma ends_hex_stops tail : ends_token tail = true -> hex_stops tail.
Proof. destruct tail as [|y t]; [exact (fun _ => I)|]. cbn [ends_token hex_stops]. intros H. apply negb_true_iff in H. now apply not_cont_hex. Qed.

Lemma scan_hex_body : forall body a e tail, is_hex_body body = true -> hex_stops tail ->
  scan_hex a e (body ++ tail) = (hfold a body, e + lenN body, tail).
Proof.
  induction body as [|y body IH]; intros a e tail Hb Ht.
  - cbn [app hfold]. rewrite lenN_nil, N.add_0_r.
    destruct tail as [|z t]; [reflexivity|]. destruct Ht as [Hd H95].
    cbn [scan_hex]. rewrite Hd, H95. reflexivity.
  - cbn [is_hex_body forallb] in Hb. apply andb_true_iff in Hb as [Hy Hb].
    cbn [app scan_hex hfold]. rewrite lenN_cons.
    destruct (hex_digit y) as [d|] eqn:Hd.
    + rewrite IH by assumption. f_equal. f_equal. lia.
    + rewrite Hy. rewrite IH by assumption. f_equal. f_equal. lia.
Qed.

Definition hinv (a : hacc) (m : N) : Prop :=
  (hov a = false -> hval a = m /\ m < two128) /\ (hov a = true -> two128 <= m).

Lemma hex_push_inv a m h : h < 16 -> hinv a m -> hinv (hex_push a h) (m * 16 + h).
Proof.
  intros Hh [H0 H1]. unfold hex_push, hinv. cbn [hval hov].
  destruct (hov a).
  - specialize (H1 eq_refl). cbn [orb]. split; [discriminate|]. intros _. lia.
  - destruct (H0 eq_refl) as [Hv Hm]. rewrite Hv in *. cbn [orb].
    destruct (N.leb_spec two128 (m * 16)) as [Hov|Hov].
    + split; [discriminate|]. intros _. lia.
    + split; [|discriminate]. intros _. rewrite lor_mul16 by assumption.
      split; [reflexivity|]. unfold two128 in *. lia.
Qed.

Lemma hfold_inv : forall l a m, hinv a m -> hinv (hfold a l) (hex_value m l).
Proof.
  induction l as [|y l IH]; intros a m Hi; cbn [hfold hex_value]; [exact Hi|].
  destruct (hex_digit y) as [d|] eqn:Hd; [|apply IH; assumption].
  apply IH. apply hex_push_inv; [eapply hex_digit_lt16; eassumption|assumption].
Qed.

Lemma hfold_digits : forall l a, hdigits (hfold a l) = hdigits a || has_hex_digit l.
Proof.
  induction l as [|y l IH]; intros a; cbn [hfold has_hex_digit existsb]; [now rewrite orb_false_r|].
  rewrite IH. destruct (hex_digit y); cbn [hex_push hdigits orb]; [now rewrite orb_true_r|reflexivity].
Qed.

(* one step of the main loop on `0x` + digits *)
Theorem hex_step f body tail i :
  is_hex_body body = true -> has_hex_digit body = true -> ends_token tail = true ->
  let s := lex_step f 48 (120 :: body ++ tail) i in
  let M := hex_value 0 body in
  let e := i + 2 + lenN body in
  srest s = tail /\ send s = e /\ spanic s = false /\
  act s = if M <? two128 then ATok KBitInteger (Z.of_N M) None e else AErr E140 i e.
Proof.
  intros Hb Hd Ht. cbv zeta. change (lex_step f 48 (120 :: body ++ tail) i) with (lex_zero (120 :: body ++ tail) i).
  unfold lex_zero, zero_prefix. rewrite N.eqb_refl.
  rewrite scan_hex_body by (try assumption; now apply ends_hex_stops). rewrite hfold_digits, Hd. cbn [hdigits orb].
  rewrite span_while_stop by assumption. cbn [srest send act spanic mk_step]. rewrite lenN_nil.
  set (a := hfold _ body).
  assert (Hi : hinv a (hex_value 0 body)).
  { apply hfold_inv. split; [|discriminate]. intros _. split; [reflexivity|]. unfold two128. lia. }
  replace (i + 1 + 1 + lenN body + 0) with (i + 2 + lenN body) by lia.
  split; [reflexivity|]. split; [reflexivity|]. split; [reflexivity|].
  destruct Hi as [H0 H1]. destruct (hov a).
  - specialize (H1 eq_refl). destruct (N.ltb_spec (hex_value 0 body) two128); [lia|reflexivity].
  - destruct (H0 eq_refl) as [Hv Hm]. rewrite Hv.
    destruct (N.ltb_spec (hex_value 0 body) two128); [|lia].
    match goal with |- context [(_ =? _) && (?c =? ?d)] => destruct (N.eqb_spec c d); [lia|] end.
    rewrite andb_false_r.
    match goal with |- context [if ?c =? ?d then _ else _] => destruct (N.eqb_spec c d); [|lia] end.
    reflexivity.
Qed.

(* 2 (hexadecimal): exact for every value, no hypothesis on overflow: checked_mul
   followed by `|=` cannot wrap *)
Theorem hex_value_delta body :
  is_hex_body body = true -> has_hex_digit body = true -> lenN (48 :: 120 :: body) <= MAX_SOURCE_LEN ->
  let M := hex_value 0 body in
  let n := lenN (48 :: 120 :: body) in
  lex_delta (48 :: 120 :: body) =
    [if M <? two128 then mk_tok KBitInteger (Z.of_N M) None 0 n 1 0 else mk_tok KError E140 None 0 n 1 0]
  /\ would_overflow_panic (48 :: 120 :: body) = false.
Proof.
  intros Hb Hd Hlen. cbv zeta.
  pose proof (hex_step (S (length (120 :: body))) body [] 0 Hb Hd eq_refl) as Hs.
  cbv zeta in Hs. rewrite app_nil_r in Hs. destruct Hs as (Hr & He & Hp & Ha).
  assert (Hn : 0 + 2 + lenN body = lenN (48 :: 120 :: body)) by (rewrite !lenN_cons; lia).
  rewrite Hn in *.
  pose proof (step_eta (lex_step (S (length (120 :: body))) 48 (120 :: body) 0)) as Heta.
  rewrite Hr, He, Hp, Ha in Heta.
  destruct (hex_value 0 body <? two128).
  - destruct (lex_delta_single_tok dec_push _ _ _ _ _ _ _ Hlen Heta) as (H1 & H2 & _). auto.
  - destruct (lex_delta_single_err dec_push _ _ _ _ _ _ Hlen Heta) as (H1 & H2 & _). auto.
Qed.

(* ---- binary ---------------------------------------------------------------- *)
Fixpoint bin_value (acc : N) (l : list N) : N :=
  match l with
  | [] => acc
  | y :: r => if y =? 48 then bin_value (acc * 2) r
              else if y =? 49 then bin_value (acc * 2 + 1) r
              else bin_value acc r
  end.
Fixpoint bin_digits (l : list N) : N :=
  match l with
  | [] => 0
  | y :: r => (if (y =? 48) || (y =? 49) then 1 else 0) + bin_digits r
  end.
Definition is_bin_body (l : list N) : bool := forallb (fun y => (y =? 48) || (y =? 49) || (y =? 95)) l.

Lemma two128_pow : two128 = 2 ^ 128.
Proof. reflexivity. Qed.

Lemma pow2_le_two128 n : n <= 128 -> 2 ^ n <= two128.
Proof. intros H. rewrite two128_pow. apply N.pow_le_mono_r; lia. Qed.

Lemma not_cont_bin y : is_ident_cont y = false -> (y =? 48) = false /\ (y =? 49) = false /\ (y =? 95) = false.
Proof. intros H. repeat split; apply N.eqb_neq; intros ->; discriminate. Qed.

Lemma ends_bin_stops tail : ends_token tail = true -> bin_stops tail.
Proof. destruct tail as [|y t]; [exact (fun _ => I)|]. cbn [ends_token bin_stops]. intros H. apply negb_true_iff in H. now apply not_cont_bin. Qed.

Lemma scan_bin_body : forall body nd v e tail,
  is_bin_body body = true -> bin_stops tail ->
  nd + bin_digits body <= 128 -> v < 2 ^ nd ->
  scan_bin nd v e (body ++ tail) = (nd + bin_digits body, bin_value v body, e + lenN body, tail)
  /\ bin_value v body < 2 ^ (nd + bin_digits body).
Proof.
  induction body as [|y body IH]; intros nd v e tail Hb Ht Hnd Hv.
  - cbn [app bin_digits bin_value]. rewrite lenN_nil, !N.add_0_r. split; [|assumption].
    destruct tail as [|z t]; [reflexivity|]. destruct Ht as (H48 & H49 & H95).
    cbn [scan_bin]. rewrite H48, H49, H95.
    cbn [bin_digits] in Hnd. destruct (N.ltb_spec 128 nd); [lia|reflexivity].
  - cbn [is_bin_body forallb] in Hb. apply andb_true_iff in Hb as [Hy Hb].
    cbn [app scan_bin bin_digits bin_value] in *. rewrite lenN_cons.
    destruct (N.ltb_spec 128 nd) as [Hlt|_]; [lia|].
    assert (Hpow : 2 ^ (nd + 1) = 2 * 2 ^ nd) by (rewrite N.add_1_r, N.pow_succ_r'; reflexivity).
    destruct (N.eqb_spec y 48) as [->|H48].
    + cbn [orb] in *. rewrite N.shiftl_mul_pow2, N.pow_1_r.
      pose proof (pow2_le_two128 (nd + 1) ltac:(lia)) as Hle.
      rewrite N.mod_small by lia.
      destruct (IH (nd + 1) (v * 2) (e + 1) tail Hb Ht ltac:(lia) ltac:(lia)) as [IH1 IH2].
      rewrite IH1.
      replace (nd + (1 + bin_digits body)) with (nd + 1 + bin_digits body) by lia.
      replace (e + (lenN body + 1)) with (e + 1 + lenN body) by lia.
      split; [reflexivity|exact IH2].
    + destruct (N.eqb_spec y 49) as [->|H49].
      * cbn [orb] in *. rewrite N.shiftl_mul_pow2, N.pow_1_r.
        pose proof (pow2_le_two128 (nd + 1) ltac:(lia)) as Hle.
        rewrite N.mod_small by lia.
        pose proof (lor_shiftl_add v 1 1 ltac:(reflexivity)) as Hlor.
        rewrite N.shiftl_mul_pow2, N.pow_1_r in Hlor. rewrite Hlor.
        destruct (IH (nd + 1) (v * 2 + 1) (e + 1) tail Hb Ht ltac:(lia) ltac:(lia)) as [IH1 IH2].
        rewrite IH1.
        replace (nd + (1 + bin_digits body)) with (nd + 1 + bin_digits body) by lia.
        replace (e + (lenN body + 1)) with (e + 1 + lenN body) by lia.
        split; [reflexivity|exact IH2].
      * cbn [orb] in *. rewrite Hy. rewrite N.add_0_l in *.
        destruct (IH nd v (e + 1) tail Hb Ht Hnd Hv) as [IH1 IH2].
        rewrite IH1. replace (e + (lenN body + 1)) with (e + 1 + lenN body) by lia.
        split; [reflexivity|exact IH2].
Qed.

(* more than 128 digits: the loop stops after the 129th digit *)
Lemma scan_bin_over : forall body nd v e tail,
  is_bin_body body = true -> nd <= 128 -> 128 < nd + bin_digits body ->
  exists v' pre post, body = pre ++ post /\
    scan_bin nd v e (body ++ tail) = (129, v', e + lenN pre, post ++ tail).
Proof.
  induction body as [|y body IH]; intros nd v e tail Hb Hnd Hov.
  - cbn [bin_digits] in Hov. lia.
  - cbn [is_bin_body forallb] in Hb. apply andb_true_iff in Hb as [Hy Hb].
    cbn [app scan_bin bin_digits] in *.
    destruct (N.ltb_spec 128 nd) as [Hlt|_]; [lia|].
    assert (Hdig : forall v1, (y =? 48) || (y =? 49) = true ->
              exists v' pre post, y :: body = pre ++ post /\
                scan_bin (nd + 1) v1 (e + 1) (body ++ tail) = (129, v', e + lenN pre, post ++ tail)).
    { intros v1 Hd. rewrite Hd in Hov. destruct (N.eq_dec nd 128) as [->|Hne].
      - exists v1, [y], body. split; [reflexivity|]. change (128 + 1) with 129.
        destruct (body ++ tail) as [|z t] eqn:Hbt; cbn [scan_bin]; [reflexivity|].
        change (128 <? 129) with true. cbn iota. reflexivity.
      - destruct (IH (nd + 1) v1 (e + 1) tail Hb ltac:(lia) ltac:(lia)) as (v' & pre & post & Hbody & Hsc).
        exists v', (y :: pre), post. split; [subst body; reflexivity|]. rewrite Hsc, lenN_cons.
        f_equal. f_equal. lia. }
    destruct (N.eqb_spec y 48) as [->|H48]; [apply Hdig; reflexivity|].
    destruct (N.eqb_spec y 49) as [->|H49]; [apply Hdig; reflexivity|].
    cbn [orb] in *. rewrite Hy. rewrite N.add_0_l in Hov.
    destruct (IH nd v (e + 1) tail Hb Hnd Hov) as (v' & pre & post & Hbody & Hsc).
    exists v', (y :: pre), post. split; [subst body; reflexivity|]. rewrite Hsc, lenN_cons.
    f_equal. f_equal. lia.
Qed.

Lemma span_while_all p : forall l tail, Forall (fun y => p y = true) l ->
  match tail with [] => True | y :: _ => p y = false end ->
  span_while p (l ++ tail) = (l, tail).
Proof.
  induction l as [|y l IH]; intros tail Hl Ht.
  - cbn [app]. destruct tail as [|z t]; [reflexivity|]. cbn [span_while]. rewrite Ht. reflexivity.
  - inversion Hl; subst. cbn [app span_while]. rewrite H1. rewrite IH by assumption. reflexivity.
Qed.

Lemma bin_body_cont l : is_bin_body l = true -> Forall (fun y => is_ident_cont y = true) l.
Proof.
  induction l as [|y l IH]; intros H; [constructor|].
  cbn [is_bin_body forallb] in H. apply andb_true_iff in H as [Hy Hl]. constructor; [|now apply IH].
  apply orb_true_iff in Hy as [Hy|Hy]; [apply orb_true_iff in Hy as [Hy|Hy]|];
    apply N.eqb_eq in Hy; subst; reflexivity.
Qed.

Lemma ends_token_spec tail : ends_token tail = true ->
  match tail with [] => True | y :: _ => is_ident_cont y = false end.
Proof. destruct tail; [auto|]. cbn. apply negb_true_iff. Qed.

(* one step of the main loop on `0b` + digits: the DIGIT COUNT decides, not the value *)
Theorem bin_step f body tail i :
  is_bin_body body = true -> 1 <= bin_digits body -> ends_token tail = true ->
  let s := lex_step f 48 (98 :: body ++ tail) i in
  let e := i + 2 + lenN body in
  srest s = tail /\ send s = e /\ spanic s = false /\
  act s = if bin_digits body <=? 128 then ATok KBitInteger (Z.of_N (bin_value 0 body)) None e
          else AErr E140 i e.
Proof.
  intros Hb Hd Ht. cbv zeta. change (lex_step f 48 (98 :: body ++ tail) i) with (lex_zero (98 :: body ++ tail) i).
  unfold lex_zero, zero_prefix. change (98 =? 120) with false. cbn iota. rewrite N.eqb_refl.
  destruct (N.leb_spec (bin_digits body) 128) as [Hle|Hgt].
  - destruct (scan_bin_body body 0 0 (i + 1 + 1) tail Hb (ends_bin_stops _ Ht) ltac:(lia) ltac:(reflexivity)) as [Hsc _].
    rewrite Hsc. rewrite N.add_0_l.
    destruct (N.ltb_spec 128 (bin_digits body)) as [Hc|_]; [lia|].
    destruct (N.ltb_spec 0 (bin_digits body)) as [_|Hc]; [|lia].
    rewrite span_while_stop by assumption. cbn [srest send act spanic mk_step]. rewrite lenN_nil.
    replace (i + 1 + 1 + lenN body + 0) with (i + 2 + lenN body) by lia.
    split; [reflexivity|]. split; [reflexivity|]. split; [reflexivity|].
    match goal with |- context [(_ =? _) && (?c =? ?d)] => destruct (N.eqb_spec c d); [lia|] end.
    rewrite andb_false_r.
    match goal with |- context [if ?c =? ?d then _ else _] => destruct (N.eqb_spec c d); [|lia] end.
    reflexivity.
  - destruct (scan_bin_over body 0 0 (i + 1 + 1) tail Hb ltac:(lia) ltac:(lia)) as (v' & pre & post & Hbody & Hsc).
    rewrite Hsc. change (128 <? 129) with true. cbn iota.
    assert (Hpost : Forall (fun y => is_ident_cont y = true) post).
    { apply bin_body_cont in Hb. subst body. apply Forall_app in Hb. tauto. }
    rewrite (span_while_all is_ident_cont post tail Hpost (ends_token_spec _ Ht)).
    cbn [srest send act spanic mk_step].
    replace (i + 1 + 1 + lenN pre + lenN post) with (i + 2 + lenN body) by (subst body; rewrite lenN_app; lia).
    repeat split; reflexivity.
Qed.

(* 2 (binary): a source consisting of one `0b` literal *)
Theorem bin_value_delta body :
  is_bin_body body = true -> 1 <= bin_digits body -> lenN (48 :: 98 :: body) <= MAX_SOURCE_LEN ->
  let n := lenN (48 :: 98 :: body) in
  lex_delta (48 :: 98 :: body) =
    [if bin_digits body <=? 128 then mk_tok KBitInteger (Z.of_N (bin_value 0 body)) None 0 n 1 0
     else mk_tok KError E140 None 0 n 1 0].
Proof.
  intros Hb Hd Hlen. cbv zeta.
  pose proof (bin_step (S (length (98 :: body))) body [] 0 Hb Hd eq_refl) as Hs.
  cbv zeta in Hs. rewrite app_nil_r in Hs. destruct Hs as (Hr & He & Hp & Ha).
  assert (Hn : 0 + 2 + lenN body = lenN (48 :: 98 :: body)) by (rewrite !lenN_cons; lia).
  rewrite Hn in *.
  pose proof (step_eta (lex_step (S (length (98 :: body))) 48 (98 :: body) 0)) as Heta.
  rewrite Hr, He, Hp, Ha in Heta.
  destruct (bin_digits body <=? 128).
  - destruct (lex_delta_single_tok dec_push _ _ _ _ _ _ _ Hlen Heta) as (H1 & _). exact H1.
  - destruct (lex_delta_single_err dec_push _ _ _ _ _ _ Hlen Heta) as (H1 & _). exact H1.
Qed.

(* with at most 128 digits the value always fits, so BitInteger carries the exact value *)
Lemma bin_value_fits body : is_bin_body body = true -> bin_digits body <= 128 -> bin_value 0 body < two128.
Proof.
  intros Hb Hd.
  destruct (scan_bin_body body 0 0 0 [] Hb I ltac:(lia) ltac:(reflexivity)) as [_ H].
  eapply N.lt_le_trans; [exact H|]. apply pow2_le_two128. lia.
Qed.

(* the natural statement "E140 iff the value is >= 2^128" is false for 0b: 129 zeros *)
Theorem bin_value_delta_refuted :
  exists body, is_bin_body body = true /\ bin_value 0 body < two128 /\
    lex_delta (48 :: 98 :: body) = [mk_tok KError E140 None 0 131 1 0].
Proof. exists (repeat 48 129). vm_compute. repeat split. Qed.

(* ========================================================================== *)
(* 5. Spans, line numbers, line offsets                                       *)
(* ========================================================================== *)
Section GenericSpans.
Variable push : dacc -> N -> dacc.

(* ---- specification -------------------------------------------------------- *)
Fixpoint count_nl (l : list N) : N :=
  match l with
  | [] => 0
  | y :: r => (if y =? 10 then 1 else 0) + count_nl r
  end.
(* offset just after the last newline of [l], where [l] starts at offset [pos]
   and [sol] is the answer when [l] has no newline *)
Fixpoint last_sol (sol pos : N) (l : list N) : N :=
  match l with
  | [] => sol
  | y :: r => last_sol (if y =? 10 then pos + 1 else sol) (pos + 1) r
  end.
Definition prefix (src : list N) (p : N) : list N := firstn (N.to_nat p) src.
(* 1-based line of offset p; start offset of that line *)
Definition line_of (src : list N) (p : N) : N := 1 + count_nl (prefix src p).
Definition sol_of (src : list N) (p : N) : N := last_sol 0 0 (prefix src p).

(* tokens are ordered, disjoint, non-reversed *)
Fixpoint spans_sorted (lo : N) (l : list tok) : Prop :=
  match l with
  | [] => True
  | t :: r => lo <= tstart t /\ tstart t <= tend t /\ spans_sorted (tend t) r
  end.

(* a non-error token is what one iteration of the main loop produces when started
   at [tstart], and [tend] is exactly where that iteration stops consuming *)
Definition tok_origin (src : list N) (t : tok) : Prop :=
  is_error t = false ->
  tstart t < tend t /\
  exists pre x r f, src = pre ++ x :: r /\ tstart t = lenN pre /\
    act (lex_step_with push f x r (lenN pre)) = ATok (kind t) (value t) (vtype t) (tend t) /\
    send (lex_step_with push f x r (lenN pre)) = tend t /\
    srest (lex_step_with push f x r (lenN pre)) = skipn (N.to_nat (tend t)) src.

Definition tok_line (src : list N) (t : tok) : Prop :=
  line t = line_of src (tstart t) /\
  sol_of src (tstart t) <= tstart t /\
  lstart t = tstart t - sol_of src (tstart t).

Lemma count_nl_app l1 l2 : count_nl (l1 ++ l2) = count_nl l1 + count_nl l2.
Proof. induction l1 as [|y l1 IH]; cbn [app count_nl]; [lia|]. rewrite IH. lia. Qed.
Lemma count_nl_nonl l : nonl l -> count_nl l = 0.
Proof.
  induction 1 as [|y l Hy Hl IH]; cbn [count_nl]; [reflexivity|].
  apply N.eqb_neq in Hy. rewrite Hy, IH. reflexivity.
Qed.
Lemma last_sol_app : forall l1 l2 sol pos,
  last_sol sol pos (l1 ++ l2) = last_sol (last_sol sol pos l1) (pos + lenN l1) l2.
Proof.
  induction l1 as [|y l1 IH]; intros l2 sol pos; cbn [app last_sol].
  - rewrite lenN_nil, N.add_0_r. reflexivity.
  - rewrite IH, lenN_cons. f_equal. lia.
Qed.
Lemma last_sol_nonl : forall l sol pos, nonl l -> last_sol sol pos l = sol.
Proof.
  induction l as [|y l IH]; intros sol pos H; cbn [last_sol]; [reflexivity|].
  inversion H as [|? ? Hy Hl]; subst. apply N.eqb_neq in Hy. rewrite Hy. apply IH. assumption.
Qed.
Lemma last_sol_le : forall l sol pos, sol <= pos -> last_sol sol pos l <= pos + lenN l.
Proof.
  induction l as [|y l IH]; intros sol pos H; cbn [last_sol]; [llia|].
  rewrite lenN_cons. specialize (IH (if y =? 10 then pos + 1 else sol) (pos + 1)).
  destruct (y =? 10); lia.
Qed.
Lemma nonl_firstn n : forall l, nonl l -> nonl (firstn n l).
Proof.
  induction n as [|n IH]; intros l H; cbn [firstn]; [constructor|].
  destruct l as [|y l]; [constructor|]. inversion H; subst. constructor; [assumption|]. apply IH. assumption.
Qed.

(* a prefix ending inside a newline-free segment *)
Lemma prefix_in_seg pre mid rest' st :
  lenN pre <= st -> st <= lenN pre + lenN mid ->
  prefix (pre ++ mid ++ rest') st = pre ++ firstn (N.to_nat (st - lenN pre)) mid.
Proof.
  unfold prefix, lenN. intros H1 H2. rewrite firstn_app.
  rewrite firstn_all2 by lia. f_equal.
  replace (N.to_nat st - length pre)%nat with (N.to_nat (st - N.of_nat (length pre))) by lia.
  rewrite firstn_app.
  replace (N.to_nat (st - N.of_nat (length pre)) - length mid)%nat with 0%nat by lia.
  cbn [firstn]. apply app_nil_r.
Qed.

Lemma prefix_all src : prefix src (lenN src) = src.
Proof. unfold prefix, lenN. rewrite Nat2N.id. apply firstn_all. Qed.

Lemma skipn_app_exact (pre l : list N) : skipn (N.to_nat (lenN pre)) (pre ++ l) = l.
Proof.
  unfold lenN. rewrite Nat2N.id. rewrite skipn_app, skipn_all, Nat.sub_diag. reflexivity.
Qed.

Lemma spans_sorted_mono lo lo' l : lo' <= lo -> spans_sorted lo l -> spans_sorted lo' l.
Proof. destruct l as [|t r]; cbn [spans_sorted]; [auto|]. intros H (H1 & H2 & H3). repeat split; try assumption. lia. Qed.

Definition spans_post (src : list N) (pos : N) (toks : list tok) (eln esol : N) : Prop :=
  spans_sorted pos toks /\
  Forall (fun t => tend t <= lenN src /\ bytes t = [] /\ tok_origin src t) toks /\
  (has_bsnl src = false ->
     Forall (tok_line src) toks /\ eln = line_of src (lenN src) /\ esol = sol_of src (lenN src)).

Lemma lex_loop_spans src cap errcap : forall fuel rest pos ln sol ntok npay nerr pre,
  src = pre ++ rest -> pos = lenN pre ->
  (has_bsnl src = false -> ln = 1 + count_nl pre /\ sol = last_sol 0 0 pre) ->
  (length rest < fuel)%nat ->
  lr_prop (spans_post src pos) (lex_loop_with push fuel rest pos ln sol ntok npay nerr cap errcap).
Proof.
  induction fuel as [|f IH]; intros rest pos ln sol ntok npay nerr pre Hsrc Hpos Hln Hf; [lia|].
  cbn [lex_loop_with]. destruct rest as [|x r].
  - destruct (cap <=? ntok + 1); cbn [lr_prop]; [exact I|].
    rewrite app_nil_r in Hsrc. subst pre. unfold spans_post. cbn [spans_sorted].
    split; [exact I|]. split; [constructor|]. intros Hbs. split; [constructor|].
    unfold line_of, sol_of. rewrite prefix_all. apply Hln. assumption.
  - cbn [length] in Hf.
    remember (lex_step_with push f x r pos) as s eqn:Hs.
    destruct (lex_step_ok_gen push f x r pos ltac:(lia)) as (seg & Hr & He & Hact). rewrite <- Hs in *.
    assert (Hlen : (length (srest s) < f)%nat) by (rewrite Hr in Hf; rewrite app_length in Hf; lia).
    assert (Hsrc' : src = (pre ++ x :: seg) ++ srest s).
    { rewrite Hsrc, Hr. rewrite <- app_assoc. reflexivity. }
    assert (Hpos' : send s = lenN (pre ++ x :: seg)) by (rewrite He; llia).
    assert (Hsrc3 : src = pre ++ (x :: seg) ++ srest s) by (rewrite Hsrc, Hr; reflexivity).
    assert (Hend : send s <= lenN src) by (rewrite Hsrc', Hpos'; llia).
    (* facts available when the source has no backslash-newline *)
    assert (Hnl : has_bsnl src = false -> nl_ok (x :: seg) -> nonl (x :: seg)).
    { intros Hbs Hok. apply Hok. rewrite Hsrc3 in Hbs.
      apply has_bsnl_app in Hbs as [_ Hbs]. apply has_bsnl_app in Hbs as [Hbs _]. exact Hbs. }
    assert (Hsame : has_bsnl src = false -> nl_ok (x :: seg) ->
                    ln = 1 + count_nl (pre ++ x :: seg) /\ sol = last_sol 0 0 (pre ++ x :: seg)).
    { intros Hbs Hok. destruct (Hln Hbs) as [H1 H2]. pose proof (Hnl Hbs Hok) as Hn.
      rewrite count_nl_app, last_sol_app, (count_nl_nonl _ Hn), (last_sol_nonl _ _ _ Hn). split; lia. }
    assert (Hline : forall st, has_bsnl src = false -> nl_ok (x :: seg) -> pos <= st -> st <= send s ->
              ln = line_of src st /\ sol = sol_of src st /\ sol <= st).
    { intros st Hbs Hok H1 H2. destruct (Hln Hbs) as [Hl1 Hl2]. pose proof (Hnl Hbs Hok) as Hn.
      unfold line_of, sol_of. rewrite Hsrc3, prefix_in_seg by (rewrite ?lenN_cons; lia).
      pose proof (nonl_firstn (N.to_nat (st - lenN pre)) _ Hn) as Hn'.
      rewrite count_nl_app, last_sol_app, (count_nl_nonl _ Hn'), (last_sol_nonl _ _ _ Hn').
      split; [lia|]. split; [assumption|].
      pose proof (last_sol_le pre 0 0 ltac:(lia)). lia. }
    apply lr_prop_panic.
    destruct (act s) as [| |k v ty en|c st en|] eqn:Ha; cbn [act_ok] in Hact.
    + (* skip *)
      eapply lr_prop_impl; [|eapply (IH _ _ _ _ _ _ _ (pre ++ x :: seg)); [exact Hsrc'|exact Hpos'| |exact Hlen]].
      * cbn beta. unfold spans_post. intros l a c (H1 & H2 & H3). split; [|split; assumption].
        eapply spans_sorted_mono; [|exact H1]. lia.
      * intros Hbs. apply Hsame; assumption.
    + (* newline *)
      destruct Hact as [-> ->].
      eapply lr_prop_impl; [|eapply (IH _ _ _ _ _ _ _ (pre ++ [10])); [exact Hsrc'|exact Hpos'| |exact Hlen]].
      * cbn beta. unfold spans_post. intros l a c (H1 & H2 & H3). split; [|split; assumption].
        eapply spans_sorted_mono; [|exact H1]. lia.
      * intros Hbs. destruct (Hln Hbs) as [H1 H2].
        rewrite count_nl_app, last_sol_app. cbn [count_nl last_sol]. rewrite N.eqb_refl. split; lia.
    + (* token *)
      destruct Hact as (Hen & Hok & Hk).
      destruct ((has_payload k && (MAX_NUM_PAYLOADS <=? npay)) || (cap <=? ntok)); [exact I|].
      apply lr_prop_cons.
      eapply lr_prop_impl; [|eapply (IH _ _ _ _ _ _ _ (pre ++ x :: seg)); [exact Hsrc'|exact Hpos'| |exact Hlen]].
      * cbn beta. unfold spans_post. intros l a c (H1 & H2 & H3).
        split; [|split].
        -- cbn [spans_sorted mk_tok tstart tend]. subst en. repeat split; try lia. exact H1.
        -- constructor; [|exact H2]. cbn [mk_tok tend bytes]. split; [lia|]. split; [reflexivity|].
           intros _. cbn [mk_tok tstart tend kind value vtype]. split; [lia|].
           exists pre, x, r, f. rewrite <- Hpos, <- Hs, Ha. repeat split; try assumption; try congruence.
           subst en. rewrite Hpos'. rewrite Hsrc'. symmetry. apply skipn_app_exact.
        -- intros Hbs. destruct (H3 Hbs) as (H4 & H5). split; [|assumption].
           constructor; [|exact H4].
           destruct (Hline pos Hbs Hok ltac:(lia) ltac:(lia)) as (L1 & L2 & L3).
           unfold tok_line. cbn [mk_tok line tstart lstart]. rewrite <- L1, <- L2. auto.
      * intros Hbs. apply Hsame; assumption.
    + (* error *)
      destruct Hact as (H1 & H2 & H3 & Hok).
      assert (Hrec : lr_prop (spans_post src (send s))
                       (lex_loop_with push f (srest s) (send s) ln sol ntok npay nerr cap errcap)).
      { eapply (IH _ _ _ _ _ _ _ (pre ++ x :: seg)); [exact Hsrc'|exact Hpos'| |exact Hlen].
        intros Hbs. apply Hsame; assumption. }
      destruct (errcap <=? nerr).
      * eapply lr_prop_impl; [|exact Hrec]. cbn beta. unfold spans_post.
        intros l a0 c0 (G1 & G2 & G3). split; [|split; assumption].
        eapply spans_sorted_mono; [|exact G1]. lia.
      * destruct (cap <=? ntok); [exact I|]. apply lr_prop_cons.
        eapply lr_prop_impl; [|eapply (IH _ _ _ _ _ _ _ (pre ++ x :: seg)); [exact Hsrc'|exact Hpos'| |exact Hlen]].
        -- cbn beta. unfold spans_post. intros l a0 c0 (G1 & G2 & G3). split; [|split].
           ++ cbn [spans_sorted mk_tok tstart tend]. repeat split; try lia.
              eapply spans_sorted_mono; [|exact G1]. lia.
           ++ constructor; [|exact G2]. cbn [mk_tok tend bytes]. split; [lia|]. split; [reflexivity|].
              intros Hne. discriminate.
           ++ intros Hbs. destruct (G3 Hbs) as (G4 & G5). split; [|assumption].
              constructor; [|exact G4].
              destruct (Hline st Hbs Hok ltac:(lia) ltac:(lia)) as (L1 & L2 & L3).
              unfold tok_line. cbn [mk_tok line tstart lstart]. rewrite <- L1, <- L2. auto.
        -- intros Hbs. apply Hsame; assumption.
    + contradiction.
Qed.

(* 3. spans: for every run of the lexer the tokens are ordered and disjoint, lie
   inside the source, and each non-error token covers exactly the bytes that the
   iteration started at its first byte consumes.  Line number = 1 + number of
   newline bytes before the token, line offset = distance to the byte after the
   last newline: PROVIDED the source nowhere contains backslash-newline. *)
Theorem span_exact_delta_gen src toks eln esol p :
  lex_result_with push src = LexRun (Done toks eln esol p) ->
  spans_sorted 0 toks /\
  Forall (fun t => tend t <= lenN src /\ bytes t = [] /\ tok_origin src t) toks /\
  (has_bsnl src = false ->
     Forall (tok_line src) toks /\ eln = line_of src (lenN src) /\ esol = sol_of src (lenN src)).
Proof.
  intros H. apply lex_result_run in H as [H _].
  pose proof (lex_loop_spans src (token_capacity (lenN src)) (error_capacity (lenN src))
                (S (length src)) src 0 1 0 0 1 0 [] eq_refl eq_refl) as Hinv.
  rewrite <- H in Hinv. apply Hinv; [|lia]. intros _. split; reflexivity.
Qed.

End GenericSpans.

(* instance for the CURRENT lexer *)
Theorem span_exact_delta src toks eln esol p :
  lex_result src = LexRun (Done toks eln esol p) ->
  spans_sorted 0 toks /\
  Forall (fun t => tend t <= lenN src /\ bytes t = [] /\ tok_origin dec_push src t) toks /\
  (has_bsnl src = false ->
     Forall (tok_line src) toks /\ eln = line_of src (lenN src) /\ esol = sol_of src (lenN src)).
Proof. apply (span_exact_delta_gen dec_push). Qed.


(* without that hypothesis the line part is false: the newline swallowed by an
   (invalid) escape inside a literal does not advance the line counter *)
Theorem span_line_delta_refuted :
  exists src t, In t (lex_delta src) /\ is_error t = false /\
    line t <> line_of src (tstart t) /\ lstart t <> tstart t - sol_of src (tstart t).
Proof.
  exists (dq ++ bs "a" ++ bsl ++ nl ++ dq ++ bs " x"), (T KIdentifier 0 None 6 7 1 6).
  vm_compute. repeat split; try discriminate. right. left. reflexivity.
Qed.

(* error tokens of literals do not cover the literal: the location is that of the
   offending escape/byte, or empty (start = end) for a missing closing quote *)
Example span_error_not_exact :
  map (fun t => (value t, tstart t, tend t)) (lex_delta (dq ++ bs "abc\qdef" ++ dq ++ bs " 'x")) =
  [(E162, 4, 6); (E160, 13, 13)].
Proof. vm_compute. reflexivity. Qed.

(* ---- the hypotheses are satisfiable by non-trivial objects ----------------- *)
Example hyp_no_bsnl :
  has_bsnl (bs "fn main() { var x: u8 = '\n'; }" ++ cr ++ nl ++ bs "// done" ++ nl ++ bs """a\\""" ++ nl) = false.
Proof. vm_compute. reflexivity. Qed.
Example hyp_decimal :
  in_range 49 57 (ch "1") = true /\ is_dec_body (bs "_000__") = true /\ ends_token (bs ";x") = true /\
  dec_value (ch "1" - 48) (bs "_000__") = 1000.
Proof. vm_compute. repeat split. Qed.
Example hyp_hex :
  is_hex_body (bs "dead_BEEF") = true /\ has_hex_digit (bs "dead_BEEF") = true /\ hex_value 0 (bs "dead_BEEF") = 3735928559.
Proof. vm_compute. repeat split. Qed.
Example hyp_bin :
  is_bin_body (bs "1010_1010") = true /\ bin_digits (bs "1010_1010") = 8 /\ bin_value 0 (bs "1010_1010") = 170.
Proof. vm_compute. repeat split. Qed.
Example inst_decimal : lex_delta (bs "1_000__") = [mk_tok KNakedDecimal 1000 None 0 7 1 0].
Proof.
  apply (decimal_value_delta (ch "1") (bs "_000__")); try reflexivity; vm_compute; try discriminate; reflexivity.
Qed.

Print Assumptions token_push_in_bounds.
Print Assumptions token_push_in_bounds_run.
Print Assumptions tokens_le_bytes_plus_k.
Print Assumptions no_E103_small.
Print Assumptions decimal_value_delta.
Print Assumptions decimal_value_delta_refuted.
Print Assumptions dec_push_pinned_panics_iff.
Print Assumptions would_overflow_panic_never.
Print Assumptions hex_value_delta.
Print Assumptions bin_value_delta.
Print Assumptions bin_value_delta_refuted.
Print Assumptions span_exact_delta.
Print Assumptions span_line_delta_refuted.
Print Assumptions total.
Print Assumptions errors_capped.
Print Assumptions errors_dropped_after_cap.
Print Assumptions lex_step_ok.

