(* The first-generation lexer (Model/LexAlpha.v, lex_alpha_fixed) on the text of
   the token fuzzer (Model/Fuzzer.v): every well-formed atom sequence
   (FuzzerShapeProofs.WF) is tokenised without a single lexical error.

   Contents
     1. digit strings as the lexer reads them
     2. [num_step_alpha]: every number the fuzzer writes
     3. quoted literals: the fuzzer's items are items the lexer accepts
     4. words and punctuation
     5. [alpha_step], [alpha_line]: one step / one line of lex_line
     6. lines: str::lines on an atom sequence ([alpha_lines]); a comment that
        ends in a carriage return loses it to the line terminator
     7. [alpha_no_error]
     8. a source consisting of one spelling *)
From Coq Require Import Ascii String.
From PV Require Import Base.Common Base.IR Base.Tok.
From PV Require Import Model.Fuzzer Proofs.FuzzerShapeProofs.
From PV Require Import Model.LexAlpha Proofs.LexAlphaProofs.
Open Scope N_scope.

Opaque digits.

Notation fcont := Fuzzer.is_ident_cont.

Lemma fcont_eq x : fcont x = is_ident_cont x.
Proof. reflexivity. Qed.

(* ========================================================================== *)
(* 1. Digit strings as the lexer reads them                                   *)
(* ========================================================================== *)
Local Open Scope Z_scope.

Definition zhorner (base : Z) (l : list N) (acc : Z) : Z := fold_left (fun a c => a * base + digit_val c) l acc.

Lemma zhorner_value base : forall l acc,
  zhorner base l acc = acc * base ^ Z.of_nat (length l) + value_of_digits base l.
Proof.
  induction l as [|d l IH]; intros acc.
  - cbn. lia.
  - cbn [zhorner fold_left]. fold (zhorner base l (acc * base + digit_val d)). rewrite IH.
    cbn [value_of_digits length]. rewrite Nat2Z.inj_succ, Z.pow_succ_r by lia. ring.
Qed.

Lemma value_of_digits_chars (base : Z) (b : N) (f : N -> N) ds :
  base = Z.of_N b -> Forall (fun d => (d < b)%N) ds ->
  (forall d, (d < b)%N -> digit_val (f d) = Z.of_N d) ->
  value_of_digits base (map f ds) = Z.of_N (horner b ds 0).
Proof.
  intros Hb Hall Hf.
  assert (H : forall acc, zhorner base (map f ds) (Z.of_N acc) = Z.of_N (horner b ds acc)).
  { induction Hall as [|d ds Hd _ IH]; intros acc; [reflexivity|].
    cbn [map zhorner fold_left horner]. fold (zhorner base (map f ds) (Z.of_N acc * base + digit_val (f d))).
    fold (horner b ds (acc * b + d)). rewrite <- IH. f_equal. rewrite (Hf d Hd), Hb. lia. }
  specialize (H 0%N). rewrite zhorner_value in H. cbn in H. lia.
Qed.
Local Close Scope Z_scope.

Lemma digit_val_dec d : d < 10 -> digit_val (dec_char d) = Z.of_N d /\ is_dec (dec_char d) = true.
Proof.
  intros H. assert (Hc : d = 0 \/ d = 1 \/ d = 2 \/ d = 3 \/ d = 4 \/ d = 5 \/ d = 6 \/ d = 7 \/ d = 8 \/ d = 9) by lia.
  repeat (destruct Hc as [->|Hc]; [split; reflexivity|]). subst. split; reflexivity.
Qed.

Lemma digit_val_hex u d : d < 16 -> digit_val (hex_char u d) = Z.of_N d /\ is_hex (hex_char u d) = true.
Proof.
  intros H. assert (Hc : d = 0 \/ d = 1 \/ d = 2 \/ d = 3 \/ d = 4 \/ d = 5 \/ d = 6 \/ d = 7 \/ d = 8 \/
    d = 9 \/ d = 10 \/ d = 11 \/ d = 12 \/ d = 13 \/ d = 14 \/ d = 15) by lia.
  destruct u; repeat (destruct Hc as [->|Hc]; [split; reflexivity|]); subst; split; reflexivity.
Qed.

(* digit strings without underscores *)
Lemma digits_us_chars (isd : N -> bool) (f : N -> N) (b : N) ds : isd 95 = false ->
  Forall (fun d => d < b) ds -> (forall d, d < b -> isd (f d) = true) ->
  digits_us isd (map f ds) = true /\ strip_us (map f ds) = map f ds.
Proof.
  intros H95 Hall Hf. induction Hall as [|d ds Hd _ [IH1 IH2]]; [split; reflexivity|].
  cbn [map digits_us forallb strip_us filter]. fold (digits_us isd (map f ds)). fold (strip_us (map f ds)).
  rewrite (Hf d Hd), IH1, IH2. cbn [orb andb]. split; [reflexivity|].
  destruct (N.eqb_spec (f d) 95) as [E|_]; [|reflexivity].
  exfalso. specialize (Hf d Hd). rewrite E in Hf. congruence.
Qed.

(* ========================================================================== *)
(* 2. Numbers                                                                 *)
(* ========================================================================== *)
Definition prim_of (t : value_type) : prim :=
  match t with
  | VInt8 => Int8 | VInt16 => Int16 | VInt32 => Int32 | VInt64 => Int64 | VInt128 => Int128
  | VUint8 => Uint8 | VUint16 => Uint16 | VUint32 => Uint32 | VUint64 => Uint64 | VUint128 => Uint128
  | VUsize => Usize | VChar8 => Char8 | _ => Bool
  end.

Lemma sfx_in_table t : sfx_ok (Some t) = true -> In (vt_display t, prim_of t) suffix_table.
Proof. destruct t; try discriminate; intros _; cbn; tauto. Qed.

Lemma z128 : (2 ^ 128)%Z = Z.of_N (2 ^ 128).
Proof. reflexivity. Qed.

Lemma num_step_alpha b sfx tail x r0 :
  body_value b < 2 ^ 128 -> sfx_ok sfx = true -> stops tail ->
  body_text b ++ sfx_text sfx = x :: r0 ->
  exists ty n, lex_step x (r0 ++ tail) = StTok (num_kind b sfx) (Z.of_N (body_value b)) ty [] n tail.
Proof.
  intros Hv Hs Ht Htext.
  assert (Hlt : (Z.of_N (body_value b) <? 2 ^ 128)%Z = true) by (apply Z.ltb_lt; rewrite z128; lia).
  destruct b as [v|u v|v]; cbn [body_text body_value num_kind] in *.
  - (* decimal *)
    destruct (digits_spec 10 v ltac:(lia) Hv) as (Hval & Hall & d & ds & E & Hd1).
    unfold to_decimal in Htext. rewrite E in Htext, Hall, Hval. cbn [map app] in Htext.
    pose proof (Forall_inv Hall) as Hd. pose proof (Forall_inv_tail Hall) as Hds. cbv beta in Hd.
    inversion Htext as [[Hx Hr0]]. clear Htext.
    destruct (N.eq_dec v 0) as [->|Hv0].
    + assert (Hd0 : d = 0 /\ ds = []) by (rewrite digits_zero in E by lia; now inversion E).
      destruct Hd0 as [-> ->]. cbn [map app dec_char N.add].
      destruct sfx as [t|]; cbn [sfx_text app].
      * destruct (radix_suffix_value (vt_display t) (prim_of t) tail (sfx_in_table t Hs) Ht) as (_ & _ & H3).
        rewrite H3. eauto.
      * rewrite (zero_value tail Ht). eauto.
    + specialize (Hd1 ltac:(lia)).
      destruct (digits_us_chars is_dec dec_char 10 ds eq_refl Hds (fun d0 H0 => proj2 (digit_val_dec d0 H0))) as [Hus Hstrip].
      assert (Hx49 : is_nonzero_dec (dec_char d) = true) by (unfold dec_char, is_nonzero_dec, in_range; b2p; lia).
      assert (Hvalue : value_of_digits 10 (dec_char d :: strip_us (map dec_char ds)) = Z.of_N v).
      { rewrite Hstrip. change (dec_char d :: map dec_char ds) with (map dec_char (d :: ds)).
        rewrite (value_of_digits_chars 10 10 dec_char (d :: ds) eq_refl Hall (fun d0 H0 => proj1 (digit_val_dec d0 H0))).
        now rewrite Hval. }
      rewrite <- app_assoc. destruct sfx as [t|]; cbn [sfx_text app].
      * pose proof (suffix_value (dec_char d) (map dec_char ds) (vt_display t) (prim_of t) tail Hx49 Hus
                      (sfx_in_table t Hs) Ht) as H. cbv zeta in H. rewrite Hvalue, Hlt in H. rewrite H. eauto.
      * pose proof (decimal_value (dec_char d) (map dec_char ds) tail Hx49 Hus Ht) as H. cbv zeta in H.
        rewrite Hvalue, Hlt in H. rewrite H. eauto.
  - (* hexadecimal *)
    destruct (digits_spec 16 v ltac:(lia) Hv) as (Hval & Hall & d & ds & E & _).
    inversion Htext as [[Hx Hr0]]. clear Htext. cbn [app]. rewrite <- app_assoc. unfold to_hex.
    destruct (digits_us_chars is_hex (hex_char u) 16 (digits 16 v) eq_refl Hall
                (fun d0 H0 => proj2 (digit_val_hex u d0 H0))) as [Hus Hstrip].
    assert (Hne : strip_us (map (hex_char u) (digits 16 v)) <> []) by (rewrite Hstrip, E; discriminate).
    assert (Hvalue : value_of_digits 16 (strip_us (map (hex_char u) (digits 16 v))) = Z.of_N v).
    { rewrite Hstrip.
      rewrite (value_of_digits_chars 16 16 (hex_char u) _ eq_refl Hall (fun d0 H0 => proj1 (digit_val_hex u d0 H0))).
      now rewrite Hval. }
    destruct sfx as [t|]; cbn [sfx_text app].
    + destruct (radix_suffix_value (vt_display t) (prim_of t) tail (sfx_in_table t Hs) Ht) as (H1 & _ & _).
      specialize (H1 _ Hus Hne). cbv zeta in H1. rewrite Hvalue, Hlt in H1. rewrite H1. eauto.
    + pose proof (hex_value _ tail Hus Hne Ht) as H. cbv zeta in H. rewrite Hvalue, Hlt in H. rewrite H. eauto.
  - (* binary *)
    destruct (digits_spec 2 v ltac:(lia) Hv) as (Hval & Hall & d & ds & E & _).
    inversion Htext as [[Hx Hr0]]. clear Htext. cbn [app]. rewrite <- app_assoc. unfold to_binary.
    assert (Hbin : forall d0, d0 < 2 -> digit_val (dec_char d0) = Z.of_N d0 /\ is_bin (dec_char d0) = true).
    { intros d0 H0. assert (Hc : d0 = 0 \/ d0 = 1) by lia. destruct Hc as [->| ->]; split; reflexivity. }
    destruct (digits_us_chars is_bin dec_char 2 (digits 2 v) eq_refl Hall (fun d0 H0 => proj2 (Hbin d0 H0))) as [Hus Hstrip].
    assert (Hne : strip_us (map dec_char (digits 2 v)) <> []) by (rewrite Hstrip, E; discriminate).
    assert (Hvalue : value_of_digits 2 (strip_us (map dec_char (digits 2 v))) = Z.of_N v).
    { rewrite Hstrip.
      rewrite (value_of_digits_chars 2 2 dec_char _ eq_refl Hall (fun d0 H0 => proj1 (Hbin d0 H0))).
      now rewrite Hval. }
    destruct sfx as [t|]; cbn [sfx_text app].
    + destruct (radix_suffix_value (vt_display t) (prim_of t) tail (sfx_in_table t Hs) Ht) as (_ & H2 & _).
      specialize (H2 _ Hus Hne). cbv zeta in H2. rewrite Hvalue, Hlt in H2. rewrite H2. eauto.
    + pose proof (bin_value _ tail Hus Hne Ht) as H. cbv zeta in H. rewrite Hvalue, Hlt in H. rewrite H. eauto.
Qed.

(* ========================================================================== *)
(* 3. Quoted literals                                                         *)
(* ========================================================================== *)
Lemma hexval_value ds : value_of_digits 16 ds = Z.of_N (hexval ds).
Proof.
  unfold hexval.
  assert (H : forall acc, zhorner 16 ds (Z.of_N acc) = Z.of_N (horner 16 (map hex_digit_val ds) acc)).
  { induction ds as [|c ds IH]; intros acc; [reflexivity|].
    cbn [map zhorner fold_left horner]. fold (zhorner 16 ds (Z.of_N acc * 16 + digit_val c)).
    fold (horner 16 (map hex_digit_val ds) (acc * 16 + hex_digit_val c)). rewrite <- IH. f_equal.
    change (digit_val c) with (Z.of_N (hex_digit_val c)). lia. }
  specialize (H 0). rewrite zhorner_value in H. cbn in H. lia.
Qed.

Lemma fitem_item_ok q i0 : (q = 39 \/ q = 34) -> fitem_ok i0 = true -> item_ok q i0 = true.
Proof.
  intros Hq Hok. destruct i0 as [c|c b|h1 h2|ds]; cbn [fitem_ok item_ok] in *.
  - apply orb_true_iff in Hok as [Hok|Hok].
    + unfold Fuzzer.in_range in Hok. unfold is_ascii_graphic, is_ascii, in_range.
      destruct Hq; subst q; b2p; repeat split; try lia;
        (destruct (N.eq_dec c 32); [left; left; assumption|left; right; lia]).
    + unfold scalar in Hok. unfold is_ascii_graphic, is_ascii, in_range.
      destruct Hq; subst q; b2p; repeat split; try lia; right; lia.
  - unfold simple_escapes in Hok. cbn [existsb fst snd] in Hok. b2p.
    destruct Hok as [[<- <-]|[[<- <-]|[[<- <-]|[[<- <-]|[[<- <-]|[[<- <-]|Hf]]]]]]; try reflexivity. discriminate.
  - apply andb_true_iff in Hok as [H1 H2]. unfold is_hex_upper, Fuzzer.in_range in *.
    unfold is_hex, is_dec, in_range. b2p. split; [destruct H1|destruct H2]; lia.
  - apply andb_true_iff in Hok as [Hok Hsc]. apply andb_true_iff in Hok as [Hok H6].
    apply andb_true_iff in Hok as [Hall H1]. apply N.leb_le in H1.
    apply andb_true_iff. split; [apply andb_true_iff; split|].
    + apply forallb_forall. intros x Hx. rewrite forallb_forall in Hall. specialize (Hall x Hx).
      unfold is_hex_lower, Fuzzer.in_range in Hall. unfold is_hex, is_dec, in_range. b2p. destruct Hall; lia.
    + destruct ds; [cbn in H1; lia|reflexivity].
    + rewrite hexval_value. unfold scalar in Hsc. unfold is_scalar. b2p. lia.
Qed.

Lemma lit_step_alpha_str items tail : forallb fitem_ok items = true ->
  exists bs n, lex_step 34 (renders items ++ 34 :: tail) = StTok KStringLiteral 0%Z None bs n tail.
Proof.
  intros Hall. rewrite escape_decode; [eauto|].
  apply forallb_forall. intros i0 Hi. rewrite forallb_forall in Hall. apply fitem_item_ok; [now right|auto].
Qed.

Lemma lit_step_alpha_char i0 tail : citem_ok i0 = true ->
  exists v n, lex_step 39 (render i0 ++ 39 :: tail) = StTok KCharLiteral v None [] n tail.
Proof.
  intros Hc. unfold citem_ok in Hc. apply andb_true_iff in Hc as [Hok Hshape].
  pose proof (escape_decode_char [i0] tail) as H. unfold LexAlphaProofs.renders, decodes in H.
  cbn [flat_map forallb] in H. rewrite !app_nil_r in H.
  rewrite H by (rewrite (fitem_item_ok 39 i0 (or_introl eq_refl) Hok); reflexivity).
  destruct i0 as [c|c b|h1 h2|ds]; cbn [decode].
  - apply N.ltb_lt in Hshape. rewrite utf8_ascii by (unfold is_ascii; b2p; lia). eauto.
  - eauto.
  - eauto.
  - discriminate.
Qed.

(* ========================================================================== *)
(* 4. Words and punctuation                                                   *)
(* ========================================================================== *)
Lemma lex_step_word x rest : is_ident_start x = true -> lex_step x rest = lex_word x rest.
Proof.
  intros Hx. unfold lex_step.
  repeat match goal with
  | |- context [(x =? ?c)] =>
      let E := fresh in destruct (x =? c) eqn:E;
      [apply N.eqb_eq in E; subst x; discriminate Hx|]
  end.
  now rewrite Hx.
Qed.

Lemma classify_word_kind w k v ty : classify_word w = Some (k, v, ty) -> k <> KError.
Proof.
  unfold classify_word. destruct (assoc w keyword_table) as [k0|] eqn:E1.
  - intros H; inversion H; subst. clear H. revert E1. unfold keyword_table. cbn [assoc].
    repeat (destruct (str_eqb w _); [intros H; inversion H; discriminate|]). discriminate.
  - destruct (assoc w bool_table); [intros H; inversion H; discriminate|].
    destruct (assoc w type_table); intros H; inversion H; discriminate.
Qed.

Lemma punct_cases c : is_punct c = true -> In c punct_chars.
Proof.
  unfold is_punct. intros H. apply existsb_exists in H as (y & Hin & Hy). apply N.eqb_eq in Hy. now subst.
Qed.

(* the three things a punctuation character can do *)
Definition punct_outcome (c : N) (rest : list N) (s : step) : Prop :=
  (c = 47 /\ exists r', rest = 47 :: r' /\ s = StEnd) \/
  (exists k, k <> KError /\ s = StTok k 0%Z None [] 1 rest) \/
  (exists k z r', k <> KError /\ rest = z :: r' /\ is_punct z = true /\ z <> 47 /\
                  s = StTok k 0%Z None [] 2 r').

Lemma lex_step_punct c rest : is_punct c = true -> punct_outcome c rest (lex_step c rest).
Proof.
  intros Hp. apply punct_cases in Hp. cbn in Hp.
  assert (H1 : forall k, k <> KError -> punct_outcome c rest (single k rest)).
  { intros k Hk. right. left. exists k. split; [exact Hk|reflexivity]. }
  assert (H2 : forall k z r', k <> KError -> rest = z :: r' -> is_punct z = true -> z <> 47 ->
                punct_outcome c rest (StTok k 0%Z None [] 2 r')).
  { intros k z r' Hk Er Hz Hz47. right. right. exists k, z, r'. auto. }
  destruct rest as [|z r'].
  - repeat (destruct Hp as [<-|Hp]; [apply H1; discriminate|]). contradiction.
  - repeat (destruct Hp as [<-|Hp];
      [first
         [ apply H1; discriminate
         | unfold lex_step, double; cbn [N.eqb Pos.eqb];
           repeat match goal with
           | |- context [if ?a =? ?b then _ else _] =>
               destruct (N.eqb_spec a b);
               [subst; first [ eapply H2; [| reflexivity | reflexivity | ]; discriminate
                             | left; split; [reflexivity|]; eexists; split; reflexivity ]|]
           end;
           apply H1; discriminate ]|]).
    contradiction.
Qed.

(* ========================================================================== *)
(* 5. One step of lex_line on a well-formed line                              *)
(* ========================================================================== *)
Definition nl_atom (a : atom) : bool := match a with ANl _ => true | _ => false end.
Definition noNL (A : list atom) : bool := forallb (fun a => negb (nl_atom a)) A.

Lemma stops_flatc A : WF A -> first_wordy A = false -> stops (flatc A).
Proof.
  intros HW Hf. destruct A as [|a A]; [exact I|].
  destruct (atom_first a (WF_head _ _ HW)) as (x & t & E & Hw).
  cbn [flatc flat_map]. rewrite E. cbn [app stops]. cbn [first_wordy] in Hf. now rewrite <- fcont_eq, Hw.
Qed.

Lemma WF_next_not_wordy a A : WF (a :: A) -> wordy a = true -> first_wordy A = false.
Proof.
  intros [_ Hadj] Hw. cbn [adj_ok] in Hadj. apply andb_true_iff in Hadj as [H _].
  rewrite Hw in H. cbn [andb] in H. now apply negb_true_iff in H.
Qed.

Lemma spell_punct a x t : atom_ok a = true -> spell a = x :: t -> is_punct x = true -> x <> 47 ->
  a = APunct x /\ t = [].
Proof.
  intros Hok Es Hp H47. apply punct_cases in Hp.
  destruct (atom_first a Hok) as (x' & t' & Es' & Hw). rewrite Es in Es'. inversion Es'; subst x' t'.
  destruct a as [c|cr|c|w|b sfx|i0|items|body]; cbn [spell atom_ok wordy] in *.
  - exfalso. inversion Es; subst. cbn in Hp. b2p.
    destruct Hok; subst; repeat (destruct Hp as [Hp|Hp]; [discriminate|]); contradiction.
  - exfalso. destruct cr; inversion Es; subst; cbn in Hp;
      repeat (destruct Hp as [Hp|Hp]; [discriminate|]); contradiction.
  - inversion Es; subst. split; reflexivity.
  - exfalso. cbn in Hp. repeat (destruct Hp as [<-|Hp]; [discriminate|]). contradiction.
  - exfalso. cbn in Hp. repeat (destruct Hp as [<-|Hp]; [discriminate|]). contradiction.
  - exfalso. inversion Es; subst. cbn in Hp. repeat (destruct Hp as [Hp|Hp]; [discriminate|]). contradiction.
  - exfalso. inversion Es; subst. cbn in Hp. repeat (destruct Hp as [Hp|Hp]; [discriminate|]). contradiction.
  - exfalso. inversion Es; subst. congruence.
Qed.

Inductive good_step (A : list atom) (r : list N) : step -> Prop :=
| GS_end : good_step A r StEnd
| GS_skip : r = flatc A -> good_step A r StSkip
| GS_tok k v ty bs n A' : k <> KError -> (length A' <= length A)%nat -> WF A' -> noNL A' = true ->
    good_step A r (StTok k v ty bs n (flatc A')).

Theorem alpha_step a A x r : WF (a :: A) -> noNL (a :: A) = true -> flatc (a :: A) = x :: r ->
  good_step A r (lex_step x r).
Proof.
  intros HW Hnl E. pose proof (WF_head _ _ HW) as Hok. pose proof (WF_tail _ _ HW) as HWt.
  cbn [noNL forallb] in Hnl. apply andb_true_iff in Hnl as [Hna HnlA]. fold (noNL A) in HnlA.
  cbn [flatc flat_map] in E. fold (flatc A) in E.
  assert (Hsame : forall k v ty bs n, k <> KError -> good_step A r (StTok k v ty bs n (flatc A))).
  { intros. apply GS_tok; [assumption|lia|exact HWt|exact HnlA]. }
  destruct a as [c|cr|c|w|b sfx|i0|items|body]; cbn [atom_ok spell nl_atom negb] in *; try discriminate.
  - (* blank *)
    inversion E; subst x r. rewrite blank_step by (unfold blank; b2p; exact Hok). now apply GS_skip.
  - (* punctuation *)
    inversion E; subst x r. destruct (lex_step_punct c (flatc A) Hok) as [(_ & r' & _ & ->)|[(k & Hk & ->)|(k & z & r' & Hk & Er & Hz & Hz47 & ->)]].
    + apply GS_end.
    + now apply Hsame.
    + destruct A as [|a2 A2]; [discriminate Er|]. cbn [flatc flat_map] in Er. fold (flatc A2) in Er.
      destruct (atom_first a2 (WF_head _ _ HWt)) as (y & t & Es & _). rewrite Es in Er. cbn [app] in Er.
      inversion Er; subst y r'. destruct (spell_punct a2 z t (WF_head _ _ HWt) Es Hz Hz47) as [-> ->].
      cbn [app]. apply GS_tok; [exact Hk|cbn [length]; lia|exact (WF_tail _ _ HWt)|].
      cbn [noNL forallb] in HnlA. apply andb_true_iff in HnlA. tauto.
  - (* word *)
    apply andb_true_iff in Hok as [Hstart Hall]. destruct w as [|x0 w]; [discriminate|].
    cbn [app] in E. inversion E; subst x r. clear E.
    rewrite lex_step_word by exact Hstart. unfold lex_word.
    assert (Hstops : stops (flatc A)).
    { apply stops_flatc; [exact HWt|]. apply (WF_next_not_wordy _ _ HW). reflexivity. }
    cbn [forallb] in Hall. apply andb_true_iff in Hall as [_ Hall].
    rewrite (take_ident_app w (flatc A) Hall Hstops).
    destruct (classify_word (x0 :: w)) as [[[k v] ty]|] eqn:Ec.
    + apply Hsame. eapply classify_word_kind; eassumption.
    + assert (Hsame' : forall k v ty bs n rest, rest = flatc A -> k <> KError ->
                         good_step A (w ++ flatc A) (StTok k v ty bs n rest)).
      { intros k v ty bs n rest ->. apply Hsame. }
      clear Hsame. destruct (flatc A) as [|y r'] eqn:EA.
      * apply Hsame'; [reflexivity|discriminate].
      * destruct (N.eqb_spec y 33) as [->|Hy].
        -- destruct A as [|a2 A2]; [discriminate EA|]. cbn [flatc flat_map] in EA. fold (flatc A2) in EA.
           destruct (atom_first a2 (WF_head _ _ HWt)) as (y & t & Es & _). rewrite Es in EA. cbn [app] in EA.
           inversion EA; subst y r'.
           destruct (spell_punct a2 33 t (WF_head _ _ HWt) Es eq_refl ltac:(discriminate)) as [-> ->].
           cbn [app]. apply GS_tok; [discriminate|cbn [length]; lia|exact (WF_tail _ _ HWt)|].
           cbn [noNL forallb] in HnlA. apply andb_true_iff in HnlA. tauto.
        -- apply Hsame'; [reflexivity|discriminate].
  - (* number *)
    apply andb_true_iff in Hok as [Hv Hsfx]. apply N.ltb_lt in Hv.
    destruct (body_text b ++ sfx_text sfx) as [|x1 r1] eqn:Et.
    { destruct (body_text_head b Hv) as (y & t & Eb & _). rewrite Eb in Et. discriminate. }
    cbn [app] in E. inversion E; subst x r. clear E.
    assert (Hstops : stops (flatc A)).
    { apply stops_flatc; [exact HWt|]. apply (WF_next_not_wordy _ _ HW). reflexivity. }
    destruct (num_step_alpha b sfx (flatc A) x1 r1 Hv Hsfx Hstops Et) as (ty & n & ->).
    apply Hsame. destruct sfx; [discriminate|destruct b; discriminate].
  - (* char literal *)
    cbn [app] in E. rewrite <- app_assoc in E. cbn [app] in E. inversion E; subst x r. clear E.
    destruct (lit_step_alpha_char i0 (flatc A) Hok) as (v & n & ->). apply Hsame. discriminate.
  - (* string literal *)
    cbn [app] in E. rewrite <- app_assoc in E. cbn [app] in E. inversion E; subst x r. clear E.
    destruct (lit_step_alpha_str items (flatc A) Hok) as (bs & n & ->). apply Hsame. discriminate.
  - (* comment *)
    cbn [app] in E. inversion E; subst x r. apply GS_end.
Qed.

Definition pay_ok (p : payl) : Prop := fst (fst (fst p)) <> KError.

(* a whole line *)
Theorem alpha_line : forall n A, (length A <= n)%nat -> WF A -> noNL A = true ->
  Forall pay_ok (pays_of (flatc A)).
Proof.
  induction n as [|n IH]; intros A Hn HW Hnl.
  - destruct A; [constructor|cbn [length] in Hn; lia].
  - destruct A as [|a A]; [constructor|]. cbn [length] in Hn.
    destruct (atom_first a (WF_head _ _ HW)) as (x & t & Es & _).
    assert (E : flatc (a :: A) = x :: t ++ flatc A) by (cbn [flatc flat_map]; now rewrite Es).
    rewrite E, pays_of_cons.
    pose proof (alpha_step a A x _ HW Hnl E) as Hg.
    inversion Hg as [Hs|Er Hs|k v ty bs m A' Hk Hlen HW' Hnl' Hs]; rewrite <- Hs in *.
    + constructor.
    + rewrite Er. apply IH; [lia|exact (WF_tail _ _ HW)|].
      cbn [noNL forallb] in Hnl. apply andb_true_iff in Hnl. tauto.
    + cbn [step_payload rest_of app]. constructor; [exact Hk|]. apply IH; [lia|exact HW'|exact Hnl'].
Qed.

(* ========================================================================== *)
(* 6. Lines                                                                   *)
(* ========================================================================== *)
(* str::lines strips ONE carriage return in front of the line feed *)
Fixpoint strip_cr (l : list N) : list N :=
  match l with
  | [] => []
  | c :: r => match r with
              | [] => if c =? 13 then [] else [c]
              | _ :: _ => c :: strip_cr r
              end
  end.

Lemma strip_cr_snoc l c : strip_cr (l ++ [c]) = if c =? 13 then l else l ++ [c].
Proof.
  induction l as [|d l IH]; [cbn; destruct (c =? 13); reflexivity|].
  cbn [app strip_cr]. destruct (l ++ [c]) as [|e t] eqn:E; [destruct l; discriminate|].
  rewrite IH. destruct (c =? 13); reflexivity.
Qed.

Lemma lines_of_no_nl l : ~ In 10 l -> l <> [] -> lines_of l = [l].
Proof.
  induction l as [|c l IH]; intros Hn Hne; [congruence|]. cbn [lines_of].
  destruct (N.eqb_spec c 10) as [->|_]; [exfalso; apply Hn; now left|].
  assert (Hnext : match l with n :: _ => n =? 10 | [] => false end = false).
  { destruct l as [|d l']; [reflexivity|]. apply N.eqb_neq. intros ->. apply Hn. right. now left. }
  rewrite Hnext, andb_false_r. destruct l as [|d l']; [reflexivity|].
  rewrite IH; [reflexivity| |discriminate]. intros H. apply Hn. now right.
Qed.

Lemma lines_of_app_nl l s : ~ In 10 l -> lines_of (l ++ 10 :: s) = strip_cr l :: lines_of s.
Proof.
  induction l as [|c l IH]; intros Hn; [reflexivity|]. cbn [app lines_of strip_cr].
  destruct (N.eqb_spec c 10) as [->|_]; [exfalso; apply Hn; now left|].
  assert (Hn' : ~ In 10 l) by (intros H; apply Hn; now right).
  destruct l as [|d l'].
  - cbn [app]. rewrite N.eqb_refl, andb_true_r. destruct (c =? 13); reflexivity.
  - cbn [app]. destruct (N.eqb_spec d 10) as [->|_]; [exfalso; apply Hn'; now left|].
    rewrite andb_false_r. change (d :: l' ++ 10 :: s) with ((d :: l') ++ 10 :: s). rewrite (IH Hn'). reflexivity.
Qed.

(* ---- where line feeds and carriage returns can occur in atoms ------------------------ *)
Lemma item_no_ctl i0 : fitem_ok i0 = true -> forall z, In z (render i0) -> z <> 10 /\ z <> 13.
Proof.
  intros Hok z Hz. destruct i0 as [c|c b|h1 h2|ds]; cbn [fitem_ok render] in *.
  - destruct Hz as [<-|[]]. unfold Fuzzer.in_range in Hok. b2p. lia.
  - unfold simple_escapes in Hok. cbn [existsb fst snd] in Hok. b2p.
    destruct Hz as [<-|[<-|[]]]; [lia|]. lia.
  - apply andb_true_iff in Hok as [H1 H2]. unfold is_hex_upper, Fuzzer.in_range in *.
    destruct Hz as [<-|[<-|[<-|[<-|[]]]]]; b2p; lia.
  - repeat apply andb_true_iff in Hok as [Hok ?].
    destruct Hz as [<-|[<-|[<-|Hz]]]; try lia. apply in_app_iff in Hz as [Hz|[<-|[]]]; [|lia].
    rewrite forallb_forall in Hok. specialize (Hok z Hz). unfold is_hex_lower, Fuzzer.in_range in Hok. b2p. lia.
Qed.

Lemma atom_ctl a : atom_ok a = true -> nl_atom a = false -> forall z, In z (spell a) ->
  z <> 10 /\ (z = 13 -> exists body, a = AComment body).
Proof.
  intros Hok Hna z Hz.
  assert (Hcont : forall l, forallb fcont l = true -> In z l -> z <> 10 /\ z <> 13).
  { intros l Hl Hin. rewrite forallb_forall in Hl. specialize (Hl z Hin). split; intros ->; discriminate. }
  destruct a as [c|cr|c|w|b sfx|i0|items|body]; cbn [spell atom_ok nl_atom] in *; try discriminate.
  - destruct Hz as [<-|[]]. b2p. split; [lia|intros ->; lia].
  - destruct Hz as [<-|[]]. apply punct_cases in Hok. cbn in Hok.
    repeat (destruct Hok as [<-|Hok]; [split; [lia|discriminate]|]). contradiction.
  - apply andb_true_iff in Hok as [_ Hall]. destruct (Hcont w Hall Hz). split; [assumption|congruence].
  - destruct (wordy_spell_cont (ANum b sfx) Hok eq_refl) as [Hall _]. destruct (Hcont _ Hall Hz).
    split; [assumption|congruence].
  - unfold citem_ok in Hok. apply andb_true_iff in Hok as [Hok _].
    destruct Hz as [<-|Hz]; [split; [lia|discriminate]|]. apply in_app_iff in Hz as [Hz|[<-|[]]]; [|split; [lia|discriminate]].
    destruct (item_no_ctl i0 Hok z Hz). split; [assumption|congruence].
  - destruct Hz as [<-|Hz]; [split; [lia|discriminate]|]. apply in_app_iff in Hz as [Hz|[<-|[]]]; [|split; [lia|discriminate]].
    unfold LexAlphaProofs.renders in Hz. apply in_flat_map in Hz as (i0 & Hi & Hz).
    rewrite forallb_forall in Hok. destruct (item_no_ctl i0 (Hok i0 Hi) z Hz). split; [assumption|congruence].
  - split; [|intros _; eauto]. destruct Hz as [<-|[<-|Hz]]; try lia.
    rewrite forallb_forall in Hok. specialize (Hok z Hz). b2p. tauto.
Qed.

Lemma flatc_no_nl A : WF A -> noNL A = true -> ~ In 10 (flatc A).
Proof.
  intros [Hok _] Hnl Hin. unfold flatc in Hin. apply in_flat_map in Hin as (a & Ha & Hz).
  unfold noNL in Hnl. rewrite forallb_forall in Hok, Hnl. specialize (Hnl a Ha). apply negb_true_iff in Hnl.
  destruct (atom_ctl a (Hok a Ha) Hnl 10 Hz) as [H _]. congruence.
Qed.

(* ---- well-formedness of parts --------------------------------------------------------- *)
Lemma adj_ok_app_inv l1 l2 : adj_ok (l1 ++ l2) = true -> adj_ok l1 = true /\ adj_ok l2 = true.
Proof.
  induction l1 as [|a l1 IH]; intros H; [split; [reflexivity|exact H]|].
  cbn [app adj_ok] in H. apply andb_true_iff in H as [Ha H]. destruct (IH H) as [H1 H2].
  split; [|exact H2]. cbn [adj_ok]. rewrite H1, andb_true_r.
  destruct l1 as [|b l1]; [cbn [first_wordy]; now rewrite andb_false_r|exact Ha].
Qed.

Lemma WF_app_inv l1 l2 : WF (l1 ++ l2) -> WF l1 /\ WF l2.
Proof.
  intros [A B]. rewrite forallb_app in A. apply andb_true_iff in A as [A1 A2].
  destruct (adj_ok_app_inv l1 l2 B) as [B1 B2]. split; split; assumption.
Qed.

Definition LineOK (l : list N) : Prop := exists seg, l = flatc seg /\ WF seg /\ noNL seg = true.

(* a line that lost its carriage return is still a well-formed line *)
Lemma strip_cr_flatc seg : WF seg -> noNL seg = true -> LineOK (strip_cr (flatc seg)).
Proof.
  intros HW Hnl. destruct seg as [|a seg0] using rev_ind; [exists []; repeat split; reflexivity|]. clear IHseg0.
  destruct (WF_app_inv _ _ HW) as [HW0 HWa]. pose proof (WF_head _ _ HWa) as Hok.
  unfold noNL in Hnl. rewrite forallb_app in Hnl. apply andb_true_iff in Hnl as [Hnl0 Hnla].
  cbn [forallb] in Hnla. rewrite andb_true_r in Hnla. apply negb_true_iff in Hnla.
  destruct (atom_first a Hok) as (x & t & Es & _).
  assert (Hlast : exists s c, spell a = s ++ [c]).
  { rewrite Es. destruct (exists_last (l := x :: t) ltac:(discriminate)) as (s & c & ->). eauto. }
  destruct Hlast as (s & c & Esc).
  rewrite flatc_app. cbn [flatc flat_map]. rewrite app_nil_r, Esc, app_assoc, strip_cr_snoc.
  destruct (N.eqb_spec c 13) as [->|Hc].
  - destruct (atom_ctl a Hok Hnla 13) as [_ Hcm]; [rewrite Esc; apply in_app_iff; right; now left|].
    destruct (Hcm eq_refl) as (body & ->). cbn [spell] in Esc.
    assert (Hb : exists body', body = body' ++ [13] /\ s = 47 :: 47 :: body').
    { destruct body as [|b0 body] using rev_ind.
      - exfalso. change [47; 47] with ([47] ++ [47]) in Esc. apply app_inj_tail in Esc as [_ Esc]. discriminate.
      - exists body. change (47 :: 47 :: body ++ [b0]) with ((47 :: 47 :: body) ++ [b0]) in Esc.
        apply app_inj_tail in Esc as [<- <-]. split; reflexivity. }
    destruct Hb as (body' & -> & ->).
    exists (seg0 ++ [AComment body']). split; [|split].
    + rewrite flatc_app. cbn [flatc flat_map spell]. now rewrite app_nil_r.
    + apply WF_app; [exact HW0| |apply andb_false_r]. apply WF_single. cbn [atom_ok] in *.
      rewrite forallb_app in Hok. apply andb_true_iff in Hok. tauto.
    + unfold noNL. rewrite forallb_app, Hnl0. reflexivity.
  - exists (seg0 ++ [a]). split; [|split].
    + rewrite flatc_app. cbn [flatc flat_map]. now rewrite app_nil_r, Esc, app_assoc.
    + exact HW.
    + unfold noNL. rewrite forallb_app, Hnl0. cbn [forallb]. now rewrite Hnla.
Qed.

Lemma split_nl A : noNL A = true \/
  exists seg cr rest, A = seg ++ ANl cr :: rest /\ noNL seg = true.
Proof.
  induction A as [|a A IH]; [now left|].
  destruct (nl_atom a) eqn:Ha.
  - right. destruct a; try discriminate. exists [], cr, A. split; reflexivity.
  - destruct IH as [IH|(seg & cr & rest & -> & Hs)].
    + left. cbn [noNL forallb]. rewrite Ha. exact IH.
    + right. exists (a :: seg), cr, rest. split; [reflexivity|]. cbn [noNL forallb]. rewrite Ha. exact Hs.
Qed.

Theorem alpha_lines : forall n A, (length A <= n)%nat -> WF A -> Forall LineOK (lines_of (flatc A)).
Proof.
  induction n as [|n IH]; intros A Hn HW.
  - destruct A; [constructor|cbn [length] in Hn; lia].
  - destruct (split_nl A) as [Hnl|(seg & cr & rest & -> & Hs)].
    + destruct A as [|a A]; [constructor|].
      rewrite lines_of_no_nl.
      * constructor; [|constructor]. exists (a :: A). auto.
      * now apply flatc_no_nl.
      * destruct (atom_first a (WF_head _ _ HW)) as (x & t & Es & _). cbn [flatc flat_map]. rewrite Es. discriminate.
    + destruct (WF_app_inv _ _ HW) as [HWs HWr]. pose proof (WF_tail _ _ HWr) as HWrest.
      rewrite app_length in Hn. cbn [length] in Hn.
      rewrite flatc_app. cbn [flatc flat_map]. fold (flatc rest).
      pose proof (flatc_no_nl seg HWs Hs) as Hno.
      destruct cr; cbn [spell app].
      * change (flatc seg ++ 13 :: 10 :: flatc rest) with (flatc seg ++ [13] ++ 10 :: flatc rest).
        rewrite app_assoc, lines_of_app_nl.
        -- rewrite strip_cr_snoc. cbn. constructor; [exists seg; auto|]. apply IH; [lia|exact HWrest].
        -- intros H. apply in_app_iff in H as [H|[H|[]]]; [now apply Hno|discriminate].
      * rewrite lines_of_app_nl by exact Hno.
        constructor; [now apply strip_cr_flatc|]. apply IH; [lia|exact HWrest].
Qed.

(* ========================================================================== *)
(* 7. The whole source                                                        *)
(* ========================================================================== *)
Definition no_error_tok (t : tok) : Prop := kind t <> KError.

Theorem alpha_no_error A : WF A -> A <> [] -> Forall no_error_tok (lex_alpha_fixed (flatc A)).
Proof.
  intros HW Hne. apply Forall_forall. intros t Hin.
  apply (in_map pay) in Hin. rewrite lex_alpha_fixed_lines in Hin.
  assert (Hnil : is_nil (flatc A) = false).
  { destruct A as [|a A]; [congruence|]. destruct (atom_first a (WF_head _ _ HW)) as (x & r & Es & _).
    cbn [flatc flat_map]. rewrite Es. reflexivity. }
  rewrite Hnil, app_nil_r in Hin. apply in_flat_map in Hin as (l & Hl & Hp).
  pose proof (alpha_lines (length A) A (le_n _) HW) as Hlines. rewrite Forall_forall in Hlines.
  destruct (Hlines l Hl) as (seg & -> & HWs & Hnl).
  pose proof (alpha_line (length seg) seg (le_n _) HWs Hnl) as Hpay. rewrite Forall_forall in Hpay.
  exact (Hpay _ Hp).
Qed.

(* ========================================================================== *)
(* 8. A source consisting of one spelling                                     *)
(* ========================================================================== *)
Lemma kinds_of_pays (l : list tok) : map kind l = map (fun p : payl => fst (fst (fst p))) (map pay l).
Proof. rewrite map_map. reflexivity. Qed.

Lemma single_tok_alpha x r k v ty bs n : ~ In 10 (x :: r) ->
  lex_step x r = StTok k v ty bs n [] -> map kind (lex_alpha_fixed (x :: r)) = [k].
Proof.
  intros Hnl Hs. rewrite kinds_of_pays, lex_alpha_fixed_lines, lines_of_no_nl by (assumption || discriminate).
  cbn [flat_map is_nil]. rewrite !app_nil_r, pays_of_cons, Hs. cbn [step_payload rest_of app]. reflexivity.
Qed.

Lemma str_eqb_eq x : forall y, str_eqb x y = true -> x = y.
Proof.
  induction x as [|a x IH]; intros [|b y] H; try discriminate; [reflexivity|].
  cbn [str_eqb] in H. apply andb_true_iff in H as [H1 H2]. apply N.eqb_eq in H1. subst. f_equal. now apply IH.
Qed.

Lemma assoc_key {A} (k : list N) (t : list (list N * A)) v : assoc k t = Some v -> In k (map fst t).
Proof.
  induction t as [|[k' v'] t IH]; cbn [assoc map fst]; [discriminate|].
  destruct (str_eqb k k') eqn:E; intros H; [left; symmetry; now apply str_eqb_eq|right; auto].
Qed.

Lemma keywords_unmarked :
  forallb (fun w => negb (has_marker w) || str_eqb w [95])
          (map fst keyword_table ++ map fst bool_table ++ map fst type_table) = true.
Proof. vm_compute. reflexivity. Qed.

Lemma classify_none w : has_marker w = true -> w <> [95] -> classify_word w = None.
Proof.
  intros Hm Hne.
  assert (Hnot : ~ In w (map fst keyword_table ++ map fst bool_table ++ map fst type_table)).
  { intros Hin. pose proof keywords_unmarked as H. rewrite forallb_forall in H. specialize (H w Hin).
    rewrite Hm in H. cbn [negb orb] in H. apply str_eqb_eq in H. contradiction. }
  unfold classify_word.
  destruct (assoc w keyword_table) eqn:E1.
  { exfalso. apply Hnot, in_app_iff. left. eapply assoc_key; eassumption. }
  destruct (assoc w bool_table) eqn:E2.
  { exfalso. apply Hnot, in_app_iff. right. apply in_app_iff. left. eapply assoc_key; eassumption. }
  destruct (assoc w type_table) eqn:E3; [|reflexivity].
  exfalso. apply Hnot, in_app_iff. right. apply in_app_iff. right. eapply assoc_key; eassumption.
Qed.

Lemma cont_no_nl l : forallb fcont l = true -> ~ In 10 l.
Proof. intros H Hin. rewrite forallb_forall in H. specialize (H 10 Hin). discriminate. Qed.

Theorem identifier_lexes w : atom_ok (AWord w) = true -> has_marker w = true -> w <> [95] ->
  map kind (lex_alpha_fixed w) = [KIdentifier].
Proof.
  intros Hok Hm Hne. cbn [atom_ok] in Hok. apply andb_true_iff in Hok as [Hs Hall].
  destruct w as [|x t]; [discriminate|].
  eapply single_tok_alpha; [now apply cont_no_nl|].
  rewrite lex_step_word by exact Hs. unfold lex_word.
  cbn [forallb] in Hall. apply andb_true_iff in Hall as [_ Hall].
  rewrite <- (app_nil_r t) at 1. rewrite (take_ident_app t [] Hall I), (classify_none _ Hm Hne). reflexivity.
Qed.

Theorem builtin_lexes w : atom_ok (AWord w) = true -> has_marker w = true -> w <> [95] ->
  map kind (lex_alpha_fixed (w ++ [33])) = [KBuiltin].
Proof.
  intros Hok Hm Hne. cbn [atom_ok] in Hok. apply andb_true_iff in Hok as [Hs Hall].
  destruct w as [|x t]; [discriminate|]. cbn [app].
  eapply single_tok_alpha.
  - change (x :: t ++ [33]) with ((x :: t) ++ [33]). intros Hin. apply in_app_iff in Hin as [Hin|[Hin|[]]]; [|discriminate].
    exact (cont_no_nl _ Hall Hin).
  - rewrite lex_step_word by exact Hs. unfold lex_word.
    cbn [forallb] in Hall. apply andb_true_iff in Hall as [_ Hall].
    rewrite (take_ident_app t [33] Hall eq_refl), (classify_none _ Hm Hne). reflexivity.
Qed.

Theorem identifier_placeholder : map kind (lex_alpha_fixed [95]) = [KPlaceholder] /\
  map kind (lex_alpha_fixed [95; 33]) = [KPlaceholder; KExclamation].
Proof. vm_compute. split; reflexivity. Qed.

Theorem number_lexes b sfx : body_value b < 2 ^ 128 -> sfx_ok sfx = true ->
  exists t, lex_alpha_fixed (body_text b ++ sfx_text sfx) = [t] /\ kind t = num_kind b sfx /\
            value t = Z.of_N (body_value b).
Proof.
  intros Hv Hs.
  assert (Hok : atom_ok (ANum b sfx) = true) by (cbn [atom_ok]; apply N.ltb_lt in Hv; now rewrite Hv, Hs).
  destruct (wordy_spell_cont (ANum b sfx) Hok eq_refl) as [Hcont _]. cbn [spell] in Hcont.
  destruct (body_text b ++ sfx_text sfx) as [|x r0] eqn:Et.
  { destruct (body_text_head b Hv) as (y & t & Eb & _). rewrite Eb in Et. discriminate. }
  destruct (num_step_alpha b sfx [] x r0 Hv Hs I Et) as (ty & n & Hstep). rewrite app_nil_r in Hstep.
  assert (Hnl : ~ In 10 (x :: r0)) by now apply cont_no_nl.
  assert (Hcr : ~ In 13 (x :: r0)).
  { intros Hin. rewrite forallb_forall in Hcont. specialize (Hcont 13 Hin). discriminate. }
  rewrite lex_alpha_fixed_no_cr by exact Hcr.
  rewrite lex_alpha_single_line.
  2: discriminate.
  2:{ apply forallb_forall. intros z Hz. destruct (N.eqb_spec z 10) as [->|_]; [contradiction|].
      destruct (N.eqb_spec z 13) as [->|_]; [contradiction|reflexivity]. }
  unfold lex_line. cbn [length lex_line_fuel]. rewrite Hstep. cbn [lex_line_fuel].
  rewrite lex_line_fuel_nil. eexists. split; [reflexivity|]. split; reflexivity.
Qed.

Theorem char_lexes i0 : citem_ok i0 = true -> map kind (lex_alpha_fixed (39 :: render i0 ++ [39])) = [KCharLiteral].
Proof.
  intros Hok. destruct (lit_step_alpha_char i0 [] Hok) as (v & n & Hstep).
  eapply single_tok_alpha; [|exact Hstep].
  unfold citem_ok in Hok. apply andb_true_iff in Hok as [Hfi _].
  intros [H|H]; [discriminate|]. apply in_app_iff in H as [H|[H|[]]]; [|discriminate].
  destruct (item_no_ctl i0 Hfi 10 H). congruence.
Qed.

Theorem string_lexes items : forallb fitem_ok items = true ->
  map kind (lex_alpha_fixed (34 :: renders items ++ [34])) = [KStringLiteral].
Proof.
  intros Hall. destruct (lit_step_alpha_str items [] Hall) as (bs & n & Hstep).
  eapply single_tok_alpha; [|exact Hstep].
  intros [H|H]; [discriminate|]. apply in_app_iff in H as [H|[H|[]]]; [|discriminate].
  unfold LexAlphaProofs.renders in H. apply in_flat_map in H as (i0 & Hi & Hz).
  rewrite forallb_forall in Hall. destruct (item_no_ctl i0 (Hall i0 Hi) 10 Hz). congruence.
Qed.
