(* The range of the reference parser: every tree it returns satisfies the wf_
   predicates of Model/RefParser.v (given tokens with payloads in range), hence
   parses back from its printed tokens. *)
From PV Require Import Base.Common Base.IR Base.Tok Model.RefParser Proofs.RefParserProofs.

Definition OK (ts : list tok) : Prop := toks_ok ts = true.

Lemma OK_tl ts : OK ts -> OK (tl ts).
Proof.
  unfold OK, toks_ok. destruct ts as [|t r]; [auto|]. cbn [forallb tl]. intros H.
  now apply andb_prop in H as [_ H].
Qed.

Lemma OK_cons t r : OK (t :: r) -> tok_ok t = true /\ OK r.
Proof. unfold OK, toks_ok. cbn [forallb]. intros H. now apply andb_prop in H. Qed.

Lemma expect_OK p ts r : expect p ts = Some r -> OK ts -> OK r.
Proof.
  unfold expect. destruct ts as [|t ts']; [discriminate|]. destruct (p (kind t)); [|discriminate].
  intros [= <-] H. now apply OK_cons in H as [_ H].
Qed.

Lemma expect_id_OK ts n r : expect_id ts = Some (n, r) -> OK ts -> OK r.
Proof.
  unfold expect_id. destruct ts as [|t ts']; [discriminate|].
  destruct (isIdentifier (kind t)); [|discriminate].
  intros [= _ <-] H. now apply OK_cons in H as [_ H].
Qed.

(* Case analysis following the code: destruct every scrutinee of the hypothesis. *)
Ltac crack H :=
  repeat (first
    [ discriminate H
    | match type of H with
      | match ?x with _ => _ end = Some _ =>
          let E := fresh "E" in destruct x eqn:E; try discriminate H
      | (if ?b then _ else _) = Some _ =>
          let E := fresh "E" in destruct b eqn:E; try discriminate H
      end ]).

Ltac not_have P := lazymatch goal with | _ : P |- _ => fail | _ => idtac end.

(* Propagate token well-formedness along the hypotheses. *)
Ltac okchain :=
  repeat match goal with
         | H : OK (_ :: _) |- _ => apply OK_cons in H as [? H]
         | H : OK ?a -> OK ?b, H2 : OK ?a |- _ => specialize (H H2)
         | H : OK ?a -> OK ?b /\ _, H2 : OK ?a |- _ => specialize (H H2)
         | H : expect _ ?a = Some ?b, H2 : OK ?a |- _ =>
             not_have (OK b); pose proof (expect_OK _ _ _ H H2)
         | H : expect_id ?a = Some (_, ?b), H2 : OK ?a |- _ =>
             not_have (OK b); pose proof (expect_id_OK _ _ _ H H2)
         | H2 : OK ?a |- context [tl ?a] => not_have (OK (tl a)); pose proof (OK_tl _ H2)
         | H2 : OK ?a, H : context [tl ?a] |- _ => not_have (OK (tl a)); pose proof (OK_tl _ H2)
         end.

Lemma parse_inner_type_rng f : forall ts t r,
  parse_inner_type f ts = Some (t, r) -> ty_rng t = true /\ (OK ts -> OK r).
Proof.
  induction f as [|f IH]; intros ts t r H; [discriminate H|].
  rewrite parse_inner_type_S in H. crack H;
    repeat match goal with
           | H' : parse_inner_type f _ = Some _ |- _ => apply IH in H'; destruct H' as [? ?]
           end;
    try (injection H as <- <-); cbn [ty_rng].
  all: split; [|intros Hok; okchain; assumption].
  all: try reflexivity; try assumption.
  match goal with H : ty_rng ?t = true |- _ => rewrite H end.
  pose proof (Z.mod_pos_bound (value t1) usize_lim ltac:(reflexivity)) as [B1 B2].
  apply Z.leb_le in B1. apply Z.ltb_lt in B2. now rewrite B1, B2.
Qed.

Lemma parse_wellformed_type_ok f ts t r :
  parse_wellformed_type f ts = Some (t, r) -> ty_ok t = true /\ (OK ts -> OK r).
Proof.
  unfold parse_wellformed_type. intros H. crack H. subst.
  apply parse_inner_type_rng in E as [H1 H2]. injection H as <- <-. unfold ty_ok.
  rewrite H1. auto.
Qed.

(* ------------------------------------------------------------------------- *)
(* Expressions                                                                *)
(* ------------------------------------------------------------------------- *)

Definition edge nb (e : expr) (r : list tok) : Prop :=
  pstop nb (hdk r) = true -> redge nb e (hdk r) = true.

Definition ERes nb lv (e : expr) (r : list tok) : Prop :=
  OK r /\ wf_expr nb e = true /\ lvl e <= lv /\ edge nb e r.

Definition FRes nb (e : expr) (r : list tok) : Prop :=
  OK r /\ wf_expr nb e = true /\ (pstop nb (hdk r) = true -> estop nb e (hdk r) = true).

Ltac eres_split := split; [|split; [|split]].
Ltac fres_split := split; [|split].

Lemma ERes_weaken nb lv lv' e r : lv <= lv' -> ERes nb lv e r -> ERes nb lv' e r.
Proof. intros Hle (H1 & H2 & H3 & H4). repeat split; auto. lia. Qed.

Lemma isAs_eq k : isAs k = true -> k = KAs.
Proof. destruct k; cbn; intros H; try discriminate H; reflexivity. Qed.

Lemma pstop_as nb : pstop nb KAs = true. Proof. destruct nb; reflexivity. Qed.

Lemma as_loop_spec f : forall nb acc ts e r,
  OK ts -> wf_expr nb acc = true -> lvl acc <= 2 -> edge nb acc ts ->
  as_loop f acc ts = Some (e, r) -> ERes nb 2 e r /\ isAs (hdk r) = false.
Proof.
  induction f as [|f IH]; intros nb acc ts e r Hok Hwf Hl He H; [discriminate H|].
  rewrite as_loop_S in H. destruct (isAs (hdk ts)) eqn:Eas.
  - crack H. subst. apply parse_wellformed_type_ok in E as [Ht Hok']. okchain.
    apply IH with (nb := nb) in H; auto.
    + cbn [wf_expr]. rewrite Hwf, Ht. apply Nat.leb_le in Hl. rewrite Hl.
      unfold edge in He. rewrite (isAs_eq _ Eas) in He. rewrite (He (pstop_as nb)). reflexivity.
    + intros _. reflexivity.
  - injection H as <- <-. split; [|exact Eas]. repeat split; auto.
Qed.

Lemma bitop_of_inv k op : bitop_of k = Some op ->
  kind_of_binop op = k /\ bitop_of (kind_of_binop op) = Some op /\ forall nb, pstop nb k = true.
Proof. destruct k; cbn; intros [= <-]; repeat split; intros []; reflexivity. Qed.

Lemma shiftop_of_inv k op : shiftop_of k = Some op ->
  kind_of_binop op = k /\ (op = ShiftLeft \/ op = ShiftRight) /\ forall nb, pstop nb k = true.
Proof. destruct k; cbn; intros [= <-]; repeat split; auto; intros []; reflexivity. Qed.

Lemma addop_of_inv k op : addop_of k = Some op ->
  kind_of_binop op = k /\ (op = Add \/ op = Subtract) /\ forall nb, pstop nb k = true.
Proof. destruct k; cbn; intros [= <-]; repeat split; auto; intros []; reflexivity. Qed.

Lemma mulop_of_inv k op : mulop_of k = Some op ->
  kind_of_binop op = k /\ (op = Multiply \/ op = Divide \/ op = Modulo) /\ forall nb, pstop nb k = true.
Proof. destruct k; cbn; intros [= <-]; repeat split; auto; intros []; reflexivity. Qed.

Lemma same_bitop_inv op k : same_bitop op k = true -> kind_of_binop op = k.
Proof.
  unfold same_bitop. destruct (bitop_of k) eqn:E; [|discriminate]. intros H.
  apply binop_eqb_eq in H. subst. now apply bitop_of_inv in E as [E _].
Qed.

Lemma nonbinary_lvl e : is_binary e = false -> lvl e <= 2.
Proof. destruct e; cbn [is_binary lvl]; intros H; try discriminate H; try lia. destruct (v <? 0)%Z; lia. Qed.

Lemma binop_eqb_refl op : binop_eqb op op = true.
Proof. destruct op; reflexivity. Qed.

Definition Sprimary f := forall nb ts e r, OK ts -> parse_primary f nb ts = Some (e, r) -> ERes nb 0 e r.
Definition Sunary f := forall nb ts e r, OK ts -> parse_unary f nb ts = Some (e, r) -> ERes nb 1 e r.
Definition Ssingular f := forall nb ts e r, OK ts -> parse_singular f nb ts = Some (e, r) ->
  ERes nb 2 e r /\ isAs (hdk r) = false.
Definition Smult f := forall nb ts e r, OK ts -> parse_multiplication f nb ts = Some (e, r) ->
  ERes nb 3 e r /\ isAs (hdk r) = false /\ mulop_of (hdk r) = None.
Definition Smul_loop f := forall nb acc ts e r,
  ERes nb 3 acc ts -> isAs (hdk ts) = false -> mul_loop f nb acc ts = Some (e, r) ->
  ERes nb 3 e r /\ isAs (hdk r) = false /\ mulop_of (hdk r) = None.
Definition Saddition f := forall nb ts e r, OK ts -> parse_addition f nb ts = Some (e, r) -> FRes nb e r.
Definition Sadd_loop f := forall nb acc ts e r,
  ERes nb 4 acc ts -> isAs (hdk ts) = false -> mulop_of (hdk ts) = None ->
  add_loop f nb acc ts = Some (e, r) -> FRes nb e r.
Definition Sbit_loop f := forall nb op acc ts e r,
  OK ts -> bitop_of (kind_of_binop op) = Some op -> wf_expr nb acc = true ->
  chain_ok op acc = true -> redge nb acc (kind_of_binop op) = true ->
  bit_loop f nb op acc ts = Some (e, r) -> FRes nb e r.
Definition Sexpr_list f := forall nb br ts es r, OK ts -> expr_list f nb br ts = Some (es, r) ->
  OK r /\ forallb (wf_expr nb) es = true.
Definition Smembers f := forall nb ts ms r, OK ts -> members_loop f nb ts = Some (ms, r) ->
  OK r /\ forallb (fun me : name * expr => let '(_, e) := me in wf_expr nb e) ms = true.
Definition Sreference f := forall nb ts ref r, OK ts -> parse_reference f nb ts = Some (ref, r) ->
  OK r /\ wf_ref nb ref = true.
Definition Ssteps f := forall nb k ts steps r, OK ts -> k <= 127 ->
  steps_loop f nb k ts = Some (steps, r) ->
  OK r /\ forallb (wf_step nb) steps = true /\ k + length steps <= 127.

Definition SpecE f :=
  Sprimary f /\ Sunary f /\ Ssingular f /\ Smult f /\ Smul_loop f /\ Saddition f /\ Sadd_loop f /\
  Sbit_loop f /\ Sexpr_list f /\ Smembers f /\ Sreference f /\ Ssteps f.

Lemma step_addition f : SpecE f -> Saddition (S f).
Proof.
  intros (_ & _ & _ & Hm & _ & _ & Hal & _) nb ts e r Hok H.
  rewrite parse_addition_S in H. crack H. subst.
  apply Hm in E as (He & Has & Hmul); [|exact Hok].
  eapply Hal; [eapply ERes_weaken; [|exact He]; lia|exact Has|exact Hmul|exact H].
Qed.

Lemma stopl5_build nb k :
  pstop nb k = true -> isAs k = false -> mulop_of k = None -> addop_of k = None ->
  bitop_of k = None -> shiftop_of k = None -> stopl 5 nb k = true.
Proof. intros H1 H2 H3 H4 H5 H6. unfold stopl. now rewrite H1, H2, H3, H4, H5, H6. Qed.

Lemma step_add_loop f : SpecE f -> Sadd_loop (S f).
Proof.
  intros (_ & Hu & _ & Hm & _ & _ & Hal & Hbl & _) nb acc ts e r (Hok & Hwf & Hl & He) Has Hmul H.
  rewrite add_loop_S in H.
  destruct (bitop_of (hdk ts)) as [op|] eqn:Eb.
  - destruct (is_binary acc) eqn:Ebin; [discriminate H|].
    destruct (bitop_of_inv _ _ Eb) as (Ek & Hop & Hp).
    eapply Hbl; [exact (OK_tl _ Hok)|exact Hop|exact Hwf| | |exact H].
    + destruct acc; cbn [is_binary] in Ebin; try discriminate Ebin; cbn [chain_ok];
        apply Nat.leb_le; apply nonbinary_lvl; reflexivity.
    + rewrite Ek. apply He. apply Hp.
  - destruct (shiftop_of (hdk ts)) as [op|] eqn:Es.
    + destruct (is_binary acc) eqn:Ebin; [discriminate H|]. crack H. subst. injection H as <- <-.
      destruct (shiftop_of_inv _ _ Es) as (Ek & Hop & Hp).
      apply Hu in E as (Hok1 & Hwf1 & Hl1 & He1); [|exact (OK_tl _ Hok)].
      pose proof (nonbinary_lvl _ Ebin) as Hl2.
      assert (Hre : redge nb acc (kind_of_binop op) = true) by (rewrite Ek; apply He; apply Hp).
      repeat split; [exact Hok1| |].
      * apply Nat.leb_le in Hl1, Hl2.
        destruct Hop as [-> | ->]; cbn [wf_expr]; now rewrite Hwf, Hwf1, Ebin, Hl1, Hl2, Hre.
      * intros Hps. unfold estop. destruct Hop as [-> | ->]; cbn [redge top_stop];
          rewrite (He1 Hps), Hps; reflexivity.
    + destruct (addop_of (hdk ts)) as [op|] eqn:Ea.
      * crack H. subst.
        destruct (addop_of_inv _ _ Ea) as (Ek & Hop & Hp).
        apply Hm in E as ((Hok1 & Hwf1 & Hl1 & He1) & Has1 & Hmul1); [|exact (OK_tl _ Hok)].
        assert (Hre : redge nb acc (kind_of_binop op) = true) by (rewrite Ek; apply He; apply Hp).
        eapply Hal; [|exact Has1|exact Hmul1|exact H].
        repeat split; [exact Hok1| | |].
        -- apply Nat.leb_le in Hl1, Hl.
           destruct Hop as [-> | ->]; cbn [wf_expr]; now rewrite Hwf, Hwf1, Hl1, Hl, Hre.
        -- destruct Hop as [-> | ->]; cbn [lvl]; lia.
        -- intros Hps. destruct Hop as [-> | ->]; cbn [redge]; exact (He1 Hps).
      * injection H as <- <-. repeat split; [exact Hok|exact Hwf|].
        intros Hps. unfold estop. rewrite (He Hps). rewrite (top_stop_low nb acc _ Hl).
        now apply stopl5_build.
Qed.

Lemma step_bit_loop f : SpecE f -> Sbit_loop (S f).
Proof.
  intros (_ & Hu & _ & _ & _ & _ & _ & Hbl & _) nb op acc ts e r Hok Hop Hwf Hch Hre H.
  rewrite bit_loop_S in H. crack H; subst.
  - apply Hu in E as (Hok1 & Hwf1 & Hl1 & He1); [|exact Hok].
    pose proof (same_bitop_inv _ _ E1) as Ek.
    eapply Hbl; [exact (OK_tl _ Hok1)|exact Hop| | | |exact H].
    + apply Nat.leb_le in Hl1.
      destruct (bitop_cases op Hop) as [->|[->| ->]]; cbn [wf_expr]; unfold chain_ok in Hch;
        now rewrite Hwf, Hwf1, Hl1, Hre, Hch.
    + cbn [chain_ok]. apply binop_eqb_refl.
    + assert (Hp : pstop nb (hdk l) = true).
      { rewrite <- Ek. destruct (bitop_cases op Hop) as [->|[->| ->]]; destruct nb; reflexivity. }
      specialize (He1 Hp). rewrite <- Ek in He1.
      destruct (bitop_cases op Hop) as [->|[->| ->]]; cbn [redge]; exact He1.
  - injection H as <- <-.
    apply Hu in E as (Hok1 & Hwf1 & Hl1 & He1); [|exact Hok].
    repeat split; [exact Hok1| |].
    + apply Nat.leb_le in Hl1.
      destruct (bitop_cases op Hop) as [->|[->| ->]]; cbn [wf_expr]; unfold chain_ok in Hch;
        now rewrite Hwf, Hwf1, Hl1, Hre, Hch.
    + intros Hps. unfold estop.
      destruct (bitop_cases op Hop) as [->|[->| ->]]; cbn [redge top_stop];
        rewrite (He1 Hps), Hps, E1; reflexivity.
Qed.

Lemma step_mult f : SpecE f -> Smult (S f).
Proof.
  intros (_ & _ & Hs & _ & Hml & _) nb ts e r Hok H.
  rewrite parse_multiplication_S in H. crack H. subst.
  apply Hs in E as (He & Has); [|exact Hok].
  eapply Hml; [eapply ERes_weaken; [|exact He]; lia|exact Has|exact H].
Qed.

Lemma step_mul_loop f : SpecE f -> Smul_loop (S f).
Proof.
  intros (_ & _ & Hs & _ & Hml & _) nb acc ts e r (Hok & Hwf & Hl & He) Has H.
  rewrite mul_loop_S in H. destruct (mulop_of (hdk ts)) as [op|] eqn:Em.
  - crack H. subst. destruct (mulop_of_inv _ _ Em) as (Ek & Hop & Hp).
    apply Hs in E as ((Hok1 & Hwf1 & Hl1 & He1) & Has1); [|exact (OK_tl _ Hok)].
    assert (Hre : redge nb acc (kind_of_binop op) = true) by (rewrite Ek; apply He; apply Hp).
    eapply Hml; [|exact Has1|exact H].
    repeat split; [exact Hok1| | |].
    + apply Nat.leb_le in Hl1, Hl.
      destruct Hop as [-> | [-> | ->]]; cbn [wf_expr]; now rewrite Hwf, Hwf1, Hl1, Hl, Hre.
    + destruct Hop as [-> | [-> | ->]]; cbn [lvl]; lia.
    + intros Hps. destruct Hop as [-> | [-> | ->]]; cbn [redge]; exact (He1 Hps).
  - injection H as <- <-. repeat split; auto.
Qed.

Lemma step_singular f : SpecE f -> Ssingular (S f).
Proof.
  intros (_ & Hu & _) nb ts e r Hok H.
  rewrite parse_singular_S in H. destruct (isCast (hdk ts)) eqn:Ec; crack H; subst.
  - apply Hu in E as (Hok1 & Hwf1 & Hl1 & He1); [|exact (OK_tl _ Hok)].
    eapply as_loop_spec; [exact Hok1| | | |exact H].
    + cbn [wf_expr]. apply Nat.leb_le in Hl1. now rewrite Hwf1, Hl1.
    + cbn [lvl]. lia.
    + intros Hps. cbn [redge]. exact (He1 Hps).
  - apply Hu in E as (Hok1 & Hwf1 & Hl1 & He1); [|exact Hok].
    eapply as_loop_spec; [exact Hok1|exact Hwf1|lia|exact He1|exact H].
Qed.

Lemma edge_trivial nb e r : (forall k, redge nb e k = true) -> edge nb e r.
Proof. intros H _. apply H. Qed.

Lemma wf_neg nb e :
  wf_expr nb e = true -> lvl e = 0 -> is_pos_signed e = false ->
  wf_expr nb (EUnary Negative e) = true.
Proof. intros H1 H2 H3. cbn [wf_expr]. now rewrite H1, H2, H3. Qed.

Lemma wf_signed_intro nb v t :
  (- i128_max <= v)%Z -> (v <= i128_max)%Z -> lit_type_ok_signed t = true ->
  wf_expr nb (ESigned v t) = true.
Proof.
  intros H1 H2 H3. cbn [wf_expr]. apply Z.leb_le in H1, H2. now rewrite H1, H2, H3.
Qed.

Lemma wf_signed_pos nb v t :
  wf_expr nb (ESigned v t) = true -> (0 <? v)%Z = true ->
  (v <= i128_max)%Z /\ lit_type_ok_signed t = true.
Proof.
  cbn [wf_expr]. intros H Hv. apply Z.ltb_lt in Hv. apply orb_prop in H as [H|H].
  - apply andb_prop in H as [H Ht]. apply andb_prop in H as [_ Hhi]. apply Z.leb_le in Hhi. auto.
  - apply andb_prop in H as [H _]. apply Z.eqb_eq in H. unfold i128_min_abs in H. lia.
Qed.

Lemma step_unary f : SpecE f -> Sunary (S f).
Proof.
  intros (Hp & _ & _ & _ & _ & _ & _ & _ & _ & _ & Hr & _) nb ts e r Hok H.
  rewrite parse_unary_S in H.
  destruct (hdk ts) eqn:Ek;
    try (apply Hp in H; [|exact Hok]; eapply ERes_weaken; [|exact H]; lia).
  - (* | *)
    crack H. subst. injection H as <- <-.
    apply Hr in E as [Hok1 Hwf1]; [|exact (OK_tl _ Hok)]. okchain.
    repeat split; auto; cbn [lvl]; lia.
  - (* ! *)
    crack H. subst. injection H as <- <-.
    apply Hp in E as (Hok1 & Hwf1 & Hl1 & He1); [|exact (OK_tl _ Hok)].
    repeat split; [exact Hok1| |cbn [lvl]; lia|intros Hps; cbn [redge]; exact (He1 Hps)].
    cbn [wf_expr]. assert (lvl e0 = 0) as -> by lia. now rewrite Hwf1.
  - (* - *)
    destruct (parse_primary f nb (tl ts)) as [[e0 r0]|] eqn:E; [|discriminate H].
    apply Hp in E as (Hok1 & Hwf1 & Hl1 & He1); [|exact (OK_tl _ Hok)].
    assert (Hl0 : lvl e0 = 0) by lia.
    destruct e0 as [| | |v t|v t| | | | | | | | | |];
      try (injection H as <- <-;
           split; [exact Hok1|split; [|split; [cbn [lvl]; lia|intros Hps; cbn [redge]; exact (He1 Hps)]]];
           apply wf_neg; [exact Hwf1|exact Hl0|reflexivity]).
    { (* ESigned *)
      destruct (0 <? v)%Z eqn:Ev; injection H as <- <-.
      + destruct (wf_signed_pos nb v t Hwf1 Ev) as (Hhi & Ht). apply Z.ltb_lt in Ev.
        eres_split; [exact Hok1| | |intros _; reflexivity].
        * apply wf_signed_intro; [lia|lia|exact Ht].
        * cbn [lvl]. destruct (- v <? 0)%Z; lia.
      + eres_split; [exact Hok1| |cbn [lvl]; lia|intros _; reflexivity].
        apply wf_neg; [exact Hwf1|exact Hl0|exact Ev].
    }
    { (* EBits: the magnitude of i128::MIN *)
      destruct (v =? i128_min_abs)%Z eqn:Ev; injection H as <- <-.
      + apply Z.eqb_eq in Ev. subst v.
        eres_split; [exact Hok1| | |intros _; reflexivity].
        2: { cbn [lvl]. match goal with |- (if ?b then _ else _) <= _ => destruct b; lia end. }
        cbn [wf_expr] in Hwf1 |- *. apply andb_prop in Hwf1 as [_ Ht].
        change (- i128_min_abs =? - i128_min_abs)%Z with true.
        replace (lit_type_ok_min t) with true; [apply orb_true_r|].
        destruct t as [[]|]; try reflexivity; discriminate Ht.
      + eres_split; [exact Hok1| |cbn [lvl]; lia|intros _; reflexivity].
        apply wf_neg; [exact Hwf1|exact Hl0|exact Ev].
    }
  - (* |: *)
    crack H. subst. injection H as <- <-.
    apply parse_wellformed_type_ok in E as [Ht Hok']. pose proof (OK_tl _ Hok). okchain.
    repeat split; auto; cbn [lvl]; lia.
Qed.

Lemma literal_wf nb t e :
  tok_ok t = true -> literal_of t = Some e ->
  wf_expr nb e = true /\ lvl e = 0 /\ forall k, redge nb e k = true.
Proof.
  unfold tok_ok, literal_of.
  destruct (kind t); intros Hok H; try discriminate H.
  - apply andb_prop in Hok as [H0 H1]. pose proof H0 as H0'. apply Z.leb_le in H0'.
    destruct (value t <=? i128_max)%Z eqn:Em; injection H as <-.
    + repeat split.
      * apply Z.leb_le in Em. apply wf_signed_intro; [unfold i128_max; lia|exact Em|reflexivity].
      * cbn [lvl]. replace (value t <? 0)%Z with false; [reflexivity|]. symmetry. apply Z.ltb_ge. lia.
    + repeat split; cbn [wf_expr lvl lit_type_ok_bits]. now rewrite H0, H1.
  - apply andb_prop in Hok as [H0 H1]. injection H as <-.
    repeat split; cbn [wf_expr lvl lit_type_ok_bits]. now rewrite H0, H1.
  - apply andb_prop in Hok as [Hok Hty]. apply andb_prop in Hok as [H0 H1].
    pose proof H0 as H0'. apply Z.leb_le in H0'.
    destruct (vtype t) as [[|p]|]; try discriminate H.
    destruct (prim_signed p && (value t <=? i128_max)%Z) eqn:Es; injection H as <-.
    + apply andb_prop in Es as [Es Em].
      repeat split.
      * apply Z.leb_le in Em. apply wf_signed_intro; [unfold i128_max; lia|exact Em|exact Es].
      * cbn [lvl]. replace (value t <? 0)%Z with false; [reflexivity|]. symmetry. apply Z.ltb_ge. lia.
    + repeat split; cbn [wf_expr lvl]. rewrite H0, H1. cbn [andb].
      destruct p; try discriminate Hty; cbn [lit_type_ok_bits prim_signed] in *; try reflexivity;
        cbn [andb] in Es; apply Z.leb_gt in Es; apply Z.ltb_lt; exact Es.
  - apply andb_prop in Hok as [H0 H1]. injection H as <-.
    repeat split; cbn [wf_expr lvl lit_type_ok_bits]. rewrite H0, H1.
    replace (value t <? u128_lim)%Z with true; [reflexivity|].
    symmetry. apply Z.ltb_lt. apply Z.ltb_lt in H1. unfold u128_lim. lia.
  - injection H as <-. repeat split.
Qed.

Lemma take_strings_ok ts : forall bs r,
  OK ts -> take_strings ts = (bs, r) -> forallb (fun b => (b <? 256)%N) bs = true /\ OK r.
Proof.
  induction ts as [|t ts IH]; intros bs r Hok H; cbn [take_strings] in H.
  - injection H as <- <-. auto.
  - destruct (isString (kind t)) eqn:Es.
    + destruct (take_strings ts) as [bs' r'] eqn:E. injection H as <- <-.
      apply OK_cons in Hok as [Ht Hok]. destruct (IH bs' r' Hok eq_refl) as [H1 H2].
      split; [|exact H2]. rewrite forallb_app, H1, andb_true_r.
      revert Ht Es. unfold tok_ok. destruct (kind t); intros Ht Es; try discriminate Es. exact Ht.
    + injection H as <- <-. auto.
Qed.

Lemma count_amps_ok ts : forall d r, OK ts -> count_amps ts = (d, r) -> OK r.
Proof.
  induction ts as [|t ts IH]; intros d r Hok H; cbn [count_amps] in H.
  - now injection H as <- <-.
  - destruct (isAmpersand (kind t)).
    + destruct (count_amps ts) as [d' r'] eqn:E. injection H as <- <-.
      apply OK_cons in Hok as [_ Hok]. eapply IH; eauto.
    + now injection H as <- <-.
Qed.

Lemma string_tok_ok t : tok_ok t = true -> kind t = KStringLiteral ->
  forallb (fun b => (b <? 256)%N) (bytes t) = true.
Proof. unfold tok_ok. intros H K. rewrite K in H. exact H. Qed.

Lemma step_primary f : SpecE f -> Sprimary (S f).
Proof.
  intros (_ & _ & _ & _ & _ & Ha & _ & _ & Hel & Hml & Hr & Hst) nb ts e r Hok H.
  rewrite parse_primary_S in H. destruct ts as [|t ts1]; [discriminate H|].
  apply OK_cons in Hok as [Ht Hok].
  destruct (kind t) eqn:Ek; try discriminate H.
  - (* ( *)
    crack H. subst. injection H as <- <-.
    apply Ha in E as (Hok1 & Hwf1 & _); [|exact Hok]. okchain.
    eres_split; auto. intros _. reflexivity.
  - (* [ *)
    crack H. subst. injection H as <- <-.
    apply Hel in E as (Hok1 & Hwf1); [|exact Hok]. okchain.
    eres_split; auto. intros _. reflexivity.
  - (* & *)
    destruct (parse_reference f nb ts1) as [[[d b steps] ts2]|] eqn:E; [|discriminate H].
    apply Hr in E as (Hok2 & Hwf2); [|exact Hok].
    destruct (MAX_ADDRESS_DEPTH <? d + 1)%N eqn:Ed; [discriminate H|].
    assert (Hwf3 : wf_ref nb (Ref (d + 1) b steps) = true).
    { cbn [wf_ref] in *. apply andb_prop in Hwf2 as [Hwf2 Hss]. apply andb_prop in Hwf2 as [_ Hlen].
      rewrite Hss, Hlen. apply N.ltb_ge in Ed. replace (d + 1 <=? MAX_ADDRESS_DEPTH)%N with true; [reflexivity|].
      symmetry. now apply N.leb_le. }
    cbv zeta in H. destruct (isDots (hdk ts2)) eqn:Edots.
    + crack H. subst. injection H as <- <-.
      apply Ha in E as (Hok3 & Hwf4 & He4); [|exact (OK_tl _ Hok2)].
      eres_split; [exact Hok3| |cbn [lvl]; lia|].
      * cbn [wf_expr]. rewrite Hwf3, Hwf4.
        replace (1 <=? d + 1)%N with true; [reflexivity|]. symmetry. apply N.leb_le. lia.
      * intros Hps. cbn [redge]. exact (He4 Hps).
    + injection H as <- <-. eres_split; auto. intros _. reflexivity.
  - (* identifier *)
    destruct (isParenLeft (hdk ts1)) eqn:Ep.
    + crack H. subst. injection H as <- <-.
      apply Hel in E as (Hok1 & Hwf1); [|exact (OK_tl _ Hok)]. okchain.
      eres_split; auto. intros _. reflexivity.
    + destruct (isBraceLeft (hdk ts1) && negb nb) eqn:Eb.
      * crack H. subst. injection H as <- <-.
        apply Hml in E as (Hok1 & Hwf1); [|exact (OK_tl _ Hok)]. okchain.
        apply andb_prop in Eb as [_ Eb].
        eres_split; auto; [|intros _; reflexivity]. cbn [wf_expr]. now rewrite Eb, Hwf1.
      * crack H. subst. injection H as <- <-.
        apply Hst in E as (Hok1 & Hwf1 & Hlen); [|exact Hok|lia].
        eres_split; auto; [|intros _; reflexivity]. cbn [wf_expr wf_ref]. rewrite Hwf1.
        replace (length l <=? MAX_REFERENCE_DEPTH) with true; [reflexivity|].
        symmetry. apply Nat.leb_le. unfold MAX_REFERENCE_DEPTH. lia.
  - (* builtin *)
    crack H. subst. injection H as <- <-. okchain.
    match goal with H' : expr_list f _ _ _ = Some _ |- _ =>
      apply Hel in H' as (Hok1 & Hwf1); [|assumption] end. okchain.
    eres_split; auto. intros _. reflexivity.
  - crack H. injection H as <- <-.
    match goal with E' : literal_of t = Some ?x |- _ =>
      destruct (literal_wf nb t x Ht E') as (H1 & H2 & H3) end.
    eres_split; auto; [lia|]. intros _. apply H3.
  - crack H. injection H as <- <-.
    match goal with E' : literal_of t = Some ?x |- _ =>
      destruct (literal_wf nb t x Ht E') as (H1 & H2 & H3) end.
    eres_split; auto; [lia|]. intros _. apply H3.
  - crack H. injection H as <- <-.
    match goal with E' : literal_of t = Some ?x |- _ =>
      destruct (literal_wf nb t x Ht E') as (H1 & H2 & H3) end.
    eres_split; auto; [lia|]. intros _. apply H3.
  - crack H. injection H as <- <-.
    match goal with E' : literal_of t = Some ?x |- _ =>
      destruct (literal_wf nb t x Ht E') as (H1 & H2 & H3) end.
    eres_split; auto; [lia|]. intros _. apply H3.
  - crack H. injection H as <- <-.
    match goal with E' : literal_of t = Some ?x |- _ =>
      destruct (literal_wf nb t x Ht E') as (H1 & H2 & H3) end.
    eres_split; auto; [lia|]. intros _. apply H3.
  - (* string *)
    destruct (take_strings ts1) as [bs ts2] eqn:E. injection H as <- <-.
    destruct (take_strings_ok ts1 bs ts2 Hok E) as [H1 H2].
    eres_split; auto; [|intros _; reflexivity].
    cbn [wf_expr]. now rewrite forallb_app, (string_tok_ok t Ht Ek), H1.
Qed.

Lemma step_expr_list f : SpecE f -> Sexpr_list (S f).
Proof.
  intros (_ & _ & _ & _ & _ & Ha & _ & _ & Hel & _) nb br ts es r Hok H.
  rewrite expr_list_S in H. destruct (is_close br (hdk ts)); [injection H as <- <-; auto|].
  crack H; subst; injection H as <- <-.
  - apply Ha in E as (Hok1 & Hwf1 & _); [|exact Hok].
    apply Hel in E2 as (Hok2 & Hwf2); [|exact (OK_tl _ Hok1)].
    split; [exact Hok2|]. cbn [forallb]. now rewrite Hwf1, Hwf2.
  - apply Ha in E as (Hok1 & Hwf1 & _); [|exact Hok].
    split; [exact Hok1|]. cbn [forallb]. now rewrite Hwf1.
Qed.

Lemma step_members f : SpecE f -> Smembers (S f).
Proof.
  intros (_ & _ & _ & _ & _ & Ha & _ & _ & _ & Hml & _) nb ts ms r Hok H.
  rewrite members_loop_S in H. destruct (isBraceRight (hdk ts)); [injection H as <- <-; auto|].
  destruct (expect_id ts) as [[n ts1]|] eqn:Eid; [|discriminate H].
  pose proof (expect_id_OK _ _ _ Eid Hok) as Hok1. cbv zeta in H.
  destruct (isColon (hdk ts1)) eqn:Ec.
  - crack H; subst; injection H as <- <-.
    + apply Ha in E as (Hok2 & Hwf2 & _); [|exact (OK_tl _ Hok1)].
      apply Hml in E2 as (Hok3 & Hwf3); [|exact (OK_tl _ Hok2)].
      split; [exact Hok3|]. cbn [forallb]. now rewrite Hwf2, Hwf3.
    + apply Ha in E as (Hok2 & Hwf2 & _); [|exact (OK_tl _ Hok1)].
      split; [exact Hok2|]. cbn [forallb]. now rewrite Hwf2.
  - crack H; subst; injection H as <- <-.
    + apply Hml in E0 as (Hok3 & Hwf3); [|exact (OK_tl _ Hok1)].
      split; [exact Hok3|]. cbn [forallb]. now rewrite Hwf3.
    + split; [exact Hok1|]. reflexivity.
Qed.

Lemma step_reference f : SpecE f -> Sreference (S f).
Proof.
  intros (_ & _ & _ & _ & _ & _ & _ & _ & _ & _ & _ & Hst) nb ts ref r Hok H.
  rewrite parse_reference_S in H. destruct (count_amps ts) as [d ts1] eqn:Ec.
  pose proof (count_amps_ok _ _ _ Hok Ec) as Hok1.
  destruct (MAX_ADDRESS_DEPTH <? d)%N eqn:Ed; [discriminate H|].
  destruct (expect_id ts1) as [[b ts2]|] eqn:Eid; [|discriminate H].
  pose proof (expect_id_OK _ _ _ Eid Hok1) as Hok2.
  crack H. subst. injection H as <- <-.
  apply Hst in E as (Hok3 & Hwf3 & Hlen); [|exact Hok2|lia].
  split; [exact Hok3|]. cbn [wf_ref]. rewrite Hwf3. apply N.ltb_ge in Ed.
  replace (d <=? MAX_ADDRESS_DEPTH)%N with true by (symmetry; now apply N.leb_le).
  replace (length l <=? MAX_REFERENCE_DEPTH) with true; [reflexivity|].
  symmetry. apply Nat.leb_le. unfold MAX_REFERENCE_DEPTH. lia.
Qed.

Lemma step_steps f : SpecE f -> Ssteps (S f).
Proof.
  intros (_ & _ & _ & _ & _ & Ha & _ & _ & _ & _ & _ & Hst) nb k ts steps r Hok Hk H.
  rewrite steps_loop_S in H. destruct (isBracketLeft (hdk ts)) eqn:Eb.
  - crack H. subst. injection H as <- <-.
    apply Ha in E as (Hok1 & Hwf1 & _); [|exact (OK_tl _ Hok)]. okchain.
    apply Nat.ltb_ge in E2. unfold MAX_REFERENCE_DEPTH in E2.
    apply Hst in E3 as (Hok3 & Hwf3 & Hlen); [|assumption|exact E2].
    split; [exact Hok3|]. cbn [forallb wf_step length]. rewrite Hwf1, Hwf3. split; [reflexivity|lia].
  - destruct (isDot (hdk ts)) eqn:Ed.
    + destruct (expect_id (tl ts)) as [[m ts1]|] eqn:Eid; [|discriminate H].
      pose proof (expect_id_OK _ _ _ Eid (OK_tl _ Hok)) as Hok1.
      crack H. subst. injection H as <- <-.
      apply Nat.ltb_ge in E. unfold MAX_REFERENCE_DEPTH in E.
      apply Hst in E0 as (Hok3 & Hwf3 & Hlen); [|assumption|exact E].
      split; [exact Hok3|]. cbn [forallb wf_step length]. rewrite Hwf3. split; [reflexivity|lia].
    + injection H as <- <-. split; [exact Hok|]. split; [reflexivity|]. cbn [length]. lia.
Qed.

Theorem specE_all : forall f, SpecE f.
Proof.
  induction f as [|f IH].
  - repeat split; intros *; try discriminate;
      repeat (let H := fresh in intros H; try discriminate H).
  - split; [now apply step_primary|]. split; [now apply step_unary|].
    split; [now apply step_singular|]. split; [now apply step_mult|].
    split; [now apply step_mul_loop|]. split; [now apply step_addition|].
    split; [now apply step_add_loop|]. split; [now apply step_bit_loop|].
    split; [now apply step_expr_list|]. split; [now apply step_members|].
    split; [now apply step_reference|]. now apply step_steps.
Qed.

(* Consequences for the non-recursive entry points. *)
Lemma parse_addition_wf f nb ts e r :
  OK ts -> parse_addition f nb ts = Some (e, r) -> FRes nb e r.
Proof. intros Hok H. destruct (specE_all f) as (_ & _ & _ & _ & _ & Ha & _). eapply Ha; eauto. Qed.

Lemma expr_list_wf f nb br ts es r :
  OK ts -> expr_list f nb br ts = Some (es, r) -> OK r /\ forallb (wf_expr nb) es = true.
Proof.
  intros Hok H. destruct (specE_all f) as (_ & _ & _ & _ & _ & _ & _ & _ & Hel & _). eapply Hel; eauto.
Qed.

Lemma parse_reference_wf f nb ts ref r :
  OK ts -> parse_reference f nb ts = Some (ref, r) -> OK r /\ wf_ref nb ref = true.
Proof.
  intros Hok H. destruct (specE_all f) as (_ & _ & _ & _ & _ & _ & _ & _ & _ & _ & Hr & _).
  eapply Hr; eauto.
Qed.

Lemma steps_loop_wf f nb ts steps r :
  OK ts -> steps_loop f nb 0 ts = Some (steps, r) ->
  OK r /\ forallb (wf_step nb) steps = true /\ length steps <= 127.
Proof.
  intros Hok H. destruct (specE_all f) as (_ & _ & _ & _ & _ & _ & _ & _ & _ & _ & _ & Hst).
  eapply Hst in H; [|exact Hok|lia]. destruct H as (H1 & H2 & H3). auto.
Qed.

Lemma parse_arguments_wf f ts args r :
  OK ts -> parse_arguments f ts = Some (args, r) -> OK r /\ forallb (wf_expr false) args = true.
Proof.
  unfold parse_arguments. intros Hok H. crack H. subst. injection H as <- <-. okchain.
  match goal with H' : expr_list f _ _ _ = Some _ |- _ =>
    apply expr_list_wf in H' as [Hok1 Hwf1]; [|assumption] end.
  okchain. auto.
Qed.

Lemma parse_assign_tail_wf f ts e r :
  OK ts -> parse_assign_tail f ts = Some (e, r) -> OK r /\ wf_expr false e = true.
Proof.
  unfold parse_assign_tail. intros Hok H. crack H. subst. injection H as <- <-. okchain.
  match goal with H' : parse_addition f _ _ = Some _ |- _ =>
    apply parse_addition_wf in H' as (Hok1 & Hwf1 & _); [|assumption] end.
  okchain. auto.
Qed.

Lemma parse_comparison_wf f ts op l r0 r :
  OK ts -> parse_comparison f ts = Some ((op, l, r0), r) ->
  OK r /\ wf_expr true l = true /\ wf_expr true r0 = true /\
  (pstop true (hdk r) = true -> estop true r0 (hdk r) = true).
Proof.
  unfold parse_comparison. intros Hok H. crack H. subst. injection H as <- <- <- <-.
  apply parse_addition_wf in E as (Hok1 & Hwf1 & _); [|exact Hok].
  apply parse_addition_wf in E2 as (Hok2 & Hwf2 & He2); [|exact (OK_tl _ Hok1)]. auto.
Qed.

Lemma parse_addressed_reference_wf f nb ts d b steps r :
  OK ts -> parse_addressed_reference f nb ts = Some (Ref d b steps, r) ->
  OK r /\ wf_ref nb (Ref d b steps) = true /\ (d =? 0)%N = false.
Proof.
  unfold parse_addressed_reference. intros Hok H.
  destruct (parse_reference f nb ts) as [[[d0 b0 steps0] ts1]|] eqn:E; [|discriminate H].
  apply parse_reference_wf in E as [Hok1 Hwf1]; [|exact Hok].
  destruct (MAX_ADDRESS_DEPTH <? d0 + 1)%N eqn:Ed; [discriminate H|]. injection H as <- <- <- <-.
  split; [exact Hok1|]. apply N.ltb_ge in Ed. split.
  - cbn [wf_ref] in *. apply andb_prop in Hwf1 as [Hwf1 Hss]. apply andb_prop in Hwf1 as [_ Hlen].
    rewrite Hss, Hlen. replace (d0 + 1 <=? MAX_ADDRESS_DEPTH)%N with true; [reflexivity|].
    symmetry. now apply N.leb_le.
  - apply N.eqb_neq. lia.
Qed.

(* ------------------------------------------------------------------------- *)
(* Statements                                                                 *)
(* ------------------------------------------------------------------------- *)

Definition SRes (ts : list tok) (s : stmt) (r : list tok) : Prop :=
  OK r /\ wf_stmt s = true /\ hdk ts = first_kind_stmt s /\
  (open_if s = true -> isElse (hdk r) = false).

Definition Sstmt f := forall ts s r, OK ts -> parse_statement f ts = Some (s, r) -> SRes ts s r.
Definition Sblock f := forall ts ss r, OK ts -> block_loop f ts = Some (ss, r) ->
  OK r /\ forallb wf_stmt ss = true.

Lemma pstop_first_kind s : pstop true (first_kind_stmt s) = true.
Proof.
  destruct s; cbn [first_kind_stmt]; try reflexivity.
  - destruct r as [d b steps]. destruct (d =? 0)%N; reflexivity.
  - destruct builtin; reflexivity.
Qed.

Ltac sres_split := split; [|split; [|split]].

Lemma step_stmt f : Sstmt f /\ Sblock f -> Sstmt (S f).
Proof.
  intros [Hs Hb] ts s r Hok H. rewrite parse_statement_S in H.
  destruct ts as [|t ts1]; [discriminate H|]. apply OK_cons in Hok as [Ht Hok].
  destruct (kind t) eqn:Ek; try discriminate H.
  - (* { *)
    crack H. subst. injection H as <- <-. apply Hb in E as [Hok1 Hwf1]; [|exact Hok].
    sres_split; auto. intros Ho. discriminate Ho.
  - (* & *)
    destruct (parse_addressed_reference f false ts1) as [[[d b steps] ts2]|] eqn:E; [|discriminate H].
    apply parse_addressed_reference_wf in E as (Hok2 & Hwf2 & Hd); [|exact Hok].
    crack H. subst. injection H as <- <-.
    apply parse_assign_tail_wf in E as [Hok3 Hwf3]; [|exact Hok2].
    sres_split; auto.
    + cbn [wf_stmt]. now rewrite Hwf2, Hwf3.
    + cbn [hdk first_kind_stmt]. now rewrite Hd.
    + intros Ho. discriminate Ho.
  - (* var *)
    destruct (expect_id ts1) as [[n ts2]|] eqn:Eid; [|discriminate H].
    pose proof (expect_id_OK _ _ _ Eid Hok) as Hok2. cbv zeta in H.
    assert (Hty : forall ot ts3,
      (if isColon (hdk ts2)
       then match parse_wellformed_type f (tl ts2) with
            | Some (t0, ts3) => Some (Some t0, ts3) | None => None end
       else Some (None, ts2)) = Some (ot, ts3) -> OK ts3 /\ opt_ok ty_ok ot = true).
    { intros ot ts3 Hx. destruct (isColon (hdk ts2)).
      - crack Hx. subst. injection Hx as <- <-.
        apply parse_wellformed_type_ok in E as [H1 H2]. split; [apply H2; exact (OK_tl _ Hok2)|exact H1].
      - injection Hx as <- <-. auto. }
    match type of H with match ?x with _ => _ end = _ => destruct x as [[ot ts3]|] eqn:Eot end;
      [|discriminate H].
    destruct (Hty _ _ eq_refl) as [Hok3 Hot]. clear Hty Eot.
    assert (Hval : forall ov ts4,
      (if isAssignment (hdk ts3)
       then match parse_addition f false (tl ts3) with
            | Some (e, ts4) => Some (Some e, ts4) | None => None end
       else Some (None, ts3)) = Some (ov, ts4) -> OK ts4 /\ opt_ok (wf_expr false) ov = true).
    { intros ov ts4 Hx. destruct (isAssignment (hdk ts3)).
      - crack Hx. subst. injection Hx as <- <-.
        apply parse_addition_wf in E as (H1 & H2 & _); [|exact (OK_tl _ Hok3)]. auto.
      - injection Hx as <- <-. auto. }
    match type of H with match ?x with _ => _ end = _ => destruct x as [[ov ts4]|] eqn:Eov end;
      [|discriminate H].
    destruct (Hval _ _ eq_refl) as [Hok4 Hov]. clear Hval Eov.
    crack H. injection H as <- <-. okchain.
    sres_split; auto.
    + cbn [wf_stmt]. now rewrite Hot, Hov.
    + intros Ho. discriminate Ho.
  - (* if *)
    destruct (parse_comparison f ts1) as [[[[op l] r0] ts2]|] eqn:Ec; [|discriminate H].
    apply parse_comparison_wf in Ec as (Hok2 & Hwl & Hwr & Her); [|exact Hok].
    destruct (parse_statement f ts2) as [[th ts3]|] eqn:Eth; [|discriminate H].
    apply Hs in Eth as (Hok3 & Hwth & Hfk & Hopen); [|exact Hok2].
    assert (Hes : estop true r0 (first_kind_stmt th) = true).
    { rewrite <- Hfk. apply Her. rewrite Hfk. apply pstop_first_kind. }
    destruct (isElse (hdk ts3)) eqn:Eelse.
    + destruct (parse_statement f (tl ts3)) as [[el ts4]|] eqn:Eel; [|discriminate H].
      apply Hs in Eel as (Hok4 & Hwel & _ & Hopen2); [|exact (OK_tl _ Hok3)].
      injection H as <- <-. sres_split; [exact Hok4| |exact Ek|exact Hopen2].
      cbn [wf_stmt]. rewrite Hwl, Hwr, Hwth, Hes, Hwel.
      destruct (open_if th); [|reflexivity]. discriminate (Hopen eq_refl).
    + injection H as <- <-. sres_split; [exact Hok3| |exact Ek|intros _; exact Eelse].
      cbn [wf_stmt]. now rewrite Hwl, Hwr, Hwth, Hes.
  - (* goto *)
    crack H. subst. injection H as <- <-. okchain. sres_split; auto. intros Ho. discriminate Ho.
  - (* loop *)
    crack H. subst. injection H as <- <-. okchain. sres_split; auto. intros Ho. discriminate Ho.
  - (* identifier *)
    destruct (isColon (hdk ts1)) eqn:Ecol.
    + injection H as <- <-. sres_split; auto; [exact (OK_tl _ Hok)|]. intros Ho. discriminate Ho.
    + destruct (isParenLeft (hdk ts1)) eqn:Epar.
      * crack H. subst. injection H as <- <-.
        apply parse_arguments_wf in E as [Hok2 Hwf2]; [|exact Hok]. okchain.
        sres_split; auto. intros Ho. discriminate Ho.
      * crack H. subst. injection H as <- <-.
        apply steps_loop_wf in E as (Hok2 & Hwf2 & Hlen); [|exact Hok].
        apply parse_assign_tail_wf in E1 as [Hok3 Hwf3]; [|exact Hok2].
        sres_split; auto; [|intros Ho; discriminate Ho].
        cbn [wf_stmt wf_ref]. rewrite Hwf2, Hwf3.
        replace (length l <=? MAX_REFERENCE_DEPTH) with true; [reflexivity|].
        symmetry. apply Nat.leb_le. unfold MAX_REFERENCE_DEPTH. lia.
  - (* builtin *)
    crack H. subst. injection H as <- <-.
    apply parse_arguments_wf in E as [Hok2 Hwf2]; [|exact Hok]. okchain.
    sres_split; auto. intros Ho. discriminate Ho.
Qed.

Lemma step_block f : Sstmt f /\ Sblock f -> Sblock (S f).
Proof.
  intros [Hs Hb] ts ss r Hok H. rewrite block_loop_S in H.
  destruct (isBraceRight (hdk ts)); [injection H as <- <-; split; [exact (OK_tl _ Hok)|reflexivity]|].
  crack H. subst. injection H as <- <-.
  apply Hs in E as (Hok1 & Hwf1 & _); [|exact Hok].
  apply Hb in E1 as (Hok2 & Hwf2); [|exact Hok1].
  split; [exact Hok2|]. cbn [forallb]. now rewrite Hwf1, Hwf2.
Qed.

Theorem specS_all : forall f, Sstmt f /\ Sblock f.
Proof.
  induction f as [|f IH].
  - split; intros ts x r _ H; discriminate H.
  - split; [now apply step_stmt|now apply step_block].
Qed.

Lemma parse_statement_wf f ts s r : OK ts -> parse_statement f ts = Some (s, r) -> SRes ts s r.
Proof. intros Hok H. destruct (specS_all f) as [Hs _]. now apply Hs. Qed.

(* ------------------------------------------------------------------------- *)
(* Bodies, declarations, modules                                              *)
(* ------------------------------------------------------------------------- *)

Lemma body_loop_wf f : forall ts b r,
  OK ts -> body_loop f ts = Some (b, r) -> OK r /\ wf_body b = true.
Proof.
  induction f as [|f IH]; intros ts b r Hok H; [discriminate H|].
  rewrite body_loop_S in H.
  destruct (isBraceRight (hdk ts)); [injection H as <- <-; split; [exact (OK_tl _ Hok)|reflexivity]|].
  destruct (parse_statement f ts) as [[s ts1]|] eqn:Es; [|discriminate H].
  apply parse_statement_wf in Es as (Hok1 & Hwf1 & _); [|exact Hok].
  destruct (is_return_label s) eqn:Eret.
  - crack H. subst. injection H as <- <-.
    apply parse_addition_wf in E0 as (Hok2 & Hwf2 & _); [|exact Hok1]. okchain.
    split; [assumption|]. unfold wf_body. cbn [forallb opt_ok body_shape]. now rewrite Hwf1, Hwf2, Eret.
  - destruct (body_loop f ts1) as [[[ss rv] ts2]|] eqn:Eb; [|discriminate H].
    injection H as <- <-. apply IH in Eb as [Hok2 Hwf2]; [|exact Hok1].
    split; [exact Hok2|]. unfold wf_body in *. cbn [forallb body_shape]. rewrite Hwf1, Eret.
    exact Hwf2.
Qed.

Lemma parse_typed_name_wf f ts m r :
  OK ts -> parse_typed_name f ts = Some (m, r) -> OK r /\ wf_typed_name m = true.
Proof.
  unfold parse_typed_name. intros Hok H. crack H. subst. injection H as <- <-. okchain.
  match goal with H' : parse_wellformed_type f _ = Some _ |- _ =>
    apply parse_wellformed_type_ok in H' as [H1 H2] end.
  split; [now apply H2|exact H1].
Qed.

Lemma typed_names_wf f : forall br ts ms r,
  OK ts -> typed_names f br ts = Some (ms, r) -> OK r /\ forallb wf_typed_name ms = true.
Proof.
  induction f as [|f IH]; intros br ts ms r Hok H; [discriminate H|].
  rewrite typed_names_S in H. destruct (is_close_tn br (hdk ts)); [injection H as <- <-; auto|].
  destruct (parse_typed_name f ts) as [[m ts1]|] eqn:Em; [|discriminate H].
  apply parse_typed_name_wf in Em as [Hok1 Hwf1]; [|exact Hok].
  destruct (isComma (hdk ts1)).
  - destruct (typed_names f br (tl ts1)) as [[ms' ts2]|] eqn:E; [|discriminate H].
    injection H as <- <-. apply IH in E as [Hok2 Hwf2]; [|exact (OK_tl _ Hok1)].
    split; [exact Hok2|]. cbn [forallb]. now rewrite Hwf1, Hwf2.
  - injection H as <- <-. split; [exact Hok1|]. cbn [forallb]. now rewrite Hwf1.
Qed.

Lemma parse_struct_members_wf f ts ms r :
  OK ts -> parse_struct_members f ts = Some (ms, r) -> OK r /\ forallb wf_typed_name ms = true.
Proof.
  unfold parse_struct_members. intros Hok H. crack H. subst. injection H as <- <-. okchain.
  match goal with H' : typed_names f _ _ = Some _ |- _ =>
    apply typed_names_wf in H' as [H1 H2]; [|assumption] end.
  okchain. auto.
Qed.

Lemma parse_declaration_rest_wf f pub ext ts d r :
  OK ts -> parse_declaration_rest f pub ext ts = Some (d, r) -> OK r /\ wf_decl d = true.
Proof.
  unfold parse_declaration_rest. intros Hok H.
  destruct ts as [|t ts2]; [discriminate H|]. apply OK_cons in Hok as [Ht Hok].
  destruct (kind t) eqn:Ek; try discriminate H.
  - (* fn *)
    destruct (expect_id ts2) as [[n ts3]|] eqn:Eid; [|discriminate H].
    pose proof (expect_id_OK _ _ _ Eid Hok) as Hok3.
    destruct (expect isParenLeft ts3) as [ts4|] eqn:E4; [|discriminate H].
    pose proof (expect_OK _ _ _ E4 Hok3) as Hok4.
    destruct (typed_names f false ts4) as [[ps ts5]|] eqn:E5; [|discriminate H].
    apply typed_names_wf in E5 as [Hok5 Hps]; [|exact Hok4].
    destruct (expect isParenRight ts5) as [ts6|] eqn:E6; [|discriminate H].
    pose proof (expect_OK _ _ _ E6 Hok5) as Hok6. cbv zeta in H.
    assert (Hret : forall ret ts7,
      (if isArrow (hdk ts6) then parse_wellformed_type f (tl ts6) else Some (TVoid, ts6))
      = Some (ret, ts7) -> OK ts7 /\ ty_ok ret = true).
    { intros ret ts7 Hx. destruct (isArrow (hdk ts6)).
      - apply parse_wellformed_type_ok in Hx as [H1 H2]. split; [apply H2; exact (OK_tl _ Hok6)|exact H1].
      - injection Hx as <- <-. auto. }
    match type of H with match ?x with _ => _ end = _ => destruct x as [[ret ts7]|] eqn:Eret end;
      [|discriminate H].
    destruct (Hret _ _ eq_refl) as [Hok7 Hwret]. clear Hret Eret.
    destruct (isSemicolon (hdk ts7)).
    + injection H as <- <-. split; [exact (OK_tl _ Hok7)|]. cbn [wf_decl opt_ok]. now rewrite Hps, Hwret.
    + crack H. subst. injection H as <- <-. okchain.
      match goal with H' : body_loop f _ = Some _ |- _ =>
        apply body_loop_wf in H' as [H1 H2]; [|assumption] end.
      split; [exact H1|]. cbn [wf_decl opt_ok]. now rewrite Hps, Hwret, H2.
  - (* const *)
    destruct (parse_typed_name f ts2) as [[[n ty0] ts3]|] eqn:E; [|discriminate H].
    apply parse_typed_name_wf in E as [Hok3 Hwf3]; [|exact Hok].
    crack H. subst. injection H as <- <-.
    apply parse_assign_tail_wf in E as [Hok4 Hwf4]; [|exact Hok3].
    split; [exact Hok4|]. cbn [wf_decl]. unfold wf_typed_name in Hwf3. cbn [snd] in Hwf3.
    now rewrite Hwf3, Hwf4.
  - (* import *)
    destruct ts2 as [|s0 ts3]; [discriminate H|]. apply OK_cons in Hok as [Hs0 Hok].
    destruct (isString (kind s0) && utf8_valid (bytes s0)) eqn:Es; [|discriminate H].
    crack H. injection H as <- <-. okchain. split; [assumption|].
    cbn [wf_decl]. now apply andb_prop in Es as [_ Es].
  - (* struct *)
    destruct (expect_id ts2) as [[n ts3]|] eqn:Eid; [|discriminate H].
    pose proof (expect_id_OK _ _ _ Eid Hok) as Hok3.
    destruct (isSemicolon (hdk ts3)).
    + injection H as <- <-. split; [exact (OK_tl _ Hok3)|reflexivity].
    + crack H. subst. injection H as <- <-.
      apply parse_struct_members_wf in E as [H1 H2]; [|exact Hok3].
      split; [exact H1|]. cbn [wf_decl]. now rewrite H2.
  - cbn [word_kind] in H.
    destruct (expect_id ts2) as [[n ts3]|] eqn:Eid; [|discriminate H].
    pose proof (expect_id_OK _ _ _ Eid Hok) as Hok3.
    crack H. subst. injection H as <- <-.
    apply parse_struct_members_wf in E as [H1 H2]; [|exact Hok3].
    split; [exact H1|]. cbn [wf_decl]. now rewrite H2.
  - cbn [word_kind] in H.
    destruct (expect_id ts2) as [[n ts3]|] eqn:Eid; [|discriminate H].
    pose proof (expect_id_OK _ _ _ Eid Hok) as Hok3.
    crack H. subst. injection H as <- <-.
    apply parse_struct_members_wf in E as [H1 H2]; [|exact Hok3].
    split; [exact H1|]. cbn [wf_decl]. now rewrite H2.
  - cbn [word_kind] in H.
    destruct (expect_id ts2) as [[n ts3]|] eqn:Eid; [|discriminate H].
    pose proof (expect_id_OK _ _ _ Eid Hok) as Hok3.
    crack H. subst. injection H as <- <-.
    apply parse_struct_members_wf in E as [H1 H2]; [|exact Hok3].
    split; [exact H1|]. cbn [wf_decl]. now rewrite H2.
  - cbn [word_kind] in H.
    destruct (expect_id ts2) as [[n ts3]|] eqn:Eid; [|discriminate H].
    pose proof (expect_id_OK _ _ _ Eid Hok) as Hok3.
    crack H. subst. injection H as <- <-.
    apply parse_struct_members_wf in E as [H1 H2]; [|exact Hok3].
    split; [exact H1|]. cbn [wf_decl]. now rewrite H2.
  - cbn [word_kind] in H.
    destruct (expect_id ts2) as [[n ts3]|] eqn:Eid; [|discriminate H].
    pose proof (expect_id_OK _ _ _ Eid Hok) as Hok3.
    crack H. subst. injection H as <- <-.
    apply parse_struct_members_wf in E as [H1 H2]; [|exact Hok3].
    split; [exact H1|]. cbn [wf_decl]. now rewrite H2.
Qed.

Lemma parse_declaration_wf f ts d r :
  OK ts -> parse_declaration f ts = Some (d, r) -> OK r /\ wf_decl d = true.
Proof.
  unfold parse_declaration. intros Hok H. cbv zeta in H.
  eapply parse_declaration_rest_wf; [|exact H].
  destruct (isPub (hdk ts)); [destruct (isExtern (hdk (tl ts)))|destruct (isExtern (hdk ts))];
    repeat apply OK_tl; exact Hok.
Qed.

Lemma decls_loop_wf f : forall inner ts ds,
  OK ts -> decls_loop f inner ts = Some ds -> wf_module ds = true.
Proof.
  induction f as [|f IH]; intros inner ts ds Hok H; [discriminate H|].
  rewrite decls_loop_S in H. destruct ts as [|t ts']; [injection H as <-; reflexivity|].
  destruct (parse_declaration inner (t :: ts')) as [[d ts1]|] eqn:Ed; [|discriminate H].
  apply parse_declaration_wf in Ed as [Hok1 Hwf1]; [|exact Hok].
  destruct (decls_loop f inner ts1) as [ds'|] eqn:E; [|discriminate H]. injection H as <-.
  unfold wf_module in *. cbn [forallb]. rewrite Hwf1. exact (IH _ _ _ Hok1 E).
Qed.

(* THE RANGE OF THE PARSER: whatever the reference parser returns (on tokens whose
   payloads are in range, as the lexers produce them) is well-formed ... *)
Theorem parse_wf fuel ts ds :
  toks_ok ts = true -> parse_module fuel ts = Some ds -> wf_module ds = true.
Proof. intros Hok H. unfold parse_module in H. eapply decls_loop_wf; eauto. Qed.

Theorem parse_expr_wf fuel ts e r :
  toks_ok ts = true -> parse_expr fuel ts = Some (e, r) -> wf_expr false e = true.
Proof. intros Hok H. now apply parse_addition_wf in H as (_ & H & _). Qed.

Theorem parse_statement_range fuel ts s r :
  toks_ok ts = true -> parse_statement fuel ts = Some (s, r) -> wf_stmt s = true.
Proof. intros Hok H. now apply parse_statement_wf in H as (_ & H & _). Qed.

(* ... hence the rebuilt token sequence parses back to the same tree. *)
Theorem parse_print_parse fuel ts ds :
  toks_ok ts = true -> parse_module fuel ts = Some ds ->
  exists n, forall fuel', n <= fuel' -> parse_module fuel' (print_module ds) = Some ds.
Proof. intros Hok H. apply parse_print_module. eapply parse_wf; eauto. Qed.

Print Assumptions parse_wf.
Print Assumptions parse_print_parse.
