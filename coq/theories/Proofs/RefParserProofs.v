(* Proofs about Model/RefParser.v: the reference parser inverts the printer on the
   range of the parser (the wf_ predicates), which pins precedence, associativity and nesting. *)
From PV Require Import Base.Common Base.IR Base.Tok Model.RefParser.

(* ------------------------------------------------------------------------- *)
(* "For sufficient fuel"                                                      *)
(* ------------------------------------------------------------------------- *)

Definition conv {A : Type} (p : nat -> option A) (x : A) : Prop :=
  exists n, forall f, n <= f -> p f = Some x.

Lemma conv_ret {A : Type} (x : A) : conv (fun _ => Some x) x.
Proof. exists 0. reflexivity. Qed.

Lemma conv_step {A : Type} (p q : nat -> option A) (x : A) :
  (forall f, p (S f) = q f) -> conv q x -> conv p x.
Proof.
  intros Hpq [n Hn]. exists (S n). intros f Hf.
  destruct f as [|f]; [lia|]. rewrite Hpq. apply Hn. lia.
Qed.

Lemma conv_bind {A B : Type} (p : nat -> option A) (k : nat -> A -> option B) (a : A) (x : B) :
  conv p a -> conv (fun f => k f a) x ->
  conv (fun f => match p f with Some a' => k f a' | None => None end) x.
Proof.
  intros [n Hn] [m Hm]. exists (Nat.max n m). intros f Hf.
  rewrite Hn by lia. apply Hm. lia.
Qed.

Lemma conv_ext {A : Type} (p q : nat -> option A) (x : A) :
  (forall f, p f = q f) -> conv q x -> conv p x.
Proof. intros H [n Hn]. exists n. intros f Hf. rewrite H. now apply Hn. Qed.

Lemma conv_inj {A : Type} (p : nat -> option A) (x y : A) : conv p x -> conv p y -> x = y.
Proof.
  intros [n Hn] [m Hm]. specialize (Hn (Nat.max n m) ltac:(lia)).
  specialize (Hm (Nat.max n m) ltac:(lia)). congruence.
Qed.

(* ------------------------------------------------------------------------- *)
(* Unfolding lemmas                                                           *)
(* ------------------------------------------------------------------------- *)

Lemma parse_inner_type_S f ts : parse_inner_type (S f) ts =
    match ts with
    | [] => None
    | t :: ts1 =>
      match kind t with
      | KType =>
          match vtype t with
          | Some TyVoid => Some (TVoid, ts1)
          | Some (TyPrim p) => Some (TPrim p, ts1)
          | None => None
          end
      | KIdentifier => Some (TNamed (tok_name t), ts1)
      | KAmpersand =>
          match parse_inner_type f ts1 with
          | Some (d, ts2) => Some (TPointer d, ts2)
          | None => None
          end
      | KParenLeft =>
          match parse_inner_type f ts1 with
          | Some (d, ts2) =>
              match expect isParenRight ts2 with
              | Some ts3 => Some (TView d, ts3)
              | None => None
              end
          | None => None
          end
      | KBracketLeft =>
          match ts1 with
          | [] => None
          | t1 :: ts2 =>
            match kind t1 with
            | KColon =>
                match expect isBracketRight ts2 with
                | Some ts3 =>
                    match parse_inner_type f ts3 with
                    | Some (e, ts4) => Some (TSlice e, ts4)
                    | None => None
                    end
                | None => None
                end
            | KDots =>
                match expect isBracketRight ts2 with
                | Some ts3 =>
                    match parse_inner_type f ts3 with
                    | Some (e, ts4) => Some (TEndless e, ts4)
                    | None => None
                    end
                | None => None
                end
            | KBracketRight =>
                match parse_inner_type f ts2 with
                | Some (e, ts3) => Some (TArraylike e, ts3)
                | None => None
                end
            | KNakedDecimal =>
                match expect isBracketRight ts2 with
                | Some ts3 =>
                    match parse_inner_type f ts3 with
                    | Some (e, ts4) => Some (TArray (Z.modulo (value t1) usize_lim) e, ts4)
                    | None => None
                    end
                | None => None
                end
            | KIdentifier =>
                match expect isBracketRight ts2 with
                | Some ts3 =>
                    match parse_inner_type f ts3 with
                    | Some (e, ts4) => Some (TArrayNamed (tok_name t1) e, ts4)
                    | None => None
                    end
                | None => None
                end
            | _ => None
            end
          end
      | _ => None
      end
    end.
Proof. reflexivity. Qed.

Lemma as_loop_S (f : nat) (acc : expr) (ts : list tok) :
  as_loop (S f) acc ts =
    if isAs (hdk ts) then
      match parse_wellformed_type f (tl ts) with
      | Some (t, ts1) => as_loop f (ETypeCast acc t) ts1
      | None => None
      end
    else Some (acc, ts).
Proof. reflexivity. Qed.

Lemma parse_addition_S (f : nat) (nb : bool) (ts : list tok) :
  parse_addition (S f) nb ts =
    match parse_multiplication f nb ts with
    | Some (e, ts1) => add_loop f nb e ts1
    | None => None
    end.
Proof. reflexivity. Qed.

Lemma add_loop_S (f : nat) (nb : bool) (acc : expr) (ts : list tok) :
  add_loop (S f) nb acc ts =
    match bitop_of (hdk ts) with
    | Some op =>
        (* parse_rest_of_bitwise_expression *)
        if is_binary acc then None else bit_loop f nb op acc (tl ts)
    | None =>
      match shiftop_of (hdk ts) with
      | Some op =>
          (* parse_rest_of_bitshift_operation *)
          if is_binary acc then None
          else match parse_unary f nb (tl ts) with
               | Some (r, ts1) => Some (EBinary op acc r, ts1)
               | None => None
               end
      | None =>
        match addop_of (hdk ts) with
        | Some op =>
            match parse_multiplication f nb (tl ts) with
            | Some (r, ts1) => add_loop f nb (EBinary op acc r) ts1
            | None => None
            end
        | None => Some (acc, ts)
        end
      end
    end.
Proof. reflexivity. Qed.

Lemma bit_loop_S (f : nat) (nb : bool) (op : binop) (acc : expr) (ts : list tok) :
  bit_loop (S f) nb op acc ts =
    match parse_unary f nb ts with
    | Some (r, ts1) =>
        if same_bitop op (hdk ts1) then bit_loop f nb op (EBinary op acc r) (tl ts1)
        else Some (EBinary op acc r, ts1)
    | None => None
    end.
Proof. reflexivity. Qed.

Lemma parse_multiplication_S (f : nat) (nb : bool) (ts : list tok) :
  parse_multiplication (S f) nb ts =
    match parse_singular f nb ts with
    | Some (e, ts1) => mul_loop f nb e ts1
    | None => None
    end.
Proof. reflexivity. Qed.

Lemma mul_loop_S (f : nat) (nb : bool) (acc : expr) (ts : list tok) :
  mul_loop (S f) nb acc ts =
    match mulop_of (hdk ts) with
    | Some op =>
        match parse_singular f nb (tl ts) with
        | Some (r, ts1) => mul_loop f nb (EBinary op acc r) ts1
        | None => None
        end
    | None => Some (acc, ts)
    end.
Proof. reflexivity. Qed.

Lemma parse_singular_S (f : nat) (nb : bool) (ts : list tok) :
  parse_singular (S f) nb ts =
    if isCast (hdk ts) then
      match parse_unary f nb (tl ts) with
      | Some (e, ts1) => as_loop f (EBitCast e) ts1
      | None => None
      end
    else
      match parse_unary f nb ts with
      | Some (e, ts1) => as_loop f e ts1
      | None => None
      end.
Proof. reflexivity. Qed.

Lemma parse_unary_S (f : nat) (nb : bool) (ts : list tok) :
  parse_unary (S f) nb ts =
    match hdk ts with
    | KPipeForType =>
        match parse_wellformed_type f (tl ts) with
        | Some (t, ts1) =>
            match expect isPipe ts1 with
            | Some ts2 => Some (ESizeOf t, ts2)
            | None => None
            end
        | None => None
        end
    | KPipe =>
        match parse_reference f nb (tl ts) with
        | Some (r, ts1) =>
            match expect isPipe ts1 with
            | Some ts2 => Some (ELength r, ts2)
            | None => None
            end
        | None => None
        end
    | KExclamation =>
        match parse_primary f nb (tl ts) with
        | Some (e, ts1) => Some (EUnary BitwiseComplement e, ts1)
        | None => None
        end
    | KMinus =>
        match parse_primary f nb (tl ts) with
        | Some (ESigned v t, ts1) =>
            if (0 <? v)%Z then Some (ESigned (- v) t, ts1)
            else Some (EUnary Negative (ESigned v t), ts1)
        | Some (EBits v t, ts1) =>
            (* commit 4639ff7: the magnitude of i128::MIN only fits a bit literal,
               whatever its spelling or suffix *)
            if (v =? i128_min_abs)%Z then Some (ESigned (- i128_min_abs) t, ts1)
            else Some (EUnary Negative (EBits v t), ts1)
        | Some (e, ts1) => Some (EUnary Negative e, ts1)
        | None => None
        end
    | _ => parse_primary f nb ts
    end.
Proof. reflexivity. Qed.

Lemma parse_primary_S (f : nat) (nb : bool) (ts : list tok) :
  parse_primary (S f) nb ts =
    match ts with
    | [] => None
    | t :: ts1 =>
      match kind t with
      | KNakedDecimal | KBitInteger | KSuffixedInteger | KCharLiteral | KBool =>
          match literal_of t with
          | Some e => Some (e, ts1)
          | None => None
          end
      | KStringLiteral =>
          let '(bs, ts2) := take_strings ts1 in Some (EString (bytes t ++ bs), ts2)
      | KIdentifier =>
          if isParenLeft (hdk ts1) then
            match expr_list f nb false (tl ts1) with
            | Some (args, ts2) =>
                match expect isParenRight ts2 with
                | Some ts3 => Some (ECall false (tok_name t) args, ts3)
                | None => None
                end
            | None => None
            end
          else if isBraceLeft (hdk ts1) && negb nb then
            match members_loop f nb (tl ts1) with
            | Some (ms, ts2) =>
                match expect isBraceRight ts2 with
                | Some ts3 => Some (EStructural (tok_name t) ms, ts3)
                | None => None
                end
            | None => None
            end
          else
            match steps_loop f nb O ts1 with
            | Some (steps, ts2) => Some (EDeref (Ref 0%N (tok_name t) steps), ts2)
            | None => None
            end
      | KBuiltin =>
          match expect isParenLeft ts1 with
          | Some ts2 =>
              match expr_list f nb false ts2 with
              | Some (args, ts3) =>
                  match expect isParenRight ts3 with
                  | Some ts4 => Some (ECall true (tok_name t) args, ts4)
                  | None => None
                  end
              | None => None
              end
          | None => None
          end
      | KAmpersand =>
          (* parse_addressed_reference: the first `&` is already consumed *)
          match parse_reference f nb ts1 with
          | Some (Ref d b steps, ts2) =>
              if (MAX_ADDRESS_DEPTH <? d + 1)%N then None
              else
                let pointer := EDeref (Ref (d + 1)%N b steps) in
                if isDots (hdk ts2) then
                  match parse_addition f nb (tl ts2) with
                  | Some (off, ts3) => Some (EBinary AdvancePointer pointer off, ts3)
                  | None => None
                  end
                else Some (pointer, ts2)
          | None => None
          end
      | KBracketLeft =>
          match expr_list f nb true ts1 with
          | Some (es, ts2) =>
              match expect isBracketRight ts2 with
              | Some ts3 => Some (EArray es, ts3)
              | None => None
              end
          | None => None
          end
      | KParenLeft =>
          match parse_addition f nb ts1 with
          | Some (e, ts2) =>
              match expect isParenRight ts2 with
              | Some ts3 => Some (EParen e, ts3)
              | None => None
              end
          | None => None
          end
      | _ => None
      end
    end.
Proof. reflexivity. Qed.

Lemma expr_list_S (f : nat) (nb : bool) (br : bool) (ts : list tok) :
  expr_list (S f) nb br ts =
    if is_close br (hdk ts) then Some ([], ts)
    else
      match parse_addition f nb ts with
      | Some (e, ts1) =>
          if isComma (hdk ts1) then
            match expr_list f nb br (tl ts1) with
            | Some (es, ts2) => Some (e :: es, ts2)
            | None => None
            end
          else Some ([e], ts1)
      | None => None
      end.
Proof. reflexivity. Qed.

Lemma members_loop_S (f : nat) (nb : bool) (ts : list tok) :
  members_loop (S f) nb ts =
    if isBraceRight (hdk ts) then Some ([], ts)
    else
      match expect_id ts with
      | Some (n, ts1) =>
          let value :=
            if isColon (hdk ts1) then parse_addition f nb (tl ts1)
            else Some (EDeref (Ref 0%N n []), ts1) in
          match value with
          | Some (e, ts2) =>
              if isComma (hdk ts2) then
                match members_loop f nb (tl ts2) with
                | Some (ms, ts3) => Some ((n, e) :: ms, ts3)
                | None => None
                end
              else Some ([(n, e)], ts2)
          | None => None
          end
      | None => None
      end.
Proof. reflexivity. Qed.

Lemma parse_reference_S (f : nat) (nb : bool) (ts : list tok) :
  parse_reference (S f) nb ts =
    let '(d, ts1) := count_amps ts in
    if (MAX_ADDRESS_DEPTH <? d)%N then None
    else
      match expect_id ts1 with
      | Some (b, ts2) =>
          match steps_loop f nb O ts2 with
          | Some (steps, ts3) => Some (Ref d b steps, ts3)
          | None => None
          end
      | None => None
      end.
Proof. reflexivity. Qed.

Lemma steps_loop_S (f : nat) (nb : bool) (k : nat) (ts : list tok) :
  steps_loop (S f) nb k ts =
    if isBracketLeft (hdk ts) then
      match parse_addition f nb (tl ts) with
      | Some (e, ts1) =>
          match expect isBracketRight ts1 with
          | Some ts2 =>
              if (MAX_REFERENCE_DEPTH <? S k)%nat then None
              else
                match steps_loop f nb (S k) ts2 with
                | Some (ss, ts3) => Some (RsElement e :: ss, ts3)
                | None => None
                end
          | None => None
          end
      | None => None
      end
    else if isDot (hdk ts) then
      match expect_id (tl ts) with
      | Some (m, ts1) =>
          if (MAX_REFERENCE_DEPTH <? S k)%nat then None
          else
            match steps_loop f nb (S k) ts1 with
            | Some (ss, ts2) => Some (RsMember m :: ss, ts2)
            | None => None
            end
      | None => None
      end
    else Some ([], ts).
Proof. reflexivity. Qed.

Lemma parse_statement_S (f : nat) (ts : list tok) :
  parse_statement (S f) ts =
    match ts with
    | [] => None
    | t :: ts1 =>
      match kind t with
      | KBraceLeft =>
          match block_loop f ts1 with
          | Some (ss, ts2) => Some (StBlock ss, ts2)
          | None => None
          end
      | KIf =>
          match parse_comparison f ts1 with
          | Some ((op, l, r), ts2) =>
              match parse_statement f ts2 with
              | Some (th, ts3) =>
                  if isElse (hdk ts3) then
                    match parse_statement f (tl ts3) with
                    | Some (el, ts4) => Some (StIf op l r th (Some el), ts4)
                    | None => None
                    end
                  else Some (StIf op l r th None, ts3)
              | None => None
              end
          | None => None
          end
      | KLoop =>
          match expect isSemicolon ts1 with
          | Some ts2 => Some (StLoop, ts2)
          | None => None
          end
      | KGoto =>
          match expect_id ts1 with
          | Some (l, ts2) =>
              match expect isSemicolon ts2 with
              | Some ts3 => Some (StGoto l, ts3)
              | None => None
              end
          | None => None
          end
      | KVar =>
          match expect_id ts1 with
          | Some (n, ts2) =>
              let otype :=
                if isColon (hdk ts2) then
                  match parse_wellformed_type f (tl ts2) with
                  | Some (t, ts3) => Some (Some t, ts3)
                  | None => None
                  end
                else Some (None, ts2) in
              match otype with
              | Some (ot, ts3) =>
                  let ovalue :=
                    if isAssignment (hdk ts3) then
                      match parse_addition f false (tl ts3) with
                      | Some (e, ts4) => Some (Some e, ts4)
                      | None => None
                      end
                    else Some (None, ts3) in
                  match ovalue with
                  | Some (ov, ts4) =>
                      match expect isSemicolon ts4 with
                      | Some ts5 => Some (StVar n ot ov, ts5)
                      | None => None
                      end
                  | None => None
                  end
              | None => None
              end
          | None => None
          end
      | KIdentifier =>
          if isColon (hdk ts1) then Some (StLabel (tok_name t), tl ts1)
          else if isParenLeft (hdk ts1) then
            match parse_arguments f ts1 with
            | Some (args, ts2) =>
                match expect isSemicolon ts2 with
                | Some ts3 => Some (StCall false (tok_name t) args, ts3)
                | None => None
                end
            | None => None
            end
          else
            match steps_loop f false O ts1 with
            | Some (steps, ts2) =>
                match parse_assign_tail f ts2 with
                | Some (e, ts3) => Some (StAssign (Ref 0%N (tok_name t) steps) e, ts3)
                | None => None
                end
            | None => None
            end
      | KBuiltin =>
          match parse_arguments f ts1 with
          | Some (args, ts2) =>
              match expect isSemicolon ts2 with
              | Some ts3 => Some (StCall true (tok_name t) args, ts3)
              | None => None
              end
          | None => None
          end
      | KAmpersand =>
          match parse_addressed_reference f false ts1 with
          | Some (r, ts2) =>
              match parse_assign_tail f ts2 with
              | Some (e, ts3) => Some (StAssign r e, ts3)
              | None => None
              end
          | None => None
          end
      | _ => None
      end
    end.
Proof. reflexivity. Qed.

Lemma block_loop_S (f : nat) (ts : list tok) :
  block_loop (S f) ts =
    if isBraceRight (hdk ts) then Some ([], tl ts)
    else
      match parse_statement f ts with
      | Some (s, ts1) =>
          match block_loop f ts1 with
          | Some (ss, ts2) => Some (s :: ss, ts2)
          | None => None
          end
      | None => None
      end.
Proof. reflexivity. Qed.

Lemma body_loop_S (f : nat) (ts : list tok) :
  body_loop (S f) ts =
    if isBraceRight (hdk ts) then Some (([], None), tl ts)
    else
      match parse_statement f ts with
      | Some (s, ts1) =>
          if is_return_label s then
            if isBraceRight (hdk ts1) then None   (* MissingReturnValueAfterStatement *)
            else
              match parse_addition f false ts1 with
              | Some (e, ts2) =>
                  match expect isBraceRight ts2 with   (* `;` here is an error as well *)
                  | Some ts3 => Some (([s], Some e), ts3)
                  | None => None
                  end
              | None => None
              end
          else
            match body_loop f ts1 with
            | Some ((ss, rv), ts2) => Some ((s :: ss, rv), ts2)
            | None => None
            end
      | None => None
      end.
Proof. reflexivity. Qed.

Lemma typed_names_S (f : nat) (br : bool) (ts : list tok) :
  typed_names (S f) br ts =
    if is_close_tn br (hdk ts) then Some ([], ts)
    else
      match parse_typed_name f ts with
      | Some (m, ts1) =>
          if isComma (hdk ts1) then
            match typed_names f br (tl ts1) with
            | Some (ms, ts2) => Some (m :: ms, ts2)
            | None => None
            end
          else Some ([m], ts1)
      | None => None
      end.
Proof. reflexivity. Qed.

Lemma decls_loop_S (f : nat) (inner : nat) (ts : list tok) :
  decls_loop (S f) inner ts =
    match ts with
    | [] => Some []
    | _ :: _ =>
        match parse_declaration inner ts with
        | Some (d, ts1) =>
            match decls_loop f inner ts1 with
            | Some ds => Some (d :: ds)
            | None => None
            end
        | None => None
        end
    end.
Proof. reflexivity. Qed.

Ltac tkred :=
  cbn [hdk tl kind value vtype bytes mk tk tk_id tk_builtin tk_type tk_sint tk_bits
       isParenLeft isParenRight isBraceLeft isBraceRight isBracketLeft isBracketRight isPipe
       isSemicolon isAssignment isColon isComma isElse isArrow isDots isDot isAs isCast
       isAmpersand isString isPub isExtern isIdentifier is_close is_close_tn
       bitop_of shiftop_of addop_of mulop_of cmpop_of same_bitop binop_eqb
       kind_of_binop kind_of_unop kind_of_cmpop kind_of_skind word_kind
       expect expect_id app andb orb negb is_binary fst snd].

Ltac step lem :=
  eapply conv_step; [intro; rewrite lem; reflexivity|]; tkred.

Ltac crw lem :=
  eapply conv_ext; [intro; rewrite lem; reflexivity|].

Ltac bind H :=
  eapply conv_bind; [eapply H | ]; tkred.

Lemma tok_name_id n : tok_name (mk KIdentifier (Z.of_N n) None []) = n.
Proof. unfold tok_name, mk. cbn [value]. apply N2Z.id. Qed.

Lemma tok_name_builtin n : tok_name (mk KBuiltin (Z.of_N n) None []) = n.
Proof. unfold tok_name, mk. cbn [value]. apply N2Z.id. Qed.

Lemma tok_name_id' n : tok_name (tk_id n) = n.
Proof. apply tok_name_id. Qed.

Lemma tok_name_builtin' n : tok_name (tk_builtin n) = n.
Proof. apply tok_name_builtin. Qed.

Ltac bind5 H lem :=
  eapply conv_bind; [eapply H; apply lem | ]; tkred.

Ltac crw_name :=
  eapply conv_ext;
  [intro; rewrite ?tok_name_id, ?tok_name_id', ?tok_name_builtin, ?tok_name_builtin'; reflexivity|].

(* ------------------------------------------------------------------------- *)
(* Types                                                                      *)
(* ------------------------------------------------------------------------- *)

Lemma parse_print_inner_type t :
  ty_rng t = true ->
  forall R, conv (fun f => parse_inner_type f (print_type t ++ R)) (t, R).
Proof.
  induction t as [|p|n|len e IH|n e IH|e IH|e IH|e IH|d IH|d IH]; intros Hr R;
    cbn [print_type ty_rng] in *.
  - step parse_inner_type_S. apply conv_ret.
  - step parse_inner_type_S. apply conv_ret.
  - step parse_inner_type_S. crw_name. apply conv_ret.
  - apply andb_prop in Hr as [Hr He]. apply andb_prop in Hr as [H0 H1].
    step parse_inner_type_S. bind (IH He R).
    apply Z.leb_le in H0. apply Z.ltb_lt in H1.
    crw (Z.mod_small len usize_lim (conj H0 H1)). apply conv_ret.
  - step parse_inner_type_S. bind (IH Hr R). crw_name. apply conv_ret.
  - step parse_inner_type_S. bind (IH Hr R). apply conv_ret.
  - step parse_inner_type_S. bind (IH Hr R). apply conv_ret.
  - step parse_inner_type_S. bind (IH Hr R). apply conv_ret.
  - step parse_inner_type_S. bind (IH Hr R). apply conv_ret.
  - step parse_inner_type_S. rewrite <- app_assoc. bind (IH Hr (tk KParenRight :: R)).
    apply conv_ret.
Qed.

Theorem parse_print_type t :
  ty_ok t = true ->
  forall R, conv (fun f => parse_wellformed_type f (print_type t ++ R)) (t, R).
Proof.
  intros Hok R. apply andb_prop in Hok as [Hr Hw]. unfold parse_wellformed_type.
  bind (parse_print_inner_type t Hr R). rewrite Hw. apply conv_ret.
Qed.

(* ------------------------------------------------------------------------- *)
(* Expressions: induction principle                                           *)
(* ------------------------------------------------------------------------- *)

Definition step_P (P : expr -> Prop) (s : step) : Prop :=
  match s with RsElement e => P e | RsMember _ => True end.

Section expr_ind2.
  Variable P : expr -> Prop.
  Hypothesis HBin : forall op l r, P l -> P r -> P (EBinary op l r).
  Hypothesis HUn : forall op e, P e -> P (EUnary op e).
  Hypothesis HBool : forall b, P (EBool b).
  Hypothesis HSigned : forall v t, P (ESigned v t).
  Hypothesis HBits : forall v t, P (EBits v t).
  Hypothesis HString : forall bs, P (EString bs).
  Hypothesis HArray : forall es, Forall P es -> P (EArray es).
  Hypothesis HStruct : forall n ms, Forall (fun me => P (snd me)) ms -> P (EStructural n ms).
  Hypothesis HParen : forall e, P e -> P (EParen e).
  Hypothesis HDeref : forall d b steps, Forall (step_P P) steps -> P (EDeref (Ref d b steps)).
  Hypothesis HBitCast : forall e, P e -> P (EBitCast e).
  Hypothesis HTypeCast : forall e t, P e -> P (ETypeCast e t).
  Hypothesis HLength : forall d b steps, Forall (step_P P) steps -> P (ELength (Ref d b steps)).
  Hypothesis HSizeOf : forall t, P (ESizeOf t).
  Hypothesis HCall : forall b n args, Forall P args -> P (ECall b n args).

  Fixpoint expr_ind2 (e : expr) : P e :=
    let go_list :=
      fix go (l : list expr) : Forall P l :=
        match l with
        | [] => Forall_nil P
        | x :: xs => Forall_cons x (expr_ind2 x) (go xs)
        end in
    let go_steps :=
      fix go (l : list step) : Forall (step_P P) l :=
        match l with
        | [] => Forall_nil _
        | s :: xs =>
            Forall_cons s
              (match s return step_P P s with
               | RsElement e' => expr_ind2 e'
               | RsMember _ => I
               end) (go xs)
        end in
    match e with
    | EBinary op l r => HBin op l r (expr_ind2 l) (expr_ind2 r)
    | EUnary op e' => HUn op e' (expr_ind2 e')
    | EBool b => HBool b
    | ESigned v t => HSigned v t
    | EBits v t => HBits v t
    | EString bs => HString bs
    | EArray es => HArray es (go_list es)
    | EStructural n ms =>
        HStruct n ms
          ((fix go (l : list (name * expr)) : Forall (fun me => P (snd me)) l :=
              match l with
              | [] => Forall_nil _
              | (m, x) :: xs => Forall_cons (m, x) (expr_ind2 x) (go xs)
              end) ms)
    | EParen e' => HParen e' (expr_ind2 e')
    | EDeref (Ref d b steps) => HDeref d b steps (go_steps steps)
    | EBitCast e' => HBitCast e' (expr_ind2 e')
    | ETypeCast e' t => HTypeCast e' t (expr_ind2 e')
    | ELength (Ref d b steps) => HLength d b steps (go_steps steps)
    | ESizeOf t => HSizeOf t
    | ECall b n args => HCall b n args (go_list args)
    end.
End expr_ind2.

(* ------------------------------------------------------------------------- *)
(* What may follow a printed expression                                       *)
(* ------------------------------------------------------------------------- *)

Definition okf (lv : nat) (nb : bool) (e : expr) (R : list tok) : bool :=
  stopl lv nb (hdk R) && redge nb e (hdk R).

Definition stop_expr (nb : bool) (R : list tok) : bool := stopl 5 nb (hdk R).

Lemma ltb_mono a b c : a <= b -> (b <? c) = true -> (a <? c) = true.
Proof. intros H Hb. apply Nat.ltb_lt in Hb. apply Nat.ltb_lt. lia. Qed.

Lemma orb_mono_l (a a' b : bool) : (a = true -> a' = true) -> a || b = true -> a' || b = true.
Proof. destruct a, a', b; cbn; intros H; auto. Qed.

Lemma stopl_mono lv lv' nb k : lv <= lv' -> stopl lv' nb k = true -> stopl lv nb k = true.
Proof.
  intros Hle H. unfold stopl in *.
  apply andb_prop in H as [H H5]. apply andb_prop in H as [H H4]. apply andb_prop in H as [Hp H3].
  rewrite Hp. cbn [andb].
  rewrite (orb_mono_l _ (lv <? 3) _ (ltb_mono lv lv' 3 Hle) H3).
  rewrite (orb_mono_l _ (lv <? 4) _ (ltb_mono lv lv' 4 Hle) H4).
  rewrite (orb_mono_l _ (lv <? 5) _ (ltb_mono lv lv' 5 Hle) H5). reflexivity.
Qed.

Lemma stopl_pstop lv nb k : stopl lv nb k = true -> pstop nb k = true.
Proof.
  unfold stopl. intros H. apply andb_prop in H as [H _]. apply andb_prop in H as [H _].
  now apply andb_prop in H as [H _].
Qed.

Lemma stopl_as lv nb k : 3 <= lv -> stopl lv nb k = true -> isAs k = false.
Proof.
  intros Hle H. apply (stopl_mono 3) in H; [|exact Hle]. unfold stopl in H. cbn [Nat.ltb Nat.leb orb] in H.
  apply andb_prop in H as [H _]. apply andb_prop in H as [H _]. apply andb_prop in H as [_ H].
  now destruct (isAs k).
Qed.

Lemma stopl_mul lv nb k : 4 <= lv -> stopl lv nb k = true -> mulop_of k = None.
Proof.
  intros Hle H. apply (stopl_mono 4) in H; [|exact Hle]. unfold stopl in H. cbn [Nat.ltb Nat.leb orb] in H.
  apply andb_prop in H as [H _]. apply andb_prop in H as [_ H].
  now destruct (mulop_of k).
Qed.

Lemma stopl_5 nb k : stopl 5 nb k = true ->
  addop_of k = None /\ bitop_of k = None /\ shiftop_of k = None.
Proof.
  intros H. unfold stopl in H. cbn [Nat.ltb Nat.leb orb] in H.
  apply andb_prop in H as [_ H]. apply andb_prop in H as [H H3]. apply andb_prop in H as [H1 H2].
  destruct (addop_of k), (bitop_of k), (shiftop_of k); try discriminate. auto.
Qed.

Lemma okf_stopl lv nb e R : lv <= 5 -> okf lv nb e R = true -> stopl lv nb (hdk R) = true.
Proof. unfold okf. intros _ H. now apply andb_prop in H as [H _]. Qed.

Lemma okf_redge lv nb e R : okf lv nb e R = true -> redge nb e (hdk R) = true.
Proof. unfold okf. intros H. now apply andb_prop in H as [_ H]. Qed.

Lemma okf_trans lv lv' nb e e' R :
  okf lv nb e R = true ->
  (redge nb e (hdk R) = true -> redge nb e' (hdk R) = true) -> lv' <= lv -> lv <= 5 ->
  okf lv' nb e' R = true.
Proof.
  unfold okf. intros H Hr Hle H5. apply andb_prop in H as [H1 H2].
  rewrite (stopl_mono lv' lv nb _ Hle H1), (Hr H2). reflexivity.
Qed.

Lemma okf_left lv nb e R :
  redge nb e (hdk R) = true -> stopl lv nb (hdk R) = true -> okf lv nb e R = true.
Proof. unfold okf. intros -> ->. reflexivity. Qed.

Lemma stopl5_top nb e k : stopl 5 nb k = true -> top_stop nb e k = true.
Proof.
  intros H. destruct (stopl_5 _ _ H) as (_ & Hb & _). pose proof (stopl_pstop _ _ _ H) as Hp.
  destruct e; cbn [top_stop]; try exact H. destruct op; try exact H; rewrite Hp; cbn [andb];
    try reflexivity; unfold same_bitop; rewrite Hb; reflexivity.
Qed.

Lemma stopl5_redge nb e k : stopl 5 nb k = true -> redge nb e k = true.
Proof.
  intros H. induction e; cbn [redge]; try reflexivity; try assumption.
  destruct op; try assumption. rewrite IHe2. now apply stopl5_top.
Qed.

Lemma stopl5_estop nb e k : stopl 5 nb k = true -> estop nb e k = true.
Proof. intros H. unfold estop. now rewrite stopl5_redge, stopl5_top. Qed.

Lemma okf_full lv nb e R : lv <= 5 -> stopl 5 nb (hdk R) = true -> okf lv nb e R = true.
Proof.
  unfold okf. intros Hle H. rewrite (stopl_mono lv 5 nb _ Hle H), (stopl5_redge nb e _ H). reflexivity.
Qed.

Lemma top_stop_low nb e k : lvl e <= 4 -> top_stop nb e k = stopl 5 nb k.
Proof.
  intros Hl. destruct e; cbn [top_stop]; try reflexivity.
  destruct op; cbn [lvl] in Hl; try lia; reflexivity.
Qed.

Lemma stopl_1 nb k : stopl 1 nb k = pstop nb k.
Proof. unfold stopl. cbn [Nat.ltb Nat.leb orb]. now rewrite !andb_true_r. Qed.

(* Loops that stop. *)
Lemma as_loop_stop e R : isAs (hdk R) = false -> conv (fun f => as_loop f e R) (e, R).
Proof. intros H. step as_loop_S. rewrite H. apply conv_ret. Qed.

Lemma mul_loop_stop nb e R : mulop_of (hdk R) = None -> conv (fun f => mul_loop f nb e R) (e, R).
Proof. intros H. step mul_loop_S. rewrite H. apply conv_ret. Qed.

Lemma add_loop_stop nb e R :
  addop_of (hdk R) = None -> bitop_of (hdk R) = None -> shiftop_of (hdk R) = None ->
  conv (fun f => add_loop f nb e R) (e, R).
Proof. intros H1 H2 H3. step add_loop_S. rewrite H1, H2, H3. apply conv_ret. Qed.

(* ------------------------------------------------------------------------- *)
(* The statements proved by induction on the expression                       *)
(* ------------------------------------------------------------------------- *)

Definition P0 nb e := forall R, okf 0 nb e R = true ->
  conv (fun f => parse_primary f nb (print_expr e ++ R)) (e, R).
Definition P1 nb e := forall R, okf 1 nb e R = true ->
  conv (fun f => parse_unary f nb (print_expr e ++ R)) (e, R).
Definition P2 nb e := forall R x, okf 2 nb e R = true ->
  conv (fun f => as_loop f e R) x ->
  conv (fun f => parse_singular f nb (print_expr e ++ R)) x.
Definition P3 nb e := forall R x, okf 3 nb e R = true ->
  conv (fun f => mul_loop f nb e R) x ->
  conv (fun f => parse_multiplication f nb (print_expr e ++ R)) x.
Definition P4 nb e := forall R x, okf 4 nb e R = true ->
  conv (fun f => add_loop f nb e R) x ->
  conv (fun f => parse_addition f nb (print_expr e ++ R)) x.
Definition P5 nb e := forall R, estop nb e (hdk R) = true ->
  conv (fun f => parse_addition f nb (print_expr e ++ R)) (e, R).

(* [e] may be the left operand of the bitwise operator [op]. *)
Definition chain_ok (op : binop) (e : expr) : bool :=
  match e with EBinary op' _ _ => binop_eqb op op' | _ => (lvl e <=? 2)%nat end.

Definition PC nb e := forall op T x,
  bitop_of (kind_of_binop op) = Some op -> chain_ok op e = true ->
  redge nb e (kind_of_binop op) = true ->
  conv (fun f => bit_loop f nb op e T) x ->
  conv (fun f => parse_addition f nb (print_expr e ++ tk (kind_of_binop op) :: T)) x.

Definition W nb (e : expr) : Prop := wf_expr nb e = true /\ P5 nb e.

(* The steps of a reference expression parse back. *)
Definition PD nb e :=
  match e with EDeref (Ref _ _ steps) => Forall (step_P (W nb)) steps | _ => True end.

Definition Pall nb e :=
  (lvl e = 0 -> P0 nb e) /\ (lvl e <= 1 -> P1 nb e) /\ (lvl e <= 2 -> P2 nb e) /\
  (lvl e <= 3 -> P3 nb e) /\ (lvl e <= 4 -> P4 nb e) /\ P5 nb e /\ PC nb e /\ PD nb e.

(* First tokens. *)
Definition pstart (k : tkind) : bool :=
  match k with
  | KNakedDecimal | KBitInteger | KSuffixedInteger | KCharLiteral | KBool | KStringLiteral
  | KIdentifier | KBuiltin | KAmpersand | KBracketLeft | KParenLeft => true
  | _ => false
  end.

Definition ustart (k : tkind) : bool :=
  pstart k || match k with KPipeForType | KPipe | KExclamation | KMinus => true | _ => false end.

Lemma parse_unary_prim f nb ts :
  pstart (hdk ts) = true -> parse_unary (S f) nb ts = parse_primary f nb ts.
Proof. intros H. rewrite parse_unary_S. destruct (hdk ts); try discriminate H; reflexivity. Qed.

Lemma ustart_nocast k : ustart k = true -> isCast k = false.
Proof. destruct k; cbn; intros H; try reflexivity; discriminate. Qed.

Definition starts (p : tkind -> bool) (ts : list tok) : Prop :=
  exists t r, ts = t :: r /\ p (kind t) = true.

Lemma starts_hdk p ts R : starts p ts -> p (hdk (ts ++ R)) = true.
Proof. intros (t & r & -> & H). exact H. Qed.

Lemma tk_bits_kind v t : pstart (kind (tk_bits v t)) = true.
Proof. destruct t as [[]|]; reflexivity. Qed.

Lemma tk_sint_kind v t : pstart (kind (tk_sint v t)) = true.
Proof. destruct t; reflexivity. Qed.

Lemma print_ref_start d b steps : starts pstart (print_ref (Ref d b steps)).
Proof.
  cbn [print_ref]. destruct (N.to_nat d) as [|n].
  - cbn [repeat app]. eexists _, _. split; [reflexivity|reflexivity].
  - cbn [repeat app]. eexists _, _. split; [reflexivity|reflexivity].
Qed.

Lemma print_start0 nb e : wf_expr nb e = true -> lvl e = 0 -> starts pstart (print_expr e).
Proof.
  intros Hwf Hl. destruct e; cbn [lvl] in Hl; try discriminate Hl.
  - (* EBinary: AdvancePointer *)
    destruct op; try discriminate Hl. cbn [wf_expr] in Hwf.
    apply andb_prop in Hwf as [_ Hwf]. destruct e1; try discriminate Hwf. destruct r as [d b steps].
    cbn [print_expr]. destruct (print_ref_start d b steps) as (t & r & -> & H).
    eexists _, _. split; [reflexivity|exact H].
  - cbn [print_expr]. eexists _, _. split; reflexivity.
  - cbn [print_expr]. destruct (v <? 0)%Z; [discriminate Hl|].
    eexists _, _. split; [reflexivity|apply tk_sint_kind].
  - cbn [print_expr]. eexists _, _. split; [reflexivity|apply tk_bits_kind].
  - cbn [print_expr]. eexists _, _. split; reflexivity.
  - cbn [print_expr]. eexists _, _. split; reflexivity.
  - cbn [print_expr]. eexists _, _. split; reflexivity.
  - cbn [print_expr]. eexists _, _. split; reflexivity.
  - cbn [print_expr]. destruct r. apply print_ref_start.
  - cbn [print_expr]. destruct builtin; eexists _, _; split; reflexivity.
Qed.

Lemma pstart_ustart k : pstart k = true -> ustart k = true.
Proof. unfold ustart. intros ->. reflexivity. Qed.

Lemma print_start1 nb e : wf_expr nb e = true -> lvl e <= 1 -> starts ustart (print_expr e).
Proof.
  intros Hwf Hl. destruct (Nat.eq_dec (lvl e) 0) as [H0|H0].
  - destruct (print_start0 nb e Hwf H0) as (t & r & -> & H).
    eexists _, _. split; [reflexivity|now apply pstart_ustart].
  - destruct e; cbn [lvl] in Hl, H0; try lia; try (destruct op; lia).
    + cbn [print_expr]. destruct op; eexists _, _; split; reflexivity.
    + cbn [print_expr]. destruct (v <? 0)%Z; [|lia]. eexists _, _; split; reflexivity.
    + cbn [print_expr]. eexists _, _; split; reflexivity.
    + cbn [print_expr]. eexists _, _; split; reflexivity.
Qed.

(* Lifting a statement to the next grammar level. *)
Lemma lift01 nb e : wf_expr nb e = true -> lvl e = 0 -> P0 nb e -> P1 nb e.
Proof.
  intros Hwf Hl H0 R Hok.
  eapply conv_step.
  - intro f. apply parse_unary_prim. apply starts_hdk. eapply print_start0; eauto.
  - apply H0. eapply okf_trans; eauto.
Qed.

Lemma lift12 nb e : wf_expr nb e = true -> lvl e <= 1 -> P1 nb e -> P2 nb e.
Proof.
  intros Hwf Hl H1 R x Hok Hloop.
  step parse_singular_S.
  crw (ustart_nocast _ (starts_hdk ustart _ R (print_start1 nb e Hwf Hl))).
  bind (H1 R). { eapply okf_trans; eauto. } exact Hloop.
Qed.

Lemma lift23 nb e : lvl e <= 2 -> P2 nb e -> P3 nb e.
Proof.
  intros Hl H2 R x Hok Hloop.
  step parse_multiplication_S.
  bind (H2 R (e, R)).
  - eapply okf_trans; eauto.
  - apply as_loop_stop. eapply stopl_as; [|eapply okf_stopl; [|exact Hok]]; lia.
  - exact Hloop.
Qed.

Lemma lift34 nb e : lvl e <= 3 -> P3 nb e -> P4 nb e.
Proof.
  intros Hl H3 R x Hok Hloop.
  step parse_addition_S.
  bind (H3 R (e, R)).
  - eapply okf_trans; eauto.
  - apply mul_loop_stop. eapply stopl_mul; [|eapply okf_stopl; [|exact Hok]]; lia.
  - exact Hloop.
Qed.

Lemma lift45 nb e : lvl e <= 4 -> P4 nb e -> P5 nb e.
Proof.
  intros Hl H4 R Hes. unfold estop in Hes. apply andb_prop in Hes as [Hre Hstop].
  rewrite (top_stop_low nb e _ Hl) in Hstop. apply H4.
  - apply okf_left; [exact Hre|]. eapply stopl_mono; [|exact Hstop]. lia.
  - destruct (stopl_5 _ _ Hstop) as (Ha & Hb & Hs). now apply add_loop_stop.
Qed.

Lemma bitop_cases op : bitop_of (kind_of_binop op) = Some op ->
  op = BitwiseAnd \/ op = BitwiseOr \/ op = BitwiseXor.
Proof. destruct op; cbn; intros H; try discriminate; auto. Qed.

Lemma PC_from3 nb e : is_binary e = false -> P3 nb e -> PC nb e.
Proof.
  intros Hnb H3 op T x Hop Hch Hradv Hloop.
  step parse_addition_S.
  bind (H3 (tk (kind_of_binop op) :: T) (e, tk (kind_of_binop op) :: T)).
  - apply okf_left; [exact Hradv|].
    destruct (bitop_cases op Hop) as [->|[->| ->]]; destruct nb; reflexivity.
  - apply mul_loop_stop. destruct (bitop_cases op Hop) as [->|[->| ->]]; reflexivity.
  - step add_loop_S. crw Hop. crw Hnb. exact Hloop.
Qed.

Lemma lvl_le5 e : lvl e <= 5.
Proof. destruct e; cbn [lvl]; try lia. - destruct op; lia. - destruct (v <? 0)%Z; lia. Qed.

Lemma Pall_build nb e :
  wf_expr nb e = true ->
  (lvl e = 0 -> P0 nb e) ->
  (lvl e = 1 -> P1 nb e) ->
  (lvl e = 2 -> P2 nb e) ->
  (lvl e = 3 -> P3 nb e) ->
  (lvl e = 4 -> P4 nb e) ->
  (lvl e = 5 -> P5 nb e) ->
  (is_binary e = true -> PC nb e) ->
  PD nb e ->
  Pall nb e.
Proof.
  intros Hwf H0 H1 H2 H3 H4 H5 HC HD. pose proof (lvl_le5 e) as Hl5.
  assert (A1 : lvl e <= 1 -> P1 nb e).
  { intros Hl. destruct (Nat.eq_dec (lvl e) 0) as [E|E].
    - apply lift01; auto.
    - apply H1. lia. }
  assert (A2 : lvl e <= 2 -> P2 nb e).
  { intros Hl. destruct (Nat.eq_dec (lvl e) 2) as [E|E]; [now apply H2|].
    apply lift12; auto; try lia. apply A1. lia. }
  assert (A3 : lvl e <= 3 -> P3 nb e).
  { intros Hl. destruct (Nat.eq_dec (lvl e) 3) as [E|E]; [now apply H3|].
    apply lift23; try lia. apply A2. lia. }
  assert (A4 : lvl e <= 4 -> P4 nb e).
  { intros Hl. destruct (Nat.eq_dec (lvl e) 4) as [E|E]; [now apply H4|].
    apply lift34; try lia. apply A3. lia. }
  assert (A5 : P5 nb e).
  { destruct (Nat.eq_dec (lvl e) 5) as [E|E]; [now apply H5|].
    apply lift45; [lia|]. apply A4. lia. }
  repeat split; auto.
  destruct (is_binary e) eqn:Eb; [now apply HC|].
  destruct (Nat.le_gt_cases (lvl e) 2) as [Hl|Hl].
  - apply PC_from3; [exact Eb | apply A3; lia].
  - intros op T x Hop Hch. exfalso.
    destruct e; cbn [is_binary] in Eb; try discriminate Eb;
      cbn [chain_ok] in Hch; apply Nat.leb_le in Hch; lia.
Qed.


(* First token of any printed expression. *)
Definition estart (k : tkind) : bool := ustart k || isCast k.

Lemma starts_app p ts R : starts p ts -> starts p (ts ++ R).
Proof. intros (t & r & -> & H). exists t, (r ++ R). split; [reflexivity|exact H]. Qed.

Lemma print_start nb e : wf_expr nb e = true -> starts estart (print_expr e).
Proof.
  induction e; intros Hwf;
    try (destruct (print_start1 nb _ Hwf ltac:(cbn [lvl]; lia)) as (t0 & r0 & Ht & H);
         exists t0, r0; split; [exact Ht|unfold estart; now rewrite H]).
  - cbn [wf_expr] in Hwf. apply andb_prop in Hwf as [Hwf _]. apply andb_prop in Hwf as [Hl _].
    cbn [print_expr]. apply starts_app. now apply IHe1.
  - destruct (v <? 0)%Z eqn:E.
    + cbn [print_expr]. rewrite E. eexists _, _. split; reflexivity.
    + destruct (print_start0 nb (ESigned v t) Hwf) as (t0 & r0 & Ht & H).
      { cbn [lvl]. now rewrite E. }
      exists t0, r0. split; [exact Ht|]. unfold estart, ustart. now rewrite H.
  - cbn [print_expr]. eexists _, _. split; reflexivity.
  - cbn [wf_expr] in Hwf. apply andb_prop in Hwf as [Hwf _]. apply andb_prop in Hwf as [Hwf _].
    apply andb_prop in Hwf as [Hwf _]. cbn [print_expr]. apply starts_app. now apply IHe.
Qed.

Lemma estart_not_close k : estart k = true ->
  isParenRight k = false /\ isBracketRight k = false /\ isBraceRight k = false.
Proof. destruct k; cbn; intros H; try discriminate H; auto. Qed.

Ltac appnorm := repeat (rewrite <- ?app_assoc, <- ?app_comm_cons).

(* ------------------------------------------------------------------------- *)
(* Lists of expressions, members, reference steps                             *)
(* ------------------------------------------------------------------------- *)

Lemma stop_comma nb e R : estop nb e (hdk (tk KComma :: R)) = true.
Proof. apply stopl5_estop. destruct nb; reflexivity. Qed.
Lemma stop_paren nb e R : estop nb e (hdk (tk KParenRight :: R)) = true.
Proof. apply stopl5_estop. destruct nb; reflexivity. Qed.
Lemma stop_bracket nb e R : estop nb e (hdk (tk KBracketRight :: R)) = true.
Proof. apply stopl5_estop. destruct nb; reflexivity. Qed.
Lemma stop_brace nb e R : estop nb e (hdk (tk KBraceRight :: R)) = true.
Proof. apply stopl5_estop. destruct nb; reflexivity. Qed.
Lemma stop_semicolon nb e R : estop nb e (hdk (tk KSemicolon :: R)) = true.
Proof. apply stopl5_estop. destruct nb; reflexivity. Qed.

Lemma stop5_paren nb : stopl 5 nb KParenRight = true.
Proof. destruct nb; reflexivity. Qed.

Lemma expr_list_sep_cons nb br closer R :
  is_close br (kind closer) = true -> isComma (kind closer) = false ->
  stopl 5 nb (kind closer) = true ->
  forall xs x, W nb x -> Forall (W nb) xs ->
  conv (fun f => expr_list f nb br
                   (print_expr x ++ flat_map (fun y => tk KComma :: print_expr y) xs ++ closer :: R))
       (x :: xs, closer :: R).
Proof.
  intros Hc Hnc Hstop. induction xs as [|y ys IH]; intros x [Hwx Hx] Hxs.
  - cbn [flat_map app]. step expr_list_S.
    destruct (estart_not_close _ (starts_hdk estart _ (closer :: R) (print_start nb x Hwx)))
      as (E1 & E2 & E3).
    assert (Ecl : is_close br (hdk (print_expr x ++ closer :: R)) = false)
      by (destruct br; cbn [is_close]; assumption).
    crw Ecl. bind (Hx (closer :: R) (stopl5_estop nb x _ Hstop)). rewrite Hnc. apply conv_ret.
  - inversion Hxs as [|? ? Hy Hys]; subst. cbn [flat_map]. appnorm. step expr_list_S.
    destruct (estart_not_close _ (starts_hdk estart _
               (tk KComma :: print_expr y ++ flat_map (fun y0 => tk KComma :: print_expr y0) ys ++ closer :: R)
               (print_start nb x Hwx))) as (E1 & E2 & E3).
    match goal with |- conv (fun f => if is_close br (hdk ?l) then _ else _) _ =>
      assert (Ecl : is_close br (hdk l) = false) by (destruct br; cbn [is_close]; assumption) end.
    crw Ecl. bind5 Hx stop_comma. bind (IH y Hy Hys). apply conv_ret.
Qed.

Lemma expr_list_sep nb br closer R es :
  is_close br (kind closer) = true -> isComma (kind closer) = false ->
  stopl 5 nb (kind closer) = true ->
  Forall (W nb) es ->
  conv (fun f => expr_list f nb br (print_sep print_expr es ++ closer :: R)) (es, closer :: R).
Proof.
  intros Hc Hnc Hstop Hes. destruct es as [|x xs].
  - cbn [print_sep app]. step expr_list_S. rewrite Hc. apply conv_ret.
  - inversion Hes; subst. cbn [print_sep]. appnorm. now apply expr_list_sep_cons.
Qed.

Lemma expr_list_trail nb es R :
  Forall (W nb) es ->
  conv (fun f => expr_list f nb true
                   (flat_map (fun e => print_expr e ++ [tk KComma]) es ++ tk KBracketRight :: R))
       (es, tk KBracketRight :: R).
Proof.
  induction es as [|x xs IH]; intros Hes.
  - cbn [flat_map app]. step expr_list_S. apply conv_ret.
  - inversion Hes as [|? ? [Hwx Hx] Hxs]; subst. cbn [flat_map]. appnorm. step expr_list_S.
    destruct (estart_not_close _ (starts_hdk estart _
               (tk KComma :: flat_map (fun e => print_expr e ++ [tk KComma]) xs ++ tk KBracketRight :: R)
               (print_start nb x Hwx))) as (E1 & E2 & E3).
    crw E2. bind5 Hx stop_comma. bind (IH Hxs). apply conv_ret.
Qed.

Lemma members_loop_ok ms R :
  Forall (fun me => W false (snd me)) ms ->
  conv (fun f => members_loop f false
     (flat_map (fun me => let '(m, e) := me in tk_id m :: tk KColon :: print_expr e ++ [tk KComma]) ms
      ++ tk KBraceRight :: R))
     (ms, tk KBraceRight :: R).
Proof.
  induction ms as [|[m e] ms IH]; intros Hms.
  - cbn [flat_map app]. step members_loop_S. apply conv_ret.
  - inversion Hms as [|? ? [Hwx Hx] Hxs]; subst. cbn [snd] in *. cbn [flat_map]. appnorm.
    step members_loop_S. bind5 Hx stop_comma. bind (IH Hxs). crw_name. apply conv_ret.
Qed.

Lemma steps_loop_ok nb steps :
  Forall (step_P (W nb)) steps ->
  forall k R, k + length steps <= 127 ->
  isBracketLeft (hdk R) = false -> isDot (hdk R) = false ->
  conv (fun f => steps_loop f nb k (flat_map print_step steps ++ R)) (steps, R).
Proof.
  induction steps as [|s ss IH]; intros Hss k R Hk HB HD.
  - cbn [flat_map app]. step steps_loop_S. rewrite HB, HD. apply conv_ret.
  - inversion Hss as [|? ? Hs Hss']; subst. cbn [length] in Hk.
    assert (El : (MAX_REFERENCE_DEPTH <? S k) = false)
      by (apply Nat.ltb_ge; unfold MAX_REFERENCE_DEPTH; lia).
    destruct s as [e|m]; cbn [flat_map print_step]; appnorm.
    + destruct Hs as [Hwe He]. step steps_loop_S. bind5 He stop_bracket.
      rewrite El. bind (IH Hss' (S k) R ltac:(lia) HB HD). apply conv_ret.
    + step steps_loop_S. rewrite El. bind (IH Hss' (S k) R ltac:(lia) HB HD).
      crw_name. apply conv_ret.
Qed.

Lemma count_amps_repeat n b X :
  count_amps (repeat (tk KAmpersand) n ++ tk_id b :: X) = (N.of_nat n, tk_id b :: X).
Proof.
  induction n as [|n IH].
  - reflexivity.
  - cbn [repeat app count_amps]. tkred. rewrite IH. now rewrite Nat2N.inj_succ.
Qed.

Lemma parse_reference_ok nb d b steps R :
  Forall (step_P (W nb)) steps ->
  (d <=? MAX_ADDRESS_DEPTH)%N = true -> (length steps <=? MAX_REFERENCE_DEPTH) = true ->
  isBracketLeft (hdk R) = false -> isDot (hdk R) = false ->
  conv (fun f => parse_reference f nb (print_ref (Ref d b steps) ++ R)) (Ref d b steps, R).
Proof.
  intros Hss Hd Hl HB HD. cbn [print_ref]. appnorm. step parse_reference_S.
  rewrite count_amps_repeat, N2Nat.id.
  assert (E : (MAX_ADDRESS_DEPTH <? d)%N = false) by (apply N.ltb_ge; now apply N.leb_le).
  rewrite E. tkred. apply Nat.leb_le in Hl. unfold MAX_REFERENCE_DEPTH in Hl.
  bind (steps_loop_ok nb steps Hss 0 R ltac:(lia) HB HD). crw_name. apply conv_ret.
Qed.

(* ------------------------------------------------------------------------- *)
(* One lemma per production                                                   *)
(* ------------------------------------------------------------------------- *)

Lemma pstop_inv nb k : pstop nb k = true ->
  isBracketLeft k = false /\ isDot k = false /\ isParenLeft k = false /\
  (isBraceLeft k && negb nb) = false /\ isString k = false /\ isDots k = false.
Proof.
  unfold pstop. intros H. apply negb_true_iff in H.
  repeat (apply orb_false_iff in H as [H ?]). auto 10.
Qed.

Lemma okf_pstop lv nb e R : lv <= 5 -> okf lv nb e R = true -> pstop nb (hdk R) = true.
Proof. intros Hl H. eapply stopl_pstop. eapply okf_stopl; eauto. Qed.

Lemma Pall_P0 nb e : Pall nb e -> lvl e = 0 -> P0 nb e. Proof. intros H; apply H. Qed.
Lemma Pall_P1 nb e : Pall nb e -> lvl e <= 1 -> P1 nb e. Proof. intros H; apply H. Qed.
Lemma Pall_P2 nb e : Pall nb e -> lvl e <= 2 -> P2 nb e. Proof. intros H; apply H. Qed.
Lemma Pall_P3 nb e : Pall nb e -> lvl e <= 3 -> P3 nb e. Proof. intros H; apply H. Qed.
Lemma Pall_P4 nb e : Pall nb e -> lvl e <= 4 -> P4 nb e. Proof. intros H; apply H. Qed.
Lemma Pall_P5 nb e : Pall nb e -> P5 nb e. Proof. intros H; apply H. Qed.
Lemma Pall_PC nb e : Pall nb e -> PC nb e. Proof. intros H; apply H. Qed.
Lemma Pall_PD nb e : Pall nb e -> PD nb e. Proof. intros H; apply H. Qed.

(* literals *)
Lemma primary_literal f nb t e R :
  literal_of t = Some e -> parse_primary (S f) nb (t :: R) = Some (e, R).
Proof.
  intros H. rewrite parse_primary_S. pose proof H as H'. unfold literal_of in H'.
  destruct (kind t) eqn:K; try discriminate H'; rewrite H; reflexivity.
Qed.

Lemma primary_literal_conv nb t e R :
  literal_of t = Some e -> conv (fun f => parse_primary f nb (t :: R)) (e, R).
Proof.
  intros H. eapply conv_step; [intro f; apply primary_literal; exact H|]. apply conv_ret.
Qed.

Lemma literal_bool (b : bool) : literal_of (mk KBool (if b then 1 else 0)%Z None []) = Some (EBool b).
Proof. destruct b; reflexivity. Qed.

Lemma literal_sint v t :
  (0 <= v)%Z -> (v <=? i128_max)%Z = true -> lit_type_ok_signed t = true ->
  literal_of (tk_sint v t) = Some (ESigned v t).
Proof.
  intros H0 Hm Ht. destruct t as [p|]; unfold literal_of, tk_sint; cbn [kind value vtype mk].
  - cbn [lit_type_ok_signed] in Ht. rewrite Ht, Hm. reflexivity.
  - rewrite Hm. reflexivity.
Qed.

Lemma literal_bits v t :
  lit_type_ok_bits v t = true -> literal_of (tk_bits v t) = Some (EBits v t).
Proof.
  intros Ht. destruct t as [p|]; [|reflexivity].
  destruct p; cbn [lit_type_ok_bits prim_signed] in Ht; try discriminate Ht;
    unfold literal_of, tk_bits; cbn [kind value vtype mk prim_signed andb]; try reflexivity;
    apply Z.ltb_lt in Ht; (replace (v <=? i128_max)%Z with false by (symmetry; apply Z.leb_gt; exact Ht));
    reflexivity.
Qed.

Lemma take_strings_stop R : isString (hdk R) = false -> take_strings R = ([], R).
Proof. destruct R as [|t r]; cbn [hdk take_strings]; [reflexivity|]. intros ->. reflexivity. Qed.

(* binary operators *)
Lemma bin_add nb op l r :
  op = Add \/ op = Subtract ->
  P4 nb l -> P3 nb r -> redge nb l (kind_of_binop op) = true -> P4 nb (EBinary op l r).
Proof.
  intros Hop Hl Hr Hrl R x Hok Hloop. cbn [print_expr]. appnorm.
  apply Hl.
  - apply okf_left; [exact Hrl|]. destruct Hop as [-> | ->]; destruct nb; reflexivity.
  - step add_loop_S.
    assert (Hokr : okf 3 nb r R = true).
    { eapply okf_trans; [exact Hok| |lia|lia]. destruct Hop as [-> | ->]; cbn [redge]; auto. }
    assert (Hm : mulop_of (hdk R) = None).
    { eapply stopl_mul; [|eapply okf_stopl; [|exact Hok]]; lia. }
    destruct Hop as [-> | ->]; tkred.
    + bind (Hr R (r, R) Hokr (mul_loop_stop nb r R Hm)). exact Hloop.
    + bind (Hr R (r, R) Hokr (mul_loop_stop nb r R Hm)). exact Hloop.
Qed.

Lemma bin_mul nb op l r :
  op = Multiply \/ op = Divide \/ op = Modulo ->
  P3 nb l -> P2 nb r -> redge nb l (kind_of_binop op) = true -> P3 nb (EBinary op l r).
Proof.
  intros Hop Hl Hr Hrl R x Hok Hloop. cbn [print_expr]. appnorm.
  apply Hl.
  - apply okf_left; [exact Hrl|]. destruct Hop as [-> | [-> | ->]]; destruct nb; reflexivity.
  - step mul_loop_S.
    assert (Hokr : okf 2 nb r R = true).
    { eapply okf_trans; [exact Hok| |lia|lia]. destruct Hop as [-> | [-> | ->]]; cbn [redge]; auto. }
    assert (Hm : isAs (hdk R) = false).
    { eapply stopl_as; [|eapply okf_stopl; [|exact Hok]]; lia. }
    destruct Hop as [-> | [-> | ->]]; tkred;
      (bind (Hr R (r, R) Hokr (as_loop_stop r R Hm)); exact Hloop).
Qed.

Lemma binop_eqb_eq a b : binop_eqb a b = true -> a = b.
Proof. destruct a, b; cbn; intros H; try discriminate; reflexivity. Qed.

Lemma same_bitop_self op : bitop_of (kind_of_binop op) = Some op ->
  same_bitop op (kind_of_binop op) = true.
Proof. intros H. destruct (bitop_cases op H) as [->|[->| ->]]; reflexivity. Qed.

Lemma bin_bit nb op l r :
  bitop_of (kind_of_binop op) = Some op ->
  PC nb l -> P1 nb r -> chain_ok op l = true -> redge nb l (kind_of_binop op) = true ->
  P5 nb (EBinary op l r) /\ PC nb (EBinary op l r).
Proof.
  intros Hop Hl Hr Hch Hrl. split.
  - intros R Hes. cbn [print_expr]. appnorm. apply Hl; auto.
    assert (Hes' : redge nb r (hdk R) = true /\ pstop nb (hdk R) = true /\ same_bitop op (hdk R) = false).
    { unfold estop in Hes. destruct (bitop_cases op Hop) as [->|[->| ->]];
        cbn [redge top_stop] in Hes; apply andb_prop in Hes as [H1 H2];
        apply andb_prop in H2 as [H2 H3]; apply negb_true_iff in H3; auto. }
    destruct Hes' as (H1 & H2 & H3).
    step bit_loop_S. bind (Hr R). { apply okf_left; [exact H1|]. now rewrite stopl_1. }
    rewrite H3. apply conv_ret.
  - intros op2 T x Hop2 Hch2 Hradv Hloop. cbn [chain_ok] in Hch2.
    apply binop_eqb_eq in Hch2. subst op2. cbn [print_expr]. appnorm. apply Hl; auto.
    step bit_loop_S. bind (Hr (tk (kind_of_binop op) :: T)).
    { apply okf_left.
      - destruct (bitop_cases op Hop) as [->|[->| ->]]; exact Hradv.
      - destruct (bitop_cases op Hop) as [->|[->| ->]]; destruct nb; reflexivity. }
    rewrite (same_bitop_self op Hop). exact Hloop.
Qed.

Lemma bin_shift nb op l r :
  op = ShiftLeft \/ op = ShiftRight ->
  P3 nb l -> P1 nb r -> is_binary l = false -> redge nb l (kind_of_binop op) = true ->
  P5 nb (EBinary op l r).
Proof.
  intros Hop Hl Hr Hnb Hrl R Hes. cbn [print_expr]. appnorm.
  assert (Hes' : redge nb r (hdk R) = true /\ pstop nb (hdk R) = true).
  { unfold estop in Hes. destruct Hop as [-> | ->]; cbn [redge top_stop] in Hes;
      apply andb_prop in Hes as [H1 H2]; auto. }
  destruct Hes' as (H1 & H2).
  step parse_addition_S.
  bind (Hl (tk (kind_of_binop op) :: print_expr r ++ R) (l, tk (kind_of_binop op) :: print_expr r ++ R)).
  - apply okf_left; [exact Hrl|]. destruct Hop as [-> | ->]; destruct nb; reflexivity.
  - apply mul_loop_stop. destruct Hop as [-> | ->]; reflexivity.
  - step add_loop_S. destruct Hop as [-> | ->]; tkred; rewrite Hnb;
      (bind (Hr R); [apply okf_left; [exact H1|now rewrite stopl_1]|apply conv_ret]).
Qed.

(* references as primary expressions *)
Lemma print_ref_succ d b steps :
  (1 <=? d)%N = true ->
  print_ref (Ref d b steps) = tk KAmpersand :: print_ref (Ref (N.pred d) b steps).
Proof.
  intros Hd. apply N.leb_le in Hd. cbn [print_ref].
  replace (N.to_nat d) with (S (N.to_nat (N.pred d))) by lia. reflexivity.
Qed.

Lemma amp_primary nb d b steps R x :
  Forall (step_P (W nb)) steps -> wf_ref nb (Ref d b steps) = true -> (1 <=? d)%N = true ->
  isBracketLeft (hdk R) = false -> isDot (hdk R) = false ->
  conv (fun f =>
          if isDots (hdk R) then
            match parse_addition f nb (tl R) with
            | Some (off, ts3) => Some (EBinary AdvancePointer (EDeref (Ref d b steps)) off, ts3)
            | None => None
            end
          else Some (EDeref (Ref d b steps), R)) x ->
  conv (fun f => parse_primary f nb (print_ref (Ref d b steps) ++ R)) x.
Proof.
  intros Hss Hwf Hd HB HD Hk. rewrite (print_ref_succ d b steps Hd). cbn [wf_ref] in Hwf.
  apply andb_prop in Hwf as [Hwf _]. apply andb_prop in Hwf as [Hd127 Hlen].
  pose proof Hd as Hd1. apply N.leb_le in Hd1. pose proof Hd127 as Hd2. apply N.leb_le in Hd2.
  appnorm. step parse_primary_S.
  bind (parse_reference_ok nb (N.pred d) b steps R Hss).
  - apply N.leb_le. lia.
  - exact Hlen.
  - exact HB.
  - exact HD.
  - replace (N.pred d + 1)%N with d by lia.
    assert (E : (MAX_ADDRESS_DEPTH <? d)%N = false) by (apply N.ltb_ge; exact Hd2).
    rewrite E. exact Hk.
Qed.

Lemma steps_hd nb steps R :
  pstop nb (hdk R) = true ->
  isParenLeft (hdk (flat_map print_step steps ++ R)) = false /\
  (isBraceLeft (hdk (flat_map print_step steps ++ R)) && negb nb) = false.
Proof.
  intros Hp. destruct steps as [|[e|m] ss]; cbn [flat_map print_step app hdk]; tkred; auto.
  destruct (pstop_inv _ _ Hp) as (_ & _ & H3 & H4 & _). auto.
Qed.

Lemma deref_P0 nb d b steps :
  Forall (step_P (W nb)) steps -> wf_ref nb (Ref d b steps) = true ->
  P0 nb (EDeref (Ref d b steps)).
Proof.
  intros Hss Hwf R Hok. apply okf_pstop in Hok; [|lia].
  destruct (pstop_inv _ _ Hok) as (HB & HD & HP & HBr & HS & HDots).
  cbn [print_expr]. destruct (1 <=? d)%N eqn:Ed.
  - apply amp_primary; auto. rewrite HDots. apply conv_ret.
  - apply N.leb_gt in Ed. assert (d = 0%N) by lia. subst d.
    cbn [print_ref N.to_nat repeat app]. step parse_primary_S.
    destruct (steps_hd nb steps R Hok) as [E1 E2]. rewrite E1, E2.
    cbn [wf_ref] in Hwf. apply andb_prop in Hwf as [Hwf _]. apply andb_prop in Hwf as [_ Hlen].
    apply Nat.leb_le in Hlen. unfold MAX_REFERENCE_DEPTH in Hlen.
    bind (steps_loop_ok nb steps Hss 0 R ltac:(lia) HB HD). crw_name. apply conv_ret.
Qed.

Lemma adv_P0 nb d b steps r :
  Forall (step_P (W nb)) steps -> wf_ref nb (Ref d b steps) = true -> (1 <=? d)%N = true ->
  P5 nb r ->
  P0 nb (EBinary AdvancePointer (EDeref (Ref d b steps)) r).
Proof.
  intros Hss Hwf Hd Hr R Hok. apply okf_redge in Hok. cbn [redge] in Hok.
  cbn [print_expr]. appnorm. apply amp_primary; auto. tkred.
  bind (Hr R Hok). apply conv_ret.
Qed.

(* calls, arrays, structural literals, parentheses *)
Lemma call_P0 nb b n args : Forall (W nb) args -> P0 nb (ECall b n args).
Proof.
  intros Hargs R Hok. cbn [print_expr]. appnorm. step parse_primary_S.
  destruct b; tkred.
  - bind (expr_list_sep nb false (tk KParenRight) R args eq_refl eq_refl (stop5_paren nb) Hargs).
    crw_name. apply conv_ret.
  - bind (expr_list_sep nb false (tk KParenRight) R args eq_refl eq_refl (stop5_paren nb) Hargs).
    crw_name. apply conv_ret.
Qed.

Lemma array_P0 nb es : Forall (W nb) es -> P0 nb (EArray es).
Proof.
  intros Hes R Hok. cbn [print_expr]. appnorm. step parse_primary_S.
  bind (expr_list_trail nb es R Hes). apply conv_ret.
Qed.

Lemma structural_P0 n ms :
  Forall (fun me => W false (snd me)) ms -> P0 false (EStructural n ms).
Proof.
  intros Hms R Hok. cbn [print_expr]. appnorm. step parse_primary_S.
  bind (members_loop_ok ms R Hms). crw_name. apply conv_ret.
Qed.

Lemma paren_P0 nb e : P5 nb e -> P0 nb (EParen e).
Proof.
  intros He R Hok. cbn [print_expr]. appnorm. step parse_primary_S.
  bind5 He stop_paren. apply conv_ret.
Qed.

Lemma string_P0 nb bs : P0 nb (EString bs).
Proof.
  intros R Hok. apply okf_pstop in Hok; [|lia].
  destruct (pstop_inv _ _ Hok) as (_ & _ & _ & _ & HS & _).
  cbn [print_expr app]. step parse_primary_S. rewrite (take_strings_stop R HS), app_nil_r.
  apply conv_ret.
Qed.

Lemma literal_P0 nb t e : literal_of t = Some e -> print_expr e = [t] -> P0 nb e.
Proof.
  intros Hlit Hpr R Hok. rewrite Hpr. cbn [app].
  eapply conv_step; [intro f; apply primary_literal; exact Hlit|]. apply conv_ret.
Qed.

(* unary level *)
Lemma neg_literal_P1 nb v t :
  (v <? 0)%Z = true -> (- i128_max <=? v)%Z = true -> lit_type_ok_signed t = true ->
  P1 nb (ESigned v t).
Proof.
  intros Hneg Hmin Ht R Hok. cbn [print_expr]. rewrite Hneg. cbn [app]. step parse_unary_S.
  apply Z.ltb_lt in Hneg. apply Z.leb_le in Hmin.
  assert (Hlit : literal_of (tk_sint (- v) t) = Some (ESigned (- v) t)).
  { apply literal_sint; [lia| apply Z.leb_le; lia | exact Ht]. }
  bind (primary_literal_conv nb _ _ R Hlit).
  replace (0 <? - v)%Z with true by (symmetry; apply Z.ltb_lt; lia).
  rewrite Z.opp_involutive. apply conv_ret.
Qed.

Lemma literal_min t :
  literal_of (tk_sint i128_min_abs t) = Some (EBits i128_min_abs t).
Proof. destruct t as [p|]; [destruct p|]; reflexivity. Qed.

(* -2^127: the printed magnitude is a bit literal, which `-` folds back. *)
Lemma min_literal_P1 nb t : P1 nb (ESigned (- i128_min_abs) t).
Proof.
  intros R Hok. cbn [print_expr]. change (- i128_min_abs <? 0)%Z with true. cbn [app].
  step parse_unary_S. rewrite Z.opp_involutive.
  bind (primary_literal_conv nb _ _ R (literal_min t)).
  change (i128_min_abs =? i128_min_abs)%Z with true. apply conv_ret.
Qed.

Lemma unary_P1 nb op e :
  P0 nb e -> (match op with Negative => negb (is_pos_signed e) | BitwiseComplement => true end) = true ->
  P1 nb (EUnary op e).
Proof.
  intros He Hop R Hok. cbn [print_expr]. cbn [app]. step parse_unary_S.
  assert (Hok0 : okf 0 nb e R = true) by (eapply okf_trans; [exact Hok|cbn [redge]; auto|lia|lia]).
  destruct op; tkred.
  - bind (He R Hok0). destruct e; try apply conv_ret;
      cbn [is_pos_signed] in Hop; apply negb_true_iff in Hop; rewrite Hop; apply conv_ret.
  - bind (He R Hok0). apply conv_ret.
Qed.

Lemma length_P1 nb d b steps :
  Forall (step_P (W nb)) steps -> wf_ref nb (Ref d b steps) = true ->
  P1 nb (ELength (Ref d b steps)).
Proof.
  intros Hss Hwf R Hok. cbn [wf_ref] in Hwf.
  apply andb_prop in Hwf as [Hwf _]. apply andb_prop in Hwf as [Hd Hlen].
  cbn [print_expr]. appnorm. step parse_unary_S.
  bind (parse_reference_ok nb d b steps (tk KPipe :: R) Hss Hd Hlen eq_refl eq_refl).
  apply conv_ret.
Qed.

Lemma sizeof_P1 nb t : ty_ok t = true -> P1 nb (ESizeOf t).
Proof.
  intros Ht R Hok. cbn [print_expr]. appnorm. step parse_unary_S.
  bind (parse_print_type t Ht (tk KPipe :: R)). apply conv_ret.
Qed.

(* casts *)
Lemma bitcast_P2 nb e : P1 nb e -> P2 nb (EBitCast e).
Proof.
  intros He R x Hok Hloop. cbn [print_expr app]. step parse_singular_S.
  bind (He R). { eapply okf_trans; [exact Hok|cbn [redge]; auto|lia|lia]. } exact Hloop.
Qed.

Lemma typecast_P2 nb e t : P2 nb e -> redge nb e KAs = true -> ty_ok t = true -> P2 nb (ETypeCast e t).
Proof.
  intros He Hre Ht R x Hok Hloop. cbn [print_expr]. appnorm. apply He.
  - apply okf_left; [exact Hre|]. destruct nb; reflexivity.
  - step as_loop_S. bind (parse_print_type t Ht R). exact Hloop.
Qed.

(* ------------------------------------------------------------------------- *)
(* Theorem 1: expressions                                                     *)
(* ------------------------------------------------------------------------- *)

Lemma Forall_W nb es :
  Forall (fun e => wf_expr nb e = true -> Pall nb e) es -> forallb (wf_expr nb) es = true ->
  Forall (W nb) es.
Proof.
  induction 1 as [|e es He _ IH]; intros Hwf; [constructor|].
  cbn [forallb] in Hwf. apply andb_prop in Hwf as [H1 H2].
  constructor; [split; [exact H1|apply Pall_P5; auto]|auto].
Qed.

Lemma Forall_W_steps nb steps :
  Forall (step_P (fun e => wf_expr nb e = true -> Pall nb e)) steps ->
  forallb (wf_step nb) steps = true ->
  Forall (step_P (W nb)) steps.
Proof.
  induction 1 as [|s ss Hs _ IH]; intros Hwf; [constructor|].
  cbn [forallb] in Hwf. apply andb_prop in Hwf as [H1 H2].
  constructor; [|auto]. destruct s as [e|m]; [|exact I].
  cbn [step_P wf_step] in *. split; [exact H1|apply Pall_P5; auto].
Qed.

Lemma Forall_W_members ms :
  Forall (fun me : name * expr => wf_expr false (snd me) = true -> Pall false (snd me)) ms ->
  forallb (fun me : name * expr => let '(_, e) := me in wf_expr false e) ms = true ->
  Forall (fun me => W false (snd me)) ms.
Proof.
  induction 1 as [|[m e] ms He _ IH]; intros Hwf; [constructor|].
  cbn [forallb] in Hwf. apply andb_prop in Hwf as [H1 H2]. cbn [snd] in *.
  constructor; [split; [exact H1|apply Pall_P5; auto]|auto].
Qed.

Lemma PC_vac nb op' l r :
  (forall op, bitop_of (kind_of_binop op) = Some op -> binop_eqb op op' = false) ->
  PC nb (EBinary op' l r).
Proof.
  intros H op T x Hop Hch. cbn [chain_ok] in Hch. rewrite (H op Hop) in Hch. discriminate.
Qed.

Ltac vac_pc :=
  intros _; apply PC_vac;
  let op := fresh "op" in let H := fresh "H" in
  intros op H; destruct (bitop_cases op H) as [->|[->| ->]]; reflexivity.

Ltac wrong_lvl :=
  let HL := fresh "HL" in intros HL; cbn [lvl] in HL; (discriminate HL || lia).

Ltac split_wf H :=
  repeat match type of H with
         | (_ && _)%bool = true =>
             let H1 := fresh "Hw" in let H2 := fresh "Hw" in
             apply andb_prop in H as [H1 H2]; try split_wf H1; try split_wf H2
         end.

Theorem expr_all nb : forall e, wf_expr nb e = true -> Pall nb e.
Proof.
  induction e as [op l r IHl IHr|op e IHe|b|v t|v t|bs|es IHes|n ms IHms|e IHe|d b steps IHs
                 |e IHe|e t IHe|d b steps IHs|t|b n args IHargs] using expr_ind2;
    intros Hwf; pose proof Hwf as Hwf0; cbn [wf_expr] in Hwf.
  - (* EBinary *)
    apply andb_prop in Hwf as [Hwf Hop]. apply andb_prop in Hwf as [Hwl Hwr].
    specialize (IHl Hwl). specialize (IHr Hwr).
    destruct op; split_wf Hop;
      repeat match goal with
             | H : (_ <=? _)%nat = true |- _ => apply Nat.leb_le in H
             | H : negb _ = true |- _ => apply negb_true_iff in H
             end.
    + (* Add *) apply Pall_build; try exact Hwf0; try wrong_lvl; try exact I; [|vac_pc].
      intros _. apply bin_add; auto; [apply Pall_P4|apply Pall_P3]; auto.
    + (* Subtract *) apply Pall_build; try exact Hwf0; try wrong_lvl; try exact I; [|vac_pc].
      intros _. apply bin_add; auto; [apply Pall_P4|apply Pall_P3]; auto.
    + (* Multiply *) apply Pall_build; try exact Hwf0; try wrong_lvl; try exact I; [|vac_pc].
      intros _. apply bin_mul; auto; [apply Pall_P3|apply Pall_P2]; auto.
    + apply Pall_build; try exact Hwf0; try wrong_lvl; try exact I; [|vac_pc].
      intros _. apply bin_mul; auto; [apply Pall_P3|apply Pall_P2]; auto.
    + apply Pall_build; try exact Hwf0; try wrong_lvl; try exact I; [|vac_pc].
      intros _. apply bin_mul; auto 6; [apply Pall_P3|apply Pall_P2]; auto.
    + (* BitwiseAnd *)
      destruct (bin_bit nb BitwiseAnd l r eq_refl (Pall_PC _ _ IHl) (Pall_P1 _ _ IHr ltac:(lia)))
        as [H5 HC]; auto.
      apply Pall_build; try exact Hwf0; try wrong_lvl; try exact I; auto.
    + destruct (bin_bit nb BitwiseOr l r eq_refl (Pall_PC _ _ IHl) (Pall_P1 _ _ IHr ltac:(lia)))
        as [H5 HC]; auto.
      apply Pall_build; try exact Hwf0; try wrong_lvl; try exact I; auto.
    + destruct (bin_bit nb BitwiseXor l r eq_refl (Pall_PC _ _ IHl) (Pall_P1 _ _ IHr ltac:(lia)))
        as [H5 HC]; auto.
      apply Pall_build; try exact Hwf0; try wrong_lvl; try exact I; auto.
    + (* ShiftLeft *) apply Pall_build; try exact Hwf0; try wrong_lvl; try exact I; [|vac_pc].
      intros _. apply bin_shift; auto; [apply Pall_P3|apply Pall_P1]; auto; lia.
    + apply Pall_build; try exact Hwf0; try wrong_lvl; try exact I; [|vac_pc].
      intros _. apply bin_shift; auto; [apply Pall_P3|apply Pall_P1]; auto; lia.
    + (* AdvancePointer *)
      destruct l as [| | | | | | | | |[d b steps]| | | | |]; try discriminate Hop.
      apply Pall_build; try exact Hwf0; try wrong_lvl; try exact I; [|vac_pc].
      intros _. apply adv_P0; auto.
      * exact (Pall_PD _ _ IHl).
      * apply Pall_P5; exact IHr.
  - (* EUnary *)
    apply andb_prop in Hwf as [Hwf Hop]. apply andb_prop in Hwf as [Hwe Hl].
    apply Nat.eqb_eq in Hl. specialize (IHe Hwe).
    apply Pall_build; try exact Hwf0; try wrong_lvl; try exact I; try discriminate.
    intros _. apply unary_P1; [apply Pall_P0; auto|exact Hop].
  - (* EBool *)
    apply Pall_build; try exact Hwf0; try wrong_lvl; try exact I; try discriminate.
    intros _. eapply literal_P0; [apply literal_bool|reflexivity].
  - (* ESigned *)
    apply orb_prop in Hwf as [Hwf|Hwf].
    2: { (* i128::MIN *)
      apply andb_prop in Hwf as [Hv Ht]. apply Z.eqb_eq in Hv. subst v.
      apply Pall_build; try exact Hwf0; try exact I; try discriminate;
        try (intros HL; cbn [lvl] in HL; discriminate HL).
      intros _. apply min_literal_P1. }
    split_wf Hwf. destruct (v <? 0)%Z eqn:Eneg.
    + apply Pall_build; try exact Hwf0; try exact I; try discriminate;
        try (intros HL; cbn [lvl] in HL; rewrite Eneg in HL; discriminate HL).
      intros _. apply neg_literal_P1; auto.
    + apply Pall_build; try exact Hwf0; try exact I; try discriminate;
        try (intros HL; cbn [lvl] in HL; rewrite Eneg in HL; discriminate HL).
      intros _. eapply literal_P0.
      * apply literal_sint; eauto. apply Z.ltb_ge in Eneg. exact Eneg.
      * cbn [print_expr]. rewrite Eneg. reflexivity.
  - (* EBits *)
    split_wf Hwf.
    apply Pall_build; try exact Hwf0; try wrong_lvl; try exact I; try discriminate.
    intros _. eapply literal_P0; [apply literal_bits; eauto|reflexivity].
  - (* EString *)
    apply Pall_build; try exact Hwf0; try wrong_lvl; try exact I; try discriminate.
    intros _. apply string_P0.
  - (* EArray *)
    apply Pall_build; try exact Hwf0; try wrong_lvl; try exact I; try discriminate.
    intros _. apply array_P0. now apply Forall_W.
  - (* EStructural *)
    apply andb_prop in Hwf as [Hnb Hms]. apply negb_true_iff in Hnb. subst nb.
    apply Pall_build; try exact Hwf0; try wrong_lvl; try exact I; try discriminate.
    intros _. apply structural_P0. now apply Forall_W_members.
  - (* EParen *)
    specialize (IHe Hwf).
    apply Pall_build; try exact Hwf0; try wrong_lvl; try exact I; try discriminate.
    intros _. apply paren_P0. now apply Pall_P5.
  - (* EDeref *)
    assert (Hss : Forall (step_P (W nb)) steps).
    { apply Forall_W_steps; [exact IHs|]. cbn [wf_ref] in Hwf. now apply andb_prop in Hwf as [_ Hwf]. }
    apply Pall_build; try exact Hwf0; try wrong_lvl; try exact Hss; try discriminate.
    intros _. now apply deref_P0.
  - (* EBitCast *)
    apply andb_prop in Hwf as [Hwe Hl]. apply Nat.leb_le in Hl. specialize (IHe Hwe).
    apply Pall_build; try exact Hwf0; try wrong_lvl; try exact I; try discriminate.
    intros _. apply bitcast_P2. now apply Pall_P1.
  - (* ETypeCast *)
    split_wf Hwf. specialize (IHe ltac:(assumption)).
    repeat match goal with
           | H : (_ <=? _)%nat = true |- _ => apply Nat.leb_le in H
           | H : negb _ = true |- _ => apply negb_true_iff in H
           end.
    apply Pall_build; try exact Hwf0; try wrong_lvl; try exact I; try discriminate.
    intros _. apply typecast_P2; auto. now apply Pall_P2.
  - (* ELength *)
    assert (Hss : Forall (step_P (W nb)) steps).
    { apply Forall_W_steps; [exact IHs|]. cbn [wf_ref] in Hwf. now apply andb_prop in Hwf as [_ Hwf]. }
    apply Pall_build; try exact Hwf0; try wrong_lvl; try exact I; try discriminate.
    intros _. now apply length_P1.
  - (* ESizeOf *)
    apply Pall_build; try exact Hwf0; try wrong_lvl; try exact I; try discriminate.
    intros _. now apply sizeof_P1.
  - (* ECall *)
    apply Pall_build; try exact Hwf0; try wrong_lvl; try exact I; try discriminate.
    intros _. apply call_P0. now apply Forall_W.
Qed.

(* [estop nb e k]: the token k does not continue the expression e (see the Model). *)
Theorem parse_print_expr_nb nb e R :
  wf_expr nb e = true -> estop nb e (hdk R) = true ->
  conv (fun f => parse_addition f nb (print_expr e ++ R)) (e, R).
Proof. intros Hwf Hs. exact (Pall_P5 _ _ (expr_all nb e Hwf) R Hs). Qed.

(* THEOREM 1.  [stop_expr false R]: the first token of R is none of
     [ . ( { "string" ..   + - * / % & | ^ << >> as
   (end of input is fine). *)
Theorem parse_print_expr e R :
  wf_expr false e = true -> stop_expr false R = true ->
  exists n, forall fuel, n <= fuel -> parse_expr fuel (print_expr e ++ R) = Some (e, R).
Proof. intros Hwf Hs. exact (parse_print_expr_nb false e R Hwf (stopl5_estop _ _ _ Hs)). Qed.

Lemma W_of_wf nb e : wf_expr nb e = true -> W nb e.
Proof. intros H. split; [exact H|]. intros R Hs. now apply parse_print_expr_nb. Qed.

Lemma Forall_W_of_wf nb es : forallb (wf_expr nb) es = true -> Forall (W nb) es.
Proof.
  induction es as [|e es IH]; intros H; [constructor|].
  cbn [forallb] in H. apply andb_prop in H as [H1 H2]. constructor; [now apply W_of_wf|auto].
Qed.

Lemma steps_W_of_wf nb steps : forallb (wf_step nb) steps = true -> Forall (step_P (W nb)) steps.
Proof.
  induction steps as [|s ss IH]; intros H; [constructor|].
  cbn [forallb] in H. apply andb_prop in H as [H1 H2]. constructor; [|auto].
  destruct s; [now apply W_of_wf|exact I].
Qed.

Theorem parse_print_reference nb r R :
  wf_ref nb r = true -> isBracketLeft (hdk R) = false -> isDot (hdk R) = false ->
  conv (fun f => parse_reference f nb (print_ref r ++ R)) (r, R).
Proof.
  destruct r as [d b steps]. intros Hwf HB HD. cbn [wf_ref] in Hwf.
  apply andb_prop in Hwf as [Hwf Hss]. apply andb_prop in Hwf as [Hd Hl].
  apply parse_reference_ok; auto. now apply steps_W_of_wf.
Qed.

(* ------------------------------------------------------------------------- *)
(* Theorem 2b: statements                                                     *)
(* ------------------------------------------------------------------------- *)

Section stmt_ind2.
  Variable P : stmt -> Prop.
  Hypothesis HVar : forall n t v, P (StVar n t v).
  Hypothesis HAssign : forall r v, P (StAssign r v).
  Hypothesis HCall : forall b n args, P (StCall b n args).
  Hypothesis HLoop : P StLoop.
  Hypothesis HGoto : forall l, P (StGoto l).
  Hypothesis HLabel : forall l, P (StLabel l).
  Hypothesis HIf1 : forall op l r th, P th -> P (StIf op l r th None).
  Hypothesis HIf2 : forall op l r th el, P th -> P el -> P (StIf op l r th (Some el)).
  Hypothesis HBlock : forall ss, Forall P ss -> P (StBlock ss).
  Fixpoint stmt_ind2 (s : stmt) : P s :=
    match s with
    | StVar n t v => HVar n t v
    | StAssign r v => HAssign r v
    | StCall b n args => HCall b n args
    | StLoop => HLoop
    | StGoto l => HGoto l
    | StLabel l => HLabel l
    | StIf op l r th None => HIf1 op l r th (stmt_ind2 th)
    | StIf op l r th (Some el) => HIf2 op l r th el (stmt_ind2 th) (stmt_ind2 el)
    | StBlock ss => HBlock ss ((fix go (l : list stmt) : Forall P l :=
                                  match l with
                                  | [] => Forall_nil P
                                  | x :: xs => Forall_cons x (stmt_ind2 x) (go xs)
                                  end) ss)
    end.
End stmt_ind2.

Definition sstart (k : tkind) : bool :=
  match k with
  | KBraceLeft | KIf | KLoop | KGoto | KVar | KIdentifier | KBuiltin | KAmpersand => true
  | _ => false
  end.

Lemma stmt_first s X : hdk (print_stmt s ++ X) = first_kind_stmt s.
Proof.
  destruct s; cbn [print_stmt first_kind_stmt]; try reflexivity.
  - destruct r as [d b steps]. cbn [print_ref]. destruct d as [|p].
    + reflexivity.
    + destruct (N.to_nat (N.pos p)) eqn:E; [lia|]. reflexivity.
  - unfold print_args. destruct builtin; reflexivity.
Qed.

Lemma first_kind_sstart s : sstart (first_kind_stmt s) = true.
Proof.
  destruct s; cbn [first_kind_stmt]; try reflexivity.
  - destruct r as [d b steps]. destruct (d =? 0)%N; reflexivity.
  - destruct builtin; reflexivity.
Qed.

Lemma sstart_facts k : sstart k = true -> isElse k = false /\ isBraceRight k = false.
Proof. destruct k; cbn; intros H; try discriminate H; auto. Qed.

Lemma stmt_first_facts s X :
  isElse (hdk (print_stmt s ++ X)) = false /\ isBraceRight (hdk (print_stmt s ++ X)) = false.
Proof. rewrite stmt_first. apply sstart_facts. apply first_kind_sstart. Qed.

Ltac bindE Hwf lem :=
  eapply conv_bind; [eapply parse_print_expr_nb; [exact Hwf | apply lem] | ]; tkred.

Lemma assign_tail_ok v X :
  wf_expr false v = true ->
  conv (fun f => parse_assign_tail f (tk KAssignment :: print_expr v ++ tk KSemicolon :: X)) (v, X).
Proof.
  intros Hv. unfold parse_assign_tail. tkred.
  bindE Hv stop_semicolon. apply conv_ret.
Qed.

Lemma parse_arguments_ok args X :
  forallb (wf_expr false) args = true ->
  conv (fun f => parse_arguments f (tk KParenLeft :: print_sep print_expr args ++ tk KParenRight :: X))
       (args, X).
Proof.
  intros Hargs. unfold parse_arguments. tkred.
  bind (expr_list_sep false false (tk KParenRight) X args eq_refl eq_refl (stop5_paren false)
          (Forall_W_of_wf _ _ Hargs)).
  apply conv_ret.
Qed.

Lemma parse_addressed_reference_ok nb d b steps R :
  wf_ref nb (Ref d b steps) = true -> (1 <=? d)%N = true ->
  isBracketLeft (hdk R) = false -> isDot (hdk R) = false ->
  conv (fun f => parse_addressed_reference f nb (print_ref (Ref (N.pred d) b steps) ++ R))
       (Ref d b steps, R).
Proof.
  intros Hr Ed HB HD. unfold parse_addressed_reference.
  cbn [wf_ref] in Hr. apply andb_prop in Hr as [Hr Hss]. apply andb_prop in Hr as [Hd Hlen].
  apply N.leb_le in Ed. pose proof Hd as Hd2. apply N.leb_le in Hd2.
  bind (parse_reference_ok nb (N.pred d) b steps R (steps_W_of_wf _ _ Hss)).
  - apply N.leb_le. lia.
  - exact Hlen.
  - exact HB.
  - exact HD.
  - replace (N.pred d + 1)%N with d by lia.
    assert (E : (MAX_ADDRESS_DEPTH <? d)%N = false) by (apply N.ltb_ge; exact Hd2).
    rewrite E. apply conv_ret.
Qed.

Definition PS (s : stmt) : Prop :=
  wf_stmt s = true ->
  forall R, (open_if s = true -> isElse (hdk R) = false) ->
  conv (fun f => parse_statement f (print_stmt s ++ R)) (s, R).

Lemma block_loop_ok ss R :
  Forall PS ss -> forallb wf_stmt ss = true ->
  conv (fun f => block_loop f (flat_map print_stmt ss ++ tk KBraceRight :: R)) (ss, R).
Proof.
  induction 1 as [|s ss Hs _ IH]; intros Hwf.
  - cbn [flat_map app]. step block_loop_S. apply conv_ret.
  - cbn [forallb] in Hwf. apply andb_prop in Hwf as [Hw1 Hw2]. cbn [flat_map]. appnorm.
    step block_loop_S.
    destruct (stmt_first_facts s (flat_map print_stmt ss ++ tk KBraceRight :: R)) as [_ Hbr].
    rewrite Hbr.
    bind (Hs Hw1).
    { intros _. destruct ss as [|s2 ss2]; [reflexivity|].
      cbn [flat_map]. appnorm. apply stmt_first_facts. }
    bind (IH Hw2). apply conv_ret.
Qed.

Lemma steps_hd_assign steps X :
  isColon (hdk (flat_map print_step steps ++ tk KAssignment :: X)) = false /\
  isParenLeft (hdk (flat_map print_step steps ++ tk KAssignment :: X)) = false.
Proof. destruct steps as [|[e|m] ss]; cbn [flat_map print_step app hdk]; tkred; auto. Qed.

Lemma cmp_stop op e X : estop true e (hdk (tk (kind_of_cmpop op) :: X)) = true.
Proof. apply stopl5_estop. destruct op; reflexivity. Qed.

Lemma cmpop_of_kind op : cmpop_of (kind_of_cmpop op) = Some op.
Proof. destruct op; reflexivity. Qed.

Lemma parse_comparison_ok op l r X :
  wf_expr true l = true -> wf_expr true r = true -> estop true r (hdk X) = true ->
  conv (fun f => parse_comparison f (print_expr l ++ tk (kind_of_cmpop op) :: print_expr r ++ X))
       ((op, l, r), X).
Proof.
  intros Hl Hr HX. unfold parse_comparison.
  bindE Hl cmp_stop. rewrite cmpop_of_kind.
  bind (parse_print_expr_nb true r X Hr HX). apply conv_ret.
Qed.

Theorem stmt_all : forall s, PS s.
Proof.
  induction s as [n t v|r v|b n args| |l|l|op l r th IHth|op l r th el IHth IHel|ss IHss]
    using stmt_ind2; intros Hwf R Hfollow; cbn [wf_stmt] in Hwf.
  - (* StVar *)
    apply andb_prop in Hwf as [Ht Hv]. cbn [print_stmt]. appnorm. step parse_statement_S.
    destruct t as [t|], v as [v|]; cbn [opt_ok] in Ht, Hv; cbn [app]; appnorm; tkred.
    + eapply conv_bind; [bind (parse_print_type t Ht); apply conv_ret|]; tkred.
      eapply conv_bind; [bindE Hv stop_semicolon; apply conv_ret|]; tkred.
      crw_name. apply conv_ret.
    + eapply conv_bind; [bind (parse_print_type t Ht); apply conv_ret|]; tkred.
      crw_name. apply conv_ret.
    + eapply conv_bind; [bindE Hv stop_semicolon; apply conv_ret|]; tkred.
      crw_name. apply conv_ret.
    + crw_name. apply conv_ret.
  - (* StAssign *)
    apply andb_prop in Hwf as [Hr Hv]. destruct r as [d b steps]. cbn [print_stmt]. appnorm.
    destruct (1 <=? d)%N eqn:Ed.
    + rewrite (print_ref_succ d b steps Ed). appnorm. step parse_statement_S.
      bind (parse_addressed_reference_ok false d b steps
              (tk KAssignment :: print_expr v ++ tk KSemicolon :: R) Hr Ed eq_refl eq_refl).
      bind (assign_tail_ok v R Hv). apply conv_ret.
    + apply N.leb_gt in Ed. assert (d = 0%N) by lia. subst d.
      cbn [print_ref N.to_nat repeat app]. appnorm. step parse_statement_S.
      destruct (steps_hd_assign steps (print_expr v ++ tk KSemicolon :: R)) as [E1 E2].
      rewrite E1, E2.
      cbn [wf_ref] in Hr. apply andb_prop in Hr as [Hr Hss]. apply andb_prop in Hr as [_ Hlen].
      apply Nat.leb_le in Hlen. unfold MAX_REFERENCE_DEPTH in Hlen.
      bind (steps_loop_ok false steps (steps_W_of_wf _ _ Hss) 0
              (tk KAssignment :: print_expr v ++ tk KSemicolon :: R) ltac:(lia) eq_refl eq_refl).
      bind (assign_tail_ok v R Hv). crw_name. apply conv_ret.
  - (* StCall *)
    cbn [print_stmt]. unfold print_args. appnorm. step parse_statement_S. destruct b; tkred.
    + bind (parse_arguments_ok args (tk KSemicolon :: R) Hwf). crw_name. apply conv_ret.
    + bind (parse_arguments_ok args (tk KSemicolon :: R) Hwf). crw_name. apply conv_ret.
  - cbn [print_stmt app]. step parse_statement_S. apply conv_ret.
  - cbn [print_stmt app]. step parse_statement_S. crw_name. apply conv_ret.
  - cbn [print_stmt app]. step parse_statement_S. crw_name. apply conv_ret.
  - (* StIf without else *)
    split_wf Hwf. cbn [print_stmt]. rewrite app_nil_r. appnorm. step parse_statement_S.
    bind (parse_comparison_ok op l r (print_stmt th ++ R)); try assumption.
    { now rewrite stmt_first. }
    bind (IHth ltac:(assumption) R). { intros _. apply Hfollow. reflexivity. }
    rewrite (Hfollow eq_refl). apply conv_ret.
  - (* StIf with else *)
    split_wf Hwf. cbn [print_stmt]. appnorm. step parse_statement_S.
    match goal with H : negb (open_if th) = true |- _ => apply negb_true_iff in H; rename H into Hopen end.
    bind (parse_comparison_ok op l r (print_stmt th ++ tk KElse :: print_stmt el ++ R)); try assumption.
    { now rewrite stmt_first. }
    bind (IHth ltac:(assumption) (tk KElse :: print_stmt el ++ R)).
    { intros Ho. rewrite Hopen in Ho. discriminate Ho. }
    bind (IHel ltac:(assumption) R). { intros Ho. apply Hfollow. exact Ho. }
    apply conv_ret.
  - (* StBlock *)
    cbn [print_stmt]. appnorm. step parse_statement_S.
    bind (block_loop_ok ss R IHss Hwf). apply conv_ret.
Qed.

(* THEOREM 2b.  A statement ending in an `if` without `else` must not be followed by `else`. *)
Theorem parse_print_stmt s R :
  wf_stmt s = true -> (open_if s = true -> isElse (hdk R) = false) ->
  exists n, forall fuel, n <= fuel -> parse_statement fuel (print_stmt s ++ R) = Some (s, R).
Proof. intros Hwf Hf. exact (stmt_all s Hwf R Hf). Qed.

(* ------------------------------------------------------------------------- *)
(* Theorem 2c: function bodies, declarations, modules                         *)
(* ------------------------------------------------------------------------- *)

Lemma estart_not_else k : estart k = true -> isElse k = false.
Proof. destruct k; cbn; intros H; try discriminate H; reflexivity. Qed.

Definition print_rv (rv : option expr) : list tok :=
  match rv with Some e => print_expr e | None => [] end.

Lemma body_tail_not_else rest rv R :
  opt_ok (wf_expr false) rv = true ->
  isElse (hdk (flat_map print_stmt rest ++ print_rv rv ++ tk KBraceRight :: R)) = false.
Proof.
  intros Hrv. destruct rest as [|s2 rest2].
  - cbn [flat_map app]. destruct rv as [e|]; cbn [print_rv]; [|reflexivity].
    apply estart_not_else. apply starts_hdk. apply (print_start false e Hrv).
  - cbn [flat_map]. appnorm.
    apply stmt_first_facts.
Qed.

Lemma body_loop_ok ss : forall rv R,
  forallb wf_stmt ss = true -> opt_ok (wf_expr false) rv = true ->
  body_shape ss (match rv with Some _ => true | None => false end) = true ->
  conv (fun f => body_loop f (flat_map print_stmt ss ++ print_rv rv ++ tk KBraceRight :: R))
       ((ss, rv), R).
Proof.
  induction ss as [|s rest IH]; intros rv R Hwf Hrv Hshape.
  - cbn [body_shape] in Hshape. destruct rv; [discriminate Hshape|].
    cbn [flat_map print_rv app]. step body_loop_S. apply conv_ret.
  - cbn [forallb] in Hwf. apply andb_prop in Hwf as [Hw1 Hw2]. cbn [flat_map]. appnorm.
    step body_loop_S.
    destruct (stmt_first_facts s (flat_map print_stmt rest ++ print_rv rv ++ tk KBraceRight :: R))
      as [_ Hbr].
    rewrite Hbr.
    bind (stmt_all s Hw1). { intros _. now apply body_tail_not_else. }
    cbn [body_shape] in Hshape. destruct (is_return_label s) eqn:Eret.
    + apply andb_prop in Hshape as [Hhas Hrest]. destruct rest; [|discriminate Hrest].
      destruct rv as [e|]; [|discriminate Hhas]. cbn [flat_map print_rv app opt_ok] in *.
      destruct (estart_not_close _ (starts_hdk estart _ (tk KBraceRight :: R) (print_start false e Hrv)))
        as (_ & _ & E3).
      rewrite E3. bindE Hrv stop_brace. apply conv_ret.
    + bind (IH rv R Hw2 Hrv Hshape). apply conv_ret.
Qed.

Lemma parse_typed_name_ok n t X :
  ty_ok t = true ->
  conv (fun f => parse_typed_name f (tk_id n :: tk KColon :: print_type t ++ X)) ((n, t), X).
Proof.
  intros Ht. unfold parse_typed_name. tkred. bind (parse_print_type t Ht X).
  crw_name. apply conv_ret.
Qed.

Lemma typed_names_sep_cons R : forall xs x,
  wf_typed_name x = true -> forallb wf_typed_name xs = true ->
  conv (fun f => typed_names f false
                   (print_typed_name x ++ flat_map (fun y => tk KComma :: print_typed_name y) xs
                    ++ tk KParenRight :: R))
       (x :: xs, tk KParenRight :: R).
Proof.
  induction xs as [|y ys IH]; intros [n t] Hx Hxs; unfold wf_typed_name in Hx; cbn [snd] in Hx.
  - cbn [flat_map app print_typed_name]. step typed_names_S.
    bind (parse_typed_name_ok n t (tk KParenRight :: R) Hx). apply conv_ret.
  - cbn [forallb] in Hxs. apply andb_prop in Hxs as [Hy Hys].
    cbn [flat_map print_typed_name]. appnorm. step typed_names_S.
    bind (parse_typed_name_ok n t). { exact Hx. }
    bind (IH y Hy Hys). apply conv_ret.
Qed.

Lemma typed_names_sep ps R :
  forallb wf_typed_name ps = true ->
  conv (fun f => typed_names f false (print_sep print_typed_name ps ++ tk KParenRight :: R))
       (ps, tk KParenRight :: R).
Proof.
  intros Hps. destruct ps as [|x xs].
  - cbn [print_sep app]. step typed_names_S. apply conv_ret.
  - cbn [forallb] in Hps. apply andb_prop in Hps as [Hx Hxs]. cbn [print_sep]. appnorm.
    now apply typed_names_sep_cons.
Qed.

Lemma typed_names_trail ms R :
  forallb wf_typed_name ms = true ->
  conv (fun f => typed_names f true
                   (flat_map (fun m => print_typed_name m ++ [tk KComma]) ms ++ tk KBraceRight :: R))
       (ms, tk KBraceRight :: R).
Proof.
  induction ms as [|[n t] ms IH]; intros Hms.
  - cbn [flat_map app]. step typed_names_S. apply conv_ret.
  - cbn [forallb] in Hms. apply andb_prop in Hms as [Hx Hxs].
    unfold wf_typed_name in Hx; cbn [snd] in Hx.
    cbn [flat_map print_typed_name]. appnorm. step typed_names_S.
    bind (parse_typed_name_ok n t). { exact Hx. }
    bind (IH Hxs). apply conv_ret.
Qed.

Lemma parse_struct_members_ok ms R :
  forallb wf_typed_name ms = true ->
  conv (fun f => parse_struct_members f
                   (tk KBraceLeft :: flat_map (fun m => print_typed_name m ++ [tk KComma]) ms
                    ++ tk KBraceRight :: R))
       (ms, R).
Proof.
  intros Hms. unfold parse_struct_members. tkred. bind (typed_names_trail ms R Hms). apply conv_ret.
Qed.

Lemma parse_declaration_flags f pub ext X :
  isPub (hdk X) = false -> isExtern (hdk X) = false ->
  parse_declaration f (print_flags pub ext ++ X) = parse_declaration_rest f pub ext X.
Proof.
  intros Hp He. unfold parse_declaration, print_flags.
  destruct pub, ext; cbn [app hdk tl kind tk mk isPub isExtern]; rewrite ?Hp, ?He; reflexivity.
Qed.

Lemma decl_rest_ok d : wf_decl d = true ->
  match d with
  | DImport bs => forall R,
      conv (fun f => parse_declaration f (print_decl d ++ R)) (d, R)
  | DConst pub ext _ _ _ | DFn pub ext _ _ _ _ | DStruct pub ext _ _ _ => forall R,
      exists X, print_decl d ++ R = print_flags pub ext ++ X /\
                isPub (hdk X) = false /\ isExtern (hdk X) = false /\
                conv (fun f => parse_declaration_rest f pub ext X) (d, R)
  end.
Proof.
  intros Hwf. destruct d as [bs|pub ext n t v|pub ext n ps ret body|pub ext k n ms];
    cbn [wf_decl] in Hwf; intros R.
  - (* import *)
    cbn [print_decl app]. unfold parse_declaration. tkred. unfold parse_declaration_rest. tkred.
    rewrite Hwf. apply conv_ret.
  - (* const *)
    apply andb_prop in Hwf as [Ht Hv]. cbn [print_decl]. appnorm. eexists. split; [reflexivity|].
    split; [reflexivity|]. split; [reflexivity|].
    unfold parse_declaration_rest. tkred.
    bind (parse_typed_name_ok n t). { exact Ht. }
    bind (assign_tail_ok v R Hv). apply conv_ret.
  - (* fn *)
    apply andb_prop in Hwf as [Hwf Hbody]. apply andb_prop in Hwf as [Hps Hret].
    cbn [print_decl]. appnorm. eexists. split; [reflexivity|].
    split; [reflexivity|]. split; [reflexivity|].
    unfold parse_declaration_rest. tkred.
    bind (typed_names_sep ps). { exact Hps. }
    destruct ret; cbn [is_tvoid app]; tkred;
      try (bind (parse_print_type); [exact Hret|]);
      (destruct body as [[ss rv]|]; cbn [print_body app]; appnorm; tkred;
       [ cbn [opt_ok wf_body] in Hbody; apply andb_prop in Hbody as [Hb Hshape];
         apply andb_prop in Hb as [Hss Hrv];
         bind (body_loop_ok ss rv R Hss Hrv Hshape); crw_name; apply conv_ret
       | crw_name; apply conv_ret ]).
  - (* struct / word *)
    apply andb_prop in Hwf as [Hms Hk]. cbn [print_decl]. appnorm. eexists. split; [reflexivity|].
    assert (Hkind : isPub (kind_of_skind k) = false /\ isExtern (kind_of_skind k) = false)
      by (destruct k; split; reflexivity).
    destruct Hkind as [Hk1 Hk2]. tkred. split; [exact Hk1|]. split; [exact Hk2|].
    unfold parse_declaration_rest.
    destruct k; tkred; appnorm; tkred.
    + bind (parse_struct_members_ok ms R Hms). crw_name. apply conv_ret.
    + destruct ms; [|discriminate Hk]. crw_name. apply conv_ret.
    + bind (parse_struct_members_ok ms R Hms). crw_name. apply conv_ret.
    + bind (parse_struct_members_ok ms R Hms). crw_name. apply conv_ret.
    + bind (parse_struct_members_ok ms R Hms). crw_name. apply conv_ret.
    + bind (parse_struct_members_ok ms R Hms). crw_name. apply conv_ret.
    + bind (parse_struct_members_ok ms R Hms). crw_name. apply conv_ret.
Qed.

(* THEOREM 2c. *)
Theorem parse_print_decl d R :
  wf_decl d = true -> conv (fun f => parse_declaration f (print_decl d ++ R)) (d, R).
Proof.
  intros Hwf. pose proof (decl_rest_ok d Hwf) as H. destruct d.
  - apply H.
  - destruct (H R) as (X & -> & Hp & He & Hc).
    eapply conv_ext; [intro f; apply parse_declaration_flags; assumption|exact Hc].
  - destruct (H R) as (X & -> & Hp & He & Hc).
    eapply conv_ext; [intro f; apply parse_declaration_flags; assumption|exact Hc].
  - destruct (H R) as (X & -> & Hp & He & Hc).
    eapply conv_ext; [intro f; apply parse_declaration_flags; assumption|exact Hc].
Qed.

Lemma print_decl_nonempty d : exists t r, print_decl d = t :: r.
Proof.
  destruct d as [bs|pub ext n t v|pub ext n ps ret body|pub ext k n ms]; cbn [print_decl];
    try (destruct pub, ext; cbn [print_flags app]; eexists _, _; reflexivity).
  eexists _, _; reflexivity.
Qed.

Lemma decls_loop_ok ds :
  wf_module ds = true ->
  exists n, forall f i, n <= f -> n <= i -> decls_loop f i (print_module ds) = Some ds.
Proof.
  unfold wf_module, print_module. induction ds as [|d ds IH]; intros Hwf.
  - exists 1. intros f i Hf _. destruct f; [lia|reflexivity].
  - cbn [forallb] in Hwf. apply andb_prop in Hwf as [Hd Hds].
    destruct (IH Hds) as [n Hn].
    destruct (parse_print_decl d (flat_map print_decl ds) Hd) as [m Hm].
    exists (S (Nat.max n m)). intros f i Hf Hi. destruct f as [|f]; [lia|].
    cbn [flat_map]. rewrite decls_loop_S.
    destruct (print_decl_nonempty d) as (t & r & Et).
    destruct (print_decl d ++ flat_map print_decl ds) eqn:E; [rewrite Et in E; discriminate E|].
    rewrite Hm by lia. rewrite Hn by lia. reflexivity.
Qed.

(* THEOREM 2d. *)
Theorem parse_print_module ds :
  wf_module ds = true ->
  exists n, forall fuel, n <= fuel -> parse_module fuel (print_module ds) = Some ds.
Proof.
  intros Hwf. destruct (decls_loop_ok ds Hwf) as [n Hn]. exists n. intros fuel Hf.
  unfold parse_module. now apply Hn.
Qed.

(* THEOREM 3. *)
Corollary print_parse_idempotent ds :
  wf_module ds = true ->
  exists n, forall fuel, n <= fuel ->
    option_map print_module (parse_module fuel (print_module ds)) = Some (print_module ds).
Proof.
  intros Hwf. destruct (parse_print_module ds Hwf) as [n Hn]. exists n. intros fuel Hf.
  now rewrite Hn.
Qed.

(* ------------------------------------------------------------------------- *)
(* Examples (vm_compute)                                                      *)
(* ------------------------------------------------------------------------- *)

Module Examples.
  Import Coq.Strings.String.StringSyntax.
  Local Open Scope N_scope.
  Definition a := tk_id 1. Definition b := tk_id 2. Definition c := tk_id 3. Definition x := tk_id 4.
  Definition va := EDeref (Ref 0 1 []). Definition vb := EDeref (Ref 0 2 []).
  Definition vc := EDeref (Ref 0 3 []). Definition vx := EDeref (Ref 0 4 []).
  Definition semi := tk KSemicolon.
  Definition num (v : Z) := mk KNakedDecimal v None [].
  Definition i32 := tk_type (TyPrim Int32).
  Definition u8 := tk_type (TyPrim Uint8).

  (* a - b - c = (a - b) - c *)
  Example ex_sub_left_assoc :
    parse_expr 20 [a; tk KMinus; b; tk KMinus; c; semi]
    = Some (EBinary Subtract (EBinary Subtract va vb) vc, [semi]).
  Proof. vm_compute. reflexivity. Qed.

  (* a * b + c = (a * b) + c ;  a + b * c = a + (b * c) *)
  Example ex_mul_add :
    parse_expr 20 [a; tk KTimes; b; tk KPlus; c; semi]
    = Some (EBinary Add (EBinary Multiply va vb) vc, [semi]).
  Proof. vm_compute. reflexivity. Qed.
  Example ex_add_mul :
    parse_expr 20 [a; tk KPlus; b; tk KTimes; c; semi]
    = Some (EBinary Add va (EBinary Multiply vb vc), [semi]).
  Proof. vm_compute. reflexivity. Qed.

  (* a / b % c = (a / b) % c *)
  Example ex_div_mod :
    parse_expr 20 [a; tk KDivide; b; tk KModulo; c; semi]
    = Some (EBinary Modulo (EBinary Divide va vb) vc, [semi]).
  Proof. vm_compute. reflexivity. Qed.

  (* a << b ; a << b << c stops after the first shift (the caller then fails on `<<`) *)
  Example ex_shift :
    parse_expr 20 [a; tk KShiftLeft; b; semi] = Some (EBinary ShiftLeft va vb, [semi]).
  Proof. vm_compute. reflexivity. Qed.
  Example ex_shift_no_chain :
    parse_expr 20 [a; tk KShiftLeft; b; tk KShiftLeft; c; semi]
    = Some (EBinary ShiftLeft va vb, [tk KShiftLeft; c; semi]).
  Proof. vm_compute. reflexivity. Qed.

  (* a & b & c = (a & b) & c ; mixing needs parentheses *)
  Example ex_and_chain :
    parse_expr 20 [a; tk KAmpersand; b; tk KAmpersand; c; semi]
    = Some (EBinary BitwiseAnd (EBinary BitwiseAnd va vb) vc, [semi]).
  Proof. vm_compute. reflexivity. Qed.
  Example ex_and_or_rejected :
    parse_statement 20 [x; tk KAssignment; a; tk KAmpersand; b; tk KPipe; c; semi] = None.
  Proof. vm_compute. reflexivity. Qed.
  Example ex_add_and_rejected :
    parse_expr 20 [a; tk KPlus; b; tk KAmpersand; c; semi] = None.
  Proof. vm_compute. reflexivity. Qed.
  Example ex_and_add_rejected :
    parse_statement 20 [x; tk KAssignment; a; tk KAmpersand; b; tk KPlus; c; semi] = None.
  Proof. vm_compute. reflexivity. Qed.
  Example ex_and_paren :
    parse_expr 20 [a; tk KAmpersand; tk KParenLeft; b; tk KPipe; c; tk KParenRight; semi]
    = Some (EBinary BitwiseAnd va (EParen (EBinary BitwiseOr vb vc)), [semi]).
  Proof. vm_compute. reflexivity. Qed.

  (* unary minus folds into a decimal literal; otherwise it is a Unary node; the operand is
     a PRIMARY expression: `- - 5`, `-|a|`, `!!a` are syntax errors *)
  Example ex_neg_literal : parse_expr 20 [tk KMinus; num 5; semi] = Some (ESigned (-5) None, [semi]).
  Proof. vm_compute. reflexivity. Qed.
  Example ex_neg_zero :
    parse_expr 20 [tk KMinus; num 0; semi] = Some (EUnary Negative (ESigned 0 None), [semi]).
  Proof. vm_compute. reflexivity. Qed.
  Example ex_neg_var : parse_expr 20 [tk KMinus; a; semi] = Some (EUnary Negative va, [semi]).
  Proof. vm_compute. reflexivity. Qed.
  Example ex_neg_neg : parse_expr 20 [tk KMinus; tk KMinus; num 5; semi] = None.
  Proof. vm_compute. reflexivity. Qed.
  Example ex_neg_length : parse_expr 20 [tk KMinus; tk KPipe; a; tk KPipe; semi] = None.
  Proof. vm_compute. reflexivity. Qed.
  Example ex_a_minus_5 :
    parse_expr 20 [a; tk KMinus; num 5; semi] = Some (EBinary Subtract va (ESigned 5 None), [semi]).
  Proof. vm_compute. reflexivity. Qed.
  Example ex_a_minus_minus_5 :
    parse_expr 20 [a; tk KMinus; tk KMinus; num 5; semi]
    = Some (EBinary Subtract va (ESigned (-5) None), [semi]).
  Proof. vm_compute. reflexivity. Qed.
  (* 2^127 does not fit i128: bit literal; 5u8 is a bit literal, 5i32 a signed one *)
  Example ex_big_decimal :
    parse_expr 20 [num (2 ^ 127); semi] = Some (EBits (2 ^ 127) None, [semi]).
  Proof. vm_compute. reflexivity. Qed.
  Example ex_suffixes :
    parse_expr 20 [tk KBracketLeft; mk KSuffixedInteger 5 (Some (TyPrim Uint8)) []; tk KComma;
                   mk KSuffixedInteger 5 (Some (TyPrim Int32)) []; tk KBracketRight; semi]
    = Some (EArray [EBits 5 (Some Uint8); ESigned 5 (Some Int32)], [semi]).
  Proof. vm_compute. reflexivity. Qed.

  (* i128::MIN (commit 4639ff7): `-` folds a bit literal of value 2^127, keeping its suffix *)
  Example ex_neg_min :
    parse_expr 20 [tk KMinus; mk KSuffixedInteger (2 ^ 127) (Some (TyPrim Int128)) []; semi]
    = Some (ESigned (- 2 ^ 127) (Some Int128), [semi]).
  Proof. vm_compute. reflexivity. Qed.
  Example ex_neg_min_hex_u8 :
    parse_expr 20 [tk KMinus; mk KBitInteger (2 ^ 127) None []; tk KPlus; tk KMinus;
                   mk KSuffixedInteger (2 ^ 127) (Some (TyPrim Uint8)) []; semi]
    = Some (EBinary Add (ESigned (- 2 ^ 127) None) (ESigned (- 2 ^ 127) (Some Uint8)), [semi]).
  Proof. vm_compute. reflexivity. Qed.
  Example ex_neg_min_roundtrip :
    parse_expr 20 (print_expr (ESigned (- 2 ^ 127) (Some Uint8)) ++ [semi])
    = Some (ESigned (- 2 ^ 127) (Some Uint8), [semi]).
  Proof. vm_compute. reflexivity. Qed.

  (* casts bind tighter than `*`; `cast` applies to the unary expression only *)
  Example ex_casts :
    parse_expr 20 [tk KCast; a; tk KAs; i32; tk KAs; u8; tk KTimes; b; semi]
    = Some (EBinary Multiply (ETypeCast (ETypeCast (EBitCast va) (TPrim Int32)) (TPrim Uint8)) vb,
            [semi]).
  Proof. vm_compute. reflexivity. Qed.
  Example ex_as_after_and_rejected :
    parse_statement 20 [x; tk KAssignment; a; tk KAmpersand; b; tk KAs; i32; semi] = None.
  Proof. vm_compute. reflexivity. Qed.

  (* `&x .. offset` is a primary expression whose offset is a whole expression *)
  Example ex_advance :
    parse_expr 20 [tk KAmpersand; x; tk KDots; a; tk KPlus; b; semi]
    = Some (EBinary AdvancePointer (EDeref (Ref 1 4 [])) (EBinary Add va vb), [semi]).
  Proof. vm_compute. reflexivity. Qed.
  Example ex_advance_then_cast :
    parse_expr 20 [tk KAmpersand; x; tk KDots; a; tk KAmpersand; b; tk KAs; i32; semi]
    = Some (ETypeCast (EBinary AdvancePointer (EDeref (Ref 1 4 [])) (EBinary BitwiseAnd va vb))
                      (TPrim Int32), [semi]).
  Proof. vm_compute. reflexivity. Qed.

  (* adjacent string literals are concatenated; trailing commas are accepted *)
  Example ex_strings :
    parse_expr 20 [tk_id 9; tk KParenLeft; mk KStringLiteral 0 None [65]; mk KStringLiteral 0 None [66];
                   tk KComma; tk KParenRight; semi]
    = Some (ECall false 9 [EString [65; 66]], [semi]).
  Proof. vm_compute. reflexivity. Qed.

  (* structural literal, field-init shorthand *)
  Example ex_structural :
    parse_expr 20 [tk_id 9; tk KBraceLeft; tk_id 1; tk KComma; tk_id 2; tk KColon; num 7; tk KBraceRight; semi]
    = Some (EStructural 9 [(1, va); (2, ESigned 7 None)], [semi]).
  Proof. vm_compute. reflexivity. Qed.

  (* `if`: the brace after the condition starts the then-branch, never a structural literal,
     not even inside parentheses or call arguments *)
  Example ex_if_brace :
    parse_statement 20 [tk KIf; a; tk KEquals; b; tk KBraceLeft; tk KBraceRight; semi]
    = Some (StIf Equals va vb (StBlock []) None, [semi]).
  Proof. vm_compute. reflexivity. Qed.
  Example ex_if_structural_in_parens_rejected :
    parse_statement 30 [tk KIf; a; tk KEquals; tk KParenLeft; b; tk KBraceLeft; tk KBraceRight;
                        tk KParenRight; tk KBraceLeft; tk KBraceRight] = None.
  Proof. vm_compute. reflexivity. Qed.
  (* `==` exists only in the condition of an `if` *)
  Example ex_equals_not_expr : parse_expr 20 [a; tk KEquals; b; semi] = Some (va, [tk KEquals; b; semi]).
  Proof. vm_compute. reflexivity. Qed.
  (* dangling else goes to the inner if *)
  Example ex_dangling_else :
    parse_statement 30 [tk KIf; a; tk KEquals; b; tk KIf; b; tk KAngleLeft; c; tk KLoop; semi;
                        tk KElse; tk KGoto; x; semi]
    = Some (StIf Equals va vb (StIf IsLess vb vc StLoop (Some (StGoto 4))) None, []).
  Proof. vm_compute. reflexivity. Qed.
  (* a then-branch starting with `&` continues the comparison *)
  Example ex_then_amp_rejected :
    parse_statement 30 [tk KIf; a; tk KEquals; b; tk KAmpersand; x; tk KAssignment; num 1; semi] = None.
  Proof. vm_compute. reflexivity. Qed.

  (* types *)
  Example ex_types :
    parse_wellformed_type 20 [tk KAmpersand; tk KBracketLeft; tk KBracketRight; tk KBracketLeft; num 3;
                              tk KBracketRight; tk_id 7; semi]
    = Some (TPointer (TArraylike (TArray 3 (TNamed 7))), [semi]).
  Proof. vm_compute. reflexivity. Qed.
  Example ex_type_slice_of_slice_illformed :
    parse_wellformed_type 20 [tk KBracketLeft; tk KColon; tk KBracketRight; tk KBracketLeft; tk KColon;
                              tk KBracketRight; u8; semi] = None.
  Proof. vm_compute. reflexivity. Qed.
  Example ex_type_len_truncated :
    parse_wellformed_type 20 [tk KBracketLeft; num (2 ^ 64 + 3); tk KBracketRight; u8]
    = Some (TArray 3 (TPrim Uint8), []).
  Proof. vm_compute. reflexivity. Qed.

  (* the `return: value` convention *)
  Example ex_return :
    parse_module 30 [tk KFn; tk_id 5; tk KParenLeft; tk KParenRight; tk KArrow; i32; tk KBraceLeft;
                     tk_id name_return; tk KColon; a; tk KPlus; num 1; tk KBraceRight]
    = Some [DFn false false 5 [] (TPrim Int32)
              (Some ([StLabel name_return], Some (EBinary Add va (ESigned 1 None))))].
  Proof. vm_compute. reflexivity. Qed.
  Example ex_return_semicolon_rejected :
    parse_module 30 [tk KFn; tk_id 5; tk KParenLeft; tk KParenRight; tk KArrow; i32; tk KBraceLeft;
                     tk_id name_return; tk KColon; a; semi; tk KBraceRight] = None.
  Proof. vm_compute. reflexivity. Qed.
  (* flags on an import are accepted and dropped *)
  Example ex_pub_import :
    parse_module 30 [tk KPub; tk KImport; mk KStringLiteral 0 None [97]; semi] = Some [DImport [97]].
  Proof. vm_compute. reflexivity. Qed.

  (* one whole small module: well-formed, parses back from its printed tokens *)
  Definition m1 : list decl :=
    [DFn true false 5 [(1, TPrim Int32); (2, TSlice (TPrim Uint8))] (TPrim Int32)
       (Some ([StVar 3 (Some (TPrim Int32))
                 (Some (EBinary Add va (EBinary Multiply (ESigned (-2) None)
                                          (ECall false 7 [vb; EString [104; 105]]))));
               StIf IsLess vc (ESigned 0 None)
                 (StBlock [StAssign (Ref 0 3 [RsElement va; RsMember 9]) (EArray [va; vb]); StGoto 0])
                 (Some (StCall true 8 []));
               StAssign (Ref 2 3 []) (EBinary BitwiseOr (EBinary BitwiseOr va (EUnary BitwiseComplement vb))
                                                        (ELength (Ref 0 2 [])));
               StLabel name_return],
              Some (EStructural 4 [(1, va); (2, EParen (EBinary ShiftLeft va (ESizeOf (TNamed 4))))])));
     DImport [97; 98];
     DStruct false true SkOpaque 4 [];
     DStruct true false SkWord32 6 [(1, TPrim Uint8); (2, TArray 3 (TPrim Uint8))];
     DConst false false 9 (TPointer (TArraylike (TNamed 4))) (ETypeCast (EBitCast va) (TPrim Usize));
     DFn false true 10 [] TVoid None].

  Example ex_m1_wf : wf_module m1 = true.
  Proof. vm_compute. reflexivity. Qed.
  Example ex_m1_roundtrip : parse_module 40 (print_module m1) = Some m1.
  Proof. vm_compute. reflexivity. Qed.
  Example ex_show :
    show_module [DConst true false 9 (TArray 2 (TPrim Uint8)) (EArray [EBits 255 None; EBits 97 (Some Char8)])]
    = s2l "(const (flags pub) n9 (array 2 u8) (arr (bits 255 _) (bits 97 char8)))" ++ [10].
  Proof. vm_compute. reflexivity. Qed.

  (* trees outside the range of the parser do not parse back *)
  Example ex_not_wf :
    wf_expr false (EBinary Multiply (EBinary Add va vb) vc) = false /\
    parse_expr 20 (print_expr (EBinary Multiply (EBinary Add va vb) vc) ++ [semi])
    = Some (EBinary Add va (EBinary Multiply vb vc), [semi]).
  Proof. split; vm_compute; reflexivity. Qed.
End Examples.

Print Assumptions parse_print_type.
Print Assumptions parse_print_expr.
Print Assumptions parse_print_stmt.
Print Assumptions parse_print_decl.
Print Assumptions parse_print_module.
Print Assumptions print_parse_idempotent.
