(* Proofs about PV.Model.AssignSteps: the typer elaborates the target of an assignment
   the way it elaborates a read (within MAX_ADDRESS_DEPTH = 127 Pointer / View layers per
   step and away from Arraylike), where it does not, and what CallFrame.elab_assign has to
   do with it.  No axioms. *)
From PV Require Import Base.Common Model.TypeLegal Model.Autoderef Model.AssignSteps
     Proofs.AutoderefProofs.
From PV Require Gen.Limits.
From PV Require Model.MemLower Model.CallFrame.

(* ======================================================================= *)
(* 1. The bounded stripping                                                   *)
(* ======================================================================= *)

Lemma strip_all_snd : forall t, snd (strip_all t) = fully_dereferenced t.
Proof. induction t; cbn [strip_all fully_dereferenced snd]; auto. Qed.

Lemma strip_bounded_all : forall fuel t,
  (ptr_run t <= fuel)%nat -> strip_bounded fuel t = strip_all t.
Proof.
  induction fuel as [|fuel IH]; intros t Hle.
  - destruct t; cbn [ptr_run] in Hle; try lia; reflexivity.
  - destruct t; cbn [strip_bounded strip_all]; try reflexivity;
      cbn [ptr_run] in Hle; rewrite IH by lia; reflexivity.
Qed.

(* more layers than the bound: a Pointer / View is left on top, which has no element *)
Lemma strip_bounded_long : forall fuel t,
  (fuel < ptr_run t)%nat -> get_element_type (snd (strip_bounded fuel t)) = None.
Proof.
  induction fuel as [|fuel IH]; intros t Hlt.
  - destruct t; cbn [ptr_run] in Hlt; try lia; reflexivity.
  - destruct t; cbn [ptr_run] in Hlt; try lia; cbn [strip_bounded snd]; apply IH; lia.
Qed.

Lemma strip_bounded_long_shape : forall fuel t,
  (fuel < ptr_run t)%nat ->
  match snd (strip_bounded fuel t) with VPointer _ | VView _ => True | _ => False end.
Proof.
  induction fuel as [|fuel IH]; intros t Hlt.
  - destruct t; cbn [ptr_run] in Hlt; try lia; exact I.
  - destruct t; cbn [ptr_run] in Hlt; try lia; cbn [strip_bounded snd]; apply IH; lia.
Qed.

Lemma strip_bounded_length : forall fuel t, (length (fst (strip_bounded fuel t)) <= fuel)%nat.
Proof.
  induction fuel as [|fuel IH]; intros t; [cbn; lia|].
  destruct t; cbn [strip_bounded fst length]; try lia; specialize (IH t); lia.
Qed.

Lemma fd_not_ptr t :
  match fully_dereferenced t with VPointer _ | VView _ => False | _ => True end.
Proof. induction t; cbn [fully_dereferenced]; auto. Qed.

Lemma fd_idem t : fully_dereferenced (fully_dereferenced t) = fully_dereferenced t.
Proof. induction t; cbn [fully_dereferenced]; auto. Qed.

Lemma no_arraylike_fd t : no_arraylike t = true -> no_arraylike (fully_dereferenced t) = true.
Proof. induction t; cbn [fully_dereferenced no_arraylike]; auto. Qed.

Lemma no_arraylike_elem t e :
  no_arraylike t = true -> get_element_type t = Some e -> no_arraylike e = true.
Proof. destruct t; cbn [get_element_type no_arraylike]; try discriminate; intros H [= <-]; exact H. Qed.

Lemma runs_ok_fd p : forall t, runs_ok p t = true -> runs_ok p (fully_dereferenced t) = true.
Proof.
  induction t; cbn [fully_dereferenced]; auto; intros H; apply IHt;
    apply (runs_ok_sub _ _ H).
Qed.

Lemma runs_ok_elem p t e :
  runs_ok p t = true -> get_element_type t = Some e -> runs_ok p e = true.
Proof.
  intros H; pose proof (runs_ok_sub _ _ H) as Hs.
  destruct t; cbn [get_element_type]; try discriminate; intros [= <-]; exact Hs.
Qed.

Lemma runs_ok_mono p q : (p <= q)%nat -> forall t, runs_ok p t = true -> runs_ok q t = true.
Proof.
  intros Hpq. induction t; cbn [runs_ok]; intros H; apply andb_true_iff in H as [H1 H2];
    apply andb_true_iff; (split; [apply Nat.leb_le; apply Nat.leb_le in H1; lia|]); auto.
Qed.

(* away from Arraylike the read side, too, removes every layer in front of an Element *)
Lemma strip_for_element_all : forall t,
  no_arraylike t = true -> strip_for_element t = strip_all t.
Proof.
  induction t; cbn [no_arraylike]; intros H; try reflexivity.
  - cbn [strip_for_element strip_all]. rewrite <- (IHt H).
    destruct t; try reflexivity. discriminate H.
  - cbn [strip_for_element strip_all]. rewrite <- (IHt H).
    destruct t; try reflexivity. discriminate H.
Qed.

Lemma asg_cons_app a b r : asg_cons (a ++ b) r = asg_cons a (asg_cons b r).
Proof. destruct r; cbn [asg_cons]; [now rewrite app_assoc|reflexivity]. Qed.

Lemma asg_cons_at pre r taken ct :
  asg_cons pre r = AsgAt taken ct -> exists tk, r = AsgAt tk ct /\ taken = pre ++ tk.
Proof. destruct r; cbn [asg_cons]; [|discriminate]. intros [= <- <-]. eauto. Qed.

Lemma asg_cons_panic pre r s : asg_cons pre r = AsgPanic s <-> r = AsgPanic s.
Proof. destruct r; cbn [asg_cons]; split; intros H; try discriminate H; exact H. Qed.

(* ======================================================================= *)
(* 2. Totality: when is an `unreachable!()` reached?                          *)
(* ======================================================================= *)

Section Assign.
Variable mt : N -> option vt.
Variable p : nat.                      (* the bound, MAX_ADDRESS_DEPTH *)

(* On a reference that get_type_of_reference accepted (whatever the sizes of its types):
   the second `unreachable!()` (:2240/:2241) is never reached, and the first (:2206) is
   reached exactly when some Element step meets more than [p] Pointer / View layers. *)
Theorem assign_panic_iff_fuel : forall steps t x s,
  ref_final mt (fully_dereferenced t) steps = Some x ->
  (assign_loop_fuel mt p t steps = AsgPanic s
   <-> s = 1%N /\ element_run_too_long mt p t steps = true).
Proof.
  induction steps as [|a rest IH]; intros t x s H.
  - cbn [assign_loop_fuel element_run_too_long]. split; [discriminate|intros [_ F]; discriminate F].
  - destruct a as [ie|m].
    + cbn [ref_final] in H.
      destruct (get_element_type (fully_dereferenced t)) as [e|] eqn:Ee; [|discriminate H].
      cbn [assign_loop_fuel element_run_too_long]. rewrite Ee.
      destruct (Nat.ltb p (ptr_run t)) eqn:Elt.
      * apply Nat.ltb_lt in Elt. rewrite (strip_bounded_long _ _ Elt). cbn [orb].
        split; [intros [= <-]; auto|intros [-> _]; reflexivity].
      * apply Nat.ltb_ge in Elt. rewrite (strip_bounded_all _ _ Elt), strip_all_snd, Ee.
        cbn [orb]. rewrite asg_cons_panic. apply (IH e x s H).
    + cbn [ref_final] in H.
      destruct (mt m) as [t'|] eqn:Em;
        [|destruct (fully_dereferenced t); discriminate H].
      assert (Hr : ref_final mt (fully_dereferenced t') rest = Some x)
        by (destruct (fully_dereferenced t); try discriminate H; exact H).
      cbn [assign_loop_fuel element_run_too_long]. rewrite Em, asg_cons_panic.
      apply (IH t' x s Hr).
Qed.

(* ... and when it is not, the type reached is the one get_type_of_reference computed *)
Lemma assign_final_fuel : forall steps t x taken ct,
  ref_final mt (fully_dereferenced t) steps = Some x ->
  assign_loop_fuel mt p t steps = AsgAt taken ct ->
  fully_dereferenced ct = x.
Proof.
  induction steps as [|a rest IH]; intros t x taken ct H Ha.
  - cbn in H, Ha. injection H as <-. injection Ha as <- <-. reflexivity.
  - destruct a as [ie|m].
    + cbn [ref_final] in H.
      destruct (get_element_type (fully_dereferenced t)) as [e|] eqn:Ee; [|discriminate H].
      cbn [assign_loop_fuel] in Ha.
      destruct (Nat.ltb p (ptr_run t)) eqn:Elt.
      * apply Nat.ltb_lt in Elt. rewrite (strip_bounded_long _ _ Elt) in Ha. discriminate Ha.
      * apply Nat.ltb_ge in Elt.
        rewrite (strip_bounded_all _ _ Elt), strip_all_snd, Ee in Ha.
        apply asg_cons_at in Ha as (tk & Ha & _). apply (IH e x tk ct H Ha).
    + cbn [ref_final] in H.
      destruct (mt m) as [t'|] eqn:Em;
        [|destruct (fully_dereferenced t); discriminate H].
      assert (Hr : ref_final mt (fully_dereferenced t') rest = Some x)
        by (destruct (fully_dereferenced t); try discriminate H; exact H).
      cbn [assign_loop_fuel] in Ha. rewrite Em in Ha.
      apply asg_cons_at in Ha as (tk & Ha & _). apply (IH t' x tk ct Hr Ha).
Qed.

Hypothesis Hmt_runs : forall m t, mt m = Some t -> runs_ok p t = true.

Lemma runs_not_too_long : forall steps t,
  runs_ok p t = true -> element_run_too_long mt p t steps = false.
Proof.
  induction steps as [|a rest IH]; intros t Hok; [reflexivity|].
  destruct a as [ie|m]; cbn [element_run_too_long].
  - pose proof (runs_ok_run _ _ Hok) as Hr.
    replace (Nat.ltb p (ptr_run t)) with false by (symmetry; apply Nat.ltb_ge; exact Hr).
    cbn [orb].
    destruct (get_element_type (fully_dereferenced t)) as [e|] eqn:Ee; [|reflexivity].
    apply IH. eapply runs_ok_elem; [apply runs_ok_fd; exact Hok|exact Ee].
  - destruct (mt m) as [t'|] eqn:Em; [|reflexivity]. apply IH. eapply Hmt_runs, Em.
Qed.

Theorem assign_total_fuel steps t x :
  ref_final mt (fully_dereferenced t) steps = Some x ->
  runs_ok p t = true ->
  exists taken ct, assign_loop_fuel mt p t steps = AsgAt taken ct /\ fully_dereferenced ct = x.
Proof.
  intros H Hok.
  destruct (assign_loop_fuel mt p t steps) as [taken ct|s] eqn:Ea.
  - exists taken, ct. split; [reflexivity|]. eapply assign_final_fuel; eassumption.
  - apply (assign_panic_iff_fuel steps t x s H) in Ea as [_ Ea].
    rewrite (runs_not_too_long steps t Hok) in Ea. discriminate Ea.
Qed.

(* ======================================================================= *)
(* 3. Agreement with the read side                                            *)
(* ======================================================================= *)

Hypothesis Hmt_na : forall m t, mt m = Some t -> no_arraylike t = true.

(* whenever the (budget-free) read-side walk gets through, the assignment side takes the
   same steps and stops at the same type *)
Lemma walk_then_assign : forall steps t taken ct,
  no_arraylike t = true ->
  runs_ok p t = true ->
  walk mt t steps = LoopDone taken ct [] ->
  assign_loop_fuel mt p t steps = AsgAt taken ct.
Proof.
  induction steps as [|a rest IH]; intros t taken ct Hna Hok Hw.
  - cbn in Hw. injection Hw as <- <-. reflexivity.
  - destruct a as [ie|m].
    + cbn [walk] in Hw. rewrite (strip_for_element_all _ Hna) in Hw.
      cbn [assign_loop_fuel]. rewrite (strip_bounded_all p t (runs_ok_run _ _ Hok)).
      rewrite strip_all_snd in *.
      pose proof (fd_not_ptr t) as Hnp.
      pose proof (no_arraylike_fd _ Hna) as Hna'.
      pose proof (runs_ok_fd _ _ Hok) as Hok'.
      revert Hw. generalize (fst (strip_all t)). intros l Hw.
      apply loop_cons_done in Hw as (tk & Hw & ->).
      destruct (fully_dereferenced t) as [k|e n|e c|e|e|e|e|i|i n|i|d|d];
        try contradiction; try discriminate Hw; try discriminate Hna';
        apply loop_cons_done in Hw as (tk2 & Hw & ->);
        cbn [no_arraylike] in Hna'; apply runs_ok_sub in Hok';
        cbn [get_element_type snd];
        rewrite (IH _ _ _ Hna' Hok' Hw);
        cbn [deslice_of element_is_endless asg_cons app];
        rewrite <- ?app_assoc; reflexivity.
    + cbn [walk] in Hw. cbn [assign_loop_fuel].
      rewrite (strip_bounded_all p t (runs_ok_run _ _ Hok)).
      rewrite strip_all_snd in *.
      revert Hw. generalize (fst (strip_all t)). intros l Hw.
      apply loop_cons_done in Hw as (tk & Hw & ->).
      destruct (fully_dereferenced t) as [k|e n|e c|e|e|e|e|i|i n|i|d|d];
        try discriminate Hw;
        (destruct (mt m) as [t'|] eqn:Em; [|discriminate Hw]);
        apply loop_cons_done in Hw as (tk2 & Hw & ->);
        rewrite (IH _ _ _ (Hmt_na _ _ Em) (Hmt_runs _ _ Em) Hw);
        cbn [asg_cons app]; rewrite <- ?app_assoc; reflexivity.
Qed.

Theorem assign_is_walk steps t x :
  ref_final mt (fully_dereferenced t) steps = Some x ->
  no_arraylike t = true ->
  runs_ok p t = true ->
  exists taken ct,
    walk mt t steps = LoopDone taken ct [] /\
    assign_loop_fuel mt p t steps = AsgAt taken ct /\
    fully_dereferenced ct = x.
Proof.
  intros H Hna Hok.
  destruct (walk_fits mt steps t x H) as (taken & ct & Hw & Hfd).
  exists taken, ct. split; [exact Hw|split; [|exact Hfd]].
  apply walk_then_assign; assumption.
Qed.

End Assign.

(* ======================================================================= *)
(* 4. The statements at the bound of the code                                 *)
(* ======================================================================= *)

Lemma max_address_depth_nat_Z : Z.of_nat max_address_depth_nat = 127%Z.
Proof.
  unfold max_address_depth_nat. rewrite Z2Nat.id; [reflexivity|].
  unfold Limits.max_address_depth. lia.
Qed.

Lemma bound_le_run_limit : (max_address_depth_nat <= run_limit)%nat.
Proof.
  apply Nat2Z.inj_le. rewrite max_address_depth_nat_Z, run_limit_Z. lia.
Qed.

(* the limits of the assignment side: no run of Pointer / View constructors longer than
   MAX_ADDRESS_DEPTH = 127.  ([types_within] of AutoderefProofs allows 128.) *)
Definition types_within_assign (mt : N -> option vt) (known : vt) : Prop :=
  runs_ok max_address_depth_nat known = true /\
  forall m t, mt m = Some t -> runs_ok max_address_depth_nat t = true.

Definition arraylike_free (mt : N -> option vt) (known : vt) : Prop :=
  no_arraylike known = true /\
  forall m t, mt m = Some t -> no_arraylike t = true.

Lemma types_within_assign_within mt known :
  types_within_assign mt known -> types_within mt known.
Proof.
  intros [Hk Hm]. split.
  - eapply runs_ok_mono; [apply bound_le_run_limit|exact Hk].
  - intros m t Em. eapply runs_ok_mono; [apply bound_le_run_limit|eapply Hm, Em].
Qed.

(* -- totality ------------------------------------------------------------------------ *)

Theorem assign_panic_iff mt known steps s :
  fits mt known steps = true ->
  (assign_loop mt known steps = AsgPanic s
   <-> s = 1%N /\ element_run_too_long mt max_address_depth_nat known steps = true).
Proof.
  unfold fits. intros H.
  destruct (ref_final mt (fully_dereferenced known) steps) as [x|] eqn:Ex; [|discriminate H].
  apply (assign_panic_iff_fuel mt max_address_depth_nat steps known x s Ex).
Qed.

Corollary assignment_steps_panic_iff mt known steps ad s :
  fits mt known steps = true ->
  (assignment_steps mt known steps ad = APanic s
   <-> s = 1%N /\ element_run_too_long mt max_address_depth_nat known steps = true).
Proof.
  intros H. rewrite <- (assign_panic_iff mt known steps s H).
  unfold assignment_steps, assign_finish.
  destruct (assign_loop mt known steps) as [taken ct|s'].
  - destruct (N.leb ad (pointer_depth ct)); split; discriminate.
  - split; intros [= <-]; reflexivity.
Qed.

Theorem assign_total mt known steps :
  fits mt known steps = true ->
  types_within_assign mt known ->
  exists taken ct,
    assign_loop mt known steps = AsgAt taken ct /\
    ref_final mt (fully_dereferenced known) steps = Some (fully_dereferenced ct).
Proof.
  unfold fits. intros H [Hk Hm].
  destruct (ref_final mt (fully_dereferenced known) steps) as [x|] eqn:Ex; [|discriminate H].
  destruct (assign_total_fuel mt max_address_depth_nat Hm steps known x Ex Hk)
    as (taken & ct & Ha & Hfd).
  exists taken, ct. split; [exact Ha|now rewrite Hfd].
Qed.

Corollary assignment_steps_never_panics mt known steps ad :
  fits mt known steps = true ->
  types_within_assign mt known ->
  exists taken rd, assignment_steps mt known steps ad = AOk taken rd.
Proof.
  intros H Hw. destruct (assign_total mt known steps H Hw) as (taken & ct & Ha & _).
  unfold assignment_steps, assign_finish. rewrite Ha.
  destruct (N.leb ad (pointer_depth ct)); eauto.
Qed.

(* -- agreement ----------------------------------------------------------------------- *)

(* MAIN THEOREM.  For a reference that get_type_of_reference accepts, of at most
   MAX_REFERENCE_DEPTH written steps, over types without Arraylike and without a run of
   more than MAX_ADDRESS_DEPTH Pointer / View constructors: the steps that
   analyze_assignment_steps takes before its final pointer adjustment are exactly the
   steps the loop of Reference::autoderef takes, they reach the same type, and that type
   is (up to Pointer / View layers) the one get_type_of_reference computed. *)
Theorem assignment_steps_are_read_steps mt known steps :
  fits mt known steps = true ->
  steps_within steps ->
  types_within_assign mt known ->
  arraylike_free mt known ->
  exists taken ct,
    autoderef_loop mt max_num_autoderef_steps known steps = LoopDone taken ct [] /\
    assign_loop mt known steps = AsgAt taken ct /\
    apply_tsteps mt known taken = Some ct /\
    ref_final mt (fully_dereferenced known) steps = Some (fully_dereferenced ct).
Proof.
  intros Hfits Hsteps Hw [Hna Hmna].
  destruct (loop_total mt known steps Hfits Hsteps (types_within_assign_within _ _ Hw))
    as (taken & ct & Hl & Hwalk & Hfin).
  destruct Hw as [Hk Hm].
  exists taken, ct. split; [exact Hl|split; [|split; [|exact Hfin]]].
  - apply (walk_then_assign mt max_address_depth_nat Hm Hmna steps known taken ct Hna Hk Hwalk).
  - eapply loop_steps_reach, Hl.
Qed.

(* the same without the budget of the read side (no bound on the number of steps) *)
Theorem assignment_steps_are_walk_steps mt known steps :
  fits mt known steps = true ->
  types_within_assign mt known ->
  arraylike_free mt known ->
  exists taken ct,
    walk mt known steps = LoopDone taken ct [] /\
    assign_loop mt known steps = AsgAt taken ct /\
    ref_final mt (fully_dereferenced known) steps = Some (fully_dereferenced ct).
Proof.
  unfold fits. intros H [Hk Hm] [Hna Hmna].
  destruct (ref_final mt (fully_dereferenced known) steps) as [x|] eqn:Ex; [|discriminate H].
  destruct (assign_is_walk mt max_address_depth_nat Hm Hmna steps known x Ex Hna Hk)
    as (taken & ct & Hw & Ha & Hfd).
  exists taken, ct. split; [exact Hw|split; [exact Ha|now rewrite Hfd]].
Qed.

(* no fits needed: whatever the read side gets through, the assignment side takes *)
Theorem read_steps_then_assignment_steps mt known steps taken ct :
  types_within_assign mt known ->
  arraylike_free mt known ->
  autoderef_loop mt max_num_autoderef_steps known steps = LoopDone taken ct [] ->
  assign_loop mt known steps = AsgAt taken ct.
Proof.
  intros [Hk Hm] [Hna Hmna] Hl.
  pose proof (loop_sound mt max_num_autoderef_steps known steps) as Hs.
  rewrite Hl in Hs.
  apply (walk_then_assign mt max_address_depth_nat Hm Hmna steps known taken ct Hna Hk Hs).
Qed.

(* ======================================================================= *)
(* 5. The trailing Autoderefs                                                 *)
(* ======================================================================= *)

Lemma pointer_depth_nonpointer t :
  match t with VPointer _ | VSlicePointer _ => True | _ => pointer_depth t = 0%N end.
Proof. destruct t; try exact I; reflexivity. Qed.

Lemma pointer_depth_slice_pointer e : pointer_depth (VSlicePointer e) = 1%N.
Proof. reflexivity. Qed.

Section Trailing.
Variable mt : N -> option vt.

(* n Autoderef steps, n within the pointer depth: they remove n Pointer constructors --
   unless the last one would have to go through a SlicePointer, which counts in
   pointer_depth but is not a Pointer *)
Lemma apply_autoderefs : forall n t,
  (N.of_nat n <= pointer_depth t)%N ->
  is_slice_pointer (pointer_tail t) = false \/ (N.of_nat n < pointer_depth t)%N ->
  apply_tsteps mt t (repeat TAutoderef n) = Some (strip_pointers_n n t) /\
  pointer_depth (strip_pointers_n n t) = (pointer_depth t - N.of_nat n)%N.
Proof.
  induction n as [|n IH]; intros t Hle Hsp.
  - cbn [repeat apply_tsteps strip_pointers_n Nat2N.inj N.of_nat]. split; [reflexivity|lia].
  - rewrite Nat2N.inj_succ in *.
    pose proof (pointer_depth_nonpointer t) as Hnp.
    destruct t as [k|e l|e c|e|e|e|e|i|i l|i|d|d]; try (rewrite Hnp in Hle; lia).
    + (* SlicePointer *)
      rewrite pointer_depth_slice_pointer in *. cbn [pointer_tail is_slice_pointer] in Hsp.
      destruct Hsp as [Hsp|Hsp]; [discriminate Hsp|lia].
    + (* Pointer *)
      rewrite pointer_depth_pointer in *. cbn [pointer_tail] in Hsp.
      cbn [repeat apply_tsteps strip_pointers_n].
      destruct (IH d) as [Ha Hd]; [lia|destruct Hsp; [left; assumption|right; lia]|].
      split; [exact Ha|]. rewrite Hd. lia.
Qed.

Lemma strip_all_pointers : forall t,
  is_slice_pointer (pointer_tail t) = false ->
  strip_pointers_n (N.to_nat (pointer_depth t)) t = pointer_tail t.
Proof.
  induction t as [k|e _ l|e _ c|e _|e _|e _|e _|i|i l|i|d IH|d _]; intros Hsp;
    try reflexivity.
  - rewrite pointer_depth_pointer. cbn [pointer_tail] in *.
    replace (N.to_nat (1 + pointer_depth d)) with (S (N.to_nat (pointer_depth d))) by lia.
    cbn [strip_pointers_n]. apply IH, Hsp.
Qed.

(* the shape of the result *)
Theorem trailing_autoderefs known steps ad taken ct :
  assign_loop mt known steps = AsgAt taken ct ->
  (ad <= pointer_depth ct)%N ->
  assignment_steps mt known steps ad
  = AOk (taken ++ repeat TAutoderef (N.to_nat (pointer_depth ct - ad))) 0.
Proof.
  intros Ha Hle. unfold assignment_steps, assign_finish. rewrite Ha.
  apply N.leb_le in Hle. rewrite Hle. reflexivity.
Qed.

Theorem excess_addresses known steps ad taken ct :
  assign_loop mt known steps = AsgAt taken ct ->
  (pointer_depth ct < ad)%N ->
  (ad <= 255)%N ->                                     (* address_depth is a u8 *)
  assignment_steps mt known steps ad = AOk taken (ad - pointer_depth ct).
Proof.
  intros Ha Hlt Hu8. unfold assignment_steps, assign_finish, excess_depth. rewrite Ha.
  apply N.leb_gt in Hlt. rewrite Hlt.
  replace (N.leb (ad - pointer_depth ct) 255) with true by (symmetry; apply N.leb_le; lia).
  reflexivity.
Qed.

(* ... and its meaning: the storage designated has pointer depth [ad] *)
Theorem trailing_autoderefs_reach known taken ct ad :
  apply_tsteps mt known taken = Some ct ->
  (ad <= pointer_depth ct)%N ->
  is_slice_pointer (pointer_tail ct) = false \/ (0 < ad)%N ->
  let k := N.to_nat (pointer_depth ct - ad) in
  apply_tsteps mt known (taken ++ repeat TAutoderef k) = Some (strip_pointers_n k ct) /\
  pointer_depth (strip_pointers_n k ct) = ad.
Proof.
  intros Hr Hle Hsp k. rewrite apply_tsteps_app, Hr.
  destruct (apply_autoderefs k ct) as [Ha Hd].
  - unfold k. lia.
  - destruct Hsp as [Hsp|Hsp]; [left; exact Hsp|right; unfold k; lia].
  - split; [exact Ha|]. rewrite Hd. unfold k. lia.
Qed.

End Trailing.

(* With address depth 0, on a reference within the limits, the result is the steps of the
   read side followed by exactly pointer_depth ct Autoderefs, no address is left, and
   the location denoted is what lies under all the pointers: it has pointer depth 0. *)
Theorem assignment_target_is_scalar mt known steps :
  fits mt known steps = true ->
  steps_within steps ->
  types_within_assign mt known ->
  arraylike_free mt known ->
  exists taken ct,
    autoderef_loop mt max_num_autoderef_steps known steps = LoopDone taken ct [] /\
    assignment_steps mt known steps 0
    = AOk (taken ++ repeat TAutoderef (N.to_nat (pointer_depth ct))) 0 /\
    (is_slice_pointer (pointer_tail ct) = false ->
     apply_tsteps mt known (taken ++ repeat TAutoderef (N.to_nat (pointer_depth ct)))
     = Some (pointer_tail ct) /\
     pointer_depth (pointer_tail ct) = 0%N).
Proof.
  intros Hfits Hsteps Hw Hna.
  destruct (assignment_steps_are_read_steps mt known steps Hfits Hsteps Hw Hna)
    as (taken & ct & Hl & Ha & Hr & _).
  exists taken, ct. split; [exact Hl|split].
  - rewrite (trailing_autoderefs mt known steps 0 taken ct Ha) by lia.
    now rewrite N.sub_0_r.
  - intros Hsp.
    destruct (trailing_autoderefs_reach mt known taken ct 0 Hr) as [H1 H2];
      [lia|left; exact Hsp|].
    rewrite N.sub_0_r in H1, H2. rewrite (strip_all_pointers ct Hsp) in H1, H2.
    split; assumption.
Qed.

(* ======================================================================= *)
(* 6. CallFrame.elab_assign is this model (struct-free fragment)              *)
(* ======================================================================= *)

Lemma no_arraylike_vt_of_pty : forall t, no_arraylike (vt_of_pty t) = true.
Proof. induction t; cbn [vt_of_pty no_arraylike]; auto. Qed.

Lemma pointer_depth_vt_of_pty : forall t,
  pointer_depth (vt_of_pty t) = N.of_nat (CallFrame.ptr_depth t).
Proof.
  induction t; try reflexivity.
  cbn [vt_of_pty CallFrame.ptr_depth]. rewrite pointer_depth_pointer, IHt. lia.
Qed.

Lemma strip_ptrs_vt_of_pty : forall n t,
  vt_of_pty (CallFrame.strip_ptrs n t) = strip_pointers_n n (vt_of_pty t).
Proof.
  induction n as [|n IH]; intros t; [destruct t; reflexivity|].
  destruct t; try reflexivity. cbn [CallFrame.strip_ptrs vt_of_pty strip_pointers_n]. apply IH.
Qed.

Lemma map_repeat' {A B} (f : A -> B) x n : map f (repeat x n) = repeat (f x) n.
Proof. induction n as [|n IH]; [reflexivity|]. cbn [repeat map]. now rewrite IH. Qed.

Lemma elaborate_then_assign_loop t p rs0 t' :
  struct_free t = true ->
  runs_ok max_address_depth_nat (vt_of_pty t) = true ->
  MemLower.elaborate t p = Some (rs0, t') ->
  exists taken,
    assign_loop no_members (vt_of_pty t) (map astep_of_step p) = AsgAt taken (vt_of_pty t') /\
    map rstep_of_tstep taken = map forget_index rs0.
Proof.
  intros Hsf Hruns E. rewrite elaborate_budget in E.
  destruct (elaborate_is_autoderef_loop _ _ _ _ _ Hsf E) as (taken & Hl & Hm).
  exists taken. split; [|exact Hm].
  apply read_steps_then_assignment_steps; [| |exact Hl].
  - split; [exact Hruns|discriminate].
  - split; [apply no_arraylike_vt_of_pty|discriminate].
Qed.

Lemma elab_assign_inv t p ad rs tfin :
  CallFrame.elab_assign t p ad = Some (rs, tfin) ->
  exists rs0 t',
    MemLower.elaborate t p = Some (rs0, t') /\
    (ad <= CallFrame.ptr_depth t')%nat /\
    rs = rs0 ++ repeat MemLower.RAutoderef (CallFrame.ptr_depth t' - ad) /\
    tfin = CallFrame.strip_ptrs (CallFrame.ptr_depth t' - ad) t'.
Proof.
  unfold CallFrame.elab_assign. generalize (MemLower.elaborate t p). intros o H.
  destruct o as [[rs0 t']|]; [|discriminate H].
  destruct (Nat.leb ad (CallFrame.ptr_depth t')) eqn:Ele; [|discriminate H].
  injection H as <- <-. apply Nat.leb_le in Ele.
  exists rs0, t'. repeat split. exact Ele.
Qed.

(* What CallFrame reads as "the typer's steps for an assignment target" is what
   analyze_assignment_steps produces: same steps (the index expressions forgotten), no
   address left, same type designated.  Side condition: no run of more than
   MAX_ADDRESS_DEPTH Pointer / View constructors in the type of the base
   ([elab_assign_needs_the_bound] below: it cannot be dropped). *)
Theorem elab_assign_is_assignment_steps t p ad rs tfin :
  struct_free t = true ->
  runs_ok max_address_depth_nat (vt_of_pty t) = true ->
  CallFrame.elab_assign t p ad = Some (rs, tfin) ->
  exists taken ct,
    assign_loop no_members (vt_of_pty t) (map astep_of_step p) = AsgAt taken ct /\
    assignment_steps no_members (vt_of_pty t) (map astep_of_step p) (N.of_nat ad)
    = AOk (taken ++ repeat TAutoderef (N.to_nat (pointer_depth ct - N.of_nat ad))) 0 /\
    map rstep_of_tstep (taken ++ repeat TAutoderef (N.to_nat (pointer_depth ct - N.of_nat ad)))
    = map forget_index rs /\
    vt_of_pty tfin = strip_pointers_n (N.to_nat (pointer_depth ct - N.of_nat ad)) ct.
Proof.
  intros Hsf Hruns H.
  apply elab_assign_inv in H as (rs0 & t' & E & Ele & -> & ->).
  destruct (elaborate_then_assign_loop t p rs0 t' Hsf Hruns E) as (taken & Ha & Hm).
  exists taken, (vt_of_pty t').
  assert (Hk : N.to_nat (pointer_depth (vt_of_pty t') - N.of_nat ad)
               = (CallFrame.ptr_depth t' - ad)%nat)
    by (rewrite pointer_depth_vt_of_pty; lia).
  split; [exact Ha|split; [|split]].
  - apply trailing_autoderefs; [exact Ha|]. rewrite pointer_depth_vt_of_pty. lia.
  - rewrite Hk, !map_app, Hm, !map_repeat'. reflexivity.
  - rewrite Hk. apply strip_ptrs_vt_of_pty.
Qed.

(* ======================================================================= *)
(* 7. Witnesses: where the two sides differ                                   *)
(* ======================================================================= *)

Lemma steps_within_small steps :
  (length steps <= 127)%nat -> steps_within steps.
Proof. unfold steps_within, Limits.max_reference_depth. lia. Qed.

Lemma no_members_within known :
  runs_ok run_limit known = true -> types_within no_members known.
Proof. intros H. split; [exact H|discriminate]. Qed.

(* FINDING (compiler crash).  [types_within] -- the limit under which the READ side is
   total -- allows 128 Pointer constructors in a row; the inner loop of the assignment
   side removes at most MAX_ADDRESS_DEPTH = 127.  The parser does not limit the number of
   `&` in a written type.
       fn f(x: &^128 [4]i32) { x[0] = 1; }        (128 ampersands)
   get_type_of_reference accepts the target (i32), a read `x[0]` is elaborated to 128
   Autoderefs and an Element, and analyze_assignment_steps reaches `unreachable!()` at
   typer.rs:2206: a Pointer is left on current_type, and get_element_type of a Pointer is
   None.  So the hypothesis [types_within_assign] of the theorems above cannot be
   weakened to [types_within]. *)
Example assignment_panics_where_read_works :
  let known := ptrs 128 (VArray i32 4) in
  let steps := [AElement None] in
  is_wellformed known = true /\ can_be_parameter known = true /\
  fits no_members known steps = true /\ steps_within steps /\
  types_within no_members known /\ arraylike_free no_members known /\
  type_of_reference no_members known steps 0 = Some i32 /\
  autoderef no_members known i32 steps 0
  = ADOk (repeat TAutoderef 128 ++ [TElement (Some false)]) false i32 None /\
  assignment_steps no_members known steps 0 = APanic 1.
Proof.
  cbv zeta. split; [vm_compute; reflexivity|]. split; [vm_compute; reflexivity|].
  split; [vm_compute; reflexivity|]. split; [apply steps_within_small; cbn; lia|].
  split; [apply no_members_within; vm_compute; reflexivity|].
  split; [split; [vm_compute; reflexivity|discriminate]|].
  split; [vm_compute; reflexivity|]. split; vm_compute; reflexivity.
Qed.

(* with 127 the two sides agree *)
Example assignment_127_pointers :
  let known := ptrs 127 (VArray i32 4) in
  assignment_steps no_members known [AElement None] 0
  = AOk (repeat TAutoderef 127 ++ [TElement (Some false)]) 0 /\
  autoderef_loop no_members max_num_autoderef_steps known [AElement None]
  = LoopDone (repeat TAutoderef 127 ++ [TElement (Some false)]) i32 [].
Proof. vm_compute. split; reflexivity. Qed.

(* FINDING (wrong steps, no panic).  The Member arm does not look at current_type after
   its 127 iterations: with 128 pointers in front of a structure it takes the member of a
   POINTER.
       struct S { m: i32 }   fn f(x: &^128 S) { x.m = 1; }
   The read side takes 128 Autoderefs and the Member; the assignment side 127 Autoderefs
   and the Member, steps that do not apply to the type of x ([apply_tsteps] = None):
   whatever the generator makes of it, it is not the member m of the structure. *)
Definition one_member (m : N) : option vt :=
  if N.eqb m 7 then Some i32 else None.

Example member_of_a_pointer :
  let known := ptrs 128 (VStruct 5%N) in
  let steps := [AMember 7] in
  fits one_member known steps = true /\ steps_within steps /\
  types_within one_member known /\ arraylike_free one_member known /\
  autoderef_loop one_member max_num_autoderef_steps known steps
  = LoopDone (repeat TAutoderef 128 ++ [TMember 7]) i32 [] /\
  assignment_steps one_member known steps 0
  = AOk (repeat TAutoderef 127 ++ [TMember 7]) 0 /\
  apply_tsteps one_member known (repeat TAutoderef 127 ++ [TMember 7]) = None /\
  apply_tsteps one_member known (repeat TAutoderef 128 ++ [TMember 7]) = Some i32.
Proof.
  assert (Hm : forall m t, one_member m = Some t -> t = i32).
  { intros m t. unfold one_member. destruct (N.eqb m 7); [now intros [= <-]|discriminate]. }
  cbv zeta. split; [vm_compute; reflexivity|]. split; [apply steps_within_small; cbn; lia|].
  split; [split; [vm_compute; reflexivity|intros m t E; rewrite (Hm m t E); reflexivity]|].
  split; [split; [vm_compute; reflexivity|intros m t E; rewrite (Hm m t E); reflexivity]|].
  repeat split; vm_compute; reflexivity.
Qed.

(* FINDING (Arraylike).  The hypothesis [arraylike_free] cannot be dropped either: on an
   Arraylike `[]T` the two functions disagree on is_endless (read: Some(true),
   assignment: None, which resolver.rs turns into false), and on `&[]T` / `([]T)` the read
   side indexes the pointer itself while the assignment side dereferences first. *)
Example arraylike_is_endless_differs :
  let known := VArraylike i32 in
  fits no_members known [AElement None] = true /\
  autoderef_loop no_members max_num_autoderef_steps known [AElement None]
  = LoopDone [TElement (Some true)] i32 [] /\
  assign_loop no_members known [AElement None] = AsgAt [TElement None] i32.
Proof. vm_compute. repeat split. Qed.

Example pointer_to_arraylike_differs :
  let known := VPointer (VArraylike i32) in
  is_wellformed known = true /\ can_be_parameter known = true /\
  fits no_members known [AElement None] = true /\
  autoderef_loop no_members max_num_autoderef_steps known [AElement None]
  = LoopDone [TElement None] i32 [] /\
  assign_loop no_members known [AElement None] = AsgAt [TAutoderef; TElement None] i32.
Proof. vm_compute. repeat split. Qed.

(* FINDING (SlicePointer).  pointer_depth counts a SlicePointer as a pointer, the trailing
   loop pushes an Autoderef for it, and Autoderef is not a step that applies to a
   SlicePointer: the side condition of [trailing_autoderefs_reach] and
   [assignment_target_is_scalar] cannot be dropped.  (`x = y` with x: &[]i32 written
   without `&`: analyze_assignment reports MismatchedAddressInAssignment or a type
   conflict afterwards, so the steps are not used.) *)
Example slice_pointer_autoderef :
  assignment_steps no_members (VSlicePointer i32) [] 0 = AOk [TAutoderef] 0 /\
  apply_tsteps no_members (VSlicePointer i32) [TAutoderef] = None /\
  assignment_steps no_members (VSlicePointer i32) [] 1 = AOk [] 0.
Proof. vm_compute. repeat split. Qed.

(* Outside [fits] the second `unreachable!()` is within reach of the model:
   get_type_of_reference returns None (not an error) for a Member step on
   UnresolvedStructOrWord{None} (typer.rs:345-347), the caller only keeps
   Some(Err(_)) away, and analyze_assignment_steps is then called with a base whose
   type is known.  Whether typer.get_symbol(member) can be None at that point depends
   on the symbol table (resolution ids of members), which this model does not cover. *)
Example member_without_symbol :
  fits no_members (VUnresolved None) [AMember 7] = false /\
  assignment_steps no_members (VUnresolved None) [AMember 7] 0 = APanic 2.
Proof. vm_compute. split; reflexivity. Qed.

(* the hypotheses of the main theorem are satisfiable by non-trivial objects *)
Example sample_assignment :
  let known := VView (VStruct 5%N) in
  let steps := [AMember 2; AMember 2; AMember 1; AElement None] in
  fits sample_members known steps = true /\ steps_within steps /\
  types_within_assign sample_members known /\ arraylike_free sample_members known /\
  assignment_steps sample_members known steps 0
  = AOk [TAutoview; TMember 2; TAutoderef; TMember 2; TAutoderef; TMember 1;
         TElement (Some false)] 0 /\
  assignment_steps sample_members known [AMember 2] 0
  = AOk [TAutoview; TMember 2; TAutoderef] 0 /\
  assignment_steps sample_members known [AMember 2] 1 = AOk [TAutoview; TMember 2] 0 /\
  assignment_steps sample_members known [AMember 2] 3 = AOk [TAutoview; TMember 2] 2.
Proof.
  assert (Hm : forall m t, sample_members m = Some t ->
                           t = VArray i32 3 \/ t = VPointer (VStruct 5%N)).
  { intros m t. unfold sample_members.
    destruct m as [|[q|q|]]; try discriminate; try (destruct q; try discriminate);
      intros [= <-]; auto. }
  cbv zeta. split; [reflexivity|]. split; [apply steps_within_small; cbn; lia|].
  split; [split; [vm_compute; reflexivity|
                  intros m t E; destruct (Hm m t E) as [-> | ->]; vm_compute; reflexivity]|].
  split; [split; [vm_compute; reflexivity|
                  intros m t E; destruct (Hm m t E) as [-> | ->]; vm_compute; reflexivity]|].
  repeat split; vm_compute; reflexivity.
Qed.

(* CallFrame.elab_assign without the bound: MemLower.elaborate has the budget of the read
   side, so it gets through 128 pointers; analyze_assignment_steps does not. *)
Fixpoint pptrs (n : nat) (t : MemLower.pty) : MemLower.pty :=
  match n with O => t | S n' => MemLower.PPtr (pptrs n' t) end.

Example elab_assign_needs_the_bound :
  let t := pptrs 128 (MemLower.PArr 4 (MemLower.PInt 4)) in
  let p := [MemLower.SElem 0%Z] in
  struct_free t = true /\
  (exists rs, CallFrame.elab_assign t p 0 = Some (rs, MemLower.PInt 4)) /\
  assignment_steps no_members (vt_of_pty t) (map astep_of_step p) 0 = APanic 1.
Proof.
  cbv zeta. split; [vm_compute; reflexivity|]. split; [|vm_compute; reflexivity].
  eexists. vm_compute. reflexivity.
Qed.

(* elab_assign = None covers three things: the path does not fit the type (the typer's
   caller keeps those away), the budget of MemLower.elaborate (none here), and an excess
   of addresses, which the typer reports through a positive remaining depth
   (ExcessAddressInAssignment).  Only the Some direction is proved above. *)
Example elab_assign_none_is_excess :
  CallFrame.elab_assign (MemLower.PPtr (MemLower.PInt 4)) [] 2 = None /\
  assignment_steps no_members (vt_of_pty (MemLower.PPtr (MemLower.PInt 4))) [] 2 = AOk [] 1.
Proof. vm_compute. split; reflexivity. Qed.

Print Assumptions assign_panic_iff.
Print Assumptions assign_total.
Print Assumptions assignment_steps_never_panics.
Print Assumptions assignment_steps_are_read_steps.
Print Assumptions assignment_steps_are_walk_steps.
Print Assumptions read_steps_then_assignment_steps.
Print Assumptions trailing_autoderefs_reach.
Print Assumptions assignment_target_is_scalar.
Print Assumptions elab_assign_is_assignment_steps.
