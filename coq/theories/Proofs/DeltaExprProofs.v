(* Proofs about Model/DeltaExpr.v: the expression part of the second-generation parser
   (with `for _ in 0..=MAX_REFERENCE_DEPTH` in parse_deref_steps_list, the repair of the
   127-steps defect) builds the tree of the reference parser (Model/RefParser.v), up to
   the folding of negated literals, on EVERY token list the reference parser accepts,
   and accepts strictly more (ill-formed cast types, bitwise / shift operators after an
   unparenthesized binary expression).  The parser before the repair
   (parse_expression_pinned_res) rejects references with exactly MAX_REFERENCE_DEPTH
   steps; the proofs of that direction are generic in the number [lim] of iterations of
   the steps loop. *)
From PV Require Import Base.Common Base.IR Base.Tok Model.RefParser Model.DeltaExpr.
From PV Require Import Proofs.RefParserProofs.

Module R := PV.Model.RefParser.
Module D := PV.Model.DeltaExpr.

(* ------------------------------------------------------------------------- *)
(* Unfolding lemmas                                                           *)
(* ------------------------------------------------------------------------- *)

Lemma D_parse_inner_type_S f ts : D.parse_inner_type (S f) ts =
    match ts with
    | [] => Err UnexpectedToken
    | t :: ts1 =>
      match kind t with
      | KType =>
          match vtype t with
          | Some TyVoid => Ok (TVoid, ts1)
          | Some (TyPrim p) => Ok (TPrim p, ts1)
          | None => Err UnexpectedToken
          end
      | KIdentifier => Ok (TNamed (tok_name t), ts1)
      | KAmpersand =>
          bind (D.parse_inner_type f ts1) (fun '(d, ts2) => Ok (TPointer d, ts2))
      | KParenLeft =>
          bind (D.parse_inner_type f ts1) (fun '(d, ts2) =>
          bind (expect_r isParenRight ts2) (fun ts3 => Ok (TView d, ts3)))
      | KBracketLeft =>
          match ts1 with
          | [] => Err UnexpectedToken
          | t1 :: ts2 =>
            match kind t1 with
            | KBracketRight =>
                bind (D.parse_inner_type f ts2) (fun '(e, ts3) => Ok (TArraylike e, ts3))
            | KColon =>
                bind (expect_r isBracketRight ts2) (fun ts3 =>
                bind (D.parse_inner_type f ts3) (fun '(e, ts4) => Ok (TSlice e, ts4)))
            | KDots =>
                bind (expect_r isBracketRight ts2) (fun ts3 =>
                bind (D.parse_inner_type f ts3) (fun '(e, ts4) => Ok (TEndless e, ts4)))
            | KNakedDecimal =>
                bind (expect_r isBracketRight ts2) (fun ts3 =>
                bind (D.parse_inner_type f ts3) (fun '(e, ts4) =>
                  Ok (TArray (Z.modulo (value t1) usize_lim) e, ts4)))
            | KIdentifier =>
                bind (expect_r isBracketRight ts2) (fun ts3 =>
                bind (D.parse_inner_type f ts3) (fun '(e, ts4) =>
                  Ok (TArrayNamed (tok_name t1) e, ts4)))
            | _ => Err UnexpectedToken
            end
          end
      | _ => Err UnexpectedToken
      end
    end.
Proof. reflexivity. Qed.

Lemma D_as_loop_S f acc ts : D.as_loop (S f) acc ts =
    if isAs (hdk ts) then
      bind (D.parse_type f (tl ts)) (fun '(t, ts1) => D.as_loop f (ETypeCast acc t) ts1)
    else Ok (acc, ts).
Proof. reflexivity. Qed.

(* generic in the number of iterations [lim] of the steps loop *)
Lemma Dg_parse_addition_S lim f ts : D.parse_addition_g lim (S f) ts =
    bind (D.parse_multiplication_g lim f ts) (fun '(e, ts1) => D.add_loop_g lim f e ts1).
Proof. reflexivity. Qed.

Lemma Dg_add_loop_S lim f acc ts : D.add_loop_g lim (S f) acc ts =
    match bitop_of (hdk ts) with
    | Some op => D.bit_loop_g lim f op acc (tl ts)
    | None =>
      match shiftop_of (hdk ts) with
      | Some op =>
          bind (D.parse_unary_g lim f (tl ts)) (fun '(r, ts1) => Ok (EBinary op acc r, ts1))
      | None =>
        match addop_of (hdk ts) with
        | Some op =>
            bind (D.parse_multiplication_g lim f (tl ts)) (fun '(r, ts1) =>
              D.add_loop_g lim f (EBinary op acc r) ts1)
        | None => Ok (acc, ts)
        end
      end
    end.
Proof. reflexivity. Qed.

Lemma Dg_bit_loop_S lim f op acc ts : D.bit_loop_g lim (S f) op acc ts =
    bind (D.parse_unary_g lim f ts) (fun '(r, ts1) =>
      if same_bitop op (hdk ts1) then D.bit_loop_g lim f op (EBinary op acc r) (tl ts1)
      else Ok (EBinary op acc r, ts1)).
Proof. reflexivity. Qed.

Lemma Dg_parse_multiplication_S lim f ts : D.parse_multiplication_g lim (S f) ts =
    bind (D.parse_singular_g lim f ts) (fun '(e, ts1) => D.mul_loop_g lim f e ts1).
Proof. reflexivity. Qed.

Lemma Dg_mul_loop_S lim f acc ts : D.mul_loop_g lim (S f) acc ts =
    match mulop_of (hdk ts) with
    | Some op =>
        bind (D.parse_singular_g lim f (tl ts)) (fun '(r, ts1) => D.mul_loop_g lim f (EBinary op acc r) ts1)
    | None => Ok (acc, ts)
    end.
Proof. reflexivity. Qed.

Lemma Dg_parse_singular_S lim f ts : D.parse_singular_g lim (S f) ts =
    if isCast (hdk ts) then
      bind (D.parse_unary_g lim f (tl ts)) (fun '(e, ts1) => D.as_loop f (EBitCast e) ts1)
    else
      bind (D.parse_unary_g lim f ts) (fun '(e, ts1) => D.as_loop f e ts1).
Proof. reflexivity. Qed.

Lemma Dg_parse_unary_S lim f ts : D.parse_unary_g lim (S f) ts =
    match hdk ts with
    | KPipeForType =>
        bind (D.parse_type f (tl ts)) (fun '(t, ts1) =>
        bind (expect_r isPipe ts1) (fun ts2 => Ok (ESizeOf t, ts2)))
    | KPipe =>
        bind (D.parse_reference_g lim f (tl ts)) (fun '(r, ts1) =>
        bind (expect_r isPipe ts1) (fun ts2 => Ok (ELength r, ts2)))
    | KExclamation =>
        bind (D.parse_primary_g lim f (tl ts)) (fun '(e, ts1) => Ok (EUnary BitwiseComplement e, ts1))
    | KMinus =>
        bind (D.parse_primary_g lim f (tl ts)) (fun '(e, ts1) => Ok (EUnary Negative e, ts1))
    | _ => D.parse_primary_g lim f ts
    end.
Proof. reflexivity. Qed.

Lemma Dg_parse_primary_S lim f ts : D.parse_primary_g lim (S f) ts =
    match ts with
    | [] => Err UnexpectedToken
    | t :: ts1 =>
      match kind t with
      | KNakedDecimal | KBitInteger | KSuffixedInteger | KCharLiteral | KBool =>
          match literal_of t with
          | Some e => Ok (e, ts1)
          | None => Err UnexpectedToken
          end
      | KStringLiteral =>
          let '(bs, ts2) := take_strings ts1 in Ok (EString (bytes t ++ bs), ts2)
      | KAmpersand =>
          bind (D.parse_addressed_g lim f ts1) (fun '(r, ts2) =>
            if isDots (hdk ts2) then
              bind (D.parse_addition_g lim f (tl ts2)) (fun '(off, ts3) =>
                Ok (EBinary AdvancePointer (EDeref r) off, ts3))
            else Ok (EDeref r, ts2))
      | KIdentifier =>
          if isParenLeft (hdk ts1) then
            bind (D.expr_list_g lim f false (tl ts1)) (fun '(args, ts2) =>
              Ok (ECall false (tok_name t) args, ts2))
          else if isBraceLeft (hdk ts1) then
            bind (D.members_loop_g lim f (tl ts1)) (fun '(ms, ts2) =>
              Ok (EStructural (tok_name t) ms, ts2))
          else
            bind (D.steps_loop_g lim f O ts1) (fun '(steps, ts2) =>
              Ok (EDeref (Ref 0%N (tok_name t) steps), ts2))
      | KBuiltin =>
          bind (expect_r isParenLeft ts1) (fun ts2 =>
          bind (D.expr_list_g lim f false ts2) (fun '(args, ts3) =>
            Ok (ECall true (tok_name t) args, ts3)))
      | KBracketLeft =>
          bind (D.expr_list_g lim f true ts1) (fun '(es, ts2) => Ok (EArray es, ts2))
      | KParenLeft =>
          bind (D.parse_addition_g lim f ts1) (fun '(e, ts2) =>
          bind (expect_r isParenRight ts2) (fun ts3 => Ok (EParen e, ts3)))
      | _ => Err UnexpectedToken
      end
    end.
Proof. reflexivity. Qed.

Lemma Dg_expr_list_S lim f br ts : D.expr_list_g lim (S f) br ts =
    if is_close br (hdk ts) then Ok ([], tl ts)
    else
      bind (D.parse_addition_g lim f ts) (fun '(e, ts1) =>
        if isComma (hdk ts1) then
          bind (D.expr_list_g lim f br (tl ts1)) (fun '(es, ts2) => Ok (e :: es, ts2))
        else
          bind (expect_r (is_close br) ts1) (fun ts2 => Ok ([e], ts2))).
Proof. reflexivity. Qed.

Lemma Dg_members_loop_S lim f ts : D.members_loop_g lim (S f) ts =
    if isBraceRight (hdk ts) then Ok ([], tl ts)
    else
      bind (expect_id_r ts) (fun '(n, ts1) =>
      bind (if isColon (hdk ts1) then D.parse_addition_g lim f (tl ts1)
            else Ok (EDeref (Ref 0%N n []), ts1)) (fun '(e, ts2) =>
        if isComma (hdk ts2) then
          bind (D.members_loop_g lim f (tl ts2)) (fun '(ms, ts3) => Ok ((n, e) :: ms, ts3))
        else
          bind (expect_r isBraceRight ts2) (fun ts3 => Ok ([(n, e)], ts3)))).
Proof. reflexivity. Qed.

Lemma Dg_parse_addressed_S lim f ts : D.parse_addressed_g lim (S f) ts =
    match amp_loop 1%N ts with
    | None => Err DepthExceeded
    | Some (d, ts1) =>
        bind (expect_id_r ts1) (fun '(b, ts2) =>
        bind (D.steps_loop_g lim f O ts2) (fun '(steps, ts3) => Ok (Ref d b steps, ts3)))
    end.
Proof. reflexivity. Qed.

Lemma Dg_parse_reference_S lim f ts : D.parse_reference_g lim (S f) ts =
    match amp_loop 0%N ts with
    | None => Err DepthExceeded
    | Some (d, ts1) =>
        bind (expect_id_r ts1) (fun '(b, ts2) =>
        bind (D.steps_loop_g lim f O ts2) (fun '(steps, ts3) => Ok (Ref d b steps, ts3)))
    end.
Proof. reflexivity. Qed.

Lemma Dg_steps_loop_S lim f k ts : D.steps_loop_g lim (S f) k ts =
    if (lim <=? k)%nat then Err DepthExceeded
    else if isBracketLeft (hdk ts) then
      bind (D.parse_addition_g lim f (tl ts)) (fun '(e, ts1) =>
      bind (expect_r isBracketRight ts1) (fun ts2 =>
      bind (D.steps_loop_g lim f (S k) ts2) (fun '(ss, ts3) => Ok (RsElement e :: ss, ts3))))
    else if isDot (hdk ts) then
      bind (expect_id_r (tl ts)) (fun '(m, ts1) =>
      bind (D.steps_loop_g lim f (S k) ts1) (fun '(ss, ts2) => Ok (RsMember m :: ss, ts2)))
    else Ok ([], ts).
Proof. reflexivity. Qed.

(* the model (repaired code): lim = REPAIRED_ITERATIONS *)
Lemma D_parse_addition_S f ts : D.parse_addition (S f) ts =
    bind (D.parse_multiplication f ts) (fun '(e, ts1) => D.add_loop f e ts1).
Proof. reflexivity. Qed.

Lemma D_add_loop_S f acc ts : D.add_loop (S f) acc ts =
    match bitop_of (hdk ts) with
    | Some op => D.bit_loop f op acc (tl ts)
    | None =>
      match shiftop_of (hdk ts) with
      | Some op =>
          bind (D.parse_unary f (tl ts)) (fun '(r, ts1) => Ok (EBinary op acc r, ts1))
      | None =>
        match addop_of (hdk ts) with
        | Some op =>
            bind (D.parse_multiplication f (tl ts)) (fun '(r, ts1) =>
              D.add_loop f (EBinary op acc r) ts1)
        | None => Ok (acc, ts)
        end
      end
    end.
Proof. reflexivity. Qed.

Lemma D_bit_loop_S f op acc ts : D.bit_loop (S f) op acc ts =
    bind (D.parse_unary f ts) (fun '(r, ts1) =>
      if same_bitop op (hdk ts1) then D.bit_loop f op (EBinary op acc r) (tl ts1)
      else Ok (EBinary op acc r, ts1)).
Proof. reflexivity. Qed.

Lemma D_parse_multiplication_S f ts : D.parse_multiplication (S f) ts =
    bind (D.parse_singular f ts) (fun '(e, ts1) => D.mul_loop f e ts1).
Proof. reflexivity. Qed.

Lemma D_mul_loop_S f acc ts : D.mul_loop (S f) acc ts =
    match mulop_of (hdk ts) with
    | Some op =>
        bind (D.parse_singular f (tl ts)) (fun '(r, ts1) => D.mul_loop f (EBinary op acc r) ts1)
    | None => Ok (acc, ts)
    end.
Proof. reflexivity. Qed.

Lemma D_parse_singular_S f ts : D.parse_singular (S f) ts =
    if isCast (hdk ts) then
      bind (D.parse_unary f (tl ts)) (fun '(e, ts1) => D.as_loop f (EBitCast e) ts1)
    else
      bind (D.parse_unary f ts) (fun '(e, ts1) => D.as_loop f e ts1).
Proof. reflexivity. Qed.

Lemma D_parse_unary_S f ts : D.parse_unary (S f) ts =
    match hdk ts with
    | KPipeForType =>
        bind (D.parse_type f (tl ts)) (fun '(t, ts1) =>
        bind (expect_r isPipe ts1) (fun ts2 => Ok (ESizeOf t, ts2)))
    | KPipe =>
        bind (D.parse_reference f (tl ts)) (fun '(r, ts1) =>
        bind (expect_r isPipe ts1) (fun ts2 => Ok (ELength r, ts2)))
    | KExclamation =>
        bind (D.parse_primary f (tl ts)) (fun '(e, ts1) => Ok (EUnary BitwiseComplement e, ts1))
    | KMinus =>
        bind (D.parse_primary f (tl ts)) (fun '(e, ts1) => Ok (EUnary Negative e, ts1))
    | _ => D.parse_primary f ts
    end.
Proof. reflexivity. Qed.

Lemma D_parse_primary_S f ts : D.parse_primary (S f) ts =
    match ts with
    | [] => Err UnexpectedToken
    | t :: ts1 =>
      match kind t with
      | KNakedDecimal | KBitInteger | KSuffixedInteger | KCharLiteral | KBool =>
          match literal_of t with
          | Some e => Ok (e, ts1)
          | None => Err UnexpectedToken
          end
      | KStringLiteral =>
          let '(bs, ts2) := take_strings ts1 in Ok (EString (bytes t ++ bs), ts2)
      | KAmpersand =>
          bind (D.parse_addressed f ts1) (fun '(r, ts2) =>
            if isDots (hdk ts2) then
              bind (D.parse_addition f (tl ts2)) (fun '(off, ts3) =>
                Ok (EBinary AdvancePointer (EDeref r) off, ts3))
            else Ok (EDeref r, ts2))
      | KIdentifier =>
          if isParenLeft (hdk ts1) then
            bind (D.expr_list f false (tl ts1)) (fun '(args, ts2) =>
              Ok (ECall false (tok_name t) args, ts2))
          else if isBraceLeft (hdk ts1) then
            bind (D.members_loop f (tl ts1)) (fun '(ms, ts2) =>
              Ok (EStructural (tok_name t) ms, ts2))
          else
            bind (D.steps_loop f O ts1) (fun '(steps, ts2) =>
              Ok (EDeref (Ref 0%N (tok_name t) steps), ts2))
      | KBuiltin =>
          bind (expect_r isParenLeft ts1) (fun ts2 =>
          bind (D.expr_list f false ts2) (fun '(args, ts3) =>
            Ok (ECall true (tok_name t) args, ts3)))
      | KBracketLeft =>
          bind (D.expr_list f true ts1) (fun '(es, ts2) => Ok (EArray es, ts2))
      | KParenLeft =>
          bind (D.parse_addition f ts1) (fun '(e, ts2) =>
          bind (expect_r isParenRight ts2) (fun ts3 => Ok (EParen e, ts3)))
      | _ => Err UnexpectedToken
      end
    end.
Proof. reflexivity. Qed.

Lemma D_expr_list_S f br ts : D.expr_list (S f) br ts =
    if is_close br (hdk ts) then Ok ([], tl ts)
    else
      bind (D.parse_addition f ts) (fun '(e, ts1) =>
        if isComma (hdk ts1) then
          bind (D.expr_list f br (tl ts1)) (fun '(es, ts2) => Ok (e :: es, ts2))
        else
          bind (expect_r (is_close br) ts1) (fun ts2 => Ok ([e], ts2))).
Proof. reflexivity. Qed.

Lemma D_members_loop_S f ts : D.members_loop (S f) ts =
    if isBraceRight (hdk ts) then Ok ([], tl ts)
    else
      bind (expect_id_r ts) (fun '(n, ts1) =>
      bind (if isColon (hdk ts1) then D.parse_addition f (tl ts1)
            else Ok (EDeref (Ref 0%N n []), ts1)) (fun '(e, ts2) =>
        if isComma (hdk ts2) then
          bind (D.members_loop f (tl ts2)) (fun '(ms, ts3) => Ok ((n, e) :: ms, ts3))
        else
          bind (expect_r isBraceRight ts2) (fun ts3 => Ok ([(n, e)], ts3)))).
Proof. reflexivity. Qed.

Lemma D_parse_addressed_S f ts : D.parse_addressed (S f) ts =
    match amp_loop 1%N ts with
    | None => Err DepthExceeded
    | Some (d, ts1) =>
        bind (expect_id_r ts1) (fun '(b, ts2) =>
        bind (D.steps_loop f O ts2) (fun '(steps, ts3) => Ok (Ref d b steps, ts3)))
    end.
Proof. reflexivity. Qed.

Lemma D_parse_reference_S f ts : D.parse_reference (S f) ts =
    match amp_loop 0%N ts with
    | None => Err DepthExceeded
    | Some (d, ts1) =>
        bind (expect_id_r ts1) (fun '(b, ts2) =>
        bind (D.steps_loop f O ts2) (fun '(steps, ts3) => Ok (Ref d b steps, ts3)))
    end.
Proof. reflexivity. Qed.

Lemma D_steps_loop_S f k ts : D.steps_loop (S f) k ts =
    if (REPAIRED_ITERATIONS <=? k)%nat then Err DepthExceeded
    else if isBracketLeft (hdk ts) then
      bind (D.parse_addition f (tl ts)) (fun '(e, ts1) =>
      bind (expect_r isBracketRight ts1) (fun ts2 =>
      bind (D.steps_loop f (S k) ts2) (fun '(ss, ts3) => Ok (RsElement e :: ss, ts3))))
    else if isDot (hdk ts) then
      bind (expect_id_r (tl ts)) (fun '(m, ts1) =>
      bind (D.steps_loop f (S k) ts1) (fun '(ss, ts2) => Ok (RsMember m :: ss, ts2)))
    else Ok ([], ts).
Proof. reflexivity. Qed.

(* ------------------------------------------------------------------------- *)
(* Results                                                                    *)
(* ------------------------------------------------------------------------- *)

Lemma bind_Ok {A B : Type} (r : res A) (k : A -> res B) (b : B) :
  bind r k = Ok b -> exists a, r = Ok a /\ k a = Ok b.
Proof. destruct r as [a|e|]; cbn [bind]; intros H; try discriminate. eauto. Qed.

(* [le_res r r']: r' is r unless r ran out of fuel. *)
Definition le_res {A : Type} (r r' : res A) : Prop := r <> Fuel -> r' = r.

Lemma le_res_refl {A : Type} (r : res A) : le_res r r.
Proof. intros _. reflexivity. Qed.

Lemma le_res_bind {A B : Type} (r r' : res A) (k k' : A -> res B) :
  le_res r r' -> (forall a, le_res (k a) (k' a)) -> le_res (bind r k) (bind r' k').
Proof.
  intros Hr Hk Hn. destruct r as [a|e|]; cbn [bind] in *.
  - rewrite Hr by discriminate. cbn [bind]. now apply Hk.
  - rewrite Hr by discriminate. reflexivity.
  - congruence.
Qed.

Lemma le_res_trans {A : Type} (r1 r2 r3 : res A) : le_res r1 r2 -> le_res r2 r3 -> le_res r1 r3.
Proof. intros H12 H23 Hn. rewrite H23; rewrite H12; auto. Qed.

Ltac mono_tac :=
  repeat first
    [ apply le_res_refl
    | solve [auto]
    | apply le_res_bind; [| first [intros [? ?] | intros ?]]
    | match goal with
      | |- le_res (match ?c with _ => _ end) _ => destruct c
      | |- le_res (let '(_, _) := ?c in _) _ => destruct c
      end ].

Lemma D_parse_inner_type_mono1 f : forall ts,
  le_res (D.parse_inner_type f ts) (D.parse_inner_type (S f) ts).
Proof.
  induction f as [|f IH]; intros ts; [intros H; now elim H|].
  rewrite (D_parse_inner_type_S (S f)), D_parse_inner_type_S. mono_tac.
Qed.

Lemma D_as_loop_mono1 f : forall acc ts, le_res (D.as_loop f acc ts) (D.as_loop (S f) acc ts).
Proof.
  induction f as [|f IH]; intros acc ts; [intros H; now elim H|].
  rewrite (D_as_loop_S (S f)), D_as_loop_S.
  pose proof (D_parse_inner_type_mono1 f) as HT. unfold D.parse_type. mono_tac.
Qed.

Definition mono_all_g (lim f : nat) : Prop :=
  (forall ts, le_res (D.parse_addition_g lim f ts) (D.parse_addition_g lim (S f) ts)) /\
  (forall acc ts, le_res (D.add_loop_g lim f acc ts) (D.add_loop_g lim (S f) acc ts)) /\
  (forall op acc ts, le_res (D.bit_loop_g lim f op acc ts) (D.bit_loop_g lim (S f) op acc ts)) /\
  (forall ts, le_res (D.parse_multiplication_g lim f ts) (D.parse_multiplication_g lim (S f) ts)) /\
  (forall acc ts, le_res (D.mul_loop_g lim f acc ts) (D.mul_loop_g lim (S f) acc ts)) /\
  (forall ts, le_res (D.parse_singular_g lim f ts) (D.parse_singular_g lim (S f) ts)) /\
  (forall ts, le_res (D.parse_unary_g lim f ts) (D.parse_unary_g lim (S f) ts)) /\
  (forall ts, le_res (D.parse_primary_g lim f ts) (D.parse_primary_g lim (S f) ts)) /\
  (forall br ts, le_res (D.expr_list_g lim f br ts) (D.expr_list_g lim (S f) br ts)) /\
  (forall ts, le_res (D.members_loop_g lim f ts) (D.members_loop_g lim (S f) ts)) /\
  (forall ts, le_res (D.parse_addressed_g lim f ts) (D.parse_addressed_g lim (S f) ts)) /\
  (forall ts, le_res (D.parse_reference_g lim f ts) (D.parse_reference_g lim (S f) ts)) /\
  (forall k ts, le_res (D.steps_loop_g lim f k ts) (D.steps_loop_g lim (S f) k ts)).

Lemma Dg_mono_all lim f : mono_all_g lim f.
Proof.
  induction f as [|f IH].
  - unfold mono_all_g. repeat split; intros; intros H; now elim H.
  - destruct IH as (Hadd & Haddl & Hbit & Hmul & Hmull & Hsing & Hun & Hprim & Hlist & Hmem
                    & Haddr & Href & Hsteps).
    pose proof (D_parse_inner_type_mono1 f) as HT.
    pose proof (D_as_loop_mono1 f) as HA.
    unfold mono_all_g. repeat split; intros.
    + rewrite (Dg_parse_addition_S lim (S f)), (Dg_parse_addition_S lim). mono_tac.
    + rewrite (Dg_add_loop_S lim (S f)), (Dg_add_loop_S lim). mono_tac.
    + rewrite (Dg_bit_loop_S lim (S f)), (Dg_bit_loop_S lim). mono_tac.
    + rewrite (Dg_parse_multiplication_S lim (S f)), (Dg_parse_multiplication_S lim). mono_tac.
    + rewrite (Dg_mul_loop_S lim (S f)), (Dg_mul_loop_S lim). mono_tac.
    + rewrite (Dg_parse_singular_S lim (S f)), (Dg_parse_singular_S lim). mono_tac.
    + rewrite (Dg_parse_unary_S lim (S f)), (Dg_parse_unary_S lim). unfold D.parse_type. mono_tac.
    + rewrite (Dg_parse_primary_S lim (S f)), (Dg_parse_primary_S lim). mono_tac.
    + rewrite (Dg_expr_list_S lim (S f)), (Dg_expr_list_S lim). mono_tac.
    + rewrite (Dg_members_loop_S lim (S f)), (Dg_members_loop_S lim). mono_tac.
    + rewrite (Dg_parse_addressed_S lim (S f)), (Dg_parse_addressed_S lim). mono_tac.
    + rewrite (Dg_parse_reference_S lim (S f)), (Dg_parse_reference_S lim). mono_tac.
    + rewrite (Dg_steps_loop_S lim (S f)), (Dg_steps_loop_S lim). mono_tac.
Qed.

Definition mono_all (f : nat) : Prop := mono_all_g REPAIRED_ITERATIONS f.
Lemma D_mono_all f : mono_all f.
Proof. apply Dg_mono_all. Qed.

Lemma le_res_le {A : Type} (g : nat -> res A) :
  (forall f, le_res (g f) (g (S f))) -> forall f f', f <= f' -> le_res (g f) (g f').
Proof.
  intros Hstep f f' Hle. induction Hle as [|f' Hle IH]; [apply le_res_refl|].
  eapply le_res_trans; [exact IH|apply Hstep].
Qed.

(* More fuel never changes a definite answer of the second-generation model
   (whatever the number of iterations of the steps loop). *)
Lemma Dg_parse_addition_mono lim f f' ts r :
  f <= f' -> D.parse_addition_g lim f ts = r -> r <> Fuel -> D.parse_addition_g lim f' ts = r.
Proof.
  intros Hle Hr Hn. subst r.
  apply (le_res_le (fun f => D.parse_addition_g lim f ts)); auto.
  intros f0. apply Dg_mono_all.
Qed.

Theorem D_parse_expression_mono f f' ts r :
  f <= f' -> D.parse_expression_res f ts = r -> r <> Fuel -> D.parse_expression_res f' ts = r.
Proof. apply Dg_parse_addition_mono. Qed.

Theorem D_parse_expression_pinned_mono f f' ts r :
  f <= f' -> D.parse_expression_pinned_res f ts = r -> r <> Fuel ->
  D.parse_expression_pinned_res f' ts = r.
Proof. apply Dg_parse_addition_mono. Qed.

(* ------------------------------------------------------------------------- *)
(* Small facts about the specification-side functions                         *)
(* ------------------------------------------------------------------------- *)

Notation foldE := fold_negative_literals.

Lemma fold_neg_not_binary p : is_binary (fold_neg p) = false.
Proof. destruct p; cbn [fold_neg is_binary]; try reflexivity;
  match goal with |- context [if ?c then _ else _] => destruct c end; reflexivity. Qed.

Lemma is_binary_fold e : is_binary (foldE e) = is_binary e.
Proof.
  destruct e; try reflexivity.
  destruct op; cbn [fold_negative_literals is_binary]; [apply fold_neg_not_binary|reflexivity].
Qed.

Lemma steps_ok_fold_neg lim p : steps_ok_g lim (fold_neg p) = steps_ok_g lim p.
Proof. destruct p; cbn [fold_neg steps_ok_g]; try reflexivity;
  match goal with |- context [if ?c then _ else _] => destruct c end; reflexivity. Qed.

Lemma R_minus_is_fold_neg (p : expr) (ts1 : list tok) :
  match p with
  | ESigned v t =>
      if (0 <? v)%Z then Some (ESigned (- v) t, ts1)
      else Some (EUnary Negative (ESigned v t), ts1)
  | EBits v t =>
      if (v =? i128_min_abs)%Z then Some (ESigned (- i128_min_abs) t, ts1)
      else Some (EUnary Negative (EBits v t), ts1)
  | e => Some (EUnary Negative e, ts1)
  end = Some (fold_neg p, ts1).
Proof. destruct p; cbn [fold_neg]; try reflexivity;
  match goal with |- context [if ?c then _ else _] => destruct c end; reflexivity. Qed.

Lemma bitop_of_is_bitop k op : bitop_of k = Some op -> is_bitop op = true.
Proof. destruct k; cbn; intros H; inversion H; reflexivity. Qed.
Lemma shiftop_of_is_shiftop k op : shiftop_of k = Some op -> is_bitop op = false /\ is_shiftop op = true.
Proof. destruct k; cbn; intros H; inversion H; split; reflexivity. Qed.
Lemma addop_left_ok k op l : addop_of k = Some op -> left_ok op l = true.
Proof. destruct k; cbn; intros H; inversion H; reflexivity. Qed.
Lemma mulop_left_ok k op l : mulop_of k = Some op -> left_ok op l = true.
Proof. destruct k; cbn; intros H; inversion H; reflexivity. Qed.
Lemma binop_eqb_refl op : binop_eqb op op = true.
Proof. destruct op; reflexivity. Qed.

Lemma literal_facts lim t e : literal_of t = Some e ->
  steps_ok_g lim e = true /\ foldE e = e /\ admissible e = true.
Proof.
  unfold literal_of. intros H.
  destruct (kind t); try discriminate;
  repeat match type of H with
  | Some _ = Some _ => inversion H; subst; clear H
  | match ?x with _ => _ end = Some _ => destruct x; try discriminate H
  end; repeat split; reflexivity.
Qed.

(* ------------------------------------------------------------------------- *)
(* Types                                                                      *)
(* ------------------------------------------------------------------------- *)

Ltac rdes H :=
  repeat match type of H with
  | Some _ = Some _ => inversion H; subst; clear H
  | match ?x with _ => _ end = Some _ => destruct x eqn:?; try discriminate H
  end.

Lemma type_R_D f : forall ts x,
  R.parse_inner_type f ts = Some x -> D.parse_inner_type f ts = Ok x.
Proof.
  induction f as [|f IH]; intros ts x H; [discriminate|].
  rewrite parse_inner_type_S in H. rewrite D_parse_inner_type_S.
  unfold expect_r.
  destruct ts as [|t ts1]; [discriminate|].
  destruct (kind t); try discriminate H;
  repeat match goal with
  | H : Some _ = Some _ |- _ => inversion H; subst; clear H
  | H : R.parse_inner_type f _ = Some _ |- _ => apply IH in H; rewrite H; cbn [bind]
  | H : match ?x with _ => _ end = Some _ |- _ => destruct x eqn:?; try discriminate H
  | |- _ => progress cbn [of_opt bind]
  end; reflexivity.
Qed.

Lemma wf_type_R_D f ts t ts1 :
  R.parse_wellformed_type f ts = Some (t, ts1) ->
  D.parse_type f ts = Ok (t, ts1) /\ ty_wellformed t = true.
Proof.
  unfold R.parse_wellformed_type, D.parse_type. intros H.
  destruct (R.parse_inner_type f ts) as [[t0 r0]|] eqn:Hi; [|discriminate].
  destruct (ty_wellformed t0) eqn:Hw; [|discriminate]. inversion H; subst.
  split; [now apply type_R_D|assumption].
Qed.

(* ------------------------------------------------------------------------- *)
(* Reference accepts => second generation builds the same tree (or rejects a  *)
(* reference with 127 steps)                                                  *)
(* ------------------------------------------------------------------------- *)

Lemma expect_tl p ts r : expect p ts = Some r -> r = tl ts.
Proof. destruct ts as [|t ts']; cbn [expect]; [discriminate|].
  destruct (p (kind t)); [|discriminate]. intros H; inversion H; reflexivity. Qed.

Lemma amp_loop_count : forall ts d0, (d0 <= MAX_ADDRESS_DEPTH)%N ->
  amp_loop d0 ts =
    let '(n, r) := count_amps ts in
    if (MAX_ADDRESS_DEPTH <? d0 + n)%N then None else Some ((d0 + n)%N, r).
Proof.
  induction ts as [|t ts IH]; intros d0 Hd; cbn [amp_loop count_amps].
  - rewrite N.add_0_r. destruct (N.ltb_spec MAX_ADDRESS_DEPTH d0); [lia|reflexivity].
  - destruct (isAmpersand (kind t)).
    + destruct (N.ltb_spec MAX_ADDRESS_DEPTH (d0 + 1)) as [Hlt|Hge].
      * destruct (count_amps ts) as [n r].
        destruct (N.ltb_spec MAX_ADDRESS_DEPTH (d0 + N.succ n)); [reflexivity|lia].
      * rewrite IH by lia. destruct (count_amps ts) as [n r].
        replace (d0 + 1 + n)%N with (d0 + N.succ n)%N by lia. reflexivity.
    + rewrite N.add_0_r. destruct (N.ltb_spec MAX_ADDRESS_DEPTH d0); [lia|reflexivity].
Qed.

Section PA_generic.
  Variable lim : nat.
  Hypothesis lim_pos : 1 <= lim.

Lemma steps_bin_l op l r : steps_ok_g lim l = false -> steps_ok_g lim (EBinary op l r) = false.
Proof. intros H. cbn [steps_ok_g]. now rewrite H. Qed.
Lemma steps_bin_r op l r : steps_ok_g lim r = false -> steps_ok_g lim (EBinary op l r) = false.
Proof. intros H. cbn [steps_ok_g]. rewrite H. apply andb_false_r. Qed.

Lemma R_as_loop_steps f : forall acc ts e rest,
  R.as_loop f acc ts = Some (e, rest) -> steps_ok_g lim acc = false -> steps_ok_g lim e = false.
Proof.
  induction f as [|f IH]; intros acc ts e rest H Hs; [discriminate|].
  rewrite as_loop_S in H. destruct (isAs (hdk ts)).
  - destruct (R.parse_wellformed_type f (tl ts)) as [[t ts1]|]; [|discriminate].
    eapply IH; [exact H|exact Hs].
  - inversion H; subst; assumption.
Qed.

Lemma R_mul_loop_steps f : forall nb acc ts e rest,
  R.mul_loop f nb acc ts = Some (e, rest) -> steps_ok_g lim acc = false -> steps_ok_g lim e = false.
Proof.
  induction f as [|f IH]; intros nb acc ts e rest H Hs; [discriminate|].
  rewrite mul_loop_S in H. destruct (mulop_of (hdk ts)) as [op|].
  - destruct (R.parse_singular f nb (tl ts)) as [[r ts1]|]; [|discriminate].
    eapply IH; [exact H|now apply steps_bin_l].
  - inversion H; subst; assumption.
Qed.

Lemma R_bit_loop_steps f : forall nb op acc ts e rest,
  R.bit_loop f nb op acc ts = Some (e, rest) -> steps_ok_g lim acc = false -> steps_ok_g lim e = false.
Proof.
  induction f as [|f IH]; intros nb op acc ts e rest H Hs; [discriminate|].
  rewrite bit_loop_S in H.
  destruct (R.parse_unary f nb ts) as [[r ts1]|]; [|discriminate].
  destruct (same_bitop op (hdk ts1)).
  - eapply IH; [exact H|now apply steps_bin_l].
  - inversion H; subst. now apply steps_bin_l.
Qed.

Lemma R_add_loop_steps f : forall nb acc ts e rest,
  R.add_loop f nb acc ts = Some (e, rest) -> steps_ok_g lim acc = false -> steps_ok_g lim e = false.
Proof.
  induction f as [|f IH]; intros nb acc ts e rest H Hs; [discriminate|].
  rewrite add_loop_S in H. destruct (bitop_of (hdk ts)) as [op|].
  - destruct (is_binary acc); [discriminate|]. eapply R_bit_loop_steps; eauto.
  - destruct (shiftop_of (hdk ts)) as [op|].
    + destruct (is_binary acc); [discriminate|].
      destruct (R.parse_unary f nb (tl ts)) as [[r ts1]|]; [|discriminate].
      inversion H; subst. now apply steps_bin_l.
    + destruct (addop_of (hdk ts)) as [op|].
      * destruct (R.parse_multiplication f nb (tl ts)) as [[r ts1]|]; [|discriminate].
        eapply IH; [exact H|now apply steps_bin_l].
      * inversion H; subst; assumption.
Qed.

Definition Acc {A : Type} (ok : A -> bool) (rel : A -> A -> Prop)
    (rd : res (A * list tok)) (a : A) (rest : list tok) : Prop :=
  if ok a then exists a', rd = Ok (a', rest) /\ rel a' a else rd = Err DepthExceeded.

Lemma Acc_ok {A : Type} (ok : A -> bool) (rel : A -> A -> Prop) rd (a a' : A) rest :
  ok a = true -> rd = Ok (a', rest) -> rel a' a -> Acc ok rel rd a rest.
Proof. intros H1 H2 H3. unfold Acc. rewrite H1. eauto. Qed.

Lemma Acc_dead {A : Type} (ok : A -> bool) (rel : A -> A -> Prop) rd (a : A) rest :
  ok a = false -> rd = Err DepthExceeded -> Acc ok rel rd a rest.
Proof. intros H1 H2. unfold Acc. now rewrite H1. Qed.

Definition relE (e' e : expr) : Prop := foldE e' = e /\ admissible e' = true.
Definition relR (r' r : reference) : Prop := fold_ref r' = r /\ adm_ref r' = true.
Definition relL (es' es : list expr) : Prop :=
  map fold_negative_literals es' = es /\ forallb admissible es' = true.
Definition fold_member (me : name * expr) : name * expr := (fst me, foldE (snd me)).
Definition relM (ms' ms : list (name * expr)) : Prop :=
  map fold_member ms' = ms /\ forallb (fun me => admissible (snd me)) ms' = true.
Definition relS (ss' ss : list step) : Prop :=
  map fold_step ss' = ss /\ forallb adm_step ss' = true.

Definition okL (es : list expr) : bool := forallb (steps_ok_g lim) es.
Definition okM (ms : list (name * expr)) : bool := forallb (fun me => steps_ok_g lim (snd me)) ms.
Definition okS (k : nat) (ss : list step) : bool :=
  (k + length ss <? lim)%nat && forallb (steps_ok_step_g lim) ss.

Notation AccE := (Acc (steps_ok_g lim) relE).
Notation AccR := (Acc (steps_ok_ref_g lim) relR).
Notation AccL := (Acc okL relL).
Notation AccM := (Acc okM relM).
Notation AccS k := (Acc (okS k) relS).

Record PA (f : nat) : Prop := {
  pa_add : forall ts e rest, R.parse_addition f false ts = Some (e, rest) ->
           AccE (D.parse_addition_g lim f ts) e rest;
  pa_addl : forall acc' ts e rest, admissible acc' = true -> steps_ok_g lim (foldE acc') = true ->
           R.add_loop f false (foldE acc') ts = Some (e, rest) ->
           AccE (D.add_loop_g lim f acc' ts) e rest;
  pa_bit : forall op acc' ts e rest, is_bitop op = true ->
           admissible acc' = true -> left_ok op acc' = true -> steps_ok_g lim (foldE acc') = true ->
           R.bit_loop f false op (foldE acc') ts = Some (e, rest) ->
           AccE (D.bit_loop_g lim f op acc' ts) e rest;
  pa_mul : forall ts e rest, R.parse_multiplication f false ts = Some (e, rest) ->
           AccE (D.parse_multiplication_g lim f ts) e rest;
  pa_mull : forall acc' ts e rest, admissible acc' = true -> steps_ok_g lim (foldE acc') = true ->
           R.mul_loop f false (foldE acc') ts = Some (e, rest) ->
           AccE (D.mul_loop_g lim f acc' ts) e rest;
  pa_sing : forall ts e rest, R.parse_singular f false ts = Some (e, rest) ->
           AccE (D.parse_singular_g lim f ts) e rest;
  pa_asl : forall acc' ts e rest, admissible acc' = true -> steps_ok_g lim (foldE acc') = true ->
           R.as_loop f (foldE acc') ts = Some (e, rest) ->
           AccE (D.as_loop f acc' ts) e rest;
  pa_un : forall ts e rest, R.parse_unary f false ts = Some (e, rest) ->
           AccE (D.parse_unary_g lim f ts) e rest;
  pa_prim : forall ts e rest, R.parse_primary f false ts = Some (e, rest) ->
           AccE (D.parse_primary_g lim f ts) e rest;
  pa_list : forall br ts es ts2 ts3, R.expr_list f false br ts = Some (es, ts2) ->
           expect (is_close br) ts2 = Some ts3 ->
           AccL (D.expr_list_g lim f br ts) es ts3;
  pa_mem : forall ts ms ts2 ts3, R.members_loop f false ts = Some (ms, ts2) ->
           expect isBraceRight ts2 = Some ts3 ->
           AccM (D.members_loop_g lim f ts) ms ts3;
  pa_addr : forall ts d b steps rest,
           R.parse_reference f false ts = Some (Ref d b steps, rest) ->
           (MAX_ADDRESS_DEPTH <? d + 1)%N = false ->
           AccR (D.parse_addressed_g lim f ts) (Ref (d + 1)%N b steps) rest;
  pa_ref : forall ts r rest, R.parse_reference f false ts = Some (r, rest) ->
           AccR (D.parse_reference_g lim f ts) r rest;
  pa_steps : forall k ts ss rest, R.steps_loop f false k ts = Some (ss, rest) ->
           AccS k (D.steps_loop_g lim f k ts) ss rest
}.

Ltac accE H :=
  unfold Acc in H;
  match type of H with
  | (if ?c then _ else _) =>
      let Hs := fresh "Hs" in
      destruct c eqn:Hs;
      [ let x := fresh "x'" in let Hd := fresh "Hd" in let Hf := fresh "Hf" in
        let Ha := fresh "Ha" in
        destruct H as (x & Hd & Hf & Ha); rewrite Hd; cbn [bind]; try subst
      | rewrite H; cbn [bind] ]
  end.

Ltac brw :=
  repeat match goal with
  | H : _ = true |- _ => progress rewrite H
  | H : _ = false |- _ => progress rewrite H
  end.

Ltac bsolve :=
  cbn [steps_ok_g steps_ok_ref_g steps_ok_step_g forallb admissible adm_ref adm_step
       fold_negative_literals fold_ref fold_step map length snd fst okL okM fold_member];
  brw; rewrite ?andb_false_r, ?andb_true_r; try reflexivity.

Lemma PA_0 : PA 0.
Proof. constructor; intros; discriminate. Qed.


Lemma okS_cons k s ss : okS k (s :: ss) = steps_ok_step_g lim s && okS (S k) ss.
Proof.
  unfold okS. cbn [length forallb]. rewrite Nat.add_succ_r. cbn [plus].
  destruct (S (k + length ss) <? lim)%nat, (steps_ok_step_g lim s),
    (forallb (steps_ok_step_g lim) ss); reflexivity.
Qed.

Section PA_step.
  Variable f : nat.
  Hypothesis IH : PA f.

  Lemma pa_add_S : forall ts e rest, R.parse_addition (S f) false ts = Some (e, rest) ->
    AccE (D.parse_addition_g lim (S f) ts) e rest.
  Proof.
    intros ts e rest H. rewrite parse_addition_S in H. rewrite (Dg_parse_addition_S lim).
    destruct (R.parse_multiplication f false ts) as [[m ts1]|] eqn:Hm; [|discriminate].
    apply (pa_mul f IH) in Hm. accE Hm.
    - apply (pa_addl f IH); assumption.
    - apply Acc_dead; [|reflexivity]. eapply R_add_loop_steps; eauto.
  Qed.

  Lemma pa_addl_S : forall acc' ts e rest, admissible acc' = true ->
    steps_ok_g lim (foldE acc') = true ->
    R.add_loop (S f) false (foldE acc') ts = Some (e, rest) ->
    AccE (D.add_loop_g lim (S f) acc' ts) e rest.
  Proof.
    intros acc' ts e rest Ha Hs H. rewrite add_loop_S in H. rewrite (Dg_add_loop_S lim).
    destruct (bitop_of (hdk ts)) as [op|] eqn:Hb.
    - destruct (is_binary (foldE acc')) eqn:Hbin; [discriminate|].
      rewrite is_binary_fold in Hbin.
      apply (pa_bit f IH); auto.
      + eapply bitop_of_is_bitop; eauto.
      + unfold left_ok. rewrite (bitop_of_is_bitop _ _ Hb), Hbin. reflexivity.
    - destruct (shiftop_of (hdk ts)) as [op|] eqn:Hsh.
      + destruct (is_binary (foldE acc')) eqn:Hbin; [discriminate|].
        rewrite is_binary_fold in Hbin.
        destruct (R.parse_unary f false (tl ts)) as [[r ts1]|] eqn:Hu; [|discriminate].
        inversion H; subst; clear H.
        apply (pa_un f IH) in Hu. accE Hu.
        * eapply Acc_ok; [|reflexivity|split]; bsolve.
          destruct (shiftop_of_is_shiftop _ _ Hsh) as [H1 H2].
          unfold left_ok. rewrite H1, H2, Hbin. reflexivity.
        * apply Acc_dead; [|reflexivity]. now apply steps_bin_r.
      + destruct (addop_of (hdk ts)) as [op|] eqn:Hao.
        * destruct (R.parse_multiplication f false (tl ts)) as [[r ts1]|] eqn:Hm; [|discriminate].
          apply (pa_mul f IH) in Hm. accE Hm.
          -- apply (pa_addl f IH); [| |exact H]; bsolve.
             eapply addop_left_ok; eauto.
          -- apply Acc_dead; [|reflexivity]. eapply R_add_loop_steps; [exact H|].
             now apply steps_bin_r.
        * inversion H; subst. eapply Acc_ok; [exact Hs|reflexivity|split; auto].
  Qed.

  Lemma pa_bit_S : forall op acc' ts e rest, is_bitop op = true ->
    admissible acc' = true -> left_ok op acc' = true -> steps_ok_g lim (foldE acc') = true ->
    R.bit_loop (S f) false op (foldE acc') ts = Some (e, rest) ->
    AccE (D.bit_loop_g lim (S f) op acc' ts) e rest.
  Proof.
    intros op acc' ts e rest Hop Ha Hl Hs H. rewrite bit_loop_S in H. rewrite (Dg_bit_loop_S lim).
    destruct (R.parse_unary f false ts) as [[r ts1]|] eqn:Hu; [|discriminate].
    apply (pa_un f IH) in Hu. accE Hu.
    - destruct (same_bitop op (hdk ts1)).
      + apply (pa_bit f IH) with (acc' := EBinary op acc' x'); auto; bsolve.
        unfold left_ok. rewrite Hop. cbn [is_binary head_is negb orb]. apply binop_eqb_refl.
      + inversion H; subst. eapply Acc_ok; [|reflexivity|split]; bsolve.
    - apply Acc_dead; [|reflexivity]. destruct (same_bitop op (hdk ts1)).
      + eapply R_bit_loop_steps; [exact H|]. now apply steps_bin_r.
      + inversion H; subst. now apply steps_bin_r.
  Qed.

  Lemma pa_mul_S : forall ts e rest, R.parse_multiplication (S f) false ts = Some (e, rest) ->
    AccE (D.parse_multiplication_g lim (S f) ts) e rest.
  Proof.
    intros ts e rest H. rewrite parse_multiplication_S in H. rewrite (Dg_parse_multiplication_S lim).
    destruct (R.parse_singular f false ts) as [[m ts1]|] eqn:Hm; [|discriminate].
    apply (pa_sing f IH) in Hm. accE Hm.
    - apply (pa_mull f IH); assumption.
    - apply Acc_dead; [|reflexivity]. eapply R_mul_loop_steps; eauto.
  Qed.

  Lemma pa_mull_S : forall acc' ts e rest, admissible acc' = true ->
    steps_ok_g lim (foldE acc') = true ->
    R.mul_loop (S f) false (foldE acc') ts = Some (e, rest) ->
    AccE (D.mul_loop_g lim (S f) acc' ts) e rest.
  Proof.
    intros acc' ts e rest Ha Hs H. rewrite mul_loop_S in H. rewrite (Dg_mul_loop_S lim).
    destruct (mulop_of (hdk ts)) as [op|] eqn:Hmo.
    - destruct (R.parse_singular f false (tl ts)) as [[r ts1]|] eqn:Hm; [|discriminate].
      apply (pa_sing f IH) in Hm. accE Hm.
      + apply (pa_mull f IH); [| |exact H]; bsolve. eapply mulop_left_ok; eauto.
      + apply Acc_dead; [|reflexivity]. eapply R_mul_loop_steps; [exact H|].
        now apply steps_bin_r.
    - inversion H; subst. eapply Acc_ok; [exact Hs|reflexivity|split; auto].
  Qed.

  Lemma pa_sing_S : forall ts e rest, R.parse_singular (S f) false ts = Some (e, rest) ->
    AccE (D.parse_singular_g lim (S f) ts) e rest.
  Proof.
    intros ts e rest H. rewrite parse_singular_S in H. rewrite (Dg_parse_singular_S lim).
    destruct (isCast (hdk ts)).
    - destruct (R.parse_unary f false (tl ts)) as [[u ts1]|] eqn:Hu; [|discriminate].
      apply (pa_un f IH) in Hu. accE Hu.
      + apply (pa_asl f IH) with (acc' := EBitCast x'); [| |exact H]; bsolve.
      + apply Acc_dead; [|reflexivity]. eapply R_as_loop_steps; [exact H|exact Hs].
    - destruct (R.parse_unary f false ts) as [[u ts1]|] eqn:Hu; [|discriminate].
      apply (pa_un f IH) in Hu. accE Hu.
      + apply (pa_asl f IH); assumption.
      + apply Acc_dead; [|reflexivity]. eapply R_as_loop_steps; [exact H|exact Hs].
  Qed.

  Lemma pa_asl_S : forall acc' ts e rest, admissible acc' = true ->
    steps_ok_g lim (foldE acc') = true ->
    R.as_loop (S f) (foldE acc') ts = Some (e, rest) ->
    AccE (D.as_loop (S f) acc' ts) e rest.
  Proof.
    intros acc' ts e rest Ha Hs H. rewrite as_loop_S in H. rewrite D_as_loop_S.
    destruct (isAs (hdk ts)).
    - destruct (R.parse_wellformed_type f (tl ts)) as [[t ts1]|] eqn:Ht; [|discriminate].
      apply wf_type_R_D in Ht as [Ht Hw]. rewrite Ht. cbn [bind].
      apply (pa_asl f IH) with (acc' := ETypeCast acc' t); [| |exact H]; bsolve.
    - inversion H; subst. eapply Acc_ok; [exact Hs|reflexivity|split; auto].
  Qed.

  Lemma pa_un_S : forall ts e rest, R.parse_unary (S f) false ts = Some (e, rest) ->
    AccE (D.parse_unary_g lim (S f) ts) e rest.
  Proof.
    intros ts e rest H. rewrite parse_unary_S in H. rewrite (Dg_parse_unary_S lim).
    destruct (hdk ts) eqn:Hk; try (apply (pa_prim f IH); exact H).
    - (* KPipe *)
      destruct (R.parse_reference f false (tl ts)) as [[r ts1]|] eqn:Hr; [|discriminate].
      destruct (expect isPipe ts1) as [ts2|] eqn:Hp; [|discriminate].
      inversion H; subst; clear H.
      apply (pa_ref f IH) in Hr. accE Hr.
      + unfold expect_r. rewrite Hp. cbn [of_opt bind].
        eapply Acc_ok; [|reflexivity|split]; bsolve.
      + apply Acc_dead; [|reflexivity]. exact Hs.
    - (* KExclamation *)
      destruct (R.parse_primary f false (tl ts)) as [[p ts1]|] eqn:Hp; [|discriminate].
      inversion H; subst; clear H.
      apply (pa_prim f IH) in Hp. accE Hp.
      + eapply Acc_ok; [|reflexivity|split]; bsolve.
      + apply Acc_dead; [|reflexivity]. exact Hs.
    - (* KMinus *)
      destruct (R.parse_primary f false (tl ts)) as [[p ts1]|] eqn:Hp; [|discriminate].
      rewrite R_minus_is_fold_neg in H. inversion H; subst; clear H.
      apply (pa_prim f IH) in Hp. accE Hp.
      + eapply Acc_ok; [|reflexivity|split].
        * rewrite steps_ok_fold_neg. exact Hs.
        * reflexivity.
        * exact Ha.
      + apply Acc_dead; [|reflexivity]. rewrite steps_ok_fold_neg. exact Hs.
    - (* KPipeForType *)
      destruct (R.parse_wellformed_type f (tl ts)) as [[t ts1]|] eqn:Ht; [|discriminate].
      destruct (expect isPipe ts1) as [ts2|] eqn:Hp; [|discriminate].
      inversion H; subst; clear H.
      apply wf_type_R_D in Ht as [Ht Hw]. rewrite Ht. cbn [bind].
      unfold expect_r. rewrite Hp. cbn [of_opt bind].
      eapply Acc_ok; [reflexivity|reflexivity|split; [reflexivity|exact Hw]].
  Qed.

  Lemma pa_prim_S : forall ts e rest, R.parse_primary (S f) false ts = Some (e, rest) ->
    AccE (D.parse_primary_g lim (S f) ts) e rest.
  Proof.
    intros ts e rest H. rewrite parse_primary_S in H. rewrite (Dg_parse_primary_S lim).
    destruct ts as [|t ts1]; [discriminate|].
    destruct (kind t) eqn:Hk; try discriminate H.
    - (* KParenLeft *)
      destruct (R.parse_addition f false ts1) as [[e0 ts2]|] eqn:He; [|discriminate].
      destruct (expect isParenRight ts2) as [ts3|] eqn:Hp; [|discriminate].
      inversion H; subst; clear H.
      apply (pa_add f IH) in He. accE He.
      + unfold expect_r. rewrite Hp. cbn [of_opt bind].
        eapply Acc_ok; [|reflexivity|split]; bsolve.
      + apply Acc_dead; [|reflexivity]. exact Hs.
    - (* KBracketLeft *)
      destruct (R.expr_list f false true ts1) as [[es ts2]|] eqn:Hl; [|discriminate].
      destruct (expect isBracketRight ts2) as [ts3|] eqn:Hp; [|discriminate].
      inversion H; subst; clear H.
      eapply (pa_list f IH) in Hl; [|exact Hp]. accE Hl.
      + eapply Acc_ok; [exact Hs|reflexivity|split; [reflexivity|exact Ha]].
      + apply Acc_dead; [|reflexivity]. exact Hs.
    - (* KAmpersand *)
      destruct (R.parse_reference f false ts1) as [[[d b steps] ts2]|] eqn:Hr; [|discriminate].
      destruct (MAX_ADDRESS_DEPTH <? d + 1)%N eqn:Hd; [discriminate|].
      apply (pa_addr f IH) in Hr; [|exact Hd]. cbv zeta in H. accE Hr.
      + rewrite <- Hf in *. destruct (isDots (hdk ts2)).
        * destruct (R.parse_addition f false (tl ts2)) as [[off ts3]|] eqn:Ho; [|discriminate].
          inversion H; subst; clear H.
          apply (pa_add f IH) in Ho. accE Ho.
          -- eapply Acc_ok; [|reflexivity|split]; bsolve.
          -- apply Acc_dead; [|reflexivity]. now apply steps_bin_r.
        * inversion H; subst; clear H.
          eapply Acc_ok; [exact Hs|reflexivity|split; [reflexivity|exact Ha]].
      + apply Acc_dead; [|reflexivity]. destruct (isDots (hdk ts2)).
        * destruct (R.parse_addition f false (tl ts2)) as [[off ts3]|] eqn:Ho; [|discriminate].
          inversion H; subst; clear H. apply steps_bin_l. exact Hs.
        * inversion H; subst; clear H. exact Hs.
    - (* KIdentifier *)
      destruct (isParenLeft (hdk ts1)) eqn:Hpl.
      + destruct (R.expr_list f false false (tl ts1)) as [[args ts2]|] eqn:Hl; [|discriminate].
        destruct (expect isParenRight ts2) as [ts3|] eqn:Hp; [|discriminate].
        inversion H; subst; clear H.
        eapply (pa_list f IH) in Hl; [|exact Hp]. accE Hl.
        * eapply Acc_ok; [exact Hs|reflexivity|split; [reflexivity|exact Ha]].
        * apply Acc_dead; [|reflexivity]. exact Hs.
      + cbn [negb] in H. rewrite andb_true_r in H.
        destruct (isBraceLeft (hdk ts1)) eqn:Hbl.
        * destruct (R.members_loop f false (tl ts1)) as [[ms ts2]|] eqn:Hm; [|discriminate].
          destruct (expect isBraceRight ts2) as [ts3|] eqn:Hp; [|discriminate].
          inversion H; subst; clear H.
          eapply (pa_mem f IH) in Hm; [|exact Hp]. accE Hm.
          -- eapply Acc_ok; [exact Hs|reflexivity|split; [reflexivity|exact Ha]].
          -- apply Acc_dead; [|reflexivity]. exact Hs.
        * destruct (R.steps_loop f false 0 ts1) as [[ss ts2]|] eqn:Hst; [|discriminate].
          inversion H; subst; clear H.
          apply (pa_steps f IH) in Hst. accE Hst.
          -- eapply Acc_ok; [exact Hs|reflexivity|split; [reflexivity|exact Ha]].
          -- apply Acc_dead; [|reflexivity]. exact Hs.
    - (* KBuiltin *)
      destruct (expect isParenLeft ts1) as [ts2|] eqn:Hp1; [|discriminate].
      destruct (R.expr_list f false false ts2) as [[args ts3]|] eqn:Hl; [|discriminate].
      destruct (expect isParenRight ts3) as [ts4|] eqn:Hp; [|discriminate].
      inversion H; subst; clear H.
      unfold expect_r. rewrite Hp1. cbn [of_opt bind].
      eapply (pa_list f IH) in Hl; [|exact Hp]. accE Hl.
      + eapply Acc_ok; [exact Hs|reflexivity|split; [reflexivity|exact Ha]].
      + apply Acc_dead; [|reflexivity]. exact Hs.
    - destruct (literal_of t) as [e0|] eqn:Hl; [|discriminate]. inversion H; subst.
      destruct (literal_facts lim _ _ Hl) as (H1 & H2 & H3).
      eapply Acc_ok; [exact H1|reflexivity|split; assumption].
    - destruct (literal_of t) as [e0|] eqn:Hl; [|discriminate]. inversion H; subst.
      destruct (literal_facts lim _ _ Hl) as (H1 & H2 & H3).
      eapply Acc_ok; [exact H1|reflexivity|split; assumption].
    - destruct (literal_of t) as [e0|] eqn:Hl; [|discriminate]. inversion H; subst.
      destruct (literal_facts lim _ _ Hl) as (H1 & H2 & H3).
      eapply Acc_ok; [exact H1|reflexivity|split; assumption].
    - destruct (literal_of t) as [e0|] eqn:Hl; [|discriminate]. inversion H; subst.
      destruct (literal_facts lim _ _ Hl) as (H1 & H2 & H3).
      eapply Acc_ok; [exact H1|reflexivity|split; assumption].
    - destruct (literal_of t) as [e0|] eqn:Hl; [|discriminate]. inversion H; subst.
      destruct (literal_facts lim _ _ Hl) as (H1 & H2 & H3).
      eapply Acc_ok; [exact H1|reflexivity|split; assumption].
    - (* KStringLiteral *)
      destruct (take_strings ts1) as [bs ts2]. inversion H; subst.
      eapply Acc_ok; [reflexivity|reflexivity|split; reflexivity].
  Qed.

  Lemma pa_list_S : forall br ts es ts2 ts3,
    R.expr_list (S f) false br ts = Some (es, ts2) ->
    expect (is_close br) ts2 = Some ts3 ->
    AccL (D.expr_list_g lim (S f) br ts) es ts3.
  Proof.
    intros br ts es ts2 ts3 H Hc. rewrite expr_list_S in H. rewrite (Dg_expr_list_S lim).
    destruct (is_close br (hdk ts)) eqn:Hcl.
    - inversion H; subst. apply expect_tl in Hc. subst ts3.
      eapply Acc_ok; [reflexivity|reflexivity|split; reflexivity].
    - destruct (R.parse_addition f false ts) as [[e ts1]|] eqn:He; [|discriminate].
      apply (pa_add f IH) in He. accE He.
      + destruct (isComma (hdk ts1)).
        * destruct (R.expr_list f false br (tl ts1)) as [[es0 ts2']|] eqn:Hl; [|discriminate].
          inversion H; subst; clear H.
          eapply (pa_list f IH) in Hl; [|exact Hc]. accE Hl.
          -- unfold okL in *. eapply Acc_ok; [|reflexivity|split]; bsolve.
          -- unfold okL in *. apply Acc_dead; [|reflexivity]. bsolve.
        * inversion H; subst; clear H. unfold expect_r. rewrite Hc. cbn [of_opt bind].
          eapply Acc_ok; [|reflexivity|split]; bsolve.
      + apply Acc_dead; [|reflexivity]. destruct (isComma (hdk ts1)).
        * destruct (R.expr_list f false br (tl ts1)) as [[es0 ts2']|] eqn:Hl; [|discriminate].
          inversion H; subst; clear H. bsolve.
        * inversion H; subst; clear H. bsolve.
  Qed.

  Lemma pa_mem_tail : forall n x' ts2 ms tsA ts3,
    admissible x' = true -> steps_ok_g lim (foldE x') = true ->
    (if isComma (hdk ts2)
     then match R.members_loop f false (tl ts2) with
          | Some (ms0, tsB) => Some ((n, foldE x') :: ms0, tsB)
          | None => None
          end
     else Some ([(n, foldE x')], ts2)) = Some (ms, tsA) ->
    expect isBraceRight tsA = Some ts3 ->
    AccM (if isComma (hdk ts2)
          then bind (D.members_loop_g lim f (tl ts2)) (fun '(ms0, tsB) => Ok ((n, x') :: ms0, tsB))
          else bind (expect_r isBraceRight ts2) (fun tsB => Ok ([(n, x')], tsB))) ms ts3.
  Proof.
    intros n x' ts2 ms tsA ts3 Ha Hs H Hc. destruct (isComma (hdk ts2)).
    - destruct (R.members_loop f false (tl ts2)) as [[ms0 tsB]|] eqn:Hm; [|discriminate].
      inversion H; subst; clear H.
      eapply (pa_mem f IH) in Hm; [|exact Hc]. accE Hm.
      + unfold okM in *. eapply Acc_ok; [|reflexivity|split]; bsolve.
      + unfold okM in *. apply Acc_dead; [|reflexivity]. bsolve.
    - inversion H; subst; clear H. unfold expect_r. rewrite Hc. cbn [of_opt bind].
      eapply Acc_ok; [|reflexivity|split]; bsolve.
  Qed.

  Lemma pa_mem_S : forall ts ms ts2 ts3,
    R.members_loop (S f) false ts = Some (ms, ts2) ->
    expect isBraceRight ts2 = Some ts3 ->
    AccM (D.members_loop_g lim (S f) ts) ms ts3.
  Proof.
    intros ts ms ts2 ts3 H Hc. rewrite members_loop_S in H. rewrite (Dg_members_loop_S lim).
    destruct (isBraceRight (hdk ts)) eqn:Hcl.
    - inversion H; subst. apply expect_tl in Hc. subst ts3.
      eapply Acc_ok; [reflexivity|reflexivity|split; reflexivity].
    - destruct (expect_id ts) as [[n ts1]|] eqn:Hid; [|discriminate].
      unfold expect_id_r. rewrite Hid. cbn [of_opt bind]. cbv zeta in H.
      destruct (isColon (hdk ts1)).
      + destruct (R.parse_addition f false (tl ts1)) as [[e tsv]|] eqn:He; [|discriminate].
        apply (pa_add f IH) in He. accE He.
        * eapply pa_mem_tail; eauto.
        * apply Acc_dead; [|reflexivity]. destruct (isComma (hdk tsv)).
          -- destruct (R.members_loop f false (tl tsv)) as [[ms0 tsB]|]; [|discriminate].
             inversion H; subst; clear H. bsolve.
          -- inversion H; subst; clear H. bsolve.
      + cbn [bind].
        apply (pa_mem_tail n (EDeref (Ref 0%N n [])) ts1 ms ts2 ts3); auto.
        cbn. destruct lim; [lia|reflexivity].
  Qed.

  Lemma pa_steps_S : forall k ts ss rest,
    R.steps_loop (S f) false k ts = Some (ss, rest) ->
    AccS k (D.steps_loop_g lim (S f) k ts) ss rest.
  Proof.
    intros k ts ss rest H. rewrite steps_loop_S in H. rewrite (Dg_steps_loop_S lim).
    destruct (Nat.leb_spec lim k) as [Hk|Hk].
    - apply Acc_dead; [|reflexivity]. unfold okS.
      destruct (Nat.ltb_spec (k + length ss) lim); [lia|reflexivity].
    - destruct (isBracketLeft (hdk ts)).
      + destruct (R.parse_addition f false (tl ts)) as [[e ts1]|] eqn:He; [|discriminate].
        destruct (expect isBracketRight ts1) as [ts2|] eqn:Hp; [|discriminate].
        destruct (MAX_REFERENCE_DEPTH <? S k)%nat; [discriminate|].
        destruct (R.steps_loop f false (S k) ts2) as [[ss0 ts3]|] eqn:Hst; [|discriminate].
        inversion H; subst; clear H.
        apply (pa_add f IH) in He. accE He.
        * unfold expect_r. rewrite Hp. cbn [of_opt bind].
          apply (pa_steps f IH) in Hst. accE Hst.
          -- eapply Acc_ok; [|reflexivity|split]; [rewrite okS_cons| |]; bsolve.
          -- apply Acc_dead; [|reflexivity]. rewrite okS_cons. bsolve.
        * apply Acc_dead; [|reflexivity]. rewrite okS_cons. bsolve.
      + destruct (isDot (hdk ts)).
        * destruct (expect_id (tl ts)) as [[m ts1]|] eqn:Hid; [|discriminate].
          destruct (MAX_REFERENCE_DEPTH <? S k)%nat; [discriminate|].
          destruct (R.steps_loop f false (S k) ts1) as [[ss0 ts3]|] eqn:Hst; [|discriminate].
          inversion H; subst; clear H.
          unfold expect_id_r. rewrite Hid. cbn [of_opt bind].
          apply (pa_steps f IH) in Hst. accE Hst.
          -- eapply Acc_ok; [|reflexivity|split]; [rewrite okS_cons| |]; bsolve.
          -- apply Acc_dead; [|reflexivity]. rewrite okS_cons. bsolve.
        * inversion H; subst; clear H.
          eapply Acc_ok; [|reflexivity|split; reflexivity].
          unfold okS. cbn [length forallb]. rewrite Nat.add_0_r, andb_true_r.
          destruct (Nat.ltb_spec k lim); [reflexivity|lia].
  Qed.

  Lemma pa_ref_S : forall ts r rest, R.parse_reference (S f) false ts = Some (r, rest) ->
    AccR (D.parse_reference_g lim (S f) ts) r rest.
  Proof.
    intros ts r rest H. rewrite parse_reference_S in H. rewrite (Dg_parse_reference_S lim).
    rewrite amp_loop_count by (unfold MAX_ADDRESS_DEPTH; lia).
    destruct (count_amps ts) as [n ts1] eqn:Hc. rewrite N.add_0_l.
    destruct (MAX_ADDRESS_DEPTH <? n)%N eqn:Hn; [discriminate|].
    destruct (expect_id ts1) as [[b ts2]|] eqn:Hid; [|discriminate].
    destruct (R.steps_loop f false 0 ts2) as [[ss ts3]|] eqn:Hst; [|discriminate].
    inversion H; subst; clear H.
    unfold expect_id_r. rewrite Hid. cbn [of_opt bind].
    apply (pa_steps f IH) in Hst. accE Hst.
    - eapply Acc_ok; [exact Hs|reflexivity|split; [reflexivity|exact Ha]].
    - apply Acc_dead; [|reflexivity]. exact Hs.
  Qed.

  Lemma pa_addr_S : forall ts d b steps rest,
    R.parse_reference (S f) false ts = Some (Ref d b steps, rest) ->
    (MAX_ADDRESS_DEPTH <? d + 1)%N = false ->
    AccR (D.parse_addressed_g lim (S f) ts) (Ref (d + 1)%N b steps) rest.
  Proof.
    intros ts d b steps rest H Hd. rewrite parse_reference_S in H. rewrite (Dg_parse_addressed_S lim).
    rewrite amp_loop_count by (unfold MAX_ADDRESS_DEPTH; lia).
    destruct (count_amps ts) as [n ts1] eqn:Hc.
    destruct (MAX_ADDRESS_DEPTH <? n)%N eqn:Hn; [discriminate|].
    destruct (expect_id ts1) as [[b0 ts2]|] eqn:Hid; [|discriminate].
    destruct (R.steps_loop f false 0 ts2) as [[ss ts3]|] eqn:Hst; [|discriminate].
    inversion H; subst; clear H.
    rewrite (N.add_comm 1 d), Hd.
    unfold expect_id_r. rewrite Hid. cbn [of_opt bind].
    apply (pa_steps f IH) in Hst. accE Hst.
    - eapply Acc_ok; [exact Hs|reflexivity|split; [reflexivity|exact Ha]].
    - apply Acc_dead; [|reflexivity]. exact Hs.
  Qed.
End PA_step.

Lemma PA_all f : PA f.
Proof.
  induction f as [|f IH]; [apply PA_0|].
  constructor.
  - apply pa_add_S, IH.
  - apply pa_addl_S, IH.
  - apply pa_bit_S, IH.
  - apply pa_mul_S, IH.
  - apply pa_mull_S, IH.
  - apply pa_sing_S, IH.
  - apply pa_asl_S, IH.
  - apply pa_un_S, IH.
  - apply pa_prim_S, IH.
  - apply pa_list_S, IH.
  - apply pa_mem_S, IH.
  - apply pa_addr_S, IH.
  - apply pa_ref_S, IH.
  - apply pa_steps_S, IH.
Qed.

End PA_generic.

(* the tactics of the section, again *)
Ltac accE H :=
  unfold Acc in H;
  match type of H with
  | (if ?c then _ else _) =>
      let Hs := fresh "Hs" in
      destruct c eqn:Hs;
      [ let x := fresh "x'" in let Hd := fresh "Hd" in let Hf := fresh "Hf" in
        let Ha := fresh "Ha" in
        destruct H as (x & Hd & Hf & Ha); rewrite Hd; cbn [bind]; try subst
      | rewrite H; cbn [bind] ]
  end.

Ltac brw :=
  repeat match goal with
  | H : _ = true |- _ => progress rewrite H
  | H : _ = false |- _ => progress rewrite H
  end.

Ltac bsolve :=
  cbn [steps_ok_g steps_ok_ref_g steps_ok_step_g forallb admissible adm_ref adm_step
       fold_negative_literals fold_ref fold_step map length snd fst okL okM fold_member];
  brw; rewrite ?andb_false_r, ?andb_true_r; try reflexivity.


(* ------------------------------------------------------------------------- *)
(* Every tree of the reference parser has at most MAX_REFERENCE_DEPTH steps   *)
(* per reference (127 accepted, 128 rejected)                                 *)
(* ------------------------------------------------------------------------- *)

Notation sb := (steps_ok_g REPAIRED_ITERATIONS).
Notation sb_ref := (steps_ok_ref_g REPAIRED_ITERATIONS).
Notation sb_step := (steps_ok_step_g REPAIRED_ITERATIONS).

Lemma R_as_loop_sb f : forall acc ts e rest,
  R.as_loop f acc ts = Some (e, rest) -> sb acc = true -> sb e = true.
Proof.
  induction f as [|f IH]; intros acc ts e rest H Hs; [discriminate|].
  rewrite as_loop_S in H. destruct (isAs (hdk ts)).
  - destruct (R.parse_wellformed_type f (tl ts)) as [[t ts1]|]; [|discriminate].
    eapply IH; [exact H|exact Hs].
  - inversion H; subst; assumption.
Qed.

Record RB (f : nat) : Prop := {
  rb_add : forall nb ts e rest, R.parse_addition f nb ts = Some (e, rest) -> sb e = true;
  rb_addl : forall nb acc ts e rest, R.add_loop f nb acc ts = Some (e, rest) ->
            sb acc = true -> sb e = true;
  rb_bit : forall nb op acc ts e rest, R.bit_loop f nb op acc ts = Some (e, rest) ->
            sb acc = true -> sb e = true;
  rb_mul : forall nb ts e rest, R.parse_multiplication f nb ts = Some (e, rest) -> sb e = true;
  rb_mull : forall nb acc ts e rest, R.mul_loop f nb acc ts = Some (e, rest) ->
            sb acc = true -> sb e = true;
  rb_sing : forall nb ts e rest, R.parse_singular f nb ts = Some (e, rest) -> sb e = true;
  rb_un : forall nb ts e rest, R.parse_unary f nb ts = Some (e, rest) -> sb e = true;
  rb_prim : forall nb ts e rest, R.parse_primary f nb ts = Some (e, rest) -> sb e = true;
  rb_list : forall nb br ts es rest, R.expr_list f nb br ts = Some (es, rest) ->
            forallb sb es = true;
  rb_mem : forall nb ts ms rest, R.members_loop f nb ts = Some (ms, rest) ->
            forallb (fun me => sb (snd me)) ms = true;
  rb_ref : forall nb ts r rest, R.parse_reference f nb ts = Some (r, rest) -> sb_ref r = true;
  rb_steps : forall nb k ts ss rest, R.steps_loop f nb k ts = Some (ss, rest) ->
            k <= MAX_REFERENCE_DEPTH -> okS REPAIRED_ITERATIONS k ss = true
}.

Lemma RB_0 : RB 0.
Proof. constructor; intros; discriminate. Qed.

Section RB_step.
  Variable f : nat.
  Hypothesis IH : RB f.

  Lemma rb_add_S : forall nb ts e rest,
    R.parse_addition (S f) nb ts = Some (e, rest) -> sb e = true.
  Proof.
    intros nb ts e rest H. rewrite parse_addition_S in H.
    destruct (R.parse_multiplication f nb ts) as [[m ts1]|] eqn:Hm; [|discriminate].
    eapply (rb_addl f IH); [exact H|]. eapply (rb_mul f IH); exact Hm.
  Qed.

  Lemma rb_bit_S : forall nb op acc ts e rest,
    R.bit_loop (S f) nb op acc ts = Some (e, rest) -> sb acc = true -> sb e = true.
  Proof.
    intros nb op acc ts e rest H Ha. rewrite bit_loop_S in H.
    destruct (R.parse_unary f nb ts) as [[r ts1]|] eqn:Hu; [|discriminate].
    apply (rb_un f IH) in Hu. destruct (same_bitop op (hdk ts1)).
    - eapply (rb_bit f IH); [exact H|]. bsolve.
    - inversion H; subst. bsolve.
  Qed.

  Lemma rb_addl_S : forall nb acc ts e rest,
    R.add_loop (S f) nb acc ts = Some (e, rest) -> sb acc = true -> sb e = true.
  Proof.
    intros nb acc ts e rest H Ha. rewrite add_loop_S in H.
    destruct (bitop_of (hdk ts)) as [op|].
    - destruct (is_binary acc); [discriminate|]. eapply (rb_bit f IH); eauto.
    - destruct (shiftop_of (hdk ts)) as [op|].
      + destruct (is_binary acc); [discriminate|].
        destruct (R.parse_unary f nb (tl ts)) as [[r ts1]|] eqn:Hu; [|discriminate].
        inversion H; subst. apply (rb_un f IH) in Hu. bsolve.
      + destruct (addop_of (hdk ts)) as [op|].
        * destruct (R.parse_multiplication f nb (tl ts)) as [[r ts1]|] eqn:Hm; [|discriminate].
          apply (rb_mul f IH) in Hm. eapply (rb_addl f IH); [exact H|]. bsolve.
        * inversion H; subst; assumption.
  Qed.

  Lemma rb_mul_S : forall nb ts e rest,
    R.parse_multiplication (S f) nb ts = Some (e, rest) -> sb e = true.
  Proof.
    intros nb ts e rest H. rewrite parse_multiplication_S in H.
    destruct (R.parse_singular f nb ts) as [[m ts1]|] eqn:Hm; [|discriminate].
    eapply (rb_mull f IH); [exact H|]. eapply (rb_sing f IH); exact Hm.
  Qed.

  Lemma rb_mull_S : forall nb acc ts e rest,
    R.mul_loop (S f) nb acc ts = Some (e, rest) -> sb acc = true -> sb e = true.
  Proof.
    intros nb acc ts e rest H Ha. rewrite mul_loop_S in H.
    destruct (mulop_of (hdk ts)) as [op|].
    - destruct (R.parse_singular f nb (tl ts)) as [[r ts1]|] eqn:Hm; [|discriminate].
      apply (rb_sing f IH) in Hm. eapply (rb_mull f IH); [exact H|]. bsolve.
    - inversion H; subst; assumption.
  Qed.

  Lemma rb_sing_S : forall nb ts e rest,
    R.parse_singular (S f) nb ts = Some (e, rest) -> sb e = true.
  Proof.
    intros nb ts e rest H. rewrite parse_singular_S in H.
    destruct (isCast (hdk ts)).
    - destruct (R.parse_unary f nb (tl ts)) as [[u ts1]|] eqn:Hu; [|discriminate].
      apply (rb_un f IH) in Hu. eapply R_as_loop_sb; [exact H|exact Hu].
    - destruct (R.parse_unary f nb ts) as [[u ts1]|] eqn:Hu; [|discriminate].
      apply (rb_un f IH) in Hu. eapply R_as_loop_sb; [exact H|exact Hu].
  Qed.

  Lemma rb_un_S : forall nb ts e rest,
    R.parse_unary (S f) nb ts = Some (e, rest) -> sb e = true.
  Proof.
    intros nb ts e rest H. rewrite parse_unary_S in H.
    destruct (hdk ts); try (eapply (rb_prim f IH); exact H).
    - destruct (R.parse_reference f nb (tl ts)) as [[r ts1]|] eqn:Hr; [|discriminate].
      destruct (expect isPipe ts1); [|discriminate]. inversion H; subst.
      apply (rb_ref f IH) in Hr; exact Hr.
    - destruct (R.parse_primary f nb (tl ts)) as [[p ts1]|] eqn:Hp; [|discriminate].
      inversion H; subst. apply (rb_prim f IH) in Hp; exact Hp.
    - destruct (R.parse_primary f nb (tl ts)) as [[p ts1]|] eqn:Hp; [|discriminate].
      rewrite R_minus_is_fold_neg in H. inversion H; subst.
      rewrite steps_ok_fold_neg. apply (rb_prim f IH) in Hp; exact Hp.
    - destruct (R.parse_wellformed_type f (tl ts)) as [[t ts1]|]; [|discriminate].
      destruct (expect isPipe ts1); [|discriminate]. inversion H; subst. reflexivity.
  Qed.

  Lemma rb_prim_S : forall nb ts e rest,
    R.parse_primary (S f) nb ts = Some (e, rest) -> sb e = true.
  Proof.
    intros nb ts e rest H. rewrite parse_primary_S in H.
    destruct ts as [|t ts1]; [discriminate|].
    destruct (kind t); try discriminate H.
    - destruct (R.parse_addition f nb ts1) as [[e0 ts2]|] eqn:He; [|discriminate].
      destruct (expect isParenRight ts2); [|discriminate]. inversion H; subst.
      apply (rb_add f IH) in He; exact He.
    - destruct (R.expr_list f nb true ts1) as [[es ts2]|] eqn:Hl; [|discriminate].
      destruct (expect isBracketRight ts2); [|discriminate]. inversion H; subst.
      apply (rb_list f IH) in Hl; exact Hl.
    - destruct (R.parse_reference f nb ts1) as [[[d b steps] ts2]|] eqn:Hr; [|discriminate].
      destruct (MAX_ADDRESS_DEPTH <? d + 1)%N; [discriminate|].
      apply (rb_ref f IH) in Hr. cbv zeta in H. destruct (isDots (hdk ts2)).
      + destruct (R.parse_addition f nb (tl ts2)) as [[off ts3]|] eqn:Ho; [|discriminate].
        inversion H; subst. apply (rb_add f IH) in Ho.
        cbn [steps_ok_g steps_ok_ref_g] in *. rewrite Hr, Ho. reflexivity.
      + inversion H; subst. exact Hr.
    - destruct (isParenLeft (hdk ts1)).
      + destruct (R.expr_list f nb false (tl ts1)) as [[args ts2]|] eqn:Hl; [|discriminate].
        destruct (expect isParenRight ts2); [|discriminate]. inversion H; subst.
        apply (rb_list f IH) in Hl; exact Hl.
      + destruct (isBraceLeft (hdk ts1) && negb nb).
        * destruct (R.members_loop f nb (tl ts1)) as [[ms ts2]|] eqn:Hm; [|discriminate].
          destruct (expect isBraceRight ts2); [|discriminate]. inversion H; subst.
          apply (rb_mem f IH) in Hm; exact Hm.
        * destruct (R.steps_loop f nb 0 ts1) as [[ss ts2]|] eqn:Hst; [|discriminate].
          inversion H; subst. apply (rb_steps f IH) in Hst; [exact Hst|lia].
    - destruct (expect isParenLeft ts1) as [ts2|]; [|discriminate].
      destruct (R.expr_list f nb false ts2) as [[args ts3]|] eqn:Hl; [|discriminate].
      destruct (expect isParenRight ts3); [|discriminate]. inversion H; subst.
      apply (rb_list f IH) in Hl; exact Hl.
    - destruct (literal_of t) eqn:Hl; [|discriminate]. inversion H; subst.
      apply (literal_facts _ _ _ Hl).
    - destruct (literal_of t) eqn:Hl; [|discriminate]. inversion H; subst.
      apply (literal_facts _ _ _ Hl).
    - destruct (literal_of t) eqn:Hl; [|discriminate]. inversion H; subst.
      apply (literal_facts _ _ _ Hl).
    - destruct (literal_of t) eqn:Hl; [|discriminate]. inversion H; subst.
      apply (literal_facts _ _ _ Hl).
    - destruct (literal_of t) eqn:Hl; [|discriminate]. inversion H; subst.
      apply (literal_facts _ _ _ Hl).
    - destruct (take_strings ts1). inversion H; subst. reflexivity.
  Qed.

  Lemma rb_list_S : forall nb br ts es rest,
    R.expr_list (S f) nb br ts = Some (es, rest) -> forallb sb es = true.
  Proof.
    intros nb br ts es rest H. rewrite expr_list_S in H.
    destruct (is_close br (hdk ts)); [inversion H; subst; reflexivity|].
    destruct (R.parse_addition f nb ts) as [[e ts1]|] eqn:He; [|discriminate].
    apply (rb_add f IH) in He. destruct (isComma (hdk ts1)).
    - destruct (R.expr_list f nb br (tl ts1)) as [[es0 ts2]|] eqn:Hl; [|discriminate].
      inversion H; subst. apply (rb_list f IH) in Hl. bsolve.
    - inversion H; subst. bsolve.
  Qed.

  Lemma rb_mem_tail : forall nb n e tsv ms rest, sb e = true ->
    (if isComma (hdk tsv)
     then match R.members_loop f nb (tl tsv) with
          | Some (ms0, ts3) => Some ((n, e) :: ms0, ts3)
          | None => None
          end
     else Some ([(n, e)], tsv)) = Some (ms, rest) ->
    forallb (fun me => sb (snd me)) ms = true.
  Proof.
    intros nb n e tsv ms rest He H. destruct (isComma (hdk tsv)).
    - destruct (R.members_loop f nb (tl tsv)) as [[ms0 ts3]|] eqn:Hm; [|discriminate].
      inversion H; subst. apply (rb_mem f IH) in Hm. bsolve.
    - inversion H; subst. bsolve.
  Qed.

  Lemma rb_mem_S : forall nb ts ms rest,
    R.members_loop (S f) nb ts = Some (ms, rest) -> forallb (fun me => sb (snd me)) ms = true.
  Proof.
    intros nb ts ms rest H. rewrite members_loop_S in H.
    destruct (isBraceRight (hdk ts)); [inversion H; subst; reflexivity|].
    destruct (expect_id ts) as [[n ts1]|]; [|discriminate]. cbv zeta in H.
    destruct (isColon (hdk ts1)).
    - destruct (R.parse_addition f nb (tl ts1)) as [[e tsv]|] eqn:He; [|discriminate].
      apply (rb_add f IH) in He. eapply rb_mem_tail; eauto.
    - eapply rb_mem_tail; [|exact H]. reflexivity.
  Qed.

  Lemma rb_ref_S : forall nb ts r rest,
    R.parse_reference (S f) nb ts = Some (r, rest) -> sb_ref r = true.
  Proof.
    intros nb ts r rest H. rewrite parse_reference_S in H.
    destruct (count_amps ts) as [n ts1]. destruct (MAX_ADDRESS_DEPTH <? n)%N; [discriminate|].
    destruct (expect_id ts1) as [[b ts2]|]; [|discriminate].
    destruct (R.steps_loop f nb 0 ts2) as [[ss ts3]|] eqn:Hst; [|discriminate].
    inversion H; subst. apply (rb_steps f IH) in Hst; [exact Hst|lia].
  Qed.

  Lemma rb_steps_S : forall nb k ts ss rest,
    R.steps_loop (S f) nb k ts = Some (ss, rest) ->
    k <= MAX_REFERENCE_DEPTH -> okS REPAIRED_ITERATIONS k ss = true.
  Proof.
    intros nb k ts ss rest H Hk. rewrite steps_loop_S in H.
    destruct (isBracketLeft (hdk ts)).
    - destruct (R.parse_addition f nb (tl ts)) as [[e ts1]|] eqn:He; [|discriminate].
      destruct (expect isBracketRight ts1) as [ts2|]; [|discriminate].
      destruct (Nat.ltb_spec MAX_REFERENCE_DEPTH (S k)) as [Hlt|Hge]; [discriminate|].
      destruct (R.steps_loop f nb (S k) ts2) as [[ss0 ts3]|] eqn:Hst; [|discriminate].
      inversion H; subst. apply (rb_add f IH) in He.
      apply (rb_steps f IH) in Hst; [|lia]. rewrite okS_cons. bsolve.
    - destruct (isDot (hdk ts)).
      + destruct (expect_id (tl ts)) as [[m ts1]|]; [|discriminate].
        destruct (Nat.ltb_spec MAX_REFERENCE_DEPTH (S k)) as [Hlt|Hge]; [discriminate|].
        destruct (R.steps_loop f nb (S k) ts1) as [[ss0 ts3]|] eqn:Hst; [|discriminate].
        inversion H; subst. apply (rb_steps f IH) in Hst; [|lia]. rewrite okS_cons. bsolve.
      + inversion H; subst. unfold okS, REPAIRED_ITERATIONS. cbn [length forallb].
        rewrite Nat.add_0_r, andb_true_r.
        destruct (Nat.ltb_spec k (S MAX_REFERENCE_DEPTH)); [reflexivity|lia].
  Qed.
End RB_step.

Lemma RB_all f : RB f.
Proof.
  induction f as [|f IH]; [apply RB_0|].
  constructor.
  - apply rb_add_S, IH.
  - apply rb_addl_S, IH.
  - apply rb_bit_S, IH.
  - apply rb_mul_S, IH.
  - apply rb_mull_S, IH.
  - apply rb_sing_S, IH.
  - apply rb_un_S, IH.
  - apply rb_prim_S, IH.
  - apply rb_list_S, IH.
  - apply rb_mem_S, IH.
  - apply rb_ref_S, IH.
  - apply rb_steps_S, IH.
Qed.

(* The first generation: 127 steps accepted, 128 never. *)
Theorem reference_steps_bound fuel ts e rest :
  R.parse_expr fuel ts = Some (e, rest) -> steps_ok_g REPAIRED_ITERATIONS e = true.
Proof. apply (rb_add fuel (RB_all fuel)). Qed.

Lemma repaired_pos : 1 <= REPAIRED_ITERATIONS.
Proof. unfold REPAIRED_ITERATIONS. lia. Qed.
Lemma pinned_pos : 1 <= PINNED_ITERATIONS.
Proof. unfold PINNED_ITERATIONS, MAX_REFERENCE_DEPTH. lia. Qed.

Lemma pa_add_repaired f ts e rest :
  R.parse_addition f false ts = Some (e, rest) ->
  exists e', D.parse_addition f ts = Ok (e', rest) /\ foldE e' = e /\ admissible e' = true.
Proof.
  intros H. pose proof (rb_add f (RB_all f) _ _ _ _ H) as Hs.
  apply (pa_add REPAIRED_ITERATIONS f (PA_all REPAIRED_ITERATIONS repaired_pos f)) in H.
  unfold Acc in H. rewrite Hs in H. exact H.
Qed.

(* MAIN THEOREM (repaired code), at equal fuel: whenever the reference parser accepts,
   the second generation builds a tree that folds to the reference tree and is
   admissible.  No hypothesis. *)
Theorem delta_expr_is_reference_exact fuel ts e rest :
  R.parse_expr fuel ts = Some (e, rest) ->
  exists e', D.parse_expression_res fuel ts = Ok (e', rest) /\
             fold_negative_literals e' = e /\ admissible e' = true.
Proof. apply pa_add_repaired. Qed.

Theorem delta_expr_is_reference fuel ts e rest :
  R.parse_expr fuel ts = Some (e, rest) ->
  exists fuel' e', D.parse_expression fuel' ts = Some (e', rest) /\
                   fold_negative_literals e' = e.
Proof.
  intros H. apply delta_expr_is_reference_exact in H.
  destruct H as (e' & Hd & Hf & _). exists fuel, e'. unfold D.parse_expression.
  rewrite Hd. split; [reflexivity|exact Hf].
Qed.

(* The parser BEFORE the repair (pinned commit), exact form: it builds the same tree,
   or - exactly when the reference tree contains a reference with 127 steps - fails
   with MaximumParseDepthExceeded. *)
Theorem pinned_expr_is_reference_exact fuel ts e rest :
  R.parse_expr fuel ts = Some (e, rest) ->
  if steps_ok e
  then exists e', D.parse_expression_pinned_res fuel ts = Ok (e', rest) /\
                  fold_negative_literals e' = e /\ admissible e' = true
  else D.parse_expression_pinned_res fuel ts = Err DepthExceeded.
Proof.
  intros H.
  apply (pa_add PINNED_ITERATIONS fuel (PA_all PINNED_ITERATIONS pinned_pos fuel)) in H.
  exact H.
Qed.

(* ------------------------------------------------------------------------- *)
(* Second generation accepts an admissible tree => reference builds it        *)
(* ------------------------------------------------------------------------- *)

Definition low_head (e : expr) : bool :=
  match e with EBinary op _ _ => negb (is_bitop op) | _ => true end.

Lemma literal_low_head t e : literal_of t = Some e -> low_head e = true.
Proof.
  unfold literal_of. intros H.
  destruct (kind t); try discriminate;
  repeat match type of H with
  | Some _ = Some _ => inversion H; subst; clear H
  | match ?x with _ => _ end = Some _ => destruct x; try discriminate H
  end; reflexivity.
Qed.

Ltac ddes H :=
  repeat match type of H with
  | Ok _ = Ok _ => inversion H; subst; clear H
  | bind _ _ = Ok _ =>
      let a := fresh "a" in let Hb := fresh "Hb" in
      apply bind_Ok in H as (a & Hb & H); cbv beta in H
  | match ?x with _ => _ end = Ok _ => destruct x eqn:?; try discriminate H
  end.

Lemma D_primary_low f ts e rest : D.parse_primary f ts = Ok (e, rest) -> low_head e = true.
Proof.
  destruct f as [|f]; [discriminate|]. rewrite D_parse_primary_S. intros H.
  destruct ts as [|t ts1]; [discriminate|].
  destruct (kind t); try discriminate H; ddes H; try reflexivity;
    eapply literal_low_head; eassumption.
Qed.

Lemma D_unary_low f ts e rest : D.parse_unary f ts = Ok (e, rest) -> low_head e = true.
Proof.
  destruct f as [|f]; [discriminate|]. rewrite D_parse_unary_S. intros H.
  destruct (hdk ts); try (eapply D_primary_low; exact H); ddes H; reflexivity.
Qed.

Lemma D_as_loop_low f : forall acc ts e rest,
  D.as_loop f acc ts = Ok (e, rest) -> low_head acc = true -> low_head e = true.
Proof.
  induction f as [|f IH]; intros acc ts e rest H Hl; [discriminate|].
  rewrite D_as_loop_S in H. destruct (isAs (hdk ts)).
  - apply bind_Ok in H as ([t ts1] & _ & H). cbv beta iota in H. eapply IH; [exact H|reflexivity].
  - inversion H; subst; assumption.
Qed.

Lemma D_singular_low f ts e rest : D.parse_singular f ts = Ok (e, rest) -> low_head e = true.
Proof.
  destruct f as [|f]; [discriminate|]. rewrite D_parse_singular_S. intros H.
  destruct (isCast (hdk ts)); apply bind_Ok in H as ([u ts1] & Hu & H); cbv beta iota in H.
  - eapply D_as_loop_low; [exact H|reflexivity].
  - eapply D_as_loop_low; [exact H|]. eapply D_unary_low; exact Hu.
Qed.

Lemma mulop_low k op l r : mulop_of k = Some op -> low_head (EBinary op l r) = true.
Proof. destruct k; cbn; intros H; inversion H; reflexivity. Qed.
Lemma addop_low k op l r : addop_of k = Some op -> low_head (EBinary op l r) = true.
Proof. destruct k; cbn; intros H; inversion H; reflexivity. Qed.

Lemma D_mul_loop_low f : forall acc ts e rest,
  D.mul_loop f acc ts = Ok (e, rest) -> low_head acc = true -> low_head e = true.
Proof.
  induction f as [|f IH]; intros acc ts e rest H Hl; [discriminate|].
  rewrite D_mul_loop_S in H. destruct (mulop_of (hdk ts)) as [op|] eqn:Hm.
  - apply bind_Ok in H as ([r ts1] & _ & H). cbv beta iota in H.
    eapply IH; [exact H|]. eapply mulop_low; eauto.
  - inversion H; subst; assumption.
Qed.

Lemma D_mul_low f ts e rest : D.parse_multiplication f ts = Ok (e, rest) -> low_head e = true.
Proof.
  destruct f as [|f]; [discriminate|]. rewrite D_parse_multiplication_S. intros H.
  apply bind_Ok in H as ([m ts1] & Hm & H). cbv beta iota in H.
  eapply D_mul_loop_low; [exact H|]. eapply D_singular_low; exact Hm.
Qed.

Lemma left_ok_bit_low op acc' :
  is_bitop op = true -> left_ok op acc' = true -> low_head acc' = true -> is_binary acc' = false.
Proof.
  intros Hop Hl Hlow. unfold left_ok in Hl. rewrite Hop in Hl.
  destruct acc'; try reflexivity.
  cbn [is_binary negb orb head_is] in Hl. apply binop_eqb_eq in Hl. subst op0.
  cbn [low_head] in Hlow. rewrite Hop in Hlow. discriminate.
Qed.

Lemma type_D_R f : forall ts x,
  D.parse_inner_type f ts = Ok x -> R.parse_inner_type f ts = Some x.
Proof.
  induction f as [|f IH]; intros ts x H; [discriminate|].
  rewrite D_parse_inner_type_S in H. rewrite parse_inner_type_S.
  destruct ts as [|t ts1]; [discriminate|].
  destruct (kind t); try discriminate H;
  repeat match goal with
  | H : Ok _ = Ok _ |- _ => inversion H; subst; clear H
  | H : bind _ _ = Ok _ |- _ => apply bind_Ok in H as (? & ? & H); cbv beta in H
  | H : D.parse_inner_type f _ = Ok _ |- _ => apply IH in H; rewrite H
  | H : expect_r _ _ = Ok _ |- _ => unfold expect_r, of_opt in H
  | H : match ?x with _ => _ end = Ok _ |- _ => destruct x eqn:?; try discriminate H
  end; reflexivity.
Qed.

Lemma expect_r_Ok p ts r : expect_r p ts = Ok r -> expect p ts = Some r.
Proof. unfold expect_r, of_opt. destruct (expect p ts); intros H; inversion H; reflexivity. Qed.
Lemma expect_id_r_Ok ts x : expect_id_r ts = Ok x -> expect_id ts = Some x.
Proof. unfold expect_id_r, of_opt. destruct (expect_id ts); intros H; inversion H; reflexivity. Qed.

Lemma is_close_expect br ts : is_close br (hdk ts) = true ->
  expect (is_close br) ts = Some (tl ts).
Proof. destruct ts as [|t ts']; cbn [hdk expect tl]; [destruct br; discriminate|].
  intros H; rewrite H; reflexivity. Qed.
Lemma brace_expect ts : isBraceRight (hdk ts) = true -> expect isBraceRight ts = Some (tl ts).
Proof. destruct ts as [|t ts']; cbn [hdk expect tl]; [discriminate|].
  intros H; rewrite H; reflexivity. Qed.

Lemma expect_close_true ts : expect (is_close true) ts = expect isBracketRight ts.
Proof. reflexivity. Qed.
Lemma expect_close_false ts : expect (is_close false) ts = expect isParenRight ts.
Proof. reflexivity. Qed.

(* An accepted continuation of the steps loop started within the 128 iterations. *)
Lemma D_steps_Ok_bound f k ts x : D.steps_loop f (S k) ts = Ok x ->
  (MAX_REFERENCE_DEPTH <? S k)%nat = false.
Proof.
  destruct f as [|f]; [discriminate|]. rewrite D_steps_loop_S.
  destruct (Nat.leb_spec REPAIRED_ITERATIONS (S k)) as [Hk|Hk]; [discriminate|]. intros _.
  unfold REPAIRED_ITERATIONS in Hk.
  destruct (Nat.ltb_spec MAX_REFERENCE_DEPTH (S k)); [lia|reflexivity].
Qed.

Record PB (f : nat) : Prop := {
  pb_add : forall ts e' rest, D.parse_addition f ts = Ok (e', rest) -> admissible e' = true ->
           R.parse_addition f false ts = Some (foldE e', rest);
  pb_addl : forall acc' ts e' rest, D.add_loop f acc' ts = Ok (e', rest) ->
           admissible e' = true -> low_head acc' = true ->
           admissible acc' = true /\
           R.add_loop f false (foldE acc') ts = Some (foldE e', rest);
  pb_bit : forall op acc' ts e' rest, is_bitop op = true ->
           D.bit_loop f op acc' ts = Ok (e', rest) -> admissible e' = true ->
           admissible acc' = true /\ left_ok op acc' = true /\
           R.bit_loop f false op (foldE acc') ts = Some (foldE e', rest);
  pb_mul : forall ts e' rest, D.parse_multiplication f ts = Ok (e', rest) ->
           admissible e' = true ->
           R.parse_multiplication f false ts = Some (foldE e', rest);
  pb_mull : forall acc' ts e' rest, D.mul_loop f acc' ts = Ok (e', rest) ->
           admissible e' = true ->
           admissible acc' = true /\
           R.mul_loop f false (foldE acc') ts = Some (foldE e', rest);
  pb_sing : forall ts e' rest, D.parse_singular f ts = Ok (e', rest) -> admissible e' = true ->
           R.parse_singular f false ts = Some (foldE e', rest);
  pb_asl : forall acc' ts e' rest, D.as_loop f acc' ts = Ok (e', rest) ->
           admissible e' = true ->
           admissible acc' = true /\ R.as_loop f (foldE acc') ts = Some (foldE e', rest);
  pb_un : forall ts e' rest, D.parse_unary f ts = Ok (e', rest) -> admissible e' = true ->
           R.parse_unary f false ts = Some (foldE e', rest);
  pb_prim : forall ts e' rest, D.parse_primary f ts = Ok (e', rest) -> admissible e' = true ->
           R.parse_primary f false ts = Some (foldE e', rest);
  pb_list : forall br ts es' ts3, D.expr_list f br ts = Ok (es', ts3) ->
           forallb admissible es' = true ->
           exists ts2, R.expr_list f false br ts = Some (map fold_negative_literals es', ts2) /\
                       expect (is_close br) ts2 = Some ts3;
  pb_mem : forall ts ms' ts3, D.members_loop f ts = Ok (ms', ts3) ->
           forallb (fun me => admissible (snd me)) ms' = true ->
           exists ts2, R.members_loop f false ts = Some (map fold_member ms', ts2) /\
                       expect isBraceRight ts2 = Some ts3;
  pb_addr : forall ts d' b ss' rest, D.parse_addressed f ts = Ok (Ref d' b ss', rest) ->
           forallb adm_step ss' = true ->
           exists d, d' = (d + 1)%N /\ (MAX_ADDRESS_DEPTH <? d + 1)%N = false /\
                     R.parse_reference f false ts = Some (Ref d b (map fold_step ss'), rest);
  pb_ref : forall ts r' rest, D.parse_reference f ts = Ok (r', rest) -> adm_ref r' = true ->
           R.parse_reference f false ts = Some (fold_ref r', rest);
  pb_steps : forall k ts ss' rest, D.steps_loop f k ts = Ok (ss', rest) ->
           forallb adm_step ss' = true ->
           R.steps_loop f false k ts = Some (map fold_step ss', rest)
}.

Lemma PB_0 : PB 0.
Proof. constructor; intros; discriminate. Qed.

Ltac andbs H :=
  cbn [admissible adm_ref adm_step forallb snd] in H;
  repeat match type of H with
  | _ && _ = true => let H' := fresh "Hadm" in apply andb_prop in H as [H H']
  end.

Section PB_step.
  Variable f : nat.
  Hypothesis IH : PB f.

  Lemma pb_add_S : forall ts e' rest, D.parse_addition (S f) ts = Ok (e', rest) ->
    admissible e' = true -> R.parse_addition (S f) false ts = Some (foldE e', rest).
  Proof.
    intros ts e' rest H Ha. rewrite D_parse_addition_S in H. rewrite parse_addition_S.
    apply bind_Ok in H as ([m ts1] & Hm & H). cbv beta iota in H.
    apply (pb_addl f IH) in H as [Ham HR]; [|exact Ha|eapply D_mul_low; exact Hm].
    apply (pb_mul f IH) in Hm; [|exact Ham]. rewrite Hm. exact HR.
  Qed.

  Lemma pb_addl_S : forall acc' ts e' rest, D.add_loop (S f) acc' ts = Ok (e', rest) ->
    admissible e' = true -> low_head acc' = true ->
    admissible acc' = true /\ R.add_loop (S f) false (foldE acc') ts = Some (foldE e', rest).
  Proof.
    intros acc' ts e' rest H Ha Hl. rewrite D_add_loop_S in H. rewrite add_loop_S.
    destruct (bitop_of (hdk ts)) as [op|] eqn:Hb.
    - pose proof (bitop_of_is_bitop _ _ Hb) as Hop.
      apply (pb_bit f IH) in H as (Hacc & Hlo & HR); [|exact Hop|exact Ha].
      rewrite is_binary_fold, (left_ok_bit_low op acc' Hop Hlo Hl). split; assumption.
    - destruct (shiftop_of (hdk ts)) as [op|] eqn:Hsh.
      + apply bind_Ok in H as ([r ts1] & Hu & H). cbv beta iota in H.
        inversion H; subst; clear H. andbs Ha.
        destruct (shiftop_of_is_shiftop _ _ Hsh) as [H1 H2].
        unfold left_ok in Hadm. rewrite H1, H2 in Hadm.
        rewrite is_binary_fold. destruct (is_binary acc'); [discriminate|].
        apply (pb_un f IH) in Hu; [|assumption]. rewrite Hu. split; [assumption|reflexivity].
      + destruct (addop_of (hdk ts)) as [op|] eqn:Hao.
        * apply bind_Ok in H as ([r ts1] & Hm & H). cbv beta iota in H.
          apply (pb_addl f IH) in H as [Hacc2 HR]; [|exact Ha|eapply addop_low; eauto].
          andbs Hacc2.
          apply (pb_mul f IH) in Hm; [|assumption]. rewrite Hm. split; assumption.
        * inversion H; subst. split; [assumption|reflexivity].
  Qed.

  Lemma pb_bit_S : forall op acc' ts e' rest, is_bitop op = true ->
    D.bit_loop (S f) op acc' ts = Ok (e', rest) -> admissible e' = true ->
    admissible acc' = true /\ left_ok op acc' = true /\
    R.bit_loop (S f) false op (foldE acc') ts = Some (foldE e', rest).
  Proof.
    intros op acc' ts e' rest Hop H Ha. rewrite D_bit_loop_S in H. rewrite bit_loop_S.
    apply bind_Ok in H as ([r ts1] & Hu & H). cbv beta iota in H.
    destruct (same_bitop op (hdk ts1)) eqn:Hsb.
    - apply (pb_bit f IH) in H as (Hacc2 & _ & HR); [|exact Hop|exact Ha].
      andbs Hacc2. apply (pb_un f IH) in Hu; [|assumption]. rewrite Hu, Hsb.
      repeat split; assumption.
    - inversion H; subst; clear H. andbs Ha.
      apply (pb_un f IH) in Hu; [|assumption]. rewrite Hu, Hsb.
      repeat split; try assumption; reflexivity.
  Qed.

  Lemma pb_mul_S : forall ts e' rest, D.parse_multiplication (S f) ts = Ok (e', rest) ->
    admissible e' = true -> R.parse_multiplication (S f) false ts = Some (foldE e', rest).
  Proof.
    intros ts e' rest H Ha. rewrite D_parse_multiplication_S in H.
    rewrite parse_multiplication_S.
    apply bind_Ok in H as ([m ts1] & Hm & H). cbv beta iota in H.
    apply (pb_mull f IH) in H as [Ham HR]; [|exact Ha].
    apply (pb_sing f IH) in Hm; [|exact Ham]. rewrite Hm. exact HR.
  Qed.

  Lemma pb_mull_S : forall acc' ts e' rest, D.mul_loop (S f) acc' ts = Ok (e', rest) ->
    admissible e' = true ->
    admissible acc' = true /\ R.mul_loop (S f) false (foldE acc') ts = Some (foldE e', rest).
  Proof.
    intros acc' ts e' rest H Ha. rewrite D_mul_loop_S in H. rewrite mul_loop_S.
    destruct (mulop_of (hdk ts)) as [op|] eqn:Hmo.
    - apply bind_Ok in H as ([r ts1] & Hm & H). cbv beta iota in H.
      apply (pb_mull f IH) in H as [Hacc2 HR]; [|exact Ha]. andbs Hacc2.
      apply (pb_sing f IH) in Hm; [|assumption]. rewrite Hm. split; assumption.
    - inversion H; subst. split; [assumption|reflexivity].
  Qed.

  Lemma pb_asl_S : forall acc' ts e' rest, D.as_loop (S f) acc' ts = Ok (e', rest) ->
    admissible e' = true ->
    admissible acc' = true /\ R.as_loop (S f) (foldE acc') ts = Some (foldE e', rest).
  Proof.
    intros acc' ts e' rest H Ha. rewrite D_as_loop_S in H. rewrite as_loop_S.
    destruct (isAs (hdk ts)).
    - apply bind_Ok in H as ([t ts1] & Ht & H). cbv beta iota in H.
      apply (pb_asl f IH) in H as [Hacc2 HR]; [|exact Ha]. andbs Hacc2.
      unfold D.parse_type in Ht. apply type_D_R in Ht.
      unfold R.parse_wellformed_type. rewrite Ht, Hadm. split; assumption.
    - inversion H; subst. split; [assumption|reflexivity].
  Qed.

  Lemma pb_sing_S : forall ts e' rest, D.parse_singular (S f) ts = Ok (e', rest) ->
    admissible e' = true -> R.parse_singular (S f) false ts = Some (foldE e', rest).
  Proof.
    intros ts e' rest H Ha. rewrite D_parse_singular_S in H. rewrite parse_singular_S.
    destruct (isCast (hdk ts)); apply bind_Ok in H as ([u ts1] & Hu & H); cbv beta iota in H;
      apply (pb_asl f IH) in H as [Hacc2 HR]; try exact Ha; andbs Hacc2;
      (apply (pb_un f IH) in Hu; [|assumption]); rewrite Hu; exact HR.
  Qed.

  Lemma pb_un_S : forall ts e' rest, D.parse_unary (S f) ts = Ok (e', rest) ->
    admissible e' = true -> R.parse_unary (S f) false ts = Some (foldE e', rest).
  Proof.
    intros ts e' rest H Ha. rewrite D_parse_unary_S in H. rewrite parse_unary_S.
    destruct (hdk ts) eqn:Hk; try (apply (pb_prim f IH); assumption).
    - (* KPipe *)
      apply bind_Ok in H as ([r ts1] & Hr & H). cbv beta iota in H.
      apply bind_Ok in H as (ts2 & Hp & H). cbv beta in H. inversion H; subst; clear H.
      cbn [admissible] in Ha. apply (pb_ref f IH) in Hr; [|exact Ha].
      apply expect_r_Ok in Hp. rewrite Hr, Hp. reflexivity.
    - (* KExclamation *)
      apply bind_Ok in H as ([p ts1] & Hp & H). cbv beta iota in H. inversion H; subst; clear H.
      cbn [admissible] in Ha. apply (pb_prim f IH) in Hp; [|exact Ha]. rewrite Hp. reflexivity.
    - (* KMinus *)
      apply bind_Ok in H as ([p ts1] & Hp & H). cbv beta iota in H. inversion H; subst; clear H.
      cbn [admissible] in Ha. apply (pb_prim f IH) in Hp; [|exact Ha]. rewrite Hp.
      cbn [fold_negative_literals]. apply R_minus_is_fold_neg.
    - (* KPipeForType *)
      apply bind_Ok in H as ([t ts1] & Ht & H). cbv beta iota in H.
      apply bind_Ok in H as (ts2 & Hp & H). cbv beta in H. inversion H; subst; clear H.
      cbn [admissible] in Ha. unfold D.parse_type in Ht. apply type_D_R in Ht.
      apply expect_r_Ok in Hp. unfold R.parse_wellformed_type. rewrite Ht, Ha, Hp. reflexivity.
  Qed.

  Lemma pb_prim_S : forall ts e' rest, D.parse_primary (S f) ts = Ok (e', rest) ->
    admissible e' = true -> R.parse_primary (S f) false ts = Some (foldE e', rest).
  Proof.
    intros ts e' rest H Ha. rewrite D_parse_primary_S in H. rewrite parse_primary_S.
    destruct ts as [|t ts1]; [discriminate|].
    destruct (kind t) eqn:Hk; try discriminate H.
    - (* KParenLeft *)
      apply bind_Ok in H as ([e0 ts2] & He & H). cbv beta iota in H.
      apply bind_Ok in H as (ts3 & Hp & H). cbv beta in H. inversion H; subst; clear H.
      cbn [admissible] in Ha. apply (pb_add f IH) in He; [|exact Ha].
      apply expect_r_Ok in Hp. rewrite He, Hp. reflexivity.
    - (* KBracketLeft *)
      apply bind_Ok in H as ([es ts2] & Hl & H). cbv beta iota in H. inversion H; subst; clear H.
      cbn [admissible] in Ha. apply (pb_list f IH) in Hl as (ts2' & HR & Hc); [|exact Ha].
      rewrite HR. rewrite ?expect_close_true, ?expect_close_false in Hc. rewrite Hc. reflexivity.
    - (* KAmpersand *)
      apply bind_Ok in H as ([[d' b ss'] ts2] & Hr & H). cbv beta iota in H.
      destruct (isDots (hdk ts2)) eqn:Hdots.
      + apply bind_Ok in H as ([off ts3] & Ho & H). cbv beta iota in H.
        inversion H; subst; clear H. andbs Ha.
        apply (pb_addr f IH) in Hr as (d & Hd' & Hlim & HR); [|assumption]. subst d'.
        apply (pb_add f IH) in Ho; [|assumption].
        rewrite HR, Hlim. cbv zeta. rewrite Hdots, Ho. reflexivity.
      + inversion H; subst; clear H. andbs Ha.
        apply (pb_addr f IH) in Hr as (d & Hd' & Hlim & HR); [|assumption]. subst d'.
        rewrite HR, Hlim. cbv zeta. rewrite Hdots. reflexivity.
    - (* KIdentifier *)
      destruct (isParenLeft (hdk ts1)) eqn:Hpl.
      + apply bind_Ok in H as ([args ts2] & Hl & H). cbv beta iota in H.
        inversion H; subst; clear H. cbn [admissible] in Ha.
        apply (pb_list f IH) in Hl as (ts2' & HR & Hc); [|exact Ha].
        rewrite HR. rewrite ?expect_close_true, ?expect_close_false in Hc. rewrite Hc. reflexivity.
      + cbn [negb]. rewrite andb_true_r. destruct (isBraceLeft (hdk ts1)) eqn:Hbl.
        * apply bind_Ok in H as ([ms ts2] & Hm & H). cbv beta iota in H.
          inversion H; subst; clear H. cbn [admissible] in Ha.
          apply (pb_mem f IH) in Hm as (ts2' & HR & Hc); [|exact Ha].
          rewrite HR, Hc. reflexivity.
        * apply bind_Ok in H as ([ss ts2] & Hst & H). cbv beta iota in H.
          inversion H; subst; clear H. cbn [admissible adm_ref] in Ha.
          apply (pb_steps f IH) in Hst; [|exact Ha]. rewrite Hst. reflexivity.
    - (* KBuiltin *)
      apply bind_Ok in H as (ts2 & Hp1 & H). cbv beta in H.
      apply bind_Ok in H as ([args ts3] & Hl & H). cbv beta iota in H.
      inversion H; subst; clear H. cbn [admissible] in Ha.
      apply expect_r_Ok in Hp1. rewrite Hp1.
      apply (pb_list f IH) in Hl as (ts2' & HR & Hc); [|exact Ha].
      rewrite HR. rewrite ?expect_close_true, ?expect_close_false in Hc. rewrite Hc. reflexivity.
    - destruct (literal_of t) as [e0|] eqn:Hl; [|discriminate]. inversion H; subst.
      destruct (literal_facts 0 _ _ Hl) as (H1 & H2 & H3). rewrite H2. reflexivity.
    - destruct (literal_of t) as [e0|] eqn:Hl; [|discriminate]. inversion H; subst.
      destruct (literal_facts 0 _ _ Hl) as (H1 & H2 & H3). rewrite H2. reflexivity.
    - destruct (literal_of t) as [e0|] eqn:Hl; [|discriminate]. inversion H; subst.
      destruct (literal_facts 0 _ _ Hl) as (H1 & H2 & H3). rewrite H2. reflexivity.
    - destruct (literal_of t) as [e0|] eqn:Hl; [|discriminate]. inversion H; subst.
      destruct (literal_facts 0 _ _ Hl) as (H1 & H2 & H3). rewrite H2. reflexivity.
    - destruct (literal_of t) as [e0|] eqn:Hl; [|discriminate]. inversion H; subst.
      destruct (literal_facts 0 _ _ Hl) as (H1 & H2 & H3). rewrite H2. reflexivity.
    - (* KStringLiteral *)
      destruct (take_strings ts1) as [bs ts2]. inversion H; subst. reflexivity.
  Qed.

  Lemma pb_list_S : forall br ts es' ts3, D.expr_list (S f) br ts = Ok (es', ts3) ->
    forallb admissible es' = true ->
    exists ts2, R.expr_list (S f) false br ts = Some (map fold_negative_literals es', ts2) /\
                expect (is_close br) ts2 = Some ts3.
  Proof.
    intros br ts es' ts3 H Ha. rewrite D_expr_list_S in H. rewrite expr_list_S.
    destruct (is_close br (hdk ts)) eqn:Hcl.
    - inversion H; subst. exists ts. split; [reflexivity|now apply is_close_expect].
    - apply bind_Ok in H as ([e ts1] & He & H). cbv beta iota in H.
      destruct (isComma (hdk ts1)) eqn:Hcm.
      + apply bind_Ok in H as ([es ts2] & Hl & H). cbv beta iota in H.
        inversion H; subst; clear H. andbs Ha.
        apply (pb_add f IH) in He; [|assumption].
        apply (pb_list f IH) in Hl as (ts2' & HR & Hc); [|assumption].
        exists ts2'. rewrite He, Hcm, HR. split; [reflexivity|exact Hc].
      + apply bind_Ok in H as (ts2 & Hc & H). cbv beta in H. inversion H; subst; clear H.
        andbs Ha. apply (pb_add f IH) in He; [|assumption].
        exists ts1. rewrite He, Hcm. split; [reflexivity|now apply expect_r_Ok].
  Qed.

  Lemma pb_mem_S : forall ts ms' ts3, D.members_loop (S f) ts = Ok (ms', ts3) ->
    forallb (fun me => admissible (snd me)) ms' = true ->
    exists ts2, R.members_loop (S f) false ts = Some (map fold_member ms', ts2) /\
                expect isBraceRight ts2 = Some ts3.
  Proof.
    intros ts ms' ts3 H Ha. rewrite D_members_loop_S in H. rewrite members_loop_S.
    destruct (isBraceRight (hdk ts)) eqn:Hcl.
    - inversion H; subst. exists ts. split; [reflexivity|now apply brace_expect].
    - apply bind_Ok in H as ([n ts1] & Hid & H). cbv beta iota in H.
      apply expect_id_r_Ok in Hid. rewrite Hid. cbv zeta.
      apply bind_Ok in H as ([e tsv] & He & H). cbv beta iota in H.
      assert (Hval : admissible e = true ->
                (if isColon (hdk ts1) then R.parse_addition f false (tl ts1)
                 else Some (EDeref (Ref 0%N n []), ts1)) = Some (foldE e, tsv)).
      { intros Hae. destruct (isColon (hdk ts1)).
        - apply (pb_add f IH) in He; assumption.
        - inversion He; subst. reflexivity. }
      destruct (isComma (hdk tsv)) eqn:Hcm.
      + apply bind_Ok in H as ([ms tsB] & Hm & H). cbv beta iota in H.
        inversion H; subst; clear H. andbs Ha.
        apply (pb_mem f IH) in Hm as (ts2' & HR & Hc); [|assumption].
        exists ts2'. rewrite Hval by assumption. rewrite Hcm, HR. split; [reflexivity|exact Hc].
      + apply bind_Ok in H as (tsB & Hc & H). cbv beta in H. inversion H; subst; clear H.
        andbs Ha. exists tsv. rewrite Hval by assumption. rewrite Hcm.
        split; [reflexivity|now apply expect_r_Ok].
  Qed.

  Lemma pb_steps_S : forall k ts ss' rest, D.steps_loop (S f) k ts = Ok (ss', rest) ->
    forallb adm_step ss' = true ->
    R.steps_loop (S f) false k ts = Some (map fold_step ss', rest).
  Proof.
    intros k ts ss' rest H Ha. rewrite D_steps_loop_S in H. rewrite steps_loop_S.
    destruct (Nat.leb_spec REPAIRED_ITERATIONS k) as [Hk|Hk]; [discriminate|].
    destruct (isBracketLeft (hdk ts)).
    - apply bind_Ok in H as ([e ts1] & He & H). cbv beta iota in H.
      apply bind_Ok in H as (ts2 & Hp & H). cbv beta in H.
      apply bind_Ok in H as ([ss ts3] & Hst & H). cbv beta iota in H.
      inversion H; subst; clear H. andbs Ha.
      pose proof (D_steps_Ok_bound _ _ _ _ Hst) as Hk'.
      apply (pb_add f IH) in He; [|assumption]. apply expect_r_Ok in Hp.
      apply (pb_steps f IH) in Hst; [|assumption]. rewrite He, Hp, Hk', Hst. reflexivity.
    - destruct (isDot (hdk ts)).
      + apply bind_Ok in H as ([m ts1] & Hid & H). cbv beta iota in H.
        apply bind_Ok in H as ([ss ts3] & Hst & H). cbv beta iota in H.
        inversion H; subst; clear H. andbs Ha.
        pose proof (D_steps_Ok_bound _ _ _ _ Hst) as Hk'.
        apply expect_id_r_Ok in Hid.
        apply (pb_steps f IH) in Hst; [|assumption]. rewrite Hid, Hk', Hst. reflexivity.
      + inversion H; subst. reflexivity.
  Qed.

  Lemma pb_ref_S : forall ts r' rest, D.parse_reference (S f) ts = Ok (r', rest) ->
    adm_ref r' = true -> R.parse_reference (S f) false ts = Some (fold_ref r', rest).
  Proof.
    intros ts r' rest H Ha. rewrite D_parse_reference_S in H. rewrite parse_reference_S.
    rewrite amp_loop_count in H by (unfold MAX_ADDRESS_DEPTH; lia).
    destruct (count_amps ts) as [n ts1] eqn:Hc. rewrite N.add_0_l in H.
    destruct (MAX_ADDRESS_DEPTH <? n)%N eqn:Hn; [discriminate|].
    apply bind_Ok in H as ([b ts2] & Hid & H). cbv beta iota in H.
    apply bind_Ok in H as ([ss ts3] & Hst & H). cbv beta iota in H.
    inversion H; subst; clear H. cbn [adm_ref] in Ha.
    apply expect_id_r_Ok in Hid. apply (pb_steps f IH) in Hst; [|exact Ha].
    rewrite Hid, Hst. reflexivity.
  Qed.

  Lemma pb_addr_S : forall ts d' b ss' rest,
    D.parse_addressed (S f) ts = Ok (Ref d' b ss', rest) ->
    forallb adm_step ss' = true ->
    exists d, d' = (d + 1)%N /\ (MAX_ADDRESS_DEPTH <? d + 1)%N = false /\
              R.parse_reference (S f) false ts = Some (Ref d b (map fold_step ss'), rest).
  Proof.
    intros ts d' b ss' rest H Ha. rewrite D_parse_addressed_S in H. rewrite parse_reference_S.
    rewrite amp_loop_count in H by (unfold MAX_ADDRESS_DEPTH; lia).
    destruct (count_amps ts) as [n ts1] eqn:Hc.
    destruct (MAX_ADDRESS_DEPTH <? 1 + n)%N eqn:Hn; [discriminate|].
    remember (1 + n)%N as d1 eqn:Hd1.
    apply bind_Ok in H as ([b0 ts2] & Hid & H). cbv beta iota in H.
    apply bind_Ok in H as ([ss ts3] & Hst & H). cbv beta iota in H.
    inversion H; subst; clear H.
    apply expect_id_r_Ok in Hid. apply (pb_steps f IH) in Hst; [|exact Ha].
    exists n. split; [apply N.add_comm|]. split; [rewrite N.add_comm; exact Hn|].
    assert (Hn' : (MAX_ADDRESS_DEPTH <? n)%N = false).
    { apply N.ltb_ge. apply N.ltb_ge in Hn. lia. }
    rewrite Hn', Hid, Hst. reflexivity.
  Qed.
End PB_step.

Lemma PB_all f : PB f.
Proof.
  induction f as [|f IH]; [apply PB_0|].
  constructor.
  - apply pb_add_S, IH.
  - apply pb_addl_S, IH.
  - apply pb_bit_S, IH.
  - apply pb_mul_S, IH.
  - apply pb_mull_S, IH.
  - apply pb_sing_S, IH.
  - apply pb_asl_S, IH.
  - apply pb_un_S, IH.
  - apply pb_prim_S, IH.
  - apply pb_list_S, IH.
  - apply pb_mem_S, IH.
  - apply pb_addr_S, IH.
  - apply pb_ref_S, IH.
  - apply pb_steps_S, IH.
Qed.

(* CONVERSE: an admissible tree built by the second generation is the tree of the
   reference parser (after folding), at equal fuel. *)
Theorem reference_is_delta_on_admissible fuel ts e' rest :
  D.parse_expression_res fuel ts = Ok (e', rest) -> admissible e' = true ->
  R.parse_expr fuel ts = Some (fold_negative_literals e', rest).
Proof. intros H Ha. apply (pb_add fuel (PB_all fuel)); assumption. Qed.

(* ------------------------------------------------------------------------- *)
(* The exact class of inputs on which the two generations differ              *)
(* ------------------------------------------------------------------------- *)

Lemma Dg_res_det lim f f' ts r r' :
  D.parse_addition_g lim f ts = r -> r <> Fuel ->
  D.parse_addition_g lim f' ts = r' -> r' <> Fuel -> r = r'.
Proof.
  intros H Hn H' Hn'.
  apply (Dg_parse_addition_mono lim f (Nat.max f f')) in H; [|lia|exact Hn].
  apply (Dg_parse_addition_mono lim f' (Nat.max f f')) in H'; [|lia|exact Hn'].
  congruence.
Qed.

Lemma D_res_det f f' ts r r' :
  D.parse_expression_res f ts = r -> r <> Fuel ->
  D.parse_expression_res f' ts = r' -> r' <> Fuel -> r = r'.
Proof. apply Dg_res_det. Qed.

(* A definite rejection is a rejection at every fuel. *)
Lemma Dg_err_stable lim f ts e : D.parse_addition_g lim f ts = Err e ->
  forall f', to_opt (D.parse_addition_g lim f' ts) = None.
Proof.
  intros H f'.
  destruct (D.parse_addition_g lim f' ts) as [x| |] eqn:H'; try reflexivity.
  exfalso. assert (Hx : @Err (expr * list tok) e = Ok x)
    by (eapply (Dg_res_det lim f f' ts); eauto; discriminate).
  discriminate.
Qed.

Lemma D_err_stable f ts e : D.parse_expression_res f ts = Err e ->
  forall f', D.parse_expression f' ts = None.
Proof. apply Dg_err_stable. Qed.

(* (a) After the repair the reference never accepts what the second generation rejects
   ([delta_expr_is_reference_exact]).  BEFORE the repair (pinned commit): the reference
   accepts and the second generation rejects exactly when the reference tree has a
   reference with 127 steps. *)
Theorem reference_accepts_pinned_rejects fuel ts e rest :
  R.parse_expr fuel ts = Some (e, rest) -> steps_ok e = false ->
  D.parse_expression_pinned_res fuel ts = Err DepthExceeded /\
  forall fuel', D.parse_expression_pinned fuel' ts = None.
Proof.
  intros H Hs. apply pinned_expr_is_reference_exact in H. rewrite Hs in H.
  split; [exact H|]. eapply Dg_err_stable; exact H.
Qed.

(* (b) The second generation accepts: the reference accepts (the folded tree) iff the
   tree is admissible; otherwise the reference rejects whatever the fuel. *)
Theorem delta_accepts_reference_iff_admissible fuel ts e' rest :
  D.parse_expression_res fuel ts = Ok (e', rest) ->
  (admissible e' = true -> R.parse_expr fuel ts = Some (fold_negative_literals e', rest)) /\
  (admissible e' = false -> forall fuel', R.parse_expr fuel' ts = None).
Proof.
  intros H. split; [now apply reference_is_delta_on_admissible|].
  intros Hna fuel'. destruct (R.parse_expr fuel' ts) as [[e r]|] eqn:HR; [|reflexivity].
  exfalso. apply delta_expr_is_reference_exact in HR.
  destruct HR as (e'' & Hd & _ & Ha).
  assert (Hx : Ok (e', rest) = Ok (e'', r))
    by (eapply (D_res_det fuel fuel' ts); eauto; discriminate).
  inversion Hx; subst. congruence.
Qed.

(* Acceptance sets after the repair: the reference accepts ts (for some fuel) iff the
   second generation accepts ts (for some fuel) with an admissible tree. *)
Theorem acceptance_iff ts rest :
  (exists fuel e, R.parse_expr fuel ts = Some (e, rest)) <->
  (exists fuel e', D.parse_expression_res fuel ts = Ok (e', rest) /\ admissible e' = true).
Proof.
  split.
  - intros (fuel & e & H). apply delta_expr_is_reference_exact in H.
    destruct H as (e' & Hd & _ & Ha). eauto.
  - intros (fuel & e' & Hd & Ha). exists fuel, (fold_negative_literals e').
    now apply reference_is_delta_on_admissible.
Qed.

(* (c) `return`: the second-generation lexer has a keyword where the first has an
   identifier; on token lists without KReturn the normalisation is the identity. *)
Lemma norm_return_id ts :
  forallb (fun t => match kind t with KReturn => false | _ => true end) ts = true ->
  norm_return ts = ts.
Proof.
  induction ts as [|t ts IH]; [reflexivity|]. cbn [forallb norm_return map].
  intros H. apply andb_prop in H as [Ht Hts]. unfold norm_return in IH. rewrite IH by exact Hts.
  destruct (kind t); try reflexivity. discriminate.
Qed.

(* ------------------------------------------------------------------------- *)
(* Witnesses                                                                  *)
(* ------------------------------------------------------------------------- *)

Definition w_a := tk_id 1%N.
Definition w_b := tk_id 2%N.
Definition w_c := tk_id 3%N.
Definition w_u8 := tk_type (TyPrim Uint8).
Definition w_i32 := tk_type (TyPrim Int32).
Definition w_lit (n : Z) := mk KNakedDecimal n None [].
Definition va := EDeref (Ref 0%N 1%N []).
Definition vb := EDeref (Ref 0%N 2%N []).
Definition vc := EDeref (Ref 0%N 3%N []).

Fixpoint w_dots (n : nat) : list tok :=
  match n with O => [] | S n => tk KDot :: w_a :: w_dots n end.

(* x.a.a...a with 127 member steps: accepted by the first generation; rejected
   (MaximumParseDepthExceeded) by the second generation BEFORE the repair, whatever the
   fuel; accepted with the same tree after the repair. *)
Theorem pinned_rejects_127_steps_refuted :
  exists ts e, R.parse_expr 400 ts = Some (e, []) /\
               D.parse_expression_pinned_res 400 ts = Err DepthExceeded /\
               (forall fuel, D.parse_expression_pinned fuel ts = None) /\
               D.parse_expression 400 ts = Some (e, []).
Proof.
  exists (w_a :: w_dots 127).
  destruct (R.parse_expr 400 (w_a :: w_dots 127)) as [[e r]|] eqn:HR;
    [|vm_compute in HR; discriminate].
  assert (Hr : r = []) by (vm_compute in HR; inversion HR; reflexivity). subst r.
  exists e.
  assert (Hs : steps_ok e = false) by (vm_compute in HR; inversion HR; vm_compute; reflexivity).
  destruct (reference_accepts_pinned_rejects _ _ _ _ HR Hs) as [H1 H2].
  split; [reflexivity|]. split; [exact H1|]. split; [exact H2|].
  destruct (delta_expr_is_reference_exact _ _ _ _ HR) as (e' & Hd & Hf & _).
  unfold D.parse_expression. rewrite Hd. cbn [to_opt]. f_equal. f_equal.
  rewrite <- Hf. vm_compute in Hd. inversion Hd. vm_compute. reflexivity.
Qed.

Example steps_126_agree :
  exists e, R.parse_expr 400 (w_a :: w_dots 126) = Some (e, []) /\
            D.parse_expression 400 (w_a :: w_dots 126) = Some (e, []) /\
            D.parse_expression_pinned 400 (w_a :: w_dots 126) = Some (e, []).
Proof. eexists. repeat split; vm_compute; reflexivity. Qed.

Example steps_127_agree :
  exists e, R.parse_expr 400 (w_a :: w_dots 127) = Some (e, []) /\
            D.parse_expression 400 (w_a :: w_dots 127) = Some (e, []).
Proof. eexists. split; vm_compute; reflexivity. Qed.

(* 128 steps: both reject; the second generation definitely (an error, not fuel), with
   MaximumParseDepthExceeded, and so at every fuel.  Also with an index step last. *)
Example steps_128_both_reject :
  R.parse_expr 400 (w_a :: w_dots 128) = None /\
  D.parse_expression_res 400 (w_a :: w_dots 128) = Err DepthExceeded /\
  (forall fuel, D.parse_expression fuel (w_a :: w_dots 128) = None) /\
  R.parse_expr 400 (w_a :: w_dots 127 ++ [tk KBracketLeft; w_b; tk KBracketRight]) = None /\
  D.parse_expression_res 400 (w_a :: w_dots 127 ++ [tk KBracketLeft; w_b; tk KBracketRight])
    = Err DepthExceeded.
Proof.
  assert (H : D.parse_expression_res 400 (w_a :: w_dots 128) = Err DepthExceeded)
    by (vm_compute; reflexivity).
  split; [vm_compute; reflexivity|]. split; [exact H|].
  split; [eapply D_err_stable; exact H|]. split; vm_compute; reflexivity.
Qed.

(* At the boundary the two generations fail for the same reason also when the 128th
   step is itself malformed (`.` not followed by an identifier): UnexpectedToken. *)
Example steps_128th_malformed :
  R.parse_expr 400 (w_a :: w_dots 127 ++ [tk KDot; tk KPlus]) = None /\
  D.parse_expression_res 400 (w_a :: w_dots 127 ++ [tk KDot; tk KPlus]) = Err UnexpectedToken.
Proof. split; vm_compute; reflexivity. Qed.

(* `a + b & c`: the check "no bitwise operator after an unparenthesized binary
   expression" is a TODO in the second generation. *)
Theorem converse_refuted_bitwise_after_binary :
  exists ts e', D.parse_expression_res 50 ts = Ok (e', []) /\ admissible e' = false /\
                forall fuel, R.parse_expr fuel ts = None.
Proof.
  exists [w_a; tk KPlus; w_b; tk KAmpersand; w_c].
  exists (EBinary BitwiseAnd (EBinary Add va vb) vc).
  assert (H : D.parse_expression_res 50 [w_a; tk KPlus; w_b; tk KAmpersand; w_c] =
              Ok (EBinary BitwiseAnd (EBinary Add va vb) vc, [])) by (vm_compute; reflexivity).
  split; [exact H|]. split; [vm_compute; reflexivity|].
  apply (delta_accepts_reference_iff_admissible _ _ _ _ H). vm_compute; reflexivity.
Qed.

(* `a * b << c` *)
Theorem converse_refuted_shift_after_binary :
  exists ts e', D.parse_expression_res 50 ts = Ok (e', []) /\ admissible e' = false /\
                forall fuel, R.parse_expr fuel ts = None.
Proof.
  exists [w_a; tk KTimes; w_b; tk KShiftLeft; w_c].
  exists (EBinary ShiftLeft (EBinary Multiply va vb) vc).
  assert (H : D.parse_expression_res 50 [w_a; tk KTimes; w_b; tk KShiftLeft; w_c] =
              Ok (EBinary ShiftLeft (EBinary Multiply va vb) vc, [])) by (vm_compute; reflexivity).
  split; [exact H|]. split; [vm_compute; reflexivity|].
  apply (delta_accepts_reference_iff_admissible _ _ _ _ H). vm_compute; reflexivity.
Qed.

(* `a as [:][:]u8`: the second-generation parser does not check well-formedness. *)
Theorem converse_refuted_illformed_type :
  exists ts e', D.parse_expression_res 50 ts = Ok (e', []) /\ admissible e' = false /\
                forall fuel, R.parse_expr fuel ts = None.
Proof.
  exists [w_a; tk KAs; tk KBracketLeft; tk KColon; tk KBracketRight;
          tk KBracketLeft; tk KColon; tk KBracketRight; w_u8].
  exists (ETypeCast va (TSlice (TSlice (TPrim Uint8)))).
  match goal with |- ?X = _ /\ _ => assert (H : X = Ok (ETypeCast va (TSlice (TSlice (TPrim Uint8))), []))
    by (vm_compute; reflexivity) end.
  split; [exact H|]. split; [vm_compute; reflexivity|].
  apply (delta_accepts_reference_iff_admissible _ _ _ _ H). vm_compute; reflexivity.
Qed.

(* `return` as an expression: an identifier for the first generation (after
   norm_return), an unexpected token for the second. *)
Theorem return_is_reserved :
  R.parse_expr 10 (norm_return [tk KReturn]) = Some (EDeref (Ref 0%N name_return []), []) /\
  D.parse_expression_res 10 [tk KReturn] = Err UnexpectedToken /\
  forall fuel, D.parse_expression fuel [tk KReturn] = None.
Proof.
  assert (H : D.parse_expression_res 10 [tk KReturn] = Err UnexpectedToken)
    by (vm_compute; reflexivity).
  split; [vm_compute; reflexivity|]. split; [exact H|]. eapply D_err_stable; exact H.
Qed.

(* `-5`: kept as Unary(Negative, 5) by the second generation, folded by the first. *)
Example negative_literal_kept :
  D.parse_expression 10 [tk KMinus; w_lit 5] = Some (EUnary Negative (ESigned 5 None), []) /\
  R.parse_expr 10 [tk KMinus; w_lit 5] = Some (ESigned (-5) None, []) /\
  fold_negative_literals (EUnary Negative (ESigned 5 None)) = ESigned (-5) None.
Proof. repeat split; vm_compute; reflexivity. Qed.

(* The hypotheses of the theorems are satisfiable by non-trivial objects. *)
Example nontrivial_agreement :
  let ts := [tk KCast; tk KMinus; w_lit 7; tk KAs; w_u8; tk KTimes; tk KParenLeft; w_a; tk KPlus;
             tk_id 4%N; tk KParenLeft; w_b; tk KComma; tk KBracketLeft; w_c; tk KComma;
             tk KBracketRight; tk KParenRight; tk KParenRight; tk KMinus;
             tk KAmpersand; tk KAmpersand; w_a; tk KBracketLeft; w_b; tk KBracketRight; tk KDot; w_c;
             tk KSemicolon] in
  exists e e', R.parse_expr 60 ts = Some (e, [tk KSemicolon]) /\
               D.parse_expression 60 ts = Some (e', [tk KSemicolon]) /\
               fold_negative_literals e' = e /\ e' <> e /\
               steps_ok e = true /\ admissible e' = true.
Proof.
  cbv zeta. eexists. eexists. split; [vm_compute; reflexivity|].
  split; [vm_compute; reflexivity|]. split; [vm_compute; reflexivity|].
  split; [intros H; discriminate H|]. split; vm_compute; reflexivity.
Qed.

(* ------------------------------------------------------------------------- *)
(* Corollaries: precedence and associativity of the second-generation trees   *)
(* ------------------------------------------------------------------------- *)

Lemma mono_Ok {A : Type} (g : nat -> res A) :
  (forall f, le_res (g f) (g (S f))) ->
  forall f f' x, f <= f' -> g f = Ok x -> g f' = Ok x.
Proof.
  intros Hstep f f' x Hle H. rewrite <- H.
  apply (le_res_le g Hstep f f' Hle). rewrite H. discriminate.
Qed.

Lemma D_singular_mono f f' ts x :
  f <= f' -> D.parse_singular f ts = Ok x -> D.parse_singular f' ts = Ok x.
Proof.
  apply (mono_Ok (fun f => D.parse_singular f ts)). intros f0.
  destruct (D_mono_all f0) as (_ & _ & _ & _ & _ & H & _). apply H.
Qed.

Lemma D_unary_mono f f' ts x :
  f <= f' -> D.parse_unary f ts = Ok x -> D.parse_unary f' ts = Ok x.
Proof.
  apply (mono_Ok (fun f => D.parse_unary f ts)). intros f0.
  destruct (D_mono_all f0) as (_ & _ & _ & _ & _ & _ & H & _). apply H.
Qed.

Lemma D_primary_mono f f' ts x :
  f <= f' -> D.parse_primary f ts = Ok x -> D.parse_primary f' ts = Ok x.
Proof.
  apply (mono_Ok (fun f => D.parse_primary f ts)). intros f0.
  destruct (D_mono_all f0) as (_ & _ & _ & _ & _ & _ & _ & H & _). apply H.
Qed.

Lemma D_type_mono f f' ts x :
  f <= f' -> D.parse_type f ts = Ok x -> D.parse_type f' ts = Ok x.
Proof.
  unfold D.parse_type. apply (mono_Ok (fun f => D.parse_inner_type f ts)). intros f0.
  apply D_parse_inner_type_mono1.
Qed.

(* `a * b / c` (any two multiplicative operators): ((a op1 b) op2 c). *)
Theorem mul_chains_left f ta t1 tb t2 tc a b c op1 op2 rest :
  D.parse_singular f ta = Ok (a, t1 :: tb) -> mulop_of (kind t1) = Some op1 ->
  D.parse_singular f tb = Ok (b, t2 :: tc) -> mulop_of (kind t2) = Some op2 ->
  D.parse_singular f tc = Ok (c, rest) -> mulop_of (hdk rest) = None ->
  D.parse_multiplication (S (S (S (S f)))) ta = Ok (EBinary op2 (EBinary op1 a b) c, rest).
Proof.
  intros Ha H1 Hb H2 Hc Hr.
  rewrite D_parse_multiplication_S.
  rewrite (D_singular_mono f (S (S (S f))) _ _ ltac:(lia) Ha). cbn [bind].
  rewrite D_mul_loop_S. cbn [hdk tl]. rewrite H1.
  rewrite (D_singular_mono f (S (S f)) _ _ ltac:(lia) Hb). cbn [bind].
  rewrite D_mul_loop_S. cbn [hdk tl]. rewrite H2.
  rewrite (D_singular_mono f (S f) _ _ ltac:(lia) Hc). cbn [bind].
  rewrite D_mul_loop_S. rewrite Hr. reflexivity.
Qed.

(* `a as T as U`: ((a as T) as U). *)
Theorem as_chains_left f ta t1 tT t2 tU a T U rest :
  isCast (hdk ta) = false ->
  D.parse_unary f ta = Ok (a, t1 :: tT) -> isAs (kind t1) = true ->
  D.parse_type f tT = Ok (T, t2 :: tU) -> isAs (kind t2) = true ->
  D.parse_type f tU = Ok (U, rest) -> isAs (hdk rest) = false ->
  D.parse_singular (S (S (S (S f)))) ta = Ok (ETypeCast (ETypeCast a T) U, rest).
Proof.
  intros Hnc Ha H1 HT H2 HU Hr.
  rewrite D_parse_singular_S, Hnc.
  rewrite (D_unary_mono f (S (S (S f))) _ _ ltac:(lia) Ha). cbn [bind].
  rewrite D_as_loop_S. cbn [hdk tl]. rewrite H1.
  rewrite (D_type_mono f (S (S f)) _ _ ltac:(lia) HT). cbn [bind].
  rewrite D_as_loop_S. cbn [hdk tl]. rewrite H2.
  rewrite (D_type_mono f (S f) _ _ ltac:(lia) HU). cbn [bind].
  rewrite D_as_loop_S. rewrite Hr. reflexivity.
Qed.

(* `-a as T`: ((-a) as T), not -(a as T). *)
Theorem unary_binds_tighter_than_as f t0 ta t1 tT a T rest :
  kind t0 = KMinus ->
  D.parse_primary f ta = Ok (a, t1 :: tT) -> isAs (kind t1) = true ->
  D.parse_type f tT = Ok (T, rest) -> isAs (hdk rest) = false ->
  D.parse_singular (S (S (S f))) (t0 :: ta) = Ok (ETypeCast (EUnary Negative a) T, rest).
Proof.
  intros H0 Ha H1 HT Hr.
  rewrite D_parse_singular_S. cbn [hdk tl]. rewrite H0. cbn [isCast].
  rewrite D_parse_unary_S. cbn [hdk tl]. rewrite H0.
  rewrite (D_primary_mono f (S f) _ _ ltac:(lia) Ha). cbn [bind].
  rewrite D_as_loop_S. cbn [hdk tl]. rewrite H1.
  rewrite (D_type_mono f (S f) _ _ ltac:(lia) HT). cbn [bind].
  rewrite D_as_loop_S. rewrite Hr. reflexivity.
Qed.

(* `a - b * c` (any additive, then any multiplicative operator): a op1 (b op2 c). *)
Theorem add_over_mul f ta t1 tb t2 tc a b c op1 op2 rest :
  D.parse_singular f ta = Ok (a, t1 :: tb) -> addop_of (kind t1) = Some op1 ->
  D.parse_singular f tb = Ok (b, t2 :: tc) -> mulop_of (kind t2) = Some op2 ->
  D.parse_singular f tc = Ok (c, rest) ->
  mulop_of (hdk rest) = None -> bitop_of (hdk rest) = None ->
  shiftop_of (hdk rest) = None -> addop_of (hdk rest) = None ->
  D.parse_addition (S (S (S (S (S (S f)))))) ta =
    Ok (EBinary op1 a (EBinary op2 b c), rest).
Proof.
  intros Ha H1 Hb H2 Hc Hr1 Hr2 Hr3 Hr4.
  assert (Hk1 : mulop_of (kind t1) = None /\ bitop_of (kind t1) = None /\
                shiftop_of (kind t1) = None).
  { destruct (kind t1); cbn in H1; try discriminate; repeat split; reflexivity. }
  destruct Hk1 as (Hm1 & Hb1 & Hs1).
  rewrite D_parse_addition_S, D_parse_multiplication_S.
  rewrite (D_singular_mono f (S (S (S (S f)))) _ _ ltac:(lia) Ha). cbn [bind].
  rewrite D_mul_loop_S. cbn [hdk tl]. rewrite Hm1. cbn [bind].
  rewrite D_add_loop_S. cbn [hdk tl]. rewrite Hb1, Hs1, H1.
  rewrite D_parse_multiplication_S.
  rewrite (D_singular_mono f (S (S (S f))) _ _ ltac:(lia) Hb). cbn [bind].
  rewrite D_mul_loop_S. cbn [hdk tl]. rewrite H2.
  rewrite (D_singular_mono f (S (S f)) _ _ ltac:(lia) Hc). cbn [bind].
  rewrite D_mul_loop_S. rewrite Hr1. cbn [bind].
  rewrite D_add_loop_S. rewrite Hr2, Hr3, Hr4. reflexivity.
Qed.

(* The corollaries are not vacuous. *)
Example mul_chains_left_ex :
  D.parse_multiplication 8 [w_a; tk KTimes; w_b; tk KDivide; w_c] =
    Ok (EBinary Divide (EBinary Multiply va vb) vc, []).
Proof.
  apply (mul_chains_left 4 [w_a; tk KTimes; w_b; tk KDivide; w_c] (tk KTimes) [w_b; tk KDivide; w_c]
    (tk KDivide) [w_c] va vb vc Multiply Divide []); vm_compute; reflexivity.
Qed.

Example add_over_mul_ex :
  D.parse_addition 10 [w_a; tk KMinus; w_b; tk KTimes; w_c] =
    Ok (EBinary Subtract va (EBinary Multiply vb vc), []).
Proof.
  apply (add_over_mul 4 [w_a; tk KMinus; w_b; tk KTimes; w_c] (tk KMinus) [w_b; tk KTimes; w_c]
    (tk KTimes) [w_c] va vb vc Subtract Multiply []); vm_compute; reflexivity.
Qed.

Example as_chains_left_ex :
  D.parse_singular 7 [w_a; tk KAs; w_u8; tk KAs; w_i32] =
    Ok (ETypeCast (ETypeCast va (TPrim Uint8)) (TPrim Int32), []).
Proof.
  apply (as_chains_left 3 [w_a; tk KAs; w_u8; tk KAs; w_i32] (tk KAs) [w_u8; tk KAs; w_i32]
    (tk KAs) [w_i32] va (TPrim Uint8) (TPrim Int32) []); vm_compute; reflexivity.
Qed.

Example unary_binds_tighter_than_as_ex :
  D.parse_singular 5 [tk KMinus; w_a; tk KAs; w_u8] =
    Ok (ETypeCast (EUnary Negative va) (TPrim Uint8), []).
Proof.
  apply (unary_binds_tighter_than_as 2 (tk KMinus) [w_a; tk KAs; w_u8] (tk KAs) [w_u8]
    va (TPrim Uint8) []); vm_compute; reflexivity.
Qed.

(* ------------------------------------------------------------------------- *)
(* The three seeded mutants build a different tree                            *)
(* ------------------------------------------------------------------------- *)

(* Mutant 1 (`*` `/` `%` right-associative) on `a * b / c`. *)
Theorem mutant_mul_right_assoc_refuted :
  exists ts e_ref e_mut,
    R.parse_expr 50 ts = Some (e_ref, []) /\
    D.parse_expression 50 ts = Some (e_ref, []) /\
    D.mut1_parse_expression 50 ts = Ok (e_mut, []) /\ e_mut <> e_ref.
Proof.
  exists [w_a; tk KTimes; w_b; tk KDivide; w_c].
  exists (EBinary Divide (EBinary Multiply va vb) vc).
  exists (EBinary Multiply va (EBinary Divide vb vc)).
  repeat split; try (vm_compute; reflexivity). intros H; discriminate H.
Qed.

(* Mutant 2 (only one `as`) on `a as u8 as i32`: the second cast is left over. *)
Theorem mutant_as_once_refuted :
  exists ts e_ref e_mut rest_mut,
    R.parse_expr 50 ts = Some (e_ref, []) /\
    D.parse_expression 50 ts = Some (e_ref, []) /\
    D.mut2_parse_expression 50 ts = Ok (e_mut, rest_mut) /\
    e_mut <> e_ref /\ rest_mut <> [].
Proof.
  exists [w_a; tk KAs; w_u8; tk KAs; w_i32].
  exists (ETypeCast (ETypeCast va (TPrim Uint8)) (TPrim Int32)).
  exists (ETypeCast va (TPrim Uint8)). exists [tk KAs; w_i32].
  repeat split; try (vm_compute; reflexivity); intros H; discriminate H.
Qed.

(* Mutant 3 (address depth counted from 0) on `&a`. *)
Theorem mutant_address_depth_refuted :
  exists ts e_ref e_mut,
    R.parse_expr 50 ts = Some (e_ref, []) /\
    D.parse_expression 50 ts = Some (e_ref, []) /\
    D.mut3_parse_expression 50 ts = Ok (e_mut, []) /\ e_mut <> e_ref.
Proof.
  exists [tk KAmpersand; w_a].
  exists (EDeref (Ref 1%N 1%N [])). exists (EDeref (Ref 0%N 1%N [])).
  repeat split; try (vm_compute; reflexivity). intros H; discriminate H.
Qed.

(* The address-depth limit: 127 ampersands accepted, 128 rejected, by both. *)
Example address_depth_127 :
  (exists e, R.parse_expr 20 (repeat (tk KAmpersand) 127 ++ [w_a]) = Some (e, []) /\
             D.parse_expression 20 (repeat (tk KAmpersand) 127 ++ [w_a]) = Some (e, [])) /\
  R.parse_expr 20 (repeat (tk KAmpersand) 128 ++ [w_a]) = None /\
  D.parse_expression_res 20 (repeat (tk KAmpersand) 128 ++ [w_a]) = Err DepthExceeded.
Proof. split; [eexists; split; vm_compute; reflexivity|]. split; vm_compute; reflexivity. Qed.

(* ------------------------------------------------------------------------- *)
(* The comparison of `if`: reservation by hiding `{` (first generation) versus *)
(* reservation by cutting the span at the first `{` or `;` (second)           *)
(* ------------------------------------------------------------------------- *)

Definition pre (ts : list tok) : list tok := fst (cut_reserved ts).
Definition suf (ts : list tok) : list tok := snd (cut_reserved ts).

Lemma pre_suf ts : pre ts ++ suf ts = ts.
Proof.
  unfold pre, suf. induction ts as [|t ts IH]; [reflexivity|]. cbn [cut_reserved].
  destruct (is_reserved (kind t)); [reflexivity|].
  destruct (cut_reserved ts) as [p s]. cbn [fst snd app] in *. now rewrite IH.
Qed.

Lemma hdk_pre {A : Type} (q : tkind -> A) ts :
  q KBraceLeft = q KError -> q KSemicolon = q KError -> q (hdk (pre ts)) = q (hdk ts).
Proof.
  intros H1 H2. destruct ts as [|t ts']; [reflexivity|]. unfold pre. cbn [cut_reserved].
  destruct (is_reserved (kind t)) eqn:Hr.
  - cbn [fst hdk]. destruct (kind t); try discriminate Hr; symmetry; assumption.
  - destruct (cut_reserved ts'). reflexivity.
Qed.

Lemma hdk_pre_k ts k : hdk ts = k -> hdk (pre ts) = if is_reserved k then KError else k.
Proof.
  intros Hk. destruct ts as [|t ts']; [subst; reflexivity|]. unfold pre. cbn [cut_reserved].
  cbn [hdk] in Hk. rewrite Hk. destruct (is_reserved k) eqn:Hr; [reflexivity|].
  destruct (cut_reserved ts'). cbn [fst hdk]. exact Hk.
Qed.

Lemma tl_pre ts : is_reserved (hdk ts) = false ->
  tl (pre ts) = pre (tl ts) /\ suf (tl ts) = suf ts.
Proof.
  destruct ts as [|t ts']; [split; reflexivity|]. cbn [hdk]. intros Hr.
  unfold pre, suf. cbn [cut_reserved tl]. rewrite Hr.
  destruct (cut_reserved ts'); split; reflexivity.
Qed.

Lemma pre_cons t ts : is_reserved (kind t) = false ->
  pre (t :: ts) = t :: pre ts /\ suf (t :: ts) = suf ts.
Proof.
  intros Hr. unfold pre, suf. cbn [cut_reserved]. rewrite Hr.
  destruct (cut_reserved ts); split; reflexivity.
Qed.

Lemma pre_no_brace ts : isBraceLeft (hdk (pre ts)) = false.
Proof.
  destruct ts as [|t ts']; [reflexivity|]. unfold pre. cbn [cut_reserved].
  destruct (is_reserved (kind t)) eqn:Hr; [reflexivity|].
  destruct (cut_reserved ts'). cbn [fst hdk]. unfold is_reserved in Hr.
  destruct (isBraceLeft (kind t)); [discriminate|reflexivity].
Qed.

Lemma not_reserved_by {A : Type} (q : tkind -> A) ts :
  q (hdk ts) <> q KError -> q KBraceLeft = q KError -> q KSemicolon = q KError ->
  is_reserved (hdk ts) = false.
Proof. destruct (hdk ts); try reflexivity; intros; congruence. Qed.

Lemma expect_pre p ts r : p KBraceLeft = false -> p KSemicolon = false ->
  expect p ts = Some r -> expect p (pre ts) = Some (pre r) /\ suf r = suf ts.
Proof.
  intros H1 H2 H. destruct ts as [|t ts']; [discriminate|]. cbn [expect] in H.
  destruct (p (kind t)) eqn:Hp; [|discriminate]. inversion H; subst.
  destruct (pre_cons t r) as [Hpc Hsc].
  { destruct (kind t); try reflexivity; congruence. }
  rewrite Hpc. cbn [expect]. rewrite Hp. split; [reflexivity|now symmetry].
Qed.

Lemma expect_id_pre ts n r :
  expect_id ts = Some (n, r) -> expect_id (pre ts) = Some (n, pre r) /\ suf r = suf ts.
Proof.
  intros H. destruct ts as [|t ts']; [discriminate|]. cbn [expect_id] in H.
  destruct (isIdentifier (kind t)) eqn:Hp; [|discriminate]. inversion H; subst.
  destruct (pre_cons t r) as [Hpc Hsc].
  { destruct (kind t); try reflexivity; discriminate. }
  rewrite Hpc. cbn [expect_id]. rewrite Hp. split; [reflexivity|now symmetry].
Qed.

Lemma take_strings_pre : forall ts bs r, take_strings ts = (bs, r) ->
  take_strings (pre ts) = (bs, pre r) /\ suf r = suf ts.
Proof.
  induction ts as [|t ts IH]; intros bs r H.
  - inversion H; subst. split; reflexivity.
  - cbn [take_strings] in H. destruct (isString (kind t)) eqn:Hs.
    + destruct (take_strings ts) as [bs0 r0] eqn:Ht. inversion H; subst.
      destruct (IH _ _ eq_refl) as [IH1 IH2].
      destruct (pre_cons t ts) as [Hpc Hsc].
      { destruct (kind t); try reflexivity; discriminate. }
      rewrite Hpc. cbn [take_strings]. rewrite Hs, IH1. split; [reflexivity|congruence].
    + inversion H; subst. split; [|reflexivity].
      destruct (is_reserved (kind t)) eqn:Hr.
      * unfold pre. cbn [cut_reserved]. rewrite Hr. reflexivity.
      * destruct (pre_cons t ts Hr) as [Hpc _]. rewrite Hpc. cbn [take_strings].
        rewrite Hs. reflexivity.
Qed.

Lemma count_amps_pre : forall ts n r, count_amps ts = (n, r) ->
  count_amps (pre ts) = (n, pre r) /\ suf r = suf ts.
Proof.
  induction ts as [|t ts IH]; intros n r H.
  - inversion H; subst. split; reflexivity.
  - cbn [count_amps] in H. destruct (isAmpersand (kind t)) eqn:Hs.
    + destruct (count_amps ts) as [n0 r0] eqn:Ht. inversion H; subst.
      destruct (IH _ _ eq_refl) as [IH1 IH2].
      destruct (pre_cons t ts) as [Hpc Hsc].
      { destruct (kind t); try reflexivity; discriminate. }
      rewrite Hpc. cbn [count_amps]. rewrite Hs, IH1. split; [reflexivity|congruence].
    + inversion H; subst. split; [|reflexivity].
      destruct (is_reserved (kind t)) eqn:Hr.
      * unfold pre. cbn [cut_reserved]. rewrite Hr. reflexivity.
      * destruct (pre_cons t ts Hr) as [Hpc _]. rewrite Hpc. cbn [count_amps].
        rewrite Hs. reflexivity.
Qed.

Lemma type_pre f : forall ts t rest, R.parse_inner_type f ts = Some (t, rest) ->
  R.parse_inner_type f (pre ts) = Some (t, pre rest) /\ suf rest = suf ts.
Proof.
  induction f as [|f IH]; intros ts t rest H; [discriminate|].
  rewrite parse_inner_type_S in H.
  destruct ts as [|t0 ts1]; [discriminate|].
  destruct (kind t0) eqn:Hk; try discriminate H;
    (destruct (pre_cons t0 ts1) as [Hpc Hsc]; [rewrite Hk; reflexivity|]);
    rewrite Hpc, parse_inner_type_S, Hk.
  - (* ( *)
    destruct (R.parse_inner_type f ts1) as [[d ts2]|] eqn:Hi; [|discriminate].
    destruct (expect isParenRight ts2) as [ts3|] eqn:Hp; [|discriminate].
    inversion H; subst. apply IH in Hi as [Hi Hs1].
    apply expect_pre in Hp as [Hp Hs2]; [|reflexivity|reflexivity].
    rewrite Hi, Hp. split; [reflexivity|congruence].
  - (* [ *)
    destruct ts1 as [|t1 ts2]; [discriminate|].
    destruct (kind t1) eqn:Hk1; try discriminate H;
      (destruct (pre_cons t1 ts2) as [Hpc1 Hsc1]; [rewrite Hk1; reflexivity|]);
      rewrite Hpc1, Hk1;
      repeat match goal with
      | H : match expect ?p ?x with _ => _ end = Some _ |- _ =>
          let Hp := fresh "Hp" in
          destruct (expect p x) eqn:Hp; [|discriminate H];
          apply expect_pre in Hp as [Hp ?]; [|reflexivity|reflexivity]; rewrite Hp
      | H : match R.parse_inner_type f ?x with _ => _ end = Some _ |- _ =>
          let Hi := fresh "Hi" in
          destruct (R.parse_inner_type f x) as [[? ?]|] eqn:Hi; [|discriminate H];
          apply IH in Hi as [Hi ?]; rewrite Hi
      end; inversion H; subst; (split; [reflexivity|congruence]).
  - (* & *)
    destruct (R.parse_inner_type f ts1) as [[d ts2]|] eqn:Hi; [|discriminate].
    inversion H; subst. apply IH in Hi as [Hi Hs1]. rewrite Hi. split; [reflexivity|congruence].
  - (* keyword *)
    destruct (vtype t0) as [[|p]|]; try discriminate H; inversion H; subst;
      (split; [reflexivity|now symmetry]).
  - inversion H; subst. split; [reflexivity|now symmetry].
Qed.

Lemma wf_type_pre f ts t rest : R.parse_wellformed_type f ts = Some (t, rest) ->
  R.parse_wellformed_type f (pre ts) = Some (t, pre rest) /\ suf rest = suf ts.
Proof.
  unfold R.parse_wellformed_type. intros H.
  destruct (R.parse_inner_type f ts) as [[t0 r0]|] eqn:Hi; [|discriminate].
  destruct (ty_wellformed t0) eqn:Hw; [|discriminate]. inversion H; subst.
  apply type_pre in Hi as [Hi Hs]. rewrite Hi, Hw. split; [reflexivity|exact Hs].
Qed.

Lemma as_loop_pre f : forall acc ts e rest, R.as_loop f acc ts = Some (e, rest) ->
  R.as_loop f acc (pre ts) = Some (e, pre rest) /\ suf rest = suf ts.
Proof.
  induction f as [|f IH]; intros acc ts e rest H; [discriminate|].
  rewrite as_loop_S in H |- *. rewrite (hdk_pre isAs) by reflexivity.
  destruct (isAs (hdk ts)) eqn:Has.
  - destruct (tl_pre ts) as [Htl Hsf].
    { apply (not_reserved_by isAs); [rewrite Has; discriminate|reflexivity|reflexivity]. }
    destruct (R.parse_wellformed_type f (tl ts)) as [[t ts1]|] eqn:Ht; [|discriminate].
    apply wf_type_pre in Ht as [Ht Hs1]. rewrite Htl, Ht.
    apply IH in H as [H Hs2]. split; [exact H|congruence].
  - inversion H; subst. split; reflexivity.
Qed.

Definition NB {A : Type} (ro : option (A * list tok)) (x : A) (rest ts : list tok) : Prop :=
  ro = Some (x, pre rest) /\ suf rest = suf ts.

Record PN (f : nat) : Prop := {
  pn_add : forall ts e rest, R.parse_addition f true ts = Some (e, rest) ->
           NB (R.parse_addition f false (pre ts)) e rest ts;
  pn_addl : forall acc ts e rest, R.add_loop f true acc ts = Some (e, rest) ->
           NB (R.add_loop f false acc (pre ts)) e rest ts;
  pn_bit : forall op acc ts e rest, R.bit_loop f true op acc ts = Some (e, rest) ->
           NB (R.bit_loop f false op acc (pre ts)) e rest ts;
  pn_mul : forall ts e rest, R.parse_multiplication f true ts = Some (e, rest) ->
           NB (R.parse_multiplication f false (pre ts)) e rest ts;
  pn_mull : forall acc ts e rest, R.mul_loop f true acc ts = Some (e, rest) ->
           NB (R.mul_loop f false acc (pre ts)) e rest ts;
  pn_sing : forall ts e rest, R.parse_singular f true ts = Some (e, rest) ->
           NB (R.parse_singular f false (pre ts)) e rest ts;
  pn_un : forall ts e rest, R.parse_unary f true ts = Some (e, rest) ->
           NB (R.parse_unary f false (pre ts)) e rest ts;
  pn_prim : forall ts e rest, R.parse_primary f true ts = Some (e, rest) ->
           NB (R.parse_primary f false (pre ts)) e rest ts;
  pn_list : forall br ts es rest, R.expr_list f true br ts = Some (es, rest) ->
           NB (R.expr_list f false br (pre ts)) es rest ts;
  pn_mem : forall ts ms rest, R.members_loop f true ts = Some (ms, rest) ->
           NB (R.members_loop f false (pre ts)) ms rest ts;
  pn_ref : forall ts r rest, R.parse_reference f true ts = Some (r, rest) ->
           NB (R.parse_reference f false (pre ts)) r rest ts;
  pn_steps : forall k ts ss rest, R.steps_loop f true k ts = Some (ss, rest) ->
           NB (R.steps_loop f false k (pre ts)) ss rest ts
}.

Lemma PN_0 : PN 0.
Proof. constructor; intros; discriminate. Qed.

(* [nr q Hq]: from Hq : q (hdk ts) = <not the answer on KError>, the facts about tl *)
Ltac nr q Hq :=
  match type of Hq with
  | _ (hdk ?ts) = _ =>
      let Htl := fresh "Htl" in let Hsf := fresh "Hsf" in
      destruct (tl_pre ts) as [Htl Hsf];
      [ apply (not_reserved_by q); [rewrite Hq; discriminate|reflexivity|reflexivity] | ]
  end.

Ltac nbdone := split; [first [reflexivity | eassumption] | congruence].

Section PN_step.
  Variable f : nat.
  Hypothesis IH : PN f.

  Lemma pn_add_S : forall ts e rest, R.parse_addition (S f) true ts = Some (e, rest) ->
    NB (R.parse_addition (S f) false (pre ts)) e rest ts.
  Proof.
    intros ts e rest H. unfold NB. rewrite parse_addition_S in H |- *.
    destruct (R.parse_multiplication f true ts) as [[m ts1]|] eqn:Hm; [|discriminate].
    apply (pn_mul f IH) in Hm as [Hm Hs1]. rewrite Hm.
    apply (pn_addl f IH) in H as [H Hs2]. nbdone.
  Qed.

  Lemma pn_addl_S : forall acc ts e rest, R.add_loop (S f) true acc ts = Some (e, rest) ->
    NB (R.add_loop (S f) false acc (pre ts)) e rest ts.
  Proof.
    intros acc ts e rest H. unfold NB. rewrite add_loop_S in H |- *.
    rewrite (hdk_pre bitop_of), (hdk_pre shiftop_of), (hdk_pre addop_of) by reflexivity.
    destruct (bitop_of (hdk ts)) as [op|] eqn:Hb.
    - destruct (is_binary acc); [discriminate|]. nr bitop_of Hb. rewrite Htl.
      apply (pn_bit f IH) in H as [H Hs]. nbdone.
    - destruct (shiftop_of (hdk ts)) as [op|] eqn:Hsh.
      + destruct (is_binary acc); [discriminate|]. nr shiftop_of Hsh. rewrite Htl.
        destruct (R.parse_unary f true (tl ts)) as [[r ts1]|] eqn:Hu; [|discriminate].
        inversion H; subst. apply (pn_un f IH) in Hu as [Hu Hs]. rewrite Hu. nbdone.
      + destruct (addop_of (hdk ts)) as [op|] eqn:Hao.
        * nr addop_of Hao. rewrite Htl.
          destruct (R.parse_multiplication f true (tl ts)) as [[r ts1]|] eqn:Hm; [|discriminate].
          apply (pn_mul f IH) in Hm as [Hm Hs]. rewrite Hm.
          apply (pn_addl f IH) in H as [H Hs2]. nbdone.
        * inversion H; subst. nbdone.
  Qed.

  Lemma pn_bit_S : forall op acc ts e rest, R.bit_loop (S f) true op acc ts = Some (e, rest) ->
    NB (R.bit_loop (S f) false op acc (pre ts)) e rest ts.
  Proof.
    intros op acc ts e rest H. unfold NB. rewrite bit_loop_S in H |- *.
    destruct (R.parse_unary f true ts) as [[r ts1]|] eqn:Hu; [|discriminate].
    apply (pn_un f IH) in Hu as [Hu Hs]. rewrite Hu.
    rewrite (hdk_pre (same_bitop op)) by (destruct op; reflexivity).
    destruct (same_bitop op (hdk ts1)) eqn:Hsb.
    - nr (same_bitop op) Hsb.
      rewrite Htl. apply (pn_bit f IH) in H as [H Hs2]. nbdone.
    - inversion H; subst. nbdone.
  Qed.

  Lemma pn_mul_S : forall ts e rest, R.parse_multiplication (S f) true ts = Some (e, rest) ->
    NB (R.parse_multiplication (S f) false (pre ts)) e rest ts.
  Proof.
    intros ts e rest H. unfold NB. rewrite parse_multiplication_S in H |- *.
    destruct (R.parse_singular f true ts) as [[m ts1]|] eqn:Hm; [|discriminate].
    apply (pn_sing f IH) in Hm as [Hm Hs1]. rewrite Hm.
    apply (pn_mull f IH) in H as [H Hs2]. nbdone.
  Qed.

  Lemma pn_mull_S : forall acc ts e rest, R.mul_loop (S f) true acc ts = Some (e, rest) ->
    NB (R.mul_loop (S f) false acc (pre ts)) e rest ts.
  Proof.
    intros acc ts e rest H. unfold NB. rewrite mul_loop_S in H |- *.
    rewrite (hdk_pre mulop_of) by reflexivity.
    destruct (mulop_of (hdk ts)) as [op|] eqn:Hmo.
    - nr mulop_of Hmo. rewrite Htl.
      destruct (R.parse_singular f true (tl ts)) as [[r ts1]|] eqn:Hm; [|discriminate].
      apply (pn_sing f IH) in Hm as [Hm Hs]. rewrite Hm.
      apply (pn_mull f IH) in H as [H Hs2]. nbdone.
    - inversion H; subst. nbdone.
  Qed.

  Lemma pn_sing_S : forall ts e rest, R.parse_singular (S f) true ts = Some (e, rest) ->
    NB (R.parse_singular (S f) false (pre ts)) e rest ts.
  Proof.
    intros ts e rest H. unfold NB. rewrite parse_singular_S in H |- *.
    rewrite (hdk_pre isCast) by reflexivity.
    destruct (isCast (hdk ts)) eqn:Hc.
    - nr isCast Hc. rewrite Htl.
      destruct (R.parse_unary f true (tl ts)) as [[u ts1]|] eqn:Hu; [|discriminate].
      apply (pn_un f IH) in Hu as [Hu Hs]. rewrite Hu.
      apply as_loop_pre in H as [H Hs2]. nbdone.
    - destruct (R.parse_unary f true ts) as [[u ts1]|] eqn:Hu; [|discriminate].
      apply (pn_un f IH) in Hu as [Hu Hs]. rewrite Hu.
      apply as_loop_pre in H as [H Hs2]. nbdone.
  Qed.

  Lemma pn_un_S : forall ts e rest, R.parse_unary (S f) true ts = Some (e, rest) ->
    NB (R.parse_unary (S f) false (pre ts)) e rest ts.
  Proof.
    intros ts e rest H. unfold NB. rewrite parse_unary_S in H |- *.
    destruct (hdk ts) eqn:Hk; rewrite (hdk_pre_k _ _ Hk);
      cbn [is_reserved isBraceLeft isSemicolon orb];
      try (apply (pn_prim f IH); exact H);
      (destruct (tl_pre ts) as [Htl Hsf]; [rewrite Hk; reflexivity|]); rewrite Htl.
    - (* KPipe *)
      destruct (R.parse_reference f true (tl ts)) as [[r ts1]|] eqn:Hr; [|discriminate].
      destruct (expect isPipe ts1) as [ts2|] eqn:Hp; [|discriminate].
      inversion H; subst. apply (pn_ref f IH) in Hr as [Hr Hs1].
      apply expect_pre in Hp as [Hp Hs2]; [|reflexivity|reflexivity].
      rewrite Hr, Hp. nbdone.
    - (* KExclamation *)
      destruct (R.parse_primary f true (tl ts)) as [[p ts1]|] eqn:Hp; [|discriminate].
      inversion H; subst. apply (pn_prim f IH) in Hp as [Hp Hs1]. rewrite Hp. nbdone.
    - (* KMinus *)
      destruct (R.parse_primary f true (tl ts)) as [[p ts1]|] eqn:Hp; [|discriminate].
      rewrite R_minus_is_fold_neg in H. inversion H; subst.
      apply (pn_prim f IH) in Hp as [Hp Hs1]. rewrite Hp, R_minus_is_fold_neg. nbdone.
    - (* KPipeForType *)
      destruct (R.parse_wellformed_type f (tl ts)) as [[t ts1]|] eqn:Ht; [|discriminate].
      destruct (expect isPipe ts1) as [ts2|] eqn:Hp; [|discriminate].
      inversion H; subst. apply wf_type_pre in Ht as [Ht Hs1].
      apply expect_pre in Hp as [Hp Hs2]; [|reflexivity|reflexivity].
      rewrite Ht, Hp. nbdone.
  Qed.

  Lemma pn_prim_S : forall ts e rest, R.parse_primary (S f) true ts = Some (e, rest) ->
    NB (R.parse_primary (S f) false (pre ts)) e rest ts.
  Proof.
    intros ts e rest H. unfold NB. rewrite parse_primary_S in H.
    destruct ts as [|t ts1]; [discriminate|].
    destruct (kind t) eqn:Hk; try discriminate H;
      (destruct (pre_cons t ts1) as [Hpc Hsc]; [rewrite Hk; reflexivity|]);
      rewrite Hpc, parse_primary_S, Hk.
    - (* KParenLeft *)
      destruct (R.parse_addition f true ts1) as [[e0 ts2]|] eqn:He; [|discriminate].
      destruct (expect isParenRight ts2) as [ts3|] eqn:Hp; [|discriminate].
      inversion H; subst. apply (pn_add f IH) in He as [He Hs1].
      apply expect_pre in Hp as [Hp Hs2]; [|reflexivity|reflexivity].
      rewrite He, Hp. nbdone.
    - (* KBracketLeft *)
      destruct (R.expr_list f true true ts1) as [[es ts2]|] eqn:Hl; [|discriminate].
      destruct (expect isBracketRight ts2) as [ts3|] eqn:Hp; [|discriminate].
      inversion H; subst. apply (pn_list f IH) in Hl as [Hl Hs1].
      apply expect_pre in Hp as [Hp Hs2]; [|reflexivity|reflexivity].
      rewrite Hl, Hp. nbdone.
    - (* KAmpersand *)
      destruct (R.parse_reference f true ts1) as [[[d b steps] ts2]|] eqn:Hr; [|discriminate].
      destruct (MAX_ADDRESS_DEPTH <? d + 1)%N eqn:Hd; [discriminate|].
      apply (pn_ref f IH) in Hr as [Hr Hs1]. rewrite Hr. cbv beta iota zeta in H |- *.
      rewrite Hd. rewrite (hdk_pre isDots) by reflexivity.
      destruct (isDots (hdk ts2)) eqn:Hdots.
      + nr isDots Hdots. rewrite Htl.
        destruct (R.parse_addition f true (tl ts2)) as [[off ts3]|] eqn:Ho; [|discriminate].
        inversion H; subst. apply (pn_add f IH) in Ho as [Ho Hs2]. rewrite Ho. nbdone.
      + inversion H; subst. nbdone.
    - (* KIdentifier *)
      rewrite (hdk_pre isParenLeft) by reflexivity.
      destruct (isParenLeft (hdk ts1)) eqn:Hpl.
      + nr isParenLeft Hpl. rewrite Htl.
        destruct (R.expr_list f true false (tl ts1)) as [[args ts2]|] eqn:Hl; [|discriminate].
        destruct (expect isParenRight ts2) as [ts3|] eqn:Hp; [|discriminate].
        inversion H; subst. apply (pn_list f IH) in Hl as [Hl Hs1].
        apply expect_pre in Hp as [Hp Hs2]; [|reflexivity|reflexivity].
        rewrite Hl, Hp. nbdone.
      + cbn [negb] in H. rewrite andb_false_r in H. rewrite pre_no_brace. cbn [andb].
        destruct (R.steps_loop f true 0 ts1) as [[ss ts2]|] eqn:Hst; [|discriminate].
        inversion H; subst. apply (pn_steps f IH) in Hst as [Hst Hs1]. rewrite Hst. nbdone.
    - (* KBuiltin *)
      destruct (expect isParenLeft ts1) as [ts2|] eqn:Hp1; [|discriminate].
      destruct (R.expr_list f true false ts2) as [[args ts3]|] eqn:Hl; [|discriminate].
      destruct (expect isParenRight ts3) as [ts4|] eqn:Hp; [|discriminate].
      inversion H; subst.
      apply expect_pre in Hp1 as [Hp1 Hs0]; [|reflexivity|reflexivity].
      apply (pn_list f IH) in Hl as [Hl Hs1].
      apply expect_pre in Hp as [Hp Hs2]; [|reflexivity|reflexivity].
      rewrite Hp1, Hl, Hp. nbdone.
    - destruct (literal_of t); [|discriminate]. inversion H; subst. nbdone.
    - destruct (literal_of t); [|discriminate]. inversion H; subst. nbdone.
    - destruct (literal_of t); [|discriminate]. inversion H; subst. nbdone.
    - destruct (literal_of t); [|discriminate]. inversion H; subst. nbdone.
    - destruct (literal_of t); [|discriminate]. inversion H; subst. nbdone.
    - (* KStringLiteral *)
      destruct (take_strings ts1) as [bs ts2] eqn:Hts. inversion H; subst.
      apply take_strings_pre in Hts as [Hts Hs1]. rewrite Hts. nbdone.
  Qed.

  Lemma pn_list_S : forall br ts es rest, R.expr_list (S f) true br ts = Some (es, rest) ->
    NB (R.expr_list (S f) false br (pre ts)) es rest ts.
  Proof.
    intros br ts es rest H. unfold NB. rewrite expr_list_S in H |- *.
    rewrite (hdk_pre (is_close br)) by (destruct br; reflexivity).
    destruct (is_close br (hdk ts)).
    - inversion H; subst. nbdone.
    - destruct (R.parse_addition f true ts) as [[e ts1]|] eqn:He; [|discriminate].
      apply (pn_add f IH) in He as [He Hs1]. rewrite He.
      rewrite (hdk_pre isComma) by reflexivity.
      destruct (isComma (hdk ts1)) eqn:Hcm.
      + nr isComma Hcm. rewrite Htl.
        destruct (R.expr_list f true br (tl ts1)) as [[es0 ts2]|] eqn:Hl; [|discriminate].
        inversion H; subst. apply (pn_list f IH) in Hl as [Hl Hs2]. rewrite Hl. nbdone.
      + inversion H; subst. nbdone.
  Qed.

  Lemma pn_mem_tail : forall n e tsv ms rest,
    (if isComma (hdk tsv)
     then match R.members_loop f true (tl tsv) with
          | Some (ms0, ts3) => Some ((n, e) :: ms0, ts3)
          | None => None
          end
     else Some ([(n, e)], tsv)) = Some (ms, rest) ->
    NB (if isComma (hdk (pre tsv))
        then match R.members_loop f false (tl (pre tsv)) with
             | Some (ms0, ts3) => Some ((n, e) :: ms0, ts3)
             | None => None
             end
        else Some ([(n, e)], pre tsv)) ms rest tsv.
  Proof.
    intros n e tsv ms rest H. unfold NB. rewrite (hdk_pre isComma) by reflexivity.
    destruct (isComma (hdk tsv)) eqn:Hcm.
    - nr isComma Hcm. rewrite Htl.
      destruct (R.members_loop f true (tl tsv)) as [[ms0 ts3]|] eqn:Hm; [|discriminate].
      inversion H; subst. apply (pn_mem f IH) in Hm as [Hm Hs2]. rewrite Hm. nbdone.
    - inversion H; subst. nbdone.
  Qed.

  Lemma pn_mem_S : forall ts ms rest, R.members_loop (S f) true ts = Some (ms, rest) ->
    NB (R.members_loop (S f) false (pre ts)) ms rest ts.
  Proof.
    intros ts ms rest H. unfold NB. rewrite members_loop_S in H |- *.
    rewrite (hdk_pre isBraceRight) by reflexivity.
    destruct (isBraceRight (hdk ts)).
    - inversion H; subst. nbdone.
    - destruct (expect_id ts) as [[n ts1]|] eqn:Hid; [|discriminate].
      apply expect_id_pre in Hid as [Hid Hs0]. rewrite Hid. cbv zeta in H |- *.
      rewrite (hdk_pre isColon) by reflexivity.
      destruct (isColon (hdk ts1)) eqn:Hcol.
      + nr isColon Hcol. rewrite Htl.
        destruct (R.parse_addition f true (tl ts1)) as [[e tsv]|] eqn:He; [|discriminate].
        apply (pn_add f IH) in He as [He Hs1]. rewrite He.
        apply pn_mem_tail in H as [H Hs2]. split; [exact H|congruence].
      + apply pn_mem_tail in H as [H Hs2]. split; [exact H|congruence].
  Qed.

  Lemma pn_ref_S : forall ts r rest, R.parse_reference (S f) true ts = Some (r, rest) ->
    NB (R.parse_reference (S f) false (pre ts)) r rest ts.
  Proof.
    intros ts r rest H. unfold NB. rewrite parse_reference_S in H |- *.
    destruct (count_amps ts) as [n ts1] eqn:Hc.
    apply count_amps_pre in Hc as [Hc Hs0]. rewrite Hc.
    destruct (MAX_ADDRESS_DEPTH <? n)%N; [discriminate|].
    destruct (expect_id ts1) as [[b ts2]|] eqn:Hid; [|discriminate].
    destruct (R.steps_loop f true 0 ts2) as [[ss ts3]|] eqn:Hst; [|discriminate].
    inversion H; subst. apply expect_id_pre in Hid as [Hid Hs1].
    apply (pn_steps f IH) in Hst as [Hst Hs2]. rewrite Hid, Hst. nbdone.
  Qed.

  Lemma pn_steps_S : forall k ts ss rest, R.steps_loop (S f) true k ts = Some (ss, rest) ->
    NB (R.steps_loop (S f) false k (pre ts)) ss rest ts.
  Proof.
    intros k ts ss rest H. unfold NB. rewrite steps_loop_S in H |- *.
    rewrite (hdk_pre isBracketLeft), (hdk_pre isDot) by reflexivity.
    destruct (isBracketLeft (hdk ts)) eqn:Hbl.
    - nr isBracketLeft Hbl. rewrite Htl.
      destruct (R.parse_addition f true (tl ts)) as [[e ts1]|] eqn:He; [|discriminate].
      destruct (expect isBracketRight ts1) as [ts2|] eqn:Hp; [|discriminate].
      destruct (MAX_REFERENCE_DEPTH <? S k)%nat; [discriminate|].
      destruct (R.steps_loop f true (S k) ts2) as [[ss0 ts3]|] eqn:Hst; [|discriminate].
      inversion H; subst. apply (pn_add f IH) in He as [He Hs1].
      apply expect_pre in Hp as [Hp Hs2]; [|reflexivity|reflexivity].
      apply (pn_steps f IH) in Hst as [Hst Hs3]. rewrite He, Hp, Hst. nbdone.
    - destruct (isDot (hdk ts)) eqn:Hdot.
      + nr isDot Hdot. rewrite Htl.
        destruct (expect_id (tl ts)) as [[m ts1]|] eqn:Hid; [|discriminate].
        destruct (MAX_REFERENCE_DEPTH <? S k)%nat; [discriminate|].
        destruct (R.steps_loop f true (S k) ts1) as [[ss0 ts3]|] eqn:Hst; [|discriminate].
        inversion H; subst. apply expect_id_pre in Hid as [Hid Hs1].
        apply (pn_steps f IH) in Hst as [Hst Hs3]. rewrite Hid, Hst. nbdone.
      + inversion H; subst. nbdone.
  Qed.
End PN_step.

Lemma PN_all f : PN f.
Proof.
  induction f as [|f IH]; [apply PN_0|].
  constructor.
  - apply pn_add_S, IH.
  - apply pn_addl_S, IH.
  - apply pn_bit_S, IH.
  - apply pn_mul_S, IH.
  - apply pn_mull_S, IH.
  - apply pn_sing_S, IH.
  - apply pn_un_S, IH.
  - apply pn_prim_S, IH.
  - apply pn_list_S, IH.
  - apply pn_mem_S, IH.
  - apply pn_ref_S, IH.
  - apply pn_steps_S, IH.
Qed.

(* The first generation hides `{` from the lookahead while it parses the condition of
   an `if`; the second cuts the token span at the first `{` or `;`.  Same result. *)
Theorem reservation_is_cut f ts e rest :
  R.parse_addition f true ts = Some (e, rest) ->
  exists r, R.parse_addition f false (fst (cut_reserved ts)) = Some (e, r) /\
            rest = r ++ snd (cut_reserved ts).
Proof.
  intros H. apply (pn_add f (PN_all f)) in H as [H Hs]. exists (pre rest).
  split; [exact H|]. fold (suf ts). rewrite <- Hs. symmetry. apply pre_suf.
Qed.

(* The comparison of `if`, at equal fuel. *)
Theorem delta_comparison_is_reference f ts op l r rest :
  R.parse_comparison f ts = Some ((op, l, r), rest) ->
  exists l' r', D.parse_comparison f ts = Ok ((op, l', r'), rest) /\
                fold_negative_literals l' = l /\ fold_negative_literals r' = r /\
                admissible l' = true /\ admissible r' = true.
Proof.
  unfold R.parse_comparison. intros H.
  destruct (R.parse_addition f true ts) as [[l0 ts1]|] eqn:Hl; [|discriminate].
  destruct (cmpop_of (hdk ts1)) as [op0|] eqn:Hop; [|discriminate].
  destruct (R.parse_addition f true (tl ts1)) as [[r0 ts2]|] eqn:Hr; [|discriminate].
  inversion H; subst; clear H.
  apply (pn_add f (PN_all f)) in Hl as [Hl Hs1].
  nr cmpop_of Hop.
  apply (pn_add f (PN_all f)) in Hr as [Hr Hs2]. rewrite <- Htl in Hr.
  apply pa_add_repaired in Hl. destruct Hl as (l' & Hdl & Hfl & Hal).
  apply pa_add_repaired in Hr. destruct Hr as (r' & Hdr & Hfr & Har).
  exists l', r'. unfold D.parse_comparison.
  assert (Hcut : cut_reserved ts = (pre ts, suf ts))
    by (unfold pre, suf; destruct (cut_reserved ts); reflexivity).
  rewrite Hcut, Hdl. cbn [bind].
  rewrite (hdk_pre cmpop_of) by reflexivity. rewrite Hop, Hdr. cbn [bind].
  replace (suf ts) with (suf rest) by congruence. rewrite pre_suf.
  repeat split; assumption.
Qed.

Example comparison_agree :
  let ts := [w_a; tk KBracketLeft; w_lit 1; tk KBracketRight; tk KIsGE; tk KMinus; w_lit 2;
             tk KTimes; w_b; tk KBraceLeft; w_c; tk KColon; w_lit 3; tk KBraceRight] in
  exists l r l' r' rest,
    R.parse_comparison 30 ts = Some ((IsGE, l, r), rest) /\
    D.parse_comparison 30 ts = Ok ((IsGE, l', r'), rest) /\
    fold_negative_literals l' = l /\ fold_negative_literals r' = r /\ r' <> r /\
    hdk rest = KBraceLeft.
Proof.
  cbv zeta. do 5 eexists. split; [vm_compute; reflexivity|].
  split; [vm_compute; reflexivity|]. split; [vm_compute; reflexivity|].
  split; [vm_compute; reflexivity|]. split; [intros H; discriminate H|reflexivity].
Qed.

(* ------------------------------------------------------------------------- *)

Print Assumptions delta_expr_is_reference_exact.
Print Assumptions delta_expr_is_reference.
Print Assumptions reference_steps_bound.
Print Assumptions reference_is_delta_on_admissible.
Print Assumptions delta_accepts_reference_iff_admissible.
Print Assumptions acceptance_iff.
Print Assumptions D_parse_expression_mono.
Print Assumptions D_parse_expression_pinned_mono.
Print Assumptions delta_comparison_is_reference.
Print Assumptions reservation_is_cut.
Print Assumptions pinned_expr_is_reference_exact.
Print Assumptions reference_accepts_pinned_rejects.
Print Assumptions pinned_rejects_127_steps_refuted.
Print Assumptions steps_126_agree.
Print Assumptions steps_127_agree.
Print Assumptions steps_128_both_reject.
Print Assumptions mul_chains_left.
Print Assumptions as_chains_left.
Print Assumptions unary_binds_tighter_than_as.
Print Assumptions add_over_mul.
Print Assumptions mutant_mul_right_assoc_refuted.
Print Assumptions mutant_as_once_refuted.
Print Assumptions mutant_address_depth_refuted.
Print Assumptions converse_refuted_bitwise_after_binary.
Print Assumptions converse_refuted_shift_after_binary.
Print Assumptions converse_refuted_illformed_type.
Print Assumptions return_is_reserved.
