(* The instructions the generator selects (Gen/LowerTables.v) compute, on bit
   patterns, what the source semantics (Model/Lower.v) prescribes. *)
From Coq Require Import ZArith Lia Bool.
From PV Require Import Base.Common Base.IR Base.Bits Model.Lower.
Open Scope Z_scope.

Lemma pow_pos w : 0 <= w -> 0 < 2 ^ w.
Proof. intros. apply Z.pow_pos_nonneg; lia. Qed.

(* ---- width-generic lemmas -------------------------------------------------- *)
Lemma L_add s w x y : 0 < w -> ir_binop IAdd w (repr w x) (repr w y) = Some (repr w (wrap s w (x + y))).
Proof. intros. cbn. now rewrite repr_wrap, repr_add by lia. Qed.
Lemma L_sub s w x y : 0 < w -> ir_binop ISub w (repr w x) (repr w y) = Some (repr w (wrap s w (x - y))).
Proof. intros. cbn. now rewrite repr_wrap, repr_sub by lia. Qed.
Lemma L_mul s w x y : 0 < w -> ir_binop IMul w (repr w x) (repr w y) = Some (repr w (wrap s w (x * y))).
Proof. intros. cbn. now rewrite repr_wrap, repr_mul by lia. Qed.

Lemma repr_zero_iff_s w y : 0 < w -> in_s w y -> (repr w y =? 0) = (y =? 0).
Proof.
  intros Hw Hy. destruct (Z.eqb_spec y 0) as [->|N].
  - unfold repr. rewrite Z.mod_0_l; [reflexivity|]. pose proof (modulus_pos w ltac:(lia)). lia.
  - destruct (Z.eqb_spec (repr w y) 0) as [E|]; [|reflexivity].
    exfalso. apply N. rewrite <- (sgn_repr w y Hw Hy), E. unfold sgn.
    pose proof (pow_pos (w - 1) ltac:(lia)).
    destruct (Z.ltb_spec 0 (2 ^ (w - 1))); lia.
Qed.

Lemma L_sdiv_ub w x y : 0 < w -> in_s w x -> in_s w y ->
  ((repr w y =? 0) || ((sgn w (repr w x) =? - 2 ^ (w - 1)) && (sgn w (repr w y) =? -1)))
  = div_ub true w x y.
Proof.
  intros. unfold div_ub. rewrite !sgn_repr, repr_zero_iff_s by assumption. reflexivity.
Qed.

Lemma L_sdiv w x y v : 0 < w -> in_s w x -> in_s w y ->
  src_binop Divide true w x y = Some v ->
  ir_binop ISDiv w (repr w x) (repr w y) = Some (repr w v).
Proof.
  intros Hw Hx Hy. cbn [src_binop ir_binop]. rewrite L_sdiv_ub by assumption.
  destruct (div_ub true w x y); [discriminate|]. intros [= <-]. now rewrite !sgn_repr.
Qed.

Lemma L_srem w x y v : 0 < w -> in_s w x -> in_s w y ->
  src_binop Modulo true w x y = Some v ->
  ir_binop ISRem w (repr w x) (repr w y) = Some (repr w v).
Proof.
  intros Hw Hx Hy. cbn [src_binop ir_binop]. rewrite L_sdiv_ub by assumption.
  destruct (div_ub true w x y); [discriminate|]. intros [= <-]. now rewrite !sgn_repr.
Qed.

Lemma div_ub_unsigned w x y : div_ub false w x y = (y =? 0).
Proof. unfold div_ub. cbn. now rewrite orb_false_r. Qed.

Lemma L_udiv w x y v : 0 < w -> in_u w x -> in_u w y ->
  src_binop Divide false w x y = Some v ->
  ir_binop IUDiv w (repr w x) (repr w y) = Some (repr w v).
Proof.
  intros Hw Hx Hy. cbn [src_binop ir_binop]. rewrite div_ub_unsigned, (repr_small w x Hx), (repr_small w y Hy).
  destruct (Z.eqb_spec y 0); [discriminate|]. intros [= <-].
  destruct Hx, Hy. rewrite Z.quot_div_nonneg by lia. f_equal. symmetry. apply repr_small.
  split; [apply Z.div_pos; lia|].
  apply Z.le_lt_trans with x; [|lia]. apply Z.div_le_upper_bound; nia.
Qed.

Lemma L_urem w x y v : 0 < w -> in_u w x -> in_u w y ->
  src_binop Modulo false w x y = Some v ->
  ir_binop IURem w (repr w x) (repr w y) = Some (repr w v).
Proof.
  intros Hw Hx Hy. cbn [src_binop ir_binop]. rewrite div_ub_unsigned, (repr_small w x Hx), (repr_small w y Hy).
  destruct (Z.eqb_spec y 0); [discriminate|]. intros [= <-].
  destruct Hx, Hy. rewrite Z.rem_mod_nonneg by lia. f_equal. symmetry. apply repr_small.
  pose proof (Z.mod_pos_bound x y ltac:(lia)). split; lia.
Qed.

Lemma L_and w x y : in_u w x -> in_u w y ->
  ir_binop IAnd w (repr w x) (repr w y) = Some (repr w (Z.land x y)).
Proof. intros. cbn [ir_binop]. rewrite (repr_small w x), (repr_small w y) by assumption. reflexivity. Qed.
Lemma L_or w x y : in_u w x -> in_u w y ->
  ir_binop IOr w (repr w x) (repr w y) = Some (repr w (Z.lor x y)).
Proof. intros. cbn [ir_binop]. rewrite (repr_small w x), (repr_small w y) by assumption. reflexivity. Qed.
Lemma L_xor w x y : in_u w x -> in_u w y ->
  ir_binop IXor w (repr w x) (repr w y) = Some (repr w (Z.lxor x y)).
Proof. intros. cbn [ir_binop]. rewrite (repr_small w x), (repr_small w y) by assumption. reflexivity. Qed.

Lemma L_shl w x y v : 0 < w -> in_u w x -> in_u w y ->
  src_binop ShiftLeft false w x y = Some v ->
  ir_binop IShl w (repr w x) (repr w y) = Some (repr w v).
Proof.
  intros Hw Hx Hy. cbn [src_binop ir_binop]. rewrite (repr_small w x Hx), (repr_small w y Hy).
  destruct (y <? w); [|discriminate]. intros [= <-]. f_equal.
  unfold repr, modulus. symmetry. apply Z.mod_mod. pose proof (pow_pos w ltac:(lia)). lia.
Qed.

Lemma L_lshr w x y v : 0 < w -> in_u w x -> in_u w y ->
  src_binop ShiftRight false w x y = Some v ->
  ir_binop ILShr w (repr w x) (repr w y) = Some (repr w v).
Proof.
  intros Hw Hx Hy. cbn [src_binop ir_binop]. rewrite (repr_small w x Hx), (repr_small w y Hy).
  destruct (y <? w); [|discriminate]. intros [= <-]. f_equal. symmetry. apply repr_small.
  destruct Hx, Hy. pose proof (pow_pos y ltac:(lia)).
  split; [apply Z.div_pos; lia|].
  apply Z.le_lt_trans with x; [|lia]. apply Z.div_le_upper_bound; nia.
Qed.

Lemma L_neg s w x : 0 < w -> ir_unop INeg w (repr w x) = Some (repr w (wrap s w (- x))).
Proof. intros. cbn. now rewrite repr_wrap, repr_opp by lia. Qed.

Lemma L_not w x : 0 < w -> in_u w x ->
  ir_unop INot w (repr w x) = Some (repr w (2 ^ w - 1 - x)).
Proof. intros. cbn [ir_unop]. rewrite (repr_small w x) by assumption. reflexivity. Qed.

Lemma L_icmp s w op x y : 0 < w -> in_range s w x -> in_range s w y ->
  ir_icmp (select_icmp op s) w (repr w x) (repr w y) = src_cmp op x y.
Proof.
  intros Hw Hx Hy.
  assert (E : (repr w x =? repr w y) = (x =? y)).
  { destruct (Z.eqb_spec x y) as [->|N]; [apply Z.eqb_refl|].
    destruct (Z.eqb_spec (repr w x) (repr w y)) as [E|]; [|reflexivity].
    exfalso. apply N. rewrite <- (value_of_repr s w x Hw Hx), <- (value_of_repr s w y Hw Hy).
    now rewrite E. }
  destruct s; cbn in Hx, Hy.
  - destruct op; cbn [select_icmp ir_icmp src_cmp]; rewrite ?E, ?sgn_repr by assumption; reflexivity.
  - destruct op; cbn [select_icmp ir_icmp src_cmp]; rewrite ?E, ?repr_small by assumption; reflexivity.
Qed.

(* ---- the generated tables ---------------------------------------------------- *)
Section Tables.
Variable usize_bits : Z.
Hypothesis usize_ok : usize_bits = 32 \/ usize_bits = 64.

Notation bits := (bits usize_bits).
Notation type_range := (type_range usize_bits).

Lemma bits_pos t : 0 < bits t.
Proof. unfold Lower.bits. destruct t, usize_ok; cbn; lia. Qed.

Ltac class_cases t H :=
  destruct t; cbn in H; try discriminate H.

Theorem binop_lowering_correct : forall op t x y v,
  mem_operand (OPrim t) (binop_valid_types op) = true ->
  type_range t x -> type_range t y ->
  src_binop op (signed t) (bits t) x y = Some v ->
  ir_binop (select_binop op (signed t)) (bits t) (repr (bits t) x) (repr (bits t) y)
  = Some (repr (bits t) v).
Proof.
  intros op t x y v Hc Hx Hy Hs. pose proof (bits_pos t) as Hw.
  unfold Lower.type_range in Hx, Hy.
  destruct op; cbn [select_binop].
  - cbn in Hs. injection Hs as <-. now apply L_add.
  - cbn in Hs. injection Hs as <-. now apply L_sub.
  - cbn in Hs. injection Hs as <-. now apply L_mul.
  - destruct (signed t) eqn:S; cbn in Hx, Hy.
    + now apply L_sdiv.
    + now apply L_udiv.
  - destruct (signed t) eqn:S; cbn in Hx, Hy.
    + now apply L_srem.
    + now apply L_urem.
  - cbn in Hs. injection Hs as <-. class_cases t Hc; now apply L_and.
  - cbn in Hs. injection Hs as <-. class_cases t Hc; now apply L_or.
  - cbn in Hs. injection Hs as <-. class_cases t Hc; now apply L_xor.
  - class_cases t Hc; now apply L_shl.
  - class_cases t Hc; now apply L_lshr.
  - class_cases t Hc.
Qed.

Theorem unop_lowering_correct : forall op t x v,
  mem_operand (OPrim t) (unop_valid_types op) = true ->
  type_range t x ->
  src_unop op (signed t) (bits t) x = Some v ->
  ir_unop (select_unop op (signed t)) (bits t) (repr (bits t) x) = Some (repr (bits t) v).
Proof.
  intros op t x v Hc Hx Hs. pose proof (bits_pos t) as Hw.
  unfold Lower.type_range in Hx.
  destruct op; cbn [select_unop]; cbn in Hs; injection Hs as <-.
  - now apply L_neg.
  - class_cases t Hc; now apply L_not.
Qed.

Theorem icmp_lowering_correct : forall op t x y,
  type_range t x -> type_range t y ->
  ir_icmp (select_icmp op (signed t)) (bits t) (repr (bits t) x) (repr (bits t) y)
  = src_cmp op x y.
Proof. intros. apply L_icmp; auto using bits_pos. Qed.

(* Casts: every conversion the resolver admits is lowered, and the selected
   cast maps the bit pattern of x (in the source type) to the bit pattern of
   `x as D`. Bool is the 1-bit unsigned type; char8 the 8-bit one. *)
Theorem cast_lowering_correct : forall s d x,
  is_valid_primitive_conversion s d (vt_is_integral s) (vt_is_integral d) = true ->
  type_range s x ->
  exists c,
    select_cast s d (vt_is_integral s) (vt_is_integral d) (signed s) (bits s) (bits d) = Some c /\
    ir_cast c (bits s) (bits d) (repr (bits s) x) = repr (bits d) (src_cast (signed d) (bits d) x).
Proof.
  intros s d x Hv Hx. unfold src_cast. rewrite repr_wrap by apply bits_pos.
  unfold Lower.type_range in Hx.
  destruct usize_ok as [U|U];
  destruct s, d; cbn in Hv; try discriminate Hv;
    unfold Lower.bits, Lower.signed in *; cbn in Hx |- *; rewrite ?U; cbn;
    eexists; (split; [reflexivity|]);
    first [ apply cast_trunc; lia
          | apply cast_sext; [lia | exact Hx]
          | apply cast_zext; [lia | exact Hx]
          | (rewrite U in Hx; first [ apply cast_trunc; lia | apply cast_sext; [lia | exact Hx] | apply cast_zext; [lia | exact Hx] ])
          | (cbn [ir_cast]; rewrite (repr_small _ x Hx); symmetry; apply repr_small;
             destruct Hx; split; [lia|]; eapply Z.lt_le_trans; [eassumption|]; apply pow2_le; lia) ].
Qed.

(* The linter's ranges (value_type.rs min_i128 / max_u128) are exactly the
   ranges of the LLVM integer types the generator uses, on a 64-bit target. *)
Theorem ranges_agree_with_widths : forall t x, t <> Bool -> usize_bits = 64 ->
  (vt_min t <= x <= vt_max t) <-> type_range t x.
Proof.
  intros t x Hb U. unfold Lower.type_range, Lower.bits, Lower.signed, in_range, in_s, in_u.
  destruct t; cbn; rewrite ?U; try lia. congruence.
Qed.
End Tables.

(* What a wrong table would look like: udiv chosen for a signed type. *)
Lemma udiv_for_signed_refuted :
  exists x y v, in_s 8 x /\ in_s 8 y /\ src_binop Divide true 8 x y = Some v /\
    ir_binop IUDiv 8 (repr 8 x) (repr 8 y) <> Some (repr 8 v).
Proof. exists (-6), 2, (-3). unfold in_s. repeat split; try lia. vm_compute. discriminate. Qed.
