(* Proofs about Model/Syntax.v: the three-flag analyzer of the current tree emits
   exactly the structural specification's codes, and the linter raises L1800
   exactly for branch blocks that start with `loop`. *)
From PV Require Import Base.Common Model.Syntax.

Section stmt_ind2.
  Variable P : stmt -> Prop.
  Hypothesis HS : P SSimple.
  Hypothesis HG : P SGoto.
  Hypothesis HL : P SLoop.
  Hypothesis HP : P SPoison.
  Hypothesis HI1 : forall t, P t -> P (SIf t None).
  Hypothesis HI2 : forall t e, P t -> P e -> P (SIf t (Some e)).
  Hypothesis HB : forall b, Forall P b -> P (SBlock b).
  Fixpoint stmt_ind2 (s : stmt) : P s :=
    match s with
    | SSimple => HS | SGoto => HG | SLoop => HL | SPoison => HP
    | SIf t None => HI1 t (stmt_ind2 t)
    | SIf t (Some e) => HI2 t e (stmt_ind2 t) (stmt_ind2 e)
    | SBlock b => HB b ((fix go (l : list stmt) : Forall P l :=
                           match l with
                           | [] => Forall_nil P
                           | x :: xs => Forall_cons x (stmt_ind2 x) (go xs)
                           end) b)
    end.
End stmt_ind2.

(* ---- syntax analyzer ------------------------------------------------------ *)

Fixpoint an_block (fixed : bool) (ss : list stmt) (f : flags) : flags * list code :=
  match ss with
  | [] => (f, [])
  | [last] =>
      let '(f, c, _) := an_stmt fixed last (set_ib f true) in
      (set_ib f false, c)
  | s :: rest =>
      let '(f, c, still_loop) := an_stmt fixed s (set_ib f true) in
      let c := if still_loop then [E800] else c in
      let '(f, cr) := an_block fixed rest f in
      (f, c ++ cr)
  end.

Lemma an_stmt_block fixed b f :
  an_stmt fixed (SBlock b) f =
  if (nt f || ne f) && negb true then (f, [E840], false) else
  let '(f, c) := an_block fixed b (set_ne (set_nt f false) false) in (f, c, false).
Proof.
  cbn [an_stmt]. rewrite andb_false_r.
  assert (H : forall b f,
    (fix an_block0 (ss : list stmt) (f0 : flags) {struct ss} : flags * list code :=
       match ss with
       | [] => (f0, [])
       | [last] => let '(f1, c, _) := an_stmt fixed last (set_ib f0 true) in (set_ib f1 false, c)
       | s :: (_ :: _) as rest =>
           let '(f1, c, still_loop) := an_stmt fixed s (set_ib f0 true) in
           let c0 := if still_loop then [E800] else c in
           let '(f2, cr) := an_block0 rest f1 in (f2, c0 ++ cr)
       end) b f = an_block fixed b f).
  { clear. induction b as [|s rest IH]; intros f; [reflexivity|].
    destruct rest as [|s2 rest]; [reflexivity|].
    cbn [an_block]. destruct (an_stmt fixed s (set_ib f true)) as [[f1 c] sl].
    now rewrite IH. }
  now rewrite H.
Qed.

Lemma spec_stmt_block c b : spec_stmt c (SBlock b) = spec_block b.
Proof.
  cbn [spec_stmt]. induction b as [|s rest IH]; [reflexivity|].
  destruct rest as [|s2 rest]; [reflexivity|]. cbn [spec_block]. now rewrite IH.
Qed.

Definition ctxf (f : flags) : ctx :=
  if nt f then CThen else if ne f then CElse else if ib f then CLast else CBody.

Definition is_last (c : ctx) : bool := match c with CLast => true | _ => false end.

Lemma spec_other_last s : is_loop s = false -> spec_stmt COther s = spec_stmt CLast s.
Proof. destruct s; try reflexivity. discriminate. Qed.

Definition good (s : stmt) : Prop := forall f, nt f && ne f = false ->
  match an_stmt true s f with
  | (f', c, sl) =>
      c = spec_stmt (ctxf f) s /\
      sl = (is_loop s && is_last (ctxf f)) /\
      (nt f = false -> nt f' = false) /\
      (ne f = false -> ne f' = false) /\
      (ib f = false -> ib f' = false)
  end.

Lemma flags_cases f : nt f && ne f = false ->
  (nt f = true /\ ne f = false /\ ctxf f = CThen) \/
  (nt f = false /\ ne f = true /\ ctxf f = CElse) \/
  (nt f = false /\ ne f = false /\ ib f = true /\ ctxf f = CLast) \/
  (nt f = false /\ ne f = false /\ ib f = false /\ ctxf f = CBody).
Proof.
  unfold ctxf. destruct (nt f), (ne f), (ib f); cbn; intros H; try discriminate; tauto.
Qed.

Lemma good_leaf s : (s = SSimple \/ s = SGoto \/ s = SLoop \/ s = SPoison) -> good s.
Proof.
  intros Hs f Hf.
  destruct (flags_cases f Hf) as [(A & B & E) | [(A & B & E) | [(A & B & D & E) | (A & B & D & E)]]];
    destruct Hs as [-> | [-> | [-> | ->]]]; cbn [an_stmt]; rewrite ?A, ?B, ?D, E; cbn;
    repeat split; auto; try congruence.
Qed.

Lemma an_block_good : forall b, Forall good b -> forall f,
  nt f = false -> ne f = false ->
  match an_block true b f with
  | (f', c) => c = spec_block b /\ nt f' = false /\ ne f' = false /\
               match b with [] => f' = f | _ => ib f' = false end
  end.
Proof.
  induction 1 as [|s rest Hs Hrest IH]; intros f Hnt Hne.
  - cbn. auto.
  - destruct rest as [|s2 rest].
    + cbn [an_block spec_block].
      specialize (Hs (set_ib f true)). cbn [set_ib nt ne] in Hs.
      rewrite Hnt, Hne in Hs. specialize (Hs eq_refl).
      destruct (an_stmt true s (set_ib f true)) as [[f1 c] sl].
      destruct Hs as (Hc & _ & H1 & H2 & _). unfold ctxf in Hc. cbn in Hc.
      rewrite Hnt, Hne in Hc. cbn in Hc. cbn [set_ib nt ne ib].
      repeat split; auto.
    + change (an_block true (s :: s2 :: rest) f) with
        (let '(f1, c, still_loop) := an_stmt true s (set_ib f true) in
         let c0 := if still_loop then [E800] else c in
         let '(f2, cr) := an_block true (s2 :: rest) f1 in (f2, c0 ++ cr)).
      change (spec_block (s :: s2 :: rest)) with (spec_stmt COther s ++ spec_block (s2 :: rest)).
      specialize (Hs (set_ib f true)). cbn [set_ib nt ne] in Hs.
      rewrite Hnt, Hne in Hs. specialize (Hs eq_refl).
      destruct (an_stmt true s (set_ib f true)) as [[f1 c] sl].
      destruct Hs as (Hc & Hsl & H1 & H2 & _). unfold ctxf in Hc, Hsl. cbn in Hc, Hsl.
      rewrite Hnt, Hne in Hc, Hsl. cbn in Hc, Hsl.
      specialize (IH f1 (H1 eq_refl) (H2 eq_refl)).
      destruct (an_block true (s2 :: rest) f1) as [f2 cr].
      destruct IH as (Hcr & N1 & N2 & N3).
      repeat split; auto.
      rewrite Hcr. f_equal. rewrite Hsl, andb_true_r.
      destruct (is_loop s) eqn:El.
      * destruct s; try discriminate. reflexivity.
      * rewrite Hc. symmetry. now apply spec_other_last.
Qed.

Lemma good_all : forall s, good s.
Proof.
  induction s as [| | | |t IHt|t e IHt IHe|b IHb] using stmt_ind2;
    try (apply good_leaf; tauto).
  - (* if without else *)
    intros f Hf.
    destruct (flags_cases f Hf) as [(A & B & E) | [(A & B & E) | [(A & B & D & E) | (A & B & D & E)]]];
      cbn [an_stmt]; rewrite A, B, E; cbn [orb andb negb].
    + repeat split; auto; congruence.
    + pose proof (IHt (set_nt (set_ne (set_ib f false) false) true) eq_refl) as H.
      destruct (an_stmt true t _) as [[f1 c1] sl1].
      destruct H as (Hc & _ & _ & H2 & H3). cbn in Hc, H2, H3.
      cbn [spec_stmt]. rewrite app_nil_r. cbn [set_nt nt ne ib].
      repeat split; auto.
    + pose proof (IHt (set_nt (set_ne (set_ib f false) false) true) eq_refl) as H.
      destruct (an_stmt true t _) as [[f1 c1] sl1].
      destruct H as (Hc & _ & _ & H2 & H3). cbn in Hc, H2, H3.
      cbn [spec_stmt]. rewrite app_nil_r. cbn [set_nt nt ne ib].
      repeat split; auto.
    + pose proof (IHt (set_nt (set_ne (set_ib f false) false) true) eq_refl) as H.
      destruct (an_stmt true t _) as [[f1 c1] sl1].
      destruct H as (Hc & _ & _ & H2 & H3). cbn in Hc, H2, H3.
      cbn [spec_stmt]. rewrite app_nil_r. cbn [set_nt nt ne ib].
      repeat split; auto.
  - (* if with else *)
    intros f Hf.
    assert (Core : forall f0, 
      match (let f := set_ib f0 false in
             let f := set_ne f false in
             let f := set_nt f true in
             let '(f, c1, _) := an_stmt true t f in
             let f := set_nt f false in
             let f := set_ne f true in
             let '(f, c2, _) := an_stmt true e f in
             (set_ne f false, c1 ++ c2, false)) with
      | (f', c, sl) => c = spec_stmt CThen t ++ spec_stmt CElse e /\ sl = false /\
                       nt f' = false /\ ne f' = false /\ ib f' = false
      end).
    { intros f0. cbn zeta.
      pose proof (IHt (set_nt (set_ne (set_ib f0 false) false) true) eq_refl) as H.
      destruct (an_stmt true t _) as [[f1 c1] sl1].
      destruct H as (Hc & _ & _ & H2 & H3). cbn in Hc, H2, H3.
      pose proof (IHe (set_ne (set_nt f1 false) true)) as H. cbn [set_ne set_nt nt ne] in H.
      specialize (H eq_refl).
      destruct (an_stmt true e _) as [[f2 c2] sl2].
      destruct H as (Hc2 & _ & K1 & _ & K3). unfold ctxf in Hc2. cbn in Hc2, K1, K3.
      cbn [set_ne nt ne ib]. repeat split; auto. now rewrite Hc, Hc2. }
    destruct (flags_cases f Hf) as [(A & B & E) | [(A & B & E) | [(A & B & D & E) | (A & B & D & E)]]];
      cbn [an_stmt]; rewrite A, B, E; cbn [orb andb negb].
    + repeat split; auto; congruence.
    + specialize (Core f). cbn zeta in Core.
      destruct (an_stmt true t _) as [[f1 c1] sl1].
      destruct (an_stmt true e _) as [[f2 c2] sl2].
      destruct Core as (C1 & C2 & C3 & C4 & C5). cbn [spec_stmt]. repeat split; auto.
    + specialize (Core f). cbn zeta in Core.
      destruct (an_stmt true t _) as [[f1 c1] sl1].
      destruct (an_stmt true e _) as [[f2 c2] sl2].
      destruct Core as (C1 & C2 & C3 & C4 & C5). cbn [spec_stmt]. repeat split; auto.
    + specialize (Core f). cbn zeta in Core.
      destruct (an_stmt true t _) as [[f1 c1] sl1].
      destruct (an_stmt true e _) as [[f2 c2] sl2].
      destruct Core as (C1 & C2 & C3 & C4 & C5). cbn [spec_stmt]. repeat split; auto.
  - (* block *)
    intros f Hf. rewrite an_stmt_block, spec_stmt_block. rewrite andb_false_r.
    pose proof (an_block_good b IHb (set_ne (set_nt f false) false) eq_refl eq_refl) as H.
    destruct (an_block true b _) as [f1 c]. destruct H as (Hc & N1 & N2 & N3).
    split; [exact Hc|]. split; [reflexivity|]. split; [auto|]. split; [auto|].
    intros Hib. destruct b; [subst f1; cbn; exact Hib | exact N3].
Qed.

Lemma an_body_good : forall body f, nt f = false -> ne f = false -> ib f = false ->
  snd (an_body true body f) = flat_map (spec_stmt CBody) body.
Proof.
  induction body as [|s rest IH]; intros f A B D; [reflexivity|].
  cbn [an_body flat_map].
  assert (Hf : nt f && ne f = false) by (now rewrite A).
  pose proof (good_all s f Hf) as H.
  destruct (an_stmt true s f) as [[f1 c] sl].
  destruct H as (Hc & _ & H1 & H2 & H3). unfold ctxf in Hc. rewrite A, B, D in Hc.
  specialize (IH f1 (H1 A) (H2 B) (H3 D)).
  destruct (an_body true rest f1) as [f2 cr]. cbn [snd] in *. now rewrite Hc, IH.
Qed.

Theorem syntax_codes_eq_spec : forall body, body_codes true body = spec_body body.
Proof. intros. unfold body_codes, spec_body. now apply an_body_good. Qed.

(* D1: the analyzer of the pinned commit accepted `if .. {} else if .. if .. goto` *)
Definition d1 : list stmt := [SIf (SBlock []) (Some (SIf (SIf SGoto None) None))].
Lemma syntax_unfixed_refuted : body_codes false d1 = [] /\ spec_body d1 = [E840].
Proof. split; vm_compute; reflexivity. Qed.

(* ---- linter: L1800 -------------------------------------------------------- *)

Lemma lint_stmt_block first others st :
  lint_stmt (SBlock (first :: others)) st =
  let st := {| nb := false; fs := nb st |} in
  let '(st, c1) := lint_stmt first st in
  let st := {| nb := nb st; fs := false |} in
  let '(st, c2) := lint_list others st in
  (st, c1 ++ c2).
Proof.
  cbn [lint_stmt]. destruct (lint_stmt first _) as [st1 c1].
  assert (H : forall l st,
    (fix lint_list0 (ss : list stmt) (st0 : lstate) {struct ss} : lstate * list code :=
       match ss with
       | [] => (st0, [])
       | s :: rest => let '(st1, c) := lint_stmt s st0 in
                      let '(st2, cr) := lint_list0 rest st1 in (st2, c ++ cr)
       end) l st = lint_list l st).
  { clear. induction l as [|s rest IH]; intros st; [reflexivity|].
    cbn [lint_list]. destruct (lint_stmt s st) as [st1 c]. now rewrite IH. }
  now rewrite H.
Qed.

Lemma lint_spec_block b : lint_spec (SBlock b) = flat_map lint_spec b.
Proof.
  cbn [lint_spec]. induction b as [|s rest IH]; [reflexivity|].
  cbn [flat_map]. now rewrite IH.
Qed.

Definition pre (s : stmt) (st : lstate) : list code :=
  match s with
  | SLoop => if fs st then [L1800] else []
  | SBlock (SLoop :: _) => if nb st then [L1800] else []
  | _ => []
  end.

Lemma pre_naked s : pre s {| nb := true; fs := false |} =
  if first_is_loop s then [L1800] else [].
Proof. destruct s as [| | | | |b]; try reflexivity. destruct b as [|[] ?]; reflexivity. Qed.

Lemma pre_quiet s st : nb st = false -> fs st = false -> pre s st = [].
Proof.
  intros A B. destruct s as [| | | | |b]; cbn [pre]; rewrite ?A, ?B; try reflexivity.
  destruct b as [|[] ?]; rewrite ?A; reflexivity.
Qed.

Definition lgood (s : stmt) : Prop := forall st,
  match lint_stmt s st with
  | (st', c) => c = pre s st ++ lint_spec s /\
                (nb st = false -> nb st' = false) /\
                (fs st = false -> fs st' = false)
  end.

Lemma lint_list_good : forall l, Forall lgood l -> forall st,
  nb st = false -> fs st = false ->
  match lint_list l st with
  | (st', c) => c = flat_map lint_spec l /\ nb st' = false /\ fs st' = false
  end.
Proof.
  induction 1 as [|s rest Hs _ IH]; intros st A B; [cbn; auto|].
  cbn [lint_list flat_map]. specialize (Hs st).
  destruct (lint_stmt s st) as [st1 c]. destruct Hs as (Hc & H1 & H2).
  specialize (IH st1 (H1 A) (H2 B)).
  destruct (lint_list rest st1) as [st2 cr]. destruct IH as (Hcr & K1 & K2).
  rewrite Hc, Hcr, (pre_quiet s st A B). auto.
Qed.

Lemma lgood_all : forall s, lgood s.
Proof.
  induction s as [| | | |t IHt|t e IHt IHe|b IHb] using stmt_ind2; intros st.
  - cbn. auto.
  - cbn. auto.
  - cbn [lint_stmt pre lint_spec]. destruct (fs st) eqn:E; cbn; rewrite ?E; auto.
  - cbn. auto.
  - cbn [lint_stmt]. specialize (IHt {| nb := true; fs := false |}).
    destruct (lint_stmt t _) as [st1 c1]. destruct IHt as (Hc & _ & H2).
    cbn [pre lint_spec app nb fs]. rewrite Hc, pre_naked, app_nil_r.
    cbn in H2. repeat split; auto.
  - cbn [lint_stmt]. specialize (IHt {| nb := true; fs := false |}).
    destruct (lint_stmt t _) as [st1 c1]. destruct IHt as (Hc & _ & H2).
    cbn in H2. rewrite (H2 eq_refl).
    specialize (IHe {| nb := true; fs := false |}).
    destruct (lint_stmt e _) as [st2 c2]. destruct IHe as (Hc2 & _ & K2).
    cbn in K2. cbn [pre lint_spec app nb fs].
    rewrite Hc, Hc2, !pre_naked, <- !app_assoc. repeat split; auto.
  - destruct b as [|first others].
    + cbn. auto.
    + rewrite lint_stmt_block, lint_spec_block. cbn zeta.
      inversion IHb as [|x l Hfirst Hothers]; subst.
      specialize (Hfirst {| nb := false; fs := nb st |}).
      destruct (lint_stmt first _) as [st1 c1]. destruct Hfirst as (Hc & H1 & H2).
      cbn in H1, H2.
      pose proof (lint_list_good others Hothers {| nb := nb st1; fs := false |}) as HL.
      cbn [nb fs] in HL. specialize (HL (H1 eq_refl) eq_refl).
      destruct (lint_list others _) as [st2 c2]. destruct HL as (Hc2 & K1 & K2).
      cbn [flat_map]. rewrite Hc, Hc2. repeat split; auto.
      rewrite app_assoc. f_equal. f_equal.
      destruct first; cbn [pre fs nb]; try reflexivity.
      destruct b as [|[] ?]; reflexivity.
Qed.

Theorem lint_iff_first_loop_of_branch : forall body, lint_body body = lint_spec_body body.
Proof.
  intros body. unfold lint_body, lint_spec_body.
  pose proof (lint_list_good body) as H.
  assert (F : Forall lgood body) by (apply Forall_forall; intros; apply lgood_all).
  specialize (H F {| nb := false; fs := false |} eq_refl eq_refl).
  destruct (lint_list body _) as [st c]. now destruct H.
Qed.
