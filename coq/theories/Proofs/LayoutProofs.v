(* Proofs about Model/Layout.v (property C10): the type checker's word layout
   (align_struct, E380) agrees with LLVM's StructLayout for words of primitives,
   is a sound over-approximation for words nested in words, and `|:T|` is the
   allocation size of T. *)
From PV Require Import Base.Common Model.Layout.
Open Scope Z_scope.

(* ---- induction principles --------------------------------------------------- *)

Section ty_ind2.
  Variable P : ty -> Prop.
  Hypothesis HI : forall b, P (TInt b).
  Hypothesis HB : P TBool.
  Hypothesis HP : P TPtr.
  Hypothesis HA : forall n e, P e -> P (TArr n e).
  Hypothesis HS : forall ms, Forall P ms -> P (TStruct ms).
  Fixpoint ty_ind2 (t : ty) : P t :=
    match t with
    | TInt b => HI b
    | TBool => HB
    | TPtr => HP
    | TArr n e => HA n e (ty_ind2 e)
    | TStruct ms => HS ms ((fix go (l : list ty) : Forall P l :=
                              match l with
                              | [] => Forall_nil P
                              | x :: xs => Forall_cons x (ty_ind2 x) (go xs)
                              end) ms)
    end.
End ty_ind2.

Section wmember_ind2.
  Variable P : wmember -> Prop.
  Hypothesis HP : forall s, P (Prim s).
  Hypothesis HN : forall d ms, Forall P ms -> P (Nested d ms).
  Fixpoint wmember_ind2 (m : wmember) : P m :=
    match m with
    | Prim s => HP s
    | Nested d ms => HN d ms ((fix go (l : list wmember) : Forall P l :=
                                 match l with
                                 | [] => Forall_nil P
                                 | x :: xs => Forall_cons x (wmember_ind2 x) (go xs)
                                 end) ms)
    end.
End wmember_ind2.

(* ---- unfolding lemmas for the local fixes ----------------------------------- *)

Lemma llvm_align_struct ms : llvm_align (TStruct ms) = llvm_align_list ms.
Proof. reflexivity. Qed.

Lemma llvm_size_bits_struct ms :
  llvm_size_bits (TStruct ms) = 8 * layout_size (member_layouts ms).
Proof. reflexivity. Qed.

Lemma wf_ty_struct ms : wf_ty (TStruct ms) = wf_ty_list ms.
Proof. reflexivity. Qed.

Lemma wmember_ty_nested d ms : wmember_ty (Nested d ms) = TStruct (wmember_tys ms).
Proof. reflexivity. Qed.

Lemma wmember_accepted_nested d ms :
  wmember_accepted (Nested d ms) =
  valid_size d && word_accepted d (typer_sizes ms) && wmembers_accepted ms.
Proof. reflexivity. Qed.

Lemma wf_ty_list_Forall ms : wf_ty_list ms = true <-> Forall (fun m => wf_ty m = true) ms.
Proof.
  induction ms as [|m rest IH]; cbn [wf_ty_list].
  - split; [constructor|reflexivity].
  - rewrite andb_true_iff, IH. split.
    + intros [Hm Hr]. now constructor.
    + intros H. inversion H; subst. now split.
Qed.

Lemma wmembers_accepted_Forall ms :
  wmembers_accepted ms = true <-> Forall (fun m => wmember_accepted m = true) ms.
Proof.
  induction ms as [|m rest IH]; cbn [wmembers_accepted].
  - split; [constructor|reflexivity].
  - rewrite andb_true_iff, IH. split.
    + intros [Hm Hr]. now constructor.
    + intros H. inversion H; subst. now split.
Qed.

(* ---- 1. align_up ------------------------------------------------------------ *)

Lemma align_up_bounds x a : 0 < a -> x <= align_up x a < x + a.
Proof.
  intros Ha. unfold align_up.
  pose proof (Z.div_mod (x + a - 1) a ltac:(lia)) as Hdm.
  pose proof (Z.mod_pos_bound (x + a - 1) a Ha) as Hb.
  lia.
Qed.

Lemma align_up_divide x a : (a | align_up x a).
Proof. exists ((x + a - 1) / a). unfold align_up. ring. Qed.

Lemma align_up_least x a m : 0 < a -> x <= m -> (a | m) -> align_up x a <= m.
Proof.
  intros Ha Hx [k ->]. unfold align_up.
  assert (Hq : (x + a - 1) / a < Z.succ k).
  { apply Z.div_lt_upper_bound; [lia|]. nia. }
  nia.
Qed.

(* For a > 0, align_up x a is the least multiple of a that is >= x. *)
Theorem align_up_spec x a :
  0 < a -> 0 <= x ->
  (a | align_up x a) /\ x <= align_up x a /\
  (forall m, x <= m -> (a | m) -> align_up x a <= m).
Proof.
  intros Ha _. split; [apply align_up_divide|]. split.
  - apply (align_up_bounds x a Ha).
  - intros m Hm Hd. now apply align_up_least.
Qed.

Lemma align_up_id x a : 0 < a -> (a | x) -> align_up x a = x.
Proof.
  intros Ha Hd. pose proof (align_up_bounds x a Ha) as Hb.
  pose proof (align_up_least x a x Ha (Z.le_refl x) Hd) as Hl. lia.
Qed.

Lemma align_up_le_div x y a b :
  0 < a -> 0 < b -> (a | b) -> x <= y -> align_up x a <= align_up y b.
Proof.
  intros Ha Hb Hd Hxy. apply align_up_least; [assumption| |].
  - pose proof (align_up_bounds y b Hb). lia.
  - eapply Z.divide_trans; [exact Hd|apply align_up_divide].
Qed.

Lemma align_up_mono x y a : 0 < a -> x <= y -> align_up x a <= align_up y a.
Proof. intros Ha Hxy. apply align_up_le_div; try assumption. apply Z.divide_refl. Qed.

(* ---- alignments are 1, 2, 4 or 8 -------------------------------------------- *)

Definition al8 (a : Z) : Prop := a = 1 \/ a = 2 \/ a = 4 \/ a = 8.

Lemma al8_pos a : al8 a -> 1 <= a <= 8.
Proof. unfold al8. lia. Qed.

Lemma al8_max a b : al8 a -> al8 b -> al8 (Z.max a b).
Proof. intros Ha Hb. destruct (Z.max_spec a b) as [[_ ->]|[_ ->]]; assumption. Qed.

Lemma al8_le_divide a b : al8 a -> al8 b -> a <= b -> (a | b).
Proof.
  intros Ha Hb Hab.
  destruct Ha as [->|[->|[->| ->]]]; destruct Hb as [->|[->|[->| ->]]]; try lia;
    (apply Z.mod_divide; [lia|reflexivity]).
Qed.

Lemma valid_size_cases b :
  valid_size b = true <-> b = 1 \/ b = 2 \/ b = 4 \/ b = 8 \/ b = 16.
Proof. unfold valid_size. rewrite !orb_true_iff, !Z.eqb_eq. tauto. Qed.

Lemma next_pow2_spec x :
  1 <= x -> x <= next_pow2 x < 2 * x /\ exists k, 0 <= k /\ next_pow2 x = 2 ^ k.
Proof.
  intros Hx. unfold next_pow2. destruct (Z.leb_spec x 1) as [H1|H1].
  - split; [lia|]. exists 0. split; [lia|reflexivity].
  - pose proof (Z.log2_up_spec x H1) as [Hlo Hhi].
    pose proof (Z.log2_up_pos x H1) as Hk.
    split.
    + split; [exact Hhi|].
      replace (Z.log2_up x) with (Z.succ (Z.pred (Z.log2_up x))) by lia.
      rewrite Z.pow_succ_r by lia. lia.
    + exists (Z.log2_up x). split; [lia|reflexivity].
Qed.

(* The type checker's member alignment is LLVM's integer ABI alignment under the
   module's data layout -- for every byte size, in particular 16 (i128): both 8. *)
Lemma member_alignment_int_abi b : 1 <= b -> member_alignment b = int_abi_align b.
Proof.
  intros Hb. destruct (Z.leb_spec b 8) as [H8|H8].
  - assert (Hc : b = 1 \/ b = 2 \/ b = 3 \/ b = 4 \/ b = 5 \/ b = 6 \/ b = 7 \/ b = 8) by lia.
    destruct Hc as [->|[->|[->|[->|[->|[->|[->| ->]]]]]]]; reflexivity.
  - pose proof (next_pow2_spec b Hb) as [[Hlo _] _].
    unfold member_alignment, MAXIMUM_ALIGNMENT, int_abi_align.
    destruct (Z.leb_spec b 1); [lia|]. destruct (Z.leb_spec b 2); [lia|].
    destruct (Z.leb_spec b 4); [lia|]. lia.
Qed.

Lemma int_abi_align_al8 b : al8 (int_abi_align b).
Proof.
  unfold int_abi_align, al8.
  destruct (b <=? 1); [tauto|]. destruct (b <=? 2); [tauto|]. destruct (b <=? 4); tauto.
Qed.

Lemma member_alignment_valid b :
  valid_size b = true -> member_alignment b = Z.min b 8 /\ al8 (member_alignment b).
Proof.
  rewrite valid_size_cases. unfold al8.
  intros [->|[->|[->|[->| ->]]]]; vm_compute; intuition congruence.
Qed.

Lemma llvm_align_list_al8 ms : Forall (fun m => al8 (llvm_align m)) ms -> al8 (llvm_align_list ms).
Proof.
  induction 1 as [|m rest Hm _ IH]; cbn [llvm_align_list].
  - left. reflexivity.
  - now apply al8_max.
Qed.

Lemma llvm_align_al8 t : al8 (llvm_align t).
Proof.
  induction t as [b| | |n e IHe|ms IHms] using ty_ind2.
  - apply int_abi_align_al8.
  - left. reflexivity.
  - right. right. right. reflexivity.
  - exact IHe.
  - rewrite llvm_align_struct. now apply llvm_align_list_al8.
Qed.

Lemma llvm_align_pos t : 0 < llvm_align t.
Proof. pose proof (al8_pos _ (llvm_align_al8 t)). lia. Qed.

(* ---- generic facts about StructLayout's loop -------------------------------- *)

Fixpoint max_align (ms : list (Z * Z)) : Z :=
  match ms with
  | [] => 1
  | (_, a) :: rest => Z.max a (max_align rest)
  end.

Fixpoint sum_sizes (ms : list (Z * Z)) : Z :=
  match ms with
  | [] => 0
  | (sz, _) :: rest => sz + sum_sizes rest
  end.

Lemma layout_loop_cons sz a rest size al offs s a' :
  layout_loop ((sz, a) :: rest) size al = (offs, s, a') ->
  exists offs', offs = align_up size a :: offs' /\
    layout_loop rest (align_up size a + sz) (Z.max a al) = (offs', s, a').
Proof.
  cbn [layout_loop].
  destruct (layout_loop rest (align_up size a + sz) (Z.max a al)) as [[o1 s1] a1].
  intros H. inversion H; subst. eexists. split; reflexivity.
Qed.

Lemma layout_loop_align ms : forall size al offs s a',
  1 <= al -> layout_loop ms size al = (offs, s, a') -> a' = Z.max al (max_align ms).
Proof.
  induction ms as [|[sz a] rest IH]; intros size al offs s a' Hal H.
  - cbn [layout_loop] in H. inversion H; subst. cbn [max_align]. lia.
  - apply layout_loop_cons in H as [offs' [_ H]].
    apply IH in H; [|lia]. cbn [max_align]. lia.
Qed.

Lemma layout_loop_app ms1 ms2 : forall size al o1 s1 a1 o2 s2 a2,
  layout_loop ms1 size al = (o1, s1, a1) ->
  layout_loop ms2 s1 a1 = (o2, s2, a2) ->
  layout_loop (ms1 ++ ms2) size al = (o1 ++ o2, s2, a2).
Proof.
  induction ms1 as [|[sz a] rest IH]; intros size al o1 s1 a1 o2 s2 a2 H1 H2.
  - cbn [layout_loop] in H1. inversion H1; subst. exact H2.
  - apply layout_loop_cons in H1 as [offs' [-> H1]].
    cbn [app layout_loop]. now rewrite (IH _ _ _ _ _ _ _ _ H1 H2).
Qed.

Lemma layout_loop_size ms : forall size al offs s a',
  Forall (fun p => 0 < snd p) ms ->
  layout_loop ms size al = (offs, s, a') -> size + sum_sizes ms <= s.
Proof.
  induction ms as [|[sz a] rest IH]; intros size al offs s a' HF H.
  - cbn [layout_loop] in H. inversion H; subst. cbn [sum_sizes]. lia.
  - inversion HF as [|? ? Ha HF']; subst. cbn [snd] in Ha.
    apply layout_loop_cons in H as [offs' [_ H]].
    apply IH in H; [|assumption]. cbn [sum_sizes].
    pose proof (align_up_bounds size a Ha). lia.
Qed.

Lemma sum_sizes_nonneg ms : Forall (fun p => 0 <= fst p) ms -> 0 <= sum_sizes ms.
Proof.
  induction 1 as [|[sz a] rest Hp _ IH]; cbn [sum_sizes]; [lia|]. cbn [fst] in Hp. lia.
Qed.

Lemma max_align_al8 ms : Forall (fun p => al8 (snd p)) ms -> al8 (max_align ms).
Proof.
  induction 1 as [|[sz a] rest Hp _ IH]; cbn [max_align].
  - left. reflexivity.
  - now apply al8_max.
Qed.

(* Pointwise smaller members with pointwise smaller (power of two) alignments
   give a smaller struct. *)
Definition le_layout (p q : Z * Z) : Prop :=
  fst p <= fst q /\ al8 (snd p) /\ al8 (snd q) /\ snd p <= snd q.

Lemma layout_loop_le ps qs : Forall2 le_layout ps qs ->
  forall size1 al1 size2 al2 o1 s1 a1 o2 s2 a2,
  size1 <= size2 -> al8 al1 -> al8 al2 -> al1 <= al2 ->
  layout_loop ps size1 al1 = (o1, s1, a1) ->
  layout_loop qs size2 al2 = (o2, s2, a2) ->
  s1 <= s2 /\ al8 a1 /\ al8 a2 /\ a1 <= a2.
Proof.
  induction 1 as [|[sz1 b1] [sz2 b2] ps qs Hpq _ IH];
    intros size1 al1 size2 al2 o1 s1 a1 o2 s2 a2 Hs Hal1 Hal2 Hal H1 H2.
  - cbn [layout_loop] in H1, H2. inversion H1; inversion H2; subst. tauto.
  - destruct Hpq as [Hsz [Hb1 [Hb2 Hb]]]. cbn [fst snd] in *.
    apply layout_loop_cons in H1 as [o1' [_ H1]].
    apply layout_loop_cons in H2 as [o2' [_ H2]].
    refine (IH _ _ _ _ _ _ _ _ _ _ _ _ _ _ H1 H2).
    + pose proof (al8_pos _ Hb1). pose proof (al8_pos _ Hb2).
      pose proof (align_up_le_div size1 size2 b1 b2 ltac:(lia) ltac:(lia)
                    (al8_le_divide _ _ Hb1 Hb2 Hb) Hs). lia.
    + now apply al8_max.
    + now apply al8_max.
    + lia.
Qed.

Lemma layout_size_le ps qs : Forall2 le_layout ps qs -> layout_size ps <= layout_size qs.
Proof.
  intros HF. unfold layout_size.
  destruct (layout_loop ps 0 1) as [[o1 s1] a1] eqn:H1.
  destruct (layout_loop qs 0 1) as [[o2 s2] a2] eqn:H2.
  assert (Hone : al8 1) by (left; reflexivity).
  destruct (layout_loop_le ps qs HF 0 1 0 1 o1 s1 a1 o2 s2 a2
              (Z.le_refl 0) Hone Hone (Z.le_refl 1) H1 H2) as [Hs [Ha1 [Ha2 Ha]]].
  pose proof (al8_pos _ Ha1). pose proof (al8_pos _ Ha2).
  apply align_up_le_div; try lia. now apply al8_le_divide.
Qed.

(* "alignment 1, or alignment at most the size": true of primitives and words,
   not of arrays (zero-length) -- used to bound a nested word's alignment. *)
Definition tight (p : Z * Z) : Prop :=
  0 <= fst p /\ 1 <= snd p /\ (snd p = 1 \/ snd p <= fst p).

Lemma layout_loop_tight ms : forall size al offs s a',
  Forall tight ms -> 0 <= size -> 1 <= al -> (al = 1 \/ al <= size) ->
  layout_loop ms size al = (offs, s, a') ->
  size <= s /\ 1 <= a' /\ (a' = 1 \/ a' <= s).
Proof.
  induction ms as [|[sz a] rest IH]; intros size al offs s a' HF Hs Hal Ht H.
  - cbn [layout_loop] in H. inversion H; subst. lia.
  - inversion HF as [|? ? [Hsz [Ha Hta]] HF']; subst. cbn [fst snd] in *.
    apply layout_loop_cons in H as [offs' [_ H]].
    pose proof (align_up_bounds size a ltac:(lia)) as Hb.
    apply IH in H; [lia|assumption|lia|lia|lia].
Qed.

Lemma layout_tight ms :
  Forall tight ms ->
  0 <= layout_size ms /\ (layout_align ms = 1 \/ layout_align ms <= layout_size ms).
Proof.
  intros HF. unfold layout_size, layout_align.
  destruct (layout_loop ms 0 1) as [[o s] a] eqn:H.
  apply layout_loop_tight in H; [|assumption|lia|lia|lia].
  pose proof (align_up_bounds s a ltac:(lia)). lia.
Qed.

Lemma layout_align_max ms : layout_align ms = max_align ms.
Proof.
  unfold layout_align. destruct (layout_loop ms 0 1) as [[o s] a] eqn:H.
  apply layout_loop_align in H; [|lia].
  assert (1 <= max_align ms).
  { clear. induction ms as [|[sz a] rest IH]; cbn [max_align]; lia. }
  lia.
Qed.

Lemma layout_size_divide ms : (layout_align ms | layout_size ms).
Proof.
  unfold layout_size, layout_align. destruct (layout_loop ms 0 1) as [[o s] a].
  apply align_up_divide.
Qed.

(* ---- LLVM sizes of the types ------------------------------------------------ *)

Lemma max_align_member_layouts ms : max_align (member_layouts ms) = llvm_align_list ms.
Proof.
  induction ms as [|m rest IH]; cbn [member_layouts max_align llvm_align_list]; [reflexivity|].
  now rewrite IH.
Qed.

Lemma layout_align_members ms : layout_align (member_layouts ms) = llvm_align (TStruct ms).
Proof. now rewrite layout_align_max, max_align_member_layouts, llvm_align_struct. Qed.

Lemma store_of_bytes x : (8 * x + 7) / 8 = x.
Proof. symmetry. apply (Z.div_unique (8 * x + 7) 8 x 7); lia. Qed.

Lemma bytes_of_bits x : (8 * x) / 8 = x.
Proof. symmetry. apply (Z.div_unique (8 * x) 8 x 0); lia. Qed.

(* A struct's alloc size is its (already padded) StructLayout size. *)
Lemma llvm_alloc_size_struct ms :
  llvm_alloc_size (TStruct ms) = layout_size (member_layouts ms).
Proof.
  unfold llvm_alloc_size, alloc_of. rewrite llvm_size_bits_struct, store_of_bytes.
  apply align_up_id; [apply llvm_align_pos|].
  rewrite <- layout_align_members. apply layout_size_divide.
Qed.

Lemma llvm_alloc_size_divide t : (llvm_align t | llvm_alloc_size t).
Proof. unfold llvm_alloc_size, alloc_of. apply align_up_divide. Qed.

Lemma llvm_alloc_size_int b : valid_size b = true -> llvm_alloc_size (TInt b) = b.
Proof. rewrite valid_size_cases. intros [->|[->|[->|[->| ->]]]]; reflexivity. Qed.

Lemma llvm_alloc_size_arr n t : llvm_alloc_size (TArr n t) = n * llvm_alloc_size t.
Proof.
  unfold llvm_alloc_size at 1. unfold alloc_of. cbn [llvm_size_bits llvm_align].
  fold (llvm_alloc_size t).
  replace (n * (8 * llvm_alloc_size t)) with (8 * (n * llvm_alloc_size t)) by ring.
  rewrite store_of_bytes. apply align_up_id; [apply llvm_align_pos|].
  apply Z.divide_mul_r. apply llvm_alloc_size_divide.
Qed.

Lemma llvm_size_bytes_arr n t : llvm_size_bytes (TArr n t) = n * llvm_alloc_size t.
Proof.
  unfold llvm_size_bytes. cbn [llvm_size_bits]. fold (llvm_alloc_size t).
  replace (n * (8 * llvm_alloc_size t)) with (8 * (n * llvm_alloc_size t)) by ring.
  apply bytes_of_bits.
Qed.

(* 4. `|:[N]T|` = N * `|:T|`. *)
Theorem sizeof_array n t :
  llvm_size_bytes (TArr n t) = n * llvm_alloc_size t /\
  llvm_alloc_size (TArr n t) = n * llvm_alloc_size t.
Proof. split; [apply llvm_size_bytes_arr|apply llvm_alloc_size_arr]. Qed.

Lemma member_layouts_sizes_nonneg ms :
  Forall (fun m => 0 <= llvm_alloc_size m) ms ->
  Forall (fun p => 0 <= fst p) (member_layouts ms).
Proof. induction 1; cbn [member_layouts]; constructor; assumption. Qed.

Lemma member_layouts_aligns_pos ms : Forall (fun p => 0 < snd p) (member_layouts ms).
Proof.
  induction ms; cbn [member_layouts]; constructor; [apply llvm_align_pos|assumption].
Qed.

Lemma member_layouts_aligns_al8 ms : Forall (fun p => al8 (snd p)) (member_layouts ms).
Proof.
  induction ms; cbn [member_layouts]; constructor; [apply llvm_align_al8|assumption].
Qed.

Lemma layout_size_nonneg ms :
  Forall (fun p => 0 <= fst p) ms -> Forall (fun p => 0 < snd p) ms ->
  sum_sizes ms <= layout_size ms.
Proof.
  intros Hs Ha. unfold layout_size.
  destruct (layout_loop ms 0 1) as [[o s] a] eqn:H.
  pose proof (layout_loop_size ms 0 1 o s a Ha H) as Hsum.
  pose proof (layout_loop_align ms 0 1 o s a ltac:(lia) H) as Hal.
  pose proof (align_up_bounds s a ltac:(lia)). lia.
Qed.

Lemma llvm_alloc_size_nonneg t : wf_ty t = true -> 0 <= llvm_alloc_size t.
Proof.
  induction t as [b| | |n e IHe|ms IHms] using ty_ind2; intros Hwf.
  - cbn [wf_ty] in Hwf. rewrite (llvm_alloc_size_int b Hwf).
    apply valid_size_cases in Hwf. lia.
  - vm_compute. discriminate.
  - vm_compute. discriminate.
  - cbn [wf_ty] in Hwf. apply andb_true_iff in Hwf as [Hn He].
    rewrite llvm_alloc_size_arr. apply Z.leb_le in Hn. specialize (IHe He). nia.
  - rewrite wf_ty_struct in Hwf. apply wf_ty_list_Forall in Hwf.
    rewrite llvm_alloc_size_struct.
    assert (Hnn : Forall (fun m => 0 <= llvm_alloc_size m) ms).
    { clear -IHms Hwf. induction IHms as [|m rest Hm _ IH]; constructor.
      - inversion Hwf; subst. auto.
      - inversion Hwf; subst. auto. }
    pose proof (member_layouts_sizes_nonneg ms Hnn) as H1.
    pose proof (layout_size_nonneg _ H1 (member_layouts_aligns_pos ms)).
    pose proof (sum_sizes_nonneg _ H1). lia.
Qed.

(* `|:T|` is exactly the storage LLVM allocates for T, and the generator's
   assert_eq!(size_in_bits % 8, 0) cannot fail. *)
Theorem penne_sizeof_is_alloc_size t :
  wf_ty t = true -> penne_sizeof t = llvm_alloc_size t /\ sizeof_assert_ok t = true.
Proof.
  destruct t as [b| | |n e|ms]; intros Hwf.
  - cbn [wf_ty] in Hwf. apply valid_size_cases in Hwf.
    destruct Hwf as [->|[->|[->|[->| ->]]]]; split; reflexivity.
  - split; reflexivity.
  - split; reflexivity.
  - split.
    + cbn [penne_sizeof]. now rewrite llvm_size_bytes_arr, llvm_alloc_size_arr.
    + cbn [sizeof_assert_ok llvm_size_bits]. apply Z.eqb_eq.
      replace (n * (8 * alloc_of (llvm_size_bits e) (llvm_align e)))
        with ((n * alloc_of (llvm_size_bits e) (llvm_align e)) * 8) by ring.
      apply Z_mod_mult.
  - split.
    + cbn [penne_sizeof]. unfold llvm_size_bytes.
      rewrite llvm_size_bits_struct, llvm_alloc_size_struct. apply bytes_of_bits.
    + unfold sizeof_assert_ok. rewrite llvm_size_bits_struct. apply Z.eqb_eq.
      rewrite Z.mul_comm. apply Z_mod_mult.
Qed.

(* ---- 6. E380 ---------------------------------------------------------------- *)

Theorem E380_iff declared members :
  word_accepted declared members = true <-> typer_aligned_size members <= declared.
Proof. unfold word_accepted. apply Z.leb_le. Qed.

Corollary E380_emitted_iff declared members :
  align_struct_word declared members = [E380] <->
  declared < typer_aligned_size (known_sizes members).
Proof.
  unfold align_struct_word, word_accepted.
  destruct (Z.leb_spec (typer_aligned_size (known_sizes members)) declared); split;
    intros; try lia; try discriminate; reflexivity.
Qed.

(* ---- 2. words of primitives: the type checker computes LLVM's size ---------- *)

Definition typer_layouts (sizes : list Z) : list (Z * Z) :=
  map (fun s => (s, member_alignment s)) sizes.

Lemma typer_loop_layout sizes : forall size al,
  typer_loop sizes size al =
  (snd (fst (layout_loop (typer_layouts sizes) size al)),
   snd (layout_loop (typer_layouts sizes) size al)).
Proof.
  induction sizes as [|s rest IH]; intros size al; [reflexivity|].
  cbn [typer_loop typer_layouts map layout_loop]. fold (typer_layouts rest).
  assert (Hmax : (if al <? member_alignment s then member_alignment s else al)
                 = Z.max (member_alignment s) al).
  { destruct (Z.ltb_spec al (member_alignment s)); lia. }
  rewrite Hmax, IH.
  destruct (layout_loop (typer_layouts rest) _ _) as [[o s1] a1]. reflexivity.
Qed.

Lemma typer_aligned_size_layout sizes :
  typer_aligned_size sizes = layout_size (typer_layouts sizes).
Proof.
  unfold typer_aligned_size, layout_size. rewrite typer_loop_layout.
  destruct (layout_loop (typer_layouts sizes) 0 1) as [[o s] a]. reflexivity.
Qed.

Lemma member_layouts_prims sizes :
  Forall (fun s => valid_size s = true) sizes ->
  member_layouts (map TInt sizes) = typer_layouts sizes.
Proof.
  induction 1 as [|s rest Hs _ IH]; [reflexivity|].
  cbn [map member_layouts typer_layouts]. fold (typer_layouts rest). rewrite IH.
  rewrite (llvm_alloc_size_int s Hs). cbn [llvm_align].
  rewrite member_alignment_int_abi; [reflexivity|].
  apply valid_size_cases in Hs. lia.
Qed.

Theorem word_size_agrees sizes :
  Forall (fun s => valid_size s = true) sizes ->
  typer_aligned_size sizes = llvm_alloc_size (TStruct (map TInt sizes)).
Proof.
  intros HF. rewrite llvm_alloc_size_struct, (member_layouts_prims sizes HF).
  apply typer_aligned_size_layout.
Qed.

(* The same holds for `|:W|`, and with bool members (i1: one byte, align 1). *)
Corollary word_sizeof_agrees sizes :
  Forall (fun s => valid_size s = true) sizes ->
  penne_sizeof (TStruct (map TInt sizes)) = typer_aligned_size sizes.
Proof.
  intros HF. rewrite (word_size_agrees sizes HF).
  apply penne_sizeof_is_alloc_size. rewrite wf_ty_struct.
  induction HF as [|s rest Hs _ IH]; [reflexivity|].
  cbn [map wf_ty_list wf_ty]. now rewrite Hs, IH.
Qed.

Lemma bool_layout_is_u8 :
  llvm_alloc_size TBool = llvm_alloc_size (TInt 1) /\ llvm_align TBool = llvm_align (TInt 1).
Proof. split; reflexivity. Qed.

(* ---- 3. words nested in words ----------------------------------------------- *)

Definition winv (m : wmember) : Prop :=
  0 <= llvm_alloc_size (wmember_ty m) <= typer_size_of m /\
  llvm_align (wmember_ty m) <= member_alignment (typer_size_of m) /\
  al8 (member_alignment (typer_size_of m)) /\
  (llvm_align (wmember_ty m) = 1 \/ llvm_align (wmember_ty m) <= llvm_alloc_size (wmember_ty m)).

Lemma winv_le_layout ms :
  Forall winv ms ->
  Forall2 le_layout (member_layouts (wmember_tys ms)) (typer_layouts (typer_sizes ms)).
Proof.
  induction 1 as [|m rest [Hsz [Hal [H8 _]]] _ IH].
  - constructor.
  - cbn [wmember_tys member_layouts typer_sizes typer_layouts map].
    constructor; [|exact IH].
    unfold le_layout. cbn [fst snd]. repeat split; try assumption; try lia.
    apply llvm_align_al8.
Qed.

Lemma winv_tight ms : Forall winv ms -> Forall tight (member_layouts (wmember_tys ms)).
Proof.
  induction 1 as [|m rest [Hsz [_ [_ Ht]]] _ IH]; cbn [wmember_tys member_layouts].
  - constructor.
  - constructor; [|exact IH]. unfold tight. cbn [fst snd].
    pose proof (llvm_align_pos (wmember_ty m)). lia.
Qed.

Lemma members_conservative ms :
  Forall winv ms ->
  llvm_alloc_size (TStruct (wmember_tys ms)) <= typer_aligned_size (typer_sizes ms).
Proof.
  intros HF. rewrite llvm_alloc_size_struct, typer_aligned_size_layout.
  apply layout_size_le. now apply winv_le_layout.
Qed.

Lemma wmember_accepted_winv m : wmember_accepted m = true -> winv m.
Proof.
  induction m as [s|d ms IH] using wmember_ind2; intros Hacc.
  - cbn [wmember_accepted] in Hacc. unfold winv. cbn [wmember_ty typer_size_of llvm_align].
    rewrite (llvm_alloc_size_int s Hacc).
    destruct (member_alignment_valid s Hacc) as [Hmin H8].
    pose proof (valid_size_cases s) as [Hc _]. specialize (Hc Hacc).
    rewrite <- member_alignment_int_abi by lia.
    repeat split; try assumption; try lia.
  - rewrite wmember_accepted_nested in Hacc.
    apply andb_true_iff in Hacc as [Hacc Hms]. apply andb_true_iff in Hacc as [Hd Hw].
    apply wmembers_accepted_Forall in Hms.
    assert (HF : Forall winv ms).
    { clear -IH Hms. induction IH as [|m rest Hm _ IHr]; constructor.
      - inversion Hms; subst. auto.
      - inversion Hms; subst. auto. }
    pose proof (members_conservative ms HF) as Hle.
    apply E380_iff in Hw.
    pose proof (layout_tight _ (winv_tight ms HF)) as [Hnn Htight].
    rewrite layout_align_members in Htight.
    rewrite <- llvm_alloc_size_struct in Hnn, Htight.
    destruct (member_alignment_valid d Hd) as [Hmin H8].
    pose proof (al8_pos _ (llvm_align_al8 (TStruct (wmember_tys ms)))) as Hb.
    apply valid_size_cases in Hd.
    unfold winv. rewrite wmember_ty_nested. cbn [typer_size_of].
    repeat split; try assumption; try lia.
Qed.

(* If every nested word was itself accepted, LLVM's layout of the actual members
   never exceeds the size the type checker computes from the declared sizes:
   E380 never under-estimates. *)
Theorem nested_word_conservative ms :
  wmembers_accepted ms = true ->
  llvm_alloc_size (TStruct (wmember_tys ms)) <= typer_aligned_size (typer_sizes ms).
Proof.
  intros Hacc. apply members_conservative.
  apply wmembers_accepted_Forall in Hacc.
  induction Hacc as [|m rest Hm _ IH]; constructor; [|exact IH].
  now apply wmember_accepted_winv.
Qed.

Corollary accepted_word_fits declared ms :
  wmember_accepted (Nested declared ms) = true ->
  0 <= llvm_alloc_size (wmember_ty (Nested declared ms)) <= declared /\
  penne_sizeof (wmember_ty (Nested declared ms)) <= declared.
Proof.
  intros Hacc. destruct (wmember_accepted_winv _ Hacc) as [Hsz _].
  cbn [typer_size_of] in Hsz. split; [exact Hsz|].
  rewrite wmember_ty_nested in *. cbn [penne_sizeof]. unfold llvm_size_bytes.
  rewrite llvm_size_bits_struct, bytes_of_bits. rewrite llvm_alloc_size_struct in Hsz. lia.
Qed.

(* The inequality is strict in general, E380 can reject a word whose LLVM layout
   would fit, and an accepted `wordN` need not occupy N/8 bytes. *)
Example nested_word_not_exact :
  exists ms, wmembers_accepted ms = true /\
    llvm_alloc_size (TStruct (wmember_tys ms)) < typer_aligned_size (typer_sizes ms).
Proof. exists [Nested 8 [Prim 1]; Prim 1]. vm_compute. split; reflexivity. Qed.

Example E380_over_rejects :
  exists d ms, wmembers_accepted ms = true /\
    llvm_alloc_size (TStruct (wmember_tys ms)) <= d /\
    word_accepted d (typer_sizes ms) = false.
Proof.
  exists 8, [Nested 8 [Prim 1]; Prim 1]. vm_compute.
  split; [reflexivity|]. split; [discriminate|reflexivity].
Qed.

Example accepted_word_smaller_than_declared :
  exists d ms, wmember_accepted (Nested d ms) = true /\
    penne_sizeof (wmember_ty (Nested d ms)) < d.
Proof. exists 8, [Prim 1]. vm_compute. split; reflexivity. Qed.

(* ---- 5. structure of the struct layout -------------------------------------- *)

Fixpoint sum_alloc (ms : list ty) : Z :=
  match ms with
  | [] => 0
  | m :: rest => llvm_alloc_size m + sum_alloc rest
  end.

(* [well_placed lo ms offs hi]: the members lie, in order and without overlap,
   between lo and hi, each at a multiple of its alignment. *)
Fixpoint well_placed (lo : Z) (ms : list ty) (offs : list Z) (hi : Z) : Prop :=
  match ms, offs with
  | [], [] => lo <= hi
  | m :: ms', o :: offs' =>
      lo <= o /\ (llvm_align m | o) /\ well_placed (o + llvm_alloc_size m) ms' offs' hi
  | _, _ => False
  end.

Lemma well_placed_weaken ms : forall lo offs hi hi',
  well_placed lo ms offs hi -> hi <= hi' -> well_placed lo ms offs hi'.
Proof.
  induction ms as [|m rest IH]; intros lo offs hi hi' H Hle; destruct offs as [|o offs'];
    cbn [well_placed] in *; try tauto; try lia.
  destruct H as [H1 [H2 H3]]. repeat split; try assumption. eapply IH; eassumption.
Qed.

Lemma layout_loop_well_placed ms : forall size al offs s a',
  layout_loop (member_layouts ms) size al = (offs, s, a') -> well_placed size ms offs s.
Proof.
  induction ms as [|m rest IH]; intros size al offs s a' H.
  - cbn [member_layouts layout_loop] in H. inversion H; subst. cbn [well_placed]. lia.
  - cbn [member_layouts] in H. apply layout_loop_cons in H as [offs' [-> H]].
    cbn [well_placed]. split; [|split].
    + apply (align_up_bounds size (llvm_align m) (llvm_align_pos m)).
    + apply align_up_divide.
    + eapply IH. exact H.
Qed.

Lemma sum_sizes_member_layouts ms : sum_sizes (member_layouts ms) = sum_alloc ms.
Proof.
  induction ms as [|m rest IH]; cbn [member_layouts sum_sizes sum_alloc]; [reflexivity|].
  now rewrite IH.
Qed.

Lemma member_layouts_app a b : member_layouts (a ++ b) = member_layouts a ++ member_layouts b.
Proof. induction a as [|m rest IH]; cbn [app member_layouts]; [reflexivity|now rewrite IH]. Qed.

Theorem struct_offsets_well_placed ms :
  well_placed 0 ms (struct_offsets ms) (llvm_alloc_size (TStruct ms)).
Proof.
  rewrite llvm_alloc_size_struct. unfold struct_offsets, layout_offsets, layout_size.
  destruct (layout_loop (member_layouts ms) 0 1) as [[o s] a] eqn:H.
  pose proof (layout_loop_align _ 0 1 o s a ltac:(lia) H) as Hal.
  apply (well_placed_weaken ms 0 o s).
  - eapply layout_loop_well_placed. exact H.
  - apply (align_up_bounds s a). lia.
Qed.

Lemma well_placed_length ms : forall lo offs hi,
  well_placed lo ms offs hi -> length offs = length ms.
Proof.
  induction ms as [|m rest IH]; intros lo offs hi H; destruct offs as [|o offs'];
    cbn [well_placed] in H; try tauto; try reflexivity.
  cbn [length]. f_equal. destruct H as [_ [_ H]]. eapply IH. exact H.
Qed.

Lemma well_placed_nth ms : forall lo offs hi i m o,
  Forall (fun m => 0 <= llvm_alloc_size m) ms ->
  well_placed lo ms offs hi ->
  nth_error ms i = Some m -> nth_error offs i = Some o ->
  lo <= o /\ (llvm_align m | o) /\ o + llvm_alloc_size m <= hi.
Proof.
  induction ms as [|m0 rest IH]; intros lo offs hi i m o Hnn H Hm Ho.
  - destruct i; discriminate.
  - destruct offs as [|o0 offs']; cbn [well_placed] in H; [tauto|].
    destruct H as [H1 [H2 H3]]. inversion Hnn as [|? ? Hm0 Hnn']; subst.
    assert (Hhi : o0 + llvm_alloc_size m0 <= hi).
    { clear -H3 Hnn'. revert H3 Hnn'. generalize (o0 + llvm_alloc_size m0) as lo.
      revert offs'. induction rest as [|m1 rest IHr]; intros offs' lo H Hnn;
        destruct offs' as [|o1 offs'']; cbn [well_placed] in H; try tauto.
      destruct H as [Ha [_ Hb]]. inversion Hnn; subst.
      specialize (IHr _ _ Hb ltac:(assumption)). lia. }
    destruct i as [|i'].
    + cbn [nth_error] in Hm, Ho. inversion Hm; inversion Ho; subst. tauto.
    + cbn [nth_error] in Hm, Ho.
      destruct (IH _ _ _ _ _ _ Hnn' H3 Hm Ho) as [Ha [Hb Hc]].
      repeat split; try assumption. lia.
Qed.

Lemma well_placed_disjoint ms : forall lo offs hi i j mi oi mj oj,
  Forall (fun m => 0 <= llvm_alloc_size m) ms ->
  well_placed lo ms offs hi -> (i < j)%nat ->
  nth_error ms i = Some mi -> nth_error offs i = Some oi ->
  nth_error ms j = Some mj -> nth_error offs j = Some oj ->
  oi + llvm_alloc_size mi <= oj.
Proof.
  induction ms as [|m0 rest IH]; intros lo offs hi i j mi oi mj oj Hnn H Hij Hmi Hoi Hmj Hoj.
  - destruct i; discriminate.
  - destruct offs as [|o0 offs']; cbn [well_placed] in H; [tauto|].
    destruct H as [H1 [H2 H3]]. inversion Hnn as [|? ? Hm0 Hnn']; subst.
    destruct j as [|j']; [lia|]. cbn [nth_error] in Hmj, Hoj.
    destruct i as [|i'].
    + cbn [nth_error] in Hmi, Hoi. inversion Hmi; inversion Hoi; subst.
      destruct (well_placed_nth _ _ _ _ _ _ _ Hnn' H3 Hmj Hoj) as [Ha _]. exact Ha.
    + cbn [nth_error] in Hmi, Hoi.
      eapply (IH _ _ _ i' j'); try eassumption. lia.
Qed.

(* Appending a member never decreases the size; the size is at least the sum of
   the member sizes, a multiple of the alignment; every member sits at a
   multiple of its alignment, inside the struct, after the end of all earlier
   members. *)
Theorem struct_size_monotone ms m :
  wf_ty_list ms = true -> wf_ty m = true ->
  llvm_alloc_size (TStruct ms) <= llvm_alloc_size (TStruct (ms ++ [m])).
Proof.
  intros Hms Hm. rewrite !llvm_alloc_size_struct, member_layouts_app.
  cbn [member_layouts]. unfold layout_size.
  destruct (layout_loop (member_layouts ms) 0 1) as [[o1 s1] a1] eqn:H1.
  destruct (layout_loop [(llvm_alloc_size m, llvm_align m)] s1 a1) as [[o2 s2] a2] eqn:H2.
  rewrite (layout_loop_app _ _ _ _ _ _ _ _ _ _ H1 H2).
  pose proof (layout_loop_align (member_layouts ms) 0 1 o1 s1 a1 ltac:(lia) H1) as Ha1.
  assert (H8 : al8 a1).
  { rewrite Ha1, max_align_member_layouts. apply al8_max; [left; reflexivity|].
    apply llvm_align_list_al8. clear. induction ms; constructor; [apply llvm_align_al8|assumption]. }
  cbn [layout_loop] in H2. inversion H2; subst o2 s2 a2.
  pose proof (llvm_align_al8 m) as H8m. pose proof (llvm_alloc_size_nonneg m Hm) as Hnn.
  pose proof (al8_pos _ H8). pose proof (al8_pos _ H8m).
  pose proof (align_up_bounds s1 (llvm_align m) ltac:(lia)).
  apply align_up_le_div; try lia.
  apply al8_le_divide; [assumption|now apply al8_max|lia].
Qed.

Theorem struct_layout_facts ms :
  wf_ty_list ms = true ->
  sum_alloc ms <= llvm_alloc_size (TStruct ms) /\
  (llvm_align (TStruct ms) | llvm_alloc_size (TStruct ms)) /\
  length (struct_offsets ms) = length ms /\
  (forall i m o, nth_error ms i = Some m -> nth_error (struct_offsets ms) i = Some o ->
     0 <= o /\ (llvm_align m | o) /\ o + llvm_alloc_size m <= llvm_alloc_size (TStruct ms)) /\
  (forall i j mi oi mj oj, (i < j)%nat ->
     nth_error ms i = Some mi -> nth_error (struct_offsets ms) i = Some oi ->
     nth_error ms j = Some mj -> nth_error (struct_offsets ms) j = Some oj ->
     oi + llvm_alloc_size mi <= oj).
Proof.
  intros Hwf. apply wf_ty_list_Forall in Hwf.
  assert (Hnn : Forall (fun m => 0 <= llvm_alloc_size m) ms).
  { induction Hwf as [|m rest Hm _ IH]; constructor; [now apply llvm_alloc_size_nonneg|exact IH]. }
  pose proof (struct_offsets_well_placed ms) as Hwp.
  split; [|split; [|split; [|split]]].
  - rewrite llvm_alloc_size_struct, <- sum_sizes_member_layouts.
    apply layout_size_nonneg; [now apply member_layouts_sizes_nonneg|apply member_layouts_aligns_pos].
  - apply llvm_alloc_size_divide.
  - eapply well_placed_length. exact Hwp.
  - intros i m o Hm Ho. eapply well_placed_nth; eassumption.
  - intros i j mi oi mj oj Hij Hmi Hoi Hmj Hoj.
    eapply (well_placed_disjoint ms 0 _ _ i j); eassumption.
Qed.

(* ---- examples --------------------------------------------------------------- *)

(* {i8, i128, i8} occupies 32 bytes (confirmed by experiment), offsets 0, 8, 24. *)
Example ex_i128 :
  llvm_alloc_size (TStruct [TInt 1; TInt 16; TInt 1]) = 32 /\
  struct_offsets [TInt 1; TInt 16; TInt 1] = [0; 8; 24] /\
  typer_aligned_size [1; 16; 1] = 32.
Proof. vm_compute. repeat split; reflexivity. Qed.

Example ex_word64_ok : word_accepted 8 [1; 2; 4] = true /\ typer_aligned_size [1; 2; 4] = 8.
Proof. vm_compute. split; reflexivity. Qed.

Example ex_word64_E380 : align_struct_word 8 [PUint8; PUint32; PUint8; PBool] = [E380].
Proof. reflexivity. Qed.

Example ex_nested_accepted :
  wmembers_accepted [Nested 8 [Prim 1; Prim 4]; Prim 2; Nested 4 [Nested 2 [Prim 1; Prim 1]; Prim 2]] = true.
Proof. reflexivity. Qed.

Example ex_sizeof :
  penne_sizeof (TArr 3 (TStruct [TInt 4; TBool])) = 24 /\
  penne_sizeof (TArr 5 TBool) = 5 /\ penne_sizeof TPtr = 8 /\ penne_sizeof (TStruct []) = 0 /\
  penne_sizeof (TStruct [TPtr; TInt 8]) = 16.
Proof. vm_compute. repeat split; reflexivity. Qed.

Print Assumptions align_up_spec.
Print Assumptions word_size_agrees.
Print Assumptions nested_word_conservative.
Print Assumptions accepted_word_fits.
Print Assumptions sizeof_array.
Print Assumptions penne_sizeof_is_alloc_size.
Print Assumptions struct_size_monotone.
Print Assumptions struct_layout_facts.
Print Assumptions struct_offsets_well_placed.
Print Assumptions E380_iff.
