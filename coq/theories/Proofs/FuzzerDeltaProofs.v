(* The second-generation lexer (Model/LexDelta.v) on the text of the token
   fuzzer (Model/Fuzzer.v): every well-formed atom sequence
   (FuzzerShapeProofs.WF) is tokenised without a single lexical error.

   Contents
     1. bytes: [encode], [flatb]
     2. digit strings as the lexer reads them; the scanners stop at the first
        byte that is neither digit nor underscore
     3. [num_step]: every number the fuzzer writes, with or without suffix
     4. quoted literals: [scan_past_item], [lex_literal_closed]
     5. first bytes of atoms
     6. [skip_line]: a comment swallows whole atoms up to a line break
     7. [delta_step]: one iteration of the lexer, no error, the rest is again a
        well-formed atom sequence
     8. [delta_loop_no_error], [delta_no_error], [delta_no_error_small]
     9. a source consisting of one spelling: [identifier_lexes], [builtin_lexes],
        [number_lexes], [char_lexes], [string_lexes]

   The decimal accumulator of the lexer is used only through [decimal_step]
   (LexDeltaProofs), [dfold] and the structure of [lex_decimal_with] /
   [scan_dec_with]: nothing here unfolds [dec_push] or mentions [dpanic] (see
   [decimal_acc]).  Everything is about the CURRENT lexer ([push := dec_push]). *)
From Coq Require Import Ascii String.
From PV Require Import Base.Common Base.IR Base.Tok.
From PV Require Import Model.Fuzzer Proofs.FuzzerShapeProofs.
From PV Require Import Model.LexDelta Proofs.LexDeltaProofs.
Open Scope N_scope.

(* [digits] is used through its lemmas only (never let conversion unfold its fuel) *)
Opaque digits.

(* names that exist on both sides: unqualified = the lexer's *)
Notation fcont := Fuzzer.is_ident_cont.
Notation flen := FuzzerShapeProofs.lenN.

Lemma fcont_eq x : fcont x = is_ident_cont x.
Proof. reflexivity. Qed.

Lemma flen_eq l : flen l = lenN l.
Proof. reflexivity. Qed.

Lemma to_nat_lenN (l : list N) : N.to_nat (lenN l) = length l.
Proof. unfold lenN. apply Nat2N.id. Qed.

(* ========================================================================== *)
(* 1. Bytes                                                                   *)
(* ========================================================================== *)
Lemma encode_app a b : encode (a ++ b) = encode a ++ encode b.
Proof. unfold encode. apply flat_map_app. Qed.

Lemma encode_ascii l : Forall (fun c => c < 128) l -> encode l = l.
Proof.
  induction 1 as [|c l Hc _ IH]; [reflexivity|]. cbn [encode flat_map]. fold (encode l). rewrite IH.
  unfold utf8. destruct (N.ltb_spec c 128); [reflexivity|lia].
Qed.

Lemma cont_ascii l : forallb fcont l = true -> Forall (fun c => c < 128) l.
Proof.
  intros H. apply Forall_forall. intros c Hc. rewrite forallb_forall in H.
  apply is_ident_cont_ascii. apply H, Hc.
Qed.

Lemma utf8_high c : 128 <= c -> Forall (fun b => 128 <= b) (utf8 c) /\ utf8 c <> [].
Proof.
  intros Hc. unfold utf8. destruct (N.ltb_spec c 128); [lia|].
  assert (Hk : forall k x, 128 <= k -> 128 <= k + x) by (intros; lia).
  destruct (c <? 2048); [split; [repeat (constructor; [apply Hk; lia|]); constructor|discriminate]|].
  destruct (c <? 65536); split; try discriminate; repeat (constructor; [apply Hk; lia|]); constructor.
Qed.

Definition flatb (A : list atom) : list N := encode (flatc A).
Lemma flatb_cons a A : flatb (a :: A) = encode (spell a) ++ flatb A.
Proof. unfold flatb. cbn [flatc flat_map]. apply encode_app. Qed.
Lemma flatb_nil : flatb [] = [].
Proof. reflexivity. Qed.

(* ========================================================================== *)
(* 2. Digit strings as the lexer reads them                                   *)
(* ========================================================================== *)
Lemma dec_digit_char d : d < 10 -> dec_digit (dec_char d) = Some d /\ in_range 48 57 (dec_char d) = true.
Proof.
  intros H. assert (Hc : d = 0 \/ d = 1 \/ d = 2 \/ d = 3 \/ d = 4 \/ d = 5 \/ d = 6 \/ d = 7 \/ d = 8 \/ d = 9) by lia.
  repeat (destruct Hc as [->|Hc]; [split; reflexivity|]). subst. split; reflexivity.
Qed.

Lemma hex_digit_char u d : d < 16 -> hex_digit (hex_char u d) = Some d.
Proof.
  intros H. assert (Hc : d = 0 \/ d = 1 \/ d = 2 \/ d = 3 \/ d = 4 \/ d = 5 \/ d = 6 \/ d = 7 \/ d = 8 \/
    d = 9 \/ d = 10 \/ d = 11 \/ d = 12 \/ d = 13 \/ d = 14 \/ d = 15) by lia.
  destruct u; repeat (destruct Hc as [->|Hc]; [reflexivity|]); subst; reflexivity.
Qed.

Lemma dec_value_chars ds : Forall (fun d => d < 10) ds ->
  forall acc, dec_value acc (map dec_char ds) = horner 10 ds acc.
Proof.
  induction 1 as [|d ds Hd _ IH]; intros acc; [reflexivity|].
  cbn [map dec_value]. destruct (dec_digit_char d Hd) as [-> _]. rewrite IH. reflexivity.
Qed.

Lemma hex_value_chars u ds : Forall (fun d => d < 16) ds ->
  forall acc, hex_value acc (map (hex_char u) ds) = horner 16 ds acc.
Proof.
  induction 1 as [|d ds Hd _ IH]; intros acc; [reflexivity|].
  cbn [map hex_value]. rewrite (hex_digit_char u d Hd), IH. reflexivity.
Qed.

Lemma is_dec_body_chars ds : Forall (fun d => d < 10) ds -> is_dec_body (map dec_char ds) = true.
Proof.
  induction 1 as [|d ds Hd _ IH]; [reflexivity|]. cbn [map is_dec_body forallb].
  fold (is_dec_body (map dec_char ds)). destruct (dec_digit_char d Hd) as [_ ->]. now rewrite IH.
Qed.

Lemma is_hex_body_chars u ds : Forall (fun d => d < 16) ds -> is_hex_body (map (hex_char u) ds) = true.
Proof.
  induction 1 as [|d ds Hd _ IH]; [reflexivity|]. cbn [map is_hex_body forallb].
  fold (is_hex_body (map (hex_char u) ds)). rewrite (hex_digit_char u d Hd). now rewrite IH.
Qed.

(* ---- the scanners stop at the first byte that is neither digit nor underscore ---------- *)
Definition stops_at (p : N -> bool) (rest : list N) : Prop :=
  match rest with [] => True | y :: _ => p y = false end.

Lemma scan_dec_stop push : forall body a e rest, is_dec_body body = true ->
  stops_at (fun y => in_range 48 57 y || (y =? 95)) rest ->
  scan_dec_with push a e (body ++ rest) = (dfold push a body, e + lenN body, rest).
Proof.
  induction body as [|y body IH]; intros a e rest Hb Ht.
  - cbn [app dfold]. rewrite lenN_nil, N.add_0_r.
    destruct rest as [|z t]; [reflexivity|]. cbn [stops_at] in Ht. apply orb_false_iff in Ht as [H1 H2].
    cbn [scan_dec_with]. unfold dec_digit. rewrite H1, H2. reflexivity.
  - cbn [is_dec_body forallb] in Hb. apply andb_true_iff in Hb as [Hy Hb].
    cbn [app scan_dec_with dfold]. rewrite lenN_cons.
    destruct (dec_digit y) as [d|] eqn:Hd.
    + rewrite IH by assumption. f_equal. f_equal. lia.
    + unfold dec_digit in Hd. destruct (in_range 48 57 y); [discriminate|]. cbn [orb] in Hy.
      rewrite Hy. rewrite IH by assumption. f_equal. f_equal. lia.
Qed.

Lemma scan_hex_stop : forall body a e rest, is_hex_body body = true ->
  stops_at (fun y => match hex_digit y with Some _ => true | None => y =? 95 end) rest ->
  scan_hex a e (body ++ rest) = (hfold a body, e + lenN body, rest).
Proof.
  induction body as [|y body IH]; intros a e rest Hb Ht.
  - cbn [app hfold]. rewrite lenN_nil, N.add_0_r.
    destruct rest as [|z t]; [reflexivity|]. cbn [stops_at] in Ht. cbn [scan_hex].
    destruct (hex_digit z); [discriminate|]. rewrite Ht. reflexivity.
  - cbn [is_hex_body forallb] in Hb. apply andb_true_iff in Hb as [Hy Hb].
    cbn [app scan_hex hfold]. rewrite lenN_cons.
    destruct (hex_digit y) as [d|] eqn:Hd.
    + rewrite IH by assumption. f_equal. f_equal. lia.
    + rewrite Hy. rewrite IH by assumption. f_equal. f_equal. lia.
Qed.

(* binary digit strings without underscores, as the fuzzer writes them *)
Lemma scan_bin_stop : forall ds nd v e rest, Forall (fun d => d < 2) ds ->
  stops_at (fun y => (y =? 48) || (y =? 49) || (y =? 95)) rest ->
  nd + lenN ds <= 128 -> v < 2 ^ nd ->
  scan_bin nd v e (map dec_char ds ++ rest) = (nd + lenN ds, horner 2 ds v, e + lenN ds, rest).
Proof.
  induction ds as [|d ds IH]; intros nd v e rest Hd Ht Hnd Hv.
  - cbn [map app horner fold_left]. rewrite lenN_nil, !N.add_0_r.
    destruct rest as [|z t]; [reflexivity|]. cbn [stops_at] in Ht.
    apply orb_false_iff in Ht as [Ht H95]. apply orb_false_iff in Ht as [H48 H49].
    cbn [scan_bin]. rewrite H48, H49, H95. destruct (N.ltb_spec 128 nd); [lia|reflexivity].
  - inversion Hd as [|? ? Hd1 Hd2]; subst. rewrite lenN_cons in *.
    cbn [map app scan_bin]. destruct (N.ltb_spec 128 nd) as [Hc|_]; [lia|].
    assert (Hpow : 2 ^ (nd + 1) = 2 * 2 ^ nd) by (rewrite N.add_1_r, N.pow_succ_r'; reflexivity).
    pose proof (pow2_le_two128 (nd + 1) ltac:(lia)) as Hle.
    rewrite N.shiftl_mul_pow2, N.pow_1_r. rewrite N.mod_small by lia.
    assert (Hc : d = 0 \/ d = 1) by lia. destruct Hc as [->| ->]; cbn [dec_char N.add N.eqb Pos.eqb].
    + rewrite (IH (nd + 1) (v * 2) (e + 1) rest Hd2 Ht ltac:(lia) ltac:(lia)).
      cbn [horner fold_left]. fold (horner 2 ds (v * 2 + 0)). rewrite N.add_0_r.
      replace (nd + 1 + lenN ds) with (nd + (lenN ds + 1)) by lia.
      replace (e + 1 + lenN ds) with (e + (lenN ds + 1)) by lia. reflexivity.
    + pose proof (lor_shiftl_add v 1 1 ltac:(reflexivity)) as Hlor.
      rewrite N.shiftl_mul_pow2, N.pow_1_r in Hlor. rewrite Hlor.
      rewrite (IH (nd + 1) (v * 2 + 1) (e + 1) rest Hd2 Ht ltac:(lia) ltac:(lia)).
      cbn [horner fold_left]. fold (horner 2 ds (v * 2 + 1)).
      replace (nd + 1 + lenN ds) with (nd + (lenN ds + 1)) by lia.
      replace (e + 1 + lenN ds) with (e + (lenN ds + 1)) by lia. reflexivity.
Qed.

(* ========================================================================== *)
(* 3. Numbers                                                                 *)
(* ========================================================================== *)
Lemma sfx_facts sfx : sfx_ok sfx = true ->
  Forall (fun y => is_ident_cont y = true) (sfx_text sfx) /\
  match sfx_text sfx with
  | [] => sfx = None
  | y :: _ => (y = 105 \/ y = 117) /\ exists p, parse_integer_suffix (sfx_text sfx) = Some p
  end.
Proof.
  destruct sfx as [t|]; [|intros _; split; [constructor|reflexivity]].
  destruct t; try discriminate; intros _; (split; [repeat constructor|]);
    (split; [auto|eexists; reflexivity]).
Qed.

Lemma sfx_tail_stops (q : N -> bool) sfx tail : sfx_ok sfx = true -> ends_token tail = true ->
  q 105 = false -> q 117 = false -> (forall y, is_ident_cont y = false -> q y = false) ->
  stops_at q (sfx_text sfx ++ tail).
Proof.
  intros Hs Ht H105 H117 Hq. destruct (sfx_facts sfx Hs) as [_ H].
  destruct (sfx_text sfx) as [|y l].
  - cbn [app]. destruct tail as [|z t]; [exact I|]. cbn [stops_at ends_token] in *.
    apply Hq. now apply negb_true_iff.
  - cbn [app stops_at]. destruct H as [[->| ->] _]; assumption.
Qed.

Lemma firstn_app_exact {A} (a b : list A) : firstn (length a) (a ++ b) = a.
Proof. induction a as [|x a IH]; [reflexivity|]. cbn. now rewrite IH. Qed.

Lemma span_sfx sfxs tail : Forall (fun y => is_ident_cont y = true) sfxs -> ends_token tail = true ->
  span_while is_ident_cont (sfxs ++ tail) = (sfxs, tail).
Proof. intros H1 H2. apply span_while_all; [exact H1|]. now apply ends_token_spec. Qed.

Lemma lex_zero_finish r i v pre sfxs tail :
  r = pre ++ sfxs ++ tail ->
  zero_prefix r (i + 1) = (Some v, i + 1 + lenN pre, i + 1 + lenN pre, sfxs ++ tail) ->
  Forall (fun y => is_ident_cont y = true) sfxs -> ends_token tail = true ->
  let s := lex_zero r i in
  let e2 := i + 1 + lenN pre + lenN sfxs in
  srest s = tail /\
  act s = if (v =? 0) && (e2 =? i + 1) then ATok KNakedDecimal 0%Z None e2
          else if e2 =? i + 1 + lenN pre then ATok KBitInteger (Z.of_N v) None e2
          else suffixed v sfxs i e2.
Proof.
  intros Hr Hz Hs Ht. cbv zeta. unfold lex_zero. rewrite Hz. rewrite span_sfx by assumption.
  cbn [srest act mk_step]. split; [reflexivity|].
  assert (Hslice : slice r (i + 1 + lenN pre - (i + 1)) (i + 1 + lenN pre + lenN sfxs - (i + 1)) = sfxs).
  { unfold slice. replace (i + 1 + lenN pre - (i + 1)) with (lenN pre) by lia.
    replace (i + 1 + lenN pre + lenN sfxs - (i + 1) - lenN pre) with (lenN sfxs) by lia.
    rewrite Hr, skipn_app_exact, to_nat_lenN. apply firstn_app_exact. }
  rewrite Hslice. reflexivity.
Qed.

Lemma suffixed_tok v sfx i e2 y l : sfx_ok sfx = true -> sfx_text sfx = y :: l ->
  exists ty, suffixed v (sfx_text sfx) i e2 = ATok KSuffixedInteger (Z.of_N v) ty e2 /\ sfx <> None.
Proof.
  intros Hs E. destruct (sfx_facts sfx Hs) as [_ H]. rewrite E in H. destruct H as [_ [p Hp]].
  unfold suffixed. rewrite E, Hp. eexists. split; [reflexivity|]. intros ->. discriminate.
Qed.

(* the decimal accumulator after a literal below 2^128, read off [decimal_step] *)
Lemma decimal_acc (f : nat) x body i : in_range 49 57 x = true -> is_dec_body body = true ->
  dec_value (x - 48) body < two128 ->
  forall rest, stops_at (fun y => in_range 48 57 y || (y =? 95)) rest ->
  exists a e1, (let '(a', e', r') := scan_dec a e1 (body ++ rest) in (dov a', dval a', e', r')) =
               (false, dec_value (x - 48) body, i + 1 + lenN body, rest) /\
  forall r, lex_decimal x r i =
    let '(a', e', r1) := scan_dec a e1 r in
    let '(sfx, r2) := span_while is_ident_cont r1 in
    let e2 := e' + lenN sfx in
    {| act := if dov a' then AErr E140 i e2
              else match sfx with
                   | [] => ATok KNakedDecimal (Z.of_N (dval a')) None e2
                   | _ :: _ => suffixed (dval a') sfx i e2
                   end;
       srest := r2; send := e2; spanic := spanic (lex_decimal x r i) |}.
Proof.
  intros Hx Hb HM rest Hrest.
  pose proof (decimal_step f x body [] i Hx Hb eq_refl) as Hs. cbv zeta in Hs. rewrite app_nil_r in Hs.
  destruct Hs as (_ & _ & _ & Ha).
  destruct (N.ltb_spec (dec_value (x - 48) body) two128) as [_|Hc]; [|lia].
  unfold lex_step in Ha. rewrite lex_step_decimal in Ha by assumption. unfold lex_decimal_with in Ha.
  match type of Ha with context [scan_dec_with dec_push ?a0 ?e0 _] => exists a0, e0; set (A0 := a0) in * end.
  pose proof (scan_dec_stop dec_push body A0 (i + 1) [] Hb I) as E0. rewrite app_nil_r in E0. rewrite E0 in Ha.
  cbn [span_while act] in Ha.
  split.
  - unfold scan_dec. rewrite (scan_dec_stop dec_push body A0 (i + 1) rest Hb Hrest).
    destruct (dov (dfold dec_push A0 body)); [discriminate|]. inversion Ha as [Hv].
    apply N2Z.inj in Hv. rewrite Hv. reflexivity.
  - intros r. unfold lex_decimal, lex_decimal_with, scan_dec. fold A0.
    destruct (scan_dec_with dec_push A0 (i + 1) r) as [[a' e'] r1].
    destruct (span_while is_ident_cont r1) as [sfx r2]. reflexivity.
Qed.

Lemma lex_step_zero f r i : lex_step f 48 r i = lex_zero r i.
Proof. reflexivity. Qed.

Lemma num_step f b sfx tail i x r0 :
  body_value b < 2 ^ 128 -> sfx_ok sfx = true -> ends_token tail = true ->
  body_text b ++ sfx_text sfx = x :: r0 ->
  let s := lex_step f x (r0 ++ tail) i in
  srest s = tail /\ exists ty en, act s = ATok (num_kind b sfx) (Z.of_N (body_value b)) ty en.
Proof.
  intros Hv Hs Ht Htext. cbv zeta.
  destruct (sfx_facts sfx Hs) as [Hcont Hhead].
  assert (Hzero : forall pre v, pre <> [] \/ v = 0 ->
    zero_prefix (pre ++ sfx_text sfx ++ tail) (i + 1) =
      (Some v, i + 1 + lenN pre, i + 1 + lenN pre, sfx_text sfx ++ tail) ->
    srest (lex_zero (pre ++ sfx_text sfx ++ tail) i) = tail /\
    exists ty en, act (lex_zero (pre ++ sfx_text sfx ++ tail) i) =
      ATok (match sfx with Some _ => KSuffixedInteger | None => match pre with [] => KNakedDecimal | _ => KBitInteger end end)
           (Z.of_N v) ty en).
  { intros pre v Hpv Hz.
    destruct (lex_zero_finish _ i v pre (sfx_text sfx) tail eq_refl Hz Hcont Ht) as [H1 H2].
    cbv zeta in H1, H2. split; [exact H1|]. rewrite H2.
    destruct (sfx_text sfx) as [|y l] eqn:E.
    - subst sfx. rewrite lenN_nil, N.add_0_r, N.eqb_refl.
      destruct pre as [|p pre].
      + destruct Hpv as [Hpv| ->]; [congruence|]. rewrite lenN_nil, N.add_0_r, ?N.eqb_refl.
        cbn [andb N.eqb]. rewrite ?N.eqb_refl. eauto.
      + replace (i + 1 + lenN (p :: pre) =? i + 1) with false
          by (symmetry; apply N.eqb_neq; rewrite lenN_cons; lia).
        rewrite andb_false_r. eauto.
    - destruct (suffixed_tok v sfx i (i + 1 + lenN pre + lenN (y :: l)) y l Hs E) as (ty & Hsf & Hne).
      rewrite E in Hsf.
      replace (i + 1 + lenN pre + lenN (y :: l) =? i + 1) with false
        by (symmetry; apply N.eqb_neq; rewrite lenN_cons; lia).
      replace (i + 1 + lenN pre + lenN (y :: l) =? i + 1 + lenN pre) with false
        by (symmetry; apply N.eqb_neq; rewrite lenN_cons; lia).
      rewrite andb_false_r, Hsf. destruct sfx; [eauto|congruence]. }
  destruct b as [v|u v|v]; cbn [body_text body_value num_kind] in *.
  - (* decimal *)
    destruct (digits_spec 10 v ltac:(lia) Hv) as (Hval & Hall & d & ds & E & Hd1).
    unfold to_decimal in Htext. rewrite E in Htext, Hall, Hval. cbn [map app] in Htext.
    pose proof (Forall_inv Hall) as Hd. pose proof (Forall_inv_tail Hall) as Hds. cbv beta in Hd.
    inversion Htext as [[Hx Hr0]]. clear Htext.
    destruct (N.eq_dec v 0) as [->|Hv0].
    + (* the literal 0 *)
      assert (Hd0 : d = 0 /\ ds = []).
      { rewrite digits_zero in E by lia. now inversion E. }
      destruct Hd0 as [-> ->]. cbn [map app dec_char N.add].
      rewrite lex_step_zero. change (sfx_text sfx ++ tail) with ([] ++ sfx_text sfx ++ tail).
      destruct (Hzero [] 0 (or_intror eq_refl)) as [H1 (ty & en & H2)].
      { rewrite lenN_nil, N.add_0_r. cbn [app]. unfold zero_prefix.
        destruct (sfx_text sfx ++ tail) as [|y t] eqn:E2; [reflexivity|].
        assert (Hy : (y =? 120) = false /\ (y =? 98) = false).
        { pose proof (sfx_tail_stops (fun y => (y =? 120) || (y =? 98)) sfx tail Hs Ht eq_refl eq_refl) as Hst.
          rewrite E2 in Hst. cbn [stops_at] in Hst. apply orb_false_iff. apply Hst.
          intros z Hz. apply orb_false_iff. split; apply N.eqb_neq; intros ->; discriminate. }
        destruct Hy as [-> ->]. reflexivity. }
      split; [exact H1|]. destruct sfx; eauto.
    + (* 1-9 followed by digits *)
      specialize (Hd1 ltac:(lia)).
      destruct (dec_digit_char d Hd) as [Hdd Hdr].
      assert (Hx49 : in_range 49 57 (dec_char d) = true) by (unfold dec_char, in_range; b2p; lia).
      assert (Hbody : is_dec_body (map dec_char ds) = true) by now apply is_dec_body_chars.
      assert (HM : dec_value (dec_char d - 48) (map dec_char ds) = v).
      { rewrite dec_value_chars by assumption. unfold dec_char. replace (48 + d - 48) with d by lia.
        rewrite <- Hval. cbn [horner fold_left]. reflexivity. }
      assert (Hstop : stops_at (fun y => in_range 48 57 y || (y =? 95)) (sfx_text sfx ++ tail)).
      { apply sfx_tail_stops; try assumption; try reflexivity.
        intros y Hy. unfold is_ident_cont in Hy. apply orb_false_iff in Hy as [Hy H95].
        apply orb_false_iff in Hy as [_ Hy]. now rewrite Hy, H95. }
      destruct (decimal_acc f (dec_char d) (map dec_char ds) i Hx49 Hbody
                  ltac:(rewrite HM; exact Hv) _ Hstop) as (a & e1 & Hscan & Hlex).
      unfold lex_step. rewrite lex_step_decimal by assumption.
      change (lex_decimal_with dec_push) with lex_decimal. rewrite <- app_assoc, Hlex.
      destruct (scan_dec a e1 (map dec_char ds ++ sfx_text sfx ++ tail)) as [[a' e'] r'].
      inversion Hscan as [[Hov Hvl He Hr]]. rewrite span_sfx by assumption.
      cbv zeta. cbn [srest act]. split; [reflexivity|]. rewrite Hov, Hvl, HM.
      destruct (sfx_text sfx) as [|y l] eqn:E3.
      * subst sfx. cbn [num_kind]. eauto.
      * destruct (suffixed_tok v sfx i (i + 1 + lenN (map dec_char ds) + lenN (y :: l)) y l Hs E3) as (ty & Hsf & Hne).
        rewrite E3 in Hsf. rewrite Hsf. destruct sfx; [eauto|congruence].
  - (* hexadecimal *)
    destruct (digits_spec 16 v ltac:(lia) Hv) as (Hval & Hall & d & ds & E & _).
    inversion Htext as [[Hx Hr0]]. clear Htext. cbn [app]. rewrite <- app_assoc.
    rewrite lex_step_zero. change (120 :: to_hex u v ++ sfx_text sfx ++ tail) with ((120 :: to_hex u v) ++ sfx_text sfx ++ tail).
    assert (Hne : 120 :: to_hex u v <> [] \/ v = 0) by (left; discriminate).
    destruct (Hzero (120 :: to_hex u v) v Hne) as [H1 (ty & en & H2)].
    { cbn [app]. unfold zero_prefix. rewrite N.eqb_refl. unfold to_hex.
      rewrite scan_hex_stop.
      - assert (Hd : d < 16) by (rewrite E in Hall; exact (Forall_inv Hall)).
        assert (Hhas : has_hex_digit (map (hex_char u) (digits 16 v)) = true).
        { rewrite E. cbn [map has_hex_digit existsb]. now rewrite (hex_digit_char u d Hd). }
        rewrite hfold_digits, Hhas. cbn [hdigits orb].
        pose proof (hfold_inv (map (hex_char u) (digits 16 v)) {| hval := 0; hdigits := false; hov := false |} 0) as Hinv.
        rewrite (hex_value_chars u _ Hall), Hval in Hinv.
        destruct Hinv as [H0 H1].
        { split; [|discriminate]. intros _. split; [reflexivity|]. unfold two128. lia. }
        destruct (hov _).
        + specialize (H1 eq_refl). rewrite two128_pow in H1. lia.
        + destruct (H0 eq_refl) as [-> _]. rewrite lenN_cons.
          replace (i + 1 + (lenN (map (hex_char u) (digits 16 v)) + 1))
            with (i + 1 + 1 + lenN (map (hex_char u) (digits 16 v))) by lia. reflexivity.
      - now apply is_hex_body_chars.
      - apply sfx_tail_stops; try assumption; try reflexivity.
        intros y Hy. destruct (not_cont_hex y Hy) as [-> ->]. reflexivity. }
    cbn [app] in H1, H2. split; [exact H1|]. eauto.
  - (* binary *)
    destruct (digits_spec 2 v ltac:(lia) Hv) as (Hval & Hall & d & ds & E & _).
    inversion Htext as [[Hx Hr0]]. clear Htext. cbn [app]. rewrite <- app_assoc.
    rewrite lex_step_zero. change (98 :: to_binary v ++ sfx_text sfx ++ tail) with ((98 :: to_binary v) ++ sfx_text sfx ++ tail).
    assert (Hne : 98 :: to_binary v <> [] \/ v = 0) by (left; discriminate).
    destruct (Hzero (98 :: to_binary v) v Hne) as [H1 (ty & en & H2)].
    { cbn [app]. unfold zero_prefix. change (98 =? 120) with false. cbn iota. rewrite N.eqb_refl. unfold to_binary.
      assert (Hlen : lenN (digits 2 v) <= 128).
      { pose proof (digits_length 2 v 127 ltac:(lia) Hv) as Hl. unfold lenN. lia. }
      assert (Hpos : 0 < lenN (digits 2 v)) by (rewrite E, lenN_cons; lia).
      rewrite scan_bin_stop; [|exact Hall| |lia|reflexivity].
      - rewrite Hval, N.add_0_l.
        destruct (N.ltb_spec 128 (lenN (digits 2 v))) as [Hc|_]; [lia|].
        destruct (N.ltb_spec 0 (lenN (digits 2 v))) as [_|Hc]; [|lia].
        rewrite lenN_cons. unfold lenN at 3 4. rewrite map_length. fold (lenN (digits 2 v)).
        replace (i + 1 + (lenN (digits 2 v) + 1)) with (i + 1 + 1 + lenN (digits 2 v)) by lia. reflexivity.
      - apply sfx_tail_stops; try assumption; try reflexivity.
        intros y Hy. destruct (not_cont_bin y Hy) as (-> & -> & ->). reflexivity. }
    cbn [app] in H1, H2. split; [exact H1|]. eauto.
Qed.

(* ========================================================================== *)
(* 4. Quoted literals                                                         *)
(* ========================================================================== *)
(* what the literal loop has pushed and recorded so far *)
Definition lit_same (s s' : lit) (k : N) : Prop :=
  ferr s' = ferr s /\ lclosed s' = lclosed s /\ nb s' = nb s + k.

Lemma lit_same_refl s : lit_same s s 0.
Proof. unfold lit_same. repeat split; lia. Qed.
Lemma lit_same_trans s1 s2 s3 k1 k2 : lit_same s1 s2 k1 -> lit_same s2 s3 k2 -> lit_same s1 s3 (k1 + k2).
Proof. unfold lit_same. intros (A1 & B1 & C1) (A2 & B2 & C2). repeat split; try congruence. lia. Qed.
Lemma lit_same_push s v : lit_same s (lit_push v s) 1.
Proof. unfold lit_same, lit_push. cbn. repeat split. Qed.

(* [P] holds of a scan that continues behind [seg] *)
Definition scan_past (q : N) (au : bool) (seg : list N) (k : N) : Prop :=
  forall fuel s e rest, (length (seg ++ rest) < fuel)%nat ->
  exists fuel' s' e', (length rest < fuel')%nat /\ lit_same s s' k /\
    scan_lit fuel q au s e (seg ++ rest) = scan_lit fuel' q au s' e' rest.

Lemma scan_past_nil q au : scan_past q au [] 0.
Proof. intros fuel s e rest Hf. exists fuel, s, e. repeat split; [exact Hf|lia]. Qed.

Lemma scan_past_app q au seg1 seg2 k1 k2 :
  scan_past q au seg1 k1 -> scan_past q au seg2 k2 -> scan_past q au (seg1 ++ seg2) (k1 + k2).
Proof.
  intros H1 H2 fuel s e rest Hf. rewrite <- app_assoc in *.
  destruct (H1 fuel s e (seg2 ++ rest) Hf) as (f1 & s1 & e1 & Hf1 & Hs1 & E1).
  destruct (H2 f1 s1 e1 rest Hf1) as (f2 & s2 & e2 & Hf2 & Hs2 & E2).
  exists f2, s2, e2. split; [exact Hf2|]. split; [eapply lit_same_trans; eassumption|congruence].
Qed.

(* a byte that is pushed as it stands *)
Lemma scan_past_plain q au x : (q = 39 \/ q = 34) ->
  ((Fuzzer.in_range 32 126 x && negb (x =? 92) && negb (x =? 39) && negb (x =? 34)) || (128 <=? x)) = true ->
  scan_past q au [x] 1.
Proof.
  intros Hq Hx fuel s e rest Hf. destruct fuel as [|f]; [cbn in Hf; lia|].
  cbn [app length] in Hf. exists f, (lit_push x s), (e + 1).
  split; [lia|]. split; [apply lit_same_push|]. cbn [app scan_lit].
  assert (H10 : (x =? 10) = false) by (unfold Fuzzer.in_range in Hx; b2p; lia).
  assert (H92 : (x =? 92) = false) by (unfold Fuzzer.in_range in Hx; b2p; lia).
  assert (Hxq : (x =? q) = false) by (unfold Fuzzer.in_range in Hx; destruct Hq; subst q; b2p; lia).
  rewrite H10, H92, Hxq.
  destruct (N.eqb_spec x 32) as [->|H32]; [reflexivity|].
  destruct (is_ascii_graphic x) eqn:Hg; [reflexivity|].
  destruct (N.ltb_spec x 128) as [Hlt|_]; [|reflexivity].
  exfalso. unfold is_ascii_graphic, in_range, Fuzzer.in_range in *. b2p. lia.
Qed.

Lemma scan_past_high q au bytes : (q = 39 \/ q = 34) -> Forall (fun b => 128 <= b) bytes ->
  scan_past q au bytes (lenN bytes).
Proof.
  intros Hq. induction 1 as [|b bytes Hb _ IH]; [apply scan_past_nil|].
  change (b :: bytes) with ([b] ++ bytes). rewrite lenN_app. change (lenN [b]) with 1.
  apply scan_past_app; [|exact IH]. apply scan_past_plain; [exact Hq|]. b2p. right. exact Hb.
Qed.

(* an escape that pushes one byte or nothing *)
Lemma scan_past_escape q au seg o k : (forall soe rest, scan_escape au soe (seg ++ rest) = (o, soe + 1 + lenN seg, rest)) ->
  seg <> [] -> (forall s, lit_same s (lit_esc o s) k) -> scan_past q au (92 :: seg) k.
Proof.
  intros Hesc Hne Ho fuel s e rest Hf. destruct fuel as [|f]; [cbn in Hf; lia|].
  cbn [app length] in Hf. rewrite app_length in Hf.
  exists f, (lit_esc o s), (e + 1 + lenN seg). split; [destruct seg; [congruence|cbn [length] in Hf; lia]|].
  split; [apply Ho|]. cbn [app scan_lit]. change (92 =? 10) with false. change (92 =? 92) with true. cbn iota.
  rewrite Hesc. reflexivity.
Qed.

Lemma hex_upper_digit h : is_hex_upper h = true -> exists d, hex_digit h = Some d.
Proof.
  unfold is_hex_upper, hex_digit. intros H. apply orb_true_iff in H as [H|H].
  - destruct (LexDelta.in_range 65 70 h); [eauto|]. destruct (LexDelta.in_range 97 102 h); [eauto|].
    change (LexDelta.in_range 48 57 h) with (Fuzzer.in_range 48 57 h). rewrite H. eauto.
  - change (LexDelta.in_range 65 70 h) with (Fuzzer.in_range 65 70 h). rewrite H. eauto.
Qed.

Lemma hex_lower_digit h : is_hex_lower h = true -> hex_digit h = Some (hex_digit_val h) /\ hex_digit_val h < 16.
Proof.
  unfold is_hex_lower. intros H.
  assert (Hc : In h (str "0123456789abcdef")).
  { unfold Fuzzer.in_range in H. cbn. b2p. lia. }
  cbn in Hc. repeat (destruct Hc as [<-|Hc]; [split; reflexivity|]). contradiction.
Qed.

(* the digits of \u{...}: at most 6, so the u32 accumulator does not wrap *)
Lemma scan_udigits_hex : forall ds sod cu e rest, forallb is_hex_lower ds = true ->
  horner 16 (map hex_digit_val ds) cu < two32 ->
  scan_udigits sod cu e (ds ++ 125 :: rest) =
    ((if sod <? e + lenN ds then e + lenN ds - sod else 0), horner 16 (map hex_digit_val ds) cu,
     e + lenN ds + 1, rest).
Proof.
  induction ds as [|h ds IH]; intros sod cu e rest Hall Hlt.
  - cbn [app scan_udigits map horner fold_left]. change (hex_digit 125) with (@None N).
    change (125 =? 125) with true. cbn iota. rewrite lenN_nil, N.add_0_r. reflexivity.
  - cbn [forallb] in Hall. apply andb_true_iff in Hall as [Hh Hall].
    destruct (hex_lower_digit h Hh) as [Hd Hd16]. cbn [app scan_udigits map]. rewrite Hd.
    cbn [map horner fold_left] in *. fold (horner 16 (map hex_digit_val ds) (cu * 16 + hex_digit_val h)) in *.
    assert (Hmono : forall l a, a <= horner 16 l a).
    { induction l as [|y l IHl]; intros a; cbn [horner fold_left]; [lia|].
      fold (horner 16 l (a * 16 + y)). specialize (IHl (a * 16 + y)). lia. }
    pose proof (Hmono (map hex_digit_val ds) (cu * 16 + hex_digit_val h)) as Hm.
    assert (Hsh : N.lor (N.shiftl cu 4 mod two32) (hex_digit_val h) = cu * 16 + hex_digit_val h).
    { rewrite N.shiftl_mul_pow2. change (2 ^ 4) with 16. rewrite N.mod_small by (unfold two32 in *; lia).
      apply lor_mul16. exact Hd16. }
    rewrite Hsh, IH by assumption. rewrite lenN_cons.
    replace (e + 1 + lenN ds) with (e + (lenN ds + 1)) by lia. reflexivity.
Qed.

Lemma scan_past_item q au i0 : (q = 39 \/ q = 34) -> fitem_ok i0 = true ->
  (au = false -> match i0 with IUni _ => False | _ => True end) ->
  exists k, scan_past q au (encode (render i0)) k /\
            (citem_ok i0 = true -> k = 1).
Proof.
  intros Hq Hok Hau. destruct i0 as [c|c b|h1 h2|ds]; cbn [fitem_ok render] in *.
  - (* a character standing for itself *)
    apply orb_true_iff in Hok as [Hok|Hok].
    + exists 1. split; [|reflexivity]. rewrite encode_ascii.
      * apply scan_past_plain; [exact Hq|]. now rewrite Hok.
      * constructor; [|constructor]. unfold Fuzzer.in_range in Hok. b2p. lia.
    + apply andb_true_iff in Hok as [H128 _]. apply N.leb_le in H128.
      exists (lenN (utf8 c)). destruct (utf8_high c H128) as [Hhigh _].
      split.
      * cbn [encode flat_map]. rewrite app_nil_r. now apply scan_past_high.
      * unfold citem_ok. cbn [fitem_ok]. intros H. apply andb_true_iff in H as [_ H]. apply N.ltb_lt in H. lia.
  - (* simple escapes *)
    exists 1. split; [|reflexivity]. unfold simple_escapes in Hok. cbn [existsb fst snd] in Hok.
    assert (Hc : (c, b) = (116, 9) \/ (c, b) = (114, 13) \/ (c, b) = (110, 10) \/ (c, b) = (39, 39) \/
                 (c, b) = (34, 34) \/ (c, b) = (92, 92)).
    { b2p. destruct Hok as [[-> ->]|[[-> ->]|[[-> ->]|[[-> ->]|[[-> ->]|[[-> ->]|Hf]]]]]]; auto 7. discriminate. }
    rewrite encode_ascii.
    2:{ repeat (destruct Hc as [Hc|Hc]; [inversion Hc; subst; repeat constructor; lia|]).
        inversion Hc; subst; repeat constructor; lia. }
    apply (scan_past_escape q au [c] (EPush b) 1); [|discriminate|intros s; apply lit_same_push].
    intros soe rest. change (lenN [c]) with 1. replace (soe + 1 + 1) with (soe + 2) by lia.
    unfold scan_escape. cbn [app].
    repeat (destruct Hc as [Hc|Hc]; [inversion Hc; subst; reflexivity|]). inversion Hc; subst; reflexivity.
  - (* \xHH *)
    apply andb_true_iff in Hok as [H1 H2].
    destruct (hex_upper_digit h1 H1) as [d1 Hd1]. destruct (hex_upper_digit h2 H2) as [d2 Hd2].
    exists 1. split; [|reflexivity]. rewrite encode_ascii.
    2:{ unfold is_hex_upper, Fuzzer.in_range in H1, H2. repeat constructor; b2p; lia. }
    apply (scan_past_escape q au [120; h1; h2] (EPush (N.lor (N.shiftl d1 4 mod 256) d2)) 1);
      [|discriminate|intros s; apply lit_same_push].
    intros soe rest. unfold scan_escape. cbn [app]. change (assoc_N 120 simple_escape_table) with (@None N).
    change (120 =? 120) with true. cbn iota. rewrite Hd1, Hd2. f_equal. f_equal. rewrite !lenN_cons, lenN_nil. lia.
  - (* \u{...} *)
    destruct au; [|exfalso; now apply Hau].
    apply andb_true_iff in Hok as [Hok Hsc]. apply andb_true_iff in Hok as [Hok H6].
    apply andb_true_iff in Hok as [Hall H1]. apply N.leb_le in H1, H6. rewrite flen_eq in H1, H6.
    exists 0. split; [|unfold citem_ok; cbn; now rewrite andb_false_r].
    assert (Hasc : Forall (fun c => c < 128) (92 :: 117 :: 123 :: ds ++ [125])).
    { repeat (constructor; [lia|]). apply Forall_app. split; [|repeat constructor; lia].
      apply Forall_forall. intros x Hx. rewrite forallb_forall in Hall. specialize (Hall x Hx).
      unfold is_hex_lower, Fuzzer.in_range in Hall. b2p. lia. }
    rewrite encode_ascii by exact Hasc.
    assert (Hval : hexval ds < two32).
    { unfold scalar in Hsc. unfold two32. b2p. lia. }
    apply (scan_past_escape q true (117 :: 123 :: ds ++ [125]) ENone 0); [|discriminate|intros s; apply lit_same_refl].
    intros soe rest. unfold scan_escape. cbn [app]. change (assoc_N 117 simple_escape_table) with (@None N).
    change (117 =? 120) with false. change (true && (117 =? 117)) with true. cbn iota.
    change (123 =? 123) with true. cbn iota. rewrite <- app_assoc. cbn [app].
    rewrite scan_udigits_hex by assumption. fold (hexval ds).
    destruct (N.ltb_spec (soe + 2 + 1) (soe + 2 + 1 + lenN ds)) as [_|Hc]; [|lia].
    replace (soe + 2 + 1 + lenN ds - (soe + 2 + 1)) with (lenN ds) by lia.
    destruct (N.leb_spec 1 (lenN ds)) as [_|Hc]; [|lia]. destruct (N.leb_spec (lenN ds) 6) as [_|Hc]; [|lia].
    replace (is_scalar_value (hexval ds)) with true.
    2:{ symmetry. unfold scalar in Hsc. unfold is_scalar_value. b2p. lia. }
    cbn [andb]. f_equal. f_equal. rewrite !lenN_cons, lenN_app, lenN_cons, lenN_nil. lia.
Qed.

Lemma scan_past_items q : (q = 39 \/ q = 34) -> forall items, forallb fitem_ok items = true ->
  exists k, scan_past q true (encode (renders items)) k.
Proof.
  intros Hq. induction items as [|i0 items IH]; intros Hall; [exists 0; apply scan_past_nil|].
  cbn [forallb] in Hall. apply andb_true_iff in Hall as [Hi Hall].
  destruct (scan_past_item q true i0 Hq Hi ltac:(discriminate)) as (k1 & H1 & _).
  destruct (IH Hall) as (k2 & H2). exists (k1 + k2).
  unfold LexAlphaProofs.renders. cbn [flat_map]. rewrite encode_app. now apply scan_past_app.
Qed.

(* a closed literal: the loop ends at the closing quote *)
Lemma lex_literal_closed f is_char q body k tail i :
  (q = 39 \/ q = 34) -> scan_past q (negb is_char) body k -> (length (body ++ q :: tail) < f)%nat ->
  (is_char = true -> k = 1) ->
  let s := lex_literal f is_char q (body ++ q :: tail) i in
  srest s = tail /\ exists v en, act s = ATok (if is_char then KCharLiteral else KStringLiteral) v None en.
Proof.
  intros Hq Hbody Hf Hk. cbv zeta. unfold lex_literal.
  destruct (Hbody f lit0 (i + 1) (q :: tail) Hf) as (f' & s' & e' & Hf' & (Hferr & Hcl & Hnb) & ->).
  destruct f' as [|f']; [cbn in Hf'; lia|]. cbn [scan_lit].
  assert (H10 : (q =? 10) = false) by (destruct Hq; subst; reflexivity).
  assert (H92 : (q =? 92) = false) by (destruct Hq; subst; reflexivity).
  rewrite H10, H92, N.eqb_refl. cbn [mk_step srest act]. split; [reflexivity|].
  unfold finish_lit. cbn [lit_close lclosed ferr nb lastb]. rewrite Hferr. cbn [lit0 ferr].
  destruct is_char; [|eauto]. rewrite Hnb, (Hk eq_refl). cbn [lit0 nb]. cbn. eauto.
Qed.

(* ========================================================================== *)
(* 5. First bytes of atoms                                                    *)
(* ========================================================================== *)
Lemma punct_cases c : is_punct c = true -> In c punct_chars.
Proof.
  unfold is_punct. intros H. apply existsb_exists in H as (y & Hin & Hy). apply N.eqb_eq in Hy. now subst.
Qed.

Lemma atom_first_byte a : atom_ok a = true ->
  exists x t, spell a = x :: t /\ x < 128 /\ is_ident_cont x = wordy a.
Proof.
  intros Hok. destruct (atom_first a Hok) as (x & t & E & Hw). exists x, t. split; [exact E|]. split; [|exact Hw].
  destruct a as [c|cr|c|w|b sfx|i0|items|body]; cbn [spell atom_ok] in *.
  - inversion E; subst. b2p. lia.
  - destruct cr; inversion E; subst; lia.
  - inversion E; subst. apply punct_cases in Hok. cbn in Hok.
    repeat (destruct Hok as [<-|Hok]; [lia|]). contradiction.
  - apply is_ident_cont_ascii. rewrite Hw. reflexivity.
  - apply is_ident_cont_ascii. rewrite Hw. reflexivity.
  - inversion E; subst; lia.
  - inversion E; subst; lia.
  - inversion E; subst; lia.
Qed.

Lemma flatb_head a A : atom_ok a = true ->
  exists x t, spell a = x :: t /\ x < 128 /\ is_ident_cont x = wordy a /\
              flatb (a :: A) = x :: encode t ++ flatb A.
Proof.
  intros Hok. destruct (atom_first_byte a Hok) as (x & t & E & Hx & Hw). exists x, t.
  repeat split; try assumption. rewrite flatb_cons, E. cbn [encode flat_map]. fold (encode t).
  unfold utf8. destruct (N.ltb_spec x 128); [reflexivity|lia].
Qed.

(* what follows an atom cannot continue an identifier unless it is wordy *)
Lemma ends_token_flatb A : WF A -> first_wordy A = false -> ends_token (flatb A) = true.
Proof.
  intros HW Hf. destruct A as [|a A]; [reflexivity|].
  destruct (flatb_head a A (WF_head _ _ HW)) as (x & t & _ & _ & Hw & ->).
  cbn [ends_token first_wordy] in *. now rewrite Hw, Hf.
Qed.

Lemma WF_next_not_wordy a A : WF (a :: A) -> wordy a = true -> first_wordy A = false.
Proof.
  intros [_ Hadj] Hw. cbn [adj_ok] in Hadj. apply andb_true_iff in Hadj as [H _].
  rewrite Hw in H. cbn [andb] in H. now apply negb_true_iff in H.
Qed.

(* an atom that starts with a punctuation byte other than the slash IS that byte *)
Lemma first_punct a A x t : WF (a :: A) -> flatb (a :: A) = x :: t -> is_punct x = true -> x <> 47 ->
  a = APunct x /\ t = flatb A.
Proof.
  intros HW E Hp H47. pose proof (WF_head _ _ HW) as Hok.
  destruct (flatb_head a A Hok) as (x' & t' & Es & Hx & Hw & Eb). rewrite Eb in E. inversion E; subst x' t.
  apply punct_cases in Hp.
  destruct a as [c|cr|c|w|b sfx|i0|items|body]; cbn [spell atom_ok wordy] in *.
  - exfalso. inversion Es; subst. cbn in Hp. b2p.
    destruct Hok; subst; repeat (destruct Hp as [Hp|Hp]; [discriminate|]); contradiction.
  - exfalso. destruct cr; inversion Es; subst; cbn in Hp;
      repeat (destruct Hp as [Hp|Hp]; [discriminate|]); contradiction.
  - inversion Es; subst. split; reflexivity.
  - exfalso. cbn in Hp. repeat (destruct Hp as [<-|Hp]; [discriminate|]). contradiction.
  - exfalso. cbn in Hp. repeat (destruct Hp as [<-|Hp]; [discriminate|]). contradiction.
  - exfalso. inversion Es; subst. cbn in Hp. repeat (destruct Hp as [Hp|Hp]; [discriminate|]). contradiction.
  - exfalso. inversion Es; subst. cbn in Hp. repeat (destruct Hp as [Hp|Hp]; [discriminate|]). contradiction.
  - exfalso. inversion Es; subst. congruence.
Qed.

(* ========================================================================== *)
(* 6. Comments swallow whole atoms                                            *)
(* ========================================================================== *)
Lemma item_nonl i0 : fitem_ok i0 = true -> nonl (encode (render i0)).
Proof.
  intros Hok.
  assert (Hasc : forall l, Forall (fun c => c < 128 /\ c <> 10) l -> nonl (encode l)).
  { intros l Hl. rewrite encode_ascii; [|eapply Forall_impl; [|exact Hl]; cbn; tauto].
    eapply Forall_impl; [|exact Hl]. cbn. tauto. }
  destruct i0 as [c|c b|h1 h2|ds]; cbn [fitem_ok render] in *.
  - apply orb_true_iff in Hok as [Hok|Hok].
    + apply Hasc. constructor; [|constructor]. unfold Fuzzer.in_range in Hok. b2p. lia.
    + apply andb_true_iff in Hok as [H128 _]. apply N.leb_le in H128. cbn [encode flat_map]. rewrite app_nil_r.
      destruct (utf8_high c H128) as [Hh _]. eapply Forall_impl; [|exact Hh]. cbn. lia.
  - apply Hasc. unfold simple_escapes in Hok. cbn [existsb fst snd] in Hok.
    repeat constructor; try lia; b2p; lia.
  - apply Hasc. apply andb_true_iff in Hok as [H1 H2]. unfold is_hex_upper, Fuzzer.in_range in *.
    repeat constructor; try lia; b2p; lia.
  - apply Hasc. repeat apply andb_true_iff in Hok as [Hok ?]. repeat (constructor; [lia|]).
    apply Forall_app. split; [|repeat constructor; lia].
    apply Forall_forall. intros x Hx. rewrite forallb_forall in Hok. specialize (Hok x Hx).
    unfold is_hex_lower, Fuzzer.in_range in Hok. b2p. lia.
Qed.

Lemma items_nonl items : forallb fitem_ok items = true -> nonl (encode (renders items)).
Proof.
  induction items as [|i0 items IH]; intros H; [constructor|]. cbn [forallb] in H.
  apply andb_true_iff in H as [Hi H]. unfold LexAlphaProofs.renders. cbn [flat_map]. rewrite encode_app.
  apply nonl_app; [now apply item_nonl|now apply IH].
Qed.

Lemma atom_nonl a : atom_ok a = true -> (forall cr, a <> ANl cr) -> nonl (encode (spell a)).
Proof.
  intros Hok Hnl.
  assert (Hcont : forall l, forallb fcont l = true -> nonl (encode l)).
  { intros l Hl. rewrite encode_ascii by now apply cont_ascii. apply Forall_forall. intros x Hx.
    rewrite forallb_forall in Hl. specialize (Hl x Hx). intros ->. discriminate. }
  destruct a as [c|cr|c|w|b sfx|i0|items|body]; cbn [spell atom_ok] in *.
  - b2p. destruct Hok; subst; repeat constructor; lia.
  - exfalso. now apply (Hnl cr).
  - apply punct_cases in Hok. cbn in Hok.
    repeat (destruct Hok as [<-|Hok]; [repeat constructor; lia|]). contradiction.
  - apply Hcont. apply andb_true_iff in Hok. tauto.
  - apply Hcont. apply (wordy_spell_cont (ANum b sfx) Hok eq_refl).
  - change (39 :: render i0 ++ [39]) with ([39] ++ render i0 ++ [39]). rewrite !encode_app.
    unfold citem_ok in Hok. apply andb_true_iff in Hok as [Hok _].
    apply nonl_app; [repeat constructor; lia|]. apply nonl_app; [now apply item_nonl|repeat constructor; lia].
  - change (34 :: renders items ++ [34]) with ([34] ++ renders items ++ [34]). rewrite !encode_app.
    apply nonl_app; [repeat constructor; lia|]. apply nonl_app; [now apply items_nonl|repeat constructor; lia].
  - change (47 :: 47 :: body) with ([47; 47] ++ body). rewrite encode_app.
    apply nonl_app; [repeat constructor; lia|].
    induction body as [|c body IH]; [constructor|]. cbn [forallb] in Hok. apply andb_true_iff in Hok as [Hc Hok].
    cbn [encode flat_map]. apply nonl_app; [|now apply IH]. apply andb_true_iff in Hc as [Hc _].
    apply negb_true_iff, N.eqb_neq in Hc. unfold utf8.
    destruct (N.ltb_spec c 128); [repeat constructor; assumption|].
    destruct (utf8_high c ltac:(lia)) as [Hh _]. unfold utf8 in Hh. destruct (N.ltb_spec c 128); [lia|].
    eapply Forall_impl; [|exact Hh]. cbn. lia.
Qed.

Definition not10 (z : N) : bool := negb (z =? 10).

(* skipping to the end of the line ends in front of a line-break atom *)
Lemma skip_line : forall A p, WF A -> nonl p ->
  exists t A', span_while (fun z => negb (z =? 10)) (p ++ flatb A) = (t, flatb A') /\ WF A'.
Proof.
  assert (Hspan : forall p tail, nonl p -> span_while (fun z => negb (z =? 10)) (p ++ 10 :: tail) = (p, 10 :: tail)).
  { intros p tail Hp. apply span_while_all; [|reflexivity].
    eapply Forall_impl; [|exact Hp]. cbn. intros z Hz. now apply negb_true_iff, N.eqb_neq. }
  induction A as [|a A IH]; intros p HW Hp.
  - exists p, []. split; [|apply WF_nil]. rewrite flatb_nil.
    apply span_while_all; [|exact I]. eapply Forall_impl; [|exact Hp]. cbn. intros z Hz. now apply negb_true_iff, N.eqb_neq.
  - pose proof (WF_tail _ _ HW) as HWt.
    assert (HWnl : WF (ANl false :: A)).
    { destruct HWt as [H1 H2]. split; cbn [forallb adj_ok atom_ok wordy andb negb]; assumption. }
    destruct a as [c|cr|c|w|b sfx|i0|items|body];
      try (rewrite flatb_cons, app_assoc; apply IH; [exact HWt|];
           apply nonl_app; [exact Hp|]; apply atom_nonl; [exact (WF_head _ _ HW)|discriminate]).
    rewrite flatb_cons. destruct cr; cbn [spell encode flat_map utf8 N.ltb N.compare Pos.compare Pos.compare_cont app].
    + exists (p ++ [13]), (ANl false :: A). split; [|exact HWnl].
      change (p ++ 13 :: 10 :: flatb A) with (p ++ [13] ++ 10 :: flatb A). rewrite app_assoc.
      change (flatb (ANl false :: A)) with (10 :: flatb A). apply Hspan.
      apply nonl_app; [exact Hp|repeat constructor; lia].
    + exists p, (ANl false :: A). split; [|exact HWnl].
      change (flatb (ANl false :: A)) with (10 :: flatb A). now apply Hspan.
Qed.

(* ========================================================================== *)
(* 7. One iteration of the lexer on a well-formed atom sequence               *)
(* ========================================================================== *)
Lemma assoc_N_key {A} (k : N) (t : list (N * A)) v : assoc_N k t = Some v -> In k (map fst t).
Proof.
  induction t as [|[k' v'] t IH]; cbn [assoc_N map fst]; [discriminate|].
  destruct (N.eqb_spec k k'); intros H; [left; congruence|right; auto].
Qed.

Lemma punct_keys : map fst punct_table = str "(){}[]<>|&^!+*%:;.,=-".
Proof. reflexivity. Qed.

Lemma lex_step_ident f x r i : is_ident_start x = true -> lex_step f x r i = lex_ident x r i.
Proof.
  intros Hx. unfold lex_step, lex_step_with.
  destruct (N.eqb_spec x 32) as [->|_]; [discriminate|]. destruct (N.eqb_spec x 9) as [->|_]; [discriminate|].
  destruct (N.eqb_spec x 13) as [->|_]; [discriminate|]. cbn [orb].
  destruct (N.eqb_spec x 10) as [->|_]; [discriminate|]. destruct (N.eqb_spec x 47) as [->|_]; [discriminate|].
  destruct (assoc_N x punct_table) as [[seconds k1]|] eqn:Hp.
  - exfalso. apply assoc_N_key in Hp. rewrite punct_keys in Hp. cbn in Hp.
    repeat (destruct Hp as [<-|Hp]; [discriminate|]). contradiction.
  - now rewrite Hx.
Qed.

(* punctuation other than the slash *)
Lemma lex_step_punct f c r i : is_punct c = true -> c <> 47 ->
  exists seconds k1,
    (forall y k2, assoc_N y seconds = Some k2 -> is_punct y = true /\ y <> 47) /\
    lex_step f c r i =
      match r with
      | y :: r' => match assoc_N y seconds with
                   | Some k2 => mk_step (ATok k2 0%Z None (i + 1 + 1)) r' (i + 1 + 1)
                   | None => mk_step (ATok k1 0%Z None (i + 1)) r (i + 1)
                   end
      | [] => mk_step (ATok k1 0%Z None (i + 1)) r (i + 1)
      end.
Proof.
  intros Hp H47. apply punct_cases in Hp. cbn in Hp.
  assert (Hsec : forall (seconds : list (N * tkind)),
            Forall (fun p => is_punct (fst p) = true /\ fst p <> 47) seconds ->
            forall y k2, assoc_N y seconds = Some k2 -> is_punct y = true /\ y <> 47).
  { intros seconds HF y k2 H. apply assoc_N_key in H. apply in_map_iff in H as ([y' k'] & <- & Hin).
    rewrite Forall_forall in HF. apply (HF _ Hin). }
  repeat (destruct Hp as [<-|Hp];
          [try congruence; eexists _, _; (split; [apply Hsec|reflexivity]);
           repeat constructor; discriminate|]).
  contradiction.
Qed.

Lemma lex_step_comment f r i :
  lex_step f 47 (47 :: r) i =
  let '(t, r'') := span_while (fun z => negb (z =? 10)) r in mk_step ASkip r'' (i + 1 + 1 + lenN t).
Proof. reflexivity. Qed.

Definition act_fine (a : action) : Prop :=
  match a with
  | AErr _ _ _ | AFuel => False
  | _ => True
  end.

(* MAIN STEP LEMMA: no error, and what is left is again a well-formed sequence *)
Theorem delta_step a A f i x r : WF (a :: A) -> flatb (a :: A) = x :: r -> (length r < f)%nat ->
  let s := lex_step f x r i in
  act_fine (act s) /\ exists A', srest s = flatb A' /\ WF A'.
Proof.
  intros HW E Hf. cbv zeta. pose proof (WF_head _ _ HW) as Hok. pose proof (WF_tail _ _ HW) as HWt.
  destruct a as [c|cr|c|w|b sfx|i0|items|body]; cbn [atom_ok] in Hok.
  - (* blank *)
    rewrite flatb_cons in E.
    assert (Hc : c = 32 \/ c = 9) by (b2p; exact Hok).
    assert (E' : x = c /\ r = flatb A) by (destruct Hc; subst c; inversion E; auto).
    destruct E' as [-> ->].
    replace (lex_step f c (flatb A) i) with (mk_step ASkip (flatb A) (i + 1)) by (destruct Hc; subst; reflexivity).
    split; [exact I|]. exists A. split; [reflexivity|exact HWt].
  - (* line break *)
    rewrite flatb_cons in E. destruct cr; inversion E; subst.
    + split; [exact I|]. exists (ANl false :: A). split; [reflexivity|].
      destruct HWt as [H1 H2]. split; cbn [forallb adj_ok atom_ok wordy andb negb]; assumption.
    + split; [exact I|]. exists A. split; [reflexivity|exact HWt].
  - (* punctuation *)
    rewrite flatb_cons in E.
    assert (Hc128 : c < 128).
    { pose proof (punct_cases c Hok) as Hp. cbn in Hp. repeat (destruct Hp as [<-|Hp]; [lia|]). contradiction. }
    assert (E' : x = c /\ r = flatb A).
    { cbn [spell encode flat_map] in E. unfold utf8 in E. destruct (N.ltb_spec c 128); [|lia]. now inversion E. }
    destruct E' as [-> ->].
    destruct (N.eq_dec c 47) as [->|H47].
    + (* slash *)
      change (lex_step f 47 (flatb A) i) with
        (match flatb A with
         | y :: r' => if y =? 47 then let '(t, r'') := span_while (fun z => negb (z =? 10)) r' in
                                       mk_step ASkip r'' (i + 1 + 1 + lenN t)
                      else mk_step (ATok KDivide 0%Z None (i + 1)) (flatb A) (i + 1)
         | [] => mk_step (ATok KDivide 0%Z None (i + 1)) (flatb A) (i + 1)
         end).
      destruct A as [|a2 A2]; [rewrite flatb_nil; split; [exact I|]; exists []; split; [reflexivity|apply WF_nil]|].
      destruct (flatb_head a2 A2 (WF_head _ _ HWt)) as (y & t & Es & Hy & _ & Eb).
      rewrite Eb. destruct (N.eqb_spec y 47) as [->|Hy47].
      * (* a comment *)
        assert (Hnl : nonl (encode t)).
        { assert (Ha2 : forall cr, a2 <> ANl cr) by (intros cr ->; destruct cr; discriminate Es).
          pose proof (atom_nonl a2 (WF_head _ _ HWt) Ha2) as Hn. rewrite Es in Hn.
          cbn [encode flat_map utf8 N.ltb N.compare Pos.compare Pos.compare_cont app] in Hn.
          now inversion Hn. }
        destruct (skip_line A2 (encode t) (WF_tail _ _ HWt) Hnl) as (t' & A' & -> & HW').
        cbn [srest act mk_step]. split; [exact I|]. exists A'. split; [reflexivity|exact HW'].
      * cbn [srest act mk_step]. split; [exact I|]. exists (a2 :: A2). split; [symmetry; exact Eb|exact HWt].
    + destruct (lex_step_punct f c (flatb A) i Hok H47) as (seconds & k1 & Hsec & ->).
      destruct (flatb A) as [|y r'] eqn:EA.
      * cbn [srest act mk_step]. split; [exact I|]. exists A. split; [symmetry; exact EA|exact HWt].
      * destruct (assoc_N y seconds) as [k2|] eqn:Hy.
        -- destruct (Hsec _ _ Hy) as [Hyp Hy47].
           destruct A as [|a2 A2]; [discriminate EA|].
           destruct (first_punct a2 A2 y r' HWt EA Hyp Hy47) as [-> ->].
           cbn [srest act mk_step]. split; [exact I|]. exists A2. split; [reflexivity|exact (WF_tail _ _ HWt)].
        -- cbn [srest act mk_step]. split; [exact I|]. exists A. split; [symmetry; exact EA|exact HWt].
  - (* word *)
    apply andb_true_iff in Hok as [Hstart Hall]. destruct w as [|x0 w]; [discriminate|].
    rewrite flatb_cons in E. cbn [spell] in E. rewrite encode_ascii in E by now apply cont_ascii.
    inversion E; subst x r. clear E.
    assert (Hs : is_ident_start x0 = true) by exact Hstart.
    rewrite lex_step_ident by exact Hs. unfold lex_ident.
    assert (Hends : ends_token (flatb A) = true).
    { apply ends_token_flatb; [exact HWt|]. apply (WF_next_not_wordy _ _ HW). reflexivity. }
    cbn [forallb] in Hall. apply andb_true_iff in Hall as [_ Hall].
    rewrite span_sfx; [|apply Forall_forall; intros z Hz; rewrite forallb_forall in Hall; apply (Hall z Hz)|exact Hends].
    destruct (lookup_keyword (x0 :: w)) as [[[k v] ty]|].
    + cbn [srest act mk_step]. split; [exact I|]. exists A. split; [reflexivity|exact HWt].
    + destruct (flatb A) as [|y r2] eqn:EA.
      * cbn [srest act mk_step]. split; [exact I|]. exists A. split; [symmetry; exact EA|exact HWt].
      * destruct (N.eqb_spec y 33) as [->|Hy].
        -- destruct A as [|a2 A2]; [discriminate EA|].
           destruct (first_punct a2 A2 33 r2 HWt EA eq_refl ltac:(discriminate)) as [-> ->].
           cbn [srest act mk_step]. split; [exact I|]. exists A2. split; [reflexivity|exact (WF_tail _ _ HWt)].
        -- cbn [srest act mk_step]. split; [exact I|]. exists A. split; [symmetry; exact EA|exact HWt].
  - (* number *)
    apply andb_true_iff in Hok as [Hv Hsfx]. apply N.ltb_lt in Hv.
    rewrite flatb_cons in E.
    rewrite encode_ascii in E by (apply cont_ascii, (wordy_spell_cont (ANum b sfx)); [cbn [atom_ok]; apply andb_true_iff; split; [now apply N.ltb_lt|exact Hsfx]|reflexivity]).
    cbn [spell] in E.
    destruct (body_text b ++ sfx_text sfx) as [|x1 r1] eqn:Et.
    { destruct (body_text_head b Hv) as (y & t & Eb & _). rewrite Eb in Et. discriminate. }
    cbn [app] in E. inversion E; subst x r. clear E.
    assert (Hends : ends_token (flatb A) = true).
    { apply ends_token_flatb; [exact HWt|]. apply (WF_next_not_wordy _ _ HW). reflexivity. }
    destruct (num_step f b sfx (flatb A) i x1 r1 Hv Hsfx Hends Et) as [H1 (ty & en & H2)].
    rewrite H2. split; [exact I|]. exists A. split; [exact H1|exact HWt].
  - (* char literal *)
    rewrite flatb_cons in E. cbn [spell] in E.
    change (39 :: render i0 ++ [39]) with ([39] ++ render i0 ++ [39]) in E. rewrite !encode_app in E.
    cbn [app encode flat_map utf8 N.ltb N.compare Pos.compare Pos.compare_cont] in E.
    rewrite <- app_assoc in E. cbn [app] in E. inversion E; subst x r. clear E.
    change (lex_step f 39 (encode (render i0) ++ 39 :: flatb A) i)
      with (lex_literal f true 39 (encode (render i0) ++ 39 :: flatb A) i).
    pose proof Hok as Hc. unfold citem_ok in Hc. apply andb_true_iff in Hc as [Hfi Hshape].
    destruct (scan_past_item 39 false i0 (or_introl eq_refl) Hfi) as (k & Hsp & Hk).
    { intros _. destruct i0; try exact I. discriminate Hshape. }
    destruct (lex_literal_closed f true 39 _ k (flatb A) i (or_introl eq_refl) Hsp Hf (fun _ => Hk Hok))
      as [H1 (v & en & H2)].
    rewrite H2. split; [exact I|]. exists A. split; [exact H1|exact HWt].
  - (* string literal *)
    rewrite flatb_cons in E. cbn [spell] in E.
    change (34 :: renders items ++ [34]) with ([34] ++ renders items ++ [34]) in E. rewrite !encode_app in E.
    cbn [app encode flat_map utf8 N.ltb N.compare Pos.compare Pos.compare_cont] in E.
    rewrite <- app_assoc in E. cbn [app] in E. inversion E; subst x r. clear E.
    change (lex_step f 34 (encode (renders items) ++ 34 :: flatb A) i)
      with (lex_literal f false 34 (encode (renders items) ++ 34 :: flatb A) i).
    destruct (scan_past_items 34 (or_intror eq_refl) items Hok) as (k & Hsp).
    destruct (lex_literal_closed f false 34 _ k (flatb A) i (or_intror eq_refl) Hsp Hf ltac:(discriminate))
      as [H1 (v & en & H2)].
    rewrite H2. split; [exact I|]. exists A. split; [exact H1|exact HWt].
  - (* comment *)
    rewrite flatb_cons in E. cbn [spell] in E.
    change (47 :: 47 :: body) with ([47; 47] ++ body) in E. rewrite encode_app in E.
    cbn [app encode flat_map utf8 N.ltb N.compare Pos.compare Pos.compare_cont] in E.
    inversion E; subst x r. clear E.
    assert (Hnl : nonl (encode body)).
    { pose proof (atom_nonl (AComment body) Hok ltac:(discriminate)) as Hn. cbn [spell] in Hn.
      change (47 :: 47 :: body) with ([47; 47] ++ body) in Hn. rewrite encode_app in Hn.
      apply Forall_app in Hn. tauto. }
    destruct (skip_line A (encode body) HWt Hnl) as (t' & A' & Hsp & HW').
    rewrite lex_step_comment, Hsp. cbn [srest act mk_step]. split; [exact I|]. exists A'. split; [reflexivity|exact HW'].
Qed.

(* ========================================================================== *)
(* 8. The whole loop and the whole source                                     *)
(* ========================================================================== *)
Definition no_error_tok (t : tok) : Prop := kind t <> KError.

(* whatever the state of the token buffer (capacity, number of tokens, payloads
   and errors so far): no error token is pushed, and no error is dropped *)
Theorem delta_loop_no_error cap errcap : forall fuel A pos ln sol ntok npay nerr,
  WF A -> (length (flatb A) < fuel)%nat ->
  lr_prop (fun toks _ _ => Forall no_error_tok toks)
          (lex_loop fuel (flatb A) pos ln sol ntok npay nerr cap errcap).
Proof.
  induction fuel as [|f IH]; intros A pos ln sol ntok npay nerr HW Hf; [lia|].
  unfold lex_loop in *. cbn [lex_loop_with]. destruct (flatb A) as [|x r] eqn:EA.
  - destruct (cap <=? ntok + 1); cbn [lr_prop]; [exact I|constructor].
  - destruct A as [|a A]; [discriminate EA|]. cbn [length] in Hf.
    destruct (delta_step a A f pos x r HW EA ltac:(lia)) as [Hfine (A' & Hrest & HW')].
    destruct (lex_step_ok f x r pos ltac:(lia)) as (seg & Hr & He & Hact).
    change (lex_step_with dec_push f x r pos) with (lex_step f x r pos).
    remember (lex_step f x r pos) as s eqn:Hs.
    assert (Hlen : (length (flatb A') < f)%nat).
    { rewrite <- Hrest. rewrite Hr in Hf. rewrite app_length in Hf. lia. }
    apply lr_prop_panic. rewrite Hrest.
    destruct (act s) as [| |k v ty en|c st en|] eqn:Ha; cbn [act_fine act_ok] in *; try contradiction.
    + apply IH; assumption.
    + apply IH; assumption.
    + destruct Hact as (_ & _ & Hk).
      destruct ((has_payload k && (MAX_NUM_PAYLOADS <=? npay)) || (cap <=? ntok)); [exact I|].
      apply lr_prop_cons. eapply lr_prop_impl; [|apply IH; eassumption]. cbn beta.
      intros l _ _ Hl. constructor; [exact Hk|exact Hl].
Qed.

(* a whole-source error token: E101 only for the empty source, E102 only beyond
   MAX_SOURCE_LEN, otherwise it is E103 *)
Lemma lex_delta_global_error src c : lex_delta src = [err_tok0 c] ->
  (c = E101 /\ src = []) \/ (c = E102 /\ MAX_SOURCE_LEN < lenN src) \/ c = E103.
Proof.
  unfold lex_delta, lex_delta_with, lex_result_with. intros H.
  destruct (N.eqb_spec (lenN src) 0) as [H0|H0].
  { left. inversion H. split; [reflexivity|]. destruct src; [reflexivity|rewrite lenN_cons in H0; lia]. }
  destruct (N.ltb_spec MAX_SOURCE_LEN (lenN src)) as [H1|H1].
  { right. left. inversion H. split; [reflexivity|exact H1]. }
  right. right.
  pose proof (lex_loop_inv dec_push (token_capacity (lenN src)) (error_capacity (lenN src))
                (S (length src)) src 0 1 0 0 1 0 ltac:(lia)) as Hinv.
  destruct (lex_loop_with dec_push _ _ _ _ _ _ _ _ _ _) as [|p|toks ln sol p]; cbn [lr_prop] in Hinv.
  - contradiction.
  - now inversion H.
  - destruct Hinv as (_ & _ & _ & _ & Hl). subst toks. inversion Hl as [|? ? Hx _]; subst. cbn in Hx. lia.
Qed.

(* the same loop started from the beginning of the source *)
Theorem delta_no_error A : WF A ->
  lex_delta (flatb A) = [err_tok0 E101] \/ lex_delta (flatb A) = [err_tok0 E102] \/
  lex_delta (flatb A) = [err_tok0 E103] \/ Forall no_error_tok (lex_delta (flatb A)).
Proof.
  intros HW. unfold lex_delta, lex_delta_with, lex_result_with.
  destruct (lenN (flatb A) =? 0); [auto|]. destruct (MAX_SOURCE_LEN <? lenN (flatb A)); [auto|].
  pose proof (delta_loop_no_error (token_capacity (lenN (flatb A))) (error_capacity (lenN (flatb A)))
                (S (length (flatb A))) A 0 1 0 0 1 0 HW ltac:(lia)) as H. unfold lex_loop in H.
  destruct (lex_loop_with dec_push _ _ _ _ _ _ _ _ _ _) as [|p|toks ln sol p]; cbn [lr_prop] in H; [contradiction|auto|auto].
Qed.

(* E101 only for the empty text, E102 only beyond 2 GiB, E103 only when the
   tokens do not fit: never below 65535 bytes *)
Corollary delta_no_error_small A : WF A -> A <> [] -> lenN (flatb A) + 2 <= 65536 ->
  Forall no_error_tok (lex_delta (flatb A)).
Proof.
  intros HW Hne Hlen. destruct (delta_no_error A HW) as [H|[H|[H|H]]]; [| | |exact H]; exfalso.
  - destruct (lex_delta_global_error _ _ H) as [[_ E]|[[E _]|E]]; try discriminate E.
    destruct A as [|a A]; [congruence|].
    destruct (flatb_head a A (WF_head _ _ HW)) as (x & t & _ & _ & _ & Eb). rewrite Eb in E. discriminate.
  - destruct (lex_delta_global_error _ _ H) as [[E _]|[[_ E]|E]]; try discriminate E.
    unfold MAX_SOURCE_LEN in E. lia.
  - exact (no_E103_small (flatb A) Hlen H).
Qed.

(* ========================================================================== *)
(* 9. A source consisting of one spelling                                     *)
(* ========================================================================== *)
Lemma single_tok x r k v ty en : lenN (x :: r) <= MAX_SOURCE_LEN ->
  srest (lex_step (S (length r)) x r 0) = [] -> act (lex_step (S (length r)) x r 0) = ATok k v ty en ->
  map kind (lex_delta (x :: r)) = [k].
Proof.
  intros Hlen Hrest Hact.
  destruct (lex_step_ok (S (length r)) x r 0 ltac:(lia)) as (seg & _ & _ & Hok).
  rewrite Hact in Hok. cbn [act_ok] in Hok. destruct Hok as (Hen & _ & _).
  pose proof (step_eta (lex_step (S (length r)) x r 0)) as Heta. rewrite Hrest, Hact, <- Hen in Heta.
  destruct (lex_delta_single_tok dec_push x r k v ty en _ Hlen Heta) as (E & _). unfold lex_delta. rewrite E. reflexivity.
Qed.

Lemma bytes_eqb_eq x : forall y, bytes_eqb x y = true -> x = y.
Proof.
  induction x as [|a x IH]; intros [|b y] H; try discriminate; [reflexivity|].
  cbn [bytes_eqb] in H. apply andb_true_iff in H as [H1 H2]. apply N.eqb_eq in H1. subst. f_equal. now apply IH.
Qed.

Lemma assoc_bytes_key {A} (k : list N) (t : list (list N * A)) v : assoc_bytes k t = Some v -> In k (map fst t).
Proof.
  induction t as [|[k' v'] t IH]; cbn [assoc_bytes map fst]; [discriminate|].
  destruct (bytes_eqb k k') eqn:E; intros H; [left; symmetry; now apply bytes_eqb_eq|right; auto].
Qed.

(* no keyword, type keyword or suffix contains an upper-case letter or an
   underscore, except the placeholder *)
Lemma keywords_unmarked :
  forallb (fun w => negb (has_marker w) || bytes_eqb w [95]) (map fst kw_table ++ map fst suffix_table) = true.
Proof. vm_compute. reflexivity. Qed.

Lemma lookup_none w : has_marker w = true -> w <> [95] -> lookup_keyword w = None.
Proof.
  intros Hm Hne.
  assert (Hnot : ~ In w (map fst kw_table ++ map fst suffix_table)).
  { intros Hin. pose proof keywords_unmarked as H. rewrite forallb_forall in H. specialize (H w Hin).
    rewrite Hm in H. cbn [negb orb] in H. apply bytes_eqb_eq in H. contradiction. }
  unfold lookup_keyword, parse_integer_suffix.
  destruct (assoc_bytes w kw_table) as [r|] eqn:E1.
  { exfalso. apply Hnot, in_app_iff. left. eapply assoc_bytes_key; eassumption. }
  destruct (assoc_bytes w suffix_table) as [p|] eqn:E2; [|reflexivity].
  exfalso. apply Hnot, in_app_iff. right. eapply assoc_bytes_key; eassumption.
Qed.

Lemma word_ascii w : atom_ok (AWord w) = true -> encode w = w /\ exists x t, w = x :: t /\ is_ident_start x = true /\
  Forall (fun y => is_ident_cont y = true) t.
Proof.
  cbn [atom_ok]. intros H. apply andb_true_iff in H as [Hs Hall]. split; [apply encode_ascii; now apply cont_ascii|].
  destruct w as [|x t]; [discriminate|]. exists x, t. repeat split; [exact Hs|].
  cbn [forallb] in Hall. apply andb_true_iff in Hall as [_ Hall]. apply Forall_forall. intros y Hy.
  rewrite forallb_forall in Hall. apply (Hall y Hy).
Qed.

Lemma small_source s : (1 <= length s <= 1000)%nat -> 0 < lenN (encode s) <= MAX_SOURCE_LEN.
Proof. intros H. pose proof (encode_len s). unfold lenN, MAX_SOURCE_LEN. lia. Qed.

(* identifiers *)
Theorem identifier_lexes w : atom_ok (AWord w) = true -> has_marker w = true -> (length w <= 38)%nat ->
  w <> [95] -> map kind (lex_delta (encode w)) = [KIdentifier].
Proof.
  intros Hok Hm Hl Hne. destruct (word_ascii w Hok) as [-> (x & t & -> & Hs & Ht)].
  assert (Hlen : lenN (x :: t) <= MAX_SOURCE_LEN) by (unfold lenN, MAX_SOURCE_LEN; lia).
  assert (Hstep : lex_step (S (length t)) x t 0 = mk_step (ATok KIdentifier 0%Z None (0 + 1 + lenN t)) [] (0 + 1 + lenN t)).
  { rewrite lex_step_ident by exact Hs. unfold lex_ident.
    rewrite <- (app_nil_r t) at 1. rewrite span_sfx by (auto; reflexivity).
    rewrite (lookup_none (x :: t) Hm Hne). reflexivity. }
  eapply single_tok; [exact Hlen|rewrite Hstep; reflexivity|rewrite Hstep; reflexivity].
Qed.

Theorem builtin_lexes w : atom_ok (AWord w) = true -> has_marker w = true -> (length w <= 38)%nat ->
  w <> [95] -> map kind (lex_delta (encode (w ++ [33]))) = [KBuiltin].
Proof.
  intros Hok Hm Hl Hne. destruct (word_ascii w Hok) as [Hasc (x & t & -> & Hs & Ht)].
  rewrite encode_app, Hasc. change (encode [33]) with [33]. cbn [app].
  assert (Hlen : lenN (x :: t ++ [33]) <= MAX_SOURCE_LEN).
  { unfold lenN, MAX_SOURCE_LEN. cbn [length] in *. rewrite app_length. cbn [length]. lia. }
  assert (Hstep : lex_step (S (length (t ++ [33]))) x (t ++ [33]) 0 =
                  mk_step (ATok KBuiltin 0%Z None (0 + 1 + lenN t + 1)) [] (0 + 1 + lenN t + 1)).
  { rewrite lex_step_ident by exact Hs. unfold lex_ident.
    rewrite span_sfx by (auto; reflexivity). rewrite (lookup_none (x :: t) Hm Hne). reflexivity. }
  eapply single_tok; [exact Hlen|rewrite Hstep; reflexivity|rewrite Hstep; reflexivity].
Qed.

(* the lone underscore is the placeholder *)
Theorem identifier_placeholder : map kind (lex_delta (encode [95])) = [KPlaceholder] /\
  map kind (lex_delta (encode [95; 33])) = [KPlaceholder; KExclamation].
Proof. vm_compute. split; reflexivity. Qed.

(* numbers *)
Theorem number_lexes b sfx : body_value b < 2 ^ 128 -> sfx_ok sfx = true ->
  exists t, lex_delta (encode (body_text b ++ sfx_text sfx)) = [t] /\ kind t = num_kind b sfx /\
            value t = Z.of_N (body_value b).
Proof.
  intros Hv Hs.
  assert (Hok : atom_ok (ANum b sfx) = true) by (cbn [atom_ok]; apply N.ltb_lt in Hv; now rewrite Hv, Hs).
  destruct (wordy_spell_cont (ANum b sfx) Hok eq_refl) as [Hcont _]. cbn [spell] in Hcont.
  rewrite encode_ascii by now apply cont_ascii.
  destruct (body_text b ++ sfx_text sfx) as [|x r0] eqn:Et.
  { destruct (body_text_head b Hv) as (y & t & Eb & _). rewrite Eb in Et. discriminate. }
  assert (Hlen : lenN (x :: r0) <= MAX_SOURCE_LEN).
  { rewrite <- Et. unfold lenN, MAX_SOURCE_LEN. rewrite app_length. pose proof (body_text_len b).
    assert (length (sfx_text sfx) <= 9)%nat by (destruct sfx as [t|]; [destruct t|]; cbn; lia). lia. }
  destruct (num_step (S (length r0)) b sfx [] 0 x r0 Hv Hs eq_refl Et) as [H1 (ty & en & H2)].
  rewrite app_nil_r in H1, H2.
  destruct (lex_step_ok (S (length r0)) x r0 0 ltac:(lia)) as (seg & _ & _ & Hact).
  rewrite H2 in Hact. cbn [act_ok] in Hact. destruct Hact as (Hen & _ & _).
  pose proof (step_eta (lex_step (S (length r0)) x r0 0)) as Heta. rewrite H1, H2, <- Hen in Heta.
  destruct (lex_delta_single_tok dec_push x r0 _ _ ty en _ Hlen Heta) as (E & _). unfold lex_delta. rewrite E.
  eexists. split; [reflexivity|]. split; reflexivity.
Qed.

(* quoted literals *)
Theorem char_lexes i0 : citem_ok i0 = true -> map kind (lex_delta (encode (39 :: render i0 ++ [39]))) = [KCharLiteral].
Proof.
  intros Hok. pose proof Hok as Hc. unfold citem_ok in Hc. apply andb_true_iff in Hc as [Hfi Hshape].
  change (39 :: render i0 ++ [39]) with ([39] ++ render i0 ++ [39]). rewrite !encode_app.
  change (encode [39]) with [39]. cbn [app].
  destruct (scan_past_item 39 false i0 (or_introl eq_refl) Hfi) as (k & Hsp & Hk).
  { intros _. destruct i0; try exact I. discriminate Hshape. }
  set (r := encode (render i0) ++ [39]).
  assert (Hlen : lenN (39 :: r) <= MAX_SOURCE_LEN).
  { subst r. pose proof (render_len i0 Hfi). pose proof (encode_len (render i0)). unfold lenN, MAX_SOURCE_LEN.
    cbn [length]. rewrite app_length. cbn [length]. lia. }
  destruct (lex_literal_closed (S (length r)) true 39 (encode (render i0)) k [] 0 (or_introl eq_refl) Hsp
              ltac:(subst r; lia) (fun _ => Hk Hok)) as [H1 (v & en & H2)].
  eapply single_tok; [exact Hlen|exact H1|exact H2].
Qed.

Theorem string_lexes items : forallb fitem_ok items = true -> (length items <= 99)%nat ->
  map kind (lex_delta (encode (34 :: renders items ++ [34]))) = [KStringLiteral].
Proof.
  intros Hall Hl.
  change (34 :: renders items ++ [34]) with ([34] ++ renders items ++ [34]). rewrite !encode_app.
  change (encode [34]) with [34]. cbn [app].
  destruct (scan_past_items 34 (or_intror eq_refl) items Hall) as (k & Hsp).
  set (r := encode (renders items) ++ [34]).
  assert (Hlen : lenN (34 :: r) <= MAX_SOURCE_LEN).
  { subst r. pose proof (renders_len items Hall). pose proof (encode_len (renders items)). unfold lenN, MAX_SOURCE_LEN.
    cbn [length]. rewrite app_length. cbn [length]. lia. }
  destruct (lex_literal_closed (S (length r)) false 34 (encode (renders items)) k [] 0 (or_intror eq_refl) Hsp
              ltac:(subst r; lia) ltac:(discriminate)) as [H1 (v & en & H2)].
  eapply single_tok; [exact Hlen|exact H1|exact H2].
Qed.
