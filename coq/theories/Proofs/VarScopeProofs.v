(* Proofs about Model/VarScope.v: the id-set bookkeeping of the variable scoper
   (unresolved-goto intersections, pruning at labels) computes exactly the
   forward "declaration skipped by an earlier goto" specification, provided no
   label id is declared twice along the traversal. *)
From PV Require Import Base.Common Model.VarScope.

Section stmt_ind2.
  Variable P : stmt -> Prop.
  Hypothesis HD : forall v us, P (SDecl v us).
  Hypothesis HU : forall us, P (SUse us).
  Hypothesis HG : forall l, P (SGoto l).
  Hypothesis HL : forall l, P (SLabel l).
  Hypothesis HI1 : forall us t, P t -> P (SIf us t None).
  Hypothesis HI2 : forall us t e, P t -> P e -> P (SIf us t (Some e)).
  Hypothesis HB : forall b, Forall P b -> P (SBlock b).
  Hypothesis HN : P SNop.
  Fixpoint stmt_ind2 (s : stmt) : P s :=
    match s with
    | SDecl v us => HD v us
    | SUse us => HU us
    | SGoto l => HG l
    | SLabel l => HL l
    | SIf us t None => HI1 us t (stmt_ind2 t)
    | SIf us t (Some e) => HI2 us t e (stmt_ind2 t) (stmt_ind2 e)
    | SBlock b => HB b ((fix go (l : list stmt) : Forall P l :=
                           match l with
                           | [] => Forall_nil P
                           | x :: xs => Forall_cons x (stmt_ind2 x) (go xs)
                           end) b)
    | SNop => HN
    end.
End stmt_ind2.

(* ---- traversal events and label well-formedness --------------------------- *)

Inductive event := EGoto (l : id) | ELabel (l : id).

Fixpoint ev_stmt (s : stmt) : list event :=
  match s with
  | SGoto l => [EGoto l]
  | SLabel l => [ELabel l]
  | SIf _ t e => ev_stmt t ++ match e with Some e' => ev_stmt e' | None => [] end
  | SBlock b => flat_map ev_stmt b
  | _ => []
  end.

Definition ev_list (b : list stmt) : list event := flat_map ev_stmt b.
Definition ev_func (f : func) : list event := ev_list (body f).
Definition events (fs : list func) : list event := flat_map ev_func fs.

(* [wf_ev done es]: no label in [done] is the target of a goto or declared again
   in [es], and the same holds after each label of [es] joins [done]. *)
Fixpoint wf_ev (done : list id) (es : list event) : bool :=
  match es with
  | [] => true
  | EGoto l :: r => negb (mem_id l done) && wf_ev done r
  | ELabel l :: r => negb (mem_id l done) && wf_ev (l :: done) r
  end.

Definition wf_labels (fs : list func) : Prop := wf_ev [] (events fs) = true.

(* The weaker condition that is actually needed: no label id is declared twice
   (gotos after the label, i.e. backward jumps, are harmless). *)
Fixpoint once (done : list id) (es : list event) : bool :=
  match es with
  | [] => true
  | EGoto l :: r => once done r
  | ELabel l :: r => negb (mem_id l done) && once (l :: done) r
  end.

Definition labels_once (fs : list func) : Prop := once [] (events fs) = true.

Fixpoint passed (done : list id) (es : list event) : list id :=
  match es with
  | [] => done
  | EGoto _ :: r => passed done r
  | ELabel l :: r => passed (l :: done) r
  end.

Example wf_labels_example :
  wf_labels [ {| params := [1]; ret := [1];
                 body := [SGoto 1; SDecl 7 []; SIf [1] (SGoto 2) (Some (SBlock [SGoto 1; SLabel 3]));
                          SLabel 1; SBlock [SDecl 8 [7]; SLabel 2]; SUse [7] ] |};
              {| params := []; ret := []; body := [SGoto 4; SDecl 7 []; SLabel 4; SUse [7]] |} ]%N.
Proof. vm_compute. reflexivity. Qed.

Lemma wf_ev_once done es : wf_ev done es = true -> once done es = true.
Proof.
  revert done. induction es as [|[l|l] r IH]; intros done H; [reflexivity| |].
  - cbn [wf_ev once] in *. apply andb_true_iff in H. now apply IH.
  - cbn [wf_ev once] in *. apply andb_true_iff in H. destruct H as [H1 H2].
    rewrite H1. now apply IH.
Qed.

Lemma once_app done a b : once done (a ++ b) = once done a && once (passed done a) b.
Proof.
  revert done. induction a as [|[l|l] r IH]; intros done; [reflexivity| |].
  - cbn [app once passed]. apply IH.
  - cbn [app once passed]. rewrite IH. now rewrite andb_assoc.
Qed.

Lemma passed_app done a b : passed done (a ++ b) = passed (passed done a) b.
Proof.
  revert done. induction a as [|[l|l] r IH]; intros done; [reflexivity| |]; cbn [app passed]; apply IH.
Qed.

(* ---- small list facts ----------------------------------------------------- *)

Lemma mem_id_In i l : mem_id i l = true <-> In i l.
Proof. exact (mem_name_In i l). Qed.

Lemma mem_id_false i l : mem_id i l = false <-> ~ In i l.
Proof. exact (mem_name_false i l). Qed.

Lemma mem_id_filter i f l : mem_id i (filter f l) = mem_id i l && f i.
Proof.
  unfold mem_id. induction l as [|a l IH]; [reflexivity|].
  cbn [filter existsb]. destruct (f a) eqn:Fa; cbn [existsb]; rewrite IH;
    destruct (N.eqb_spec i a) as [<-|_]; rewrite ?Fa;
    destruct (existsb (N.eqb i) l), (f i); reflexivity.
Qed.

Lemma filter_map {A B} (f : B -> bool) (g : A -> B) l :
  filter f (map g l) = map g (filter (fun x => f (g x)) l).
Proof.
  induction l as [|a l IH]; [reflexivity|]. cbn [map filter].
  destruct (f (g a)); cbn [map]; now rewrite IH.
Qed.

Lemma filter_none {A} (f : A -> bool) l : (forall x, In x l -> f x = false) -> filter f l = [].
Proof.
  induction l as [|a l IH]; intros H; [reflexivity|]. cbn [filter].
  rewrite (H a (or_introl eq_refl)). apply IH. intros x Hx. apply H. now right.
Qed.

Lemma concat_snoc {A} (e : list (list A)) f : concat (e ++ [f]) = concat e ++ f.
Proof. rewrite concat_app. cbn [concat]. now rewrite app_nil_r. Qed.

Lemma push_last_snoc {A} (fs : list (list A)) f x : push_last x (fs ++ [f]) = fs ++ [f ++ [x]].
Proof.
  induction fs as [|g fs IH]; [reflexivity|].
  change ((g :: fs) ++ [f]) with (g :: (fs ++ [f])).
  change ((g :: fs) ++ [f ++ [x]]) with (g :: (fs ++ [f ++ [x]])).
  rewrite <- IH. destruct (fs ++ [f]) eqn:E; [destruct fs; discriminate|reflexivity].
Qed.

Lemma concat_push_last {A} (x : A) e : concat (push_last x e) = concat e ++ [x].
Proof.
  destruct e as [|f e _] using rev_ind; [reflexivity|].
  rewrite push_last_snoc, !concat_snoc. now rewrite app_assoc.
Qed.

Lemma map_push_last {A B} (g : A -> B) x e :
  map (map g) (push_last x e) = push_last (g x) (map (map g) e).
Proof.
  destruct e as [|f e _] using rev_ind; [reflexivity|].
  rewrite push_last_snoc, !map_app. cbn [map]. rewrite push_last_snoc. now rewrite map_app.
Qed.

Lemma map_removelast {A B} (g : A -> B) e : map g (removelast e) = removelast (map g e).
Proof.
  destruct e as [|f e _] using rev_ind; [reflexivity|].
  rewrite map_app. cbn [map]. now rewrite !removelast_last.
Qed.

Lemma In_concat_removelast {A} (b : A) e : In b (concat (removelast e)) -> In b (concat e).
Proof.
  destruct e as [|f e _] using rev_ind; [auto|].
  rewrite removelast_last, concat_snoc. intros H. apply in_or_app. now left.
Qed.

(* [once] is exactly: the label ids declared along the traversal are pairwise
   distinct (and distinct from [done]). *)
Definition label_ids (es : list event) : list id :=
  flat_map (fun e => match e with ELabel l => [l] | EGoto _ => [] end) es.

Lemma once_NoDup es : forall done,
  once done es = true <->
  (NoDup (label_ids es) /\ forall l, In l (label_ids es) -> ~ In l done).
Proof.
  induction es as [|[l|l] r IH]; intros done; cbn [once label_ids flat_map app].
  - split; [intros _; split; [constructor|intros l []]|reflexivity].
  - apply IH.
  - fold (label_ids r). rewrite andb_true_iff, negb_true_iff, mem_id_false, IH, NoDup_cons_iff.
    cbn [In]. split.
    + intros [Hl [Hn Hd]]. split; [split; [|assumption]|].
      * intros Hi. apply (Hd l Hi). now left.
      * intros l' [<-|Hi]; [assumption|]. intros Hc. apply (Hd l' Hi). now right.
    + intros [[Hn Hnd] Hd]. split; [apply Hd; now left|]. split; [assumption|].
      intros l' Hi [<-|Hc]; [contradiction|]. apply (Hd l'); auto.
Qed.

Lemma labels_once_iff fs : labels_once fs <-> NoDup (label_ids (events fs)).
Proof.
  unfold labels_once. rewrite once_NoDup. split; [now intros [H _]|]. intros H. split; [assumption|].
  intros l _ [].
Qed.

(* ---- unres map ------------------------------------------------------------ *)

Lemma lookup_update_same l sc u :
  lookup_unres l (update_unres l sc u) =
  Some (match lookup_unres l u with None => sc | Some J => filter (fun i => mem_id i sc) J end).
Proof.
  induction u as [|[l' J] u IH]; cbn [update_unres lookup_unres].
  - now rewrite N.eqb_refl.
  - destruct (N.eqb l l') eqn:E; cbn [lookup_unres]; rewrite E; [reflexivity|apply IH].
Qed.

Lemma lookup_update_other l l' sc u :
  l' <> l -> lookup_unres l' (update_unres l sc u) = lookup_unres l' u.
Proof.
  intros Hn. induction u as [|[l2 J] u IH]; cbn [update_unres lookup_unres].
  - apply N.eqb_neq in Hn. now rewrite Hn.
  - destruct (N.eqb l l2) eqn:E; cbn [lookup_unres].
    + apply N.eqb_eq in E. subst l2. apply N.eqb_neq in Hn. now rewrite Hn.
    + now rewrite IH.
Qed.

Lemma lookup_remove l l' u :
  lookup_unres l' (remove_unres l u) = if N.eqb l l' then None else lookup_unres l' u.
Proof.
  unfold remove_unres. induction u as [|[l2 J] u IH]; cbn [filter lookup_unres fst].
  - now destruct (N.eqb l l').
  - destruct (N.eqb_spec l l2) as [<-|Hn]; cbn [negb lookup_unres].
    + rewrite IH. destruct (N.eqb_spec l l') as [<-|Hn']; [reflexivity|].
      apply not_eq_sym in Hn'. apply N.eqb_neq in Hn'. now rewrite Hn'.
    + rewrite IH. destruct (N.eqb_spec l l') as [<-|Hn']; [|reflexivity].
      apply N.eqb_neq in Hn. now rewrite Hn.
Qed.

(* ---- the simulation relation ---------------------------------------------- *)

Definition pj (b : binding) : name * id := (bname b, bid b).
Definition proj (e : list (list binding)) : list (list (name * id)) := map (map pj) e.

Record R (done : list id) (st : state) (s : sstate) : Prop := {
  R_stack : proj (env s) = stack st;
  R_next : snext s = next st;
  R_skip : skipped s = pruned st;
  R_fresh_stack : forall b, In b (concat (env s)) -> (bid b < next st)%N;
  R_fresh_unres : forall l J i, lookup_unres l (unres st) = Some J -> In i J -> (i < next st)%N;
  R_seen : forall l, ~ In l done -> (lookup_unres l (unres st) = None <-> ~ In l (seen s));
  R_inter : forall l J b, ~ In l done -> lookup_unres l (unres st) = Some J ->
            In b (concat (env s)) -> mem_id (bid b) J = negb (mem_id l (skippers b));
  R_sub : forall b l, In b (concat (env s)) -> In l (skippers b) -> In l (seen s)
}.

Lemma R_sub_env done st s st' s' :
  R done st s ->
  proj (env s') = stack st' ->
  (forall b, In b (concat (env s')) -> In b (concat (env s))) ->
  next st' = next st -> unres st' = unres st ->
  snext s' = snext s -> seen s' = seen s -> skipped s' = pruned st' ->
  R done st' s'.
Proof.
  intros [H1 H2 H3 H4 H5 H6 H7 H8] E1 E2 E3 E4 E5 E6 E7.
  constructor; rewrite ?E3, ?E4, ?E5, ?E6.
  - assumption.
  - assumption.
  - assumption.
  - intros b Hb. apply H4. auto.
  - assumption.
  - assumption.
  - intros l J b Hl HJ Hb. eapply H7; eauto.
  - intros b l Hb. apply H8. auto.
Qed.

Lemma find_map_pj x l :
  find (fun b => N.eqb (fst b) x) (map pj l) = option_map pj (find (fun b => N.eqb (bname b) x) l).
Proof.
  induction l as [|a l IH]; [reflexivity|]. cbn [map find pj fst].
  destruct (N.eqb (bname a) x); [reflexivity|apply IH].
Qed.

Lemma find_name_proj x e : find_name x (proj e) = option_map bid (sfind x e).
Proof.
  unfold find_name, sfind, proj. rewrite <- concat_map, find_map_pj.
  destruct (find _ (concat e)); reflexivity.
Qed.

Lemma in_scope_R done st s : R done st s -> in_scope st = map bid (concat (env s)).
Proof.
  intros H. unfold in_scope. rewrite <- (R_stack _ _ _ H). unfold proj.
  rewrite <- concat_map, map_map. reflexivity.
Qed.

Definition sinit : sstate := {| env := [[]]; snext := 1%N; seen := []; skipped := [] |}.

Lemma R_init : R [] init_state sinit.
Proof.
  constructor; cbn; try reflexivity; try tauto; try discriminate.
Qed.

Lemma R_use done x st s :
  R done st s ->
  snd (use x st) = snd (suse x s) /\ R done (fst (use x st)) (fst (suse x s)).
Proof.
  intros H. unfold use, suse. rewrite <- (R_stack _ _ _ H), find_name_proj.
  destruct (sfind x (env s)) as [b|]; cbn [option_map]; [|now split].
  rewrite (R_skip _ _ _ H). destruct (mem_id (bid b) (pruned st)); cbn [fst snd]; [|now split].
  split; [reflexivity|].
  eapply R_sub_env; [exact H| | | | | | |]; cbn; auto.
Qed.

Lemma R_uses done xs : forall st s,
  R done st s ->
  snd (uses xs st) = snd (suses xs s) /\ R done (fst (uses xs st)) (fst (suses xs s)).
Proof.
  induction xs as [|x xs IH]; intros st s H; [now split|].
  cbn [uses suses]. destruct (R_use done x st s H) as [Hc HR].
  destruct (use x st) as [st1 c1], (suse x s) as [s1 c1']. cbn [fst snd] in *.
  destruct (IH _ _ HR) as [Hc2 HR2].
  destruct (uses xs st1) as [st2 c2], (suses xs s1) as [s2 c2']. cbn [fst snd] in *.
  subst. now split.
Qed.

Lemma R_declare done x st s :
  R done st s ->
  snd (declare x st) = snd (sdeclare x s) /\ R done (fst (declare x st)) (fst (sdeclare x s)).
Proof.
  intros H. unfold declare, sdeclare. cbn [fst snd]. split.
  - rewrite <- (R_stack _ _ _ H), find_name_proj. now destruct (sfind x (env s)).
  - destruct H as [H1 H2 H3 H4 H5 H6 H7 H8].
    constructor; cbn [env snext skipped seen stack next unres pruned].
    + unfold proj. rewrite map_push_last. fold (proj (env s)). rewrite H1. unfold pj at 1.
      cbn [bname bid]. now rewrite H2.
    + now rewrite H2.
    + assumption.
    + intros b Hb. rewrite concat_push_last in Hb. apply in_app_or in Hb.
      destruct Hb as [Hb|[<-|[]]]; [apply H4 in Hb; lia|cbn [bid]; lia].
    + intros l J i HS Hi. specialize (H5 l J i HS Hi). lia.
    + assumption.
    + intros l J b Hl HS Hb. rewrite concat_push_last in Hb. apply in_app_or in Hb.
      destruct Hb as [Hb|[<-|[]]]; [now apply H7|]. cbn [bid skippers].
      assert (Hin : In l (seen s)).
      { destruct (in_dec N.eq_dec l (seen s)) as [Hi|Hi]; [assumption|].
        apply (H6 l Hl) in Hi. congruence. }
      apply mem_id_In in Hin. rewrite Hin. cbn [negb]. apply mem_id_false.
      intros Hi. apply (H5 l J _ HS) in Hi. lia.
    + intros b l Hb. rewrite concat_push_last in Hb. apply in_app_or in Hb.
      destruct Hb as [Hb|[<-|[]]]; [now apply H8|]. cbn [skippers]. auto.
Qed.

Lemma R_push done st s : R done st s -> R done (push_scope st) (s_push s).
Proof.
  intros H. eapply R_sub_env; [exact H| | | | | | |]; cbn; auto; try apply (R_skip _ _ _ H).
  - unfold proj. rewrite map_app. cbn [map]. fold (proj (env s)). now rewrite (R_stack _ _ _ H).
  - intros b. rewrite concat_snoc, app_nil_r. auto.
Qed.

Lemma R_pop done st s : R done st s -> R done (pop_scope st) (s_pop s).
Proof.
  intros H. eapply R_sub_env; [exact H| | | | | | |]; cbn; auto; try apply (R_skip _ _ _ H).
  - unfold proj. rewrite map_removelast. fold (proj (env s)). now rewrite (R_stack _ _ _ H).
  - intros b. apply In_concat_removelast.
Qed.

Lemma In_seen_goto l l' s : In l' (seen (s_goto l s)) <-> l' = l \/ In l' (seen s).
Proof.
  unfold s_goto. cbn [seen]. destruct (mem_id l (seen s)) eqn:E.
  - apply mem_id_In in E. split; [auto|]. intros [->|]; auto.
  - cbn [In]. split; intros [|]; auto.
Qed.

Lemma R_goto done l st s : R done st s -> R done (at_goto l st) (s_goto l s).
Proof.
  intros H. pose proof (in_scope_R _ _ _ H) as Hsc.
  destruct H as [H1 H2 H3 H4 H5 H6 H7 H8].
  assert (Hscope : forall b, In b (concat (env s)) -> mem_id (bid b) (in_scope st) = true).
  { intros b Hb. apply mem_id_In. rewrite Hsc. now apply in_map. }
  constructor; cbn [env snext skipped stack next unres pruned at_goto]; auto.
  - intros l' J i HS Hi. destruct (N.eq_dec l' l) as [->|Hn].
    + rewrite lookup_update_same in HS. injection HS as <-.
      destruct (lookup_unres l (unres st)) as [J0|] eqn:E.
      * apply filter_In in Hi. destruct Hi as [Hi _]. eapply H5; eauto.
      * rewrite Hsc in Hi. apply in_map_iff in Hi. destruct Hi as [b [<- Hb]]. now apply H4.
    + rewrite lookup_update_other in HS by assumption. eapply H5; eauto.
  - intros l' Hl'. rewrite In_seen_goto. destruct (N.eq_dec l' l) as [->|Hn].
    + rewrite lookup_update_same. split; [discriminate|]. intros Hc. exfalso. apply Hc. now left.
    + rewrite lookup_update_other by assumption. rewrite (H6 l' Hl'). tauto.
  - intros l' J b Hl' HS Hb. destruct (N.eq_dec l' l) as [->|Hn].
    + rewrite lookup_update_same in HS. injection HS as <-.
      destruct (lookup_unres l (unres st)) as [J0|] eqn:E.
      * rewrite mem_id_filter, (Hscope b Hb), andb_true_r. now apply H7.
      * rewrite (Hscope b Hb). apply (H6 l Hl') in E.
        assert (Hf : mem_id l (skippers b) = false).
        { apply mem_id_false. intros Hi. apply E. eapply H8; eauto. }
        now rewrite Hf.
    + rewrite lookup_update_other in HS by assumption. now apply H7.
  - intros b l' Hb Hi. apply In_seen_goto. right. eapply H8; eauto.
Qed.

Lemma s_label_env l s : env (s_label l s) = env s.
Proof. unfold s_label. now destruct (rev (env s)). Qed.
Lemma s_label_snext l s : snext (s_label l s) = snext s.
Proof. unfold s_label. now destruct (rev (env s)). Qed.
Lemma s_label_seen l s : seen (s_label l s) = seen s.
Proof. unfold s_label. now destruct (rev (env s)). Qed.
Lemma at_label_stack l st : stack (at_label l st) = stack st.
Proof. unfold at_label. now destruct (lookup_unres l (unres st)). Qed.
Lemma at_label_next l st : next (at_label l st) = next st.
Proof. unfold at_label. now destruct (lookup_unres l (unres st)). Qed.

Lemma at_label_lookup l l' st J :
  lookup_unres l' (unres (at_label l st)) = Some J -> lookup_unres l' (unres st) = Some J.
Proof.
  unfold at_label. destruct (lookup_unres l (unres st)); cbn [unres]; [|auto].
  rewrite lookup_remove. destruct (N.eqb l l'); [discriminate|auto].
Qed.

Lemma at_label_lookup_other l l' st :
  l' <> l -> lookup_unres l' (unres (at_label l st)) = lookup_unres l' (unres st).
Proof.
  intros Hn. unfold at_label. destruct (lookup_unres l (unres st)); cbn [unres]; [|auto].
  rewrite lookup_remove. apply not_eq_sym in Hn. apply N.eqb_neq in Hn. now rewrite Hn.
Qed.

Lemma R_label done l st s :
  R done st s -> ~ In l done -> R (l :: done) (at_label l st) (s_label l s).
Proof.
  intros H Hl.
  assert (Hsk : skipped (s_label l s) = pruned (at_label l st)).
  { assert (Htop : forall top r, rev (env s) = top :: r -> forall b, In b top -> In b (concat (env s))).
    { intros top r Er b Hb. apply in_concat. exists top. split; [|assumption].
      apply in_rev. rewrite Er. now left. }
    unfold s_label, at_label. rewrite <- (R_stack _ _ _ H). unfold proj. rewrite <- map_rev.
    destruct (lookup_unres l (unres st)) as [J|] eqn:E.
    - destruct (rev (env s)) as [|top r] eqn:Er; cbn [map pruned skipped]; [apply (R_skip _ _ _ H)|].
      rewrite (R_skip _ _ _ H). f_equal. rewrite map_map.
      change (map (fun x => snd (pj x)) top) with (map bid top).
      rewrite filter_map. f_equal. apply filter_ext_in. intros b Hb.
      rewrite (R_inter _ _ _ H l J b Hl E (Htop _ _ eq_refl b Hb)). symmetry; apply negb_involutive.
    - destruct (rev (env s)) as [|top r] eqn:Er; cbn [map pruned skipped]; [apply (R_skip _ _ _ H)|].
      rewrite filter_none; [apply (R_skip _ _ _ H)|].
      intros b Hb. apply mem_id_false. intros Hi.
      apply (R_seen _ _ _ H l Hl) in E. apply E.
      eapply (R_sub _ _ _ H); eauto. }
  destruct H as [H1 H2 H3 H4 H5 H6 H7 H8].
  constructor; rewrite ?s_label_env, ?s_label_snext, ?s_label_seen, ?at_label_stack, ?at_label_next; auto.
  - intros l' J i HS. apply at_label_lookup in HS. eapply H5; eauto.
  - intros l' Hl'. cbn [In] in Hl'. rewrite at_label_lookup_other by (intros ->; tauto).
    apply H6. tauto.
  - intros l' J b Hl' HS Hb. cbn [In] in Hl'.
    rewrite at_label_lookup_other in HS by (intros ->; tauto). apply H7; tauto.
Qed.

(* ---- statements ------------------------------------------------------------ *)

Lemma an_block b st :
  an_stmt (SBlock b) st = let '(st1, c) := an_list b (push_scope st) in (pop_scope st1, c).
Proof. reflexivity. Qed.

Lemma sp_block b st :
  sp_stmt (SBlock b) st = let '(st1, c) := sp_list b (s_push st) in (s_pop st1, c).
Proof. reflexivity. Qed.

Definition stmt_ok (s : stmt) : Prop := forall done st ss,
  R done st ss -> once done (ev_stmt s) = true ->
  snd (an_stmt s st) = snd (sp_stmt s ss) /\
  R (passed done (ev_stmt s)) (fst (an_stmt s st)) (fst (sp_stmt s ss)).

Lemma list_ok b : Forall stmt_ok b -> forall done st ss,
  R done st ss -> once done (ev_list b) = true ->
  snd (an_list b st) = snd (sp_list b ss) /\
  R (passed done (ev_list b)) (fst (an_list b st)) (fst (sp_list b ss)).
Proof.
  induction 1 as [|s rest Hs _ IH]; intros done st ss HR Hw; [now split|].
  unfold ev_list in *. cbn [flat_map an_list sp_list] in *.
  rewrite once_app in Hw. apply andb_true_iff in Hw. destruct Hw as [Hw1 Hw2].
  rewrite passed_app.
  destruct (Hs _ _ _ HR Hw1) as [Hc HR1].
  destruct (an_stmt s st) as [st1 c1], (sp_stmt s ss) as [ss1 c1']. cbn [fst snd] in *.
  destruct (IH _ _ _ HR1 Hw2) as [Hc2 HR2].
  destruct (an_list rest st1) as [st2 c2], (sp_list rest ss1) as [ss2 c2']. cbn [fst snd] in *.
  subst. now split.
Qed.

Lemma stmt_ok_all : forall s, stmt_ok s.
Proof.
  induction s as [v us|us|l|l|us t IHt|us t e IHt IHe|b IHb|] using stmt_ind2;
    intros done st ss HR Hw.
  - cbn [an_stmt sp_stmt ev_stmt passed].
    destruct (R_uses done us _ _ HR) as [Hc HR1].
    destruct (uses us st) as [st1 c1], (suses us ss) as [ss1 c1']. cbn [fst snd] in *.
    destruct (R_declare done v _ _ HR1) as [Hd HR2].
    destruct (declare v st1) as [st2 d], (sdeclare v ss1) as [ss2 d']. cbn [fst snd] in *.
    subst. now split.
  - cbn [an_stmt sp_stmt ev_stmt passed]. now apply R_uses.
  - cbn [an_stmt sp_stmt ev_stmt passed fst snd]. split; [reflexivity|now apply R_goto].
  - cbn [an_stmt sp_stmt ev_stmt passed fst snd once] in *.
    apply andb_true_iff in Hw. destruct Hw as [Hw _].
    split; [reflexivity|]. apply R_label; [assumption|].
    apply mem_id_false. now destruct (mem_id l done).
  - cbn [an_stmt sp_stmt ev_stmt] in *. rewrite app_nil_r in *.
    destruct (R_uses done us _ _ HR) as [Hc HR1].
    destruct (uses us st) as [st1 c1], (suses us ss) as [ss1 c1']. cbn [fst snd] in *.
    destruct (IHt _ _ _ HR1 Hw) as [Hc2 HR2].
    destruct (an_stmt t st1) as [st2 c2], (sp_stmt t ss1) as [ss2 c2']. cbn [fst snd] in *.
    subst. now split.
  - cbn [an_stmt sp_stmt ev_stmt] in *.
    rewrite once_app in Hw. apply andb_true_iff in Hw. destruct Hw as [Hw1 Hw2].
    rewrite passed_app.
    destruct (R_uses done us _ _ HR) as [Hc HR1].
    destruct (uses us st) as [st1 c1], (suses us ss) as [ss1 c1']. cbn [fst snd] in *.
    destruct (IHt _ _ _ HR1 Hw1) as [Hc2 HR2].
    destruct (an_stmt t st1) as [st2 c2], (sp_stmt t ss1) as [ss2 c2']. cbn [fst snd] in *.
    destruct (IHe _ _ _ HR2 Hw2) as [Hc3 HR3].
    destruct (an_stmt e st2) as [st3 c3], (sp_stmt e ss2) as [ss3 c3']. cbn [fst snd] in *.
    subst. now split.
  - rewrite an_block, sp_block. cbn [ev_stmt] in *. fold (ev_list b) in *.
    destruct (list_ok b IHb done _ _ (R_push _ _ _ HR) Hw) as [Hc HR1].
    destruct (an_list b (push_scope st)) as [st1 c1], (sp_list b (s_push ss)) as [ss1 c1'].
    cbn [fst snd] in *. split; [assumption|now apply R_pop].
  - cbn [an_stmt sp_stmt ev_stmt passed fst snd]. now split.
Qed.

Lemma an_list_ok b done st ss :
  R done st ss -> once done (ev_list b) = true ->
  snd (an_list b st) = snd (sp_list b ss) /\
  R (passed done (ev_list b)) (fst (an_list b st)) (fst (sp_list b ss)).
Proof. apply list_ok. apply Forall_forall. intros s _. apply stmt_ok_all. Qed.

(* ---- functions and programs ------------------------------------------------ *)

Lemma params_ok done ps : forall st ss,
  R done st ss ->
  snd (declare_params ps st) = snd (sdeclare_params ps ss) /\
  R done (fst (declare_params ps st)) (fst (sdeclare_params ps ss)).
Proof.
  induction ps as [|p ps IH]; intros st ss HR; [now split|].
  cbn [declare_params sdeclare_params].
  destruct (R_declare done p _ _ HR) as [Hd HR1].
  destruct (declare p st) as [st1 d], (sdeclare p ss) as [ss1 d']. cbn [fst snd] in *.
  destruct (IH _ _ HR1) as [Hc HR2].
  destruct (declare_params ps st1) as [st2 c], (sdeclare_params ps ss1) as [ss2 c']. cbn [fst snd] in *.
  subst. now split.
Qed.

Lemma func_ok f done st ss :
  R done st ss -> once done (ev_func f) = true ->
  snd (an_func f st) = snd (sp_func f ss) /\
  R (passed done (ev_func f)) (fst (an_func f st)) (fst (sp_func f ss)).
Proof.
  intros HR Hw. unfold an_func, sp_func, ev_func in *.
  destruct (params_ok done (params f) _ _ (R_push _ _ _ HR)) as [Hc0 HR0].
  destruct (declare_params (params f) (push_scope st)) as [st0 c0],
           (sdeclare_params (params f) (s_push ss)) as [ss0 c0']. cbn [fst snd] in *.
  destruct (an_list_ok (body f) done _ _ (R_push _ _ _ HR0) Hw) as [Hc1 HR1].
  destruct (an_list (body f) (push_scope st0)) as [st1 c1],
           (sp_list (body f) (s_push ss0)) as [ss1 c1']. cbn [fst snd] in *.
  destruct (R_uses _ (ret f) _ _ HR1) as [Hc2 HR2].
  destruct (uses (ret f) st1) as [st2 c2], (suses (ret f) ss1) as [ss2 c2']. cbn [fst snd] in *.
  subst. split; [reflexivity|]. now apply R_pop, R_pop.
Qed.

Lemma funcs_ok fs : forall done st ss,
  R done st ss -> once done (events fs) = true -> an_funcs fs st = sp_funcs fs ss.
Proof.
  induction fs as [|f fs IH]; intros done st ss HR Hw; [reflexivity|].
  unfold events in *. cbn [flat_map an_funcs sp_funcs] in *.
  rewrite once_app in Hw. apply andb_true_iff in Hw. destruct Hw as [Hw1 Hw2].
  destruct (func_ok f done _ _ HR Hw1) as [Hc HR1].
  destruct (an_func f st) as [st1 c1], (sp_func f ss) as [ss1 c1']. cbn [fst snd] in *.
  subst. f_equal. eapply IH; eauto.
Qed.

Lemma consts_ok done cs : forall st ss,
  R done st ss -> R done (declare_consts cs st) (sdeclare_consts cs ss).
Proof.
  induction cs as [|c cs IH]; intros st ss HR; [assumption|].
  cbn [declare_consts sdeclare_consts]. apply IH. now apply R_declare.
Qed.

(* Main theorem, under the weak hypothesis: every label id is declared at most
   once along the traversal. *)
Theorem an_program_eq_spec_once : forall consts fs,
  labels_once fs -> an_program consts fs = spec_program consts fs.
Proof.
  intros consts fs Hw. unfold an_program, spec_program.
  apply (funcs_ok fs [] _ _ (consts_ok [] consts _ _ R_init) Hw).
Qed.

Lemma wf_labels_once fs : wf_labels fs -> labels_once fs.
Proof. apply wf_ev_once. Qed.

Theorem an_program_eq_spec : forall consts fs,
  wf_labels fs -> an_program consts fs = spec_program consts fs.
Proof. intros consts fs H. apply an_program_eq_spec_once, wf_labels_once, H. Qed.

(* Without the hypothesis the two differ: a label id declared twice. *)
Lemma an_program_neq_spec_without_wf : exists fs, an_program [] fs <> spec_program [] fs.
Proof.
  exists [ {| params := []; ret := [];
              body := [SGoto 1; SLabel 1; SDecl 7 []; SLabel 1; SUse [7]] |} ]%N.
  vm_compute. discriminate.
Qed.

(* Backward jumps (goto after its label) are covered by [labels_once] although
   they are excluded by [wf_labels]. *)
Example labels_once_backward_goto :
  let fs := [ {| params := []; ret := [];
                 body := [SLabel 1; SDecl 7 []; SGoto 1; SUse [7]] |} ]%N in
  labels_once fs /\ ~ wf_labels fs.
Proof. split; vm_compute; [reflexivity|discriminate]. Qed.

(* ---- direct facts about the model ----------------------------------------- *)

Lemma use_undefined_iff : forall x st,
  snd (use x st) = [E402] <-> find_name x (stack st) = None.
Proof.
  intros x st. unfold use. destruct (find_name x (stack st)) as [i|].
  - destruct (mem_id i (pruned st)); cbn [snd]; split; intros H; discriminate H.
  - cbn [snd]. split; reflexivity.
Qed.

Lemma declare_dup_iff : forall x st,
  snd (declare x st) = true <-> exists i, find_name x (stack st) = Some i.
Proof.
  intros x st. unfold declare. cbn [snd]. destruct (find_name x (stack st)) as [i|].
  - split; [eauto|reflexivity].
  - split; [discriminate|]. intros [i H]. discriminate H.
Qed.

Print Assumptions an_program_eq_spec.
Print Assumptions an_program_eq_spec_once.
