(* Proofs about Model/CallFrame.v: what the mutability gate (Model/Mutability.v)
   guarantees about MEMORY (property C08).

   Main results
     callee_writes_confined   for every address set A and memory typing K to which
                              the frame is confined ([frame_safe]): an accepted body
                              whose execution is defined leaves every address
                              outside A unchanged (and the frame stays confined).
     view_object_unchanged, constant_unchanged
                              corollaries (a), (c): anything disjoint from A -- the
                              target of a view, a constant, any set `Caller` -- is
                              bit-for-bit unchanged.
     flat_frame_confined, no_pointer_parameter_no_effect
                              frames whose visible objects hold no pointer cells: no
                              hypothesis on memory; only the callee's variables and
                              the targets of &T / &[]T parameters change; corollary
                              (b): no pointer parameter, nothing of the caller's.
     body_codes_literal       the verdict is Mutability.mut_stmts' on the translated
                              body.
   Refutations (vm_compute witnesses)
     pointer_params_only_refuted, pointer_params_only_refuted_slice
                              THE PROPERTY AS WORDED IS FALSE OF THE COMPILER: a
                              pointer stored in a structure passed as a view (or in
                              an array passed as []&T) can be written through;
                              the parameter has no pointer type.  Confirmed with the
                              real compiler (exit code 5 for the program quoted at
                              the theorem).  [frame_safe] therefore asks the pointers
                              stored in view targets to point into A as well.
     untyped_memory_refuted   the typing K is needed (an i64 and a pointer cell at
                              the same address).
   Examples: pointer_param_writes_caller, view_write_rejected (the rejected store
   WOULD change the caller's array), aliasing_example (f(a, &a)),
   repoint_pointer_param_rejected, address_of_view_element_rejected,
   locals_and_pointer_example, flat_frame_example, holder_view_confined. *)
From PV Require Import Base.Common Model.Layout Proofs.LayoutProofs Model.MemLower
  Proofs.MemLowerProofs Model.CallFrame.
From PV Require Model.Mutability.
Open Scope Z_scope.

(* ---- induction principle ------------------------------------------------------- *)

Section lt_ind2.
  Variable P : lt -> Prop.
  Hypothesis HI : forall b, P (LInt b).
  Hypothesis HB : P LBool.
  Hypothesis HP : forall u, P u -> P (LPtr u).
  Hypothesis HA : forall n e, P e -> P (LArr n e).
  Hypothesis HS : forall ms, Forall P ms -> P (LStruct ms).
  Fixpoint lt_ind2 (t : lt) : P t :=
    match t with
    | LInt b => HI b
    | LBool => HB
    | LPtr u => HP u (lt_ind2 u)
    | LArr n e => HA n e (lt_ind2 e)
    | LStruct ms => HS ms ((fix go (l : list lt) : Forall P l :=
                              match l with
                              | [] => Forall_nil P
                              | x :: xs => Forall_cons x (lt_ind2 x) (go xs)
                              end) ms)
    end.
End lt_ind2.

(* ---- the invariant: typed, confined objects -------------------------------------- *)

(* A shadow typing of memory: every byte is a data byte, or byte j of a cell
   holding a pointer to a [u].  It forbids what a well-typed caller cannot build:
   an integer and a pointer (or pointers of different pointee types) at the same
   address. *)
Inductive ktag : Type :=
| KData
| KPtr (u : lt) (j : Z).

Definition bytes_ok (A : Z -> Prop) (K : Z -> ktag) (w : bool) (a n : Z) : Prop :=
  forall j, 0 <= j < n -> K (a + j) = KData /\ (w = true -> A (a + j)).

(* [safe m A K w T a]: the object of type T at a is typed by K; if [w] its bytes
   lie in A; every pointer cell in it that holds a value points to an object that
   is typed by K, LIES IN A, and so on, transitively.  (Recursion on the type: a
   pointee type is a subterm.) *)
Fixpoint safe (m : mem) (A : Z -> Prop) (K : Z -> ktag) (w : bool) (T : lt) (a : Z)
  {struct T} : Prop :=
  match T with
  | LInt b => bytes_ok A K w a (lsize (LInt b))
  | LBool => bytes_ok A K w a (lsize LBool)
  | LPtr u =>
      (forall j, 0 <= j < 8 -> K (a + j) = KPtr u j /\ (w = true -> A (a + j)))
      /\ (forall z, load_scalar m a 8 = Some z -> safe m A K true u z)
  | LArr n e => forall i, 0 <= i < n -> safe m A K w e (a + i * lsize e)
  | LStruct ms =>
      (fix go (l : list lt) (offs : list Z) : Prop :=
         match l, offs with
         | x :: r, off :: offs' => safe m A K w x (a + off) /\ go r offs'
         | _, _ => True
         end) ms (struct_offsets (erase_list ms))
  end.

Fixpoint safe_members (m : mem) (A : Z -> Prop) (K : Z -> ktag) (w : bool) (a : Z)
  (l : list lt) (offs : list Z) : Prop :=
  match l, offs with
  | x :: r, off :: offs' => safe m A K w x (a + off) /\ safe_members m A K w a r offs'
  | _, _ => True
  end.

Lemma safe_struct m A K w ms a :
  safe m A K w (LStruct ms) a = safe_members m A K w a ms (struct_offsets (erase_list ms)).
Proof.
  cbn [safe]. generalize (struct_offsets (erase_list ms)) as offs.
  induction ms as [|x r IH]; intros offs; [reflexivity|].
  destruct offs as [|off offs']; cbn [safe_members]; [reflexivity|]. now rewrite IH.
Qed.

Lemma safe_members_nth m A K w a : forall ms offs k mk off,
  safe_members m A K w a ms offs ->
  nth_error ms k = Some mk -> nth_error offs k = Some off -> safe m A K w mk (a + off).
Proof.
  induction ms as [|x r IH]; intros offs k mk off H Hm Ho; [destruct k; discriminate|].
  destruct offs as [|o offs']; [destruct k; discriminate|].
  cbn [safe_members] in H. destruct H as [H0 Hr].
  destruct k as [|k']; cbn [nth_error] in Hm, Ho.
  - inversion Hm; inversion Ho; subst. exact H0.
  - eapply IH; eassumption.
Qed.

Lemma safe_members_map m A K w a m' A' K' w' : forall ms offs,
  Forall (fun x => forall b, safe m A K w x b -> safe m' A' K' w' x b) ms ->
  safe_members m A K w a ms offs -> safe_members m' A' K' w' a ms offs.
Proof.
  induction ms as [|x r IH]; intros offs HF H; [exact I|].
  destruct offs as [|o offs']; [exact I|].
  cbn [safe_members] in *. inversion HF as [|? ? Hx Hr]; subst.
  destruct H as [H0 H1]. split; [now apply Hx|now apply IH].
Qed.

(* Writable implies readable. *)
Lemma safe_weaken m A K : forall T w a, safe m A K true T a -> safe m A K w T a.
Proof.
  induction T as [b| |u IHu|n e IHe|ms IHms] using lt_ind2; intros w a H.
  - cbn [safe] in *. intros j Hj. destruct (H j Hj) as [H1 H2]. split; [exact H1|].
    intros _. now apply H2.
  - cbn [safe] in *. intros j Hj. destruct (H j Hj) as [H1 H2]. split; [exact H1|].
    intros _. now apply H2.
  - cbn [safe] in *. destruct H as [H1 H2]. split; [|exact H2].
    intros j Hj. destruct (H1 j Hj) as [H3 H4]. split; [exact H3|]. intros _. now apply H4.
  - cbn [safe] in *. intros i Hi. apply IHe. now apply H.
  - rewrite safe_struct in *. eapply safe_members_map; [|exact H].
    eapply Forall_impl; [|exact IHms]. intros x Hx b Hb. now apply Hx.
Qed.

(* ---- loads depend on the bytes read ------------------------------------------------- *)

Lemma check_frag_ext m m' a z n : forall k i,
  (forall j, i <= j < i + Z.of_nat k -> m' (a + j) = m (a + j)) ->
  check_frag m' a z n i k = check_frag m a z n i k.
Proof.
  induction k as [|k IH]; intros i H; [reflexivity|].
  cbn [check_frag]. rewrite (H i) by lia. destruct (m (a + i)); [reflexivity|].
  rewrite IH; [reflexivity|]. intros j Hj. apply H. lia.
Qed.

Lemma load_scalar_ext m m' a n :
  0 < n -> (forall j, 0 <= j < n -> m' (a + j) = m (a + j)) ->
  load_scalar m' a n = load_scalar m a n.
Proof.
  intros Hn H. unfold load_scalar.
  pose proof (H 0 ltac:(lia)) as H0. rewrite Z.add_0_r in H0. rewrite H0.
  destruct (m a); [reflexivity|].
  rewrite (check_frag_ext m m' a z n (Z.to_nat n) 0); [reflexivity|].
  intros j Hj. apply H. lia.
Qed.

(* A store that leaves all pointer cells alone preserves the invariant. *)
Lemma safe_ext m m' A K :
  (forall x, K x <> KData -> m' x = m x) ->
  forall T w a, safe m A K w T a -> safe m' A K w T a.
Proof.
  intros Hext.
  induction T as [b| |u IHu|n e IHe|ms IHms] using lt_ind2; intros w a H.
  - exact H.
  - exact H.
  - cbn [safe] in *. destruct H as [H1 H2]. split; [exact H1|].
    intros z Hz. apply IHu. apply H2. rewrite <- Hz. symmetry.
    apply load_scalar_ext; [lia|]. intros j Hj. apply Hext.
    destruct (H1 j Hj) as [Hk _]. rewrite Hk. discriminate.
  - cbn [safe] in *. intros i Hi. apply IHe. now apply H.
  - rewrite safe_struct in *. eapply safe_members_map; [|exact H].
    eapply Forall_impl; [|exact IHms]. intros x Hx b Hb. now apply Hx.
Qed.

Lemma load_scalar_store_ptr m c z : load_scalar (store m c TPtr (VS z)) c 8 = Some z.
Proof.
  apply load_scalar_ok; [lia|]. intros j Hj.
  rewrite store_inside by (change (llvm_alloc_size TPtr) with 8; lia).
  replace (c + j - c) with j by lia. cbn [enc].
  destruct (Z.leb_spec 0 j); destruct (Z.ltb_spec j 8); try lia. reflexivity.
Qed.

(* Storing a confined pointer into a pointer cell of the right pointee type
   preserves the invariant. *)
Lemma safe_ptr_store m A K c u z :
  (forall j, 0 <= j < 8 -> K (c + j) = KPtr u j) ->
  safe m A K true u z ->
  forall T w a, safe m A K w T a -> safe (store m c TPtr (VS z)) A K w T a.
Proof.
  intros Hc Hz.
  induction T as [b| |u1 IHu|n e IHe|ms IHms] using lt_ind2; intros w a H.
  - exact H.
  - exact H.
  - cbn [safe] in *. destruct H as [H1 H2]. split; [exact H1|].
    intros z1 Hz1.
    destruct (Z.eq_dec a c) as [->|Hne].
    + rewrite load_scalar_store_ptr in Hz1. inversion Hz1; subst z1.
      destruct (H1 0 ltac:(lia)) as [Hk _]. rewrite (Hc 0 ltac:(lia)) in Hk.
      inversion Hk; subst u1. apply IHu. exact Hz.
    + apply IHu. apply H2. rewrite <- Hz1. symmetry.
      apply load_scalar_ext; [lia|]. intros j Hj.
      apply store_frame. change (llvm_alloc_size TPtr) with 8.
      destruct (Z.lt_ge_cases (a + j) c) as [Hlt|Hge]; [left; exact Hlt|].
      destruct (Z.lt_ge_cases (a + j) (c + 8)) as [Hin|Hout]; [|right; exact Hout].
      exfalso. destruct (H1 j Hj) as [Hk _].
      replace (a + j) with (c + (a + j - c)) in Hk by lia.
      rewrite (Hc (a + j - c) ltac:(lia)) in Hk. inversion Hk. lia.
  - cbn [safe] in *. intros i Hi. apply IHe. now apply H.
  - rewrite safe_struct in *. eapply safe_members_map; [|exact H].
    eapply Forall_impl; [|exact IHms]. intros x Hx b Hb. now apply Hx.
Qed.

(* ---- locations -------------------------------------------------------------------- *)

Definition with_len (slen : option Z) (T : lt) : lt :=
  match slen, T with
  | Some len, LArr _ e => LArr len e
  | _, _ => T
  end.

(* The location l (with the slice length known right after an Autodeslice) holds a
   value of Penne type t, confined; [w]: the object may be written. *)
Definition loc_ok (m : mem) (A : Z -> Prop) (K : Z -> ktag) (w : bool) (l : loc)
  (slen : option Z) (t : pty) : Prop :=
  match l with
  | LocMem a T => T = gen t /\ safe m A K w (with_len slen T) a
  | LocPtr z U =>
      match t with
      | PPtr u => U = gen u /\ safe m A K true U z
      | PView u => U = gen u /\ safe m A K w U z
      | _ => False
      end
  | LocSlice p len E =>
      match t with
      | PSlicePtr e => E = gen e /\ safe m A K true (LArr len E) p
      | PSlice e => E = gen e /\ safe m A K w (LArr len E) p
      | _ => False
      end
  end.

Lemma loc_ok_mono m m' A K :
  (forall T w a, safe m A K w T a -> safe m' A K w T a) ->
  forall w l slen t, loc_ok m A K w l slen t -> loc_ok m' A K w l slen t.
Proof.
  intros Hs w l slen t H. destruct l as [a T|z U|p len E]; cbn [loc_ok] in *.
  - destruct H as [H1 H2]. split; [exact H1|now apply Hs].
  - destruct t; try exact H; destruct H as [H1 H2]; (split; [exact H1|now apply Hs]).
  - destruct t; try exact H; destruct H as [H1 H2]; (split; [exact H1|now apply Hs]).
Qed.

Fixpoint gen_list (l : list pty) : list lt :=
  match l with
  | [] => []
  | x :: r => gen x :: gen_list r
  end.

Lemma gen_struct ms : gen (PStruct ms) = LStruct (gen_list ms).
Proof.
  cbn [gen]. f_equal.
Qed.

Lemma gen_list_nth ms : forall k mk,
  nth_error ms k = Some mk -> nth_error (gen_list ms) k = Some (gen mk).
Proof.
  induction ms as [|x r IH]; intros k mk H; [destruct k; discriminate|].
  destruct k as [|k']; cbn [nth_error gen_list] in *; [now inversion H|now apply IH].
Qed.

Lemma with_len_struct slen ms : with_len slen (LStruct ms) = LStruct ms.
Proof. now destruct slen. Qed.

Lemma with_len_ptr slen u : with_len slen (LPtr u) = LPtr u.
Proof. now destruct slen. Qed.

Definition crosses := Mutability.crosses_pointer.

(* The walk: a typed chain started at a confined location ends at a confined
   location; the end may be written if the start may, or if the chain crossed a
   pointer (Autoderef, Autodeslice ArrayByPointer). *)
Lemma walk_ok m A K : forall rs t ch t' l slen w l',
  mut_chain t rs = Some (ch, t') ->
  (slen = None \/ exists e, t = PArr 0 e) ->
  loc_ok m A K w l slen t ->
  sem_checked m l slen rs = Some l' ->
  exists slen', loc_ok m A K (w || crosses ch) l' slen' t' /\
                (slen' = None \/ exists e, t' = PArr 0 e).
Proof.
  induction rs as [|s rest IH]; intros t ch t' l slen w l' Hc Hsl Hl Hs.
  - cbn [mut_chain] in Hc. inversion Hc; subst ch t'. cbn [sem_checked] in Hs.
    inversion Hs; subst l'. exists slen. unfold crosses. cbn. rewrite orb_false_r.
    split; assumption.
  - cbn [sem_checked] in Hs.
    destruct (step_defined l slen s) eqn:Hdef; [|discriminate].
    destruct (sem_step m l s) as [l1|] eqn:Hstep; [|discriminate].
    cbn [mut_chain] in Hc.
    destruct s as [i endless|k| | | |].
    + (* Element *)
      destruct endless; [discriminate|]. destruct t; try discriminate.
      destruct (mut_chain t rest) as [[ch0 t0]|] eqn:Hc0; [|discriminate].
      cbn [cons_step] in Hc. inversion Hc; subst ch t'.
      destruct l as [a T|z U|p len E]; cbn [loc_ok] in Hl; try contradiction.
      destruct Hl as [-> Hsafe]. cbn [gen] in *.
      cbn [sem_step] in Hstep. inversion Hstep; subst l1.
      cbn [step_defined] in Hdef. apply andb_true_iff in Hdef as [Hlo Hhi].
      apply Z.leb_le in Hlo. apply Z.ltb_lt in Hhi.
      destruct (IH t ch0 t0 (LocMem (a + i * lsize (gen t)) (gen t)) None w l' Hc0 (or_introl eq_refl))
        as [slen' Hok].
      * cbn [loc_ok]. split; [reflexivity|]. cbn [with_len].
        destruct slen as [len|]; cbn [with_len safe] in Hsafe; apply Hsafe; lia.
      * exact Hs.
      * exists slen'. exact Hok.
    + (* Member *)
      destruct t; try discriminate.
      destruct (nth_error ms k) as [mk|] eqn:Hmk; [|discriminate].
      destruct (mut_chain mk rest) as [[ch0 t0]|] eqn:Hc0; [|discriminate].
      cbn [cons_step] in Hc. inversion Hc; subst ch t'.
      destruct l as [a T|z U|p len E]; cbn [loc_ok] in Hl; try contradiction.
      destruct Hl as [-> Hsafe]. rewrite gen_struct in *. rewrite with_len_struct in Hsafe.
      cbn [sem_step] in Hstep. rewrite (gen_list_nth ms k mk Hmk) in Hstep.
      destruct (nth_error (struct_offsets (erase_list (gen_list ms))) k) as [off|] eqn:Hoff;
        [|discriminate].
      inversion Hstep; subst l1. rewrite safe_struct in Hsafe.
      destruct (IH mk ch0 t0 (LocMem (a + off) (gen mk)) None w l' Hc0 (or_introl eq_refl)) as [slen' Hok].
      * cbn [loc_ok]. split; [reflexivity|]. cbn [with_len].
        eapply safe_members_nth; [exact Hsafe|apply gen_list_nth; exact Hmk|exact Hoff].
      * exact Hs.
      * exists slen'. exact Hok.
    + (* Autoderef *)
      destruct t; try discriminate.
      destruct (mut_chain t rest) as [[ch0 t0]|] eqn:Hc0; [|discriminate].
      cbn [cons_step] in Hc. inversion Hc; subst ch t'.
      assert (Hw : w || crosses (Mutability.Autoderef :: ch0) = true || crosses ch0).
      { unfold crosses. cbn. now rewrite orb_true_r. }
      rewrite Hw.
      destruct l as [a T|z U|p len E]; cbn [loc_ok] in Hl; try contradiction.
      * destruct Hl as [-> Hsafe]. cbn [gen] in *. rewrite with_len_ptr in Hsafe.
        cbn [sem_step] in Hstep.
        destruct (load_scalar m a 8) as [z|] eqn:Hld; [|discriminate].
        inversion Hstep; subst l1. cbn [safe] in Hsafe. destruct Hsafe as [_ Hp].
        apply (IH t ch0 t0 (LocMem z (gen t)) None true l' Hc0 (or_introl eq_refl)); [|exact Hs].
        cbn [loc_ok with_len]. split; [reflexivity|now apply Hp].
      * destruct Hl as [-> Hsafe]. cbn [sem_step] in Hstep. inversion Hstep; subst l1.
        apply (IH t ch0 t0 (LocMem z (gen t)) None true l' Hc0 (or_introl eq_refl)); [|exact Hs].
        cbn [loc_ok with_len]. split; [reflexivity|exact Hsafe].
    + (* Autoview *)
      destruct t; try discriminate.
      destruct (mut_chain t rest) as [[ch0 t0]|] eqn:Hc0; [|discriminate].
      cbn [cons_step] in Hc. inversion Hc; subst ch t'.
      assert (Hw : w || crosses (Mutability.Autoview :: ch0) = w || crosses ch0).
      { unfold crosses. reflexivity. }
      rewrite Hw.
      destruct l as [a T|z U|p len E]; cbn [loc_ok] in Hl; try contradiction.
      * destruct Hl as [-> Hsafe]. cbn [gen] in *. rewrite with_len_ptr in Hsafe.
        cbn [sem_step] in Hstep.
        destruct (load_scalar m a 8) as [z|] eqn:Hld; [|discriminate].
        inversion Hstep; subst l1. cbn [safe] in Hsafe. destruct Hsafe as [_ Hp].
        apply (IH t ch0 t0 (LocMem z (gen t)) None w l' Hc0 (or_introl eq_refl)); [|exact Hs].
        cbn [loc_ok with_len]. split; [reflexivity|]. apply safe_weaken. now apply Hp.
      * destruct Hl as [-> Hsafe]. cbn [sem_step] in Hstep. inversion Hstep; subst l1.
        apply (IH t ch0 t0 (LocMem z (gen t)) None w l' Hc0 (or_introl eq_refl)); [|exact Hs].
        cbn [loc_ok with_len]. split; [reflexivity|exact Hsafe].
    + (* Autodeslice{0} *)
      destruct t; try discriminate.
      * (* PSlice: ArrayByView *)
        destruct (mut_chain (PArr 0 t) rest) as [[ch0 t0]|] eqn:Hc0; [|discriminate].
        cbn [cons_step] in Hc. inversion Hc; subst ch t'.
        assert (Hw : w || crosses (Mutability.AutodesliceByView :: ch0) = w || crosses ch0).
        { unfold crosses. reflexivity. }
        rewrite Hw.
        destruct l as [a T|z U|p len E]; cbn [loc_ok] in Hl; try contradiction.
        -- destruct T; discriminate.
        -- destruct Hl as [-> Hsafe]. cbn [sem_step] in Hstep. inversion Hstep; subst l1.
           cbn [next_slen] in Hs.
           apply (IH (PArr 0 t) ch0 t0 (LocMem p (LArr 0 (gen t))) (Some len) w l' Hc0 (or_intror (ex_intro _ t eq_refl)));
             [|exact Hs].
           cbn [loc_ok with_len gen]. split; [reflexivity|exact Hsafe].
      * (* PSlicePtr: ArrayByPointer *)
        destruct (mut_chain (PArr 0 t) rest) as [[ch0 t0]|] eqn:Hc0; [|discriminate].
        cbn [cons_step] in Hc. inversion Hc; subst ch t'.
        assert (Hw : w || crosses (Mutability.AutodesliceByPointer :: ch0)
                     = true || crosses ch0).
        { unfold crosses. cbn. now rewrite orb_true_r. }
        rewrite Hw.
        destruct l as [a T|z U|p len E]; cbn [loc_ok] in Hl; try contradiction.
        -- destruct T; discriminate.
        -- destruct Hl as [-> Hsafe]. cbn [sem_step] in Hstep. inversion Hstep; subst l1.
           cbn [next_slen] in Hs.
           apply (IH (PArr 0 t) ch0 t0 (LocMem p (LArr 0 (gen t))) (Some len) true l' Hc0 (or_intror (ex_intro _ t eq_refl)));
             [|exact Hs].
           cbn [loc_ok with_len gen]. split; [reflexivity|exact Hsafe].
    + (* Autodeslice{1} *)
      destruct t; discriminate.
Qed.

(* ---- the analyzer state of a frame --------------------------------------------------- *)

(* What Mutability.v records for a binding: only a `var` whose type is not a
   slice / view is mutable. *)
Definition binding_mutable (b : binding) : bool :=
  match b_kind b with
  | KLocal => Mutability.var_is_mutable (Mutability.POk (to_mty (b_ty b)))
  | KParam | KConst => false
  end.

Lemma declare_binding_eq v i b :
  declare_binding v i b = (N.of_nat i, binding_mutable b) :: v.
Proof.
  unfold declare_binding, binding_mutable. destruct (b_kind b); reflexivity.
Qed.

Lemma lookup_later : forall rest j v x,
  (forall k, x <> N.of_nat (j + k)) ->
  Mutability.lookup (frame_menv_from j rest v) x = Mutability.lookup v x.
Proof.
  induction rest as [|b rest IH]; intros j v x Hx; [reflexivity|].
  cbn [frame_menv_from]. rewrite IH.
  - rewrite declare_binding_eq. cbn [Mutability.lookup].
    destruct (N.eqb_spec x (N.of_nat j)) as [He|_]; [|reflexivity].
    exfalso. apply (Hx O). now rewrite Nat.add_0_r.
  - intros k. specialize (Hx (S k)). now rewrite Nat.add_succ_r in Hx.
Qed.

Lemma lookup_frame_menv_from : forall f i v k b,
  nth_error f k = Some b ->
  Mutability.lookup (frame_menv_from i f v) (N.of_nat (i + k)) = Some (binding_mutable b).
Proof.
  induction f as [|b0 rest IH]; intros i v k b Hk; [destruct k; discriminate|].
  cbn [frame_menv_from]. destruct k as [|k'].
  - cbn [nth_error] in Hk. inversion Hk; subst b0. rewrite Nat.add_0_r.
    rewrite lookup_later by (intros k; lia).
    rewrite declare_binding_eq. cbn [Mutability.lookup]. now rewrite N.eqb_refl.
  - cbn [nth_error] in Hk. rewrite <- Nat.add_succ_comm. now apply IH.
Qed.

Lemma lookup_frame_menv f k b :
  nth_error f k = Some b ->
  Mutability.lookup (frame_menv f) (N.of_nat k) = Some (binding_mutable b).
Proof. intros H. exact (lookup_frame_menv_from f O [] k b H). Qed.

Lemma needs_outer_crosses ss :
  Mutability.needs_outer_mutability ss = negb (crosses ss).
Proof.
  unfold crosses, Mutability.crosses_pointer.
  induction ss as [|s rest IH]; [reflexivity|].
  destruct s; cbn [Mutability.needs_outer_mutability existsb Mutability.is_pointer_step
                     orb negb]; auto.
Qed.

(* What a passed use_variable check says about a translated reference. *)
Lemma use_variable_ok f r ads ado mr mutated :
  to_mut_ref_at f r ads ado = Some mr ->
  Mutability.use_variable (frame_menv f) (Mutability.r_base mr) mutated = Mutability.UvOk ->
  exists b rs tfin ch t2,
    nth_error f (r_base r) = Some b /\
    elab_assign (b_ty b) (r_path r) ads = Some (rs, tfin) /\
    mut_chain (b_ty b) rs = Some (ch, t2) /\
    Mutability.r_steps mr = ch /\ Mutability.r_ad mr = ado /\
    (mutated = true -> binding_mutable b = true).
Proof.
  unfold to_mut_ref_at. intros Ht Hu.
  destruct (nth_error f (r_base r)) as [b|] eqn:Hb; [|discriminate].
  destruct (elab_assign (b_ty b) (r_path r) ads) as [[rs tfin]|] eqn:He; [|discriminate].
  destruct (mut_chain (b_ty b) rs) as [[ch t2]|] eqn:Hc; [|discriminate].
  inversion Ht; subst mr. cbn [Mutability.r_base Mutability.r_steps Mutability.r_ad] in *.
  exists b, rs, tfin, ch, t2.
  split; [reflexivity|]. split; [exact He|]. split; [exact Hc|].
  split; [reflexivity|]. split; [reflexivity|].
  intros ->. unfold Mutability.use_variable in Hu.
  rewrite (lookup_frame_menv f _ b Hb) in Hu.
  destruct (binding_mutable b); [reflexivity|]. cbn in Hu. discriminate.
Qed.

(* ---- confined frames --------------------------------------------------------------- *)

Definition binding_safe (m : mem) (A : Z -> Prop) (K : Z -> ktag) (b : binding) : Prop :=
  match base_loc b with
  | Some l => loc_ok m A K (binding_mutable b) l None (b_ty b)
  | None => True
  end.

Definition frame_safe (m : mem) (A : Z -> Prop) (K : Z -> ktag) (f : frame) : Prop :=
  forall k b, nth_error f k = Some b -> binding_safe m A K b.

Lemma frame_safe_mono m m' A K f :
  (forall T w a, safe m A K w T a -> safe m' A K w T a) ->
  frame_safe m A K f -> frame_safe m' A K f.
Proof.
  intros Hs Hf k b Hk. specialize (Hf k b Hk). unfold binding_safe in *.
  destruct (base_loc b); [|exact I]. eapply loc_ok_mono; eassumption.
Qed.

(* A reference the gate lets be written (or have its address taken) denotes a
   confined, writable object. *)
Lemma ref_loc_writable m A K f r b rs tfin ch t2 a T :
  frame_safe m A K f ->
  nth_error f (r_base r) = Some b ->
  elab_assign (b_ty b) (r_path r) (r_ad r) = Some (rs, tfin) ->
  mut_chain (b_ty b) rs = Some (ch, t2) ->
  binding_mutable b || crosses ch = true ->
  ref_loc m f r = Some (a, T) ->
  T = gen t2 /\ safe m A K true T a.
Proof.
  intros Hf Hb He Hc Hw Hr. unfold ref_loc in Hr. rewrite Hb, He in Hr.
  specialize (Hf _ _ Hb). unfold binding_safe in Hf.
  destruct (base_loc b) as [l|]; [|discriminate].
  destruct (sem_checked m l None rs) as [l'|] eqn:Hs; [|discriminate].
  destruct (walk_ok m A K rs (b_ty b) ch t2 l None (binding_mutable b) l' Hc
              (or_introl eq_refl) Hf Hs) as [slen' [Hok Hsl]].
  rewrite Hw in Hok. destruct l' as [a' T'|? ?|? ? ?]; try discriminate.
  inversion Hr; subst a' T'. cbn [loc_ok] in Hok. destruct Hok as [HT Hsafe].
  split; [exact HT|].
  destruct Hsl as [->|[e ->]]; [exact Hsafe|].
  (* The chain ended right after an Autodeslice: the object is the slice's array
     seen at type [0 x e]; [safe] at that type is vacuous. *)
  cbn [gen] in HT. subst T. cbn [safe]. intros i Hi. lia.
Qed.

Lemma is_nil_true {X} (l : list X) : is_nil l = true -> l = [].
Proof. destruct l; [reflexivity|discriminate]. Qed.

(* The dst of an accepted statement. *)
Lemma accepted_dst m A K f d value a T :
  frame_safe m A K f ->
  forall d',
  to_mut_ref f d = Some d' ->
  snd (Mutability.mut_stmt (frame_menv f) (Mutability.SAssignment d' value)) = [] ->
  ref_loc m f d = Some (a, T) ->
  safe m A K true T a /\ Mutability.mut_expr (frame_menv f) value = [].
Proof.
  intros Hf d' Hd Hcodes Hr. cbn [Mutability.mut_stmt snd] in Hcodes.
  destruct (Mutability.use_variable (frame_menv f) (Mutability.r_base d')
              (Mutability.needs_outer_mutability (Mutability.r_steps d'))) eqn:Hu;
    try discriminate.
  apply app_eq_nil in Hcodes as [Hv _].
  destruct (use_variable_ok f d (r_ad d) 0%N d' _ Hd Hu)
    as (b & rs & tfin & ch & t2 & Hb & He & Hc & Hsteps & _ & Hmut).
  split; [|exact Hv].
  refine (proj2 (ref_loc_writable m A K f d b rs tfin ch t2 a T Hf Hb He Hc _ Hr)).
  rewrite Hsteps, needs_outer_crosses in Hmut.
  destruct (crosses ch); [now rewrite orb_true_r|]. rewrite Hmut; reflexivity.
Qed.

Lemma lt_eqb_eq : forall a b, lt_eqb a b = true -> a = b.
Proof.
  induction a as [x| |u IHu|n e IHe|ms IHms] using lt_ind2; intros b H;
    destruct b as [y| |v|k e'|ys]; try discriminate.
  - cbn [lt_eqb] in H. apply Z.eqb_eq in H. now subst.
  - reflexivity.
  - cbn [lt_eqb] in H. f_equal. now apply IHu.
  - cbn [lt_eqb] in H. apply andb_true_iff in H as [H1 H2]. apply Z.eqb_eq in H1.
    subst. f_equal. now apply IHe.
  - cbn [lt_eqb] in H. f_equal. revert ys H.
    induction IHms as [|x xs Hx _ IHxs]; intros ys H; destruct ys as [|y ys'];
      try discriminate; [reflexivity|].
    apply andb_true_iff in H as [H1 H2]. f_equal; [now apply Hx|now apply IHxs].
Qed.

Lemma data_store_frame m A K T a z :
  is_data T = true -> safe m A K true T a ->
  (forall x, ~ A x -> store m a (erase T) (VS z) x = m x) /\
  (forall x, K x <> KData -> store m a (erase T) (VS z) x = m x).
Proof.
  intros Hd Hs.
  assert (Hb : bytes_ok A K true a (lsize T)).
  { destruct T; try discriminate; exact Hs. }
  clear Hs. split; intros x Hx; apply store_frame; fold (lsize T);
    destruct (Z.lt_ge_cases x a) as [Hlt|Hge]; try (left; exact Hlt);
    destruct (Z.lt_ge_cases x (a + lsize T)) as [Hin|Hout]; try (right; exact Hout);
    exfalso; destruct (Hb (x - a) ltac:(lia)) as [Hk HA];
    replace (a + (x - a)) with x in * by lia.
  - apply Hx. now apply HA.
  - now apply Hx.
Qed.

(* ---- one statement --------------------------------------------------------------- *)

Theorem stmt_confined m A K f s m' :
  frame_safe m A K f ->
  accepted f s = true ->
  exec_stmt m f s = Some m' ->
  (forall x, ~ A x -> m' x = m x) /\ frame_safe m' A K f.
Proof.
  intros Hf Hacc Hex. unfold accepted, stmt_codes in Hacc.
  destruct (to_mut_stmt f s) as [ms|] eqn:Hms; [|discriminate].
  apply is_nil_true in Hacc.
  destruct s as [d z|d s'|d s']; cbn [to_mut_stmt] in Hms; cbn [exec_stmt] in Hex.
  - destruct (to_mut_ref f d) as [d'|] eqn:Hd; [|discriminate]. inversion Hms; subst ms.
    destruct (ref_loc m f d) as [[a T]|] eqn:Hr; [|discriminate].
    destruct (is_data T) eqn:Hdata; [|discriminate]. inversion Hex; subst m'.
    destruct (accepted_dst m A K f d _ a T Hf d' Hd Hacc Hr) as [Hs _].
    destruct (data_store_frame m A K T a z Hdata Hs) as [H1 H2].
    split; [exact H1|]. eapply frame_safe_mono; [|exact Hf].
    apply safe_ext. exact H2.
  - destruct (to_mut_ref f d) as [d'|] eqn:Hd; [|discriminate].
    destruct (to_mut_ref_at f s' 0 0%N) as [s''|]; [|discriminate]. inversion Hms; subst ms.
    destruct (ref_loc m f d) as [[a T]|] eqn:Hr; [|discriminate].
    destruct (read_scalar m f s') as [z|]; [|discriminate].
    destruct (is_data T) eqn:Hdata; [|discriminate]. inversion Hex; subst m'.
    destruct (accepted_dst m A K f d _ a T Hf d' Hd Hacc Hr) as [Hs _].
    destruct (data_store_frame m A K T a z Hdata Hs) as [H1 H2].
    split; [exact H1|]. eapply frame_safe_mono; [|exact Hf].
    apply safe_ext. exact H2.
  - destruct (to_mut_ref f d) as [d'|] eqn:Hd; [|discriminate].
    destruct (to_mut_ref_at f s' (src_ad f s') 1%N) as [s''|] eqn:Hsrc; [|discriminate].
    inversion Hms; subst ms.
    destruct (ref_loc m f d) as [[a T]|] eqn:Hr; [|discriminate].
    destruct T as [| |U| |]; try discriminate.
    destruct (addr_of m f s') as [[z U']|] eqn:Hao; [|discriminate].
    destruct (lt_eqb U U') eqn:Heq; [|discriminate]. apply lt_eqb_eq in Heq. subst U'.
    inversion Hex; subst m'.
    destruct (accepted_dst m A K f d _ a (LPtr U) Hf d' Hd Hacc Hr) as [Hs Hv].
    (* the source: `&src` is checked by use_variable with is_addressed *)
    cbn [Mutability.mut_expr] in Hv. destruct s'' as [sb ss sad].
    cbn [Mutability.mut_ref] in Hv.
    destruct (Mutability.use_variable (frame_menv f) sb
                (Mutability.is_addressed (Mutability.Ref sb ss sad))) eqn:Hu;
      try discriminate.
    destruct (use_variable_ok f s' (src_ad f s') 1%N (Mutability.Ref sb ss sad) _ Hsrc Hu)
      as (b & rs & tfin & ch & t2 & Hb & He & Hc & Hsteps & Had & Hmut).
    cbn [Mutability.r_steps Mutability.r_ad] in Hsteps, Had. subst ss sad.
    unfold Mutability.is_addressed in Hmut.
    cbn [Mutability.r_ad Mutability.r_steps] in Hmut.
    change (N.ltb 0 1) with true in Hmut. cbn [andb] in Hmut.
    rewrite needs_outer_crosses in Hmut.
    assert (Hw : binding_mutable b || crosses ch = true).
    { destruct (crosses ch); [now rewrite orb_true_r|]. rewrite Hmut; reflexivity. }
    unfold addr_of in Hao.
    destruct (ref_loc_writable m A K f
                {| r_base := r_base s'; r_path := r_path s'; r_ad := src_ad f s' |}
                b rs tfin ch t2 z U Hf Hb He Hc Hw Hao) as [_ Hsz].
    cbn [safe] in Hs. destruct Hs as [Hcell _].
    split.
    + intros x Hx. apply store_frame. change (llvm_alloc_size TPtr) with 8.
      destruct (Z.lt_ge_cases x a) as [Hlt|Hge]; [left; exact Hlt|].
      destruct (Z.lt_ge_cases x (a + 8)) as [Hin|Hout]; [|right; exact Hout].
      exfalso. apply Hx. destruct (Hcell (x - a) ltac:(lia)) as [_ HA].
      replace (a + (x - a)) with x in HA by lia. now apply HA.
    + eapply frame_safe_mono; [|exact Hf].
      apply (safe_ptr_store m A K a U z); [|exact Hsz].
      intros j Hj. now destruct (Hcell j Hj).
Qed.

(* ---- MAIN THEOREM ------------------------------------------------------------------- *)

(* For every set A of addresses and every typing K of memory such that the frame
   is confined to A -- the callee's variables lie in A; the objects its POINTER
   parameters (&T, &[]T) point to lie in A; every pointer stored in any object
   the callee can see (in those objects, in its variables, but also in the
   objects its VIEW parameters and constants denote) points to an object in A,
   transitively --: a body accepted by mutability.rs, if its execution is
   defined, leaves every address outside A as it was. *)
Theorem callee_writes_confined : forall body m A K f m',
  frame_safe m A K f ->
  accepted_body f body = true ->
  exec_body m f body = Some m' ->
  (forall x, ~ A x -> m' x = m x) /\ frame_safe m' A K f.
Proof.
  induction body as [|s rest IH]; intros m A K f m' Hf Hacc Hex.
  - cbn [exec_body] in Hex. inversion Hex; subst m'. split; [reflexivity|exact Hf].
  - cbn [accepted_body forallb] in Hacc. apply andb_true_iff in Hacc as [Hs Hrest].
    cbn [exec_body] in Hex. destruct (exec_stmt m f s) as [m1|] eqn:H1; [|discriminate].
    destruct (stmt_confined m A K f s m1 Hf Hs H1) as [Hout1 Hf1].
    destruct (IH m1 A K f m' Hf1 Hrest Hex) as [Hout2 Hf2].
    split; [|exact Hf2]. intros x Hx. rewrite Hout2 by exact Hx. now apply Hout1.
Qed.

(* ---- corollaries (generic form) ------------------------------------------------------- *)

(* (a) An object passed by value has no storage the callee shares (it is an SSA
   value); an object passed as a view ([]T, a structure) -- any set of addresses
   [Obj], in fact -- is bit-for-bit unchanged, PROVIDED it does not overlap the
   confinement set A.  (With `f(a, &a)` it does overlap: see [aliasing_example].) *)
Corollary view_object_unchanged body m A K f m' (Obj : Z -> Prop) :
  frame_safe m A K f -> accepted_body f body = true -> exec_body m f body = Some m' ->
  (forall x, Obj x -> ~ A x) ->
  forall x, Obj x -> m' x = m x.
Proof.
  intros Hf Hacc Hex Hdis x Hx.
  exact (proj1 (callee_writes_confined body m A K f m' Hf Hacc Hex) x (Hdis x Hx)).
Qed.

(* (c) Constants: the storage of a constant is never the target of an accepted
   assignment, so it may be left out of A; then it is unchanged.  (Same statement
   as (a): a constant is confined with w = false, like a view.) *)
Corollary constant_unchanged body m A K f m' a T :
  frame_safe m A K f -> accepted_body f body = true -> exec_body m f body = Some m' ->
  (forall x, a <= x < a + lsize T -> ~ A x) ->
  forall x, a <= x < a + lsize T -> m' x = m x.
Proof.
  intros Hf Hacc Hex Hdis.
  exact (view_object_unchanged body m A K f m' (fun x => a <= x < a + lsize T)
           Hf Hacc Hex Hdis).
Qed.

(* ---- examples: the gate at work ---------------------------------------------------------- *)

Definition i32 : pty := PInt 4.
Definition Holder : pty := PStruct [i32; PPtr i32].     (* struct Holder { a: i32, p: &i32 } *)

Definition rf (b : nat) (p : path) (ad : nat) : reference :=
  {| r_base := b; r_path := p; r_ad := ad |}.

(* The caller: var x: i32 = 7 at 1000; var arr: [4]i32 = [1,2,3,4] at 1100;
   var h = Holder { a: 70, p: &x } at 1200; var y: i32 = 8 at 1300;
   var ps: [1]&i32 = [&x] at 1400. *)
Definition caller_inits : list (Z * ty * value) :=
  [(1000, TInt 4, VS 7);
   (1100, TArr 4 (TInt 4), VArr [VS 1; VS 2; VS 3; VS 4]);
   (1200, erase (gen Holder), VStruct [VS 70; VS 1000]);
   (1300, TInt 4, VS 8);
   (1400, TArr 1 TPtr, VArr [VS 1000])].

Definition caller_probe : list range :=
  [(1000, 1004); (1100, 1116); (1200, 1216); (1300, 1304); (1400, 1408)].

(* fn f(p: &i32) { p = 5; }   f(&x): accepted, and it does change x. *)
Example pointer_param_writes_caller :
  run_frame_case [arg_pointer 1000 i32] caller_inits [SSetConst (rf 0 [] 0) 5]
    caller_probe false
  = CaseRan [1000; 1001; 1002; 1003] [] [].
Proof. vm_compute. reflexivity. Qed.

(* fn f(v: []i32) { v[1] = 9; }   f(arr): rejected (E530); executed nevertheless,
   the store WOULD change arr[1] in the caller -- the gate is what protects it. *)
Example view_write_rejected :
  run_frame_case [arg_slice 1100 4 i32] caller_inits [SSetConst (rf 0 [SElem 1] 0) 9]
    caller_probe false
  = CaseRejected [Mutability.E530]
  /\ run_frame_case [arg_slice 1100 4 i32] caller_inits [SSetConst (rf 0 [SElem 1] 0) 9]
       caller_probe true
     = CaseRan [1104; 1105; 1106; 1107] [1104; 1105; 1106; 1107] [1104; 1105; 1106; 1107].
Proof. split; vm_compute; reflexivity. Qed.

(* fn f(s: Holder) { s.a = 5; }   f(h): rejected;  fn f(x: i32) { x = 9; }: rejected. *)
Example struct_view_member_write_rejected :
  run_frame_case [arg_view 1200 Holder] caller_inits [SSetConst (rf 0 [SMember 0] 0) 5]
    caller_probe false = CaseRejected [Mutability.E530]
  /\ run_frame_case [arg_value i32 3] caller_inits [SSetConst (rf 0 [] 0) 9]
       caller_probe false = CaseRejected [Mutability.E530].
Proof. split; vm_compute; reflexivity. Qed.

(* fn f(v: []i32, p: &[]i32) { p[2] = 9; }   f(arr, &arr): the view and the pointer
   overlap; accepted; the object "passed as a view" DOES change (at arr[2]) -- inside
   the region reachable from the pointer parameter. *)
Example aliasing_example :
  run_frame_case [arg_slice 1100 4 i32; arg_slice_pointer 1100 4 i32] caller_inits
    [SSetConst (rf 1 [SElem 2] 0) 9] caller_probe false
  = CaseRan [1108; 1109; 1110; 1111] [] [].
Proof. vm_compute. reflexivity. Qed.

(* fn f(p: &i32) { var t: i32; &p = &t; }: re-pointing a pointer PARAMETER is rejected
   (the parameter binding is immutable, and no pointer is crossed). *)
Example repoint_pointer_param_rejected :
  run_frame_case [arg_pointer 1000 i32; local_var 2000 i32] caller_inits
    [SSetAddr (rf 0 [] 1) (rf 1 [] 0)] caller_probe false
  = CaseRejected [Mutability.E530].
Proof. vm_compute. reflexivity. Qed.

(* fn f(v: []i32) { var q: &i32; &q = &v[1]; }: taking the address of a view element
   is rejected (is_addressed). *)
Example address_of_view_element_rejected :
  run_frame_case [arg_slice 1100 4 i32; local_var 2008 (PPtr i32)] caller_inits
    [SSetAddr (rf 1 [] 1) (rf 0 [SElem 1] 0)] caller_probe false
  = CaseRejected [Mutability.E530].
Proof. vm_compute. reflexivity. Qed.

(* fn f(v: []i32, out: &i32) { var t: i32; var q: &i32; t = v[3]; &q = &t; q = 11;
   out = t; }   f(arr, &y): accepted; only t, q and y change. *)
Example locals_and_pointer_example :
  run_frame_case
    [arg_slice 1100 4 i32; local_var 2000 i32; local_var 2008 (PPtr i32); arg_pointer 1300 i32]
    caller_inits
    [SCopy (rf 1 [] 0) (rf 0 [SElem 3] 0); SSetAddr (rf 2 [] 1) (rf 1 [] 0);
     SSetConst (rf 2 [] 0) 11; SCopy (rf 3 [] 0) (rf 1 [] 0)]
    ((2000, 2016) :: caller_probe) false
  = CaseRan [2000; 2001; 2002; 2003; 2008; 2009; 2010; 2011; 2012; 2013; 2014; 2015;
             1300; 1301; 1302; 1303] [] [].
Proof. vm_compute. reflexivity. Qed.

(* Index outside the slice length: undefined. *)
Example out_of_range_undefined :
  run_frame_case [arg_slice_pointer 1100 4 i32] caller_inits
    [SSetConst (rf 0 [SElem 4] 0) 9] caller_probe false = CaseUndefined.
Proof. vm_compute. reflexivity. Qed.

(* ---- REFUTATION of the property as worded ----------------------------------------------- *)

(* "A function can change a caller's variable only if ... the parameter has pointer
   type (&T, &[]T)" is FALSE of the compiler:

     struct Holder { a: i32, p: &i32 }
     fn poke(h: Holder) { h.p = 5; }            // accepted
     fn main() -> i32 { var x: i32 = 7; var h = Holder { a: 70, p: &x }; poke(h);
                        return: x }             // 5

   The parameter is a VIEW; the chain is Autoview, Member p, Autoderef;
   needs_outer_mutability stops at the Autoderef and never asks whether the pointer
   was read out of a read-only object.  The bytes of x (1000..1003) change; they
   are outside [allowed true] (the callee's own variables and what is reachable
   from pointer-typed parameters) -- and inside [allowed false]. *)
Theorem pointer_params_only_refuted :
  exists f inits body probe ch out_strict,
    Forall (fun b => param_class (b_ty b) <> CPointer) f /\
    accepted_body f body = true /\
    run_frame_case f inits body probe false = CaseRan ch [] out_strict /\
    out_strict <> [].
Proof.
  exists [arg_view 1200 Holder], caller_inits, [SSetConst (rf 0 [SMember 1] 0) 5],
    caller_probe, [1000; 1001; 1002; 1003], [1000; 1001; 1002; 1003].
  split; [repeat constructor; discriminate|].
  split; [vm_compute; reflexivity|]. split; [vm_compute; reflexivity|discriminate].
Qed.

(* The same through an array view of pointers:
     fn poke(v: []&i32) { v[0] = 5; }   var ps: [1]&i32 = [&x]; poke(ps);   // x = 5 *)
Theorem pointer_params_only_refuted_slice :
  exists f body ch out_strict,
    Forall (fun b => param_class (b_ty b) <> CPointer) f /\
    accepted_body f body = true /\
    run_frame_case f caller_inits body caller_probe false = CaseRan ch [] out_strict /\
    out_strict <> [].
Proof.
  exists [arg_slice 1400 1 (PPtr i32)], [SSetConst (rf 0 [SElem 0] 0) 5],
    [1000; 1001; 1002; 1003], [1000; 1001; 1002; 1003].
  split; [repeat constructor; discriminate|].
  split; [vm_compute; reflexivity|]. split; [vm_compute; reflexivity|discriminate].
Qed.

(* ---- the typing hypothesis K is needed ---------------------------------------------------- *)

(* Without the shadow typing (an integer and a pointer at the same address: what a
   caller can only build with casts) even [allowed false] is escaped:
     fn f(p: &i64, q: &&i32) { p = 1300; q = 1; }   with p and q both 3000,
   where the cell at 3000 holds the address 1000: the first store overwrites the
   pointer q points to, the second writes y at 1300. *)
Theorem untyped_memory_refuted :
  exists f inits body probe ch out_allowed,
    accepted_body f body = true /\
    run_frame_case f inits body probe false = CaseRan ch out_allowed out_allowed /\
    out_allowed <> [].
Proof.
  exists [arg_pointer 3000 (PInt 8); arg_pointer 3000 (PPtr i32)],
    ((3000, TPtr, VS 1000) :: caller_inits),
    [SSetConst (rf 0 [] 0) 1300; SSetConst (rf 1 [] 0) 1],
    ((3000, 3008) :: caller_probe),
    [3000; 3001; 3002; 3003; 3004; 3005; 3006; 3007; 1300; 1301; 1302; 1303],
    [1300; 1301; 1302; 1303].
  split; [vm_compute; reflexivity|]. split; [vm_compute; reflexivity|discriminate].
Qed.

(* ---- first-order frames: no hypothesis about memory at all ---------------------------------- *)

Fixpoint ptr_free (T : lt) : bool :=
  match T with
  | LInt _ | LBool => true
  | LPtr _ => false
  | LArr _ e => ptr_free e
  | LStruct ms =>
      (fix go (l : list lt) : bool :=
         match l with
         | [] => true
         | x :: r => ptr_free x && go r
         end) ms
  end.

Fixpoint ptr_free_list (l : list lt) : bool :=
  match l with
  | [] => true
  | x :: r => ptr_free x && ptr_free_list r
  end.

Lemma ptr_free_struct ms : ptr_free (LStruct ms) = ptr_free_list ms.
Proof.
  cbn [ptr_free]. induction ms as [|x r IH]; [reflexivity|].
  cbn [ptr_free_list]. now rewrite IH.
Qed.

Lemma ptr_free_list_nth ms : forall k mk,
  ptr_free_list ms = true -> nth_error ms k = Some mk -> ptr_free mk = true.
Proof.
  induction ms as [|x r IH]; intros k mk H Hk; [destruct k; discriminate|].
  cbn [ptr_free_list] in H. apply andb_true_iff in H as [Hx Hr].
  destruct k as [|k']; cbn [nth_error] in Hk; [now inversion Hk; subst|].
  eapply IH; eassumption.
Qed.

Lemma safe_members_intro m A K w a : forall ms offs,
  (forall k mk off, nth_error ms k = Some mk -> nth_error offs k = Some off ->
     safe m A K w mk (a + off)) ->
  safe_members m A K w a ms offs.
Proof.
  induction ms as [|x r IH]; intros offs H; [exact I|].
  destruct offs as [|o offs']; [exact I|]. cbn [safe_members]. split.
  - exact (H O x o eq_refl eq_refl).
  - apply IH. intros k mk off Hm Ho. exact (H (S k) mk off Hm Ho).
Qed.

(* An object without pointer cells is confined as soon as its bytes are (if it is
   to be written); memory and typing play no role. *)
Lemma safe_ptrfree m (A : Z -> Prop) w : forall T a,
  ptr_free T = true -> wf_ty (erase T) = true ->
  (w = true -> forall x, a <= x < a + lsize T -> A x) ->
  safe m A (fun _ => KData) w T a.
Proof.
  induction T as [b| |u IHu|n e IHe|ms IHms] using lt_ind2; intros a Hpf Hwf HA.
  - cbn [safe]. intros j Hj. split; [reflexivity|]. intros Hw. apply (HA Hw). lia.
  - cbn [safe]. intros j Hj. split; [reflexivity|]. intros Hw. apply (HA Hw). lia.
  - discriminate.
  - cbn [safe]. intros i Hi. cbn [ptr_free] in Hpf. cbn [erase wf_ty] in Hwf.
    apply andb_true_iff in Hwf as [_ Hwe]. apply IHe; [exact Hpf|exact Hwe|].
    intros Hw x Hx. apply (HA Hw). unfold lsize in *. cbn [erase].
    rewrite llvm_alloc_size_arr.
    pose proof (llvm_alloc_size_nonneg (erase e) Hwe) as Hnn. nia.
  - rewrite safe_struct. apply safe_members_intro. intros k mk off Hmk Hoff.
    rewrite ptr_free_struct in Hpf. rewrite erase_struct, wf_ty_struct in Hwf.
    pose proof (erase_list_nth' ms k mk Hmk) as Hek.
    rewrite Forall_forall in IHms.
    apply (IHms mk (nth_error_In _ _ Hmk)).
    + eapply ptr_free_list_nth; eassumption.
    + eapply wf_ty_list_nth; eassumption.
    + intros Hw x Hx. apply (HA Hw).
      destruct (well_placed_nth (erase_list ms) 0 _ _ k (erase mk) off
                  (nonneg_sizes _ Hwf) (struct_offsets_well_placed _) Hek Hoff)
        as [H0 [_ Hhi]].
      unfold lsize in *. rewrite erase_struct. lia.
Qed.

(* The regions of a first-order frame: the callee's variables and the objects its
   pointer parameters point to (no memory needed to compute them). *)
Definition flat_ranges (b : binding) : list range :=
  match b_kind b, b_store b, b_ty b with
  | KLocal, SAddr a, t => [obj_range a (gen t)]
  | KParam, SImm z, PPtr u => [obj_range z (gen u)]
  | KParam, SImmSlice p len, PSlicePtr e => [obj_range p (LArr len (gen e))]
  | _, _, _ => []
  end.

Definition flat_allowed (f : frame) : list range := flat_map flat_ranges f.

(* Every object the binding gives access to is free of pointer cells. *)
Definition flat_binding (b : binding) : Prop :=
  storage_ok b = true /\
  match b_store b, b_ty b with
  | SAddr _, t => ptr_free (gen t) = true /\ wf_ty (erase (gen t)) = true
  | SImm _, (PPtr u | PView u) => ptr_free (gen u) = true /\ wf_ty (erase (gen u)) = true
  | SImmSlice _ len, (PSlice e | PSlicePtr e) =>
      ptr_free (gen e) = true /\ wf_ty (erase (gen e)) = true /\ 0 <= len
  | _, _ => True
  end.

Lemma in_flat_allowed f k b r x :
  nth_error f k = Some b -> In r (flat_ranges b) -> in_range x r = true ->
  in_ranges x (flat_allowed f) = true.
Proof.
  intros Hk Hr Hx. unfold in_ranges, flat_allowed. apply existsb_exists. exists r.
  split; [|exact Hx]. apply in_flat_map. exists b. split; [|exact Hr].
  eapply nth_error_In. exact Hk.
Qed.

Lemma in_obj_range a T x : a <= x < a + lsize T -> in_range x (obj_range a T) = true.
Proof.
  intros H. unfold in_range, obj_range. cbn [fst snd].
  apply andb_true_iff. split; [apply Z.leb_le|apply Z.ltb_lt]; lia.
Qed.

Lemma flat_frame_safe m f :
  (forall k b, nth_error f k = Some b -> flat_binding b) ->
  frame_safe m (fun x => in_ranges x (flat_allowed f) = true) (fun _ => KData) f.
Proof.
  intros Hflat k b Hk. destruct (Hflat k b Hk) as [Hst Hb].
  assert (Hin : forall r x, In r (flat_ranges b) -> in_range x r = true ->
                            in_ranges x (flat_allowed f) = true).
  { intros r x. exact (in_flat_allowed f k b r x Hk). }
  unfold binding_safe, base_loc, binding_mutable.
  unfold storage_ok in Hst. unfold flat_ranges in Hin.
  destruct (b_store b) as [a|z|p len].
  - (* alloca / global *)
    destruct Hb as [Hpf Hwf]. cbn [loc_ok with_len]. split; [reflexivity|].
    apply safe_ptrfree; [exact Hpf|exact Hwf|]. intros Hw x Hx.
    destruct (b_kind b); try discriminate Hw.
    eapply Hin; [left; reflexivity|now apply in_obj_range].
  - (* pointer / view / scalar immediate *)
    destruct (b_ty b) as [sz| |n e|ms|u|u|e|e|e]; try exact I;
      destruct (b_kind b); try discriminate Hst; destruct Hb as [Hpf Hwf];
      cbn [loc_ok]; (split; [reflexivity|]);
      (apply safe_ptrfree; [exact Hpf|exact Hwf|]); intros Hw x Hx; try discriminate Hw.
    eapply Hin; [left; reflexivity|now apply in_obj_range].
  - (* slice / slice pointer immediate *)
    destruct (b_ty b) as [sz| |n e|ms|u|u|e|e|e]; try exact I;
      destruct (b_kind b); try discriminate Hst; destruct Hb as [Hpf [Hwf Hlen]];
      cbn [loc_ok]; (split; [reflexivity|]);
      (apply safe_ptrfree;
       [exact Hpf
       |cbn [erase wf_ty]; apply andb_true_iff; split; [now apply Z.leb_le|exact Hwf]
       |]); intros Hw x Hx; try discriminate Hw.
    eapply Hin; [left; reflexivity|now apply in_obj_range].
Qed.

(* A callee all of whose visible objects are free of pointer cells changes nothing
   but its own variables and the objects its pointer parameters (&T, &[]T) point
   to.  No hypothesis on memory, none on aliasing. *)
Theorem flat_frame_confined f body m m' :
  (forall k b, nth_error f k = Some b -> flat_binding b) ->
  accepted_body f body = true ->
  exec_body m f body = Some m' ->
  forall x, in_ranges x (flat_allowed f) = false -> m' x = m x.
Proof.
  intros Hflat Hacc Hex x Hx.
  refine (proj1 (callee_writes_confined body m _ _ f m' (flat_frame_safe m f Hflat) Hacc Hex)
            x _).
  rewrite Hx. discriminate.
Qed.

(* (b) No pointer parameter: nothing but the callee's own variables changes -- all
   caller memory disjoint from them is unchanged. *)
Lemma flat_allowed_no_pointer f :
  Forall (fun b => b_kind b = KParam -> param_class (b_ty b) <> CPointer) f ->
  flat_allowed f = own_ranges f.
Proof.
  induction 1 as [|b rest Hb _ IH]; [reflexivity|].
  unfold flat_allowed, own_ranges in *. cbn [flat_map]. rewrite IH. f_equal.
  unfold flat_ranges. destruct (b_kind b) eqn:Hk; [|destruct (b_store b); reflexivity|
    destruct (b_store b); reflexivity].
  specialize (Hb eq_refl).
  destruct (b_store b); destruct (b_ty b); try reflexivity; exfalso; apply Hb; reflexivity.
Qed.

Corollary no_pointer_parameter_no_effect f body m m' :
  (forall k b, nth_error f k = Some b -> flat_binding b) ->
  Forall (fun b => b_kind b = KParam -> param_class (b_ty b) <> CPointer) f ->
  accepted_body f body = true ->
  exec_body m f body = Some m' ->
  forall x, in_ranges x (own_ranges f) = false -> m' x = m x.
Proof.
  intros Hflat Hnp Hacc Hex x Hx. rewrite <- (flat_allowed_no_pointer f Hnp) in Hx.
  exact (flat_frame_confined f body m m' Hflat Hacc Hex x Hx).
Qed.

(* ---- the verdict is Mutability.v's, literally ------------------------------------------------ *)

Fixpoint to_mut_body (f : frame) (body : list stmt) : option (list Mutability.stmt) :=
  match body with
  | [] => Some []
  | s :: rest =>
      match to_mut_stmt f s, to_mut_body f rest with
      | Some ms, Some mr => Some (ms :: mr)
      | _, _ => None
      end
  end.

Lemma to_mut_stmt_assignment f s ms :
  to_mut_stmt f s = Some ms -> exists r v, ms = Mutability.SAssignment r v.
Proof.
  destruct s as [d z|d s'|d s']; cbn [to_mut_stmt]; intros H.
  - destruct (to_mut_ref f d); [|discriminate]. inversion H. eauto.
  - destruct (to_mut_ref f d); [|discriminate].
    destruct (to_mut_ref_at f s' 0 0%N); [|discriminate]. inversion H. eauto.
  - destruct (to_mut_ref f d); [|discriminate].
    destruct (to_mut_ref_at f s' (src_ad f s') 1%N); [|discriminate]. inversion H. eauto.
Qed.

(* The codes of a body are what Mutability.mut_stmts (the statement loop of
   `impl Analyzable for FunctionBody`) reports for the translated statements in
   the analyzer state of the frame. *)
Theorem body_codes_literal f : forall body mb,
  to_mut_body f body = Some mb ->
  Mutability.mut_stmts (frame_menv f) mb = (frame_menv f, body_codes f body).
Proof.
  induction body as [|s rest IH]; intros mb H.
  - cbn [to_mut_body] in H. inversion H. reflexivity.
  - cbn [to_mut_body] in H.
    destruct (to_mut_stmt f s) as [ms|] eqn:Hs; [|discriminate].
    destruct (to_mut_body f rest) as [mr|] eqn:Hr; [|discriminate].
    inversion H; subst mb. cbn [Mutability.mut_stmts].
    destruct (to_mut_stmt_assignment f s ms Hs) as (r & v & ->).
    unfold body_codes. cbn [flat_map]. unfold stmt_codes at 1. rewrite Hs.
    cbn [Mutability.mut_stmt]. rewrite (IH mr eq_refl). reflexivity.
Qed.

(* ---- the hypotheses are satisfiable --------------------------------------------------------- *)

(* fn f(v: []i32, out: &i32) { var t: i32; t = v[3]; out = t; }   f(arr, &y) *)
Example flat_frame_example :
  let f := [arg_slice 1100 4 i32; local_var 2000 i32; arg_pointer 1300 i32] in
  let body := [SCopy (rf 1 [] 0) (rf 0 [SElem 3] 0); SCopy (rf 2 [] 0) (rf 1 [] 0)] in
  (forall k b, nth_error f k = Some b -> flat_binding b) /\
  accepted_body f body = true /\
  flat_allowed f = [(2000, 2004); (1300, 1304)] /\
  exists m', exec_body (mem_of caller_inits (fun _ => CPad)) f body = Some m'.
Proof.
  cbv zeta. split; [|split; [vm_compute; reflexivity|split; [vm_compute; reflexivity|]]].
  - intros k b Hk.
    destruct k as [|[|[|k]]]; cbn [nth_error] in Hk; try (destruct k; discriminate);
      inversion Hk; subst b; vm_compute; repeat split; discriminate.
  - vm_compute. eexists. reflexivity.
Qed.

(* A frame with a real pointer cell: fn poke(h: Holder) {...}   poke(h), h.p = &x.
   Whatever accepted body poke has, only the four bytes of x can change: h itself
   (passed as a view), arr, y, ps are unchanged. *)
Definition holder_K (x : Z) : ktag :=
  if (1208 <=? x) && (x <? 1216) then KPtr (LInt 4) (x - 1208) else KData.

Example holder_view_confined : forall body m',
  let m0 := mem_of caller_inits (fun _ => CPad) in
  accepted_body [arg_view 1200 Holder] body = true ->
  exec_body m0 [arg_view 1200 Holder] body = Some m' ->
  forall x, ~ (1000 <= x < 1004) -> m' x = m0 x.
Proof.
  intros body m' m0 Hacc Hex.
  refine (proj1 (callee_writes_confined body m0 (fun x => 1000 <= x < 1004) holder_K
                   [arg_view 1200 Holder] m' _ Hacc Hex)).
  intros k b Hk. destruct k as [|k]; [|destruct k; discriminate].
  cbn [nth_error] in Hk. inversion Hk; subst b.
  unfold binding_safe. cbn [base_loc arg_view b_store b_ty loc_ok].
  split; [reflexivity|]. unfold Holder. rewrite gen_struct. cbn [with_len].
  rewrite safe_struct.
  change (struct_offsets (erase_list (gen_list [i32; PPtr i32]))) with [0; 8].
  cbn [gen_list safe_members gen i32]. split; [|split; [|exact I]].
  - cbn [safe]. change (lsize (LInt 4)) with 4. intros j Hj. split; [|discriminate].
    unfold holder_K.
    destruct (Z.leb_spec 1208 (1200 + 0 + j)); destruct (Z.ltb_spec (1200 + 0 + j) 1216);
      try lia; reflexivity.
  - cbn [safe]. split.
    + intros j Hj. split; [|discriminate]. unfold holder_K.
      destruct (Z.leb_spec 1208 (1200 + 8 + j)); destruct (Z.ltb_spec (1200 + 8 + j) 1216);
        try lia. cbn [andb]. f_equal. lia.
    + intros z Hz. assert (Hz0 : load_scalar m0 (1200 + 8) 8 = Some 1000) by (vm_compute; reflexivity).
      rewrite Hz0 in Hz. inversion Hz; subst z.
      change (lsize (LInt 4)) with 4. intros j Hj. split; [|intros _; lia].
      unfold holder_K.
      destruct (Z.leb_spec 1208 (1000 + j)); destruct (Z.ltb_spec (1000 + j) 1216);
        try lia; reflexivity.
Qed.

Print Assumptions callee_writes_confined.
Print Assumptions flat_frame_confined.
Print Assumptions no_pointer_parameter_no_effect.
Print Assumptions pointer_params_only_refuted.
Print Assumptions untyped_memory_refuted.
Print Assumptions holder_view_confined.
